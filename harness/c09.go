package main

import (
	"fmt"
	"math"
	"regexp"
	"sort"
	"strconv"
	"strings"
	"time"

	"github.com/sarchlab/akita/v4/mem/vm"
	"github.com/sarchlab/akita/v4/sim"
	"github.com/sarchlab/akita/v4/sim/directconnection"
	"github.com/sarchlab/mgpusim/v4/amd/emu"
	"github.com/sarchlab/mgpusim/v4/amd/insts"
	"github.com/sarchlab/mgpusim/v4/amd/kernels"
	"github.com/sarchlab/mgpusim/v4/amd/protocol"
	"github.com/sarchlab/mgpusim/v4/amd/timing/cp"
	timingcu "github.com/sarchlab/mgpusim/v4/amd/timing/cu"
	shim "github.com/sarchlab/mgpusim/v4/amd/timing/cp/verifshimc09"
)

// C09 — work-groups are dispatched exactly once within compute-unit resources.
//
// Case lines (one scenario each):
//   c09 mask <n|u> ; next len st ; set off len st ; conv a b ; count st      real resourceMaskImpl
//   c09 res <cu> ; r key nwf s v l ; f key ; p                               real CUResourcePoolImpl/CUResourceImpl
//   c09 cp alg=.. nd=8 klo= ko= sklo= thr= cus=<cu>|.. ; launch gx wx s v l ; tick ; ticks n ;
//          done k ; doneb k,.. ; room cu|drv n ; probe                       real cp.CommandProcessor
//          (cp.MakeBuilder, harness CUs, hand-moved messages)
// plus two oracle-only routes: the partition algorithm on the real command processor and
// real emulation compute units answering the real command processor under a real engine.
// <cu> = wf,wf,../sregs/vregs,vregs,../ldsbytes with `u` for an unlimited count.

func init() { register("C09", runC09) }

// ---------------------------------------------------------------- CU shapes

type c09Shape struct {
	wf  []int
	s   int // -1 unlimited
	v   []int
	lds int
}

func c09Cnt(n int) string {
	if n < 0 {
		return "u"
	}
	return strconv.Itoa(n)
}

func (c c09Shape) String() string {
	w := make([]string, len(c.wf))
	for i, x := range c.wf {
		w[i] = strconv.Itoa(x)
	}
	v := make([]string, len(c.v))
	for i, x := range c.v {
		v[i] = c09Cnt(x)
	}
	return strings.Join(w, ",") + "/" + c09Cnt(c.s) + "/" + strings.Join(v, ",") + "/" + c09Cnt(c.lds)
}

func (c c09Shape) badGranularity() bool {
	if c.s >= 0 && c.s%16 != 0 {
		return true
	}
	for _, v := range c.v {
		if v >= 0 && v%256 != 0 {
			return true
		}
	}
	return c.lds >= 0 && c.lds%256 != 0
}

// c09CU implements cp.CUInterfaceForCP (resource.DispatchableCU + ControlPort).
type c09CU struct {
	name  string
	shape c09Shape
}

func (c *c09CU) DispatchingPort() sim.RemotePort { return sim.RemotePort(c.name + ".ToACE") }
func (c *c09CU) ControlPort() sim.RemotePort     { return sim.RemotePort(c.name + ".ToCP") }
func (c *c09CU) WfPoolSizes() []int              { return append([]int(nil), c.shape.wf...) }
func (c *c09CU) VRegCounts() []int               { return append([]int(nil), c.shape.v...) }
func (c *c09CU) SRegCount() int                  { return c.shape.s }
func (c *c09CU) LDSBytes() int                   { return c.shape.lds }

func c09RandShape(rng *Rng) c09Shape {
	switch {
	case rng.Chance(8): // the shipped timing CU
		return c09Shape{wf: []int{10, 10, 10, 10}, s: 3200, v: []int{16384, 16384, 16384, 16384}, lds: 65536}
	case rng.Chance(8): // what the emulation CU reports
		return c09Shape{wf: []int{math.MaxInt32}, s: -1, v: []int{-1}, lds: -1}
	}
	n := rng.Pick(1, 1, 2, 2, 3, 4)
	sh := c09Shape{}
	for i := 0; i < n; i++ {
		sh.wf = append(sh.wf, rng.Pick(0, 1, 1, 2, 2, 3, 4, 10))
		if rng.Chance(7) {
			sh.v = append(sh.v, -1)
		} else {
			sh.v = append(sh.v, 256*rng.Pick(1, 1, 2, 3, 4, 8, 64))
		}
	}
	sh.s = 16 * rng.Pick(1, 2, 3, 4, 6, 8, 12, 200)
	if rng.Chance(7) {
		sh.s = -1
	}
	sh.lds = 256 * rng.Pick(1, 1, 2, 3, 4, 8, 256)
	if rng.Chance(7) {
		sh.lds = -1
	}
	if rng.Chance(2) { // not a multiple of the granularity: RegisterCU panics
		switch rng.Intn(3) {
		case 0:
			sh.s = 8 + 16*rng.Intn(4)
		case 1:
			sh.v[0] = 100 + 256*rng.Intn(3)
		default:
			sh.lds = 100 + 256*rng.Intn(3)
		}
	}
	return sh
}

// ---------------------------------------------------------------- demands

type c09Dem struct{ nwf, s, v, l int }

func c09Units(a, g int) int { return (a + g - 1) / g }

func c09RandS(rng *Rng) int { return rng.Pick(0, 1, 15, 16, 16, 17, 31, 32, 33, 48, 100, 102) }
func c09RandV(rng *Rng) int { return rng.Pick(0, 1, 3, 4, 4, 5, 8, 9, 16, 64, 128, 255, 256) }
func c09RandL(rng *Rng) int { return rng.Pick(0, 0, 1, 255, 256, 256, 257, 512, 513, 1000, 1024, 65536) }

// fitsEmpty: does a work-group fit the *empty* CU? (independent of the code under test)
func (c c09Shape) fitsEmpty(d c09Dem) bool {
	if c.s >= 0 && c09Units(d.s, 16)*d.nwf > c.s/16 {
		return false
	}
	if c.lds >= 0 && c09Units(d.l, 256) > c.lds/256 {
		return false
	}
	total := 0
	for k := range c.wf {
		slots := c.wf[k]
		if k < len(c.v) && c.v[k] >= 0 && c09Units(d.v, 4) > 0 {
			if byReg := (c.v[k] / 256) / c09Units(d.v, 4); byReg < slots {
				slots = byReg
			}
		}
		total += slots
		if total >= d.nwf {
			return true
		}
	}
	return total >= d.nwf
}

// ---------------------------------------------------------------- mask scenarios

func c09MaskCase(r *Run, rng *Rng) {
	n := rng.Pick(0, 1, 2, 3, 5, 8, 8, 13, 16, 64, 200)
	unl := rng.Chance(8)
	cfg := strconv.Itoa(n)
	size := n
	if unl {
		cfg, size = "u", -1
	}
	m := shim.NewMask(size)
	ops, outs := []string{"c09 mask " + cfg}, []string{}
	dead := false
	nops := rng.Range(3, 24)
	for i := 0; i < nops; i++ {
		var op, out string
		switch rng.Intn(10) {
		case 0, 1, 2:
			l, st := rng.Pick(0, 1, 1, 2, 3, 4, n, n+1), rng.Pick(0, 0, 0, 1, 2)
			op = fmt.Sprintf("next %d %d", l, st)
			if !dead {
				off, ok := m.NextRegion(l, st)
				out = "none"
				if ok {
					out = fmt.Sprintf("at%d", off)
				}
			}
		case 3, 4, 5, 6:
			off, l, st := rng.Intn(n+1), rng.Pick(0, 1, 2, 3, 4), rng.Pick(0, 1, 1, 2, 2)
			if rng.Chance(90) && off+l > n { // mostly in range
				l = n - off
			}
			op = fmt.Sprintf("set %d %d %d", off, l, st)
			if !dead {
				f := catch(func() { m.SetStatus(off, l, st) })
				out = m.String()
				if f != "" {
					out, dead = "fault:"+f, true
				}
			}
		case 7, 8:
			a, b := rng.Pick(0, 1, 1, 2), rng.Pick(0, 0, 2, 2, 1)
			op = fmt.Sprintf("conv %d %d", a, b)
			if !dead {
				m.ConvertStatus(a, b)
				out = m.String()
			}
		default:
			st := rng.Intn(3)
			op = fmt.Sprintf("count %d", st)
			if !dead {
				out = strconv.Itoa(m.StatusCount(st))
			}
		}
		if out == "" {
			out = "X"
		}
		ops, outs = append(ops, op), append(outs, out)
	}
	r.Count("c09.mask")
	r.Case(strings.Join(ops, " ; "), strings.Join(outs, " "))
}

// ---------------------------------------------------------------- resident-set oracle (shared by res and cp)

type c09Range struct{ lo, hi int } // [lo,hi)

func (a c09Range) overlaps(b c09Range) bool { return a.lo < b.hi && b.lo < a.hi && a.lo < a.hi && b.lo < b.hi }

type c09Resident struct {
	name string
	dem  c09Dem
	locs []shim.WfLocation
}

// c09Occupancy is the harness' own picture of one CU: who is resident where (bytes).
type c09Occupancy struct {
	shape    c09Shape
	resident map[string]*c09Resident
}

func newC09Occ(sh c09Shape) *c09Occupancy {
	return &c09Occupancy{shape: sh, resident: map[string]*c09Resident{}}
}

// admit checks a new work-group's placement against the CU's capacity and against everything
// resident, then records it. fail(sig, detail) reports.
func (o *c09Occupancy) admit(name string, d c09Dem, locs []shim.WfLocation, fail func(sig, detail string)) {
	sh := o.shape
	if len(locs) != d.nwf {
		fail("C09.map.wavefronts", fmt.Sprintf("%s: %d locations for %d wavefronts", name, len(locs), d.nwf))
	}
	perSimd := map[int]int{}
	for _, r := range o.resident {
		for _, l := range r.locs {
			perSimd[l.SIMDID]++
		}
	}
	for i, l := range locs {
		if l.SIMDID < 0 || l.SIMDID >= len(sh.wf) {
			fail("C09.capacity.simd", fmt.Sprintf("%s wf%d: SIMD %d of %d", name, i, l.SIMDID, len(sh.wf)))
			continue
		}
		perSimd[l.SIMDID]++
		if perSimd[l.SIMDID] > sh.wf[l.SIMDID] {
			fail("C09.capacity.wfslots", fmt.Sprintf("%s wf%d: %d wavefronts on SIMD %d with %d slots", name, i, perSimd[l.SIMDID], l.SIMDID, sh.wf[l.SIMDID]))
		}
		sg := c09Range{l.SGPROffset, l.SGPROffset + 4*d.s}
		vg := c09Range{l.VGPROffset, l.VGPROffset + 4*d.v}
		if l.SGPROffset%64 != 0 || l.VGPROffset%16 != 0 || l.LDSOffset%256 != 0 {
			fail("C09.offset.alignment", fmt.Sprintf("%s wf%d: offsets %d/%d/%d", name, i, l.SGPROffset, l.VGPROffset, l.LDSOffset))
		}
		if sh.s >= 0 && sg.hi > 4*sh.s {
			fail("C09.capacity.sgpr", fmt.Sprintf("%s wf%d: SGPR bytes [%d,%d) in a %d-byte file", name, i, sg.lo, sg.hi, 4*sh.s))
		}
		if sh.v[l.SIMDID] >= 0 && vg.hi > 4*sh.v[l.SIMDID]/64 {
			fail("C09.capacity.vgpr", fmt.Sprintf("%s wf%d: VGPR lane bytes [%d,%d) in a %d-byte lane slice", name, i, vg.lo, vg.hi, 4*sh.v[l.SIMDID]/64))
		}
		if sh.lds >= 0 && l.LDSOffset+d.l > sh.lds {
			fail("C09.capacity.lds", fmt.Sprintf("%s wf%d: LDS bytes [%d,%d) of %d", name, i, l.LDSOffset, l.LDSOffset+d.l, sh.lds))
		}
		if l.LDSOffset != locs[0].LDSOffset {
			fail("C09.offset.lds-shared", fmt.Sprintf("%s wf%d: LDS offset %d, wf0 has %d", name, i, l.LDSOffset, locs[0].LDSOffset))
		}
		for j := 0; j < i; j++ { // within the group
			p := locs[j]
			if sg.overlaps(c09Range{p.SGPROffset, p.SGPROffset + 4*d.s}) {
				fail("C09.overlap.sgpr", fmt.Sprintf("%s wf%d and wf%d share SGPR bytes", name, i, j))
			}
			if p.SIMDID == l.SIMDID && vg.overlaps(c09Range{p.VGPROffset, p.VGPROffset + 4*d.v}) {
				fail("C09.overlap.vgpr", fmt.Sprintf("%s wf%d and wf%d share VGPR bytes on SIMD %d", name, i, j, l.SIMDID))
			}
		}
		for _, r := range o.resident { // against the resident groups
			for j, p := range r.locs {
				if sg.overlaps(c09Range{p.SGPROffset, p.SGPROffset + 4*r.dem.s}) {
					fail("C09.overlap.sgpr", fmt.Sprintf("%s wf%d overlaps resident %s wf%d in the SGPR file", name, i, r.name, j))
				}
				if p.SIMDID == l.SIMDID && vg.overlaps(c09Range{p.VGPROffset, p.VGPROffset + 4*r.dem.v}) {
					fail("C09.overlap.vgpr", fmt.Sprintf("%s wf%d overlaps resident %s wf%d in VGPR file %d", name, i, r.name, j, l.SIMDID))
				}
			}
		}
	}
	if len(locs) > 0 {
		lr := c09Range{locs[0].LDSOffset, locs[0].LDSOffset + d.l}
		for _, r := range o.resident {
			if len(r.locs) > 0 && lr.overlaps(c09Range{r.locs[0].LDSOffset, r.locs[0].LDSOffset + r.dem.l}) {
				fail("C09.overlap.lds", fmt.Sprintf("%s overlaps resident %s in LDS", name, r.name))
			}
		}
	}
	if _, dup := o.resident[name]; dup {
		fail("C09.map.twice", fmt.Sprintf("%s is already resident", name))
	}
	o.resident[name] = &c09Resident{name: name, dem: d, locs: locs}
}

func (o *c09Occupancy) release(name string) { delete(o.resident, name) }

func c09LocsString(locs []shim.WfLocation) string {
	if len(locs) == 0 {
		return "-"
	}
	p := make([]string, len(locs))
	for i, l := range locs {
		p[i] = fmt.Sprintf("%d.%d.%d.%d", l.SIMDID, l.VGPROffset, l.SGPROffset, l.LDSOffset)
	}
	return strings.Join(p, ",")
}

func c09MakeWG(d c09Dem) *kernels.WorkGroup {
	co := &insts.KernelCodeObject{KernelCodeObjectMeta: &insts.KernelCodeObjectMeta{}}
	co.WFSgprCount, co.WIVgprCount, co.GroupSegmentByteSize = uint16(d.s), uint16(d.v), uint32(d.l)
	wg := kernels.NewWorkGroup()
	wg.CodeObject = co
	for i := 0; i < d.nwf; i++ {
		wf := kernels.NewWavefront()
		wf.WG = wg
		wg.Wavefronts = append(wg.Wavefronts, wf)
	}
	return wg
}

var c09Cursor = regexp.MustCompile(` n=\d+|u\d+`)

// c09Stable blanks what a fruitless placement attempt may legitimately move: the nextSIMD cursor
// and the bump counters of unlimited masks.
func c09Stable(s string) string { return c09Cursor.ReplaceAllString(s, "") }

// initial (all-free) printout of a CU as verifshimc09 prints it, with nextSIMD blanked
func c09BlankNext(s string) string {
	i := strings.Index(s, " n=")
	j := strings.Index(s, " s=")
	if i < 0 || j < i {
		return s
	}
	return s[:i] + s[j:]
}

// ---------------------------------------------------------------- reserve/free scenarios

// a work-group without wavefronts keeps its LDS region for ever (the free loop runs per
// wavefront); no grid produces one (C08), the generator does, rarely
func zeroWFSeen(dems map[int]c09Dem) bool {
	for _, d := range dems {
		if d.nwf == 0 {
			return true
		}
	}
	return false
}

func c09ResCase(r *Run, rng *Rng) {
	sh := c09RandShape(rng)
	if rng.Chance(50) { // smaller, more contention
		sh.wf = sh.wf[:1+rng.Intn(len(sh.wf))]
		sh.v = sh.v[:len(sh.wf)]
	}
	line := "c09 res " + sh.String()
	ops, outs := []string{line}, []string{}
	pool := shim.NewPool()
	if f := catch(func() { pool.Register(&c09CU{name: "CU0", shape: sh}) }); f != "" {
		r.Count("c09.res.bad-granularity")
		if !sh.badGranularity() {
			r.Failf("C09.register.panic", line, "RegisterCU panicked on a well-formed CU: %s", f)
		}
		r.Case(line, "fault:granularity")
		return
	}
	initial := c09BlankNext(pool.CUString(0))
	occ := newC09Occ(sh)
	wgs := map[int]*kernels.WorkGroup{}
	dems := map[int]c09Dem{}
	live := []int{}
	dead := false
	nextKey := 1
	full := func() string { return strings.Join(ops, " ; ") }
	nops := rng.Range(4, 40)
	// shared kernel demand most of the time (one kernel), sometimes mixed kernels
	base := c09Dem{nwf: rng.Pick(1, 1, 2, 3, 4, 5, 16), s: c09RandS(rng), v: c09RandV(rng), l: c09RandL(rng)}
	for i := 0; i < nops; i++ {
		var op, out string
		c := rng.Intn(100)
		switch {
		case c < 50 || len(live) == 0 && c < 85:
			d := base
			if rng.Chance(30) {
				d = c09Dem{nwf: rng.Pick(1, 1, 2, 3, 4, 8, 16), s: c09RandS(rng), v: c09RandV(rng), l: c09RandL(rng)}
			}
			if rng.Chance(2) {
				d.nwf = 0
			}
			key := nextKey
			twice := rng.Chance(2) && len(live) > 0
			if twice {
				key = live[rng.Intn(len(live))]
				d = dems[key]
			} else {
				nextKey++
			}
			op = fmt.Sprintf("r %d %d %d %d %d", key, d.nwf, d.s, d.v, d.l)
			if dead {
				break
			}
			wg := wgs[key]
			if wg == nil {
				wg = c09MakeWG(d)
			}
			var locs []shim.WfLocation
			var ok bool
			f := catch(func() { locs, ok = pool.Reserve(0, wg) })
			switch {
			case f != "":
				out, dead = "fault:twice", true
				if !twice {
					r.Failf("C09.reserve.panic", full()+" ; "+op, "ReserveResourceForWG panicked: %s", f)
				}
			case ok:
				out = "ok:" + c09LocsString(locs)
				r.Checked("reserve")
				name := fmt.Sprintf("wg%d", key)
				cs := full() + " ; " + op
				if !sh.fitsEmpty(d) {
					r.Failf("C09.capacity.admitted-oversize", cs, "%s admitted but does not fit even the empty CU", name)
				}
				occ.admit(name, d, locs, func(sig, detail string) { r.Failf(sig, cs, "%s", detail) })
				wgs[key], dems[key] = wg, d
				live = append(live, key)
				r.Count("c09.res.reserve-ok")
			default:
				out = "no"
				r.Count("c09.res.reserve-no")
				if len(live) == 0 && sh.fitsEmpty(d) && d.nwf > 0 && !zeroWFSeen(dems) {
					r.Checked("reserve-empty")
					r.Failf("C09.reserve.refused-on-empty", full()+" ; "+op, "the empty CU refused a work-group that fits it")
				}
			}
		case c < 88:
			key := 0
			if len(live) > 0 && !rng.Chance(2) {
				key = live[rng.Intn(len(live))]
			} else {
				key = 900 + rng.Intn(5)
			}
			op = fmt.Sprintf("f %d", key)
			if dead {
				break
			}
			wg := wgs[key]
			if wg == nil {
				wg = c09MakeWG(base)
			}
			f := catch(func() { pool.Free(0, wg) })
			if f != "" {
				out, dead = "fault:notfound", true
				if wgs[key] != nil {
					r.Failf("C09.free.panic", full()+" ; "+op, "FreeResourcesForWG panicked on a resident group: %s", f)
				}
			} else {
				out = "f"
				occ.release(fmt.Sprintf("wg%d", key))
				for j, k := range live {
					if k == key {
						live = append(live[:j], live[j+1:]...)
						break
					}
				}
				delete(wgs, key)
				r.Count("c09.res.free")
				if len(live) == 0 {
					r.Checked("free-all-restores")
					zeroWF := false
					for _, d := range dems {
						zeroWF = zeroWF || d.nwf == 0
					}
					if got := c09BlankNext(pool.CUString(0)); got != initial && !zeroWF && !strings.Contains(initial, "u0") {
						r.Failf("C09.leak.cu", full()+" ; "+op, "all groups freed but the CU reads %s, initially %s", got, initial)
					}
				}
			}
		default:
			op = "p"
			if !dead {
				out = pool.CUString(0)
			}
		}
		if out == "" {
			out = "X"
		}
		ops, outs = append(ops, op), append(outs, out)
	}
	r.Count("c09.res")
	r.Case(strings.Join(ops, " ; "), strings.Join(outs, " "))
}

// ---------------------------------------------------------------- command-processor scenarios

type c09Filler struct{ sim.MsgMeta }

func (m *c09Filler) Meta() *sim.MsgMeta { return &m.MsgMeta }
func (m *c09Filler) Clone() sim.Msg     { c := *m; return &c }

type c09Launch struct {
	req     *protocol.LaunchKernelReq
	gx, wx  int
	dem     c09Dem // nwf unused
	numWG   int
	mapped  map[int]bool
	done    int // completions delivered by the CUs
	rsps    int
	stuckOK bool // some work-group fits no CU even when empty
	fits0   bool // work-group 0 (the largest) fits at least one CU shape of the pool when that CU is empty
	taken   bool // a dispatcher was seen holding this launch
}

func (l *c09Launch) nwf(idx int) int {
	sz := l.gx - idx*l.wx
	if sz > l.wx {
		sz = l.wx
	}
	return (sz + 63) / 64
}

type c09Outst struct {
	id     string
	num    int
	cu     int
	launch int
	name   string
}

type c09Env struct {
	r        *Run
	rng      *Rng
	model    bool // record a correspondence case (round-robin / greedy)
	line     []string
	outs     []string
	cp       *cp.CommandProcessor
	eng      *fakeEngine
	shapes   []c09Shape
	cus      []*c09CU
	occ      []*c09Occupancy
	drv      sim.Port
	launches []*c09Launch
	byReq    map[string]int
	outst    []c09Outst
	events   []string
	nMap     int
	cuOcc    int // messages in the ToCUs outgoing buffer
	drvOcc   int
	cuRoom   int
	drvRoom  int
	dead     bool
	fault    string
	initial  []string
}

const c09PortCap = 4096

func (e *c09Env) caseString() string { return strings.Join(e.line, " ; ") }
func (e *c09Env) fail(sig, format string, a ...interface{}) {
	e.r.Failf(sig, e.caseString(), format, a...)
}

// Func is the port hook: every message the command processor sends is observed here.
func (e *c09Env) Func(ctx sim.HookCtx) {
	if ctx.Pos != sim.HookPosPortMsgSend {
		return
	}
	switch m := ctx.Item.(type) {
	case *c09Filler:
		return
	case *protocol.MapWGReq:
		e.cuOcc++
		e.onMap(m)
	case *protocol.LaunchKernelRsp:
		e.drvOcc++
		e.onRsp(m)
	default:
		e.fail("C09.unexpected-message", "the command processor sent a %T", ctx.Item)
	}
}

func (e *c09Env) onMap(m *protocol.MapWGReq) {
	cu := -1
	for i, c := range e.cus {
		if c.DispatchingPort() == m.Dst {
			cu = i
		}
	}
	li := -1
	for i, l := range e.launches {
		if l.req.Packet == m.WorkGroup.Packet {
			li = i
		}
	}
	num := e.nMap
	e.nMap++
	locs := make([]shim.WfLocation, len(m.Wavefronts))
	for i, w := range m.Wavefronts {
		locs[i] = shim.WfLocation(w)
	}
	idx := m.WorkGroup.IDX
	e.events = append(e.events, fmt.Sprintf("M%d:%d:%d:%d:%s", num, cu, li, idx, c09LocsString(locs)))
	e.r.Checked("map")
	if cu < 0 || li < 0 {
		e.fail("C09.map.unknown", "MapWGReq to %q for an unknown launch/CU", m.Dst)
		return
	}
	l := e.launches[li]
	name := fmt.Sprintf("k%d.wg%d", li, idx)
	if idx < 0 || idx >= l.numWG || m.WorkGroup.IDY != 0 || m.WorkGroup.IDZ != 0 {
		e.fail("C09.map.outside-grid", "%s is not in the grid of %d work-groups", name, l.numWG)
	} else if l.mapped[idx] {
		e.fail("C09.map.twice", "%s mapped a second time", name)
	}
	l.mapped[idx] = true
	if l.rsps > 0 {
		e.fail("C09.map.after-rsp", "%s mapped after the kernel's completion response", name)
	}
	d := l.dem
	d.nwf = l.nwf(idx)
	if len(m.WorkGroup.Wavefronts) != d.nwf {
		e.fail("C09.map.wavefronts", "%s has %d wavefronts, expected %d", name, len(m.WorkGroup.Wavefronts), d.nwf)
	}
	if m.PID != l.req.PID {
		e.fail("C09.map.pid", "%s carries PID %d, launch has %d", name, m.PID, l.req.PID)
	}
	e.occ[cu].admit(name, d, locs, func(sig, detail string) { e.fail(sig, "CU%d: %s", cu, detail) })
	e.outst = append(e.outst, c09Outst{id: m.ID, num: num, cu: cu, launch: li, name: name})
}

func (e *c09Env) onRsp(m *protocol.LaunchKernelRsp) {
	li, ok := e.byReq[m.RspTo]
	e.r.Checked("rsp")
	if !ok {
		e.events = append(e.events, "R?")
		e.fail("C09.rsp.unknown", "LaunchKernelRsp to unknown request %s", m.RspTo)
		return
	}
	e.events = append(e.events, fmt.Sprintf("R%d", li))
	l := e.launches[li]
	l.rsps++
	if l.rsps > 1 {
		e.fail("C09.rsp.twice", "kernel %d answered %d times", li, l.rsps)
	}
	if len(l.mapped) != l.numWG || l.done != l.numWG {
		e.fail("C09.rsp.early", "kernel %d answered with %d of %d work-groups mapped and %d completed", li, len(l.mapped), l.numWG, l.done)
	}
	if m.Dst != l.req.Src || m.Src != e.cp.ToDriver.AsRemote() {
		e.fail("C09.rsp.route", "kernel %d answered from %q to %q", li, m.Src, m.Dst)
	}
}

func c09BuildCP(eng sim.Engine, cus []*c09CU, klo, ko, sklo, thr int) *cp.CommandProcessor {
	b := cp.MakeBuilder().WithEngine(eng).WithFreq(1 * sim.GHz).
		WithConstantKernelLaunchOverhead(klo).WithSubsequentKernelLaunchOverhead(sklo).WithWGScalingThreshold(thr)
	if ko > 0 {
		b = b.WithConstantKernelOverhead(ko)
	}
	for _, c := range cus {
		b = b.WithCU(c)
	}
	return b.Build("CP")
}

// setRoom makes the outgoing buffer of a port hold cap-room messages (old messages or fillers).
func (e *c09Env) setRoom(port sim.Port, occ *int, room int) {
	if room > c09PortCap {
		room = c09PortCap
	}
	for *occ > c09PortCap-room {
		if port.RetrieveOutgoing() == nil {
			panic("c09: outgoing buffer shorter than tracked")
		}
		*occ--
	}
	for *occ < c09PortCap-room {
		f := &c09Filler{}
		f.Src, f.Dst = port.AsRemote(), "Nowhere"
		if port.Send(f) != nil {
			panic("c09: filler rejected")
		}
		*occ++
	}
}

func (e *c09Env) probe() string {
	var sb strings.Builder
	for i := range e.cp.Dispatchers {
		s := shim.DispStateOf(e.cp, i)
		k := "-"
		if s.KernelID != "" {
			k = strconv.Itoa(e.byReq[s.KernelID])
		}
		w := 0
		if s.CurrWGValid {
			w = 1
		}
		fmt.Fprintf(&sb, "(%s c%d %d/%d i%d w%d)", k, s.CycleLeft, s.Dispatched, s.Completed, s.Inflight, w)
	}
	sb.WriteByte(' ')
	for i := range e.cus {
		sb.WriteString(shim.CUString(e.cp, i))
	}
	return sb.String()
}

func (e *c09Env) emit(op, out string) {
	e.line = append(e.line, op)
	e.outs = append(e.outs, out)
}

func (e *c09Env) doTicks(n int) (progress int) {
	op := "tick"
	if n != 1 {
		op = fmt.Sprintf("ticks %d", n)
	}
	e.line = append(e.line, op)
	if e.dead {
		e.outs = append(e.outs, "X")
		return 0
	}
	e.events = nil
	for i := 0; i < n && !e.dead; i++ {
		e.setRoom(e.cp.ToCUs, &e.cuOcc, e.cuRoom)
		e.setRoom(e.cp.ToDriver, &e.drvOcc, e.drvRoom)
		before := ""
		if n == 1 {
			before = e.probe()
		}
		var p bool
		f := catch(func() { p = e.cp.Tick() })
		if f != "" {
			e.dead, e.fault = true, f
			e.markTaken() // the first Handle of this tick may have taken a launch before the second panicked
			break
		}
		e.markTaken()
		if p {
			progress++
		} else if n == 1 && e.cuRoom > 0 {
			// (with the CU-facing port full, a fruitless tick may still move one work-group from
			// "to place" to "placed, waiting for the port": the retry state of dispatchNextWG)
			e.r.Checked("quiescent")
			if after := e.probe(); c09Stable(after) != c09Stable(before) || len(e.events) > 0 {
				e.fail("C09.quiescent.changed", "Tick reported no progress but changed state: %s -> %s events %v", before, after, e.events)
			}
		}
	}
	head := fmt.Sprintf("T%d", progress)
	if n != 1 {
		head = fmt.Sprintf("T*%d=%d", n, progress)
	}
	tok := append([]string{head}, e.events...)
	if e.dead {
		kind := "other"
		switch {
		case strings.Contains(e.fault, "bounds"):
			kind = "bounds"
		case strings.Contains(e.fault, "twice"):
			kind = "twice"
		case strings.Contains(e.fault, "not_found"):
			kind = "notfound"
		case strings.Contains(e.fault, "in_emulation_all_finished"):
			kind = "batched-completion"
		case strings.Contains(e.fault, "cannot_dispatch_kernel"):
			kind = "oversize"
		}
		tok = append(tok, "fault:"+kind)
		over16 := false
		for _, l := range e.launches {
			over16 = over16 || l.nwf(0) > 16
		}
		if kind == "bounds" && over16 {
			// a work-group of more than 1024 work-items (17 wavefronts) indexes past the
			// dispatcher's 17-entry latency table: malformed input, reported as a fault, not a failure
			e.r.Count("c09.cp.fault.over-16-wavefronts")
		} else if kind == "oversize" {
			// StartDispatching rejects a kernel whose first work-group fits no CU of the pool even when
			// the CU is empty (repair 91eb1bb3). Launches are taken in delivery order, so the rejected
			// one is the first that no dispatcher has held yet; the rejection is legitimate iff the
			// harness's own bookkeeping agrees that its work-group 0 fits no CU shape (any CU, for
			// every placement algorithm; with no CU nothing fits).
			e.r.Checked("oversize-rejection")
			head := e.headLaunch()
			switch {
			case head < 0:
				e.fail("C09.tick.panic.oversize", "CommandProcessor.Tick rejected a kernel although no launch is waiting: %s", e.fault)
			case e.launches[head].fits0:
				l := e.launches[head]
				e.fail("C09.tick.panic.oversize", "kernel %d was rejected (%s) although its first work-group (%d wavefronts, %d SGPRs, %d VGPRs, %d LDS bytes) fits an empty CU of the pool",
					head, e.fault, l.nwf(0), l.dem.s, l.dem.v, l.dem.l)
			default:
				e.r.Count("c09.cp.fault.oversize-rejected")
			}
		} else {
			e.fail("C09.tick.panic."+kind, "CommandProcessor.Tick panicked: %s", e.fault)
		}
	}
	e.outs = append(e.outs, strings.Join(tok, ","))
	return progress
}

// headLaunch: the first launch (delivery order = the FIFO of ToDriver) no dispatcher has held yet.
func (e *c09Env) headLaunch() int {
	for i, l := range e.launches {
		if !l.taken {
			return i
		}
	}
	return -1
}

// markTaken runs after every tick that returned: a launch now held by a dispatcher was accepted by
// StartDispatching (a launch is taken at the end of a tick and answered in a later one, so it is
// always seen here). Accepting a kernel whose work-group 0 fits no CU is the repaired defect.
func (e *c09Env) markTaken() {
	for i := range e.cp.Dispatchers {
		id := shim.DispStateOf(e.cp, i).KernelID
		if id == "" {
			continue
		}
		li, ok := e.byReq[id]
		if !ok || e.launches[li].taken {
			continue
		}
		l := e.launches[li]
		l.taken = true
		e.r.Checked("oversize-accept")
		if !l.fits0 {
			e.fail("C09.oversize.not-rejected", "kernel %d was accepted by a dispatcher although its first work-group (%d wavefronts, %d SGPRs, %d VGPRs, %d LDS bytes) fits no CU of the pool even when the CU is empty",
				li, l.nwf(0), l.dem.s, l.dem.v, l.dem.l)
		}
	}
}

func (e *c09Env) launch(gx, wx, s, v, l int) {
	op := fmt.Sprintf("launch %d %d %d %d %d", gx, wx, s, v, l)
	if e.dead {
		e.emit(op, "X")
		return
	}
	req := protocol.NewLaunchKernelReq(e.drv, e.cp.ToDriver)
	req.PID = vm.PID(1 + len(e.launches)%3)
	req.Packet = &kernels.HsaKernelDispatchPacket{GridSizeX: uint32(gx), GridSizeY: 1, GridSizeZ: 1,
		WorkgroupSizeX: uint16(wx), WorkgroupSizeY: 1, WorkgroupSizeZ: 1}
	co := &insts.KernelCodeObject{KernelCodeObjectMeta: &insts.KernelCodeObjectMeta{}}
	co.WFSgprCount, co.WIVgprCount, co.GroupSegmentByteSize = uint16(s), uint16(v), uint32(l)
	req.CodeObject = co
	lc := &c09Launch{req: req, gx: gx, wx: wx, dem: c09Dem{s: s, v: v, l: l}, numWG: (gx-1)/wx + 1, mapped: map[int]bool{}}
	for i := 0; i < lc.numWG; i++ {
		d := lc.dem
		d.nwf = lc.nwf(i)
		anyFits, allFit := false, len(e.shapes) > 0
		for _, sh := range e.shapes {
			f := sh.fitsEmpty(d)
			anyFits, allFit = anyFits || f, allFit && f
		}
		fits := anyFits // round-robin / greedy try every CU
		if !e.model {
			fits = allFit // partition ties a work-group to the CU of its partition
		}
		if !fits || d.nwf > 16 {
			lc.stuckOK = true
		}
		if i == 0 {
			lc.fits0 = anyFits
		}
	}
	if gx <= 0 {
		lc.fits0 = true // an empty grid has no first work-group: not checked
	}
	e.byReq[req.ID] = len(e.launches)
	e.launches = append(e.launches, lc)
	if e.cp.ToDriver.Deliver(req) != nil {
		panic("c09: ToDriver incoming full")
	}
	e.emit(op, fmt.Sprintf("L%d", len(e.launches)-1))
	e.r.Count("c09.cp.launch")
}

func (e *c09Env) pickOutst(k int) (c09Outst, bool) {
	if len(e.outst) == 0 {
		return c09Outst{}, false
	}
	i := k % len(e.outst)
	o := e.outst[i]
	e.outst = append(e.outst[:i:i], e.outst[i+1:]...)
	return o, true
}

// done delivers one WGCompletionMsg for the picked outstanding MapWGReqs (one id = timing CU
// behaviour; several = the emulation CU's batching).
func (e *c09Env) done(ks []int) {
	op := fmt.Sprintf("done %d", ks[0])
	if len(ks) > 1 {
		p := make([]string, len(ks))
		for i, k := range ks {
			p[i] = strconv.Itoa(k)
		}
		op = "doneb " + strings.Join(p, ",")
	}
	if e.dead {
		e.emit(op, "X")
		return
	}
	var ids, nums []string
	src := sim.RemotePort("")
	launches := map[int]bool{}
	for _, k := range ks {
		o, ok := e.pickOutst(k)
		if !ok {
			break
		}
		ids, nums = append(ids, o.id), append(nums, strconv.Itoa(o.num))
		src = e.cus[o.cu].DispatchingPort()
		e.occ[o.cu].release(o.name)
		e.launches[o.launch].done++
		launches[o.launch] = true
	}
	if len(ids) == 0 {
		e.emit(op, "d-")
		return
	}
	if len(launches) > 1 {
		e.r.Count("c09.cp.batch-across-kernels")
	}
	msg := protocol.WGCompletionMsgBuilder{}.WithSrc(src).WithDst(e.cp.ToCUs.AsRemote()).WithRspTo(ids).Build()
	if e.cp.ToCUs.Deliver(msg) != nil {
		panic("c09: ToCUs incoming full")
	}
	e.emit(op, "d"+strings.Join(nums, "+"))
	e.r.Count("c09.cp.completion-msg")
}

func (e *c09Env) room(which string, n int) {
	op := fmt.Sprintf("room %s %d", which, n)
	if e.dead {
		e.emit(op, "X")
		return
	}
	if which == "cu" {
		e.cuRoom = n
	} else {
		e.drvRoom = n
	}
	e.emit(op, "r")
}

func (e *c09Env) doProbe() {
	if e.dead {
		e.emit("probe", "X")
		return
	}
	e.emit("probe", e.probe())
}

func c09RandLaunch(rng *Rng, small bool) (gx, wx, s, v, l int) {
	wx = rng.Pick(1, 32, 63, 64, 64, 65, 128, 128, 256, 1024)
	if rng.Chance(1) {
		wx = 1088 // 17 wavefronts: latencyTable has 17 entries (0..16)
	}
	n := rng.Pick(1, 1, 2, 3, 4, 5, 8, 9, 16, 20)
	if small {
		n = rng.Pick(1, 1, 2)
	}
	gx = wx*(n-1) + 1 + rng.Intn(wx)
	if rng.Chance(50) {
		gx = wx * n
	}
	return gx, wx, c09RandS(rng), c09RandV(rng), rng.Pick(0, 0, 1, 255, 256, 256, 257, 512, 1000)
}

// randLaunch draws a launch for the pool of e. A kernel whose first work-group fits no CU of the pool
// is rejected by StartDispatching in the tick that takes it, which ends the scenario (Go panic); such
// a draw is kept only now and then, so that most scenarios run to the drain phase.
func (e *c09Env) randLaunch(rng *Rng, small bool) (gx, wx, s, v, l int) {
	for try := 0; ; try++ {
		gx, wx, s, v, l = c09RandLaunch(rng, small)
		if len(e.shapes) == 0 || try >= 10 || rng.Chance(2) {
			return
		}
		first := wx
		if gx < wx {
			first = gx
		}
		d := c09Dem{nwf: (first + 63) / 64, s: s, v: v, l: l}
		for _, sh := range e.shapes {
			if sh.fitsEmpty(d) {
				return
			}
		}
	}
}

func c09CPCase(r *Run, rng *Rng, alg string) {
	nCU := rng.Pick(1, 1, 2, 2, 3, 4)
	if rng.Chance(2) && alg != "partition" { // partition divides by the number of CUs
		nCU = 0
	}
	e := &c09Env{r: r, rng: rng, model: alg != "partition", byReq: map[string]int{}, cuRoom: c09PortCap, drvRoom: c09PortCap}
	var shapeStr []string
	bad := false
	for i := 0; i < nCU; i++ {
		sh := c09RandShape(rng)
		if i > 0 && rng.Chance(60) {
			sh = e.shapes[0]
		}
		bad = bad || sh.badGranularity()
		e.shapes = append(e.shapes, sh)
		e.cus = append(e.cus, &c09CU{name: fmt.Sprintf("CU%d", i), shape: sh})
		e.occ = append(e.occ, newC09Occ(sh))
		shapeStr = append(shapeStr, sh.String())
	}
	klo, ko, sklo, thr := rng.Pick(0, 0, 1, 2, 5), rng.Pick(1, 1, 2, 3, 7), rng.Pick(0, 0, 1, 3, 10), rng.Pick(0, 0, 1, 2, 4, 8)
	long := rng.Intn(250) == 0
	if long {
		ko = 3600 // the shipped default
	}
	cs := strings.Join(shapeStr, "|")
	if cs == "" {
		cs = "-"
	}
	algName := map[string]string{"rr": "round-robin", "greedy": "greedy", "partition": "partition"}[alg]
	e.line = []string{fmt.Sprintf("c09 cp alg=%s nd=8 klo=%d ko=%d sklo=%d thr=%d cus=%s", alg, klo, ko, sklo, thr, cs)}
	e.eng = &fakeEngine{}
	if f := catch(func() { e.cp = c09BuildCP(e.eng, e.cus, klo, ko, sklo, thr) }); f != "" {
		if !bad {
			r.Failf("C09.register.panic", e.caseString(), "building the command processor panicked: %s", f)
		}
		r.Count("c09.cp.bad-granularity")
		if e.model {
			r.Case(e.caseString(), "fault:granularity")
		}
		return
	}
	if len(e.cp.Dispatchers) != 8 {
		r.Failf("C09.config.dispatchers", e.caseString(), "the shipped builder creates %d dispatchers, the model assumes 8", len(e.cp.Dispatchers))
	}
	if alg != "rr" {
		shim.SetAlg(e.cp, algName)
	}
	conn := &fakeConn{name: "Conn"}
	for _, p := range []sim.Port{e.cp.ToDriver, e.cp.ToCUs, e.cp.ToDMA, e.cp.ToTLBs, e.cp.ToRDMA, e.cp.ToPMC, e.cp.ToAddressTranslators, e.cp.ToCaches} {
		conn.PlugIn(p)
	}
	e.cp.ToCUs.AcceptHook(e)
	e.cp.ToDriver.AcceptHook(e)
	e.drv = sim.NewPort(nil, 1, 1, "Driver.ToGPU")
	for i := range e.cus {
		e.initial = append(e.initial, c09BlankNext(shim.CUString(e.cp, i)))
	}

	// ---- free-running phase
	nops := rng.Range(5, 60)
	burst := rng.Chance(10) // more concurrent kernels than dispatchers
	maxLaunch := rng.Pick(1, 2, 3, 4, 6)
	if burst {
		maxLaunch = rng.Range(9, 12)
	}
	for i := 0; i < nops; i++ {
		c := rng.Intn(100)
		switch {
		case len(e.launches) < maxLaunch && (c < 12 || burst && c < 40 || len(e.launches) == 0):
			gx, wx, s, v, l := e.randLaunch(rng, burst)
			e.launch(gx, wx, s, v, l)
		case c < 60:
			e.doTicks(1)
		case c < 78:
			e.done([]int{rng.Intn(64)})
		case c < 84:
			n := rng.Range(2, 5)
			ks := make([]int, n)
			for j := range ks {
				ks[j] = rng.Intn(64)
			}
			e.done(ks)
		case c < 90:
			e.room("cu", rng.Pick(0, 0, 1, 2, 3, c09PortCap, c09PortCap))
		case c < 94:
			e.room("drv", rng.Pick(0, 0, 1, c09PortCap, c09PortCap))
		default:
			e.doProbe()
		}
	}

	// ---- drain phase: free ports, every mapped group completes (random order), tick until quiet
	e.room("cu", c09PortCap)
	e.room("drv", c09PortCap)
	quiet, longTicks := 0, 0
	for step := 0; step < 600 && quiet < 2 && !e.dead; step++ {
		for len(e.outst) > 0 && rng.Chance(70) {
			if rng.Chance(15) && len(e.outst) > 1 {
				e.done([]int{rng.Intn(64), rng.Intn(64), rng.Intn(64)})
			} else {
				e.done([]int{rng.Intn(64)})
			}
		}
		p := 0
		if long && len(e.outst) == 0 && longTicks < 3 && rng.Chance(50) {
			longTicks++
			p = e.doTicks(3600)
		} else {
			p = e.doTicks(1)
		}
		if p == 0 && len(e.outst) == 0 {
			quiet++
		} else {
			quiet = 0
		}
	}
	e.doProbe()

	// ---- end-of-scenario oracles
	if !e.dead {
		stuckOK := len(e.cus) == 0
		for _, l := range e.launches {
			stuckOK = stuckOK || l.stuckOK
		}
		for li, l := range e.launches {
			r.Checked("kernel-complete")
			if l.rsps == 1 {
				continue
			}
			if stuckOK {
				r.Count("c09.cp.unplaceable-kernel")
				continue
			}
			if quiet >= 2 {
				e.fail("C09.rsp.missing", "kernel %d: %d of %d work-groups mapped, %d completed, no response although every group completed, ports are free and the command processor reports no progress; %s",
					li, len(l.mapped), l.numWG, l.done, e.probe())
			}
		}
		if quiet >= 2 && !stuckOK {
			for i := range e.cus {
				r.Checked("pool-restored")
				if got := c09BlankNext(shim.CUString(e.cp, i)); got != e.initial[i] && !strings.Contains(e.initial[i], "u0") {
					e.fail("C09.leak.cu", "CU%d reads %s after all kernels completed, initially %s", i, got, e.initial[i])
				}
				if len(e.occ[i].resident) != 0 {
					e.fail("C09.leak.harness", "harness bookkeeping: CU%d still has residents", i)
				}
			}
		}
	}
	r.Count("c09.cp." + alg)
	r.CountN("c09.cp.mapwg", e.nMap)
	if e.model {
		r.Case(e.caseString(), strings.Join(e.outs, " "))
	}
}

// ---------------------------------------------------------------- emulation route (real emu CUs, real engine)

type c09Driver struct {
	*sim.ComponentBase
	port sim.Port
	rsps []string
}

func (d *c09Driver) Handle(sim.Event) error { return nil }
func (d *c09Driver) NotifyRecv(p sim.Port) {
	for m := p.RetrieveIncoming(); m != nil; m = p.RetrieveIncoming() {
		if rsp, ok := m.(*protocol.LaunchKernelRsp); ok {
			d.rsps = append(d.rsps, rsp.RspTo)
		}
	}
}
func (d *c09Driver) NotifyPortFree(sim.Port) {}

type c09Code struct{}

// every instruction fetch reads s_endpgm
func (c09Code) Read(pid vm.PID, addr, n uint64) []byte {
	b := make([]byte, n)
	copy(b, []byte{0x00, 0x00, 0x81, 0xBF})
	return b
}
func (c09Code) Write(vm.PID, uint64, []byte) {}

// c09EmuCase: k kernels of `s_endpgm` launched back to back on a command processor whose CUs
// are real emu.ComputeUnits, under a real serial engine.
func c09EmuCase(r *Run, rng *Rng, nKern, nCU, nWG int) {
	cs := fmt.Sprintf("emu kernels=%d cus=%d wgs=%d", nKern, nCU, nWG)
	var rsps []string
	var ids []string
	ok, fault := withTimeout(60*time.Second, func() {
		eng := sim.NewSerialEngine()
		b := cp.MakeBuilder().WithEngine(eng).WithFreq(1 * sim.GHz).WithConstantKernelOverhead(5)
		var cus []*emu.ComputeUnit
		for i := 0; i < nCU; i++ {
			acc := c09Code{}
			cu := emu.NewComputeUnit(fmt.Sprintf("EmuCU%d", i), eng, insts.NewDisassembler(), emu.NewALU(acc), acc)
			cus = append(cus, cu)
			b = b.WithCU(cu)
		}
		c := b.Build("CP")
		drv := &c09Driver{ComponentBase: sim.NewComponentBase("Driver")}
		drv.port = sim.NewPort(drv, 64, 64, "Driver.ToGPU")
		conn := directconnection.MakeBuilder().WithEngine(eng).WithFreq(1 * sim.GHz).Build("Conn")
		conn.PlugIn(c.ToCUs)
		conn.PlugIn(c.ToDriver)
		conn.PlugIn(drv.port)
		for _, cu := range cus {
			conn.PlugIn(cu.ToDispatcher)
		}
		for k := 0; k < nKern; k++ {
			req := protocol.NewLaunchKernelReq(drv.port, c.ToDriver)
			req.PID = 1
			req.Packet = &kernels.HsaKernelDispatchPacket{GridSizeX: uint32(64 * nWG), GridSizeY: 1, GridSizeZ: 1,
				WorkgroupSizeX: 64, WorkgroupSizeY: 1, WorkgroupSizeZ: 1}
			co := &insts.KernelCodeObject{KernelCodeObjectMeta: &insts.KernelCodeObjectMeta{}}
			co.WFSgprCount, co.WIVgprCount = 16, 4
			req.CodeObject = co
			ids = append(ids, req.ID)
			if drv.port.Send(req) != nil {
				panic("c09: driver port full")
			}
		}
		if err := eng.Run(); err != nil {
			panic(err)
		}
		rsps = drv.rsps
	})
	r.Checked("emu-concurrent")
	r.Note("emu %s: finished=%v fault=%q responses=%d", cs, ok, fault, len(rsps))
	r.Count(fmt.Sprintf("c09.emu.kernels=%d", nKern))
	switch {
	case !ok:
		r.Failf("C09.emu.hang", cs, "the engine did not finish within 60 s")
	case fault != "":
		sig := "C09.emu.panic"
		if strings.Contains(fault, "in_emulation_all_finished") {
			sig = "C09.emu.batched-completion"
		}
		r.Failf(sig, cs, "panic while %d kernels ran concurrently in emulation: %s", nKern, fault)
	default:
		sort.Strings(rsps)
		sort.Strings(ids)
		if strings.Join(rsps, ",") != strings.Join(ids, ",") {
			r.Failf("C09.emu.responses", cs, "%d launches, responses %v", nKern, rsps)
		}
	}
}

// ---------------------------------------------------------------- constants consumed by byte_offsets_disjoint

func c09Constants(r *Run) {
	var cu timingcu.ComputeUnit
	wf, v := cu.WfPoolSizes(), cu.VRegCounts()
	ints := func(l []int) string {
		p := make([]string, len(l))
		for i, x := range l {
			p[i] = strconv.Itoa(x)
		}
		return strings.Join(p, ",")
	}
	got := fmt.Sprintf("wf=%s s=%d v=%s l=%d", ints(wf), cu.SRegCount(), ints(v), cu.LDSBytes())
	// what cu.MakeBuilder() really allocates: scalar file bytes, vector file bytes and lane stride
	// per SIMD, wavefront-pool size and SIMD count
	sh := timingcu.VerifDefaultShape()
	got += fmt.Sprintf(" sfile=%d vfile=%s stride=%s pool=%d simd=%d", sh.SRegFileBytes, ints(sh.VRegFileBytes),
		ints(sh.VRegLaneStride), sh.WfPoolSize, sh.SIMDCount)
	r.Case("c09 const", got)
	// the pool must create masks of exactly count/granularity cells for it, and the byte offsets
	// of the last cell must end at the size of the register files cubuilder allocates
	// (sgprCount*4 bytes; vgprCount*4 bytes in 64 lane slices)
	pool := shim.NewPool()
	pool.Register(&c09CU{name: "T", shape: c09Shape{wf: wf, s: cu.SRegCount(), v: v, lds: cu.LDSBytes()}})
	r.Case("c09 res "+c09Shape{wf: wf, s: cu.SRegCount(), v: v, lds: cu.LDSBytes()}.String()+" ; p", pool.CUString(0))
}

// ---------------------------------------------------------------- entry

func runC09(r *Run, rng *Rng, replay string) {
	nMask, nRes, nCP, nPart := 600, 3000, 2500, 300
	if r.Tier == "thorough" {
		nMask, nRes, nCP, nPart = 4000, 30000, 20000, 3000
	}
	c09Constants(r)
	for i := 0; i < nMask; i++ {
		c09MaskCase(r, rng)
	}
	for i := 0; i < nRes; i++ {
		c09ResCase(r, rng)
	}
	for i := 0; i < nCP; i++ {
		alg := "rr"
		if rng.Chance(35) {
			alg = "greedy"
		}
		c09CPCase(r, rng, alg)
	}
	for i := 0; i < nPart; i++ {
		c09CPCase(r, rng, "partition")
	}
	// emulation: the reproduced scenario (two concurrent 8-work-group kernels) and variations
	c09EmuCase(r, rng, 1, 4, 8)
	c09EmuCase(r, rng, 2, 4, 8)
	c09EmuCase(r, rng, 3, 2, 5)
	if r.Tier == "thorough" {
		for i := 0; i < 20; i++ {
			c09EmuCase(r, rng, rng.Range(2, 9), rng.Range(1, 6), rng.Range(1, 20))
		}
	}
}
