package main

// Property C13, deepening — ties for the model functions added in MgpuModel/C13.lean:
//
//   c13 acc <hex>    accessor methods of KernelCodeObjectMeta on a parsed V2/V3 header
//   c13 kdacc <hex>  the same on a parsed V5 descriptor (rsrc2 as rewritten by the loader)
//   c13 sel n:<k> …  the kernel-symbol selection step (first match, slice bounds) with the
//                    exact Go run-time error: the loader runs in a child that reports the
//                    panic text; objects carry no .rodata, so only the symbol slice can panic
//   purity           the same (bytes, name) requests repeated in other orders in ONE loader
//                    process (answers must be identical; lines are `c13 load`, so the pure
//                    model is compared as well) and an in-process aliasing test
//   kd-wrap          descriptor symbols whose offset from .rodata is within 64 of 2^64: must be
//                    ignored, not panic (oracle C13.kd.out-of-range-panic; repaired defect)

import (
	"bufio"
	"bytes"
	"debug/elf"
	"encoding/hex"
	"fmt"
	"math/big"
	"os"
	"os/exec"
	"path/filepath"
	"sort"
	"strings"

	"github.com/sarchlab/mgpusim/v4/amd/insts"
)

func init() {
	register("C13", runC13Deep)
	childFuncs["c13deepserve"] = c13deepserve
}

// c13deepserve is c13serve with the raw panic text and the full returned bytes.
func c13deepserve(args []string) {
	in := bufio.NewReaderSize(os.Stdin, 1<<20)
	out := bufio.NewWriter(os.Stdout)
	for {
		line, err := in.ReadString('\n')
		if len(line) == 0 && err != nil {
			return
		}
		line = strings.TrimRight(line, "\n")
		parts := strings.SplitN(line, "\t", 3)
		if len(parts) != 3 {
			fmt.Fprintln(out, "bad-request")
			out.Flush()
			continue
		}
		data, _ := hex.DecodeString(parts[1])
		var co *insts.KernelCodeObject
		msg := ""
		func() {
			defer func() {
				if e := recover(); e != nil {
					msg = strings.ReplaceAll(fmt.Sprint(e), "\n", " ")
				}
			}()
			co = insts.LoadKernelCodeObjectFromBytes(data, parts[2])
		}()
		if msg != "" {
			fmt.Fprintln(out, "panic:"+msg)
		} else {
			fmt.Fprintln(out, c13canon(co)+" hex="+hexb(co.Data))
		}
		out.Flush()
		if err != nil {
			return
		}
	}
}

// c13deepQuery runs one request in the deep child (respawned after a log.Fatal).
func c13deepQuery(s *c13server, obj []byte, name string) string {
	if s.cmd == nil {
		c13startNamed(s, "c13deepserve")
	}
	return s.query("B", hexb(obj), name)
}

func c13startNamed(s *c13server, child string) {
	cmd := exec.Command(os.Args[0], "child", child)
	cmd.Env = append(os.Environ(), "GOMEMLIMIT=2GiB")
	stdin, err := cmd.StdinPipe()
	must(err)
	so, err := cmd.StdoutPipe()
	must(err)
	s.cmd = cmd
	s.stdin = stdin
	s.stdout = bufio.NewReaderSize(so, 1<<16)
	s.stderr = &bytes.Buffer{}
	cmd.Stderr = s.stderr
	must(cmd.Start())
	s.spawns++
}

func c13accStr(m *insts.KernelCodeObjectMeta) string {
	return fmt.Sprintf("vgpr=%d sgpr=%d prio=%d wave=%c user=%d wg=%c%c%c%c wi=%d exc=%c%c",
		m.WorkItemVgprCount(), m.WavefrontSgprCount(), m.Priority(), c13b01(m.EnableSgprPrivateSegmentWaveByteOffset()),
		m.UserSgprCount(), c13b01(m.EnableSgprWorkGroupIDX()), c13b01(m.EnableSgprWorkGroupIDY()),
		c13b01(m.EnableSgprWorkGroupIDZ()), c13b01(m.EnableSgprWorkGroupInfo()), m.EnableVgprWorkItemID(),
		c13b01(m.EnableExceptionAddressWatch()), c13b01(m.EnableExceptionMemoryViolation()))
}

// c13accWant is the bit-field reading of the two words, written with plain shifts.
func c13accWant(w1, w2 uint32) string {
	bit := func(w uint32, i uint) byte { return c13b01((w>>i)&1 == 1) }
	return fmt.Sprintf("vgpr=%d sgpr=%d prio=%d wave=%c user=%d wg=%c%c%c%c wi=%d exc=%c%c",
		w1&63, (w1>>6)&15, (w1>>10)&3, bit(w2, 0), (w2>>1)&31, bit(w2, 7), bit(w2, 8), bit(w2, 9), bit(w2, 10),
		(w2>>11)&3, bit(w2, 13), bit(w2, 14))
}

// c13normWant applies the field-level description of the rsrc2 rewriting (Rsrc2.norm).
func c13normWant(w2 uint32, kernarg bool) uint32 {
	w2 &^= 1
	if kernarg {
		w2 = w2&^(31<<1) | 2<<1
	}
	w2 |= 1<<7 | 1<<8
	if (w2>>11)&3 == 0 {
		w2 |= 1 << 11
	}
	return w2
}

func (e *c13env) deepAccessors(rng *Rng, n int) {
	r := e.r
	for it := 0; it < n; it++ {
		h := c13header(rng, 6)[:88]
		if rng.Chance(30) {
			c13put(h, 48, 4, uint64(rng.U64()))
			c13put(h, 52, 4, uint64(rng.U64()))
		}
		var m *insts.KernelCodeObjectMeta
		f := catch(func() { m = insts.VerifParseV2V3Header(h) })
		ans := "fault:" + f
		if f == "" {
			ans = c13accStr(m)
		}
		r.Case("c13 acc "+hexb(h), ans)
		r.Checked("deep-accessors")
		if want := c13accWant(uint32(c13le(h, 48, 4)), uint32(c13le(h, 52, 4))); ans != want {
			r.Failf("C13.deep.accessors", hexb(h), "methods %s ; bit-fields %s", ans, want)
		}

		d := c13descriptor(rng)
		if rng.Chance(30) {
			c13put(d, 48, 4, uint64(rng.U64()))
			c13put(d, 52, 4, uint64(rng.U64()))
		}
		f = catch(func() { m = insts.VerifParseV5KernelDescriptor(d) })
		ans = "fault:" + f
		if f == "" {
			ans = c13accStr(m)
		}
		r.Case("c13 kdacc "+hexb(d), ans)
		r.Checked("deep-kd-normalised-fields")
		// ABI slots: rsrc1 @48, rsrc2 @52, rewritten field by field
		want := c13accWant(uint32(c13le(d, 48, 4)), c13normWant(uint32(c13le(d, 52, 4)), c13le(d, 8, 4) > 0))
		if ans != want {
			r.Failf("C13.deep.kd-normalised-fields", hexb(d), "methods %s ; field-level rewriting %s", ans, want)
		}
	}
}

// deepSelection: symbol tables with duplicates, zero sizes, foreign / special / out-of-range
// section indices and values anywhere in uint64, on objects without .rodata.
func (e *c13env) deepSelection(rng *Rng, deep *c13server, n int) {
	r := e.r
	two64 := new(big.Int).Lsh(big.NewInt(1), 64)
	for it := 0; it < n; it++ {
		L := rng.Range(4, 48)
		text := rng.Bytes(L)
		addrs := []uint64{0, 0x1000, 0x1234, 0x100000000, 0xffffffffffff0000}
		A := addrs[rng.Intn(len(addrs))]
		o := &c13obj{}
		if rng.Chance(50) {
			o.secs = append(o.secs, c13sec{name: ".data", typ: 1, flags: 3, addr: uint64(rng.Pick(0, 0x100, 0x1000)), data: rng.Bytes(rng.Range(1, 16))})
		}
		o.secs = append(o.secs, c13sec{name: ".text", typ: 1, flags: 6, addr: A, data: text})
		textIdx := len(o.secs)
		otherText := 0
		if rng.Chance(25) {
			o.secs = append(o.secs, c13sec{name: ".text", typ: 1, flags: 6, addr: A + 0x40, data: rng.Bytes(rng.Range(1, 16))})
			otherText = len(o.secs)
		}
		if rng.Chance(30) {
			o.secs = append(o.secs, c13sec{name: ".note", typ: 7, flags: 2, addr: 0x200, data: rng.Bytes(8)})
		}
		ns := rng.Range(1, 7)
		for i := 0; i < ns; i++ {
			y := c13sym{info: 0x12, name: []string{"k", "k", "k", "k", "k", "j", "k.x", ""}[rng.Intn(8)]}
			switch x := rng.Intn(20); {
			case x < 12:
				y.shndx = uint16(textIdx)
			case x < 14 && otherText != 0:
				y.shndx = uint16(otherText)
			case x < 16:
				y.shndx = uint16(rng.Pick(0, 0xfff1, 0xfff2, 99, len(o.secs)+1, len(o.secs)+2, len(o.secs)+3, len(o.secs)+4))
			default:
				y.shndx = uint16(rng.Range(1, len(o.secs)))
			}
			switch rng.Intn(12) {
			case 0, 1:
				y.size = 0
			case 2:
				y.size = uint64(L) + uint64(rng.Pick(0, 1, 100))
			case 3:
				y.size = uint64(rng.Pick(0, 1)) - uint64(rng.Pick(1, 2, 16, 64))
			case 4:
				y.size = 1 << 63
			default:
				y.size = uint64(rng.Range(1, L))
			}
			switch rng.Intn(14) {
			case 0:
				y.value = A - uint64(rng.Pick(1, 2, 64, 0x1000))
			case 1:
				y.value = A + uint64(L) - uint64(rng.Pick(0, 1, 2))
			case 2:
				y.value = uint64(rng.Pick(0, 1)) - uint64(rng.Pick(0, 1, 8))
			case 3:
				y.value = rng.U64()
			case 4, 5, 6:
				y.value = A + uint64(rng.Intn(L))
			default: // fits when the size does
				y.value = A
				if y.size <= uint64(L) {
					y.value = A + uint64(rng.Intn(L-int(y.size)+1))
				}
			}
			o.syms = append(o.syms, y)
		}
		name := []string{"k", "k", "k", "k", "k", "k", "j", "zz"}[rng.Intn(8)]
		obj := c13writeELF(o)
		ef, err := elf.NewFile(bytes.NewReader(obj))
		if err != nil {
			r.Count("deep.sel.elf-rejected")
			continue
		}
		view, ok := c13view(ef)
		if !ok {
			continue
		}
		res := c13deepQuery(deep, obj, name)
		ans := ""
		switch {
		case strings.HasPrefix(res, "ok v=5 "):
			ans = "ok sym=" + c13field(res, "sym") + " data=" + c13field(res, "hex")
		case strings.HasPrefix(res, "ok v=3 "):
			r.Count("deep.sel.skipped-header-shaped")
			continue
		case res == "fatal:notfound":
			ans = "err:notfound"
		case strings.HasPrefix(res, "panic:") && strings.Contains(res, "slice bounds out of range [:") && strings.Contains(res, "with capacity"):
			ans = "err:hi-past-cap"
		case strings.HasPrefix(res, "panic:") && strings.Contains(res, "slice bounds out of range ["):
			ans = "err:lo-past-hi"
		default:
			ans = res
		}
		r.Case("c13 sel n:"+name+" "+view, ans)
		r.Count("deep.sel." + strings.SplitN(ans, " ", 2)[0])
		// independent expectation, in plain (non-wrapping) arithmetic
		r.Checked("deep-selection")
		first := -1
		for i, y := range o.syms {
			idx := int(y.shndx)
			if y.name == name && y.size > 0 && idx >= 1 && idx <= len(o.secs) && o.secs[idx-1].name == ".text" {
				first = i
				break
			}
		}
		want := ""
		if first < 0 {
			want = "err:notfound"
		} else {
			y := o.syms[first]
			end := new(big.Int).Add(new(big.Int).SetUint64(y.value), new(big.Int).SetUint64(y.size))
			lim := new(big.Int).Add(new(big.Int).SetUint64(A), big.NewInt(int64(L)))
			if y.value >= A && end.Cmp(lim) <= 0 && lim.Cmp(two64) < 0 {
				off := y.value - A
				want = fmt.Sprintf("ok sym=n:%s,%x,%x,%d data=%s", y.name, y.value, y.size, int(y.shndx), hexb(text[off:off+y.size]))
			} else {
				want = "err:panic"
			}
		}
		got := ans
		if got == "err:hi-past-cap" || got == "err:lo-past-hi" {
			got = "err:panic"
		}
		if got != want {
			r.Failf("C13.deep.selection", fmt.Sprintf("seed=%d it=%d name=%s %s", r.Seed, it, name, view), "loader %s ; first qualifying symbol in table order gives %s", ans, want)
		}
	}
}

type c13req struct {
	obj  []byte
	name string
	tag  string
}

// deepPurity: loading is a function of (bytes, name) alone.
func (e *c13env) deepPurity(rng *Rng, nSynth int) {
	r := e.r
	var reqs []c13req
	// a few small shipped objects
	var files []string
	filepath.Walk(filepath.Join(repoRoot(), "amd"), func(p string, info os.FileInfo, err error) error {
		if err == nil && !info.IsDir() && strings.HasSuffix(p, ".hsaco") && info.Size() < 24000 {
			files = append(files, p)
		}
		return nil
	})
	sort.Strings(files)
	for i := 0; i < 5 && len(files) > 0; i++ {
		p := files[rng.Intn(len(files))]
		raw, err := os.ReadFile(p)
		if err != nil {
			continue
		}
		ef, err := elf.NewFile(bytes.NewReader(raw))
		if err != nil {
			continue
		}
		syms, _ := ef.Symbols()
		for _, y := range syms {
			if int(y.Section) > 0 && int(y.Section) < len(ef.Sections) && ef.Sections[y.Section].Name == ".text" && y.Size > 0 {
				reqs = append(reqs, c13req{raw, y.Name, "shipped"})
				break
			}
		}
		reqs = append(reqs, c13req{raw, "", "shipped-empty-name"})
	}
	for i := 0; i < nSynth; i++ {
		sp := c13genSpec(rng, rng.Range(1, 4))
		obj := c13writeELF(c13build(rng, sp, nil, rng.Intn(2), rng.Intn(4)))
		for j := range sp.kerns {
			if j < 2 {
				reqs = append(reqs, c13req{obj, sp.kerns[j].name, "synth"})
			}
		}
		if rng.Chance(30) {
			reqs = append(reqs, c13req{obj, "nosuchkernel", "synth-notfound"})
		}
	}
	if len(reqs) == 0 {
		return
	}
	base := make([]string, len(reqs))
	okv := make([]bool, len(reqs))
	for i, q := range reqs {
		base[i], okv[i] = e.loadCase("purity.first."+q.tag, q.obj, "", q.name)
	}
	// the same requests again, in two other orders, each twice in a row, same loader process
	for round := 0; round < 2; round++ {
		for _, i := range rng.Perm(len(reqs)) {
			if !okv[i] {
				continue
			}
			for rep := 0; rep < 2; rep++ {
				res, _ := e.loadCase("purity.again", reqs[i].obj, "", reqs[i].name)
				r.Checked("purity-repeat")
				if res != base[i] {
					r.Failf("C13.purity.repeat", fmt.Sprintf("seed=%d req=%d name=%s tag=%s", r.Seed, i, reqs[i].name, reqs[i].tag),
						"first answer %s ; later answer %s", base[i], res)
				}
			}
		}
	}
	// in-process: results neither alias the caller's buffer nor each other, and survive scribbling
	for i, q := range reqs {
		if !okv[i] || !strings.HasPrefix(base[i], "ok ") {
			continue
		}
		snap := func(co *insts.KernelCodeObject) string { return c13canon(co) + " " + hexb(co.Data) }
		in := append([]byte(nil), q.obj...)
		var co1, co2, co3 *insts.KernelCodeObject
		var s1, s1b, s2, s2b, s3 string
		f := catch(func() {
			co1 = insts.LoadKernelCodeObjectFromBytes(in, q.name)
			s1 = snap(co1)
			for j := range in {
				in[j] ^= 0xff
			}
			s1b = snap(co1)
			co2 = insts.LoadKernelCodeObjectFromBytes(append([]byte(nil), q.obj...), q.name)
			s2 = snap(co2)
			for j := range co1.Data {
				co1.Data[j] ^= 0xa5
			}
			*co1.KernelCodeObjectMeta = insts.KernelCodeObjectMeta{}
			if co1.Symbol != nil {
				co1.Symbol.Name = "scribbled"
				co1.Symbol.Value = 0
			}
			s2b = snap(co2)
			co3 = insts.LoadKernelCodeObjectFromBytes(append([]byte(nil), q.obj...), q.name)
			s3 = snap(co3)
		})
		r.Checked("purity-alias")
		switch {
		case f != "":
			r.Failf("C13.purity.alias", fmt.Sprintf("seed=%d req=%d name=%s", r.Seed, i, q.name), "in-process load panicked: %s (child answered %s)", f, base[i])
		case !strings.HasPrefix(s1, base[i]+" "):
			r.Failf("C13.purity.process", fmt.Sprintf("seed=%d req=%d name=%s", r.Seed, i, q.name), "child process %s ; in-process %s", base[i], s1[:min(len(s1), 300)])
		case s1b != s1:
			r.Failf("C13.purity.alias", fmt.Sprintf("seed=%d req=%d name=%s", r.Seed, i, q.name), "result changed when the caller overwrote its input buffer")
		case s2 != s1 || s2b != s2:
			r.Failf("C13.purity.alias", fmt.Sprintf("seed=%d req=%d name=%s", r.Seed, i, q.name), "second result differs from / shares memory with the first")
		case s3 != s1:
			r.Failf("C13.purity.alias", fmt.Sprintf("seed=%d req=%d name=%s", r.Seed, i, q.name), "load after scribbling over an earlier result differs")
		}
	}
}

// deepKdWrap: a raw kernel plus a <k>.kd symbol whose uint64 offset from .rodata is near 2^64.
func (e *c13env) deepKdWrap(rng *Rng, n int) {
	for it := 0; it < n; it++ {
		text := rng.Bytes(rng.Range(8, 40))
		roAddr := uint64(rng.Pick(0, 0, 0x40, 0x600))
		ro := rng.Bytes(rng.Pick(64, 96, 128))
		o := &c13obj{}
		o.secs = append(o.secs, c13sec{name: ".rodata", typ: 1, flags: 2, addr: roAddr, data: ro})
		o.secs = append(o.secs, c13sec{name: ".text", typ: 1, flags: 6, addr: 0x1000, data: text})
		below := uint64(rng.Pick(1, 16, 63, 64, 65, 200))
		o.syms = append(o.syms, c13sym{name: "k", info: 0x12, shndx: 2, value: 0x1000, size: uint64(len(text))})
		o.syms = append(o.syms, c13sym{name: "k.kd", info: 0x11, shndx: 1, value: roAddr - below, size: 64})
		if rng.Bool() {
			o.syms[0], o.syms[1] = o.syms[1], o.syms[0]
		}
		res, ok := e.loadCase("deep.kd-wrap", c13writeELF(o), "", "k")
		if ok {
			e.r.Count("deep.kd-wrap." + strings.SplitN(res, " ", 2)[0])
			// a descriptor symbol outside .rodata is ignored like any other out-of-range one:
			// the kernel loads as raw code, the loader does not panic
			e.r.Checked("kd-out-of-range")
			if !strings.HasPrefix(res, "ok v=5 ") || c13field(res, "data") == "" {
				e.r.Failf("C13.kd.out-of-range-panic", fmt.Sprintf(".rodata addr=%x len=%d ; k.kd value=%x size=64", roAddr, len(ro), roAddr-below),
					"descriptor symbol %d bytes below .rodata (uint64 offset %x): loader answered %s", below, roAddr-below-roAddr, res)
			}
		}
	}
}

func runC13Deep(r *Run, rng *Rng, replay string) {
	e := &c13env{r: r, srv: &c13server{}}
	deep := &c13server{}
	defer e.srv.stop()
	defer deep.stop()
	na, nsel, npure, nkd := 400, 500, 6, 24
	if r.Tier == "thorough" {
		na, nsel, npure, nkd = 6000, 6000, 40, 200
	}
	e.deepAccessors(rng, na)
	e.deepSelection(rng, deep, nsel)
	e.deepPurity(rng, npure)
	e.deepKdWrap(rng, nkd)
	r.CountN("child-process-spawns", e.srv.spawns+deep.spawns)
}
