package main

import (
	"fmt"
	"strings"

	"github.com/sarchlab/akita/v4/mem/mem"
	"github.com/sarchlab/akita/v4/sim"
	"github.com/sarchlab/mgpusim/v4/amd/insts"
	"github.com/sarchlab/mgpusim/v4/amd/timing/cu"
	"github.com/sarchlab/mgpusim/v4/amd/timing/rob"
)

func init() { register("C15", runC15Cu) }

// Third C15 runner: the REAL compute unit (scalar-memory path, driven as in harness/c14_zflush.go)
// connected to the REAL reorder buffer, a memory that answers in any order, and the command
// processor's page-migration protocol (flush CU → ack → DiscardTransactions to the ROB → ack →
// Restart to the ROB → ack → restart CU). The connection between the two components is played by
// the harness one message at a time (`tk s 1` = head of the CU's outgoing buffer into the ROB's
// Top port, `de s i g` = head of the Top port's outgoing buffer into the CU), everything else is
// the components' own Tick. The case line `c15 cu …` is answered by the Lean composition
// `C15.Cu` (MgpuModel/C15_Cu.lean: C14.Flush.step ∥ C15.sysStep): CU digest after every CU Tick,
// transaction / table / flushing after every ROB Tick, the request ID every response names.
//
// Oracles on the real components (independent of the model):
//   C15.cu.unanswered  a scalar load whose answer the CU never accepted although the run was
//                      driven to quiescence (requests dropped by the ROB at flush / restart must be
//                      re-sent by the CU), or a wait counter that is not back to zero
//   C15.cu.twice       the CU accepted two answers for one record
//   C15.cu.data        a destination register does not hold the memory's data for the load
//   C15.cu.rspto       the ROB's response names an ID the CU never used
//   C15.cu.order       responses leave the ROB in another order than it accepted the requests
// plus every C14.flush.* oracle of the CU harness (record lost, re-sent twice, counter mismatch …).

type c15cu struct {
	r           *Run
	e           *c14fEnv
	rb          *rob.ReorderBuffer
	top         sim.Port
	bot         sim.Port
	ctl         sim.Port
	mem         []mem.AccessReq
	accepted    []sim.Msg // request objects in the ROB's Top port or transaction list, oldest first
	inTop       int       // how many of them still wait in the Top port's incoming buffer
	applied     map[*c14fEnt]int
	ph          int
	restartSeen bool
	rounds      int
	stale       int
}

func (x *c15cu) fail(sig, format string, a ...interface{}) {
	x.r.Failf(sig, x.e.line(), format, a...)
}

func newC15cu(r *Run, nw, cap, width int, pb [4]int, caps int) *c15cu {
	x := &c15cu{r: r, applied: map[*c14fEnt]int{}}
	x.e = c14fNewEnv(r, nw, 0, [4]int{}, true)
	if caps != 32 {
		// a compute unit with a small scalar-memory port (the builder fixes 32/32): the re-send of a
		// saved record can then be refused by a full port
		p := sim.NewPort(x.e.cu, caps, caps, "CU.ToScalarMem")
		p.SetConnection(&fakeConn{name: "c"})
		p.AcceptHook(&c14fHook{e: x.e, k: 1})
		x.e.cu.ToScalarMem = p
	}
	x.rb = rob.MakeBuilder().WithEngine(&fakeEngine{}).WithFreq(1 * sim.GHz).
		WithBufferSize(cap).WithNumReqPerCycle(width).WithBottomUnit(c15BottomUnit).Build("ROB")
	pbs := "def"
	if pb[0] > 0 {
		x.rb.VerifSetPortBuffers(pb[0], pb[1], pb[2], pb[3], 1, 1)
		pbs = fmt.Sprintf("%d,%d,%d,%d", pb[0], pb[1], pb[2], pb[3])
	}
	x.top, x.bot, x.ctl = x.rb.VerifPorts()
	conn := &fakeConn{name: "c15cu"}
	for _, p := range []sim.Port{x.top, x.bot, x.ctl} {
		p.SetConnection(conn)
	}
	x.top.AcceptHook(x)
	x.ctl.AcceptHook(x)
	x.e.ops = []string{fmt.Sprintf("c15 cu cap=%d width=%d pb=%s cb=def caps=%d nw=%d", cap, width, pbs, caps, nw)}
	return x
}

// Func observes the ROB's Top port: acceptance (RetrieveIncoming) and responses (Send)
func (x *c15cu) Func(ctx sim.HookCtx) {
	if ctx.Domain.(sim.Port) == x.ctl {
		if c, ok := ctx.Item.(*mem.ControlMsg); ok && ctx.Pos == sim.HookPosPortMsgRetrieveIncoming {
			if c.DiscardTransations {
				// the accepted requests are thrown away; those still in the Top port stay there
				x.accepted = x.accepted[len(x.accepted)-x.inTop:]
			} else if c.Restart {
				x.accepted, x.inTop, x.restartSeen = nil, 0, true
			}
		}
		return
	}
	switch ctx.Pos {
	case sim.HookPosPortMsgRetrieveIncoming:
		if x.inTop > 0 {
			x.inTop--
		}
	case sim.HookPosPortMsgSend:
		rsp, ok := ctx.Item.(mem.AccessRsp)
		if !ok {
			return
		}
		x.r.Checked("cu-order")
		if len(x.accepted)-x.inTop <= 0 {
			x.fail("C15.cu.order", "the ROB answers %s while it holds no accepted request", rsp.GetRspTo())
			return
		}
		head := x.accepted[0]
		x.accepted = x.accepted[1:]
		if head.Meta().ID != rsp.GetRspTo() {
			x.fail("C15.cu.order", "the ROB answers request ID %s, the oldest accepted request carries ID %s", rsp.GetRspTo(), head.Meta().ID)
		}
	}
}

func (x *c15cu) xfer() bool {
	p := x.e.cu.ToScalarMem
	m := p.PeekOutgoing()
	if m == nil {
		return false
	}
	if x.top.Deliver(m) != nil {
		return false
	}
	x.accepted = append(x.accepted, m)
	x.inTop++
	x.e.take(1, 1)
	return true
}

func (x *c15cu) robTick() {
	var progress bool
	waiting := x.inTop
	f := catch(func() { progress = x.rb.Tick() })
	if x.restartSeen { // restart() emptied the Top port before anything else happened in this Tick
		x.restartSeen = false
		x.r.CountN("c15.cu:dropped-unaccepted-at-restart", waiting)
		if waiting > 0 {
			x.r.Count("c15.cu:restart-with-unaccepted-requests")
		}
	}
	if f != "" {
		x.e.push("rt", "fault:"+f)
		x.e.fault = "rob:" + f
		return
	}
	tx, tb, fl := x.rb.VerifState()
	x.e.push("rt", fmt.Sprintf("t%s:%d,%d,%s", c14fB(progress), tx, tb, c14fB(fl)))
}

func (x *c15cu) memTake() {
	m := x.bot.RetrieveOutgoing()
	if m == nil {
		x.e.push("mt", "m0")
		return
	}
	x.mem = append(x.mem, m.(mem.AccessReq))
	x.e.push("mt", "m1")
}

func (x *c15cu) memAnswer(j int) {
	op := fmt.Sprintf("ma %d", j)
	if len(x.mem) == 0 {
		x.e.push(op, "none")
		return
	}
	j %= len(x.mem)
	b := x.mem[j].(*mem.ReadReq)
	d := make([]byte, b.AccessByteSize)
	for i := range d {
		d[i] = c14fMemByte(b.Address + uint64(i))
	}
	rsp := mem.DataReadyRspBuilder{}.WithSrc(c15BottomUnit).WithDst(x.bot.AsRemote()).WithRspTo(b.ID).WithData(d).Build()
	if x.bot.Deliver(rsp) != nil {
		x.e.push(op, "full")
		return
	}
	x.mem = append(x.mem[:j:j], x.mem[j+1:]...)
	x.e.push(op, "ok")
}

func (x *c15cu) back() bool {
	m := x.top.PeekOutgoing()
	if m == nil {
		return false
	}
	rsp := m.(mem.AccessRsp)
	id := rsp.GetRspTo()
	var ent *c14fEnt
	gen := -1
	for _, c := range x.e.ents {
		for g, s := range c.gens {
			if s == id {
				ent, gen = c, g
			}
		}
	}
	x.r.Checked("cu-rspto")
	if ent == nil {
		x.fail("C15.cu.rspto", "the ROB's response names request ID %s, which the compute unit never used", id)
		x.top.RetrieveOutgoing()
		return true
	}
	op := fmt.Sprintf("de s %d %d", ent.id, gen)
	if !x.e.sentIDs[id] {
		// the request object was given this ID by a re-send the port refused; a copy of the object
		// that survived the flush in the compute unit's port was answered under it
		x.r.Count("c15.cu:answer-names-unsent-id")
	}
	if x.e.cu.ToScalarMem.Deliver(m) != nil {
		x.e.push(op, "d0")
		return false
	}
	x.top.RetrieveOutgoing()
	x.e.inp[1] = append(x.e.inp[1], c14fRec{ent: ent, gen: gen, id: id})
	x.e.push(op, "d1")
	return true
}

func (x *c15cu) ctlMsg(discard bool) bool {
	b := mem.ControlMsgBuilder{}.WithSrc("CP.Port").WithDst(x.ctl.AsRemote())
	op := "rS"
	if discard {
		b = b.ToDiscardTransactions()
		op = "rF"
	} else {
		b = b.ToRestart()
	}
	if x.ctl.Deliver(b.Build()) != nil {
		x.e.push(op, "full")
		return false
	}
	x.e.push(op, "ok")
	return true
}

func (x *c15cu) ack() bool {
	if x.ctl.RetrieveOutgoing() == nil {
		x.e.push("ra", "c[]")
		return false
	}
	x.e.push("ra", "c[done]")
	return true
}

func (x *c15cu) cuTick() {
	x.e.tick()
	for _, m := range x.e.matched {
		x.applied[m]++
		x.r.Checked("cu-once")
		if x.applied[m] > 1 {
			x.fail("C15.cu.twice", "record %d (wavefront %d): the compute unit accepted %d answers", m.id, m.wf, x.applied[m])
		}
		if m.total > 1 {
			x.r.Count("c15.cu:answered-after-resend")
		}
	}
}

// proto advances the command processor's protocol by at most one step
func (x *c15cu) proto() {
	switch x.ph {
	case 1: // flush request delivered; wait for the CU's acknowledgement
		if len(x.e.out[3]) > 0 {
			x.e.take(3, 1)
		}
		if x.e.cpSt == 2 {
			x.ph = 2
		}
	case 2:
		if x.ctlMsg(true) {
			x.ph = 3
		}
	case 3:
		if x.ack() {
			x.ph = 4
		}
	case 4:
		if x.ctlMsg(false) {
			x.ph = 5
		}
	case 5:
		if x.ack() {
			x.ph = 6
		}
	case 6:
		if x.e.cpDeliver(false) {
			x.ph = 7
		}
	case 7: // wait for the restart answer so that the next flush is legal
		if len(x.e.out[3]) > 0 {
			x.e.take(3, 1)
		}
		if x.e.cpSt == 0 {
			x.ph = 0
			x.rounds++
		}
	}
}

func (x *c15cu) allApplied() bool {
	for _, c := range x.e.ents {
		if !c.applied {
			return false
		}
	}
	return len(x.e.lists(1, false))+len(x.e.lists(1, true)) == 0
}

func c15cuCase(r *Run, rng *Rng, caseNo uint64) {
	nw := 1 + rng.Intn(3)
	cap := rng.Pick(1, 2, 2, 3, 4, 8)
	width := rng.Pick(1, 1, 2, 4)
	var pb [4]int
	if rng.Chance(60) {
		pb = [4]int{1 + rng.Intn(3), 1 + rng.Intn(3), 1 + rng.Intn(3), 1 + rng.Intn(3)}
	}
	caps := 32
	if rng.Chance(45) {
		caps = 1 + rng.Intn(3)
	}
	x := newC15cu(r, nw, cap, width, pb, caps)
	e := x.e
	kInst := 1 + rng.Intn(7)
	nFlush := rng.Pick(0, 1, 1, 1, 2)
	issued := 0
	slow := rng.Chance(50) // a slow ROB side before the flush leaves requests in the CU's port
	for step := 0; step < 60+40*nFlush && e.fault == ""; step++ {
		if issued < kInst && !e.paused() && rng.Chance(40) {
			is := c14fIssue{wf: rng.Intn(nw), kind: 1, uniq: caseNo*64 + uint64(issued), opc: rng.Pick(0, 1, 2), n: 1}
			if is.opc > 0 && rng.Chance(40) {
				is.off, is.n = 64-4*is.opc, 2
			}
			if e.nInst[is.wf] < 18 {
				e.issue(is)
				issued++
			}
		}
		if e.fault != "" {
			break
		}
		if x.ph == 0 && x.rounds < nFlush && issued > 0 && rng.Chance(12) {
			if e.cpDeliver(true) {
				x.ph = 1
			}
		}
		robSide := 70
		if slow && x.ph <= 1 && x.rounds == 0 {
			robSide = 25
		}
		switch {
		case rng.Chance(45):
			x.cuTick()
		case rng.Chance(50):
			x.xfer()
		}
		if rng.Chance(robSide) {
			x.robTick()
		}
		if rng.Chance(robSide) {
			x.memTake()
		}
		if rng.Chance(robSide) && len(x.mem) > 0 {
			x.memAnswer(rng.Intn(4))
		}
		if rng.Chance(60) {
			x.back()
		}
		if x.ph != 0 && rng.Chance(55) {
			x.proto()
		}
	}
	// drive to quiescence: everything keeps moving, the protocol round (if any) is completed
	for i := 0; i < 400 && e.fault == "" && !(x.ph == 0 && issued > 0 && x.allApplied() && len(e.inp[1]) == 0); i++ {
		if x.ph != 0 {
			x.proto()
		}
		x.cuTick()
		for x.xfer() {
		}
		x.robTick()
		for len(x.mem) < 64 {
			n := len(x.mem)
			x.memTake()
			if len(x.mem) == n {
				break
			}
		}
		for len(x.mem) > 0 {
			n := len(x.mem)
			x.memAnswer(rng.Intn(4))
			if len(x.mem) == n {
				break
			}
		}
		x.robTick()
		for x.back() {
		}
		if issued == 0 {
			break
		}
	}
	if e.fault == "" {
		r.Checked("cu-answered")
		for _, c := range e.ents {
			if !c.applied {
				x.fail("C15.cu.unanswered", "record %d (wavefront %d, sent %d times) never got an answer the compute unit accepted; protocol phase %d after %d rounds", c.id, c.wf, c.total, x.ph, x.rounds)
				break
			}
		}
		for i, wf := range e.wfs {
			if wf.OutstandingScalarMemAccess != 0 {
				x.fail("C15.cu.unanswered", "wavefront %d ends with lgkmcnt=%d", i, wf.OutstandingScalarMemAccess)
			}
		}
		// destination registers hold the memory's data
		r.Checked("cu-data")
		k := make([]int, nw)
		for _, is := range e.issues {
			base := uint64(0x300000000) + is.uniq*0x1000 + uint64(is.off)
			dw := 1 << uint(is.opc)
			buf := make([]byte, 4)
			for d := 0; d < dw; d++ {
				e.cu.SRegFile.Read(cu.RegisterAccess{Reg: insts.SReg(16 + 4*k[is.wf] + d), RegCount: 1, WaveOffset: e.wfs[is.wf].SRegOffset, Data: buf})
				for j := 0; j < 4; j++ {
					if want := c14fMemByte(base + uint64(4*d+j)); buf[j] != want {
						x.fail("C15.cu.data", "wavefront %d, load %d (s_load x%d at %#x): byte %d of s%d is %#x, memory holds %#x", is.wf, k[is.wf], dw, base, j, 16+4*k[is.wf]+d, buf[j], want)
						d = dw
						break
					}
				}
			}
			k[is.wf]++
		}
	}
	r.Case(e.line(), strings.Join(e.outs, " ; "))
	r.Count(fmt.Sprintf("c15.cu:flush-rounds:%d", x.rounds))
	if e.fault != "" {
		r.Count("c15.cu:fault")
	}
}

func runC15Cu(r *Run, rng *Rng, replay string) {
	rng = NewRng(rng.U64() ^ 0xc15c0)
	n := 120
	if r.Tier == "thorough" {
		n = 2500
	}
	for i := 0; i < n; i++ {
		c15cuCase(r, rng, uint64(i))
	}
}
