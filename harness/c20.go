package main

import (
	"fmt"
	"io"
	"os"
	"path/filepath"
	"reflect"
	"strings"
	"time"
	"unsafe"

	"github.com/sarchlab/akita/v4/sim"
	"github.com/sarchlab/akita/v4/sim/directconnection"
	nvbench "github.com/sarchlab/mgpusim/v4/nvidia/benchmark"
	nvdriver "github.com/sarchlab/mgpusim/v4/nvidia/driver"
	nvgpu "github.com/sarchlab/mgpusim/v4/nvidia/gpu"
	"github.com/sarchlab/mgpusim/v4/nvidia/nvidiaconfig"
	nvplatform "github.com/sarchlab/mgpusim/v4/nvidia/platform"
	nvrunner "github.com/sarchlab/mgpusim/v4/nvidia/runner"
	nvsm "github.com/sarchlab/mgpusim/v4/nvidia/sm"
	nvsubcore "github.com/sarchlab/mgpusim/v4/nvidia/subcore"
	"github.com/sarchlab/mgpusim/v4/nvidia/tracereader"
	log "github.com/sirupsen/logrus"
)

func init() { register("C20", runC20) }

// ------------------------------------------------------------------ traces and shapes

type c20Trace [][][]int // kernels -> blocks -> warps -> instruction count

func (t c20Trace) String() string {
	var b strings.Builder
	for _, k := range t {
		b.WriteString("[")
		for _, bl := range k {
			b.WriteString("(")
			for i, w := range bl {
				if i > 0 {
					b.WriteString(",")
				}
				fmt.Fprintf(&b, "%d", w)
			}
			b.WriteString(")")
		}
		b.WriteString("]")
	}
	if len(t) == 0 {
		return "-"
	}
	return b.String()
}

func (t c20Trace) totals() (k, b, w, n int, degenerate string) {
	for _, kk := range t {
		k++
		if len(kk) == 0 {
			degenerate = "empty_kernel"
		}
		for _, bb := range kk {
			b++
			if len(bb) == 0 && degenerate == "" {
				degenerate = "empty_block"
			}
			for _, ww := range bb {
				w++
				n += ww
				if ww == 0 && degenerate == "" {
					degenerate = "empty_warp"
				}
			}
		}
	}
	if degenerate == "" {
		degenerate = "regular"
	}
	return
}

func (t c20Trace) kernels() []*nvidiaconfig.Kernel {
	out := []*nvidiaconfig.Kernel{}
	for _, kk := range t {
		k := &nvidiaconfig.Kernel{}
		for _, bb := range kk {
			tb := nvidiaconfig.Threadblock{}
			for _, ww := range bb {
				w := nvidiaconfig.Warp{InstructionsCount: int64(ww), Instructions: make([]nvidiaconfig.Instruction, ww)}
				tb.Warps = append(tb.Warps, w)
				tb.WarpsCount++
			}
			k.Threadblocks = append(k.Threadblocks, tb)
			k.ThreadblocksCount++
		}
		out = append(out, k)
	}
	return out
}

// ------------------------------------------------------------------ one run on the real engine

type c20Port struct {
	in, out int
}

type c20Sys struct {
	G, S, C int
	p       *nvplatform.Platform
	gpus    []*nvgpu.GPU
	sms     []*nvsm.SM           // global index g*S+s
	subs    []*nvsubcore.Subcore // global index (g*S+s)*C+c
	// ports
	drvP            *c20Port
	gpuUp, gpuDn    []*c20Port
	smUp, smDn      []*c20Port
	subUp           []*c20Port
	handlers        map[sim.Handler]string
	sched           []string
	hash            uint64
	nameIdx         map[string]int
	delivered       [3]int // kernels, blocks, warps delivered to a child
	exclusiveBroken []string
}

type c20Hook struct{ f func(ctx sim.HookCtx) }

func (h *c20Hook) Func(ctx sim.HookCtx) { h.f(ctx) }

func c20ConnOf(port sim.Port) sim.Handler {
	v := reflect.ValueOf(port).Elem().FieldByName("conn")
	ptr := v.Elem().UnsafePointer()
	c := (*directconnection.Comp)(unsafe.Pointer(ptr))
	return c.TickingComponent
}

func (s *c20Sys) hookPort(port sim.Port, st *c20Port, onRecv func()) {
	port.AcceptHook(&c20Hook{f: func(ctx sim.HookCtx) {
		switch ctx.Pos {
		case sim.HookPosPortMsgSend:
			st.out++
		case sim.HookPosPortMsgRecvd:
			if onRecv != nil {
				onRecv()
			}
			st.in++
		case sim.HookPosPortMsgRetrieveIncoming:
			st.in--
		case sim.HookPosPortMsgRetrieveOutgoing:
			st.out--
		}
	}})
}

func c20Build(G, S, C int) *c20Sys {
	p := new(nvplatform.Platform)
	p.Engine = sim.NewSerialEngine()
	p.Driver = new(nvdriver.DriverBuilder).WithEngine(p.Engine).WithFreq(1 * sim.Hz).Build("Driver")
	gb := new(nvgpu.GPUBuilder).WithEngine(p.Engine).WithFreq(1 * sim.Hz).
		WithSMsCount(int64(S)).WithSubcoresCountPerSM(int64(C))
	for i := 0; i < G; i++ {
		g := gb.Build(fmt.Sprintf("GPU(%d)", i))
		p.Driver.RegisterGPU(g)
		p.Devices = append(p.Devices, g)
	}
	return c20Attach(p, G, S, C)
}

// c20Attach instruments an already built platform of shape G x S x C (also the one A100PlatformBuilder builds)
func c20Attach(p *nvplatform.Platform, G, S, C int) *c20Sys {
	s := &c20Sys{G: G, S: S, C: C, handlers: map[sim.Handler]string{}, nameIdx: map[string]int{}}
	s.p = p
	s.handlers[p.Driver.TickingComponent] = "D"
	dp := p.Driver.GetPortByName("ToDevice")
	s.drvP = &c20Port{}
	s.hookPort(dp, s.drvP, nil)
	s.handlers[c20ConnOf(dp)] = "x"
	for gi, g := range p.Devices {
		s.gpus = append(s.gpus, g)
		s.nameIdx[g.Name()] = gi
		s.handlers[g.TickingComponent] = fmt.Sprintf("G%d", gi)
		up, dn := &c20Port{}, &c20Port{}
		s.gpuUp, s.gpuDn = append(s.gpuUp, up), append(s.gpuDn, dn)
		g := g
		s.hookPort(g.GetPortByName(g.Name()+".ToDriver"), up, func() {
			s.delivered[0]++
			if g.VerifUnfinished() != 0 || g.VerifFinished() != 0 || g.VerifUndispatched() != 0 || up.in != 0 {
				s.exclusiveBroken = append(s.exclusiveBroken, "kernel->"+g.Name())
			}
		})
		dnPort := g.GetPortByName(g.Name() + ".ToSMs")
		s.hookPort(dnPort, dn, nil)
		s.handlers[c20ConnOf(dnPort)] = fmt.Sprintf("y%d", gi)
		bySMName := map[string]*nvsm.SM{}
		for _, m := range g.SMs {
			bySMName[m.Name()] = m
		}
		for si := 0; si < S; si++ {
			m := bySMName[fmt.Sprintf("%s.SM(%d)", g.Name(), si)]
			mi := gi*S + si
			s.sms = append(s.sms, m)
			s.nameIdx[m.Name()] = si
			s.handlers[m.TickingComponent] = fmt.Sprintf("S%d", mi)
			mup, mdn := &c20Port{}, &c20Port{}
			s.smUp, s.smDn = append(s.smUp, mup), append(s.smDn, mdn)
			s.hookPort(m.GetPortByName(m.Name()+".ToGPU"), mup, func() {
				s.delivered[1]++
				if m.VerifUnfinished() != 0 || m.VerifFinished() != 0 || m.VerifUndispatched() != 0 || mup.in != 0 {
					s.exclusiveBroken = append(s.exclusiveBroken, "block->"+m.Name())
				}
			})
			mdnPort := m.GetPortByName(m.Name() + ".ToSubcores")
			s.hookPort(mdnPort, mdn, nil)
			s.handlers[c20ConnOf(mdnPort)] = fmt.Sprintf("z%d", mi)
			byName := map[string]*nvsubcore.Subcore{}
			for _, c := range m.Subcores {
				byName[c.Name()] = c
			}
			for ci := 0; ci < C; ci++ {
				c := byName[fmt.Sprintf("%s.Subcore(%d)", m.Name(), ci)]
				s.subs = append(s.subs, c)
				s.nameIdx[c.Name()] = ci
				s.handlers[c.TickingComponent] = fmt.Sprintf("U%d", mi*C+ci)
				cup := &c20Port{}
				s.subUp = append(s.subUp, cup)
				s.hookPort(c.GetPortByName(c.Name()+".ToSM"), cup, func() {
					s.delivered[2]++
					if c.VerifUnfinished() != 0 || c.VerifFinished() != 0 || cup.in != 0 {
						s.exclusiveBroken = append(s.exclusiveBroken, "warp->"+c.Name())
					}
				})
			}
		}
	}
	p.Engine.(*sim.SerialEngine).AcceptHook(&c20Hook{f: func(ctx sim.HookCtx) {
		if ctx.Pos != sim.HookPosAfterEvent {
			return
		}
		evt := ctx.Item.(sim.Event)
		tok, ok := s.handlers[evt.Handler()]
		if !ok {
			tok = "?"
		}
		s.sched = append(s.sched, tok)
		for _, v := range s.digest(tok) {
			s.hash = (s.hash*1000003 + uint64(v) + 1) % 4294967296
		}
	}})
	return s
}

func (s *c20Sys) idxList(names []string) []int {
	out := []int{}
	for _, n := range names {
		out = append(out, s.nameIdx[n])
	}
	return out
}

func (s *c20Sys) drvVals() []int {
	d := s.p.Driver
	v := []int{d.VerifUndispatched(), int(d.VerifUnfinished())}
	fr := s.idxList(d.VerifFreeDevices())
	v = append(v, len(fr))
	v = append(v, fr...)
	return append(v, s.drvP.in, s.drvP.out)
}
func (s *c20Sys) gpuVals(i int) []int {
	g := s.gpus[i]
	v := []int{int(g.VerifFinished()), g.VerifUndispatched(), int(g.VerifUnfinished())}
	fr := s.idxList(g.VerifFreeSMs())
	v = append(v, len(fr))
	v = append(v, fr...)
	return append(v, s.gpuUp[i].in, s.gpuUp[i].out, s.gpuDn[i].in, s.gpuDn[i].out)
}
func (s *c20Sys) smVals(i int) []int {
	m := s.sms[i]
	v := []int{int(m.VerifFinished()), int(m.GetTotalWarpsCount()), m.VerifUndispatched(), int(m.VerifUnfinished())}
	fr := s.idxList(m.VerifFreeSubcores())
	v = append(v, len(fr))
	v = append(v, fr...)
	return append(v, s.smUp[i].in, s.smUp[i].out, s.smDn[i].in, s.smDn[i].out)
}
func (s *c20Sys) subVals(i int) []int {
	c := s.subs[i]
	return []int{int(c.VerifUnfinished()), int(c.VerifFinished()), int(c.GetTotalInstsCount()), s.subUp[i].in, s.subUp[i].out}
}

// digest = the observable integers of the component that just handled an event
func (s *c20Sys) digest(tok string) []int {
	var i int
	if len(tok) > 1 {
		fmt.Sscanf(tok[1:], "%d", &i)
	}
	switch tok[0] {
	case 'D':
		return append([]int{1}, s.drvVals()...)
	case 'G':
		return append([]int{2, i}, s.gpuVals(i)...)
	case 'S':
		return append([]int{3, i}, s.smVals(i)...)
	case 'U':
		return append([]int{4, i}, s.subVals(i)...)
	case 'x':
		v := []int{5, s.drvP.in, s.drvP.out}
		for g := range s.gpus {
			v = append(v, s.gpuUp[g].in, s.gpuUp[g].out)
		}
		return v
	case 'y':
		v := []int{6, i, s.gpuDn[i].in, s.gpuDn[i].out}
		for k := 0; k < s.S; k++ {
			v = append(v, s.smUp[i*s.S+k].in, s.smUp[i*s.S+k].out)
		}
		return v
	case 'z':
		v := []int{7, i, s.smDn[i].in, s.smDn[i].out}
		for k := 0; k < s.C; k++ {
			v = append(v, s.subUp[i*s.C+k].in, s.subUp[i*s.C+k].out)
		}
		return v
	}
	return []int{9}
}

func ints(v []int) string {
	p := make([]string, len(v))
	for i, x := range v {
		p[i] = fmt.Sprint(x)
	}
	return strings.Join(p, ",")
}

func (s *c20Sys) final() string {
	var b strings.Builder
	fmt.Fprintf(&b, "D:%s", ints(s.drvVals()))
	for i := range s.gpus {
		fmt.Fprintf(&b, " G%d:%s", i, ints(s.gpuVals(i)))
	}
	for i := range s.sms {
		fmt.Fprintf(&b, " S%d:%s", i, ints(s.smVals(i)))
	}
	for i := range s.subs {
		fmt.Fprintf(&b, " U%d:%s", i, ints(s.subVals(i)))
	}
	return b.String()
}

// hooks of harness/c20_eng.go (nil = no effect): c20AfterBuild may instrument the freshly built
// platform (per-scheduler engine wrappers, frequencies); c20AfterRun sees the finished run.
var (
	c20AfterBuild func(s *c20Sys)
	c20AfterRun   func(r *Run, s *c20Sys, t c20Trace, idle bool)
)

// c20Hangs counts engine runs of this process that never ended. Their goroutines cannot be stopped and keep
// spinning, so after three of them no further whole-platform run is started: the harness then still ends within
// its budget and reports the hanging traces as concrete failing inputs (C20.terminates.hang) instead of being
// killed by the time limit with nothing to show.
var c20Hangs int

func c20RunCase(r *Run, G, S, C int, t c20Trace) {
	if c20Hangs >= 3 {
		r.Count("run:skipped-after-3-hangs")
		return
	}
	k, b, w, n, deg := t.totals()
	s := c20Build(G, S, C)
	if c20AfterBuild != nil {
		c20AfterBuild(s)
	}
	runner := new(nvrunner.RunnerBuilder).WithPlatform(s.p).Build()
	bm := &nvbench.Benchmark{}
	for _, kk := range t.kernels() {
		e := new(nvbench.ExecKernel)
		e.SetKernel(*kk)
		bm.TraceExecs = append(bm.TraceExecs, e)
	}
	runner.AddBenchmark(bm)
	ok, fault := withTimeout(20*time.Second, func() { runner.Run() })
	cfg := fmt.Sprintf("c20 run g=%d s=%d c=%d k=%s", G, S, C, t.String())
	r.Count("run:" + deg)
	r.Count(fmt.Sprintf("shape:%dx%dx%d", G, S, C))
	if !ok {
		c20Hangs++
		r.Failf("C20.terminates.hang", cfg, "engine still running after 20 s wall clock")
		return
	}
	if fault != "" {
		r.Failf("C20.run.panic", cfg, "panic: %s", fault)
		return
	}
	line := cfg + " ; " + strings.Join(s.sched, " ")
	r.Case(line, fmt.Sprintf("ev=%d h=%d asleep=1 missed=0 %s", len(s.sched), s.hash, s.final()))
	r.CountN("events", len(s.sched))

	// ---- oracles on the real run
	r.Checked("conservation")
	recv, rem := 0, 0
	for _, c := range s.subs {
		recv += int(c.GetTotalInstsCount())
		rem += int(c.VerifUnfinished())
	}
	warps := 0
	for _, m := range s.sms {
		warps += int(m.GetTotalWarpsCount())
	}
	if s.delivered[0] > k || s.delivered[1] > b || s.delivered[2] > w || recv > n {
		r.Failf("C20.conservation.duplicated", cfg, "delivered kernels/blocks/warps=%v insts received=%d, trace has %d/%d/%d/%d", s.delivered, recv, k, b, w, n)
	}
	if len(s.exclusiveBroken) > 0 {
		r.Failf("C20.conservation.exclusive", cfg, "unit handed to a busy executor: %v", s.exclusiveBroken)
	}
	r.Checked("terminates")
	idle := s.p.Driver.VerifUnfinished() == 0 && s.p.Driver.VerifUndispatched() == 0 &&
		len(s.p.Driver.VerifFreeDevices()) == G && s.drvP.in == 0 && s.drvP.out == 0
	for i, g := range s.gpus {
		idle = idle && g.VerifFinished() == 0 && g.VerifUndispatched() == 0 && g.VerifUnfinished() == 0 &&
			len(g.VerifFreeSMs()) == S && s.gpuUp[i].in+s.gpuUp[i].out+s.gpuDn[i].in+s.gpuDn[i].out == 0
	}
	for i, m := range s.sms {
		idle = idle && m.VerifFinished() == 0 && m.VerifUndispatched() == 0 && m.VerifUnfinished() == 0 &&
			len(m.VerifFreeSubcores()) == C && s.smUp[i].in+s.smUp[i].out+s.smDn[i].in+s.smDn[i].out == 0
	}
	for i, c := range s.subs {
		idle = idle && c.VerifFinished() == 0 && c.VerifUnfinished() == 0 && s.subUp[i].in+s.subUp[i].out == 0
	}
	if c20AfterRun != nil {
		c20AfterRun(r, s, t, idle)
	}
	if !idle {
		r.Failf("C20.terminates.not_finished."+deg, cfg,
			"engine ran dry at t=%v with unfinished kernels=%d; delivered k/b/w=%v of %d/%d/%d; executed insts=%d of %d; state %s",
			s.p.Engine.CurrentTime(), s.p.Driver.VerifUnfinished(), s.delivered, k, b, w, recv-rem, n, s.final())
		return
	}
	if s.delivered != [3]int{k, b, w} || recv != n || rem != 0 || warps != w {
		r.Failf("C20.conservation.lost", cfg, "finished, but delivered k/b/w=%v (trace %d/%d/%d), insts received=%d remaining=%d (trace %d), SM warp count=%d",
			s.delivered, k, b, w, recv, rem, n, warps)
	}
}

func c20GenTrace(rng *Rng, degenerate bool) c20Trace {
	t := c20Trace{}
	lo := 1
	if degenerate {
		lo = 0
	}
	nk := rng.Range(1, 3)
	if degenerate && rng.Chance(5) {
		nk = 0
	}
	for k := 0; k < nk; k++ {
		kk := [][]int{}
		nb := rng.Range(lo, 4)
		if degenerate && rng.Chance(15) {
			nb = 0
		}
		for b := 0; b < nb; b++ {
			bb := []int{}
			nw := rng.Range(lo, 6)
			if rng.Chance(10) {
				nw = rng.Range(lo, 24)
			}
			if degenerate && rng.Chance(15) {
				nw = 0
			}
			uniform := rng.Chance(30)
			u := rng.Range(1, 5)
			for w := 0; w < nw; w++ {
				n := rng.Range(lo, 6)
				if uniform {
					n = u
				}
				if degenerate && rng.Chance(20) {
					n = 0
				}
				bb = append(bb, n)
			}
			kk = append(kk, bb)
		}
		t = append(t, kk)
	}
	return t
}

// ------------------------------------------------------------------ parser

type c20Inst struct {
	pc, mask        int64
	dst, src        []string
	op              string
	width, compress int64
	addr            int64
	stride          int64
	deltas          []int64
	imm             int64
}

type c20Warp struct {
	id    int64
	insts []c20Inst
}
type c20TB struct {
	id    [3]int64
	warps []c20Warp
}

func (i c20Inst) render() string {
	t := []string{fmt.Sprintf("%04x", i.pc), fmt.Sprintf("%08x", i.mask), fmt.Sprint(len(i.dst))}
	t = append(t, i.dst...)
	t = append(t, i.op, fmt.Sprint(len(i.src)))
	t = append(t, i.src...)
	t = append(t, fmt.Sprint(i.width))
	if i.width != 0 {
		t = append(t, fmt.Sprint(i.compress), fmt.Sprintf("0x%x", i.addr))
		switch i.compress {
		case 1:
			t = append(t, fmt.Sprint(i.stride))
		case 2:
			for _, d := range i.deltas {
				t = append(t, fmt.Sprint(d))
			}
		}
	}
	t = append(t, fmt.Sprint(i.imm))
	return strings.Join(t, " ")
}

// op = the opcode text of the parsed instruction ("-" when Instruction.OpCode is nil)
func c20CanonInst(pc, mask int64, dst, src []string, op string, width, compress, addr, stride int64, deltas []int64, imm int64) string {
	ds := make([]string, len(deltas))
	for i, d := range deltas {
		ds[i] = fmt.Sprint(d)
	}
	return fmt.Sprintf("%d:%d:%s:%s:%s:%d:%d:%d:%d:%s:%d", pc, mask, strings.Join(dst, "."), strings.Join(src, "."), op,
		width, compress, addr, stride, strings.Join(ds, "."), imm)
}

func c20CanonReal(in *tracereader.Instruction) string {
	var dst, src []string
	for _, r := range in.DestRegs {
		dst = append(dst, r.String())
	}
	for _, r := range in.SrcRegs {
		src = append(src, r.String())
	}
	var ds []int64
	for _, d := range in.MemAddressSuffix2 {
		ds = append(ds, int64(d))
	}
	op := "-"
	if in.OpCode != nil {
		op = in.OpCode.String()
	}
	return fmt.Sprintf("%d/%d/", in.DestNum, in.SrcNum) + c20CanonInst(int64(in.PC), in.Mask, dst, src, op, int64(in.MemWidth), int64(in.AddressCompress),
		in.MemAddress, int64(in.MemAddressSuffix1), ds, in.Immediate)
}

// what the serialised structure looks like after a faithful parse (opcode text included)
func (i c20Inst) canonSpec() string {
	var stride int64
	var deltas []int64
	compress, addr := int64(0), int64(0)
	if i.width != 0 {
		compress, addr = i.compress, i.addr
		if i.compress == 1 {
			stride = i.stride
		}
		if i.compress == 2 {
			deltas = i.deltas
		}
	}
	return fmt.Sprintf("%d/%d/", len(i.dst), len(i.src)) + c20CanonInst(i.pc, i.mask, i.dst, i.src, i.op, i.width, compress, addr, stride, deltas, i.imm)
}

var c20Ops = []string{"MOV", "S2R", "IMAD", "ISETP.GE.AND", "EXIT", "LDG.E", "STG.E", "FADD", "IMAD.MOV.U32", "BRA"}

func c20Reg(rng *Rng) string {
	if rng.Chance(15) {
		return "R255"
	}
	if rng.Chance(25) { // the upper part of the register file (R32..R254: unknown to the table before its repair)
		return fmt.Sprintf("R%d", rng.Pick(32, 254, rng.Range(32, 254)))
	}
	return fmt.Sprintf("R%d", rng.Intn(32))
}

func c20GenInst(rng *Rng, pc int64) c20Inst {
	in := c20Inst{pc: pc, mask: int64(rng.Pick(0xffffffff, 0, 1, 0x0000ffff, 0x80000000))}
	if rng.Chance(20) {
		in.mask = int64(rng.U64() & 0xffffffff)
	}
	for k := rng.Intn(3); k > 0; k-- {
		in.dst = append(in.dst, c20Reg(rng))
	}
	for k := rng.Intn(4); k > 0; k-- {
		in.src = append(in.src, c20Reg(rng))
	}
	in.op = c20Ops[rng.Intn(len(c20Ops))]
	if rng.Chance(55) {
		in.width = int64(rng.Pick(1, 2, 4, 8, 16))
		in.compress = int64(rng.Intn(3))
		in.addr = int64(rng.U64() & 0x7fffffffffff)
		if rng.Chance(10) {
			in.addr = int64(rng.Pick(0, 1, 0x7fffffffffffffff, 0xa, 0x10))
		}
		switch in.compress {
		case 1:
			in.stride = int64(rng.Pick(0, 4, 8, -4, 128, 2147483647, -2147483648))
		case 2:
			for k := rng.Intn(32); k > 0; k-- {
				in.deltas = append(in.deltas, int64(rng.Pick(0, 4, -4, 128, -128, 4096, 2147483647, -2147483648)))
			}
		}
	}
	in.imm = int64(rng.Pick(0, 0, 0, 1, -1, 255, 4096))
	if rng.Chance(5) {
		in.imm = int64(rng.U64() >> 1)
	}
	return in
}

func c20GenTBs(rng *Rng) []c20TB {
	tbs := []c20TB{}
	for b := rng.Range(0, 3); b > 0; b-- {
		tb := c20TB{id: [3]int64{int64(rng.Intn(200)), int64(rng.Intn(3)), int64(rng.Intn(2))}}
		for w := rng.Range(0, 4); w > 0; w-- {
			wp := c20Warp{id: int64(len(tb.warps))}
			if rng.Chance(20) {
				wp.id = int64(rng.Intn(64))
			}
			n := rng.Range(0, 5)
			for k := 0; k < n; k++ {
				wp.insts = append(wp.insts, c20GenInst(rng, int64(k*16)))
			}
			tb.warps = append(tb.warps, wp)
		}
		tbs = append(tbs, tb)
	}
	return tbs
}

func c20RenderBody(rng *Rng, tbs []c20TB) []string {
	lines := []string{"#traces format = [line_num] PC mask dest_num [reg_dests] opcode src_num [reg_srcs] mem_width [adrrescompress?] [mem_addresses] immediate", ""}
	for _, tb := range tbs {
		lines = append(lines, "#BEGIN_TB", "", fmt.Sprintf("thread block = %d,%d,%d", tb.id[0], tb.id[1], tb.id[2]), "")
		for _, w := range tb.warps {
			lines = append(lines, fmt.Sprintf("warp = %d", w.id), fmt.Sprintf("insts = %d", len(w.insts)))
			for _, in := range w.insts {
				lines = append(lines, in.render())
			}
			if rng == nil || rng.Chance(80) {
				lines = append(lines, "")
			}
		}
		lines = append(lines, "#END_TB", "")
	}
	return lines
}

type c20Header struct {
	name                      string
	id                        int32
	grid, block               [3]int32
	shmem, nregs, binver, sid int32
	shBase, locBase           int64
	nvbit, accel              string
	lineinfo                  bool
}

func (h c20Header) render() []string {
	li := 0
	if h.lineinfo {
		li = 1
	}
	return []string{
		"-kernel name = " + h.name, fmt.Sprintf("-kernel id = %d", h.id),
		fmt.Sprintf("-grid dim = (%d,%d,%d)", h.grid[0], h.grid[1], h.grid[2]),
		fmt.Sprintf("-block dim = (%d,%d,%d)", h.block[0], h.block[1], h.block[2]),
		fmt.Sprintf("-shmem = %d", h.shmem), fmt.Sprintf("-nregs = %d", h.nregs),
		fmt.Sprintf("-binary version = %d", h.binver), fmt.Sprintf("-cuda stream id = %d", h.sid),
		fmt.Sprintf("-shmem base_addr = 0x%016x", h.shBase), fmt.Sprintf("-local mem base_addr = 0x%016x", h.locBase),
		"-nvbit version = " + h.nvbit, "-accelsim tracer version = " + h.accel, fmt.Sprintf("-enable lineinfo = %d", li), "",
	}
}

func c20CanonTrace(tr *tracereader.KernelTrace) string {
	var b strings.Builder
	for i := int64(0); i < tr.ThreadblocksCount(); i++ {
		tb := tr.Threadblock(i)
		id := tb.VerifID()
		fmt.Fprintf(&b, "T%d,%d,%d", id[0], id[1], id[2])
		for j := int64(0); j < tb.WarpsCount(); j++ {
			w := tb.Warp(j)
			fmt.Fprintf(&b, " W%d,%d", w.VerifID(), w.InstsCount)
			for _, in := range w.Instructions {
				b.WriteString(" I" + c20CanonReal(in))
			}
		}
		b.WriteString(" ;")
	}
	return b.String()
}

func c20CanonSpec(tbs []c20TB) string {
	var b strings.Builder
	for _, tb := range tbs {
		fmt.Fprintf(&b, "T%d,%d,%d", tb.id[0], tb.id[1], tb.id[2])
		for _, w := range tb.warps {
			fmt.Fprintf(&b, " W%d,%d", w.id, len(w.insts))
			for _, in := range w.insts {
				b.WriteString(" I" + in.canonSpec())
			}
		}
		b.WriteString(" ;")
	}
	return b.String()
}

func c20ParseFile(dir string, lines []string) (out string, tr tracereader.KernelTrace) {
	must(os.MkdirAll(dir, 0o755))
	path := filepath.Join(dir, "c20-kernel.traceg")
	must(os.WriteFile(path, []byte(strings.Join(lines, "\n")+"\n"), 0o644))
	fault := catch(func() {
		tr = tracereader.ReadTrace(tracereader.VerifKernelMeta(path))
		out = c20CanonTrace(&tr)
	})
	if fault != "" {
		return "fault:" + c20Fault(fault), tr
	}
	return out, tr
}

func c20Fault(f string) string {
	if f == "bounds" {
		return "bounds"
	}
	return "panic"
}

func c20ParseCase(r *Run, rng *Rng) {
	tbs := c20GenTBs(rng)
	h := c20Header{name: fmt.Sprintf("_Z%dkernPf", rng.Intn(99)), id: int32(rng.Range(1, 50)),
		grid: [3]int32{int32(rng.Range(1, 400)), int32(rng.Range(1, 3)), 1}, block: [3]int32{int32(rng.Pick(32, 64, 256, 1024)), 1, 1},
		shmem: int32(rng.Pick(0, 1024, 49152)), nregs: int32(rng.Range(1, 255)), binver: int32(rng.Pick(70, 80, 86)), sid: int32(rng.Intn(4)),
		shBase: int64(rng.U64() & 0x7fffffffffff), locBase: int64(rng.U64() & 0x7fffffffffff), nvbit: "1.7", accel: fmt.Sprint(rng.Range(3, 5)), lineinfo: rng.Bool()}
	body := c20RenderBody(rng, tbs)
	lines := append(h.render(), body...)
	got, tr := c20ParseFile(r.OutDir, lines)
	r.Case("c20 parse "+strings.Join(body, "|"), got)
	r.Count("parse:rendered")
	ninst, nmem := 0, [3]int{}
	for _, tb := range tbs {
		for _, w := range tb.warps {
			for _, in := range w.insts {
				ninst++
				if in.width != 0 {
					nmem[in.compress]++
				}
			}
		}
	}
	r.CountN("parse:insts", ninst)
	for i, c := range nmem {
		r.CountN(fmt.Sprintf("parse:mem_compress%d", i), c)
	}
	r.Checked("parse_render")
	cs := "c20 parse " + strings.Join(body, "|")
	if want := c20CanonSpec(tbs); got != want {
		sig := "C20.parse_render.body"
		if c20FieldOnly(got, want, 7) {
			sig = "C20.parse_render.mem_address"
		} else if c20FieldOnly(got, want, 4) {
			sig = "C20.parse_render.opcode"
		}
		r.Failf(sig, cs, "parse(render t) != t: want %s got %s", want, got)
	}
	fh := tr.FileHeader
	if !strings.HasPrefix(got, "fault") && (fh.KernelName != h.name || fh.KernelID != h.id || [3]int32(fh.GridDim) != h.grid || [3]int32(fh.BlockDim) != h.block ||
		fh.Shmem != h.shmem || fh.Nregs != h.nregs || fh.BinaryVersion != h.binver || fh.CudaStreamID != h.sid || fh.ShmemBaseAddr != h.shBase ||
		fh.LocalMemBaseAddr != h.locBase || fh.NvbitVersion != h.nvbit || fh.AccelsimTracerVersion != h.accel || fh.EnableLineinfo != h.lineinfo) {
		r.Failf("C20.parse_render.header", cs, "header round trip: rendered %+v parsed %+v", h, fh)
	}
	// the opcode token is part of the serialised instruction: compared through canonSpec (field 4)
	if ninst > 0 {
		r.Checked("parse_render.opcode")
	}
}

// c20FieldOnly reports whether got and want differ only in field f of instructions (7 = memory address,
// 4 = opcode text).
func c20FieldOnly(got, want string, f int) bool {
	g, w := strings.Fields(got), strings.Fields(want)
	if len(g) != len(w) {
		return false
	}
	for i := range g {
		if g[i] == w[i] {
			continue
		}
		gf, wf := strings.Split(g[i], ":"), strings.Split(w[i], ":")
		if len(gf) != len(wf) || len(gf) < 11 {
			return false
		}
		for k := range gf {
			if gf[k] != wf[k] && k != f {
				return false
			}
		}
	}
	return true
}

// single instruction lines, including malformed ones
func c20InstCase(r *Run, rng *Rng) {
	// PC is an int32 printed as %04x: also kernels longer than 64 KiB of code
	in := c20GenInst(rng, int64(rng.Pick(rng.Intn(4096)*16, rng.Intn(4096)*16, 0xfff0, 0x10000, 0xffff0, 0x123450, 0x7ffffff0)))
	toks := strings.Fields(in.render())
	kind := "wellformed"
	if rng.Chance(45) {
		kind = "malformed"
		switch rng.Intn(7) {
		case 0: // truncate
			toks = toks[:rng.Intn(len(toks))]
		case 1: // unknown register (SASS has R0..R254 and R255)
			toks[rng.Intn(len(toks))] = fmt.Sprintf("R%d", rng.Pick(256, 300, 1000, rng.Range(256, 99999)))
		case 2: // junk number
			toks[rng.Intn(len(toks))] = []string{"zz", "12ab", "-7", "+3", "99999999999", "ffffffffffffffffff", "0x10", "-", "7fffffffffffffff", "9223372036854775808"}[rng.Intn(10)]
		case 3: // drop a token
			k := rng.Intn(len(toks))
			toks = append(toks[:k:k], toks[k+1:]...)
		case 4: // duplicate a token
			k := rng.Intn(len(toks))
			toks = append(toks[:k+1:k+1], toks[k:]...)
		case 5: // unknown compression mode
			if in.width != 0 {
				toks[5+len(in.dst)+len(in.src)+1] = fmt.Sprint(rng.Range(3, 9))
			}
		case 6: // address without 0x / in decimal / upper case
			if in.width != 0 {
				toks[5+len(in.dst)+len(in.src)+2] = []string{"7fb0fc430e00", "1234", "0X7FB0", "0", "0x", "0x7fb0g1"}[rng.Intn(6)]
			}
		}
	}
	line := strings.Join(toks, " ")
	var out string
	fault := catch(func() { out = "I" + c20CanonReal(tracereader.VerifExtractInst(line)) })
	if fault != "" {
		out = "fault:" + c20Fault(fault)
	}
	r.Case("c20 inst "+line, out)
	r.Count("inst:" + kind)
	if kind == "wellformed" {
		r.Checked("parse_render.inst")
		if want := "I" + in.canonSpec(); out != want {
			sig := "C20.parse_render.body"
			if c20FieldOnly(out, want, 7) {
				sig = "C20.parse_render.mem_address"
			} else if c20FieldOnly(out, want, 4) {
				sig = "C20.parse_render.opcode"
			}
			r.Failf(sig, "c20 inst "+line, "want %s got %s", want, out)
		}
	}
}

// ------------------------------------------------------------------ driver


func c20Repo() string {
	if d := os.Getenv("VERIF_REPO"); d != "" {
		return d
	}
	return "/repo"
}

func runC20(r *Run, rng *Rng, replay string) {
	log.SetOutput(io.Discard)
	log.SetLevel(log.PanicLevel)
	devnull, _ := os.OpenFile(os.DevNull, os.O_WRONLY, 0)
	stdout := os.Stdout
	os.Stdout = devnull // Driver prints the finish time with fmt.Println
	defer func() { os.Stdout = stdout }()

	nRun, nParse, nInst := 1500, 500, 6000
	if r.Tier == "thorough" {
		nRun, nParse, nInst = 20000, 6000, 100000
	}
	// fixed witnesses first: the degenerate traces of the finding, on small shapes
	for _, w := range []struct {
		g, s, c int
		t     c20Trace
	}{
		{1, 1, 2, c20Trace{{{0, 5}}}},
		{1, 1, 1, c20Trace{{{0}}}},
		{1, 1, 1, c20Trace{{{}}}},
		{1, 1, 1, c20Trace{{}}},
		{1, 2, 2, c20Trace{{{}, {3, 3}}, {{1}}}},
		{2, 1, 1, c20Trace{{}, {{2}}, {{1, 1}}}},
		{1, 1, 4, c20Trace{{{5, 5, 5, 5, 5, 5}}}},
		{1, 4, 4, c20Trace{{{1, 1, 1, 1}, {1, 1, 1, 1}, {1, 1, 1, 1}, {1, 1, 1, 1}, {1, 1, 1, 1}, {1, 1, 1, 1}}}},
		{3, 4, 4, c20Trace{{{2, 2, 2, 2}, {2, 2, 2, 2}, {2, 2, 2, 2}, {2, 2, 2, 2}}, {{2, 2, 2, 2}, {2, 2, 2, 2}, {2, 2, 2, 2}, {2, 2, 2, 2}}, {{1}}, {{1}}}},
	} {
		c20RunCase(r, w.g, w.s, w.c, w.t)
	}
	for i := 0; i < nRun; i++ {
		G, S, C := rng.Range(1, 3), rng.Range(1, 4), rng.Pick(1, 2, 3, 4, 4, 5, 6, 8)
		c20RunCase(r, G, S, C, c20GenTrace(rng, rng.Chance(45)))
	}
	for i := 0; i < nParse; i++ {
		c20ParseCase(r, rng)
	}
	for i := 0; i < nInst; i++ {
		c20InstCase(r, rng)
	}
	// the shipped sample trace: memory addresses must survive parsing
	r.Checked("parse.sample")
	fault := catch(func() {
		rd := new(tracereader.TraceReaderBuilder).WithTraceDirectory(filepath.Join(c20Repo(), "nvidia/data/simple-trace-example")).Build()
		for _, m := range rd.GetExecMetas() {
			if m.ExecType() != nvidiaconfig.ExecKernel {
				continue
			}
			tr := tracereader.ReadTrace(m)
			mem, zero := 0, 0
			for i := int64(0); i < tr.ThreadblocksCount(); i++ {
				for j := int64(0); j < tr.Threadblock(i).WarpsCount(); j++ {
					for _, in := range tr.Threadblock(i).Warp(j).Instructions {
						if in.MemWidth != 0 {
							mem++
							if in.MemAddress == 0 {
								zero++
							}
						}
					}
				}
			}
			r.CountN("sample:mem_insts", mem)
			if zero > 0 {
				r.Failf("C20.parse_render.mem_address", "nvidia/data/simple-trace-example/kernel-1.traceg", "%d of %d memory instructions parsed with MemAddress = 0 (the file has 0x7fb0… addresses)", zero, mem)
			}
		}
	})
	if fault != "" {
		r.Note("sample trace not read: %s", fault)
	}
}
