package main

// C18 (deepening) — n real rdma.Comp engines composed into a closed system: the harness plays the
// network between the outside ports (a bag: any message in flight may be delivered next, nothing is
// lost or duplicated, a refused delivery keeps the message), the L1-side requesters and the L2-side
// responders (answer any outstanding clone, any order, any data). Case lines `c18 sys …` are answered
// by the Lean model MgpuModel/C18_Sys.lean (`sstep` over n copies of the engine model).
// Engine i's RemoteRDMAAddressTable is ONE shared BankedAddressPortMapper whose LowModules[i] is the
// real name of engine i's RDMADataOutside port (as timingconfig.Builder.configRDMAEngine builds it);
// the harness network routes by Meta().Dst exactly as a connection would.
//
// System-level oracles (independent of the model): every clone reaches an L2 side at most once, on
// the node owning its address, with the payload of the request it descends from; every answer the
// L1 side receives belongs to a request issued at that node, arrives once, at its source, with the
// data the responder gave; a drain acknowledgement of node a is sent only when nothing that
// descends from a's requests or was forwarded to a's L2 side is anywhere in the system; after fair
// closing rounds every request is answered and every drain acknowledged (also when several nodes
// drain at the same time with crossing traffic).

import (
	"fmt"
	"strconv"
	"strings"

	"github.com/sarchlab/akita/v4/mem/mem"
	"github.com/sarchlab/akita/v4/mem/vm"
	"github.com/sarchlab/akita/v4/sim"
	"github.com/sarchlab/mgpusim/v4/amd/timing/rdma"
)

func init() { register("C18", runC18Deep) }

type c18sIssue struct {
	node   int
	id     int
	src    int
	sig    string // payload signature
	addr   uint64
	msgID  string
	got    int
	clone  string // clone sent on RDMARequestOutside
	clone2 string // clone sent to the owner's L2 side
	owner  int
}

type c18sNode struct {
	idx      int
	comp     *rdma.Comp
	ioID     map[string]int // inside request ID -> local id
	oiID     map[string]int // outside request ID -> local id
	fidIO    map[string]int // clone sent on RDMARequestOutside -> number
	fidOI    map[string]int // clone sent on RDMADataInside -> number
	l2       []mem.AccessReq
	nFwd     [2]int
	nAns     [2]int
	nAck     int
	nGot     int
	drainCmd int
	live     map[string]bool // outside requests delivered here whose answer the network has not taken yet
	issues   map[string]*c18sIssue
}

type c18sNetReq struct {
	from int
	m    mem.AccessReq
}

type c18sSys struct {
	r       *Run
	line    string
	n       int
	bank    uint64
	nodes   []*c18sNode
	netQ    []c18sNetReq
	netR    []mem.AccessRsp
	origin  map[string]int        // clone ID -> node that sent it on RDMARequestOutside
	l2data  map[string]string     // L2-side clone ID -> data signature the responder gave
	l2seen  map[string]int        // outside request ID -> number of times its clone reached an L2 side
	byClone map[string]*c18sIssue // RDMARequestOutside clone ID -> issue
	out     []string
	fault   string
	allIss  []*c18sIssue
}

type c18sHook struct {
	s    *c18sSys
	nd   *c18sNode
	port string
}

func c18sReqSig(m sim.Msg) string {
	switch q := m.(type) {
	case *mem.ReadReq:
		return c18PlSig(false, q.Address, q.AccessByteSize, nil, nil, q.PID)
	case *mem.WriteReq:
		return c18PlSig(true, q.Address, 0, q.Data, q.DirtyMask, q.PID)
	}
	return "?"
}

func c18sRspSig(m sim.Msg) (rspTo, sig string) {
	switch q := m.(type) {
	case *mem.DataReadyRsp:
		return q.RespondTo, "d" + hexb(q.Data)
	case *mem.WriteDoneRsp:
		return q.RespondTo, "w"
	}
	return "?", "?"
}

func (h *c18sHook) Func(ctx sim.HookCtx) {
	if ctx.Pos != sim.HookPosPortMsgSend {
		return
	}
	m := ctx.Item.(sim.Msg)
	nd, s := h.nd, h.s
	switch h.port {
	case "reqOut": // clone leaves towards another engine
		if _, ok := m.(mem.AccessReq); ok {
			nd.fidIO[m.Meta().ID] = len(nd.fidIO)
			nd.nFwd[0]++
		}
	case "dataIn": // clone leaves towards the L2 side
		if _, ok := m.(mem.AccessReq); ok {
			nd.fidOI[m.Meta().ID] = len(nd.fidOI)
			nd.nFwd[1]++
		}
	case "reqIn": // answer to the L1 side
		nd.nAns[0]++
	case "dataOut": // answer to another engine
		nd.nAns[1]++
	case "ctl":
		if _, ok := m.(*rdma.DrainRsp); ok {
			nd.nAck++
			s.onDrainAck(nd)
		}
	}
}

// onDrainAck: nothing that belongs to a transaction through node a may exist anywhere
func (s *c18sSys) onDrainAck(a *c18sNode) {
	r := s.r
	r.Checked("sys.drain-ack")
	if a.drainCmd == 0 {
		r.Failf("C18.sys.drain.ack-unasked", s.line, "node %d: drain acknowledgement without a drain command", a.idx)
	}
	if a.nFwd[0] != a.nAns[0] || a.nFwd[1] != a.nAns[1] {
		r.Failf("C18.sys.drain.ack-busy", s.line, "node %d acknowledged the drain with %d inside and %d outside transaction(s) in its tables",
			a.idx, a.nFwd[0]-a.nAns[0], a.nFwd[1]-a.nAns[1])
	}
	for _, q := range s.netQ {
		if q.from == a.idx {
			r.Failf("C18.sys.drain.ack-inflight", s.line, "node %d acknowledged the drain while its clone %s is in the network", a.idx, c18sReqSig(q.m))
		}
	}
	for _, m := range s.netR {
		to, _ := c18sRspSig(m)
		if s.origin[to] == a.idx {
			r.Failf("C18.sys.drain.ack-inflight", s.line, "node %d acknowledged the drain while an answer to it is in the network", a.idx)
		}
	}
	for _, b := range s.nodes {
		for id := range b.live {
			if s.origin[id] == a.idx {
				r.Failf("C18.sys.drain.ack-inflight", s.line, "node %d acknowledged the drain while node %d still works on its request", a.idx, b.idx)
			}
		}
	}
	if len(a.l2) != 0 {
		r.Failf("C18.sys.drain.ack-inflight", s.line, "node %d acknowledged the drain with %d clone(s) outstanding at its L2 side", a.idx, len(a.l2))
	}
}

func newC18sSys(r *Run, line string, cfg map[string]string) *c18sSys {
	num := func(k string, base int) uint64 {
		v, _ := strconv.ParseUint(cfg[k], base, 64)
		return v
	}
	s := &c18sSys{r: r, line: line, n: int(num("n", 10)), bank: num("bank", 16), origin: map[string]int{},
		l2data: map[string]string{}, l2seen: map[string]int{}, byClone: map[string]*c18sIssue{}}
	capN := int(num("cap", 10))
	isz, k := num("isz", 16), int(num("k", 10))
	ws := strings.Split(cfg["w"], ",")
	w := [4]int{}
	for i := range w {
		w[i], _ = strconv.Atoi(ws[i])
	}
	remote := &mem.BankedAddressPortMapper{BankSize: s.bank}
	conn := &fakeConn{name: "c18s"}
	for i := 0; i < s.n; i++ {
		local := &mem.InterleavedAddressPortMapper{UseAddressSpaceLimitation: true,
			LowAddress: uint64(i) * s.bank, HighAddress: uint64(i+1) * s.bank,
			InterleavingSize: isz, LowModules: c18Names("L", k), ModuleForOtherAddresses: "OTHER"}
		comp := rdma.MakeBuilder().WithEngine(&fakeEngine{}).WithFreq(1 * sim.GHz).WithBufferSize(capN).
			WithOutgoingReqPerCycle(w[0]).WithOutgoingRspPerCycle(w[1]).
			WithIncomingReqPerCycle(w[2]).WithIncomingRspPerCycle(w[3]).
			WithLocalModules(local).WithRemoteModules(remote).Build(fmt.Sprintf("G%d", i))
		nd := &c18sNode{idx: i, comp: comp, ioID: map[string]int{}, oiID: map[string]int{}, fidIO: map[string]int{},
			fidOI: map[string]int{}, live: map[string]bool{}, issues: map[string]*c18sIssue{}}
		for name, p := range map[string]sim.Port{"reqIn": comp.RDMARequestInside, "reqOut": comp.RDMARequestOutside,
			"dataIn": comp.RDMADataInside, "dataOut": comp.RDMADataOutside, "ctl": comp.CtrlPort} {
			p.SetConnection(conn)
			p.AcceptHook(&c18sHook{s: s, nd: nd, port: name})
		}
		remote.LowModules = append(remote.LowModules, comp.RDMADataOutside.AsRemote())
		s.nodes = append(s.nodes, nd)
	}
	return s
}

func (s *c18sSys) nodeOfPort(p sim.RemotePort, data bool) int {
	for _, nd := range s.nodes {
		if data && nd.comp.RDMADataOutside.AsRemote() == p {
			return nd.idx
		}
		if !data && nd.comp.RDMARequestOutside.AsRemote() == p {
			return nd.idx
		}
	}
	return -1
}

func (s *c18sSys) stateSig(nd *c18sNode) string {
	dr, pa, cur, fi, fo := nd.comp.VerifC18State()
	f := func(ids, fids map[string]int, l []rdma.VerifC18Tx) string {
		p := []string{}
		for _, t := range l {
			p = append(p, numOf(ids, t.OrigID)+">"+numOf(fids, t.CloneID))
		}
		return strings.Join(p, ",")
	}
	// remember the engine's own pairing for the end-to-end oracle
	for _, t := range fi {
		if q := nd.issues[t.OrigID]; q != nil {
			q.clone = t.CloneID
			s.byClone[t.CloneID] = q
		}
	}
	for _, t := range fo {
		if q := s.byClone[t.OrigID]; q != nil {
			q.clone2 = t.CloneID
		}
	}
	return "{d" + b01(dr) + "p" + b01(pa) + "c" + b01(cur) + ";" + f(nd.ioID, nd.fidIO, fi) + ";" + f(nd.oiID, nd.fidOI, fo) + "}"
}

func c18sRemove[T any](l []T, j int) []T {
	o := make([]T, 0, len(l))
	o = append(o, l[:j]...)
	return append(o, l[j+1:]...)
}

func (s *c18sSys) op(toks []string) {
	argN := func(i int) int {
		v := 0
		if i < len(toks) {
			v, _ = strconv.Atoi(toks[i])
		}
		return v
	}
	emit := func(t string) { s.out = append(s.out, t) }
	node := func(i int) *c18sNode {
		if i < 0 || i >= len(s.nodes) {
			return nil
		}
		return s.nodes[i]
	}
	r := s.r
	switch toks[0] {
	case "q":
		nd := node(argN(1))
		if nd == nil {
			emit("x")
			return
		}
		srcN := argN(2)
		src := sim.RemotePort(fmt.Sprintf("S%d", srcN))
		dst := nd.comp.RDMARequestInside.AsRemote()
		var m sim.Msg
		var addr uint64
		switch toks[3] {
		case "r":
			addr, _ = strconv.ParseUint(toks[4], 16, 64)
			m = mem.ReadReqBuilder{}.WithSrc(src).WithDst(dst).WithAddress(addr).WithByteSize(uint64(argN(5))).
				WithPID(vm.PID(argN(6))).Build()
		default:
			addr, _ = strconv.ParseUint(toks[4], 16, 64)
			data := make([]byte, len(toks[5])/2)
			for i := range data {
				v, _ := strconv.ParseUint(toks[5][2*i:2*i+2], 16, 8)
				data[i] = byte(v)
			}
			var mask []bool
			if toks[6] != "-" {
				for _, chr := range toks[6] {
					mask = append(mask, chr == '1')
				}
			}
			m = mem.WriteReqBuilder{}.WithSrc(src).WithDst(dst).WithAddress(addr).WithData(data).
				WithDirtyMask(mask).WithPID(vm.PID(argN(7))).Build()
		}
		if err := nd.comp.RDMARequestInside.Deliver(m); err != nil {
			emit("-")
			r.Count("sys.issue.port-full")
			return
		}
		id := len(nd.ioID)
		nd.ioID[m.Meta().ID] = id
		q := &c18sIssue{node: nd.idx, id: id, src: srcN, sig: c18sReqSig(m), addr: addr, msgID: m.Meta().ID, owner: int(addr / s.bank)}
		nd.issues[m.Meta().ID] = q
		s.allIss = append(s.allIss, q)
		emit(fmt.Sprintf("+%d", id))
	case "cd", "cr":
		nd := node(argN(1))
		if nd == nil {
			emit("x")
			return
		}
		src := sim.RemotePort(fmt.Sprintf("C%d", argN(2)))
		var m sim.Msg
		if toks[0] == "cd" {
			m = rdma.DrainReqBuilder{}.WithSrc(src).WithDst(nd.comp.CtrlPort.AsRemote()).Build()
		} else {
			m = rdma.RestartReqBuilder{}.WithSrc(src).WithDst(nd.comp.CtrlPort.AsRemote()).Build()
		}
		if err := nd.comp.CtrlPort.Deliver(m); err != nil {
			emit("-")
			return
		}
		if toks[0] == "cd" {
			nd.drainCmd++
		}
		emit("+")
	case "t":
		nd := node(argN(1))
		if nd == nil {
			emit("x")
			return
		}
		p := false
		f := catch(func() { p = nd.comp.Tick() })
		if f != "" {
			s.fault = c18Fault(f)
			emit("fault:" + s.fault)
			r.Count("sys.fault." + s.fault)
			return
		}
		tok := "t0"
		if p {
			tok = "t1"
		}
		emit(tok + s.stateSig(nd))
	case "sq":
		nd := node(argN(1))
		if nd == nil {
			emit("x")
			return
		}
		m := nd.comp.RDMARequestOutside.RetrieveOutgoing()
		if m == nil {
			emit("none")
			return
		}
		q := m.(mem.AccessReq)
		s.origin[m.Meta().ID] = nd.idx
		s.netQ = append(s.netQ, c18sNetReq{from: nd.idx, m: q})
		emit(fmt.Sprintf("Q%s>%d:%s", numOf(nd.fidIO, m.Meta().ID), s.nodeOfPort(m.Meta().Dst, true), c18sReqSig(m)))
		// ---- oracle: the clone carries the payload of the request it descends from and goes to the owner
		r.Checked("sys.clone")
		if iss := s.byClone[m.Meta().ID]; iss != nil {
			if c18sReqSig(m) != iss.sig {
				r.Failf("C18.sys.payload", s.line, "node %d request %d: clone carries %s, request %s", nd.idx, iss.id, c18sReqSig(m), iss.sig)
			}
			if s.nodeOfPort(m.Meta().Dst, true) != iss.owner {
				r.Failf("C18.sys.owner", s.line, "node %d request %d (addr %x): clone addressed to %s, owner is node %d", nd.idx, iss.id, iss.addr, m.Meta().Dst, iss.owner)
			}
		}
	case "dq":
		j := argN(1)
		if j >= len(s.netQ) {
			emit("none")
			return
		}
		q := s.netQ[j]
		b := node(s.nodeOfPort(q.m.Meta().Dst, true))
		if b == nil {
			emit("nodst")
			return
		}
		if err := b.comp.RDMADataOutside.Deliver(q.m); err != nil {
			emit("full")
			r.Count("sys.net.port-full")
			return
		}
		k := len(b.oiID)
		b.oiID[q.m.Meta().ID] = k
		b.live[q.m.Meta().ID] = true
		s.netQ = c18sRemove(s.netQ, j)
		if j != 0 {
			r.Count("sys.net.reordered")
		}
		emit(fmt.Sprintf("+%d.%d", b.idx, k))
	case "lt":
		b := node(argN(1))
		if b == nil {
			emit("x")
			return
		}
		m := b.comp.RDMADataInside.RetrieveOutgoing()
		if m == nil {
			emit("none")
			return
		}
		b.l2 = append(b.l2, m.(mem.AccessReq))
		emit(fmt.Sprintf("L%s>%d:%s", numOf(b.fidOI, m.Meta().ID), c18PortNum(m.Meta().Dst), c18sReqSig(m)))
		// ---- oracle: reached an L2 side once, on the owner, unchanged
		r.Checked("sys.l2-delivery")
		if c18PortNum(m.Meta().Dst) == 1000 {
			// ModuleForOtherAddresses is the engine's own inside port on the real platform: a forwarding loop
			r.Failf("C18.sys.l2.other", s.line, "node %d forwards a clone for address %s to the module for non-local addresses", b.idx, c18sReqSig(m))
		}
		for _, iss := range s.allIss {
			if iss.clone2 == m.Meta().ID {
				s.l2seen[iss.msgID]++
				if s.l2seen[iss.msgID] > 1 {
					r.Failf("C18.sys.l2.twice", s.line, "node %d request %d reached an L2 side %d times", iss.node, iss.id, s.l2seen[iss.msgID])
				}
				if b.idx != iss.owner {
					r.Failf("C18.sys.l2.owner", s.line, "node %d request %d (addr %x) reached the L2 side of node %d, owner is %d", iss.node, iss.id, iss.addr, b.idx, iss.owner)
				}
				if c18sReqSig(m) != iss.sig {
					r.Failf("C18.sys.l2.payload", s.line, "node %d request %d: L2 side of node %d got %s, request was %s", iss.node, iss.id, b.idx, c18sReqSig(m), iss.sig)
				}
			}
		}
	case "la":
		b := node(argN(1))
		if b == nil {
			emit("x")
			return
		}
		j := argN(2)
		if j >= len(b.l2) {
			emit("none")
			return
		}
		q := b.l2[j]
		var rsp sim.Msg
		if toks[3] == "w" {
			rsp = mem.WriteDoneRspBuilder{}.WithSrc("L2").WithDst(b.comp.RDMADataInside.AsRemote()).WithRspTo(q.Meta().ID).Build()
		} else {
			h := toks[3][1:]
			data := make([]byte, len(h)/2)
			for i := range data {
				v, _ := strconv.ParseUint(h[2*i:2*i+2], 16, 8)
				data[i] = byte(v)
			}
			rsp = mem.DataReadyRspBuilder{}.WithSrc("L2").WithDst(b.comp.RDMADataInside.AsRemote()).WithRspTo(q.Meta().ID).WithData(data).Build()
		}
		if err := b.comp.RDMADataInside.Deliver(rsp); err != nil {
			emit("full")
			r.Count("sys.l2.port-full")
			return
		}
		s.l2data[q.Meta().ID] = toks[3]
		b.l2 = c18sRemove(b.l2, j)
		if j != 0 {
			r.Count("sys.l2.out-of-order")
		}
		emit("ok" + numOf(b.fidOI, q.Meta().ID))
	case "sr":
		b := node(argN(1))
		if b == nil {
			emit("x")
			return
		}
		m := b.comp.RDMADataOutside.PeekOutgoing()
		if m == nil {
			emit("none")
			return
		}
		to, sig := c18sRspSig(m)
		if _, ok := b.oiID[to]; !ok {
			emit("noname")
			return
		}
		b.comp.RDMADataOutside.RetrieveOutgoing()
		delete(b.live, to)
		s.netR = append(s.netR, m.(mem.AccessRsp))
		fid := "?"
		if a := node(s.origin[to]); a != nil {
			fid = numOf(a.fidIO, to)
		}
		emit(fmt.Sprintf("A%s>%d.%s:%s", numOf(b.oiID, to), s.nodeOfPort(m.Meta().Dst, false), fid, sig))
		r.Checked("sys.answer-route")
		if s.nodeOfPort(m.Meta().Dst, false) != s.origin[to] {
			r.Failf("C18.sys.answer.dst", s.line, "node %d answers clone of node %d to %s", b.idx, s.origin[to], m.Meta().Dst)
		}
	case "dr":
		j := argN(1)
		if j >= len(s.netR) {
			emit("none")
			return
		}
		m := s.netR[j]
		a := node(s.nodeOfPort(m.Meta().Dst, false))
		if a == nil {
			emit("nodst")
			return
		}
		if err := a.comp.RDMARequestOutside.Deliver(m); err != nil {
			emit("full")
			r.Count("sys.net.port-full")
			return
		}
		s.netR = c18sRemove(s.netR, j)
		to, _ := c18sRspSig(m)
		emit(fmt.Sprintf("+%d.%s", a.idx, numOf(a.fidIO, to)))
	case "g":
		a := node(argN(1))
		if a == nil {
			emit("x")
			return
		}
		m := a.comp.RDMARequestInside.RetrieveOutgoing()
		if m == nil {
			emit("none")
			return
		}
		a.nGot++
		to, sig := c18sRspSig(m)
		emit(fmt.Sprintf("G%s>%d:%s", numOf(a.ioID, to), c18PortNum(m.Meta().Dst), sig))
		// ---- oracle: only answers to own requests, once, to the source, with the responder's data
		r.Checked("sys.l1-answer")
		iss := a.issues[to]
		if iss == nil {
			r.Failf("C18.sys.crosstalk", s.line, "node %d: L1 side received an answer to a request it never issued", a.idx)
			return
		}
		iss.got++
		if iss.got > 1 {
			r.Failf("C18.sys.answer.twice", s.line, "node %d request %d answered %d times", a.idx, iss.id, iss.got)
		}
		if c18PortNum(m.Meta().Dst) != iss.src {
			r.Failf("C18.sys.answer.src", s.line, "node %d request %d from source %d answered to %s", a.idx, iss.id, iss.src, m.Meta().Dst)
		}
		if want, ok := s.l2data[iss.clone2]; !ok {
			r.Failf("C18.sys.answer.early", s.line, "node %d request %d answered before the owner's responder replied", a.idx, iss.id)
		} else if want != sig {
			r.Failf("C18.sys.answer.data", s.line, "node %d request %d: L1 side got %s, the responder of node %d gave %s", a.idx, iss.id, sig, iss.owner, want)
		}
	case "ck":
		a := node(argN(1))
		if a == nil {
			emit("x")
			return
		}
		m := a.comp.CtrlPort.RetrieveOutgoing()
		switch m.(type) {
		case nil:
			emit("none")
		case *rdma.DrainRsp:
			emit(fmt.Sprintf("Kd%d", c18PortNum(m.Meta().Dst)))
		case *rdma.RestartRsp:
			emit(fmt.Sprintf("Kr%d", c18PortNum(m.Meta().Dst)))
		default:
			emit("K?")
		}
	default:
		emit("bad")
	}
}

func (s *c18sSys) endTok() string {
	p := []string{}
	for _, nd := range s.nodes {
		p = append(p, fmt.Sprintf("fi=%d;ai=%d;fo=%d;ao=%d;k=%d;g=%d", nd.nFwd[0], nd.nAns[0], nd.nFwd[1], nd.nAns[1], nd.nAck, nd.nGot))
	}
	return "E " + strings.Join(p, "|") + fmt.Sprintf(" nq=%d nr=%d", len(s.netQ), len(s.netR))
}

// runC18SysScenario executes one `c18 sys` line on real engines. closed: fair closing rounds were
// appended, so everything must have completed.
func runC18SysScenario(r *Run, line string, closed, wellformed bool) {
	parts := strings.Split(line, ";")
	head := strings.Fields(parts[0])
	cfg := map[string]string{}
	for _, t := range head[2:] {
		if i := strings.IndexByte(t, '='); i > 0 {
			cfg[t[:i]] = t[i+1:]
		}
	}
	s := newC18sSys(r, line, cfg)
	for _, p := range parts[1:] {
		toks := strings.Fields(p)
		if len(toks) == 0 {
			continue
		}
		if s.fault != "" {
			break
		}
		s.op(toks)
	}
	s.out = append(s.out, s.endTok())
	r.Case(line, strings.Join(s.out, " "))
	r.Count("sys.scenario")
	if s.fault != "" && !wellformed {
		return
	}
	if s.fault != "" {
		r.Failf("C18.sys.fault."+s.fault, line, "an engine of the closed system panicked (%s) although requesters, responders and network are well-behaved", s.fault)
		return
	}
	if closed {
		r.Count("sys.closed")
		for _, q := range s.allIss {
			r.Checked("sys.noloss")
			if q.got != 1 {
				r.Failf("C18.sys.noloss", line, "node %d request %d (addr %x, owner %d) answered %d times after fair closing rounds", q.node, q.id, q.addr, q.owner, q.got)
			}
		}
		for _, nd := range s.nodes {
			if nd.drainCmd > 0 {
				r.Checked("sys.drain-live")
				if nd.nAck == 0 {
					r.Failf("C18.sys.drain.no-ack", line, "node %d: drain command never acknowledged after fair closing rounds (distributed deadlock?)", nd.idx)
				}
			}
		}
	}
}

// ---- generator

func genC18SysScenario(rng *Rng, style int, long bool) (string, bool) {
	n := rng.Pick(2, 2, 3, 3, 4)
	capN := rng.Pick(1, 1, 2, 2, 3, 4)
	bank := uint64(0x1000)
	w := fmt.Sprintf("%d,%d,%d,%d", rng.Pick(1, 1, 2, 3), rng.Pick(1, 1, 2, 3), rng.Pick(1, 1, 2, 3), rng.Pick(1, 1, 2, 3))
	head := fmt.Sprintf("c18 sys n=%d cap=%d w=%s bank=%x isz=40 k=%d", n, capN, w, bank, rng.Pick(1, 2, 4))
	ops := []string{}
	add := func(f string, a ...interface{}) { ops = append(ops, fmt.Sprintf(f, a...)) }
	g := &c18Gen{rng: rng}
	issue := func() {
		a := rng.Intn(n)
		b := rng.Intn(n)
		if rng.Chance(85) && n > 1 {
			for b == a {
				b = rng.Intn(n)
			}
		}
		if style == 3 && rng.Chance(12) {
			b = n + rng.Intn(2) // beyond the remote table: the engine panics (bounds)
		}
		off := uint64(rng.Intn(int(bank)))
		if rng.Chance(30) {
			off = uint64(rng.Pick(0, int(bank)-1, 64, 4))
		}
		add("q %d %d %s", a, rng.Range(1, 4), g.payload(uint64(b)*bank+off))
	}
	data := func() string {
		if rng.Chance(40) {
			return "w"
		}
		return "d" + hexb(rng.Bytes(rng.Pick(1, 4, 4, 8)))
	}
	steps := rng.Range(20, 60)
	if long {
		steps = rng.Range(200, 500)
	}
	draining := make([]bool, n)
	anyDrain := false
	if style == 2 {
		// pipelined: rounds in which every mover appears in random order and is skipped at random, so
		// that many transactions overlap in every stage, with back-pressure and reordering; drains of
		// one or all nodes start in the middle of the traffic
		rounds := steps / 3
		for r := 0; r < rounds; r++ {
			movers := []string{}
			for a := 0; a < n; a++ {
				movers = append(movers, fmt.Sprintf("t %d", a), fmt.Sprintf("sq %d", a), fmt.Sprintf("lt %d", a),
					fmt.Sprintf("sr %d", a), fmt.Sprintf("g %d", a), fmt.Sprintf("la %d %d %s", a, rng.Intn(3), data()))
			}
			movers = append(movers, fmt.Sprintf("dq %d", rng.Intn(3)), fmt.Sprintf("dr %d", rng.Intn(3)),
				fmt.Sprintf("dq %d", rng.Intn(2)), fmt.Sprintf("dr %d", rng.Intn(2)))
			for _, k := range rng.Perm(len(movers)) {
				if rng.Chance(30) {
					continue
				}
				if rng.Chance(35) {
					issue()
				}
				ops = append(ops, movers[k])
			}
			if !anyDrain && r == rounds/2 && rng.Chance(70) {
				if rng.Chance(60) {
					for a := 0; a < n; a++ {
						add("cd %d %d", a, rng.Range(1, 3))
						draining[a] = true
					}
				} else {
					a := rng.Intn(n)
					add("cd %d %d", a, rng.Range(1, 3))
					draining[a] = true
				}
				anyDrain = true
			}
		}
		steps = 0
	}
	for i := 0; i < steps; i++ {
		x := rng.Intn(100)
		switch {
		case x < 18:
			issue()
		case x < 40:
			add("t %d", rng.Intn(n))
		case x < 50:
			add("sq %d", rng.Intn(n))
		case x < 60:
			add("dq %d", rng.Intn(4))
		case x < 68:
			add("lt %d", rng.Intn(n))
		case x < 77:
			add("la %d %d %s", rng.Intn(n), rng.Intn(4), data())
		case x < 84:
			add("sr %d", rng.Intn(n))
		case x < 92:
			add("dr %d", rng.Intn(4))
		case x < 96:
			add("g %d", rng.Intn(n))
		default:
			switch style {
			case 1: // drain points: one node, or every node at once with traffic crossing
				if !anyDrain {
					if rng.Chance(50) {
						for a := 0; a < n; a++ {
							add("cd %d %d", a, rng.Range(1, 3))
							draining[a] = true
						}
					} else {
						a := rng.Intn(n)
						add("cd %d %d", a, rng.Range(1, 3))
						draining[a] = true
					}
					anyDrain = true
				} else {
					add("t %d", rng.Intn(n))
				}
			default:
				add("ck %d", rng.Intn(n))
			}
		}
	}
	// fair closing rounds: every mover gets its turn, so everything must complete
	rounds := 3*(steps+len(ops))/capN/2 + 16
	if rounds > 300 {
		rounds = 300
	}
	for i := 0; i < rounds; i++ {
		for a := 0; a < n; a++ {
			add("g %d", a)
			add("ck %d", a)
			add("sq %d", a)
			add("sr %d", a)
			add("lt %d", a)
		}
		add("dq 0")
		add("dr 0")
		if rng.Chance(50) {
			add("dq 1")
			add("dr 1")
		}
		for a := 0; a < n; a++ {
			add("la %d 0 %s", a, data())
			add("t %d", a)
		}
		if anyDrain && i == rounds*2/3 {
			// every acknowledgement must have been possible by now: restart the drained nodes
			for a := 0; a < n; a++ {
				if draining[a] {
					add("cr %d 1", a)
				}
			}
		}
	}
	for a := 0; a < n; a++ {
		add("g %d", a)
		add("ck %d", a)
	}
	return head + " ; " + strings.Join(ops, " ; "), style != 3
}

var c18SysFixed = []string{
	// three nodes, traffic crossing in a ring 0→1→2→0, network and responders reorder
	"c18 sys n=3 cap=2 w=1,1,1,1 bank=1000 isz=40 k=2 ; q 0 7 r 1010 4 0 ; q 1 8 w 2020 aabb - 3 ; q 2 9 r 10 2 0 ; t 0 ; t 1 ; t 2 ; sq 0 ; sq 1 ; sq 2 ; dq 2 ; dq 0 ; dq 0 ; t 0 ; t 1 ; t 2 ; lt 0 ; lt 1 ; lt 2 ; la 0 0 d0102 ; la 1 0 d01020304 ; la 2 0 w ; t 0 ; t 1 ; t 2 ; sr 0 ; sr 1 ; sr 2 ; dr 1 ; dr 1 ; dr 0 ; t 0 ; t 1 ; t 2 ; g 0 ; g 1 ; g 2 ; cd 0 5 ; t 0 ; ck 0",
	// both nodes drain while each has a request in flight to the other: a draining engine keeps
	// serving requests from outside, so both drains complete (no distributed deadlock)
	"c18 sys n=2 cap=1 w=1,1,1,1 bank=1000 isz=40 k=1 ; q 0 1 r 1010 4 0 ; q 1 2 r 20 4 0 ; t 0 ; t 1 ; cd 0 3 ; cd 1 3 ; t 0 ; t 1 ; sq 0 ; sq 1 ; dq 0 ; dq 0 ; t 0 ; t 1 ; lt 0 ; lt 1 ; la 0 0 d0a0b0c0d ; la 1 0 d01020304 ; t 0 ; t 1 ; sr 0 ; sr 1 ; dr 0 ; dr 0 ; t 0 ; t 1 ; g 0 ; g 1 ; t 0 ; t 1 ; ck 0 ; ck 1",
	// same address from two nodes, answers delivered in the opposite order
	"c18 sys n=3 cap=4 w=2,2,2,2 bank=1000 isz=40 k=2 ; q 0 1 r 2040 8 0 ; q 1 1 r 2040 8 0 ; t 0 ; t 1 ; sq 0 ; sq 1 ; dq 1 ; dq 0 ; t 2 ; lt 2 ; lt 2 ; la 2 1 d1111111111111111 ; la 2 0 d2222222222222222 ; t 2 ; t 2 ; sr 2 ; sr 2 ; dr 1 ; dr 0 ; t 0 ; t 1 ; g 0 ; g 1",
	// a request to the node's own bank goes out and comes back through the network
	"c18 sys n=2 cap=2 w=1,1,1,1 bank=1000 isz=40 k=2 ; q 1 4 w 1800 0102 11 2 ; t 1 ; sq 1 ; dq 0 ; t 1 ; lt 1 ; la 1 0 w ; t 1 ; sr 1 ; dr 0 ; t 1 ; g 1",
}

func runC18Deep(r *Run, rng *Rng, replay string) {
	thorough := r.Tier == "thorough"
	for _, l := range c18SysFixed {
		runC18SysScenario(r, l, false, true)
	}
	nr, nl := 300, 10
	if thorough {
		nr, nl = 6000, 200
	}
	for i := 0; i < nr; i++ {
		style := rng.Pick(0, 1, 2, 2, 2, 3)
		l, closed := genC18SysScenario(rng, style, false)
		r.Count(fmt.Sprintf("sys.style%d", style))
		runC18SysScenario(r, l, closed, style != 3)
	}
	for i := 0; i < nl; i++ {
		l, closed := genC18SysScenario(rng, rng.Pick(0, 1, 2, 2), true)
		r.Count("sys.long")
		runC18SysScenario(r, l, closed, true)
	}
}
