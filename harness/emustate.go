package main

import (
	"encoding/binary"
	"fmt"
	"sort"
	"strings"

	"github.com/sarchlab/akita/v4/mem/vm"
	"github.com/sarchlab/mgpusim/v4/amd/emu"
	"github.com/sarchlab/mgpusim/v4/amd/emu/cdna3"
	"github.com/sarchlab/mgpusim/v4/amd/insts"
)

// Shared environment for running ONE instruction on the real ALUs (GCN3 ALUImpl and the
// CDNA3 ALU) in isolation, on a real emu.Wavefront, with a flat byte-map memory.
// Used by C03 (ISA conformance), C06 (lane independence) and C02.

// flatMem implements emu.StorageAccessor over a sparse byte map and logs accesses.
type flatMem struct {
	m      map[uint64]byte
	reads  [][2]uint64 // (addr,len)
	writes [][2]uint64
}

func newFlatMem() *flatMem { return &flatMem{m: map[uint64]byte{}} }

func (f *flatMem) Read(pid vm.PID, vAddr, byteSize uint64) []byte {
	f.reads = append(f.reads, [2]uint64{vAddr, byteSize})
	out := make([]byte, byteSize)
	for i := range out {
		out[i] = f.m[vAddr+uint64(i)]
	}
	return out
}

func (f *flatMem) Write(pid vm.PID, vAddr uint64, data []byte) {
	f.writes = append(f.writes, [2]uint64{vAddr, uint64(len(data))})
	for i, b := range data {
		f.m[vAddr+uint64(i)] = b
	}
}

func (f *flatMem) clone() *flatMem {
	g := newFlatMem()
	for k, v := range f.m {
		g.m[k] = v
	}
	return g
}

// aluEnv bundles a wavefront, both ALUs, LDS and memory.
type aluEnv struct {
	wf    *emu.Wavefront
	mem   *flatMem
	lds   []byte
	gcn3  *emu.ALUImpl
	cdna3 *cdna3.ALU
	dGCN3 *insts.Disassembler
	dCDNA *insts.Disassembler
}

func newALUEnv() *aluEnv {
	e := &aluEnv{wf: emu.NewWavefront(nil), mem: newFlatMem(), lds: make([]byte, 65536)}
	e.gcn3 = emu.NewALU(e.mem)
	e.cdna3 = cdna3.NewALU(e.mem)
	e.gcn3.SetLDS(e.lds)
	e.cdna3.SetLDS(e.lds)
	e.dGCN3 = insts.NewDisassembler()
	e.dCDNA = insts.NewDisassembler()
	e.dCDNA.IsCDNA3 = true
	e.wf.VerifSetPID(1)
	return e
}

// reset clears all architectural state.
func (e *aluEnv) reset() {
	for i := range e.wf.SRegFile {
		e.wf.SRegFile[i] = 0
	}
	for i := range e.wf.VRegFile {
		e.wf.VRegFile[i] = 0
	}
	for i := range e.lds {
		e.lds[i] = 0
	}
	e.mem.m = map[uint64]byte{}
	e.mem.reads, e.mem.writes = nil, nil
	e.wf.SetEXEC(0)
	e.wf.SetVCC(0)
	e.wf.SetSCC(0)
	e.wf.SetPC(0)
	e.wf.M0 = 0
}

func (e *aluEnv) setS(i int, v uint32) { binary.LittleEndian.PutUint32(e.wf.SRegFile[i*4:], v) }
func (e *aluEnv) getS(i int) uint32    { return binary.LittleEndian.Uint32(e.wf.SRegFile[i*4:]) }
func (e *aluEnv) setV(lane, i int, v uint32) {
	binary.LittleEndian.PutUint32(e.wf.VRegFile[lane*1024+i*4:], v)
}
func (e *aluEnv) getV(lane, i int) uint32 {
	return binary.LittleEndian.Uint32(e.wf.VRegFile[lane*1024+i*4:])
}

// archState is a full copy of the architectural state for diffing.
type archState struct {
	s    []byte
	v    []byte
	lds  []byte
	mem  map[uint64]byte
	exec uint64
	vcc  uint64
	scc  byte
	pc   uint64
	m0   uint32
}

func (e *aluEnv) snapshot() *archState {
	st := &archState{exec: e.wf.EXEC(), vcc: e.wf.VCC(), scc: e.wf.SCC(), pc: e.wf.PC(), m0: e.wf.M0}
	st.s = append([]byte{}, e.wf.SRegFile...)
	st.v = append([]byte{}, e.wf.VRegFile...)
	st.lds = append([]byte{}, e.lds...)
	st.mem = map[uint64]byte{}
	for k, v := range e.mem.m {
		st.mem[k] = v
	}
	return st
}

func (e *aluEnv) restore(st *archState) {
	copy(e.wf.SRegFile, st.s)
	copy(e.wf.VRegFile, st.v)
	copy(e.lds, st.lds)
	e.mem.m = map[uint64]byte{}
	for k, v := range st.mem {
		e.mem.m[k] = v
	}
	e.mem.reads, e.mem.writes = nil, nil
	e.wf.SetEXEC(st.exec)
	e.wf.SetVCC(st.vcc)
	e.wf.SetSCC(st.scc)
	e.wf.SetPC(st.pc)
	e.wf.M0 = st.m0
}

// delta lists every cell that differs between two states in a canonical order:
// s<i>=<hex32> v<i>[<lane>]=<hex32> vcc= exec= scc= pc= m0= lds[<addr>]=<hex8> mem[<addr>]=<hex8>
func delta(a, b *archState) string {
	var p []string
	for i := 0; i+4 <= len(a.s); i += 4 {
		x, y := binary.LittleEndian.Uint32(a.s[i:]), binary.LittleEndian.Uint32(b.s[i:])
		if x != y {
			p = append(p, fmt.Sprintf("s%d=%x", i/4, y))
		}
	}
	for lane := 0; lane < 64; lane++ {
		for r := 0; r < 256; r++ {
			o := lane*1024 + r*4
			x, y := binary.LittleEndian.Uint32(a.v[o:]), binary.LittleEndian.Uint32(b.v[o:])
			if x != y {
				p = append(p, fmt.Sprintf("v%d[%d]=%x", r, lane, y))
			}
		}
	}
	if a.vcc != b.vcc {
		p = append(p, fmt.Sprintf("vcc=%x", b.vcc))
	}
	if a.exec != b.exec {
		p = append(p, fmt.Sprintf("exec=%x", b.exec))
	}
	if a.scc != b.scc {
		p = append(p, fmt.Sprintf("scc=%d", b.scc))
	}
	if a.pc != b.pc {
		p = append(p, fmt.Sprintf("pc=%x", b.pc))
	}
	if a.m0 != b.m0 {
		p = append(p, fmt.Sprintf("m0=%x", b.m0))
	}
	for i := range a.lds {
		if a.lds[i] != b.lds[i] {
			p = append(p, fmt.Sprintf("lds[%x]=%02x", i, b.lds[i]))
		}
	}
	var ks []uint64
	for k := range b.mem {
		if a.mem[k] != b.mem[k] {
			ks = append(ks, k)
		}
	}
	for k := range a.mem {
		if _, ok := b.mem[k]; !ok && a.mem[k] != 0 {
			ks = append(ks, k)
		}
	}
	sort.Slice(ks, func(i, j int) bool { return ks[i] < ks[j] })
	for _, k := range ks {
		p = append(p, fmt.Sprintf("mem[%x]=%02x", k, b.mem[k]))
	}
	if len(p) == 0 {
		return "-"
	}
	return strings.Join(p, " ")
}

// decodeFor decodes instruction bytes with the decoder of the given architecture.
func (e *aluEnv) decodeFor(arch string, buf []byte) (*insts.Inst, error) {
	if arch == "cdna3" {
		return e.dCDNA.Decode(buf)
	}
	return e.dGCN3.Decode(buf)
}

// run executes one already-decoded instruction on the chosen ALU; a panic is
// returned as a fault string ("" = ok).
func (e *aluEnv) run(arch string, inst *insts.Inst) string {
	e.wf.VerifSetInst(inst)
	var alu emu.ALU = e.gcn3
	if arch == "cdna3" {
		alu = e.cdna3
	}
	return catch(func() { alu.Run(e.wf) })
}
