package main

// Property C13, second deepening — the driver's use of a loaded code object
// (amd/driver/kernel.go): where the instruction bytes are put in device memory, what the AQL
// packet points at, and the per-driver cache of uploaded code objects.
//
//   c13 drv …        EnqueueLaunchKernel / the unified variant on a driver that is not started:
//                    the allocations it makes (from Context.buffers), the commands it appends
//                    (Queue.VerifCommands) and the packet, against `C13.Drv` (MgpuModel/C13Drv.lean).
//                    The allocator's answers are inputs of the case line (they belong to C10).
//   c13drvrun child  whole-platform replays of the two placements the oracle flags: the same
//                    code object launched from a second queue / a second process.

import (
	"bytes"
	"debug/elf"
	"encoding/binary"
	"encoding/json"
	"fmt"
	"os"
	"os/exec"
	"path/filepath"
	"sort"
	"strconv"
	"strings"
	"time"

	"github.com/sarchlab/akita/v4/simulation"
	"github.com/sarchlab/mgpusim/v4/amd/arch"
	"github.com/sarchlab/mgpusim/v4/amd/benchmarks/amdappsdk/vectoradd"
	"github.com/sarchlab/mgpusim/v4/amd/driver"
	"github.com/sarchlab/mgpusim/v4/amd/insts"
	"github.com/sarchlab/mgpusim/v4/amd/kernels"
	"github.com/sarchlab/mgpusim/v4/amd/samples/runner/emusystem"
	"github.com/sarchlab/mgpusim/v4/amd/samples/runner/timingconfig"
	"github.com/sarchlab/mgpusim/v4/amd/sampling"
)

func init() {
	childFuncs["c13drvrun"] = c13drvRunChild
	childFuncs["c13drvprobe"] = func(a []string) {
		// <emu|timing> <gpuType> <scenario> <pad> <n> [seconds]
		pad, _ := strconv.Atoi(a[3])
		n, _ := strconv.Atoi(a[4])
		lim := 120
		if len(a) > 5 {
			lim, _ = strconv.Atoi(a[5])
		}
		spec := c13drvRunSpec{Timing: a[0] == "timing", GPUType: a[1], Scenario: a[2], Pad: pad, N: n}
		dir, _ := os.MkdirTemp("", "c13drv")
		res, fault := c13drvRun(dir, spec, time.Duration(lim)*time.Second)
		fmt.Printf("%s -> fault=%q res=%+v\n", c13fmtRun(spec), fault, res)
	}
}

type c13drvRunSpec struct {
	Timing   bool
	GPUType  string
	Scenario string // "twoq" | "twoctx" | "control-twoq" | "control-twoctx"
	Pad      int    // zero bytes appended to the code object's Data (never executed)
	N        int    // elements per launch
}

type c13drvRunResult struct {
	Done  bool
	Wrong []int // per launch: number of wrong output elements
	KO    []uint64
	Note  string
}

func c13drvLoadVectorAdd(pad int) *insts.KernelCodeObject {
	raw, err := os.ReadFile(filepath.Join(repoRoot(), "amd/benchmarks/amdappsdk/vectoradd/kernels.hsaco"))
	must(err)
	co := insts.LoadKernelCodeObjectFromBytes(raw, "_Z15vectoradd_floatPfPKfS1_ii")
	if pad > 0 {
		co.Data = append(append([]byte(nil), co.Data...), make([]byte, pad)...)
	}
	if pad < 0 { // padding in front: the entry point moves to the end of a large object
		co.Data = append(make([]byte, -pad), co.Data...)
		co.KernelCodeEntryByteOffset = uint64(-pad)
		co.Symbol = nil
	}
	return co
}

func c13drvRunChild(args []string) {
	if len(args) < 2 {
		os.Exit(2)
	}
	var spec c13drvRunSpec
	sb, err := os.ReadFile(args[0])
	if err == nil {
		err = json.Unmarshal(sb, &spec)
	}
	if err != nil {
		os.Exit(2)
	}
	res := c13drvRunResult{}
	save := func() {
		b, _ := json.Marshal(res)
		tmp := args[1] + ".tmp"
		if os.WriteFile(tmp, b, 0o644) == nil {
			_ = os.Rename(tmp, args[1])
		}
	}
	save()
	dir := filepath.Dir(args[1])
	s := simulation.MakeBuilder().WithoutMonitoring().WithOutputFileName(filepath.Join(dir, "akita_sim")).Build()
	if spec.Timing {
		sampling.InitSampledEngine()
		timingconfig.MakeBuilder().WithSimulation(s).WithNumGPUs(2).WithGPUType(spec.GPUType).Build()
	} else {
		emusystem.MakeBuilder().WithSimulation(s).WithNumGPUs(2).WithArchitecture(arch.CDNA3).Build()
	}
	drv := s.GetComponentByName("Driver").(*driver.Driver)
	drv.Run()

	n := spec.N
	co1 := c13drvLoadVectorAdd(spec.Pad)
	co2 := co1
	if strings.HasPrefix(spec.Scenario, "control") {
		co2 = c13drvLoadVectorAdd(spec.Pad)
	}
	type launch struct {
		ctx        *driver.Context
		q          *driver.CommandQueue
		co         *insts.KernelCodeObject
		dA, dB, dC driver.Ptr
		hB, hC     []float32
	}
	prep := func(ctx *driver.Context, gpu int, co *insts.KernelCodeObject, salt int) *launch {
		drv.SelectGPU(ctx, gpu)
		l := &launch{ctx: ctx, co: co}
		l.hB, l.hC = make([]float32, n), make([]float32, n)
		for i := range l.hB {
			l.hB[i] = float32(i + salt)
			l.hC[i] = float32(i) * 100
		}
		l.dA = drv.AllocateMemory(ctx, uint64(n*4))
		l.dB = drv.AllocateMemory(ctx, uint64(n*4))
		l.dC = drv.AllocateMemory(ctx, uint64(n*4))
		drv.MemCopyH2D(ctx, l.dB, l.hB)
		drv.MemCopyH2D(ctx, l.dC, l.hC)
		drv.MemCopyH2D(ctx, l.dA, make([]float32, n))
		l.q = drv.CreateCommandQueue(ctx)
		return l
	}
	enq := func(l *launch) {
		ka := vectoradd.KernelArgs{A: l.dA, B: l.dB, C: l.dC, Width: int32(n), Height: 1,
			HiddenBlockCountX: uint32(n / 64), HiddenBlockCountY: 1, HiddenBlockCountZ: 1,
			HiddenGroupSizeX: 64, HiddenGroupSizeY: 1, HiddenGroupSizeZ: 1}
		drv.EnqueueLaunchKernel(l.q, l.co, [3]uint32{uint32(n), 1, 1}, [3]uint16{64, 1, 1}, &ka)
		for _, c := range l.q.VerifCommands() {
			if lk, ok := c.(*driver.LaunchKernelCommand); ok {
				res.KO = append(res.KO, lk.Packet.KernelObject)
			}
		}
	}
	check := func(l *launch) {
		out := make([]float32, n)
		drv.MemCopyD2H(l.ctx, out, l.dA)
		w := 0
		for i := range out {
			if out[i] != l.hB[i]+l.hC[i] {
				w++
			}
		}
		res.Wrong = append(res.Wrong, w)
		save()
	}
	var ls []*launch
	switch strings.TrimPrefix(spec.Scenario, "control-") {
	case "twoq":
		ctx := drv.Init()
		ls = []*launch{prep(ctx, 1, co1, 1), prep(ctx, 2, co2, 2)}
		// as the multi-GPU benchmarks do: select the GPU, then enqueue on that GPU's queue
		drv.SelectGPU(ctx, 1)
		enq(ls[0])
		drv.SelectGPU(ctx, 2)
		enq(ls[1])
		drv.DrainCommandQueue(ls[0].q)
		drv.DrainCommandQueue(ls[1].q)
	case "twoctx":
		ls = []*launch{prep(drv.Init(), 1, co1, 1), prep(drv.Init(), 1, co2, 2)}
		enq(ls[0])
		drv.DrainCommandQueue(ls[0].q)
		enq(ls[1])
		drv.DrainCommandQueue(ls[1].q)
	}
	for _, l := range ls {
		check(l)
	}
	res.Done = true
	save()
	os.Exit(0)
}

// c13drvRun runs one whole-platform replay in a child; a hang is reported as "hang".
func c13drvRun(dir string, spec c13drvRunSpec, limit time.Duration) (c13drvRunResult, string) {
	must(os.MkdirAll(dir, 0o755))
	sf, rf := filepath.Join(dir, "spec.json"), filepath.Join(dir, "result.json")
	b, _ := json.Marshal(spec)
	must(os.WriteFile(sf, b, 0o644))
	res, fault := c13runChild(dir, []string{"child", "c13drvrun", sf, rf}, limit)
	var out c13drvRunResult
	if rb, err := os.ReadFile(rf); err == nil {
		_ = json.Unmarshal(rb, &out)
	}
	_ = res
	if fault == "" && !out.Done {
		fault = "incomplete"
	}
	return out, fault
}

func c13runChild(dir string, args []string, limit time.Duration) (string, string) {
	exe, _ := os.Executable()
	cmd := exec.Command(exe, args...)
	cmd.Dir = dir
	cmd.Env = append(os.Environ(), "GOMEMLIMIT=3GiB")
	var errb strings.Builder
	cmd.Stderr = &errb
	done := make(chan error, 1)
	if err := cmd.Start(); err != nil {
		return "", "start:" + err.Error()
	}
	go func() { done <- cmd.Wait() }()
	select {
	case err := <-done:
		if err != nil {
			return errb.String(), "exit:" + err.Error() + " " + logTail(errb.String(), 600)
		}
	case <-time.After(limit):
		_ = cmd.Process.Kill()
		<-done
		return errb.String(), "hang"
	}
	return errb.String(), ""
}

func c13fmtRun(spec c13drvRunSpec) string {
	return fmt.Sprintf("%s timing=%v gpu=%s pad=%d n=%d", spec.Scenario, spec.Timing, spec.GPUType, spec.Pad, spec.N)
}

// ======================================================================================
// second deepening: runner
// ======================================================================================

func init() { register("C13", runC13Second) }

// ---------------------------------------------------------------- file bytes → ELF view

// c13elfModelled is a superset test for the class of files MgpuModel/C13Elf.lean models
// (ELF64, little-endian, no extended section numbering, no compressed sections).
func c13elfModelled(raw []byte) bool {
	if len(raw) >= 6 && (raw[4] != 2 || raw[5] != 1) {
		return false
	}
	if len(raw) < 64 {
		return true
	}
	shoff := binary.LittleEndian.Uint64(raw[40:])
	shentsize := uint64(binary.LittleEndian.Uint16(raw[58:]))
	shnum := uint64(binary.LittleEndian.Uint16(raw[60:]))
	if shoff > 0 && shnum == 0 {
		return false
	}
	for i := uint64(0); i < shnum; i++ {
		base := shoff + i*shentsize
		if base < shoff || base+16 > uint64(len(raw)) {
			break
		}
		if binary.LittleEndian.Uint64(raw[base+8:])&0x800 != 0 {
			return false
		}
	}
	return true
}

// c13elfAnswer is what debug/elf makes of the bytes, in the rendering of c13view; a panic inside
// File.Symbols() is the tag syms=panic.
func c13elfAnswer(raw []byte) (ans string, ef *elf.File, ok bool) {
	if !c13elfModelled(raw) {
		return "", nil, false
	}
	var err error
	if f := catch(func() { ef, err = elf.NewFile(bytes.NewReader(raw)) }); f != "" {
		return "newfile-panic:" + f, nil, true
	}
	if err != nil {
		return "reject", nil, true
	}
	ascii := func(n string) bool {
		for i := 0; i < len(n); i++ {
			if n[i] < 0x21 || n[i] > 0x7e || n[i] == ';' {
				return false
			}
		}
		return true
	}
	for _, s := range ef.Sections {
		if strings.HasPrefix(s.Name, ".zdebug") || !ascii(s.Name) {
			return "", nil, false
		}
	}
	var ys []elf.Symbol
	catch(func() { ys, _ = ef.Symbols() })
	for _, y := range ys {
		if !ascii(y.Name) {
			return "", nil, false
		}
	}
	var view string
	named := true
	if f := catch(func() { view, named = c13view(ef) }); f != "" {
		var sb strings.Builder
		sb.WriteString("syms=panic")
		for _, s := range ef.Sections {
			d := "-"
			if s.Name == ".text" || s.Name == ".rodata" {
				data, _ := s.Data()
				if data == nil {
					d = "!"
				} else if len(data) == 0 {
					d = "e"
				} else {
					d = hexb(data)
				}
			}
			fmt.Fprintf(&sb, " ; S n:%s %x %s", s.Name, s.Addr, d)
		}
		return sb.String(), ef, true
	}
	if !named {
		return "", nil, false
	}
	return view, ef, true
}

func c13le16(b []byte, o int) uint64 { return uint64(binary.LittleEndian.Uint16(b[o:])) }

// c13mutate returns a damaged copy of a well-formed synthetic object and a tag for the kind of damage.
func c13mutate(rng *Rng, raw []byte) ([]byte, string) {
	b := append([]byte(nil), raw...)
	shoff := int(binary.LittleEndian.Uint64(b[40:]))
	shnum := int(c13le16(b, 60))
	sec := func() int { return shoff + 64*rng.Intn(shnum) }
	secOfType := func(t uint32) int {
		for i := 0; i < shnum; i++ {
			if binary.LittleEndian.Uint32(b[shoff+64*i+4:]) == t {
				return shoff + 64*i
			}
		}
		return shoff
	}
	switch k := rng.Intn(20); k {
	case 0:
		return b[:rng.Intn(len(b))], "truncate"
	case 1:
		return b[:rng.Pick(0, 3, 15, 16, 40, 63, 64, 65)], "truncate-header"
	case 2:
		b[rng.Intn(64)] = byte(rng.U64())
		return b, "header-byte"
	case 3:
		b[rng.Pick(0, 1, 2, 3, 6, 20, 21)] ^= byte(1 << uint(rng.Intn(8)))
		return b, "ident"
	case 4:
		binary.LittleEndian.PutUint64(b[40:], []uint64{0, 1 << 63, uint64(len(b)), uint64(len(b) - 64), uint64(shoff + 64), 7}[rng.Intn(6)])
		return b, "shoff"
	case 5:
		binary.LittleEndian.PutUint16(b[60:], uint16(rng.Pick(0, 1, shnum-1, shnum+1, 200)))
		return b, "shnum"
	case 6:
		binary.LittleEndian.PutUint16(b[62:], uint16(rng.Pick(0, 1, 2, shnum, shnum-2, 0xffff)))
		return b, "shstrndx"
	case 7:
		binary.LittleEndian.PutUint16(b[58:], uint16(rng.Pick(0, 40, 63, 65, 72, 128)))
		return b, "shentsize"
	case 8:
		binary.LittleEndian.PutUint16(b[56:], uint16(rng.Pick(1, 2, 9)))
		binary.LittleEndian.PutUint16(b[54:], uint16(rng.Pick(0, 55, 56, 64)))
		binary.LittleEndian.PutUint64(b[32:], []uint64{0, 64, uint64(len(b) - 30), uint64(len(b)), 1 << 63}[rng.Intn(5)])
		return b, "phdr"
	case 9:
		binary.LittleEndian.PutUint32(b[sec()+4:], uint32(rng.Pick(0, 1, 2, 3, 8, 8, 8, 11)))
		return b, "sec-type"
	case 10:
		binary.LittleEndian.PutUint64(b[sec()+32:], []uint64{0, 1, 23, 24, 25, uint64(len(b)), 1 << 63, 1<<63 - 1}[rng.Intn(8)])
		return b, "sec-size"
	case 11:
		binary.LittleEndian.PutUint64(b[sec()+24:], []uint64{0, uint64(len(b) - 1), uint64(len(b)), 1 << 63, 1<<63 - 1}[rng.Intn(5)])
		return b, "sec-offset"
	case 12:
		binary.LittleEndian.PutUint32(b[sec():], uint32(rng.Pick(0, 1, 5, 300, 1<<31)))
		return b, "sec-name"
	case 13:
		binary.LittleEndian.PutUint32(b[secOfType(2)+40:], uint32(rng.Pick(0, 1, shnum-1, shnum, shnum+5)))
		return b, "symtab-link"
	case 14:
		binary.LittleEndian.PutUint64(b[secOfType(2)+32:], uint64(rng.Pick(0, 0, 24, 25, 47, 48)))
		return b, "symtab-size"
	case 15:
		binary.LittleEndian.PutUint32(b[secOfType(2)+4:], uint32(rng.Pick(8, 3, 11)))
		return b, "symtab-type"
	case 16:
		// a symbol's name index / section index / value / size
		st := secOfType(2)
		off := int(binary.LittleEndian.Uint64(b[st+24:]))
		n := int(binary.LittleEndian.Uint64(b[st+32:])) / 24
		if n > 1 && off+24*n <= len(b) {
			e := off + 24*(1+rng.Intn(n-1))
			switch rng.Intn(4) {
			case 0:
				binary.LittleEndian.PutUint32(b[e:], uint32(rng.Pick(0, 1, 3, 500)))
			case 1:
				binary.LittleEndian.PutUint16(b[e+6:], uint16(rng.Pick(0, 1, 2, shnum, 0xfff1, 0xffff)))
			case 2:
				binary.LittleEndian.PutUint64(b[e+8:], rng.U64())
			case 3:
				binary.LittleEndian.PutUint64(b[e+16:], []uint64{0, 1, 1 << 63, ^uint64(0)}[rng.Intn(4)])
			}
		}
		return b, "symbol-field"
	case 17:
		// the string table loses its terminating NUL / a name runs to the end
		st := secOfType(2)
		link := int(binary.LittleEndian.Uint32(b[st+40:]))
		if link < shnum {
			so := shoff + 64*link
			off := int(binary.LittleEndian.Uint64(b[so+24:]))
			sz := int(binary.LittleEndian.Uint64(b[so+32:]))
			if sz > 0 && off+sz <= len(b) {
				b[off+sz-1] = 'x'
			}
		}
		return b, "strtab-unterminated"
	case 18:
		binary.LittleEndian.PutUint64(b[sec()+16:], []uint64{0, ^uint64(0), 1 << 63, ^uint64(0) - 3}[rng.Intn(4)])
		return b, "sec-addr"
	default:
		b[rng.Intn(len(b))] ^= byte(1 << uint(rng.Intn(8)))
		return b, "bit-flip"
	}
}

// elfStream: `c13 elf`, `c13 loadb`, `c13 foff` on shipped files, synthetic objects and damaged copies.
func (e *c13env) elfStream(rng *Rng, nSynth, nMut int, shippedCap int) {
	r := e.r
	emit := func(tag string, raw []byte, names []string) {
		ans, ef, ok := c13elfAnswer(raw)
		if !ok {
			r.Count("elf.skipped-unmodelled")
			return
		}
		h := hexb(raw)
		if len(raw) == 0 {
			h = "e"
		}
		r.Case("c13 elf "+h, ans)
		r.Count("elf." + tag)
		r.Count("elf.answer." + strings.SplitN(ans, " ", 2)[0])
		r.Checked("elf-no-newfile-panic")
		if strings.HasPrefix(ans, "newfile-panic") {
			r.Failf("C13.elf.newfile-panic", h[:min(len(h), 400)], "elf.NewFile panicked: %s", ans)
			return
		}
		for _, n := range names {
			if !c13nameOK(n) {
				continue
			}
			res := e.srv.query("B", h, n)
			if ef == nil { // elf.NewFile failed: the loader must end in log.Fatal
				r.Checked("elf-reject-is-fatal")
				if !strings.HasPrefix(res, "fatal:") {
					r.Failf("C13.elf.reject-not-fatal", h[:min(len(h), 400)], "elf.NewFile returns an error but the loader answered %s", res)
				}
				res = "fatal:elf"
			}
			r.Case("c13 loadb n:"+n+" "+h, res)
			r.Count("loadb." + tag)
		}
	}
	// shipped files: the view of every file; whole path from bytes for the small ones
	var files []string
	filepath.Walk(filepath.Join(repoRoot(), "amd"), func(p string, info os.FileInfo, err error) error {
		if err == nil && !info.IsDir() && strings.HasSuffix(p, ".hsaco") {
			files = append(files, p)
		}
		return nil
	})
	sort.Strings(files)
	for _, p := range files {
		raw, err := os.ReadFile(p)
		if err != nil {
			continue
		}
		rel, _ := filepath.Rel(repoRoot(), p)
		ef, err := elf.NewFile(bytes.NewReader(raw))
		if err != nil {
			continue
		}
		syms, _ := ef.Symbols()
		var kernels []elf.Symbol
		for _, s := range syms {
			if s.Section != elf.SHN_UNDEF && int(s.Section) < len(ef.Sections) && ef.Sections[s.Section].Name == ".text" && s.Size > 0 {
				kernels = append(kernels, s)
			}
		}
		var names []string
		if len(raw) <= shippedCap {
			for _, k := range kernels {
				names = append(names, k.Name)
			}
			names = append(names, "")
		}
		emit("shipped", raw, names)
		// LoadKernelCodeObjectFromFS and …FromBytes on the same file
		text := ef.Section(".text")
		for _, k := range kernels {
			if !c13nameOK(k.Name) {
				continue
			}
			rf := e.srv.query("F", p, k.Name)
			rb := e.srv.query("B", hexb(raw), k.Name)
			r.Checked("fs-vs-bytes")
			if rf != rb {
				r.Failf("C13.fs-vs-bytes", rel+":"+k.Name, "FromFS %s ; FromBytes %s", rf, rb)
			}
			// where the returned bytes sit in the file (theorem elf_bytes_exact)
			if text != nil && k.Value >= text.Addr && len(raw) <= shippedCap {
				lo := text.Offset + (k.Value - text.Addr)
				r.Case("c13 foff n:"+k.Name+" "+hexb(raw), fmt.Sprintf("off=%d len=%d", lo, k.Size))
				r.Checked("file-offset")
				var co *insts.KernelCodeObject
				if f := catch(func() { co = insts.LoadKernelCodeObjectFromBytes(raw, k.Name) }); f == "" && co != nil && lo+k.Size <= uint64(len(raw)) {
					blob := raw[lo : lo+k.Size]
					if !bytes.Equal(co.Data, blob) && !(len(blob) >= 256 && bytes.Equal(co.Data, blob[256:])) {
						r.Failf("C13.elf.file-offset", rel+":"+k.Name, "returned bytes are not file[%d:+%d] (nor that minus a 256-byte header)", lo, k.Size)
					}
				}
			}
		}
	}
	// synthetic objects, intact and damaged
	for it := 0; it < nSynth; it++ {
		nk := rng.Pick(1, 1, 2, 3)
		sp := c13genSpec(rng, nk)
		for len(sp.text) > 600 { // keep the case lines short: one kernel is enough here
			sp = c13genSpec(rng, 1)
		}
		o := c13build(rng, sp, nil, rng.Intn(3), rng.Intn(4))
		if rng.Chance(8) {
			o.noSymtab = true
		}
		if rng.Chance(10) {
			for i := range o.secs {
				if rng.Chance(40) {
					o.secs[i].nobits = true
					if rng.Chance(50) {
						o.secs[i].data = nil
					}
				}
			}
		}
		raw := c13writeELF(o)
		names := []string{sp.kerns[rng.Intn(len(sp.kerns))].name, ""}
		emit("synthetic", raw, names)
		for m := 0; m < nMut; m++ {
			mb, tag := c13mutate(rng, raw)
			emit("damaged."+tag, mb, names[:1+rng.Intn(2)])
		}
	}
}

// ---------------------------------------------------------------- loaded bytes → decoder

func (e *c13env) decodeStream(cap int) {
	r := e.r
	gcn3, cdna3 := insts.NewDisassembler(), insts.NewDisassembler()
	cdna3.IsCDNA3 = true
	var files []string
	filepath.Walk(filepath.Join(repoRoot(), "amd"), func(p string, info os.FileInfo, err error) error {
		if err == nil && !info.IsDir() && strings.HasSuffix(p, ".hsaco") {
			files = append(files, p)
		}
		return nil
	})
	sort.Strings(files)
	for _, p := range files {
		raw, err := os.ReadFile(p)
		if err != nil {
			continue
		}
		ef, err := elf.NewFile(bytes.NewReader(raw))
		if err != nil {
			continue
		}
		view, ok := c13view(ef)
		if !ok {
			continue
		}
		rel, _ := filepath.Rel(repoRoot(), p)
		isCDNA := strings.Contains(rel, "gfx942") || strings.Contains(rel, "cdna3")
		if m := ef.FileHeader.Machine; m == 224 {
			// e_flags & 0xff is the AMDGPU processor: 0x4c = gfx942
			if fl := binary.LittleEndian.Uint32(raw[48:]); fl&0xff == 0x4c {
				isCDNA = true
			}
		}
		syms, _ := ef.Symbols()
		for _, s := range syms {
			if s.Section == elf.SHN_UNDEF || int(s.Section) >= len(ef.Sections) || ef.Sections[s.Section].Name != ".text" || s.Size == 0 || !c13nameOK(s.Name) {
				continue
			}
			var co *insts.KernelCodeObject
			if f := catch(func() { co = insts.LoadKernelCodeObjectFromBytes(raw, s.Name) }); f != "" || co == nil {
				continue
			}
			// the plain getters and Info(): same values as the fields, no panic
			r.Checked("getters")
			m := co.KernelCodeObjectMeta
			var info string
			if f := catch(func() { info = m.Info() }); f != "" ||
				m.GetEnableSgprPrivateSegmentBuffer() != m.EnableSgprPrivateSegmentBuffer || m.GetEnableSgprDispatchPtr() != m.EnableSgprDispatchPtr ||
				m.GetEnableSgprQueuePtr() != m.EnableSgprQueuePtr || m.GetEnableSgprKernargSegmentPtr() != m.EnableSgprKernargSegmentPtr ||
				m.GetEnableSgprDispatchID() != m.EnableSgprDispatchID || m.GetEnableSgprFlatScratchInit() != m.EnableSgprFlatScratchInit ||
				m.GetEnableSgprPrivateSegmentSize() != m.EnableSgprPrivateSegmentSize || m.GetEnableSgprGridWorkgroupCountX() != m.EnableSgprGridWorkgroupCountX ||
				m.GetEnableSgprGridWorkgroupCountY() != m.EnableSgprGridWorkgroupCountY || m.GetEnableSgprGridWorkgroupCountZ() != m.EnableSgprGridWorkgroupCountZ ||
				!bytes.Equal(co.InstructionData(), co.Data) ||
				!strings.Contains(info, fmt.Sprintf("Kernarg Segment Byte Size: %d\n", m.KernargSegmentByteSize)) ||
				!strings.Contains(info, fmt.Sprintf("Group Segment Byte Size: %d\n", m.GroupSegmentByteSize)) {
				r.Failf("C13.getters", rel+":"+s.Name, "a Get… method, InstructionData() or Info() disagrees with the fields (fault %q)", f)
			}
			d, arch := gcn3, "0"
			if isCDNA {
				d, arch = cdna3, "1"
			}
			data := co.Data
			pc, n := 0, 0
			h := uint64(0)
			stop := "end"
			for pc < len(data) {
				var inst *insts.Inst
				var derr error
				if f := catch(func() { inst, derr = d.Decode(data[pc:]) }); f != "" {
					stop = "notimpl"
					break
				}
				if derr != nil || inst == nil {
					stop = "err"
					break
				}
				if inst.ByteSize == 0 {
					stop = "size0"
					break
				}
				h = (h*31 + uint64(inst.FormatType)*100000 + uint64(inst.Opcode)*10 + uint64(inst.ByteSize)) % 288230376151711717
				pc += inst.ByteSize
				n++
			}
			id := rel + ":" + s.Name
			r.Checked("loaded-bytes-decode")
			r.Count("decode.kernels")
			r.CountN("decode.insts", n)
			if stop != "end" || pc != len(data) {
				r.Failf("C13.decode.shipped", id, "sequential decode of the loaded bytes stops (%s) at byte %d of %d after %d instructions", stop, pc, len(data), n)
			}
			if rel == "amd/benchmarks/dnn/layer_benchmarks/relu/kernels_gfx942.hsaco" && s.Name == "ReLUForward" {
				// the literal of theorem embedded_kernel_decodes is this kernel
				r.Case("c13 embedded relu", hexb(data))
			}
			if len(data) <= cap && len(view) <= 8*cap {
				r.Case("c13 dec "+arch+" n:"+s.Name+" "+view, fmt.Sprintf("v=%d len=%d insts=%d end=%d stop=%s h=%d", int(co.Version), len(data), n, pc, stop, h))
				r.Count("decode.cross-model")
			}
		}
	}
}

// ---------------------------------------------------------------- the driver's use of the object

type c13drvCo struct {
	co *insts.KernelCodeObject
	id int
}

type c13drvArgs struct {
	A, B uint64
	N    uint32
	Pad  uint32
}

func (e *c13env) drvStream(rng *Rng, nHist int) {
	r := e.r
	s := simulation.MakeBuilder().WithoutMonitoring().WithOutputFileName(filepath.Join(r.OutDir, "akita_c13_drv")).Build()
	emusystem.MakeBuilder().WithSimulation(s).WithNumGPUs(4).Build()
	drv := s.GetComponentByName("Driver").(*driver.Driver)
	// the driver is deliberately not started: EnqueueLaunchKernel only allocates and enqueues
	uni := []int{drv.CreateUnifiedGPU(nil, []int{1, 2}), drv.CreateUnifiedGPU(nil, []int{2, 3, 4})}
	uniMembers := map[int][]int{uni[0]: {1, 2}, uni[1]: {2, 3, 4}}
	pt := drv.VerifPageTable()
	real := c13drvLoadVectorAdd(0)
	otherProc := 0

	for hi := 0; hi < nHist; hi++ {
		type qrec struct {
			q    *driver.CommandQueue
			ctx  *driver.Context
			pid  int
			seen int // commands already reported
		}
		var ctxs []*driver.Context
		pidOf := map[*driver.Context]int{}
		newCtx := func(share bool) *driver.Context {
			var c *driver.Context
			if share && len(ctxs) > 0 {
				base := ctxs[rng.Intn(len(ctxs))]
				c = drv.InitWithExistingPID(base)
				pidOf[c] = pidOf[base]
			} else {
				c = drv.Init()
				pidOf[c] = len(pidOf) + 1
			}
			ctxs = append(ctxs, c)
			return c
		}
		// distinct numbers for distinct processes
		nextPid := 0
		realPid := map[uint64]int{}
		pidNum := func(c *driver.Context) int {
			p := uint64(c.VerifPID())
			if v, ok := realPid[p]; ok {
				return v
			}
			nextPid++
			realPid[p] = nextPid
			return nextPid
		}
		var qs []*qrec
		var cos []*c13drvCo
		newCo := func() *c13drvCo {
			c := &c13drvCo{id: len(cos) + 1}
			if rng.Chance(25) {
				cp := *real
				meta := *real.KernelCodeObjectMeta
				cp.KernelCodeObjectMeta = &meta
				c.co = &cp
			} else {
				c.co = &insts.KernelCodeObject{KernelCodeObjectMeta: &insts.KernelCodeObjectMeta{
					KernargSegmentByteSize:    uint64(rng.Pick(8, 16, 24, 64, 4096, 5000)),
					KernelCodeEntryByteOffset: uint64(rng.Pick(0, 0, 0, 256, 4)),
				}, Data: rng.Bytes(rng.Pick(4, 64, 300, 4096, 4097, 9000))}
			}
			cos = append(cos, c)
			return c
		}
		var parts []string
		var ops []string // for messages
		type lrec struct { // a launch as seen on the real queue
			q      int
			co     *c13drvCo
			ko     uint64
			pid    int
			sameQ  bool
			ownPid bool
		}
		var launches []lrec
		allocated := map[int]map[uint64]uint64{} // pid → addr → size, every allocation of the history
		nOps := rng.Range(3, 9)
		newCtx(false)
		for oi := 0; oi < nOps; oi++ {
			if len(qs) == 0 || rng.Chance(25) {
				var c *driver.Context
				switch {
				case rng.Chance(45):
					c = newCtx(rng.Chance(35))
				default:
					c = ctxs[rng.Intn(len(ctxs))]
				}
				gpu := rng.Pick(1, 2, 3, 4, 1, 2, uni[0], uni[1])
				drv.SelectGPU(c, gpu)
				q := drv.CreateCommandQueue(c)
				qs = append(qs, &qrec{q: q, ctx: c, pid: pidNum(c)})
				parts = append(parts, fmt.Sprintf("q %d", pidNum(c)))
				continue
			}
			qi := rng.Intn(len(qs))
			q := qs[qi]
			var c *c13drvCo
			if len(cos) == 0 || rng.Chance(30) {
				c = newCo()
			} else {
				c = cos[rng.Intn(len(cos))]
				if rng.Chance(8) { // the caller changes the object between launches
					c.co.Data = rng.Bytes(rng.Pick(8, 128, 5000))
					r.Count("drv.object-mutated-between-launches")
				}
			}
			// the context may have moved to another GPU since the queue was created
			if rng.Chance(30) {
				drv.SelectGPU(q.ctx, rng.Pick(1, 2, 3, 4))
			}
			nb := len(q.ctx.VerifBuffers())
			args := &c13drvArgs{A: 1, B: 2, N: 3}
			var fault string
			fault = catch(func() {
				drv.EnqueueLaunchKernel(q.q, c.co, [3]uint32{64, 1, 1}, [3]uint16{64, 1, 1}, args)
			})
			if fault != "" {
				r.Failf("C13.drv.enqueue-crash", strings.Join(parts, " ; "), "EnqueueLaunchKernel panicked: %s", fault)
				break
			}
			bufs := q.ctx.VerifBuffers()[nb:]
			cmds := q.q.VerifCommands()[q.seen:]
			q.seen += len(cmds)
			var addrs []string
			var aStr []string
			if allocated[q.pid] == nil {
				allocated[q.pid] = map[uint64]uint64{}
			}
			for _, b := range bufs {
				addrs = append(addrs, fmt.Sprint(b.VAddr))
				gpu := 0
				if pg, ok := pt.Find(q.ctx.VerifPID(), b.VAddr); ok {
					gpu = int(pg.DeviceID)
				}
				if q.q.GPUID < 5 {
					gpu = 0 // an ordinary launch allocates wherever the context currently points (C10's subject)
				}
				aStr = append(aStr, fmt.Sprintf("%d@%d/p%dg%d", b.Size, b.VAddr, q.pid, gpu))
				allocated[q.pid][b.VAddr] = b.Size
			}
			var cStr []string
			isUni := false
			var uploads = map[uint64][]byte{}
			for _, cm := range cmds {
				switch v := cm.(type) {
				case *driver.MemCopyH2DCommand:
					switch src := v.Src.(type) {
					case []byte:
						cStr = append(cStr, fmt.Sprintf("code:%d:%d:%d", uint64(v.Dst), c13ckey(q.pid, c.id), len(src)))
						uploads[uint64(v.Dst)] = src
					case *kernels.HsaKernelDispatchPacket:
						cStr = append(cStr, fmt.Sprintf("pkt:%d", uint64(v.Dst)))
					default:
						cStr = append(cStr, fmt.Sprintf("args:%d", uint64(v.Dst)))
					}
				case *driver.LaunchKernelCommand:
					cStr = append(cStr, fmt.Sprintf("launch:%d:%d:%d:%d", c13ckey(q.pid, c.id), v.Packet.KernelObject, v.Packet.KernargAddress, uint64(v.DPacket)))
					l := lrec{q: qi, co: c, ko: v.Packet.KernelObject, pid: q.pid}
					_, l.sameQ = uploads[l.ko]
					launches = append(launches, l)
					// implementation-side oracles, independent of the model
					r.Checked("drv.launch-object")
					if v.CodeObject != c.co {
						r.Failf("C13.drv.launch-object", strings.Join(parts, " ; "), "the launch command carries another code object")
					}
				case *driver.LaunchUnifiedMultiGPUKernelCommand:
					isUni = true
					var ps []string
					for i, pk := range v.PacketArray {
						if pk == nil {
							continue
						}
						ps = append(ps, fmt.Sprintf("%d/%d/%d", pk.KernelObject, pk.KernargAddress, uint64(v.DPacketArray[i])))
						r.Checked("drv.unified-upload")
						if up, ok := uploads[pk.KernelObject]; !ok || !bytes.Equal(up, c.co.Data) {
							r.Failf("C13.drv.code-bytes", strings.Join(parts, " ; "), "unified launch part %d: no upload of co.Data to KernelObject %d in this call", i, pk.KernelObject)
						}
					}
					cStr = append(cStr, fmt.Sprintf("ulaunch:%d:%s", c13ckey(q.pid, c.id), strings.Join(ps, ",")))
				default:
					cStr = append(cStr, fmt.Sprintf("other:%T", cm))
				}
			}
			for dst, src := range uploads {
				r.Checked("drv.code-bytes")
				if !bytes.Equal(src, c.co.Data) || allocated[q.pid][dst] != uint64(len(c.co.Data)) {
					r.Failf("C13.drv.code-bytes", strings.Join(parts, " ; "), "upload to %d: %d bytes, object has %d, buffer has %d", dst, len(src), len(c.co.Data), allocated[q.pid][dst])
				}
			}
			karg, entry := c.co.KernargSegmentByteSize, c.co.KernelCodeEntryByteOffset
			if isUni || q.q.GPUID >= 5 {
				var gl []string
				for _, g := range uniMembers[q.q.GPUID] {
					gl = append(gl, fmt.Sprint(g))
				}
				parts = append(parts, fmt.Sprintf("u %d %s %d %d %d %d %s", qi, strings.Join(gl, ","), c.id, len(c.co.Data), karg, entry, strings.Join(addrs, " ")))
			} else {
				gpu := 0
				parts = append(parts, fmt.Sprintf("l %d %d %d %d %d %d %s", qi, gpu, c.id, len(c.co.Data), karg, entry, strings.Join(addrs, " ")))
			}
			ops = append(ops, "a="+strings.Join(aStr, ",")+" c="+strings.Join(cStr, ","))
		}
		// the answer lists one entry per operation, queue creations included (empty deltas)
		var out []string
		oi := 0
		for _, p := range parts {
			if strings.HasPrefix(p, "q ") {
				out = append(out, "a= c=")
			} else if oi < len(ops) {
				out = append(out, ops[oi])
				oi++
			}
		}
		r.Case("c13 drv ; "+strings.Join(parts, " ; "), strings.Join(out, " | "))
		r.Count("drv.histories")
		// oracles over the whole history
		for _, l := range launches {
			r.Checked("drv.code-address-own-process")
			if _, ok := allocated[l.pid][l.ko]; !ok {
				r.Count("drv.launch-points-into-other-process")
				if otherProc++; otherProc > 8 {
					continue
				}
				r.Failf("C13.drv.code-address-other-process", "c13 drv ; "+strings.Join(parts, " ; "),
					"queue %d (process %d) launches object %d with KernelObject %d, an address that was allocated for another process only: in its own address space the code was never uploaded", l.q, l.pid, l.co.id, l.ko)
			}
			if !l.sameQ {
				r.Count("drv.launch-of-cached-object")
			}
		}
	}
}

// c13ckey: the tag the model gives the commands of the repaired driver (C13.Drv.ckey): the cache key
// codeObjKey{pid, co} as one number, (pid + id)^2 + pid
func c13ckey(pid, id int) int { return (pid+id)*(pid+id) + pid }

// drvReplay: the cross-process placement on whole platforms (the second process executes whatever
// its own address space holds at the first process's address).
func (e *c13env) drvReplay() {
	r := e.r
	for _, spec := range []c13drvRunSpec{
		{Scenario: "control-twoctx", N: 256},
		{Scenario: "twoctx", N: 256},
		{Scenario: "twoq", N: 256},
	} {
		var res c13drvRunResult
		var fault string
		for try := 0; try < 3; try++ { // a hang of the control run is the driver's lost wake-up (C12): repeat
			res, fault = c13drvRun(filepath.Join(r.OutDir, "c13drv-"+spec.Scenario), spec, 40*time.Second)
			if fault != "hang" || spec.Scenario == "twoctx" {
				break
			}
		}
		r.Checked("drv.replay")
		bad := fault != ""
		for _, w := range res.Wrong {
			bad = bad || w != 0
		}
		r.Count(fmt.Sprintf("drv.replay.%s.bad=%v", spec.Scenario, bad))
		if !bad {
			continue
		}
		sig := "C13.drv.replay-control"
		if spec.Scenario == "twoctx" {
			sig = "C13.drv.code-address-other-process.run"
		} else if spec.Scenario == "twoq" {
			sig = "C13.drv.code-upload-other-queue.run"
		}
		f := fault
		if len(f) > 300 {
			f = f[:300]
		}
		r.Failf(sig, c13fmtRun(spec), "vectoradd (%d elements per launch) launched twice with ONE loaded code object: fault=%q wrong elements per launch=%v KernelObject=%v", spec.N, f, res.Wrong, res.KO)
	}
}

// hypReplays: the witnesses that show hypotheses of the theorems cannot be dropped, on the real loader.
func (e *c13env) hypReplays() {
	r := e.r
	text := []byte{0x10, 0x11, 0x12, 0x13, 0x14, 0x15, 0x16, 0x17, 0x18, 0x19, 0x1a, 0x1b, 0x1c, 0x1d, 0x1e, 0x1f}
	// (a) order_and_neighbours_irrelevant needs unique names: two kernel symbols named k, both orders
	mk := func(first, second uint64) []byte {
		o := &c13obj{secs: []c13sec{{name: ".text", typ: 1, flags: 6, addr: 0x1000, data: text}}}
		o.syms = []c13sym{{name: "k", info: 0x12, shndx: 1, value: first, size: 4}, {name: "k", info: 0x12, shndx: 1, value: second, size: 4}}
		return c13writeELF(o)
	}
	r1, ok1 := e.loadCase("hyp.unique-names", mk(0x1000, 0x1008), "", "k")
	r2, ok2 := e.loadCase("hyp.unique-names", mk(0x1008, 0x1000), "", "k")
	r.Checked("hyp.unique-names-needed")
	if ok1 && ok2 && (r1 == r2 || !strings.HasPrefix(r1, "ok") || !strings.HasPrefix(r2, "ok")) {
		r.Failf("C13.hyp.unique-names", "two kernel symbols named k at 0x1000 / 0x1008, both table orders", "the loader no longer answers by table order: %s ; %s", r1, r2)
	}
	// (b) the closed form of the selection needs addr+len(.text) < 2^64: .text at 2^64-4 with 8 bytes,
	// symbol value 2 — the wrapping subtraction lands on offset 6 and the loader returns bytes 6..7
	o := &c13obj{secs: []c13sec{{name: ".text", typ: 1, flags: 6, addr: 0xfffffffffffffffc, data: text[:8]}}}
	o.syms = []c13sym{{name: "k", info: 0x12, shndx: 1, value: 2, size: 2}}
	r3, ok3 := e.loadCase("hyp.text-wraps", c13writeELF(o), "", "k")
	r.Checked("hyp.fits-needed")
	want := fmt.Sprintf("data=2:%016x", fnv(text[6:8]))
	if ok3 && !strings.Contains(r3, want) {
		r.Failf("C13.hyp.text-wraps", ".text at 0xfffffffffffffffc (8 bytes), symbol k value=2 size=2", "expected the bytes at wrapped offset 6 (%s), loader answered %s", want, r3)
	}
}

func runC13Second(r *Run, rng *Rng, replay string) {
	thorough := r.Tier == "thorough"
	e := &c13env{r: r, srv: &c13server{}}
	defer e.srv.stop()
	nSynth, nMut, cap, decCap, nHist := 40, 6, 12000, 6000, 300
	if thorough {
		nSynth, nMut, cap, decCap, nHist = 400, 10, 1 << 20, 1 << 20, 4000
	}
	t0 := time.Now()
	e.elfStream(rng, nSynth, nMut, cap)
	t1 := time.Now()
	e.decodeStream(decCap)
	t2 := time.Now()
	e.drvStream(rng, nHist)
	t3 := time.Now()
	e.drvReplay()
	e.hypReplays()
	r.Note("c13 second pass: elf %.1fs decode %.1fs drv %.1fs replay %.1fs", t1.Sub(t0).Seconds(), t2.Sub(t1).Seconds(), t3.Sub(t2).Seconds(), time.Since(t3).Seconds())
}
