package main

// C20, second deepening pass: implementation-side counterparts of lean/MgpuProofs/Props/C20_Deep.lean.
//
//   * multi-device scheduling: kernels of equal length on 2..3 devices (devices finish in the same
//     cycle), after EVERY engine event: no free list holds an executor twice, an executor in a free list
//     is idle, no counter is negative, every counter is below the bound of `counters_bounded`
//   * totals do not depend on the platform shape (same trace on three shapes)
//   * hypotheses that cannot be dropped: platforms without a device / SM / sub-core stall exactly as the
//     model says (correspondence cases, `terminates_needs_executors_refuted`)
//   * two findings reproduced on the real code: SM.GetTotalInstsCount is never updated; extractInst
//     panics on every register other than R0..R31, R255 (`parse_render_all_refuted`)

import (
	"fmt"
	"io"
	"os"
	"strings"
	"time"

	"github.com/sarchlab/akita/v4/sim"
	nvbench "github.com/sarchlab/mgpusim/v4/nvidia/benchmark"
	nvplatform "github.com/sarchlab/mgpusim/v4/nvidia/platform"
	nvrunner "github.com/sarchlab/mgpusim/v4/nvidia/runner"
	"github.com/sarchlab/mgpusim/v4/nvidia/tracereader"
	log "github.com/sirupsen/logrus"
)

func init() { register("C20", runC20Deep) }

// workBound of Props/C20_Deep.lean: instructions + 6 per warp, block and kernel + 3
func c20dWorkBound(t c20Trace) int {
	k, b, w, n, _ := t.totals()
	return n + 6*(w+b+k) + 3
}

func c20dDup(names []string) string {
	seen := map[string]bool{}
	for _, n := range names {
		if seen[n] {
			return n
		}
		seen[n] = true
	}
	return ""
}

// per-event invariants on the real components
type c20dWatch struct {
	r        *Run
	s        *c20Sys
	t        c20Trace
	cfg      string
	bound    int
	maxDrvIn int
	events   int
	failed   map[string]bool
}

func (w *c20dWatch) fail(sig, format string, a ...interface{}) {
	if w.failed[sig] {
		return
	}
	w.failed[sig] = true
	w.r.Failf(sig, w.cfg, "after event %d: "+format, append([]interface{}{w.events}, a...)...)
}

func (w *c20dWatch) check() {
	s := w.s
	w.events++
	if s.drvP.in > w.maxDrvIn {
		w.maxDrvIn = s.drvP.in
	}
	d := s.p.Driver
	if x := c20dDup(d.VerifFreeDevices()); x != "" {
		w.fail("C20.freelist.duplicate.device", "%s twice in freeDevices %v", x, d.VerifFreeDevices())
	}
	if d.VerifUnfinished() < 0 {
		w.fail("C20.counters.negative", "driver unfinishedKernelsCount = %d", d.VerifUnfinished())
	}
	if int(d.VerifUnfinished()) > w.bound+s.G {
		w.fail("C20.counters.bound", "driver unfinishedKernelsCount = %d > %d", d.VerifUnfinished(), w.bound+s.G)
	}
	free := map[string]bool{}
	for _, n := range d.VerifFreeDevices() {
		free[n] = true
	}
	for i, g := range s.gpus {
		if x := c20dDup(g.VerifFreeSMs()); x != "" {
			w.fail("C20.freelist.duplicate.sm", "%s twice in freeSMs of %s", x, g.Name())
		}
		if g.VerifUnfinished() < 0 || g.VerifFinished() < 0 {
			w.fail("C20.counters.negative", "%s unfinished=%d finished=%d", g.Name(), g.VerifUnfinished(), g.VerifFinished())
		}
		if int(g.VerifUnfinished()) > w.bound+s.S || int(g.VerifFinished()) > w.bound {
			w.fail("C20.counters.bound", "%s unfinished=%d finished=%d bound=%d", g.Name(), g.VerifUnfinished(), g.VerifFinished(), w.bound)
		}
		// a device in the driver's free list is idle: nothing unfinished, unreported, undispatched, no message on its ports
		if free[g.Name()] && (g.VerifUnfinished() != 0 || g.VerifFinished() != 0 || g.VerifUndispatched() != 0 ||
			s.gpuUp[i].in != 0 || s.gpuUp[i].out != 0 || len(g.VerifFreeSMs()) != s.S) {
			w.fail("C20.freelist.busy_device", "%s is in freeDevices with unfinished=%d finished=%d undispatched=%d inbox=%d outbox=%d freeSMs=%d",
				g.Name(), g.VerifUnfinished(), g.VerifFinished(), g.VerifUndispatched(), s.gpuUp[i].in, s.gpuUp[i].out, len(g.VerifFreeSMs()))
		}
	}
	for _, m := range s.sms {
		if x := c20dDup(m.VerifFreeSubcores()); x != "" {
			w.fail("C20.freelist.duplicate.subcore", "%s twice in freeSubcores of %s", x, m.Name())
		}
		if m.VerifUnfinished() < 0 || m.VerifFinished() < 0 || m.GetTotalWarpsCount() < 0 {
			w.fail("C20.counters.negative", "%s unfinished=%d finished=%d warps=%d", m.Name(), m.VerifUnfinished(), m.VerifFinished(), m.GetTotalWarpsCount())
		}
		if int(m.VerifUnfinished()) > w.bound+s.C || int(m.VerifFinished()) > w.bound {
			w.fail("C20.counters.bound", "%s unfinished=%d finished=%d bound=%d", m.Name(), m.VerifUnfinished(), m.VerifFinished(), w.bound)
		}
	}
	for _, c := range s.subs {
		if c.VerifUnfinished() < 0 || c.VerifFinished() < 0 || c.GetTotalInstsCount() < 0 {
			w.fail("C20.counters.negative", "%s unfinished=%d finished=%d insts=%d", c.Name(), c.VerifUnfinished(), c.VerifFinished(), c.GetTotalInstsCount())
		}
		if int(c.VerifUnfinished()) > w.bound || int(c.VerifFinished()) > w.bound || c.VerifUnfinished() > c.GetTotalInstsCount() {
			w.fail("C20.counters.bound", "%s unfinished=%d finished=%d insts=%d bound=%d", c.Name(), c.VerifUnfinished(), c.VerifFinished(), c.GetTotalInstsCount(), w.bound)
		}
	}
}

// totals a finished run reports
type c20dTotals struct{ insts, warps, smInsts int }

func c20dTotalsOf(s *c20Sys) c20dTotals {
	var t c20dTotals
	for _, c := range s.subs {
		t.insts += int(c.GetTotalInstsCount()) - int(c.VerifUnfinished())
	}
	for _, m := range s.sms {
		t.warps += int(m.GetTotalWarpsCount())
		t.smInsts += int(m.GetTotalInstsCount())
	}
	return t
}

// a platform without executors: the run must stall exactly as the model says (no oracle failure: the
// hypothesis `1 <= G, S, C` of terminates_all_idle is needed, Lean: terminates_needs_executors_refuted)
func c20dStallCase(r *Run, G, S, C int, t c20Trace) {
	s := c20Build(G, S, C)
	runner := new(nvrunner.RunnerBuilder).WithPlatform(s.p).Build()
	bm := &nvbench.Benchmark{}
	for _, kk := range t.kernels() {
		e := new(nvbench.ExecKernel)
		e.SetKernel(*kk)
		bm.TraceExecs = append(bm.TraceExecs, e)
	}
	runner.AddBenchmark(bm)
	cfg := fmt.Sprintf("c20 run g=%d s=%d c=%d k=%s", G, S, C, t.String())
	ok, fault := withTimeout(20*time.Second, func() { runner.Run() })
	if !ok || fault != "" {
		r.Failf("C20.run.panic", cfg, "platform without executors: hang=%v panic=%s", !ok, fault)
		return
	}
	r.Case(cfg+" ; "+strings.Join(s.sched, " "), fmt.Sprintf("ev=%d h=%d asleep=1 missed=0 %s", len(s.sched), s.hash, s.final()))
	r.Count("run:no_executor")
	r.Checked("hypothesis.no_executor")
	if len(t) > 0 && s.p.Driver.VerifUnfinished() == 0 {
		r.Failf("C20.hypothesis.no_executor", cfg, "a platform without a device / SM / sub-core reported all kernels finished")
	}
}

func runC20Deep(r *Run, rng *Rng, replay string) {
	log.SetOutput(io.Discard)
	log.SetLevel(log.PanicLevel)
	devnull, _ := os.OpenFile(os.DevNull, os.O_WRONLY, 0)
	stdout := os.Stdout
	os.Stdout = devnull
	defer func() { os.Stdout = stdout }()

	// ---- hypotheses that cannot be dropped: no device, no SM, no sub-core
	for _, w := range []struct {
		g, s, c int
		t       c20Trace
	}{
		{0, 1, 1, c20Trace{{{1}}}},
		{1, 0, 1, c20Trace{{{1}}}},
		{1, 1, 0, c20Trace{{{1}}}},
		{0, 0, 0, c20Trace{{{2, 3}}, {}}},
		{2, 0, 2, c20Trace{{{2}}, {{1}}}},
		{1, 2, 0, c20Trace{{{2, 0}, {1}}}},
	} {
		c20dStallCase(r, w.g, w.s, w.c, w.t)
	}

	// ---- the shipped platform: A100PlatformBuilder (1 device x 108 SMs x 4 sub-cores)
	for _, t := range []c20Trace{{{{3, 0, 2}, {}, {1}}, {}}, {{{1, 1, 1, 1, 1, 1}, {2, 2, 2, 2, 2}}, {{4}}}} {
		var s *c20Sys
		fault := catch(func() { s = c20Attach(new(nvplatform.A100PlatformBuilder).WithFreq(1*sim.Hz).Build(), 1, 108, 4) })
		cfg := fmt.Sprintf("c20 run g=1 s=108 c=4 k=%s", t.String())
		if fault != "" || len(s.sms) != 108 || len(s.subs) != 432 {
			r.Failf("C20.platform.a100_shape", cfg, "A100PlatformBuilder does not build 1 x 108 x 4: %s", fault)
			continue
		}
		runner := new(nvrunner.RunnerBuilder).WithPlatform(s.p).Build()
		bm := &nvbench.Benchmark{}
		for _, kk := range t.kernels() {
			e := new(nvbench.ExecKernel)
			e.SetKernel(*kk)
			bm.TraceExecs = append(bm.TraceExecs, e)
		}
		runner.AddBenchmark(bm)
		ok, f2 := withTimeout(20*time.Second, func() { runner.Run() })
		if !ok || f2 != "" {
			r.Failf("C20.terminates.hang", cfg, "A100 platform: hang=%v panic=%s", !ok, f2)
			continue
		}
		r.Case(cfg+" ; "+strings.Join(s.sched, " "), fmt.Sprintf("ev=%d h=%d asleep=1 missed=0 %s", len(s.sched), s.hash, s.final()))
		r.Count("run:a100_platform")
		r.Checked("terminates.a100")
		tot := c20dTotalsOf(s)
		_, _, w, n, _ := t.totals()
		if s.p.Driver.VerifUnfinished() != 0 || tot.insts != n || tot.warps != w {
			r.Failf("C20.terminates.not_finished.a100", cfg, "A100 platform: unfinished=%d executed insts=%d of %d warps=%d of %d", s.p.Driver.VerifUnfinished(), tot.insts, n, tot.warps, w)
		}
	}

	// ---- multi-device scheduling with per-event invariants
	var watch *c20dWatch
	var curTrace c20Trace
	var last c20dTotals
	var lastIdle bool
	smFails := 0
	c20AfterBuild = func(s *c20Sys) {
		w := &c20dWatch{r: r, s: s, t: curTrace, bound: c20dWorkBound(curTrace), failed: map[string]bool{},
			cfg: fmt.Sprintf("c20 run g=%d s=%d c=%d k=%s", s.G, s.S, s.C, curTrace.String())}
		watch = w
		s.p.Engine.(*sim.SerialEngine).AcceptHook(&c20Hook{f: func(ctx sim.HookCtx) {
			if ctx.Pos == sim.HookPosAfterEvent {
				w.check()
			}
		}})
	}
	c20AfterRun = func(r *Run, s *c20Sys, t c20Trace, idle bool) {
		last, lastIdle = c20dTotalsOf(s), idle
		r.Checked("freelist+counters.every_event")
		r.CountN("deep:events_checked", watch.events)
		if watch.maxDrvIn >= 2 {
			r.Count("deep:devices_finished_same_cycle")
		}
		if idle {
			// SM.GetTotalInstsCount: the instructions of the warps the SM ran
			r.Checked("conservation.sm_insts_count")
			_, _, _, n, _ := t.totals()
			if last.smInsts != n && smFails < 3 {
				smFails++
				r.Failf("C20.conservation.sm_insts_count", watch.cfg,
					"sum of SM.GetTotalInstsCount() = %d, the sub-cores executed %d instructions (trace %d)", last.smInsts, last.insts, n)
			}
		}
	}
	defer func() { c20AfterBuild, c20AfterRun = nil, nil }()

	run := func(G, S, C int, t c20Trace) {
		curTrace = t
		c20RunCase(r, G, S, C, t)
	}
	// the witness of Props/C20_Deep.lean: kernels of 2 and 1 instructions on two devices complete in the same cycle
	run(2, 1, 1, c20Trace{{{2}}, {{1}}, {{1}}})
	if watch != nil && watch.maxDrvIn < 2 {
		r.Failf("C20.multidevice.witness", watch.cfg, "the two completion messages never were in the driver's inbox together (max %d)", watch.maxDrvIn)
	}
	run(3, 1, 1, c20Trace{{{1}}, {{1}}, {{1}}, {{1}}, {{1}}, {{1}}, {{1}}})
	run(3, 2, 2, c20Trace{{{1, 1}, {1, 1}}, {{1, 1}, {1, 1}}, {{1, 1}, {1, 1}}, {}, {{}}, {{0}}})
	nMulti := 250
	if r.Tier == "thorough" {
		nMulti = 2500
	}
	for i := 0; i < nMulti; i++ {
		G, S, C := rng.Range(2, 3), rng.Range(1, 3), rng.Range(1, 4)
		// kernels of equal shape so that devices finish together, plus some degenerate ones
		nb, nw, ni := rng.Range(0, 3), rng.Range(0, 4), rng.Range(0, 3)
		t := c20Trace{}
		for k := rng.Range(G, 3*G+1); k > 0; k-- {
			kk := [][]int{}
			if !rng.Chance(15) {
				for b := 0; b < nb; b++ {
					bb := []int{}
					for w := 0; w < nw; w++ {
						bb = append(bb, ni)
					}
					kk = append(kk, bb)
				}
			}
			t = append(t, kk)
		}
		run(G, S, C, t)
	}

	// ---- totals do not depend on the shape: the same trace on three shapes
	nShape := 60
	if r.Tier == "thorough" {
		nShape = 600
	}
	for i := 0; i < nShape; i++ {
		t := c20GenTrace(rng, rng.Chance(45))
		var ref c20dTotals
		refShape := ""
		for j := 0; j < 3; j++ {
			G, S, C := rng.Range(1, 3), rng.Range(1, 4), rng.Range(1, 5)
			if j == 0 {
				G, S, C = 1, 1, 1
			}
			run(G, S, C, t)
			if !lastIdle {
				continue
			}
			shape := fmt.Sprintf("%dx%dx%d", G, S, C)
			r.Checked("totals.shape_independent")
			if refShape == "" {
				ref, refShape = last, shape
			} else if ref.insts != last.insts || ref.warps != last.warps {
				r.Failf("C20.totals.shape_dependent", watch.cfg, "executed insts / warps = %d/%d on %s but %d/%d on %s", last.insts, last.warps, shape, ref.insts, ref.warps, refShape)
			}
		}
	}
	c20AfterBuild, c20AfterRun = nil, nil

	// ---- underscores in numbers: %d / %x stop before '_', %v accepts Go-syntax underscores, Atoi rejects them
	inst := func(line string) {
		var out string
		fault := catch(func() { out = "I" + c20CanonReal(tracereader.VerifExtractInst(line)) })
		if fault != "" {
			out = "fault:" + c20Fault(fault)
		}
		r.Case("c20 inst "+line, out)
		r.Count("inst:underscore")
	}
	for _, line := range []string{
		"0010 0000_0001 0 MOV 0 0 0", "00_10 00000001 0 MOV 0 0 0", "0010 00000001 1_0 R1 MOV 0 0 0",
		"0010 00000001 0 MOV 1_ R3 0 0", "0010 00000001 0 MOV 0 4 0 0x7f_b0 7", "0010 00000001 0 MOV 0 4 0 0x7f__b0 7",
		"0010 00000001 0 MOV 0 4 0 0x_7f 7", "0010 00000001 0 MOV 0 4 0 1_000 7", "0010 00000001 0 MOV 0 4 0 _1 7",
		"0010 00000001 0 MOV 0 4 0 0_7 7", "0010 00000001 0 MOV 0 4 0 1_ 7", "0010 00000001 0 MOV 0 4 0 0x7f_ 7",
		"0010 00000001 0 MOV 0 4 1_ 0x10 8 7", "0010 00000001 0 MOV 0 4_ 0 0x10 7", "0010 00000001 0 MOV 0 0 1_0",
		"0010 00000001 0 MOV 0 4 2 0x10 4 1_0 -4 7", "0010 00000001 0 MOV 0 4 0 -0x1_0 7", "0010 00000001 0 MOV 0 4 0 0b1_01 7",
		"0010 00000001 0 MOV 0 4 0 0o7_7 7", "0010 00000001 0 MOV 0 4 0 0_ 7", "_ _ _ _ _ _ _",
	} {
		inst(line)
	}
	nUs := 400
	if r.Tier == "thorough" {
		nUs = 6000
	}
	for i := 0; i < nUs; i++ {
		toks := strings.Fields(c20GenInst(rng, int64(rng.Intn(4096)*16)).render())
		for k := rng.Range(1, 2); k > 0; k-- {
			j := rng.Intn(len(toks))
			t := toks[j]
			pos := rng.Intn(len(t) + 1)
			toks[j] = t[:pos] + "_" + t[pos:]
		}
		inst(strings.Join(toks, " "))
	}

	// ---- the register table: SASS registers are R0..R254 (+ RZ = R255)
	for _, line := range []string{
		"0010 00000001 1 R32 MOV 1 R2 0 0",
		"0020 ffffffff 1 R4 IMAD.MOV.U32 2 R100 R254 0 0",
		"0030 ffffffff 1 R40 LDG.E 1 R32 4 1 0x7fb0fc430e00 4 0",
	} {
		r.Checked("parse_render.register_range")
		var out string
		fault := catch(func() { out = "I" + c20CanonReal(tracereader.VerifExtractInst(line)) })
		if fault != "" {
			out = "fault:" + c20Fault(fault)
		}
		r.Case("c20 inst "+line, out)
		if fault != "" {
			r.Failf("C20.parse_render.register_range", "c20 inst "+line, "extractInst panics (%s) on a SASS register (R0..R254 / R255)", fault)
		}
	}
}
