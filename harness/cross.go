package main

// Cross-property reuse of implementation-side oracles. C01 (kernels compute the reference
// result) and C18 (results do not depend on how work and data are spread) rest on pieces that are
// modelled and proved under other properties: the unified multi-GPU work-group split (C08) and
// Distribute / the allocator (C10). Their oracles are cheap and far more exhaustive than whole
// workload runs, so the C01 and C18 checks run them too (oracle only: the case lines belong to the
// other property's Lean model). A failure keeps the signature of the property whose oracle fired.

import "github.com/sarchlab/mgpusim/v4/amd/insts"

func init() {
	register("C18", func(r *Run, rng *Rng, _ string) { crossWGSplit(r, rng, 250, 2500); crossDistribute(r, rng, 60, 800) })
	register("C01", func(r *Run, rng *Rng, _ string) { crossWGSplit(r, rng, 250, 2500) })
}

// crossWGSplit: every work-group of a unified multi-GPU launch runs on exactly one member GPU.
func crossWGSplit(r *Run, rng *Rng, quick, thorough int) {
	r.OracleOnly = true
	defer func() { r.OracleOnly = false }()
	n := quick
	if r.Tier == "thorough" {
		n = thorough
	}
	for i := 0; i < n; i++ {
		w := c08RandWG(rng, rng.Range(1, 3))
		g := c08RandGrid(rng, w, 400)
		cus := c08RandCUs(rng)
		c08Multi(r, g, w, cus)
		r.Count("cross.wg-split")
	}
	// exact multiples of the work-group size in 2-D and 3-D (boundary of the flattened id)
	for _, k := range []int{1, 2, 3, 4, 8} {
		for _, cus := range [][]int{{4, 4}, {64, 64}, {36, 36, 36, 36}, {3, 5}} {
			c08Multi(r, c08Geo{16 * k, 16 * 4, 1}, c08Geo{16, 16, 1}, cus)
			c08Multi(r, c08Geo{8 * k, 8 * 2, 4 * 3}, c08Geo{8, 8, 4}, cus)
			r.CountN("cross.wg-split", 2)
		}
	}
}

// crossDistribute: Distribute re-homes exactly the pages of the range (C10's oracles on random
// allocator histories).
func crossDistribute(r *Run, rng *Rng, quick, thorough int) {
	r.OracleOnly = true
	defer func() { r.OracleOnly = false }()
	n := quick
	if r.Tier == "thorough" {
		n = thorough
	}
	for i := 0; i < n; i++ {
		c10RandomCase(r, rng, i, false)
		r.Count("cross.distribute")
	}
}

// A copy command counts as complete when it is dequeued (that wakes DrainCommandQueue). "Drain
// returns only after all earlier commands have completed" (C12) and "the application reads the same
// data whatever the host schedule" (C05) both need the host buffer of a device-to-host copy to be
// filled BEFORE that moment; C11's oracles check it on both copy paths.
func init() {
	f := func(r *Run, rng *Rng, _ string) {
		r.OracleOnly = true
		defer func() { r.OracleOnly = false }()
		c11EmuCompleteAfterData(r, rng)
		for i := 0; i < 40; i++ {
			c11FlushScenario(r, rng)
		}
	}
	register("C12", f)
	register("C05", f)
}

// The dispatcher decides WHICH work-groups of the grid are ever mapped and when the kernel counts as
// complete: C09's dispatcher scenarios (real Dispatcher + resource pool under back-pressure,
// concurrent kernels, all three algorithms) are evaluated as oracles of C08 as well — "every
// work-item of the grid is executed exactly once" fails when a work-group is never mapped, mapped
// twice, or the kernel is reported complete before its last work-group was sent.
func init() {
	register("C08", func(r *Run, rng *Rng, _ string) {
		r.OracleOnly = true
		defer func() { r.OracleOnly = false }()
		n := 500
		if r.Tier == "thorough" {
			n = 5000
		}
		for i := 0; i < n; i++ {
			c09CPCase(r, rng, []string{"rr", "rr", "greedy", "partition"}[rng.Intn(4)])
		}
	})
}

// Copies on the DMA path are part of "results do not depend on how data are spread" (C18) and of
// "the effects of a queue's commands" (C12): the owner/piece scenario of C11 (consecutive virtual
// pages on the last frame of one GPU and the first frame of the next, unaligned ranges) is evaluated
// as an oracle of both.
func init() {
	f := func(r *Run, rng *Rng, _ string) {
		r.OracleOnly = true
		defer func() { r.OracleOnly = false }()
		for i := 0; i < 60; i++ {
			c11OwnerScenario(r, rng)
		}
	}
	register("C12", f)
	register("C18", f)
}

// A workload's host code overwrites device buffers that kernels have written (C01: the simulated
// result equals the host reference): the command processor must not let a copy overtake a cache
// flush in either direction, and copies issued on several queues must all arrive. C11's command
// processor and multi-queue scenarios are evaluated as oracles of C01 as well.
func init() {
	register("C01", func(r *Run, rng *Rng, _ string) {
		r.OracleOnly = true
		defer func() { r.OracleOnly = false }()
		for i := 0; i < 60; i++ {
			c11CpScenario(r, rng)
		}
	})
}

// C03 (memory effects of FLAT/SMEM instructions conform to the ISA) goes through the emulator's
// storage accessor: its scenarios across page-table changes are oracles of C03 too.
// C06 (inactive lanes keep their registers and make no memory access) also has to hold in the timing
// compute unit, where loads return later and stores are merged per cache line: C02's real-CU
// scenarios (EXEC changed while a load is in flight; coalesced stores with duplicate addresses) are
// oracles of C06 too.
func init() {
	register("C03", func(r *Run, rng *Rng, _ string) {
		r.OracleOnly = true
		defer func() { r.OracleOnly = false }()
		accessorRuns(r, rng, 60)
		copyCasesAccessor(r, rng, 120)
	})
	register("C06", func(r *Run, rng *Rng, _ string) {
		r.OracleOnly = true
		defer func() { r.OracleOnly = false }()
		dis := insts.NewDisassembler()
		n := 60
		if r.Tier == "thorough" {
			n = 600
		}
		for k := 0; k < n; k++ {
			c02dRunCase(r, rng, dis, c02dGenCase(rng))
		}
		// accesses that form no transaction (EXEC = 0) between ordinary ones
		for k := 0; k < n; k++ {
			cs := &c02dCase{base: 0x1000 + 4*uint64(rng.Intn(64)), exec: c02dFull, seed: rng.U64() % 1000000, fetchMax: 1 + rng.Intn(2),
				pServeS: 100, pRetS: 100, pServeV: rng.Pick(30, 60, 100), pRetV: rng.Pick(30, 60, 100)}
			c02dVmEmpty(rng, cs, false)
			c02dRunCase(r, rng, dis, cs)
		}
		c02dRunStores(r, rng, n)
	})
}

// Round-4 reviewers' changes that another property's scenarios catch: the address translator's
// coalescing key (C16) decides whose page a second process reads in timing mode (C01); the
// emulator's storage accessor (C11's accessor scenarios) decides what a kernel reads from a
// distributed buffer (C18).
func init() {
	register("C01", func(r *Run, rng *Rng, _ string) {
		r.OracleOnly = true
		defer func() { r.OracleOnly = false }()
		for i := 0; i < 150; i++ {
			ops, closed := c16Gen(rng, false)
			runC16Scenario(r, ops, closed, "random")
		}
	})
	register("C18", func(r *Run, rng *Rng, _ string) {
		r.OracleOnly = true
		defer func() { r.OracleOnly = false }()
		copyCasesAccessor(r, rng, 200)
		accessorRuns(r, rng, 40)
	})
}

// Round-5 reviewers' changes that another property's scenarios catch (oracle-only reuse; the model
// answers belong to the other property):
//   - C02 (timing = emulation) depends on the timing register store (C07's timing scenarios);
//   - C09 (every work-group mapped exactly once) depends on GridBuilder.Skip/NextWG under a filter and
//     on the partition algorithm (C08's enumeration and partition scenarios);
//   - C10 (no frame lost or handed out twice) depends on what the driver does with the old frame of a
//     migrated page (C19's driver scenarios);
//   - C12 (a command sees its predecessors' effects) depends on the flush decision for copies that
//     overlap a dirty buffer (C11's overlap witnesses and hypotheses audit).
func init() {
	oracleOnly := func(f func(r *Run, rng *Rng)) func(r *Run, rng *Rng, _ string) {
		return func(r *Run, rng *Rng, _ string) {
			r.OracleOnly = true
			defer func() { r.OracleOnly = false }()
			f(r, rng)
		}
	}
	register("C02", oracleOnly(func(r *Run, rng *Rng) {
		for i := 0; i < 120; i++ {
			runC07Scenario(r, c07GenTim(rng, rng.Range(10, 120), true), "valid")
		}
	}))
	register("C09", oracleOnly(func(r *Run, rng *Rng) {
		for i := 0; i < 60; i++ {
			g := c08Geo{rng.Range(1, 40), rng.Range(1, 12), rng.Range(1, 3)}
			w := c08Geo{rng.Range(1, 8), rng.Range(1, 4), rng.Range(1, 2)}
			cus := []int{rng.Range(1, 4), rng.Range(1, 4)}
			if rng.Bool() {
				cus = append(cus, rng.Range(1, 4))
			}
			c08Multi(r, g, w, cus)
			c08Part(r, g, w, cus, rng.Intn(len(cus)), rng.Range(1, 4), "")
		}
	}))
	register("C10", oracleOnly(func(r *Run, rng *Rng) { runC19Drv(r, rng, "") }))
	register("C12", oracleOnly(func(r *Run, rng *Rng) { runC11Hyp(r, rng, "") }))
}
