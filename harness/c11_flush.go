package main

import (
	"fmt"
	"strings"

	"github.com/sarchlab/akita/v4/mem/vm"
	"github.com/sarchlab/akita/v4/sim"
	"github.com/sarchlab/mgpusim/v4/amd/driver"
	"github.com/sarchlab/mgpusim/v4/amd/protocol"
)

func init() { register("C11", runC11Flush) }

// The dirty-buffer bookkeeping of the real driver (DMA-path copy middleware): which copies are
// preceded by a cache flush. The real Driver is ticked by hand against one fake GPU port; kernels
// stay in flight until the scenario completes them, copies go through a second queue.
type c11FlushEnv struct {
	d        *driver.Driver
	gpuPort  sim.Port
	cpPort   sim.Port
	ctx      *driver.Context
	qCopy    *driver.CommandQueue
	qKernel  *driver.CommandQueue
	inflight []*protocol.LaunchKernelReq
}

func newC11FlushEnv() *c11FlushEnv {
	e := &c11FlushEnv{}
	e.d = driver.MakeBuilder().WithEngine(&fakeEngine{}).WithPageTable(vm.NewPageTable(12)).WithLog2PageSize(12).Build("Driver")
	e.gpuPort = e.d.GetPortByName("GPU")
	(&fakeConn{name: "c"}).PlugIn(e.gpuPort)
	e.cpPort = sim.NewPort(nil, 64, 64, "FakeGPU.ToDriver")
	e.d.RegisterGPU(e.cpPort, driver.DeviceProperties{CUCount: 4, DRAMSize: 1 << 24})
	e.ctx = e.d.Init()
	e.qCopy = e.d.CreateCommandQueue(e.ctx)
	e.qKernel = e.d.CreateCommandQueue(e.ctx)
	return e
}

// pump ticks the driver, answering flushes and copy requests at once and parking kernel launches;
// returns whether a FlushReq was seen.
func (e *c11FlushEnv) pump(until func() bool) (flushed bool, ok bool) {
	for i := 0; i < 4000; i++ {
		e.d.Tick()
		for {
			m := e.gpuPort.RetrieveOutgoing()
			if m == nil {
				break
			}
			switch q := m.(type) {
			case *protocol.LaunchKernelReq:
				e.inflight = append(e.inflight, q)
			case *protocol.FlushReq:
				flushed = true
				e.deliver(sim.GeneralRspBuilder{}.WithSrc(e.cpPort.AsRemote()).WithDst(e.gpuPort.AsRemote()).WithOriginalReq(q).Build())
			case *protocol.MemCopyH2DReq:
				e.deliver(sim.GeneralRspBuilder{}.WithSrc(e.cpPort.AsRemote()).WithDst(e.gpuPort.AsRemote()).WithOriginalReq(q).Build())
			case *protocol.MemCopyD2HReq:
				for i := range q.DstBuffer {
					q.DstBuffer[i] = byte((q.SrcAddress+uint64(i))*13%255) + 1 // never zero
				}
				e.deliver(sim.GeneralRspBuilder{}.WithSrc(e.cpPort.AsRemote()).WithDst(e.gpuPort.AsRemote()).WithOriginalReq(q).Build())
			}
		}
		if until() {
			return flushed, true
		}
	}
	return flushed, false
}

func (e *c11FlushEnv) deliver(m sim.Msg) {
	for i := 0; i < 100; i++ {
		if e.gpuPort.Deliver(m) == nil {
			return
		}
		e.d.Tick()
	}
	panic("cannot deliver to the driver")
}

func c11FlushScenario(r *Run, rng *Rng) {
	e := newC11FlushEnv()
	// A copy is complete when it is dequeued (that is what wakes DrainCommandQueue): at that
	// moment a device-to-host copy must already have filled the caller's buffer.
	early := ""
	driver.VerifYield = func(point string) {
		if point != "queue.dequeue" || e.qCopy.NumCommand() == 0 {
			return
		}
		if c, ok := e.qCopy.Peek().(*driver.MemCopyD2HCommand); ok {
			if dst, ok := c.Dst.([]byte); ok && len(dst) > 0 {
				nonzero := false
				for _, b := range dst {
					if b != 0 {
						nonzero = true
					}
				}
				if !nonzero {
					early = fmt.Sprintf("D2H copy from %x (%d bytes) is dequeued while the host buffer is still empty", uint64(c.Src), len(dst))
				}
			}
		}
	}
	defer func() { driver.VerifYield = nil }()
	type buf struct{ addr, size uint64 }
	var bufs []buf
	ops := []string{"c11 flush"}
	launched := false
	var launchedBufs []buf // buffers that existed at some launch
	n := rng.Range(4, 14)
	fail := func(sig, detail string) {
		r.Failf(sig, strings.Join(ops, " ; "), "%s", detail)
	}
	var out []string
	for i := 0; i < n; i++ {
		x := rng.Intn(100)
		switch {
		case x < 25 || len(bufs) == 0:
			sz := uint64(rng.Pick(100, 4096, 4097, 8192, 12288))
			p := e.d.AllocateMemory(e.ctx, sz)
			bufs = append(bufs, buf{uint64(p), sz})
			ops = append(ops, fmt.Sprintf("a %x %d", uint64(p), sz))
		case x < 45:
			n0 := len(e.inflight)
			e.d.Enqueue(e.qKernel, &driver.LaunchKernelCommand{ID: sim.GetIDGenerator().Generate()})
			_, ok := e.pump(func() bool { return len(e.inflight) > n0 || e.qKernel.NumCommand() > 1 })
			if !ok {
				fail("C11.flush.launch-stuck", "kernel launch was not sent")
				return
			}
			if len(e.inflight) > n0 {
				launched = true
				launchedBufs = append([]buf{}, bufs...)
				ops = append(ops, "k")
			} else {
				// an earlier kernel still occupies the queue: this launch is processed later,
				// after a completion; complete one now so the model sees launch order
				ops = append(ops, "K")
				q := e.inflight[0]
				e.inflight = e.inflight[1:]
				e.deliver(protocol.NewLaunchKernelRsp(e.cpPort.AsRemote(), e.gpuPort.AsRemote(), q.ID))
				_, ok := e.pump(func() bool { return len(e.inflight) > n0-1 })
				if !ok {
					fail("C11.flush.launch-stuck", "queued kernel launch was not sent after a completion")
					return
				}
				launched = true
				launchedBufs = append([]buf{}, bufs...)
				ops = append(ops, "k")
			}
		case x < 55 && len(e.inflight) > 0:
			q := e.inflight[0]
			e.inflight = e.inflight[1:]
			e.deliver(protocol.NewLaunchKernelRsp(e.cpPort.AsRemote(), e.gpuPort.AsRemote(), q.ID))
			e.pump(func() bool { return true })
			ops = append(ops, "K")
		default:
			b := bufs[rng.Intn(len(bufs))]
			off := uint64(rng.Pick(0, 0, 1, 64, int(b.size)-1))
			if off >= b.size {
				off = 0
			}
			l := uint64(rng.Pick(1, 4, 64, int(b.size-off)))
			if off+l > b.size {
				l = b.size - off
			}
			addr := b.addr + off
			data := make([]byte, l)
			if rng.Bool() {
				e.d.EnqueueMemCopyH2D(e.qCopy, driver.Ptr(addr), data)
			} else {
				e.d.EnqueueMemCopyD2H(e.qCopy, data, driver.Ptr(addr))
			}
			flushed, ok := e.pump(func() bool { return e.qCopy.NumCommand() == 0 })
			ops = append(ops, fmt.Sprintf("c %x %d", addr, l))
			if !ok {
				fail("C11.flush.copy-stuck", "copy did not complete although every request was answered")
				return
			}
			r.Checked("complete-after-data")
			if early != "" {
				fail("C11.copy.complete-before-data", early)
				return
			}
			if flushed {
				out = append(out, "F")
			} else {
				out = append(out, "-")
			}
			// oracle (the property's clause): a copy inside a buffer that existed when a kernel
			// was launched must be preceded by a flush
			r.Checked("flush")
			if launched && !flushed {
				for _, lb := range launchedBufs {
					if addr >= lb.addr && addr+l <= lb.addr+lb.size {
						fail("C11.flush.missing", fmt.Sprintf("copy (%x,%d) inside buffer %x launched-over earlier was sent without a cache flush", addr, l, lb.addr))
						break
					}
				}
			}
		}
	}
	r.Case(strings.Join(ops, " ; "), strings.Join(out, ""))
	r.Count("flush.scenario")
}

func runC11Flush(r *Run, rng *Rng, replay string) {
	n := 150
	if r.Tier == "thorough" {
		n = 4000
	}
	for i := 0; i < n; i++ {
		c11FlushScenario(r, rng)
	}
}

// c11EmuCompleteAfterData: the same rule on the direct-storage copy path (emulation platform's
// middleware): when a D2H command is dequeued the caller's buffer already holds the data.
func c11EmuCompleteAfterData(r *Run, rng *Rng) {
	p := newEmuPlatform(r.OutDir, 1, 12)
	defer p.close()
	ctx := p.drv.Init()
	buf := p.drv.AllocateMemory(ctx, 8192)
	src := make([]byte, 8192)
	for i := range src {
		src[i] = byte(i*7%255) + 1
	}
	if ok, _ := withTimeout(20e9, func() { p.drv.MemCopyH2D(ctx, buf, src) }); !ok {
		return
	}
	for k := 0; k < 12; k++ {
		l := rng.Pick(1, 64, 4096, 8192)
		dst := make([]byte, l)
		q := p.drv.CreateCommandQueue(ctx)
		early := ""
		driver.VerifYield = func(point string) {
			if point != "queue.dequeue" || q.NumCommand() == 0 {
				return
			}
			if c, ok := q.Peek().(*driver.MemCopyD2HCommand); ok {
				if d, ok := c.Dst.([]byte); ok && len(d) > 0 && d[0] == 0 {
					early = fmt.Sprintf("D2H copy of %d bytes is dequeued while the host buffer is still empty", len(d))
				}
			}
		}
		p.drv.EnqueueMemCopyD2H(q, dst, buf)
		ok, _ := withTimeout(20e9, func() { p.drv.DrainCommandQueue(q) })
		driver.VerifYield = nil
		r.Checked("complete-after-data.emu")
		if !ok {
			r.Failf("C11.copy.hang", "emu D2H", "drain did not return")
			return
		}
		if early != "" {
			r.Failf("C11.copy.complete-before-data.emu", fmt.Sprintf("emulation platform: MemCopyD2H of %d bytes", l), "%s", early)
			return
		}
	}
}

func init() {
	register("C11", func(r *Run, rng *Rng, _ string) { c11EmuCompleteAfterData(r, rng) })
}

// c11OwnerScenario: every DMA request of a copy goes to the GPU whose memory contains its physical
// address — also when two consecutive virtual pages sit on the LAST physical page of one GPU and the
// FIRST physical page of the next (physically adjacent, different owners).
func c11OwnerScenario(r *Run, rng *Rng) {
	ps := uint64(4096)
	pagesPerGPU := uint64(rng.Pick(3, 4, 6, 8))
	d := driver.MakeBuilder().WithEngine(&fakeEngine{}).WithPageTable(vm.NewPageTable(12)).WithLog2PageSize(12).Build("Driver")
	gpuPort := d.GetPortByName("GPU")
	(&fakeConn{name: "c"}).PlugIn(gpuPort)
	n := rng.Range(2, 3)
	names := []sim.RemotePort{}
	for i := 0; i < n; i++ {
		cp := sim.NewPort(nil, 64, 64, fmt.Sprintf("FakeGPU%d.ToDriver", i+1))
		d.RegisterGPU(cp, driver.DeviceProperties{CUCount: 4, DRAMSize: pagesPerGPU * ps})
		names = append(names, cp.AsRemote())
	}
	ctx := d.Init()
	q := d.CreateCommandQueue(ctx)
	k := rng.Range(1, n-1) // boundary between GPU k and GPU k+1
	desc := fmt.Sprintf("%d GPUs x %d pages; buffer page 0 on the last page of GPU %d, page 1 on the first page of GPU %d", n, pagesPerGPU, k, k+1)
	var want, got [][2]uint64
	fault := catch(func() {
		d.SelectGPU(ctx, k)
		if pagesPerGPU > 3 {
			d.AllocateMemory(ctx, (pagesPerGPU-3)*ps) // GPU k keeps exactly three free pages
		}
		buf := d.AllocateMemory(ctx, 2*ps) // the next two pages of GPU k; its last page stays free
		d.Remap(ctx, uint64(buf), ps, k)     // page 0 moves to GPU k's last page
		d.Remap(ctx, uint64(buf)+ps, ps, k+1) // page 1 moves to GPU k+1's first page
		pt := d.VerifPageTable()
		pg0, _ := pt.Find(ctx.VerifPID(), uint64(buf))
		pg1, _ := pt.Find(ctx.VerifPID(), uint64(buf)+ps)
		if pg1.PAddr == pg0.PAddr+ps && d.VerifDeviceIDByPAddr(pg0.PAddr) != d.VerifDeviceIDByPAddr(pg1.PAddr) {
			r.Count("owner.adjacent-pages-on-two-gpus")
		} else {
			r.Count("owner.other-layout")
		}
		off := uint64(rng.Pick(0, 0, 64, 4000, 4095, 1))
		l := uint64(rng.Pick(int(2*ps-off), int(2*ps-off), int(ps), int(ps-off)+1, 200))
		if off+l > 2*ps {
			l = 2*ps - off
		}
		// what the copy has to touch: per page, the bytes of [buf+off, buf+off+l) at that page's frame
		for va := uint64(buf) + off; va < uint64(buf)+off+l; {
			pg, _ := pt.Find(ctx.VerifPID(), va)
			n := pg.VAddr + ps - va
			if rest := uint64(buf) + off + l - va; n > rest {
				n = rest
			}
			want = append(want, [2]uint64{pg.PAddr + (va - pg.VAddr), n})
			va += n
		}
		if rng.Bool() {
			d.EnqueueMemCopyH2D(q, driver.Ptr(uint64(buf)+off), make([]byte, l))
		} else {
			d.EnqueueMemCopyD2H(q, make([]byte, l), driver.Ptr(uint64(buf)+off))
		}
		for i := 0; i < 400 && q.NumCommand() > 0; i++ {
			d.Tick()
			for {
				m := gpuPort.RetrieveOutgoing()
				if m == nil {
					break
				}
				var addr uint64
				switch c := m.(type) {
				case *protocol.MemCopyH2DReq:
					addr = c.DstAddress
				case *protocol.MemCopyD2HReq:
					addr = c.SrcAddress
				default:
					continue
				}
				var ln uint64
				switch c := m.(type) {
				case *protocol.MemCopyH2DReq:
					ln = uint64(len(c.SrcBuffer))
				case *protocol.MemCopyD2HReq:
					ln = uint64(len(c.DstBuffer))
				}
				got = append(got, [2]uint64{addr, ln})
				owner := d.VerifDeviceIDByPAddr(addr)
				r.Checked("dma-owner")
				r.Count(fmt.Sprintf("owner.req.gpu%d", owner))
				if owner < 1 || owner > n || m.Meta().Dst != names[owner-1] {
					r.Failf("C11.copy.sent-to-wrong-gpu", desc, "copy request for physical address %x (owned by GPU %d) was sent to %s", addr, owner, m.Meta().Dst)
				}
				rsp := sim.GeneralRspBuilder{}.WithSrc(m.Meta().Dst).WithDst(gpuPort.AsRemote()).WithOriginalReq(m).Build()
				for gpuPort.Deliver(rsp) != nil {
					d.Tick()
				}
			}
		}
		if q.NumCommand() > 0 {
			r.Failf("C11.copy.owner-scenario-stuck", desc, "copy did not complete")
		}
		// the requests are exactly the per-page pieces of the range: none runs over the end of its
		// page into the physically next frame (which belongs to another page, here another GPU)
		r.Checked("dma-pieces")
		if fmt.Sprint(got) != fmt.Sprint(want) {
			r.Failf("C11.copy.pieces", desc, "copy of %d bytes at offset %d: requests (physical address, length) %x, the page table gives %x", l, off, got, want)
		}
	})
	if fault != "" {
		r.Note("c11 owner scenario skipped: %s", fault)
		return
	}
	r.Count("owner.scenario")
}

func init() {
	register("C11", func(r *Run, rng *Rng, _ string) {
		n := 40
		if r.Tier == "thorough" {
			n = 600
		}
		for i := 0; i < n; i++ {
			c11OwnerScenario(r, rng)
		}
	})
}
