package main

// C01, part 1: correspondence of the driver's kernel-argument marshalling with the Lean model
// (lean/MgpuModel/C01.lean). The REAL Driver.EnqueueLaunchKernel is called on an emulation-platform
// driver (never started, so nothing executes) with an argument struct whose TYPE is generated with
// reflect.StructOf; the commands it left in the queue are inspected: the kernarg byte image is
// produced with the same binary.Write(…, LittleEndian, cmd.Src) the driver's copy path performs, the
// packet is the one attached to the LaunchKernelCommand.

import (
	"bytes"
	"encoding/binary"
	"fmt"
	"math"
	"path/filepath"
	"reflect"
	"strings"

	"github.com/sarchlab/akita/v4/simulation"
	"github.com/sarchlab/mgpusim/v4/amd/driver"
	"github.com/sarchlab/mgpusim/v4/amd/insts"
	"github.com/sarchlab/mgpusim/v4/amd/samples/runner/emusystem"
)

func init() { register("C01", runC01Kernarg) }

type kaField struct {
	local bool
	size  uint32 // LocalPtr: requested size
	raw   []byte // plain: little-endian image the harness chose
	kind  string
}

var kaNested = reflect.StructOf([]reflect.StructField{
	{Name: "Inner", Type: reflect.TypeOf(driver.LocalPtr(0))},
	{Name: "Other", Type: reflect.TypeOf(uint32(0))},
})

// kaType maps a plain kind to its Go type.
func kaType(kind string, n int) reflect.Type {
	switch kind {
	case "u8":
		return reflect.TypeOf(uint8(0))
	case "u16":
		return reflect.TypeOf(uint16(0))
	case "u32":
		return reflect.TypeOf(uint32(0))
	case "i32":
		return reflect.TypeOf(int32(0))
	case "u64":
		return reflect.TypeOf(uint64(0))
	case "i64":
		return reflect.TypeOf(int64(0))
	case "f32":
		return reflect.TypeOf(float32(0))
	case "f64":
		return reflect.TypeOf(float64(0))
	case "ptr":
		return reflect.TypeOf(driver.Ptr(0))
	case "nested":
		return kaNested
	default: // "bytes"
		return reflect.ArrayOf(n, reflect.TypeOf(uint8(0)))
	}
}

func kaWidth(kind string, n int) int {
	switch kind {
	case "u8":
		return 1
	case "u16":
		return 2
	case "u32", "i32", "f32":
		return 4
	case "u64", "i64", "f64", "ptr", "nested":
		return 8
	}
	return n
}

// kaSet stores the little-endian image raw into the field, computed by the harness itself
// (independent of encoding/binary's writer).
func kaSet(v reflect.Value, kind string, raw []byte) {
	u := uint64(0)
	for i := len(raw) - 1; i >= 0; i-- {
		if len(raw) <= 8 {
			u = u<<8 | uint64(raw[i])
		}
	}
	switch kind {
	case "u8", "u16", "u32", "u64", "ptr":
		v.SetUint(u)
	case "i32":
		v.SetInt(int64(int32(uint32(u))))
	case "i64":
		v.SetInt(int64(u))
	case "f32":
		v.SetFloat(float64(math.Float32frombits(uint32(u))))
	case "f64":
		v.SetFloat(math.Float64frombits(u))
	case "nested":
		v.Field(0).SetUint(u & 0xffffffff)
		v.Field(1).SetUint(u >> 32)
	default:
		for i := range raw {
			v.Index(i).SetUint(uint64(raw[i]))
		}
	}
}

func kaGenFields(rng *Rng, overflow bool) []kaField {
	n := rng.Pick(0, 1, 2, 3, 4, 5, 6, 8, 12, 20)
	kinds := []string{"u8", "u16", "u32", "u32", "i32", "u64", "i64", "f32", "f64", "ptr", "ptr", "bytes", "nested"}
	var fs []kaField
	for i := 0; i < n; i++ {
		if rng.Chance(35) {
			var sz uint32
			switch {
			case overflow && rng.Chance(50):
				sz = uint32(rng.U64()) // anything, wraps
			case rng.Chance(20):
				sz = 0
			case rng.Chance(50):
				sz = uint32(rng.Pick(4, 64, 256, 1024, 4096, 16384, 65536))
			default:
				sz = uint32(rng.Intn(70000))
			}
			fs = append(fs, kaField{local: true, size: sz, kind: "L"})
			continue
		}
		k := kinds[rng.Intn(len(kinds))]
		w := kaWidth(k, rng.Range(1, 24))
		raw := rng.Bytes(w)
		if k == "f32" && raw[3]&0x7f == 0x7f && raw[2]&0x80 != 0 || k == "f64" && raw[7]&0x7f == 0x7f && raw[6]&0xf0 == 0xf0 {
			raw[len(raw)-1] = 0x40 // keep NaNs out: float32→float64→float32 through reflect may quiet a signalling NaN
		}
		fs = append(fs, kaField{kind: k, raw: raw})
	}
	return fs
}

func runC01Kernarg(r *Run, rng *Rng, replay string) {
	n := 1500
	if r.Tier == "thorough" {
		n = 20000
	}
	s := simulation.MakeBuilder().WithoutMonitoring().
		WithOutputFileName(filepath.Join(r.OutDir, "akita_c01_kernarg")).Build()
	emusystem.MakeBuilder().WithSimulation(s).WithNumGPUs(1).Build()
	drv := s.GetComponentByName("Driver").(*driver.Driver)
	// the driver is deliberately not started: EnqueueLaunchKernel only allocates and enqueues
	ctx := drv.Init()

	for c := 0; c < n; c++ {
		if c%200 == 0 {
			ctx = drv.Init() // fresh context: its buffer list stays short
		}
		overflow := rng.Chance(10)
		fields := kaGenFields(rng, overflow)
		static := uint32(rng.Pick(0, 0, 64, 256, 1024, 4096, 32768))
		if overflow && rng.Chance(30) {
			static = uint32(rng.U64())
		}
		grid := [3]uint32{uint32(rng.Pick(1, 64, 100, 1024, 65536, 1<<31)), uint32(rng.Pick(1, 1, 3, 256)), uint32(rng.Pick(1, 1, 2))}
		wg := [3]uint16{uint16(rng.Pick(1, 16, 64, 256, 1024)), uint16(rng.Pick(1, 1, 4, 16)), uint16(rng.Pick(1, 1, 2))}

		// argument struct type + value
		var sf []reflect.StructField
		var desc []string
		imgLen := 0
		for i, f := range fields {
			t := reflect.TypeOf(driver.LocalPtr(0))
			if f.local {
				desc = append(desc, fmt.Sprintf("L:%d", f.size))
				imgLen += 4
			} else {
				t = kaType(f.kind, len(f.raw))
				desc = append(desc, "P:"+hexb(f.raw))
				imgLen += len(f.raw)
			}
			sf = append(sf, reflect.StructField{Name: fmt.Sprintf("F%d", i), Type: t})
		}
		args := reflect.New(reflect.StructOf(sf))
		for i, f := range fields {
			if f.local {
				args.Elem().Field(i).SetUint(uint64(f.size))
			} else {
				kaSet(args.Elem().Field(i), f.kind, f.raw)
			}
		}
		kaSize := uint64(imgLen)
		if kaSize == 0 {
			kaSize = 8
		}
		co := &insts.KernelCodeObject{KernelCodeObjectMeta: &insts.KernelCodeObjectMeta{
			GroupSegmentByteSize: static, KernargSegmentByteSize: kaSize}, Data: make([]byte, 16)}

		q := drv.CreateCommandQueue(ctx)
		var cmds []driver.Command
		fault := catch(func() {
			drv.EnqueueLaunchKernel(q, co, grid, wg, args.Interface())
			cmds = q.VerifCommands()
		})
		fd := strings.Join(desc, "/")
		if fd == "" {
			fd = "-"
		}
		r.Count(fmt.Sprintf("kernarg.fields:%d", len(fields)))
		if overflow {
			r.Count("kernarg.overflow")
		}
		if fault != "" {
			r.Case(fmt.Sprintf("c01 kernarg static=%d grid=%d,%d,%d wg=%d,%d,%d co=0 ka=0 fields=%s", static, grid[0], grid[1], grid[2], wg[0], wg[1], wg[2], fd), "fault:"+fault)
			r.Failf("C01.kernarg.crash", fd, "EnqueueLaunchKernel panicked: %s", fault)
			continue
		}
		// expected queue content: H2D code object (first use of co), H2D kernarg, H2D packet, launch
		var launch *driver.LaunchKernelCommand
		var h2d []*driver.MemCopyH2DCommand
		for _, cm := range cmds {
			switch v := cm.(type) {
			case *driver.LaunchKernelCommand:
				launch = v
			case *driver.MemCopyH2DCommand:
				h2d = append(h2d, v)
			}
		}
		r.Checked("kernarg.queue_shape")
		if launch == nil || len(h2d) != 3 || len(cmds) != 4 || cmds[3] != driver.Command(launch) {
			r.Failf("C01.kernarg.queue_shape", fd, "queue holds %d commands (%d H2D), launch last=%v", len(cmds), len(h2d), launch != nil)
			continue
		}
		pkt := launch.Packet
		var img bytes.Buffer
		if err := binary.Write(&img, binary.LittleEndian, h2d[1].Src); err != nil {
			r.Failf("C01.kernarg.serialise", fd, "binary.Write: %v", err)
			continue
		}
		line := fmt.Sprintf("c01 kernarg static=%d grid=%d,%d,%d wg=%d,%d,%d co=%d ka=%d fields=%s",
			static, grid[0], grid[1], grid[2], wg[0], wg[1], wg[2], uint64(h2d[0].Dst), uint64(h2d[1].Dst), fd)
		r.Case(line, fmt.Sprintf("gss=%d grid=%d,%d,%d wg=%d,%d,%d co=%d ka=%d img=%s", pkt.GroupSegmentSize,
			pkt.GridSizeX, pkt.GridSizeY, pkt.GridSizeZ, pkt.WorkgroupSizeX, pkt.WorkgroupSizeY, pkt.WorkgroupSizeZ,
			pkt.KernelObject, pkt.KernargAddress, hexb(img.Bytes())))

		// implementation-side oracles (independent of the model)
		// (a) plain fields byte-exact at their packed offsets, LocalPtr fields = running offset
		r.Checked("kernarg.layout")
		b := img.Bytes()
		off, lds := 0, static
		okLayout := len(b) == imgLen
		for _, f := range fields {
			if !okLayout {
				break
			}
			if f.local {
				if binary.LittleEndian.Uint32(b[off:]) != lds {
					okLayout = false
				}
				lds += f.size
				off += 4
			} else {
				if !bytes.Equal(b[off:off+len(f.raw)], f.raw) {
					okLayout = false
				}
				off += len(f.raw)
			}
		}
		if !okLayout {
			r.Failf("C01.kernarg.layout", line, "kernarg image %s does not have plain fields verbatim and LocalPtr fields at the running LDS offset", hexb(b))
		}
		r.Checked("kernarg.group_segment")
		if pkt.GroupSegmentSize != lds {
			r.Failf("C01.kernarg.group_segment", line, "GroupSegmentSize=%d, expected static+Σdynamic=%d", pkt.GroupSegmentSize, lds)
		}
		r.Checked("kernarg.packet")
		if pkt.GridSizeX != grid[0] || pkt.GridSizeY != grid[1] || pkt.GridSizeZ != grid[2] ||
			pkt.WorkgroupSizeX != wg[0] || pkt.WorkgroupSizeY != wg[1] || pkt.WorkgroupSizeZ != wg[2] ||
			pkt.KernelObject != uint64(h2d[0].Dst) || pkt.KernargAddress != uint64(h2d[1].Dst) || h2d[2].Src != interface{}(pkt) {
			r.Failf("C01.kernarg.packet", line, "packet %+v does not carry the request", *pkt)
		}
		// (b) the caller's struct is not modified (prepareLocalMemory works on a copy)
		r.Checked("kernarg.caller_untouched")
		for i, f := range fields {
			if f.local && uint32(args.Elem().Field(i).Uint()) != f.size {
				r.Failf("C01.kernarg.caller_untouched", line, "field %d of the caller's struct changed from %d to %d", i, f.size, args.Elem().Field(i).Uint())
				break
			}
		}
	}
}
