package main

// C16 — address translation forwards every access faithfully, exactly once.
//
// The real addresstranslator.Comp is built with its builder; its four ports get a
// no-op connection. A fake translation service (a real vm.PageTable: several PIDs map
// the same virtual pages to different physical pages) and a fake memory live here.
// One case line = one scenario `c16 w=.. lg=.. salt=.. ; op ; op ; …`; the canonical
// trace (port events observed through Akita port hooks, in program order, plus the
// translator's bookkeeping after every tick) is compared with the Lean model, and the
// property itself is checked on the observed port traffic.

import (
	"fmt"
	"os"
	"strconv"
	"strings"

	"github.com/sarchlab/akita/v4/mem/mem"
	"github.com/sarchlab/akita/v4/mem/vm"
	"github.com/sarchlab/akita/v4/sim"
	"github.com/sarchlab/mgpusim/v4/amd/timing/mem/addresstranslator"
)

func init() { register("C16", runC16) }

type c16Acc struct {
	idx       int
	pid       vm.PID
	vaddr     uint64
	write     bool
	size      uint64
	data      []byte
	mask      []bool
	cwc       bool // CanWaitForCoalesce
	msg       mem.AccessReq
	delivered bool
	accepted  bool
	discarded bool // taken from the top port by restart
	epoch     int
	fwd       int
	ans       int
	bid       string // ID of the forwarded request
}

type c16Env struct {
	r       *Run
	line    string
	lg      uint64
	w       int
	salt    uint64
	comp    *addresstranslator.Comp
	top     sim.Port
	bot     sim.Port
	tr      sim.Port
	ctl     sim.Port
	pt      vm.PageTable
	accs    []*c16Acc
	accByID map[string]*c16Acc
	tidNum  map[string]int
	bidNum  map[string]int
	envT    []*vm.TranslationReq
	oldT    []*vm.TranslationReq
	envM    []mem.AccessReq
	oldM    []mem.AccessReq
	ev      []string
	out     []string
	naccess int
	// oracle state
	epoch      int
	afterK     bool
	ctlPending []string
	lastQ      *vm.TranslationReq
	memRsp     map[string][]byte // bottom req ID -> data delivered by memory (nil for write done)
	memRspSeen map[string]bool
	translated map[string]bool // "pid/vpage" replies delivered
	bidOwner   map[string]*c16Acc
	nRecv      int
	nFwd       int
	nAns       int
	badRestart bool
	ctlDeliv   []string
	fault      string
	// deepening 2 (c16_deep2.go)
	pageFlags bool              // pf=1: translation replies carry scrambled page attributes
	lied      map[string]uint64 // "pid/vpage" -> physical page an untruthful reply (`xl`) carried
	prevDone  map[string][]string // completed transactions at the end of the previous tick
	nAck      int                 // acknowledgements sent through the control port
	nCtlTaken int                 // commands taken from the control port
	routed    bool                // the component was built with c16PageMapper providers
}

type c16Hook struct {
	e    *c16Env
	kind string
}

func (h *c16Hook) Func(ctx sim.HookCtx) {
	e := h.e
	switch ctx.Pos {
	case sim.HookPosPortMsgSend:
		switch h.kind {
		case "top":
			e.onTopSend(ctx.Item.(sim.Msg))
		case "bot":
			e.onBotSend(ctx.Item.(sim.Msg))
		case "tr":
			q := ctx.Item.(*vm.TranslationReq)
			n := len(e.tidNum)
			e.tidNum[q.ID] = n
			e.ev = append(e.ev, fmt.Sprintf("Q%d:%d:%x", n, q.PID, q.VAddr))
			if e.routed {
				if want := (c16PageMapper{"MMU", e.lg}).Find(q.VAddr); q.Dst != want || q.Src != e.tr.AsRemote() || q.DeviceID != 1 {
					e.r.Failf("C16.lookup.route", e.line, "lookup %d (vaddr %x): src %s dst %s device %d, translation provider is %s", n, q.VAddr, q.Src, q.Dst, q.DeviceID, want)
				}
			}
			if e.lastQ != nil {
				e.r.Failf("C16.lookup.orphan", e.line, "translation request %d sent without accepting an access", e.tidNum[e.lastQ.ID])
			}
			e.lastQ = q
		case "ctl":
			e.ev = append(e.ev, "K")
			e.afterK = true
			e.nAck++
			if cm, ok := ctx.Item.(*mem.ControlMsg); !ok || !cm.NotifyDone || cm.DiscardTransations || cm.Restart || cm.Dst != "Ctl" {
				e.r.Failf("C16.ctl.ack-malformed", e.line, "acknowledgement #%d is not a NotifyDone message to the controller", e.nAck)
			}
			if len(e.ctlPending) > 0 && e.ctlPending[0] == "f" {
				e.epoch++
			}
		}
	case sim.HookPosPortMsgRetrieveIncoming:
		switch h.kind {
		case "top":
			e.onTopRetrieve(ctx.Item.(sim.Msg))
		case "bot":
			id := ""
			if rsp, ok := ctx.Item.(mem.AccessRsp); ok {
				id = rsp.GetRspTo()
			}
			e.ev = append(e.ev, "Y"+numOf(e.bidNum, id))
		case "tr":
			rsp := ctx.Item.(*vm.TranslationRsp)
			e.ev = append(e.ev, "X"+numOf(e.tidNum, rsp.RespondTo))
		case "ctl":
			e.ev = append(e.ev, "C")
			e.nCtlTaken++
			e.r.Checked("ctl")
			if e.nAck != e.nCtlTaken {
				e.r.Failf("C16.ctl.ack-count", e.line, "command #%d taken with %d acknowledgements sent so far", e.nCtlTaken, e.nAck)
			}
			if len(e.ctlPending) > 0 && e.ctlPending[0] == "s" &&
				(e.top.PeekIncoming() != nil || e.bot.PeekIncoming() != nil || e.tr.PeekIncoming() != nil) {
				e.r.Failf("C16.ctl.restart-leftover", e.line, "restart #%d taken with a message left in an incoming buffer", e.nCtlTaken)
			}
			if len(e.ctlPending) > 0 {
				e.ctlPending = e.ctlPending[1:]
			}
		}
	}
}

func numOf(m map[string]int, id string) string {
	if v, ok := m[id]; ok {
		return strconv.Itoa(v)
	}
	return "?"
}

func (e *c16Env) pageOf(a uint64) uint64 { return (a >> e.lg) << e.lg }

func (e *c16Env) onTopRetrieve(m sim.Msg) {
	a := e.accByID[m.Meta().ID]
	if a == nil {
		e.ev = append(e.ev, "A?")
		return
	}
	e.ev = append(e.ev, fmt.Sprintf("A%d", a.idx))
	if e.afterK {
		a.discarded = true
		return
	}
	e.r.Checked("accept")
	if a.accepted {
		e.r.Failf("C16.accept.twice", e.line, "access %d taken from the top port twice", a.idx)
	}
	a.accepted = true
	a.epoch = e.epoch
	e.nRecv++
	if q := e.lastQ; q != nil {
		e.lastQ = nil
		e.r.Checked("lookup")
		if q.PID != a.pid || q.VAddr != e.pageOf(a.vaddr) {
			e.r.Failf("C16.lookup.wrong", e.line, "access %d (pid %d, page %x) caused lookup (pid %d, vaddr %x)",
				a.idx, a.pid, e.pageOf(a.vaddr), q.PID, q.VAddr)
		}
	}
}

func c16PlSig(write bool, size uint64, data []byte, mask []bool) string {
	if !write {
		return fmt.Sprintf("r%d", size)
	}
	ms := "-"
	if len(mask) > 0 {
		b := make([]byte, len(mask))
		for i, x := range mask {
			b[i] = '0'
			if x {
				b[i] = '1'
			}
		}
		ms = string(b)
	}
	return "w" + hexb(data) + "/" + ms
}

func c16Cwc(b bool) string {
	if b {
		return "c"
	}
	return ""
}

func (e *c16Env) onBotSend(m sim.Msg) {
	n := len(e.bidNum)
	e.bidNum[m.Meta().ID] = n
	var (
		addr  uint64
		sig   string
		info  interface{}
		write bool
	)
	var fpid vm.PID
	switch r := m.(type) {
	case *mem.ReadReq:
		addr, info, fpid = r.Address, r.Info, r.PID
		sig = c16PlSig(false, r.AccessByteSize, nil, nil) + c16Cwc(r.CanWaitForCoalesce)
	case *mem.WriteReq:
		addr, info, write, fpid = r.Address, r.Info, true, r.PID
		sig = c16PlSig(true, 0, r.Data, r.DirtyMask) + c16Cwc(r.CanWaitForCoalesce)
	default:
		sig = "?"
	}
	idx, ok := info.(int)
	is := "?"
	if ok {
		is = strconv.Itoa(idx)
	}
	e.ev = append(e.ev, fmt.Sprintf("F%d:%s:%x:%s", n, is, addr, sig))
	e.nFwd++
	// ---- oracle: forwarded exactly once, faithfully
	e.r.Checked("forward")
	if !ok || idx < 0 || idx >= len(e.accs) || e.accs[idx] == nil {
		e.r.Failf("C16.forward.unattributed", e.line, "forwarded request %d (addr %x) carries no known access tag", n, addr)
		return
	}
	a := e.accs[idx]
	e.bidOwner[m.Meta().ID] = a
	a.fwd++
	a.bid = m.Meta().ID
	if !a.accepted || a.discarded {
		e.r.Failf("C16.forward.unaccepted", e.line, "access %d forwarded but never accepted", idx)
	}
	if a.fwd > 1 {
		e.r.Failf("C16.forward.twice", e.line, "access %d forwarded %d times", idx, a.fwd)
	}
	if a.epoch != e.epoch {
		e.r.Failf("C16.flush.forward-after", e.line, "access %d accepted before flush #%d forwarded after it", idx, a.epoch+1)
	}
	if a.vaddr%(1<<e.lg)+uint64(max(int(a.size), len(a.data))) > 1<<e.lg {
		e.r.Count("forward.page-straddling")
	}
	if e.routed {
		e.r.Checked("route")
		if want := (c16PageMapper{"Mem", e.lg}).Find(addr); m.Meta().Dst != want || m.Meta().Src != e.bot.AsRemote() {
			e.r.Failf("C16.forward.route", e.line, "access %d forwarded to %x: src %s dst %s, memory provider for that address is %s", idx, addr, m.Meta().Src, m.Meta().Dst, want)
		}
	}
	if fpid != 0 {
		e.r.Failf("C16.forward.pid", e.line, "access %d: forwarded request carries PID %d, physical requests carry PID 0", idx, fpid)
	}
	page, found := e.pt.Find(a.pid, a.vaddr)
	want := page.PAddr + a.vaddr%(1<<e.lg)
	if _, lied := e.lied[fmt.Sprintf("%d/%x", a.pid, e.pageOf(a.vaddr))]; lied {
		e.r.Count("forward.after-untruthful-reply")
	} else if !found || addr != want {
		other := ""
		for pid := vm.PID(0); pid < 8; pid++ {
			if p2, ok2 := e.pt.Find(pid, a.vaddr); ok2 && pid != a.pid && p2.PAddr+a.vaddr%(1<<e.lg) == addr {
				other = fmt.Sprintf(" (= translation of PID %d)", pid)
			}
		}
		e.r.Failf("C16.forward.addr", e.line, "access %d pid %d vaddr %x: forwarded to %x, expected %x%s", idx, a.pid, a.vaddr, addr, want, other)
	}
	if osig := c16PlSig(a.write, a.size, a.data, a.mask) + c16Cwc(a.cwc); write != a.write || sig != osig {
		e.r.Failf("C16.forward.payload", e.line, "access %d: forwarded %s, original %s", idx, sig, osig)
	}
	if !e.translated[fmt.Sprintf("%d/%x", a.pid, e.pageOf(a.vaddr))] {
		e.r.Failf("C16.forward.untranslated", e.line, "access %d forwarded before any reply for (pid %d, page %x) was delivered", idx, a.pid, e.pageOf(a.vaddr))
	}
}

func (e *c16Env) onTopSend(m sim.Msg) {
	var (
		rspTo string
		ds    string
		data  []byte
		read  bool
	)
	switch r := m.(type) {
	case *mem.DataReadyRsp:
		rspTo, data, read = r.RespondTo, r.Data, true
		ds = "d" + hexb(r.Data)
	case *mem.WriteDoneRsp:
		rspTo = r.RespondTo
		ds = "w"
	default:
		ds = "?"
	}
	a := e.accByID[rspTo]
	is := "?"
	if a != nil {
		is = strconv.Itoa(a.idx)
	}
	e.ev = append(e.ev, fmt.Sprintf("R%s:%s", is, ds))
	e.nAns++
	// ---- oracle: one response per memory response, to the original requester
	e.r.Checked("respond")
	if a == nil {
		e.r.Failf("C16.respond.unknown", e.line, "response to unknown request id")
		return
	}
	a.ans++
	if a.ans > 1 {
		e.r.Failf("C16.respond.twice", e.line, "access %d answered %d times", a.idx, a.ans)
	}
	if a.fwd == 0 {
		e.r.Failf("C16.respond.unforwarded", e.line, "access %d answered without having been forwarded", a.idx)
	}
	if a.epoch != e.epoch {
		e.r.Failf("C16.flush.answer-after", e.line, "access %d accepted before flush #%d answered after it", a.idx, a.epoch+1)
	}
	if m.Meta().Dst != a.msg.Meta().Src {
		e.r.Failf("C16.respond.dst", e.line, "access %d answered to %s, requester is %s", a.idx, m.Meta().Dst, a.msg.Meta().Src)
	}
	if read == a.write {
		e.r.Failf("C16.respond.kind", e.line, "access %d (write=%v) answered with %s", a.idx, a.write, ds)
	}
	if !e.memRspSeen[a.bid] {
		e.r.Failf("C16.respond.early", e.line, "access %d answered before memory answered its forwarded request", a.idx)
	} else if read && hexb(data) != hexb(e.memRsp[a.bid]) {
		e.r.Failf("C16.respond.data", e.line, "access %d: returned %s, memory returned %s", a.idx, hexb(data), hexb(e.memRsp[a.bid]))
	}
}

// c16PageMapper routes by the parity of the page number: requests to even / odd pages go to
// different providers (second deepening: the destination of every forwarded request must be the
// memory mapper's choice for the *translated* address, that of every lookup the translation
// mapper's choice for the *virtual* address).
type c16PageMapper struct {
	prefix string
	lg     uint64
}

func (m c16PageMapper) Find(a uint64) sim.RemotePort {
	if m.lg >= 64 {
		return sim.RemotePort(m.prefix + "0")
	}
	return sim.RemotePort(fmt.Sprintf("%s%d", m.prefix, (a>>m.lg)&1))
}

func c16MemByte(a uint64) byte { return byte((a*13 + 5) % 256) }

func newC16Env(r *Run, line string, w int, lg, salt uint64) *c16Env {
	e := &c16Env{r: r, line: line, lg: lg, w: w, salt: salt,
		accByID: map[string]*c16Acc{}, tidNum: map[string]int{}, bidNum: map[string]int{},
		memRsp: map[string][]byte{}, memRspSeen: map[string]bool{}, translated: map[string]bool{},
		bidOwner: map[string]*c16Acc{}}
	eng := &fakeEngine{}
	e.comp = addresstranslator.MakeBuilder().
		WithEngine(eng).
		WithFreq(1 * sim.GHz).
		WithNumReqPerCycle(w).
		WithLog2PageSize(lg).
		WithDeviceID(1).
		WithMemoryProviderMapper(c16PageMapper{"Mem", lg}).
		WithTranslationProviderMapper(c16PageMapper{"MMU", lg}).
		Build("AT")
	e.routed = true
	e.top, e.bot, e.tr, e.ctl = e.comp.VerifC16Ports()
	conn := &fakeConn{name: "c16"}
	for k, p := range map[string]sim.Port{"top": e.top, "bot": e.bot, "tr": e.tr, "ctl": e.ctl} {
		p.SetConnection(conn)
		p.AcceptHook(&c16Hook{e: e, kind: k})
	}
	e.pt = vm.NewPageTable(lg)
	pids := []uint64{0, 1, 2, 3, 4, 5, 6, 7}
	for k := uint64(1); k <= 3; k++ {
		pids = append(pids, (1<<lg)+k) // process IDs as large as a page: bits overlap the page number
	}
	for _, pid := range pids {
		for vpn := uint64(0); vpn < 8; vpn++ {
			e.pt.Insert(vm.Page{PID: vm.PID(pid), VAddr: vpn << lg, PAddr: (salt + vpn*8 + pid) << lg,
				PageSize: 1 << lg, Valid: true, DeviceID: 1})
		}
	}
	return e
}

// coalesceOracle (second deepening), evaluated on the real bookkeeping after every tick:
// the transactions still waiting for their translation have pairwise distinct (PID, page)
// (at_coalesce_complete); all accesses waiting in one transaction have one PID and one page
// (at_coalesced_same_page); a completed transaction's waiting list only shrinks from the front
// (at_done_tx_closed).
func (e *c16Env) coalesceOracle(txs []addresstranslator.VerifC16Tx) {
	e.r.Checked("coalesce")
	seen := map[string]string{}
	nowDone := map[string][]string{}
	for _, t := range txs {
		key := ""
		for i, id := range t.Waiting {
			a := e.accByID[id]
			if a == nil {
				continue
			}
			k := fmt.Sprintf("%d/%x", a.pid, e.pageOf(a.vaddr))
			if i == 0 {
				key = k
			} else if k != key {
				e.r.Failf("C16.coalesce.mixed", e.line, "transaction %s holds accesses of %s and %s", numOf(e.tidNum, t.TranslationReqID), key, k)
			}
		}
		if !t.Done && key != "" {
			if o, dup := seen[key]; dup {
				e.r.Failf("C16.coalesce.duplicate-lookup", e.line, "lookups %s and %s both outstanding for (pid/page) %s", o, numOf(e.tidNum, t.TranslationReqID), key)
			}
			seen[key] = numOf(e.tidNum, t.TranslationReqID)
		}
		if t.Done {
			nowDone[t.TranslationReqID] = t.Waiting
			if old, was := e.prevDone[t.TranslationReqID]; was {
				ok := len(t.Waiting) <= len(old)
				for i := 0; ok && i < len(t.Waiting); i++ {
					ok = t.Waiting[len(t.Waiting)-1-i] == old[len(old)-1-i]
				}
				if !ok {
					e.r.Failf("C16.coalesce.into-done", e.line, "completed transaction %s: waiting list %d -> %d entries, not a suffix", numOf(e.tidNum, t.TranslationReqID), len(old), len(t.Waiting))
				}
			}
		}
	}
	e.prevDone = nowDone
}

func (e *c16Env) stateSig() string {
	fl, txs, infl := e.comp.VerifC16State()
	e.coalesceOracle(txs)
	ts := []string{}
	for _, t := range txs {
		d := 0
		if t.Done {
			d = 1
		}
		ts = append(ts, fmt.Sprintf("%s:%d:%d", numOf(e.tidNum, t.TranslationReqID), d, len(t.Waiting)))
		if t.Done {
			e.r.Count("tick-end.done-tx-pending")
			if h := e.tr.PeekIncoming(); h != nil && h.(*vm.TranslationRsp).RespondTo == t.TranslationReqID {
				e.r.Count("tick-end.reply-held-while-bottom-full")
			}
		}
		if len(t.Waiting) > 1 {
			e.r.Count("tick-end.coalesced-tx")
		}
	}
	is := []string{}
	for _, b := range infl {
		is = append(is, numOf(e.bidNum, b))
	}
	f := "f0"
	if fl {
		f = "f1"
	}
	return "{" + f + ";" + strings.Join(ts, ",") + ";" + strings.Join(is, ",") + "}"
}

func (e *c16Env) drain(p sim.Port, k int, sink func(sim.Msg)) string {
	n := 0
	for i := 0; i < k; i++ {
		m := p.RetrieveOutgoing()
		if m == nil {
			break
		}
		n++
		if sink != nil {
			sink(m)
		}
	}
	return fmt.Sprintf("d%d", n)
}

func (e *c16Env) answerT(q *vm.TranslationReq) bool {
	page, _ := e.pt.Find(q.PID, q.VAddr)
	if e.pageFlags {
		// every attribute of the page but PAddr is scrambled: the translator must not look at them
		n := uint64(e.tidNum[q.ID])
		page.Valid, page.IsMigrating, page.IsPinned, page.Unified = n%2 == 0, n%3 == 0, n%5 == 1, n%2 == 1
		page.DeviceID, page.PageSize = n%4, 1<<((n%3)+4)
		page.VAddr += (n + 1) << e.lg
		page.PID += vm.PID(n + 1)
		e.r.Count("reply.scrambled-page-attributes")
	}
	rsp := vm.TranslationRspBuilder{}.WithSrc("MMU").WithDst(q.Src).WithRspTo(q.ID).WithPage(page).Build()
	if err := e.tr.Deliver(rsp); err != nil {
		return false
	}
	e.translated[fmt.Sprintf("%d/%x", q.PID, q.VAddr)] = true
	return true
}

func (e *c16Env) answerM(m mem.AccessReq) bool {
	var rsp sim.Msg
	var data []byte
	switch r := m.(type) {
	case *mem.WriteReq:
		rsp = mem.WriteDoneRspBuilder{}.WithSrc("Mem").WithDst(r.Src).WithRspTo(r.ID).Build()
	case *mem.ReadReq:
		data = make([]byte, r.AccessByteSize)
		for i := range data {
			data[i] = c16MemByte(r.Address + uint64(i))
		}
		rsp = mem.DataReadyRspBuilder{}.WithSrc("Mem").WithDst(r.Src).WithRspTo(r.ID).WithData(data).Build()
	}
	if err := e.bot.Deliver(rsp); err != nil {
		return false
	}
	e.memRsp[m.Meta().ID] = data
	e.memRspSeen[m.Meta().ID] = true
	return true
}

func (e *c16Env) op(toks []string) {
	argN := func(i int) int {
		v := 0
		if i < len(toks) {
			v, _ = strconv.Atoi(toks[i])
		}
		return v
	}
	switch toks[0] {
	case "a":
		idx := e.naccess
		e.naccess++
		a := &c16Acc{idx: idx, pid: vm.PID(argN(1))}
		a.vaddr, _ = strconv.ParseUint(toks[2], 16, 64)
		if toks[3] == "r" {
			a.size = uint64(argN(4))
			rq := mem.ReadReqBuilder{}.WithSrc("CU").WithDst(e.top.AsRemote()).WithPID(a.pid).
				WithAddress(a.vaddr).WithByteSize(a.size).WithInfo(idx).Build()
			if len(toks) > 5 && toks[5] == "c" {
				a.cwc, rq.CanWaitForCoalesce = true, true
			}
			a.msg = rq
		} else {
			a.write = true
			a.data = make([]byte, len(toks[4])/2)
			for i := range a.data {
				v, _ := strconv.ParseUint(toks[4][2*i:2*i+2], 16, 8)
				a.data[i] = byte(v)
			}
			if toks[5] != "-" {
				for _, ch := range toks[5] {
					a.mask = append(a.mask, ch == '1')
				}
			}
			wq := mem.WriteReqBuilder{}.WithSrc("CU").WithDst(e.top.AsRemote()).WithPID(a.pid).
				WithAddress(a.vaddr).WithData(a.data).WithDirtyMask(a.mask).WithInfo(idx).Build()
			if len(toks) > 6 && toks[6] == "c" {
				a.cwc, wq.CanWaitForCoalesce = true, true
			}
			a.msg = wq
		}
		for len(e.accs) <= idx {
			e.accs = append(e.accs, nil)
		}
		// an access whose Deliver fails was never issued (the requester keeps it); it is
		// not part of any oracle
		if err := e.top.Deliver(a.msg); err != nil {
			e.out = append(e.out, "a-")
			e.r.Count("access.top-full")
			return
		}
		a.delivered = true
		e.accs[idx] = a
		e.accByID[a.msg.Meta().ID] = a
		e.out = append(e.out, "a+")
	case "t":
		e.ev = nil
		e.afterK = false
		e.lastQ = nil
		p := false
		f := catch(func() { p = e.comp.Tick() })
		tok := "t0"
		if f != "" {
			if strings.Contains(f, "never") {
				f = "never"
			}
			tok = "fault:" + f
			e.fault = f
		} else if p {
			tok = "t1"
		}
		if e.lastQ != nil {
			e.r.Failf("C16.lookup.orphan", e.line, "translation request sent without accepting an access")
		}
		e.out = append(e.out, tok+"["+strings.Join(e.ev, ",")+"]"+e.stateSig())
	case "xt", "yt":
		lst := e.envT
		if toks[0] == "yt" {
			lst = e.oldT
		}
		if len(lst) == 0 {
			e.out = append(e.out, "none")
			return
		}
		j := argN(1) % len(lst)
		q := lst[j]
		if !e.answerT(q) {
			e.out = append(e.out, "full")
			e.r.Count("reply.translation-port-full")
			return
		}
		if toks[0] == "xt" {
			e.envT = append(e.envT[:j:j], e.envT[j+1:]...)
			e.oldT = append(e.oldT, q)
		} else {
			e.r.Count("reply.duplicate-translation")
		}
		e.out = append(e.out, "ok"+numOf(e.tidNum, q.ID))
	case "xl": // an untruthful translation service: the j-th outstanding lookup is answered with page toks[2]
		if len(e.envT) == 0 {
			e.out = append(e.out, "none")
			return
		}
		j := argN(1) % len(e.envT)
		q := e.envT[j]
		pa, _ := strconv.ParseUint(toks[2], 16, 64)
		rsp := vm.TranslationRspBuilder{}.WithSrc("MMU").WithDst(q.Src).WithRspTo(q.ID).
			WithPage(vm.Page{PID: q.PID, VAddr: q.VAddr, PAddr: pa, PageSize: 1 << e.lg, Valid: true, DeviceID: 1}).Build()
		if err := e.tr.Deliver(rsp); err != nil {
			e.out = append(e.out, "full")
			return
		}
		if e.lied == nil {
			e.lied = map[string]uint64{}
		}
		e.lied[fmt.Sprintf("%d/%x", q.PID, q.VAddr)] = pa
		e.translated[fmt.Sprintf("%d/%x", q.PID, q.VAddr)] = true
		e.envT = append(e.envT[:j:j], e.envT[j+1:]...)
		e.oldT = append(e.oldT, q)
		e.r.Count("reply.untruthful-translation")
		e.out = append(e.out, "ok"+numOf(e.tidNum, q.ID))
	case "xm", "ym":
		lst := e.envM
		if toks[0] == "ym" {
			lst = e.oldM
		}
		if len(lst) == 0 {
			e.out = append(e.out, "none")
			return
		}
		j := argN(1) % len(lst)
		m := lst[j]
		if !e.answerM(m) {
			e.out = append(e.out, "full")
			e.r.Count("reply.bottom-port-full")
			return
		}
		if toks[0] == "xm" {
			e.envM = append(e.envM[:j:j], e.envM[j+1:]...)
			e.oldM = append(e.oldM, m)
		} else {
			e.r.Count("reply.duplicate-memory")
		}
		e.out = append(e.out, "ok"+numOf(e.bidNum, m.Meta().ID))
	case "du":
		e.out = append(e.out, e.drain(e.top, argN(1), nil))
	case "db":
		e.out = append(e.out, e.drain(e.bot, argN(1), func(m sim.Msg) { e.envM = append(e.envM, m.(mem.AccessReq)) }))
	case "dx":
		e.out = append(e.out, e.drain(e.tr, argN(1), func(m sim.Msg) { e.envT = append(e.envT, m.(*vm.TranslationReq)) }))
	case "dc":
		e.out = append(e.out, e.drain(e.ctl, argN(1), nil))
	case "d":
		k := argN(1)
		e.out = append(e.out, strings.Join([]string{
			e.drain(e.top, k, nil),
			e.drain(e.bot, k, func(m sim.Msg) { e.envM = append(e.envM, m.(mem.AccessReq)) }),
			e.drain(e.tr, k, func(m sim.Msg) { e.envT = append(e.envT, m.(*vm.TranslationReq)) }),
			e.drain(e.ctl, k, nil)}, "/"))
	case "f", "s", "z":
		b := mem.ControlMsgBuilder{}.WithSrc("Ctl").WithDst(e.ctl.AsRemote())
		switch toks[0] {
		case "f":
			b = b.ToDiscardTransactions()
		case "s":
			b = b.ToRestart()
		}
		if err := e.ctl.Deliver(b.Build()); err != nil {
			e.out = append(e.out, "c-")
			return
		}
		e.ctlPending = append(e.ctlPending, toks[0])
		e.ctlDeliv = append(e.ctlDeliv, toks[0])
		e.out = append(e.out, "c+")
		e.r.Count("ctl." + toks[0])
	}
}

// ---------------------------------------------------------------- generator

func c16GenAccess(rng *Rng, lg uint64, pidBias, vpnBias int) string {
	ps := uint64(1) << lg
	vpn := uint64(rng.Intn(4))
	if rng.Chance(60) {
		vpn = uint64(vpnBias)
	}
	pid := rng.Range(1, 3)
	if rng.Chance(40) {
		pid = pidBias
	}
	if rng.Chance(12) {
		pid = int(ps) + rng.Range(1, 3)
	}
	off := uint64(rng.Pick(0, 0, 1, int(ps-1), int(ps/2), rng.Intn(int(ps))))
	va := vpn*ps + off
	if rng.Chance(55) {
		return fmt.Sprintf("a %d %x r %d", pid, va, rng.Pick(1, 4, 4, 8, 16))
	}
	n := rng.Pick(1, 2, 4, 4, 8)
	mask := "-"
	if rng.Chance(60) {
		b := make([]byte, n)
		for i := range b {
			b[i] = '0' + byte(rng.Intn(2))
		}
		mask = string(b)
	}
	return fmt.Sprintf("a %d %x w %s %s", pid, va, hexb(rng.Bytes(n)), mask)
}

// closing rounds: the environment drains everything and answers whatever is outstanding
func c16Closing(w, naccess int) []string {
	ops := []string{}
	for i := 0; i < 14+3*naccess; i++ {
		ops = append(ops, "t", "d 8")
		for k := 0; k < w; k++ {
			ops = append(ops, "xt 0", "xm 0")
		}
	}
	ops = append(ops, "t", "d 8", "t", "d 8")
	return ops
}

func c16Gen(rng *Rng, big bool) (ops []string, closed bool) {
	w := rng.Pick(1, 1, 2, 2, 4, 4, 3, 8)
	lg := rng.Pick(12, 12, 6, 8)
	salt := rng.Pick(16, 256, 4096)
	ops = []string{fmt.Sprintf("c16 w=%d lg=%d salt=%d", w, lg, salt)}
	maxOps := 70
	if big {
		maxOps = 500
	}
	n := rng.Range(8, maxOps)
	style := rng.Intn(5)
	// style 0: uniform; 1: bottom rarely drained (reply while output full); 2: bursts on one page
	// from different PIDs; 3: flush/restart points; 4: top/translation back-pressure
	pidBias, vpnBias := rng.Range(1, 3), rng.Intn(4)
	nacc := 0
	flushed := false
	for i := 0; i < n; i++ {
		x := rng.Intn(100)
		switch {
		case x < 24:
			if style == 2 && rng.Chance(50) {
				for k := 0; k < rng.Range(2, 5); k++ {
					ops = append(ops, c16GenAccess(rng, uint64(lg), 1+k%3, vpnBias))
					nacc++
				}
			} else {
				ops = append(ops, c16GenAccess(rng, uint64(lg), pidBias, vpnBias))
				nacc++
			}
		case x < 52:
			ops = append(ops, "t")
		case x < 62:
			ops = append(ops, fmt.Sprintf("xt %d", rng.Intn(6)))
		case x < 72:
			ops = append(ops, fmt.Sprintf("xm %d", rng.Intn(6)))
		case x < 78:
			if style == 4 && rng.Chance(70) {
				ops = append(ops, "t")
			} else {
				ops = append(ops, fmt.Sprintf("dx %d", rng.Range(1, 4)))
			}
		case x < 84:
			if style == 1 && rng.Chance(75) {
				ops = append(ops, fmt.Sprintf("xt %d", rng.Intn(3)), "t")
			} else {
				ops = append(ops, fmt.Sprintf("db %d", rng.Range(1, 4)))
			}
		case x < 89:
			if style == 4 && rng.Chance(70) {
				ops = append(ops, "t")
			} else {
				ops = append(ops, fmt.Sprintf("du %d", rng.Range(1, 4)))
			}
		case x < 92:
			ops = append(ops, fmt.Sprintf("d %d", rng.Range(1, 8)))
		case x < 94:
			ops = append(ops, fmt.Sprintf("yt %d", rng.Intn(4)))
		case x < 96:
			ops = append(ops, fmt.Sprintf("ym %d", rng.Intn(4)))
		default:
			if style == 3 || rng.Chance(25) {
				if !flushed {
					ops = append(ops, "f")
					flushed = true
				} else {
					ops = append(ops, "s")
					flushed = false
				}
				if rng.Chance(70) {
					ops = append(ops, "t", "dc 1")
				}
			} else {
				ops = append(ops, "dc 1")
			}
		}
	}
	if rng.Chance(85) {
		closed = true
		if flushed {
			// complete the flush/restart handshake
			ops = append(ops, "t", "dc 1", "t", "s", "t", "dc 1", "t")
			for k := 0; k < rng.Intn(4); k++ {
				ops = append(ops, c16GenAccess(rng, uint64(lg), pidBias, vpnBias))
				nacc++
			}
		} else {
			ops = append(ops, "t", "dc 1", "t", "dc 1")
		}
		ops = append(ops, c16Closing(w, nacc)...)
	}
	return ops, closed
}

// c16Malformed: protocol violations by the environment (restart without flush, control
// message without a command, zero width)
func c16GenMalformed(rng *Rng) []string {
	w := rng.Pick(1, 2, 4, 0)
	ops := []string{fmt.Sprintf("c16 w=%d lg=12 salt=16", w)}
	for i := 0; i < rng.Range(5, 40); i++ {
		switch x := rng.Intn(100); {
		case x < 30:
			ops = append(ops, c16GenAccess(rng, 12, 1, 0))
		case x < 60:
			ops = append(ops, "t")
		case x < 70:
			ops = append(ops, "d 4")
		case x < 80:
			ops = append(ops, fmt.Sprintf("xt %d", rng.Intn(4)), fmt.Sprintf("xm %d", rng.Intn(4)))
		case x < 90:
			ops = append(ops, "s", "t", "dc 1")
		case x < 95:
			ops = append(ops, "f", "f", "t")
		default:
			ops = append(ops, "z", "t")
		}
	}
	return ops
}

// fixed scenarios: the corners named in the property, always run first
var c16Fixed = [][]string{
	// two PIDs, same virtual page: no coalescing across PIDs, each gets its own physical page
	{"c16 w=2 lg=12 salt=16", "a 1 1004 r 4", "a 2 1008 r 4", "t", "a 1 1010 w aabbccdd 1011", "a 2 1ffc r 4", "t", "dx 4", "xt 1", "xt 0", "t", "t", "db 4", "xm 1", "xm 0", "t", "t", "db 4", "xm 0", "xm 0", "t", "t", "du 8", "t"},
	// reply while the bottom port is full: transaction marked done, reply stays at the port head,
	// later drained, and finally dropped as unknown
	{"c16 w=1 lg=12 salt=16", "a 1 1000 r 4", "t", "a 1 2000 r 8", "t", "dx 1", "t", "dx 1", "xt 0", "t", "xt 0", "t", "t", "db 1", "t", "t", "t", "db 1", "xm 0", "t", "xm 0", "du 1", "t", "t", "du 1", "t"},
	// same, with coalesced requests behind the held reply and a new access to the same page meanwhile
	{"c16 w=2 lg=6 salt=256", "a 3 40 r 4", "a 3 44 r 4", "t", "a 3 48 w 0102 11", "a 3 80 r 1", "t", "dx 2", "xt 1", "t", "xt 0", "t", "a 3 7c r 4", "t", "db 1", "t", "db 2", "t", "dx 2", "xt 0", "t", "db 2", "t", "db 2", "xm 3", "xm 2", "xm 1", "xm 0", "t", "xm 0", "t", "du 2", "t", "du 2", "t", "du 2", "t"},
	// flush with work everywhere, late replies after restart are dropped
	{"c16 w=2 lg=12 salt=16", "a 1 0 r 4", "a 2 0 r 4", "t", "dx 2", "xt 0", "t", "db 1", "a 1 3000 r 4", "a 1 3004 r 4", "t", "f", "t", "dc 1", "xt 0", "xm 0", "t", "s", "t", "dc 1", "a 2 3000 r 4", "t", "dx 4", "xt 0", "xt 0", "t", "db 4", "xm 0", "t", "du 4", "t", "yt 0", "ym 0", "t", "t"},
}

func runC16Scenario(r *Run, ops []string, closed bool, kind string) *c16Env {
	cfg := strings.Fields(ops[0])
	w, lg, salt := 4, uint64(12), uint64(16)
	for _, t := range cfg {
		switch {
		case strings.HasPrefix(t, "w="):
			w, _ = strconv.Atoi(t[2:])
		case strings.HasPrefix(t, "lg="):
			lg, _ = strconv.ParseUint(t[3:], 10, 64)
		case strings.HasPrefix(t, "salt="):
			salt, _ = strconv.ParseUint(t[5:], 10, 64)
		}
	}
	line := strings.Join(ops, " ; ")
	e := newC16Env(r, line, w, lg, salt)
	e.pageFlags = strings.Contains(ops[0], " pf=1")
	for _, o := range ops[1:] {
		if e.fault != "" {
			break
		}
		e.op(strings.Fields(o))
	}
	// the control protocol: flush, restart, flush, restart, … (as delivered)
	for i, k := range e.ctlDeliv {
		if (i%2 == 0) != (k == "f") {
			e.badRestart = true
		}
	}
	if len(e.ctlDeliv)%2 == 1 {
		e.badRestart = true
	}
	if closed && e.badRestart {
		r.Count("no-loss.skipped-nonconforming-control")
	}
	e.out = append(e.out, fmt.Sprintf("E r=%d;f=%d;a=%d", e.nRecv, e.nFwd, e.nAns))
	r.Case(line, strings.Join(e.out, " "))
	r.Count("scenario." + kind)
	r.CountN("ops", len(ops)-1)
	r.CountN("accesses.accepted", e.nRecv)
	r.CountN("accesses.forwarded", e.nFwd)
	r.CountN("accesses.answered", e.nAns)
	// ---- oracle: one acknowledgement per command taken; in a closed conforming run every command delivered is taken
	if e.fault == "" {
		r.Checked("ctl.end")
		if e.nAck != e.nCtlTaken {
			r.Failf("C16.ctl.ack-count", line, "%d commands taken, %d acknowledgements sent", e.nCtlTaken, e.nAck)
		}
		if closed && !e.badRestart && w > 0 && e.nCtlTaken != len(e.ctlDeliv) {
			r.Failf("C16.ctl.unacknowledged", line, "%d commands delivered, %d taken and acknowledged", len(e.ctlDeliv), e.nCtlTaken)
		}
	}
	// ---- oracle: nothing is lost when the environment keeps answering and draining
	fl, txs, infl := e.comp.VerifC16State()
	if closed && !e.badRestart && e.fault == "" && w > 0 {
		r.Checked("no-loss")
		if fl || len(txs) != 0 || len(infl) != 0 || e.top.PeekIncoming() != nil ||
			e.tr.PeekIncoming() != nil || e.bot.PeekIncoming() != nil {
			r.Failf("C16.loss.not-quiescent", line, "after the closing rounds: flushing=%v transactions=%d inflight=%d", fl, len(txs), len(infl))
		}
		for _, a := range e.accs {
			if a == nil || a.discarded {
				continue
			}
			if !a.accepted {
				r.Failf("C16.loss.accept", line, "access %d delivered but never accepted", a.idx)
				continue
			}
			if a.epoch != e.epoch {
				continue // discarded by a flush
			}
			if a.fwd != 1 {
				r.Failf("C16.loss.forward", line, "access %d (pid %d vaddr %x) forwarded %d times", a.idx, a.pid, a.vaddr, a.fwd)
			} else if a.ans != 1 {
				r.Failf("C16.loss.answer", line, "access %d (pid %d vaddr %x) answered %d times", a.idx, a.pid, a.vaddr, a.ans)
			}
		}
	}
	return e
}

func runC16(r *Run, rng *Rng, replay string) {
	if replay != "" {
		if b, err := os.ReadFile(replay); err == nil {
			for _, ln := range strings.Split(string(b), "\n") {
				if strings.HasPrefix(ln, "c16 ") {
					runC16Scenario(r, splitOps(ln), false, "replay")
				}
			}
		}
	}
	for _, sc := range c16Fixed {
		runC16Scenario(r, sc, false, "fixed")
		closed := append(append([]string{}, sc...), c16Closing(2, 8)...)
		runC16Scenario(r, closed, true, "fixed-closed")
	}
	n, nbig, nmal := 1500, 60, 150
	if r.Tier == "thorough" {
		n, nbig, nmal = 30000, 1500, 2000
	}
	for i := 0; i < n; i++ {
		ops, closed := c16Gen(rng, false)
		runC16Scenario(r, ops, closed, "random")
	}
	for i := 0; i < nbig; i++ {
		ops, closed := c16Gen(rng, true)
		runC16Scenario(r, ops, closed, "long")
	}
	for i := 0; i < nmal; i++ {
		runC16Scenario(r, c16GenMalformed(rng), false, "malformed")
	}
}

func splitOps(line string) []string {
	parts := strings.Split(line, ";")
	out := []string{}
	for _, p := range parts {
		p = strings.TrimSpace(p)
		if p != "" {
			out = append(out, p)
		}
	}
	return out
}
