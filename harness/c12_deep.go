package main

import (
	"fmt"
	"strconv"
	"strings"

	"github.com/sarchlab/akita/v4/mem/vm"
	"github.com/sarchlab/akita/v4/sim"
	"github.com/sarchlab/mgpusim/v4/amd/driver"
	"github.com/sarchlab/mgpusim/v4/amd/kernels"
	"github.com/sarchlab/mgpusim/v4/amd/protocol"
)

func init() { register("C12", runC12Deep) }

// Correspondence for the Lean model C12.W.Drv (the stages of Driver.Tick with their progress
// flags): `c12 wake nq=N ; ops` — n:q enqueue Noop, k:q:n enqueue a kernel that sends n requests
// (n=1 LaunchKernelCommand on GPU 1; n>1 unified multi-GPU launch over n member GPUs), t one
// Driver.Tick (answer: its progress flag), o retrieve one outgoing request (answer: its queue),
// d:q deliver the response to the oldest retrieved request of queue q. Final answer: per queue
// length, IsRunning, outstanding requests of the head; sizes of both port buffers.
type c12PortCount struct{ in, out int }

func (h *c12PortCount) Func(ctx sim.HookCtx) {
	switch ctx.Pos {
	case sim.HookPosPortMsgRecvd:
		h.in++
	case sim.HookPosPortMsgRetrieveIncoming:
		h.in--
	case sim.HookPosPortMsgSend:
		h.out++
	case sim.HookPosPortMsgRetrieveOutgoing:
		h.out--
	}
}

type c12DeepEnv struct {
	d       *driver.Driver
	gpuPort sim.Port
	cps     []sim.Port
	qs      []*driver.CommandQueue
	fan     []int // requests per kernel of each queue
	cnt     *c12PortCount
}

func c12NewDeepEnv(rng *Rng) *c12DeepEnv {
	e := &c12DeepEnv{cnt: &c12PortCount{}}
	e.d = driver.MakeBuilder().WithEngine(&fakeEngine{}).WithPageTable(vm.NewPageTable(12)).WithLog2PageSize(12).Build("Driver")
	e.gpuPort = e.d.GetPortByName("GPU")
	(&fakeConn{name: "c"}).PlugIn(e.gpuPort)
	e.gpuPort.AcceptHook(e.cnt)
	for i := 0; i < 3; i++ {
		cp := sim.NewPort(nil, 16, 16, fmt.Sprintf("FakeGPU%d.ToDriver", i+1))
		e.cps = append(e.cps, cp)
		e.d.RegisterGPU(cp, driver.DeviceProperties{CUCount: 4, DRAMSize: 1 << 28})
	}
	nq := rng.Range(1, 3)
	nctx := rng.Range(1, 2)
	var ctxs []*driver.Context
	for i := 0; i < nctx; i++ {
		ctxs = append(ctxs, e.d.Init())
	}
	uni := map[int]int{}
	for i := 0; i < nq; i++ {
		ctx := ctxs[i%nctx]
		n := rng.Range(1, 3)
		if n == 1 {
			e.d.SelectGPU(ctx, 1)
		} else {
			if _, ok := uni[n*10+i%nctx]; !ok {
				ids := []int{}
				for g := 1; g <= n; g++ {
					ids = append(ids, g)
				}
				uni[n*10+i%nctx] = e.d.CreateUnifiedGPU(ctx, ids)
			}
			e.d.SelectGPU(ctx, uni[n*10+i%nctx])
		}
		e.fan = append(e.fan, n)
		e.qs = append(e.qs, e.d.CreateCommandQueue(ctx))
	}
	// queues of one context are visited together: order the model's queue list as the driver does
	var ordered []*driver.CommandQueue
	var fan []int
	for c := 0; c < nctx; c++ {
		for i, q := range e.qs {
			if i%nctx == c {
				ordered = append(ordered, q)
				fan = append(fan, e.fan[i])
			}
		}
	}
	e.qs, e.fan = ordered, fan
	return e
}

func c12DeepScenario(r *Run, rng *Rng, e *c12DeepEnv, first bool) {
	nq := len(e.qs)
	var ops, ans []string
	outstanding := make([][]*protocol.LaunchKernelReq, nq)
	line := func() string { return fmt.Sprintf("c12 wake nq=%d fresh=%v ; %s", nq, first, strings.Join(ops, " ")) }
	enqueue := func(qi int, kern bool) {
		id := sim.GetIDGenerator().Generate()
		if !kern {
			ops = append(ops, fmt.Sprintf("n:%d", qi))
			e.d.Enqueue(e.qs[qi], &driver.NoopCommand{ID: id})
			return
		}
		n := e.fan[qi]
		ops = append(ops, fmt.Sprintf("k:%d:%d", qi, n))
		if n == 1 {
			e.d.Enqueue(e.qs[qi], &driver.LaunchKernelCommand{ID: id})
			return
		}
		cmd := &driver.LaunchUnifiedMultiGPUKernelCommand{ID: id}
		for i := 0; i < n; i++ {
			p := kernels.HsaKernelDispatchPacket{GridSizeX: uint32(64 * 4 * n * rng.Range(1, 3)), GridSizeY: 1, GridSizeZ: 1,
				WorkgroupSizeX: 64, WorkgroupSizeY: 1, WorkgroupSizeZ: 1}
			cmd.PacketArray = append(cmd.PacketArray, &p)
			cmd.DPacketArray = append(cmd.DPacketArray, driver.Ptr(0))
		}
		e.d.Enqueue(e.qs[qi], cmd)
	}
	tick := func() bool {
		ops = append(ops, "t")
		p := e.d.Tick()
		if p {
			ans = append(ans, "1")
		} else {
			ans = append(ans, "0")
			// the statement of W.Drv.quiet_tick_leaves_no_work on the real driver
			r.Checked("wake-quiet-tick")
			if e.gpuPort.PeekIncoming() != nil {
				r.Failf("C12.driver.asleep-with-input", line(), "Driver.Tick reported no progress while a message waits in its GPU port")
			}
			for i, q := range e.qs {
				if q.NumCommand() > 0 && !q.IsRunning {
					r.Failf("C12.driver.asleep-with-runnable-command", line(), "Driver.Tick reported no progress while queue %d has a runnable head", i)
				}
			}
		}
		return p
	}
	retrieve := func() bool {
		ops = append(ops, "o")
		m := e.gpuPort.RetrieveOutgoing()
		if m == nil {
			ans = append(ans, "-")
			return false
		}
		lk, ok := m.(*protocol.LaunchKernelReq)
		owner := -1
		if ok {
			for i, q := range e.qs {
				if cs := q.VerifCommands(); len(cs) > 0 {
					for _, rq := range cs[0].GetReqs() {
						if rq.Meta().ID == lk.ID {
							owner = i
						}
					}
				}
			}
		}
		if owner < 0 {
			ans = append(ans, "q?")
			return true
		}
		outstanding[owner] = append(outstanding[owner], lk)
		ans = append(ans, "q"+strconv.Itoa(owner))
		return true
	}
	deliver := func(qi int) {
		lk := outstanding[qi][0]
		rsp := protocol.NewLaunchKernelRsp(e.cps[0].AsRemote(), e.gpuPort.AsRemote(), lk.ID)
		if e.gpuPort.Deliver(rsp) != nil {
			return
		}
		outstanding[qi] = outstanding[qi][1:]
		ops = append(ops, fmt.Sprintf("d:%d", qi))
	}
	withOutstanding := func() []int {
		var l []int
		for i := range outstanding {
			if len(outstanding[i]) > 0 {
				l = append(l, i)
			}
		}
		return l
	}
	nops := rng.Range(6, 40)
	for k := 0; k < nops; k++ {
		c := rng.Intn(100)
		switch {
		case c < 25:
			enqueue(rng.Intn(nq), rng.Chance(60))
		case c < 60:
			tick()
		case c < 78:
			retrieve()
		default:
			if l := withOutstanding(); len(l) > 0 {
				// often several responses within one cycle (no tick in between)
				g := rng.Pick(1, 1, 2, 3)
				for j := 0; j < g; j++ {
					if l = withOutstanding(); len(l) > 0 {
						deliver(l[rng.Intn(len(l))])
					}
				}
			}
		}
	}
	// run to quiescence (part of the case): everything answered, every queue empty
	for k := 0; k < 4000; k++ {
		p := tick()
		got := retrieve()
		l := withOutstanding()
		for _, qi := range l {
			for len(outstanding[qi]) > 0 {
				deliver(qi)
			}
		}
		if !p && !got && len(l) == 0 {
			break
		}
	}
	var qstr []string
	for _, q := range e.qs {
		s := strconv.Itoa(q.NumCommand())
		left := 0
		if q.IsRunning {
			s += "*"
			if cs := q.VerifCommands(); len(cs) > 0 {
				left = len(cs[0].GetReqs())
			}
		}
		qstr = append(qstr, s+strconv.Itoa(left))
	}
	r.Case(line(), strings.Join(ans, " ")+" | "+strings.Join(qstr, ",")+fmt.Sprintf(" | in=%d out=%d", e.cnt.in, e.cnt.out))
	r.Checked("wake-drained")
	for i, q := range e.qs {
		if q.NumCommand() != 0 {
			r.Failf("C12.driver.queue-not-drained", line(), "every response was delivered and the driver is asleep, but queue %d still holds %d command(s)", i, q.NumCommand())
		}
	}
	r.Count("wake.deep")
}

// c12KSched re-submits every gate-level schedule case recorded so far (`c12 sched …`, executed on
// the real goroutines by c12.go, which runs before this file's runner) as `c12 ksched …`: the same
// observations must also be the answer of the k-thread model C12.K with one thread and one queue.
func c12KSched(r *Run) {
	r.mu.Lock()
	var ops, impl []string
	for i, op := range r.ops {
		if strings.HasPrefix(op, "c12 sched ") {
			ops = append(ops, "c12 ksched "+strings.TrimPrefix(op, "c12 sched "))
			impl = append(impl, r.impl[i])
		}
	}
	r.mu.Unlock()
	for i := range ops {
		r.Case(ops[i], impl[i])
	}
	r.CountN("ksched.cases", len(ops))
}

// c12MemCopyFlushOrder: a memory-copy command with flush requests (2 GPUs, dirty buffer) on the real
// Driver.Tick; the responses arrive either with both flush responses first, or with the second
// GPU's flush response after the copy response. In both orders the command must be dequeued once
// every response has been processed (Lean: W.Copy.memcopy_completes_full; before the fix the
// second order left it queued: memcopy_completes_full_before_fix_refuted).
func c12MemCopyFlushOrder(r *Run, flushLast bool, d2h bool) {
	d := driver.MakeBuilder().WithEngine(&fakeEngine{}).WithPageTable(vm.NewPageTable(12)).WithLog2PageSize(12).Build("Driver")
	gpuPort := d.GetPortByName("GPU")
	(&fakeConn{name: "c"}).PlugIn(gpuPort)
	var cps []sim.Port
	for i := 0; i < 2; i++ {
		cp := sim.NewPort(nil, 16, 16, fmt.Sprintf("FakeGPU%d.ToDriver", i+1))
		cps = append(cps, cp)
		d.RegisterGPU(cp, driver.DeviceProperties{CUCount: 4, DRAMSize: 1 << 28})
	}
	ctx := d.Init()
	d.SelectGPU(ctx, 1)
	q := d.CreateCommandQueue(ctx)
	buf := d.AllocateMemory(ctx, 4096)
	var out []sim.Msg
	run := func() {
		for round := 0; round < 40; round++ {
			for k := 0; k < 1000 && d.Tick(); k++ {
			}
			got := false
			for m := gpuPort.RetrieveOutgoing(); m != nil; m = gpuPort.RetrieveOutgoing() {
				out = append(out, m)
				got = true
			}
			if !got {
				return
			}
		}
	}
	kind := "MemCopyH2D"
	if d2h {
		kind = "MemCopyD2H"
	}
	desc := "2 GPUs; LaunchKernel + response (marks the buffers L2-dirty); " + kind + " of 64 bytes; responses: "
	d.Enqueue(q, &driver.LaunchKernelCommand{ID: sim.GetIDGenerator().Generate()})
	run()
	if len(out) != 1 {
		r.Failf("C12.harness.memcopy-setup", desc, "expected one kernel request, got %d", len(out))
		return
	}
	gpuPort.Deliver(protocol.NewLaunchKernelRsp(cps[0].AsRemote(), gpuPort.AsRemote(), out[0].Meta().ID))
	run()
	out = nil
	host := make([]byte, 64)
	if d2h {
		d.EnqueueMemCopyD2H(q, host, buf)
	} else {
		d.EnqueueMemCopyH2D(q, buf, host)
	}
	run()
	var flush, copies []sim.Msg
	for _, m := range out {
		switch m.(type) {
		case *protocol.FlushReq:
			flush = append(flush, m)
		case *protocol.MemCopyH2DReq:
			copies = append(copies, m)
		case *protocol.MemCopyD2HReq:
			for i := range m.(*protocol.MemCopyD2HReq).DstBuffer {
				m.(*protocol.MemCopyD2HReq).DstBuffer[i] = byte(i + 1) // what the GPU "read"
			}
			copies = append(copies, m)
		}
	}
	if len(flush) != 2 || len(copies) != 1 {
		r.Failf("C12.harness.memcopy-setup", desc, "expected 2 flush + 1 copy request, got %d + %d", len(flush), len(copies))
		return
	}
	order := []sim.Msg{flush[0], flush[1], copies[0]}
	desc += "flush GPU1, flush GPU2, copy"
	if flushLast {
		order = []sim.Msg{flush[0], copies[0], flush[1]}
		desc = strings.TrimSuffix(desc, "flush GPU1, flush GPU2, copy") + "flush GPU1, copy, flush GPU2"
	}
	for _, m := range order {
		rsp := sim.GeneralRspBuilder{}.WithSrc(m.Meta().Dst).WithDst(gpuPort.AsRemote()).WithOriginalReq(m).Build()
		if gpuPort.Deliver(rsp) != nil {
			r.Failf("C12.harness.deliver", desc, "cannot deliver response")
			return
		}
		run()
	}
	r.Checked("memcopy-flush-order")
	if q.NumCommand() != 0 {
		sig := "C12.driver.memcopy-not-drained"
		if flushLast {
			sig = "C12.driver.memcopy-flush-last"
		}
		r.Failf(sig, desc, "every response was delivered and the driver is asleep, but the memory-copy command is still queued (IsRunning=%v): DrainCommandQueue on this queue never returns", q.IsRunning)
	}
	if d2h && q.NumCommand() == 0 {
		for i, b := range host {
			if b != byte(i+1) {
				r.Failf("C12.driver.memcopy-d2h-data", desc, "the completed MemCopyD2H did not decode the copied bytes into its destination (byte %d = %d)", i, b)
				break
			}
		}
	}
	r.Count("wake.memcopy-flush-order")
}

func runC12Deep(r *Run, rng *Rng, replay string) {
	c12KSched(r)
	for _, d2h := range []bool{false, true} {
		c12MemCopyFlushOrder(r, false, d2h)
		c12MemCopyFlushOrder(r, true, d2h)
	}
	nenv, per := 4, 12
	if r.Tier == "thorough" {
		nenv, per = 40, 40
	}
	for i := 0; i < nenv; i++ {
		e := c12NewDeepEnv(rng)
		for j := 0; j < per; j++ {
			c12DeepScenario(r, rng, e, j == 0)
		}
	}
}
