package main

import (
	"fmt"
	"sort"
	"strings"

	"github.com/sarchlab/mgpusim/v4/amd/insts"
)

func init() { register("C04", runC04Deep) }

// Tie for the spec-side encoder / expected instruction of the Lean model (`C04.encode`,
// `C04.wellFormed`, `C04.instOf`, theorem `decode_encode`):
//   c04 enc  <format> k=v …  ->  bytes of the harness encoder (encodeDesc) for in-range fields
//   c04 inst <format> k=v …  ->  what the REAL decoder answers for those bytes, for descriptions
//                                that are well-formed by construction (the model answers with
//                                instOf, or "illformed" if its predicate disagrees)
var c04AcceptedS = []uint32{0, 1, 50, 100, 101, 102, 103, 104, 105, 106, 107, 108, 109, 110, 111, 112, 122, 124, 126, 127,
	128, 129, 192, 193, 208, 240, 248, 251, 252, 253}
var c04RejectedS = []uint32{123, 125, 209, 239, 249, 250, 254}

func c04DeepLine(kind, fm string, op uint32, f map[string]uint32, lit *uint32) string {
	keys := make([]string, 0, len(f))
	for k := range f {
		keys = append(keys, k)
	}
	sort.Strings(keys)
	p := []string{"c04", kind, fm, fmt.Sprintf("op=%d", op)}
	for _, k := range keys {
		p = append(p, fmt.Sprintf("%s=%d", k, f[k]))
	}
	if lit != nil {
		p = append(p, fmt.Sprintf("lit=%x", *lit))
	}
	return strings.Join(p, " ")
}

func runC04Deep(r *Run, rng *Rng, replay string) {
	dis := insts.NewDisassembler()
	rows := dis.VerifRows()
	sort.Slice(rows, func(i, j int) bool {
		if rows[i].Format.FormatType != rows[j].Format.FormatType {
			return rows[i].Format.FormatType < rows[j].Format.FormatType
		}
		return rows[i].Opcode < rows[j].Opcode
	})
	byFmt := map[string][]*insts.InstType{}
	for _, it := range rows {
		byFmt[it.Format.FormatName] = append(byFmt[it.Format.FormatName], it)
	}
	formats := []string{"sop2", "sopk", "sop1", "sopc", "sopp", "vop2", "vop1", "vopc", "smem"}
	n := 4000
	if r.Tier == "thorough" {
		n = 60000
	}
	sCode := func(wellFormed bool, allowLit bool, bound uint32) uint32 {
		for {
			var c uint32
			x := rng.Intn(100)
			switch {
			case allowLit && x < 25:
				c = 255
			case !wellFormed && x < 50:
				c = c04RejectedS[rng.Intn(len(c04RejectedS))]
			case x < 60:
				c = uint32(rng.Intn(102))
			default:
				c = c04AcceptedS[rng.Intn(len(c04AcceptedS))]
			}
			if c < bound {
				return c
			}
		}
	}
	vCode := func(wellFormed bool) uint32 { // 9-bit source
		if rng.Chance(40) {
			return 256 + uint32(rng.Pick(0, 1, 255, rng.Intn(256)))
		}
		return sCode(wellFormed, true, 512)
	}
	for i := 0; i < n; i++ {
		fm := formats[rng.Intn(len(formats))]
		list := byFmt[fm]
		if len(list) == 0 {
			continue
		}
		it := list[rng.Intn(len(list))]
		op := uint32(it.Opcode)
		wf := rng.Chance(75) // well-formed by construction; otherwise only the encoder is compared
		f := map[string]uint32{}
		needLit := false
		src := func(k string, c uint32) {
			f[k] = c
			if c == 255 {
				needLit = true
			}
		}
		switch fm {
		case "sop2":
			src("ssrc0", sCode(wf, true, 256))
			src("ssrc1", sCode(wf, true, 256))
			f["sdst"] = sCode(wf, false, 128)
		case "sopk":
			f["sdst"] = sCode(wf, false, 128)
			f["simm16"] = uint32(rng.Pick(0, 1, 65535, rng.Intn(65536)))
			if op == 20 { // s_setreg_imm32_b32 carries a 32-bit SIMM32 behind the first dword
				needLit = true
			}
		case "sop1":
			src("ssrc0", sCode(wf, true, 256))
			f["sdst"] = sCode(wf, false, 128)
		case "sopc":
			src("ssrc0", sCode(wf, true, 256))
			src("ssrc1", sCode(wf, true, 256))
		case "sopp":
			f["simm16"] = uint32(rng.Pick(0, 1, 65535, rng.Intn(65536)))
		case "vop2":
			src("src0", vCode(wf))
			f["vsrc1"], f["vdst"] = uint32(rng.Intn(256)), uint32(rng.Intn(256))
			if op == 23 || op == 24 || op == 36 || op == 37 {
				needLit = true
			}
		case "vop1":
			src("src0", vCode(wf))
			f["vdst"] = uint32(rng.Intn(256))
			if op == 2 {
				f["vdst"] = sCode(wf, false, 256)
			}
		case "vopc":
			src("src0", vCode(wf))
			f["vsrc1"] = uint32(rng.Intn(256))
		case "smem":
			f["sbase"] = uint32(rng.Intn(64))
			f["sdata"] = sCode(wf, false, 128)
			f["imm"], f["glc"] = uint32(rng.Intn(2)), uint32(rng.Intn(2))
			if f["imm"] == 1 {
				f["offset"] = uint32(rng.Pick(0, 1, 1<<20-1, rng.Intn(1<<20)))
			} else {
				f["offset"] = uint32(rng.Intn(102))
			}
		}
		var lit *uint32
		if needLit || (!wf && rng.Chance(20)) {
			l := uint32(rng.U64())
			if rng.Chance(20) {
				l = uint32(rng.Pick(0, 1, 0xffffffff, 0x80000000))
			}
			lit = &l
		}
		d := desc{format: fm, op: op, f: f}
		if lit != nil {
			d.hasLit, d.literal = true, *lit
		}
		buf := encodeDesc(d)
		r.Case(c04DeepLine("enc", fm, op, f, lit), hexb(buf))
		r.Count("deep.enc." + fm)
		if !wf {
			continue
		}
		// the generator above only produces accepted codes when wf, and a literal exactly when needed
		full := append(append([]byte{}, buf...), rng.Bytes(rng.Pick(0, 0, 4, 8))...)
		out, dec := decodeCanon(dis, full)
		r.Case(c04DeepLine("inst", fm, op, f, lit), out)
		r.Count("deep.inst." + fm)
		r.Checked("deep-roundtrip")
		if !strings.HasPrefix(out, "ok ") {
			r.Failf("C04.roundtrip."+fm, c04DeepLine("inst", fm, op, f, lit), "well-formed description does not decode: %s (bytes %s)", out, hexb(full))
		} else if dec != nil && dec.ByteSize != len(buf) {
			// the encoding occupies len(buf) bytes (one shared literal dword at most)
			r.Failf("C04.roundtrip."+fm, c04DeepLine("inst", fm, op, f, lit), "size %d, but the instruction was encoded in %d bytes (%s)", dec.ByteSize, len(buf), hexb(buf))
		} else if dec != nil && fm == "vop1" && op == 2 && !c04DstMatches(dec, f["vdst"]) {
			// v_readfirstlane_b32 writes a SCALAR destination: the VDST field is a scalar operand code
			r.Failf("C04.roundtrip.vop1", c04DeepLine("inst", fm, op, f, lit), "destination code %d is not the decoded destination operand (%s)", f["vdst"], out)
		} else if dec != nil {
			// decode(b) = decode(b[:size]): bytes behind the instruction are never read
			if out2, _ := decodeCanon(dis, buf); out2 != out {
				r.Failf("C04.prefix."+fm, c04DeepLine("inst", fm, op, f, lit), "decode of the exact %d bytes gives %s, with trailing bytes %s", len(buf), out2, out)
			}
		}
	}
}

// c04DstMatches: the decoded destination denotes the scalar operand with the given code (a malformed
// operand object — e.g. a register operand without a register — does not).
func c04DstMatches(dec *insts.Inst, code uint32) (ok bool) {
	if f := catch(func() { ok = dec.Dst != nil && operandMatchesCode(dec.Dst, code) }); f != "" {
		return false
	}
	return ok
}
