package main

// Property C08, second deepening: the partition dispatching algorithm against compute units with a
// finite number of work-group slots and partitionAlgorithm.FreeResources (Lean:
// lean/MgpuModel/C08_Res.lean, theorems in lean/MgpuProofs/Props/C08Res.lean).
//
//	c08 partr g= w= cap=c0,c1,.. ops=n,n,f<cu>.<k>,n,…
//	    real partitionAlgorithm over len(cap) CUs; `n` = one call of Next, `f<cu>.<k>` = the k-th
//	    resident work-group (oldest first) of CU <cu> completes and FreeResources is called for it.
//	    Answer: per operation the dispatch `cu:wg`, `-` (nothing dispatched), `f`/`x` (effective /
//	    ineffective free), then the free slots per CU.
//
// Oracles on the real outputs, independent of the model:
//	C08.partr.capacity   a CU never holds more resident work-groups than it has slots
//	C08.partr.cover      every dispatched work-group is a distinct work-group of the grid; when
//	                     HasNext turns false all of them were dispatched
//	C08.partr.object     no *WorkGroup pointer is handed out twice
//	C08.partr.idle       Next dispatched nothing although a CU with a free slot still had groups of
//	                     its own partition
//	C08.partr.starve     a CU with a free slot and own groups waits for more than #CU dispatching calls
//	C08.partr.stuck      the environment answered every idle call with a completion and the kernel
//	                     still did not finish within 2·|grid|+1 calls

import (
	"fmt"
	"strings"
	"time"

	"github.com/sarchlab/mgpusim/v4/amd/kernels"
	cpshim "github.com/sarchlab/mgpusim/v4/amd/timing/cp/verifshim"
)

func init() { register("C08", runC08Res) }

type c08rOp struct {
	free  bool
	cu, k int
}

func c08rOpsString(ops []c08rOp) string {
	if len(ops) == 0 {
		return "-"
	}
	s := make([]string, len(ops))
	for i, o := range ops {
		if o.free {
			s[i] = fmt.Sprintf("f%d.%d", o.cu, o.k)
		} else {
			s[i] = "n"
		}
	}
	return strings.Join(s, ",")
}

// c08rRun plays ops; gen != nil generates the next operation from the observable state instead
// (residents per CU, whether the last call was idle) until the kernel is finished or maxOps.
func c08rRun(r *Run, g, w c08Geo, caps []int, ops []c08rOp, gen func(res [][]*kernels.WorkGroup, lastIdle bool, finished bool) (c08rOp, bool)) {
	ncu := len(caps)
	total := c08NWG(g[0], w[0]) * c08NWG(g[1], w[1]) * c08NWG(g[2], w[2])
	per := (total-1)/ncu + 1
	p := cpshim.NewPartitionRoom(caps)
	var tr []string
	var played []c08rOp
	res := make([][]*kernels.WorkGroup, ncu)
	ownDone := make([]int, ncu) // dispatched FROM partition i (by coordinates)
	waiting := make([]int, ncu) // dispatching calls since CU i has had room and own work
	seen := map[string]int{}
	ptrs := map[*kernels.WorkGroup]bool{}
	type viol struct{ sig, msg string }
	var viols []viol
	add := func(sig, f string, a ...interface{}) { viols = append(viols, viol{sig, fmt.Sprintf(f, a...)}) }
	flat := func(wg *kernels.WorkGroup) int {
		return wg.IDZ*c08NWG(g[0], w[0])*c08NWG(g[1], w[1]) + wg.IDY*c08NWG(g[0], w[0]) + wg.IDX
	}
	n, nexts, disp := 0, 0, 0
	owed, responsive := false, true
	ok, fault := withTimeout(20*time.Second, func() {
		p.StartNewKernel(kernels.KernelLaunchInfo{CodeObject: c08CodeObject(false, 0, false), Packet: c08Packet(g, w)})
		n = p.NumWG()
		lastIdle := false
		for step := 0; ; step++ {
			var op c08rOp
			if gen != nil {
				var more bool
				op, more = gen(res, lastIdle, !p.HasNext())
				if !more {
					break
				}
			} else {
				if step >= len(ops) {
					break
				}
				op = ops[step]
			}
			played = append(played, op)
			if op.free {
				if op.cu < ncu && op.k < len(res[op.cu]) {
					p.FreeResources(op.cu, res[op.cu][op.k])
					res[op.cu] = append(res[op.cu][:op.k:op.k], res[op.cu][op.k+1:]...)
					tr = append(tr, "f")
					owed = false
				} else {
					tr = append(tr, "x")
				}
				continue
			}
			nexts++
			if owed {
				responsive = false
			}
			free := p.Free()
			// who could be served by its own partition right now?
			eligible := make([]bool, ncu)
			for i := 0; i < ncu; i++ {
				segLen := c08Min(per, c08Max(0, total-i*per))
				eligible[i] = free[i] > 0 && ownDone[i] < segLen
			}
			hadNext := p.HasNext()
			d := p.Next()
			if !d.Valid {
				tr = append(tr, "-")
				lastIdle = hadNext
				if hadNext {
					owed = true
					for i, e := range eligible {
						if e {
							add("C08.partr.idle", "call %d dispatched nothing although CU %d has %d free slot(s) and %d group(s) of its own partition left", nexts, i, free[i], c08Min(per, total-i*per)-ownDone[i])
							break
						}
					}
				}
				continue
			}
			lastIdle = false
			disp++
			tr = append(tr, fmt.Sprintf("%d:%s", d.CU, c08WGString(d.WG)))
			res[d.CU] = append(res[d.CU], d.WG)
			if len(res[d.CU]) > caps[d.CU] {
				add("C08.partr.capacity", "CU %d holds %d work-groups, it has %d slot(s)", d.CU, len(res[d.CU]), caps[d.CU])
			}
			if ptrs[d.WG] {
				add("C08.partr.object", "the work-group object %s was handed out twice", c08WGString(d.WG))
			}
			ptrs[d.WG] = true
			seen[c08WGString(d.WG)]++
			if f := flat(d.WG); f/per < ncu {
				ownDone[f/per]++
			}
			for i := 0; i < ncu; i++ {
				switch {
				case i == d.CU || !eligible[i]:
					waiting[i] = 0
				default:
					waiting[i]++
					if waiting[i] >= ncu {
						add("C08.partr.starve", "CU %d had a free slot and own work during %d consecutive dispatching calls without being served", i, waiting[i])
					}
				}
			}
		}
	})
	line := fmt.Sprintf("c08 partr g=%s w=%s cap=%s ops=%s", g, w, c08CUString(caps), c08rOpsString(played))
	if !ok || fault != "" {
		r.Case(line, "fault:"+fault)
		r.Failf("C08.partr.panic", line, "%s", fault)
		return
	}
	fs := p.Free()
	r.Case(line, fmt.Sprintf("n=%d tr=%s", n, strings.Join(append(tr, "free="+c08Ints(fs)), ";")))
	r.Count("partr")
	r.Checked("partr")
	for _, v := range viols {
		r.Failf(v.sig, line, "%s", v.msg)
	}
	exp := c08ExpectedWGs(g, w, 0, total)
	inGrid := map[string]bool{}
	for _, s := range exp {
		inGrid[s] = true
	}
	for s, c := range seen {
		if c != 1 || !inGrid[s] {
			r.Failf("C08.partr.cover", line, "work-group %s dispatched %d time(s) (in the grid: %v)", s, c, inGrid[s])
			break
		}
	}
	if !p.HasNext() && disp != len(exp) {
		r.Failf("C08.partr.cover", line, "HasNext is false after %d dispatches, the grid has %d work-groups", disp, len(exp))
	}
	if responsive && nexts >= 2*len(exp)+1 && p.HasNext() {
		r.Checked("partr.live")
		r.Failf("C08.partr.stuck", line, "every idle call was answered by a completion, yet after %d calls only %d of %d work-groups are out", nexts, disp, len(exp))
	} else if responsive && nexts >= 2*len(exp)+1 {
		r.Checked("partr.live")
	}
}

func runC08Res(r *Run, rng *Rng, replay string) {
	thorough := r.Tier == "thorough"
	// the witnesses of Props/C08Res.lean
	n := c08rOp{}
	f := func(cu, k int) c08rOp { return c08rOp{free: true, cu: cu, k: k} }
	// short last partition: CU 2 has room, outstanding work, and Next dispatches nothing
	c08rRun(r, c08Geo{10, 1, 1}, c08Geo{1, 1, 1}, []int{1, 1, 2}, []c08rOp{n, n, n, n, n, f(0, 0), n, n, f(2, 1), n, n}, nil)
	// no slots at all: never dispatches
	c08rRun(r, c08Geo{3, 1, 1}, c08Geo{1, 1, 1}, []int{0, 0}, []c08rOp{n, n, n, f(0, 0), n}, nil)
	// stealing by a CU whose partition is used up
	c08rRun(r, c08Geo{4, 1, 1}, c08Geo{1, 1, 1}, []int{2, 0}, []c08rOp{n, n, n, f(0, 0), n, n, f(0, 0), f(0, 0), n, n, n}, nil)

	cnt := 300
	if thorough {
		cnt = 8000
	}
	for k := 0; k < cnt; k++ {
		dims := rng.Range(1, 3)
		w := c08RandWG(rng, dims)
		g := c08RandGrid(rng, w, rng.Pick(1, 2, 3, 5, 8, 13, 24, 40))
		ncu := rng.Pick(1, 2, 2, 3, 3, 4, 5, 8)
		caps := make([]int, ncu)
		for i := range caps {
			caps[i] = rng.Pick(1, 1, 1, 2, 3)
			if rng.Chance(4) {
				caps[i] = 0
			}
		}
		total := c08NWG(g[0], w[0]) * c08NWG(g[1], w[1]) * c08NWG(g[2], w[2])
		style := rng.Intn(4)
		maxOps := 6*total + 12
		steps := 0
		gen := func(res [][]*kernels.WorkGroup, lastIdle, finished bool) (c08rOp, bool) {
			steps++
			if steps > maxOps || (finished && rng.Chance(50)) {
				return c08rOp{}, false
			}
			var occupied []int
			for i, l := range res {
				if len(l) > 0 {
					occupied = append(occupied, i)
				}
			}
			pickFree := func() c08rOp {
				cu := occupied[rng.Intn(len(occupied))]
				return c08rOp{free: true, cu: cu, k: rng.Intn(len(res[cu]))}
			}
			switch style {
			case 0: // responsive environment: complete something after every idle call
				if lastIdle && len(occupied) > 0 {
					return pickFree(), true
				}
				if len(occupied) > 0 && rng.Chance(15) {
					return pickFree(), true
				}
				return c08rOp{}, true
			case 1: // completions as late as possible
				if lastIdle && len(occupied) > 0 {
					return pickFree(), true
				}
				return c08rOp{}, true
			case 2: // random mix incl. ineffective frees
				if rng.Chance(35) {
					if len(occupied) > 0 && rng.Chance(85) {
						return pickFree(), true
					}
					return c08rOp{free: true, cu: rng.Intn(len(res) + 1), k: rng.Intn(3)}, true
				}
				return c08rOp{}, true
			default: // one CU hoards: its work-groups never complete
				if len(occupied) > 0 && (lastIdle || rng.Chance(30)) {
					var others []int
					for _, i := range occupied {
						if i != 0 {
							others = append(others, i)
						}
					}
					if len(others) > 0 {
						cu := others[rng.Intn(len(others))]
						return c08rOp{free: true, cu: cu, k: rng.Intn(len(res[cu]))}, true
					}
				}
				return c08rOp{}, true
			}
		}
		c08rRun(r, g, w, caps, nil, gen)
	}
}
