package main

import (
	"context"
	"fmt"
	"os"
	"os/exec"
	"path/filepath"
	"strconv"
	"strings"
	"time"

	"github.com/sarchlab/akita/v4/mem/mem"
	"github.com/sarchlab/akita/v4/sim"
	"github.com/sarchlab/mgpusim/v4/amd/insts"
	"github.com/sarchlab/mgpusim/v4/amd/timing/cu"
	"github.com/sarchlab/mgpusim/v4/amd/timing/wavefront"
)

func init() {
	register("C14", runC14Ghost)
	register("C14", runC14Mon)
	childFuncs["c14mon"] = c14MonChild
}

// Tie of the ghost layer of the C14 model (`c14 ghost …`, theorems waitcnt_tracks_truth /
// counters_count_last_responses): 1-3 wavefronts of a real compute unit issue FLAT loads/stores and
// scalar loads through the real VectorMemoryUnit / ScalarUnit code, the responses are handed to the
// real return handlers in order or shuffled. After every event the wavefront's two counters and the
// number of its instructions that still have a transaction in the CU's in-flight lists (the truth)
// are compared with the model; the oracles check the transaction flags, "counter = instructions
// whose last transaction is unanswered" (any order) and "counter = truth" (in-order schedules).
type c14Acc struct {
	wf            int
	scalar, store bool
	ids           []string
	last, got     []bool
	rd            []*mem.ReadReq
}

func (a *c14Acc) open() bool {
	for _, g := range a.got {
		if !g {
			return true
		}
	}
	return false
}

func runC14Ghost(r *Run, rng *Rng, replay string) {
	e := newC02Env()
	n := 60
	if r.Tier == "thorough" {
		n = 2500
	}
	for k := 0; k < n; k++ {
		c14GhostCase(r, rng, e, k)
	}
}

func c14GhostCase(r *Run, rng *Rng, e *c02Env, caseNo int) {
	nw := rng.Range(1, 3)
	var wfs []*wavefront.Wavefront
	for i := 0; i < nw; i++ {
		wfs = append(wfs, e.newTimingWf(^uint64(0)))
	}
	inorderMode := rng.Chance(50)
	var accs []*c14Acc
	ops := []string{fmt.Sprintf("c14 ghost n=%d", nw)}
	var toks []string
	ordered := true
	fault := ""
	line := func() string { return strings.Join(ops, " ; ") }

	inflight := func() map[string]bool {
		m := map[string]bool{}
		for _, info := range e.cu.InFlightVectorMemAccess {
			if info.Read != nil {
				m[info.Read.ID] = true
			} else if info.Write != nil {
				m[info.Write.ID] = true
			}
		}
		for _, info := range e.cu.InFlightScalarMemAccess {
			m[info.Req.ID] = true
		}
		return m
	}
	// observe records the token of wavefront i and evaluates the oracles on the real CU
	observe := func(i int) {
		fl := inflight()
		tv, ts, lv, ls := 0, 0, 0, 0
		for _, a := range accs {
			if a.wf != i {
				continue
			}
			any := false
			for _, id := range a.ids {
				any = any || fl[id]
			}
			lastOpen := !a.got[len(a.got)-1]
			if a.scalar {
				if any {
					ts++
				}
				if lastOpen {
					ls++
				}
			} else {
				if any {
					tv++
				}
				if lastOpen {
					lv++
				}
			}
		}
		vm, lgkm := wfs[i].OutstandingVectorMemAccess, wfs[i].OutstandingScalarMemAccess
		toks = append(toks, fmt.Sprintf("%d:%d:%d:%d", vm, lgkm, tv, tv+ts))
		r.Checked("truth-lastcount")
		if vm != lv || lgkm != lv+ls {
			r.Failf("C14.truth.lastcount", line(), "wavefront %d: counters vm=%d lgkm=%d, instructions whose last transaction is unanswered: vector %d scalar %d", i, vm, lgkm, lv, ls)
		}
		if ordered {
			r.Checked("truth-inorder")
			if vm != tv || lgkm != tv+ts {
				r.Failf("C14.truth.inorder", line(), "in-order returns, wavefront %d: counters vm=%d lgkm=%d but %d vector and %d scalar instructions still have transactions in flight", i, vm, lgkm, tv, ts)
			}
		} else if vm < tv || lgkm < tv+ts {
			r.Count("fact:counter-below-truth(out-of-order)")
		}
	}

	steps := rng.Range(4, 16)
	for s := 0; s < steps+40 && fault == ""; s++ {
		var open []*c14Acc
		for _, a := range accs {
			if a.open() {
				open = append(open, a)
			}
		}
		issue := s < steps && len(open) < 6 && (len(open) == 0 || rng.Chance(45))
		if !issue && len(open) == 0 {
			break
		}
		if issue {
			i := rng.Intn(nw)
			wf := wfs[i]
			a := &c14Acc{wf: i}
			uniq := uint64(caseNo*64 + s)
			if rng.Chance(30) { // scalar load: x1..x8, one or two cache lines
				a.scalar = true
				opc := rng.Pick(0, 1, 2, 3)
				base := uint64(0x300000000) + uniq*0x1000
				off := uint64(rng.Pick(0, 16, 32, 48, 60))
				inst := e.decode("gcn3", desc{format: "smem", op: uint32(opc), f: map[string]uint32{"imm": 1, "sdata": 16, "sbase": c02SBaseReg / 2, "offset": uint32(off)}})
				e.tSetS(c02SBaseReg, uint32(base))
				e.tSetS(c02SBaseReg+1, uint32(base>>32))
				wf.SetDynamicInst(wavefront.NewInst(inst))
				var reqs []*mem.ReadReq
				fault = catch(func() { reqs = e.cu.VerifSMEMIssue(wf) })
				if fault != "" || len(reqs) == 0 {
					fault = ""
					continue
				}
				for _, q := range reqs {
					a.ids, a.last, a.got, a.rd = append(a.ids, q.ID), append(a.last, !q.CanWaitForCoalesce), append(a.got, false), append(a.rd, q)
				}
			} else {
				a.store = rng.Chance(35)
				nT := rng.Pick(1, 1, 2, 3, 5)
				for l := 0; l < 64; l++ {
					ad := uint64(0x200000000) + uniq*0x10000 + uint64(l)*64
					e.tSetV(l, c02AddrReg, uint32(ad))
					e.tSetV(l, c02AddrReg+1, uint32(ad>>32))
				}
				opc := uint32(20)
				if a.store {
					opc = 28
				}
				inst := e.decode("gcn3", desc{format: "flat", op: opc, f: map[string]uint32{"vdst": 8, "data": 8, "addr": c02AddrReg, "saddr": 0x7f}})
				wf.SetEXEC((uint64(1) << uint(nT)) - 1)
				wf.SetDynamicInst(wavefront.NewInst(inst))
				ok := false
				var nt int
				fault = catch(func() {
					o, tx := e.cu.VerifFlatIssue(wf)
					ok, nt = o, len(tx)
					for _, t := range tx {
						if t.Read != nil {
							a.ids, a.last, a.rd = append(a.ids, t.Read.ID), append(a.last, !t.Read.CanWaitForCoalesce), append(a.rd, t.Read)
						} else {
							a.ids, a.last, a.rd = append(a.ids, t.Write.ID), append(a.last, !t.Write.CanWaitForCoalesce), append(a.rd, nil)
						}
						a.got = append(a.got, false)
					}
				})
				if fault != "" {
					break
				}
				if !ok || nt == 0 {
					continue
				}
			}
			accs = append(accs, a)
			kind := "v"
			if a.scalar {
				kind = "s"
			}
			ops = append(ops, fmt.Sprintf("gi %d %s %d", i, kind, len(a.ids)-1))
			r.Checked("truth-flags")
			for t, l := range a.last {
				if l != (t == len(a.last)-1) {
					r.Failf("C14.truth.flags", line(), "transaction %d of %d: CanWaitForCoalesce=%v (exactly the last transaction must be the one that decrements the counters)", t, len(a.last), !l)
				}
			}
			observe(i)
			continue
		}
		// a response
		var a *c14Acc
		t := -1
		if inorderMode {
			c := open[rng.Intn(len(open))]
			for _, b := range open { // oldest open instruction of the same wavefront and path
				if b.wf == c.wf && b.scalar == c.scalar {
					a = b
					break
				}
			}
			for j, g := range a.got {
				if !g {
					t = j
					break
				}
			}
		} else {
			a = open[rng.Intn(len(open))]
			var cand []int
			for j, g := range a.got {
				if !g {
					cand = append(cand, j)
				}
			}
			t = cand[rng.Intn(len(cand))]
		}
		k := 0
		for _, b := range open {
			if b == a {
				break
			}
			if b.wf == a.wf && b.scalar == a.scalar {
				k++
			}
		}
		others := true
		for j, g := range a.got {
			if j != t && !g {
				others = false
			}
		}
		if k != 0 || (a.last[t] && !others) {
			ordered = false
		}
		kind := 0
		switch {
		case a.scalar:
			kind = 3
		case a.store:
			kind = 1
		}
		lastN := 0
		if a.last[t] {
			lastN = 1
		}
		ops = append(ops, fmt.Sprintf("gr %d %d %d %d", a.wf, kind, k, lastN))
		a.got[t] = true
		fault = catch(func() {
			switch {
			case a.scalar:
				e.cu.VerifScalarMemRsp(mem.DataReadyRspBuilder{}.WithRspTo(a.ids[t]).WithData(make([]byte, a.rd[t].AccessByteSize)).Build())
			case a.store:
				e.cu.VerifVectorMemRsp(mem.WriteDoneRspBuilder{}.WithRspTo(a.ids[t]).Build())
			default:
				e.cu.VerifVectorMemRsp(mem.DataReadyRspBuilder{}.WithRspTo(a.ids[t]).WithData(make([]byte, 64)).Build())
			}
		})
		if fault != "" {
			break
		}
		observe(a.wf)
	}
	e.cu.InFlightVectorMemAccess, e.cu.InFlightScalarMemAccess = nil, nil
	out := strings.Join(append(toks, fmt.Sprintf("ok=true ord=%v", ordered)), " ")
	if fault != "" {
		out = "fault:" + fault
	}
	r.Case(line(), out)
	if ordered {
		r.Count("ghost:in-order")
	} else {
		r.Count("ghost:out-of-order")
	}
}

// ---- invariant monitor on whole-platform runs --------------------------------------------------
//
// The theorems are about schedules in which the (unmodelled) arbiter, scoreboard, fetch/decode and
// unit pipelines only choose *which* legal event happens. Here small real programs run on the real
// r9nano platform (child process) and after every tick of every compute unit the model's invariants
// are evaluated on the real scheduler state: internalExecuting entries are Running or parked on an
// s_barrier and occur once (Inv), no work-group has all its unfinished wavefronts parked (NS,
// barrier_live), the barrier buffer is within its capacity, and the two counters of every wavefront
// equal the number of its instructions that have transactions in the CU's in-flight lists
// (waitcnt_tracks_truth behind the real caches / reorder buffers: the in-order hypothesis).
type c14Mon struct {
	cus          map[sim.Handler]*cu.ComputeUnit
	ticks, evals int
	viol         map[string]string
}

func (m *c14Mon) bad(sig, format string, a ...interface{}) {
	if _, ok := m.viol[sig]; !ok { // printed at once: the run may hang afterwards
		m.viol[sig] = fmt.Sprintf(format, a...)
		fmt.Printf("VIOL %s %s\n", sig, m.viol[sig])
	}
}

func (m *c14Mon) Func(ctx sim.HookCtx) {
	if ctx.Pos != sim.HookPosAfterEvent {
		return
	}
	evt, ok := ctx.Item.(sim.Event)
	if !ok {
		return
	}
	c, ok := m.cus[evt.Handler()]
	if !ok {
		return
	}
	var wfs []*wavefront.Wavefront
	for i := range c.WfPools {
		wfs = append(wfs, c.VerifPoolWfs(i)...)
	}
	if len(wfs) == 0 {
		return
	}
	m.ticks++
	s := c.VerifScheduler()
	seen := map[*wavefront.Wavefront]bool{}
	for _, wf := range s.VerifInternalExecuting() {
		m.evals++
		in := wf.Inst()
		barrier := in != nil && in.FormatType == insts.SOPP && in.Opcode == 10
		if !(wf.State == wavefront.WfRunning || (wf.State == wavefront.WfAtBarrier && barrier)) {
			m.bad("C14.mon.exec.state", "t=%v %s: an internalExecuting entry is in state %d (s_barrier=%v)", evt.Time(), c.Name(), wf.State, barrier)
		}
		if seen[wf] {
			m.bad("C14.mon.exec.dup", "t=%v %s: a wavefront is twice in internalExecuting", evt.Time(), c.Name())
		}
		seen[wf] = true
	}
	if n := len(s.VerifBarrierBuffer()); n > s.VerifBarrierBufferSize() {
		m.bad("C14.mon.buffer.bound", "t=%v %s: %d wavefronts in the barrier buffer", evt.Time(), c.Name(), n)
	}
	vLast, sLast := map[*wavefront.Wavefront]int{}, map[*wavefront.Wavefront]int{}
	vInst, sInst := map[*wavefront.Wavefront]map[*wavefront.Inst]bool{}, map[*wavefront.Wavefront]map[*wavefront.Inst]bool{}
	add := func(mm map[*wavefront.Wavefront]map[*wavefront.Inst]bool, wf *wavefront.Wavefront, in *wavefront.Inst) {
		if mm[wf] == nil {
			mm[wf] = map[*wavefront.Inst]bool{}
		}
		mm[wf][in] = true
	}
	for _, info := range c.InFlightVectorMemAccess {
		wait := false
		if info.Read != nil {
			wait = info.Read.CanWaitForCoalesce
		} else if info.Write != nil {
			wait = info.Write.CanWaitForCoalesce
		}
		if !wait {
			vLast[info.Wavefront]++
		}
		add(vInst, info.Wavefront, info.Inst)
	}
	for _, info := range c.InFlightScalarMemAccess {
		if info.Req != nil && !info.Req.CanWaitForCoalesce {
			sLast[info.Wavefront]++
		}
		add(sInst, info.Wavefront, info.Inst)
	}
	groups := map[interface{}][]*wavefront.Wavefront{}
	for _, wf := range wfs {
		m.evals += 2
		groups[wf.WG] = append(groups[wf.WG], wf)
		vm, lgkm := wf.OutstandingVectorMemAccess, wf.OutstandingScalarMemAccess
		if vm != vLast[wf] || lgkm != vLast[wf]+sLast[wf] {
			m.bad("C14.mon.truth.lastcount", "t=%v %s: counters vm=%d lgkm=%d, in-flight last transactions: vector %d scalar %d", evt.Time(), c.Name(), vm, lgkm, vLast[wf], sLast[wf])
		}
		if vm != len(vInst[wf]) || lgkm != len(vInst[wf])+len(sInst[wf]) {
			m.bad("C14.mon.truth.inorder", "t=%v %s: counters vm=%d lgkm=%d but %d vector and %d scalar instructions have transactions in flight (responses out of order?)", evt.Time(), c.Name(), vm, lgkm, len(vInst[wf]), len(sInst[wf]))
		}
	}
	for _, g := range groups {
		m.evals++
		parked, all := false, true
		for _, wf := range g {
			parked = parked || wf.State == wavefront.WfAtBarrier
			all = all && (wf.State == wavefront.WfAtBarrier || wf.State == wavefront.WfCompleted)
		}
		if parked && all {
			m.bad("C14.mon.barrier.stuck", "t=%v %s: every unfinished wavefront of a work-group of %d is parked at the barrier", evt.Time(), c.Name(), len(g))
		}
	}
}

// c14MonChild: child c14mon <name> <wg> <nwg> <p1> <p2> <dir>; prints MON/VIOL lines
func c14MonChild(args []string) {
	n := make([]int, 4)
	for i := range n {
		n[i], _ = strconv.Atoi(args[1+i])
	}
	name, wg, nwg, p1, p2 := args[0], n[0], n[1], n[2], n[3]
	p := newTimingPlatform(args[5], 1, "r9nano", false)
	m := &c14Mon{cus: map[sim.Handler]*cu.ComputeUnit{}, viol: map[string]string{}}
	for _, comp := range p.sim.Components() {
		if c, ok := comp.(*cu.ComputeUnit); ok {
			m.cus[c.TickingComponent] = c
		}
	}
	p.sim.GetEngine().AcceptHook(m)
	co := &insts.KernelCodeObject{KernelCodeObjectMeta: &insts.KernelCodeObjectMeta{}, Data: c14Program(name, wg, p1, p2), Version: insts.CodeObjectV3}
	co.KernargSegmentByteSize = 16
	co.EnableSgprKernargSegmentPtr = true
	co.ComputePgmRsrc2 = 1 << 7
	co.WFSgprCount = 16
	co.WIVgprCount = 12
	if name == "lds" {
		co.GroupSegmentByteSize = uint32(4 * wg)
	}
	total := wg * nwg
	ctx := p.drv.Init()
	out := p.drv.AllocateMemory(ctx, uint64(4*total))
	in := p.drv.AllocateMemory(ctx, uint64(4*total))
	inData := make([]uint32, total)
	for i := range inData {
		inData[i] = uint32(2*i + 1)
	}
	p.drv.MemCopyH2D(ctx, in, inData)
	p.drv.MemCopyH2D(ctx, out, make([]uint32, total))
	ka := c14KArgs{Out: out, In: in}
	p.drv.LaunchKernel(ctx, co, [3]uint32{uint32(total), 1, 1}, [3]uint16{uint16(wg), 1, 1}, &ka)
	fmt.Printf("MON cus=%d ticks=%d evals=%d\n", len(m.cus), m.ticks, m.evals)
	os.Exit(0)
}

func runC14Mon(r *Run, rng *Rng, replay string) {
	cases := []c14ProgCase{{"exit", 128, 1, 0, 0}, {"exit", 128, 2, 0, -6}, {"lds", 256, 2, 2, 0}, {"load", 128, 3, 0, 0}}
	if r.Tier == "thorough" {
		cases = append(cases, c14ProgCase{"exit", 256, 3, 1, 3}, c14ProgCase{"lds", 1024, 2, 1, 0},
			c14ProgCase{"load", 64 * rng.Range(1, 8), rng.Range(1, 4), 0, 0}, c14ProgCase{"lds", 64 * rng.Range(1, 16), rng.Range(1, 3), rng.Range(1, 3), 0})
	}
	dir := filepath.Join(r.OutDir, "c14mon")
	os.MkdirAll(dir, 0o755)
	for _, c := range cases {
		cs := "c14 mon " + c.String()
		done := false
		for attempt := 0; attempt < 2 && !done; attempt++ {
			ctx, cancel := context.WithTimeout(context.Background(), 90*time.Second)
			cmd := exec.CommandContext(ctx, os.Args[0], "child", "c14mon", c.name, strconv.Itoa(c.wg), strconv.Itoa(c.nwg),
				strconv.Itoa(c.p1), strconv.Itoa(c.p2), dir)
			cmd.Env = append(os.Environ(), "GOMEMLIMIT=4GiB")
			outb, _ := cmd.CombinedOutput()
			cancel()
			for _, l := range strings.Split(string(outb), "\n") {
				switch {
				case strings.HasPrefix(l, "VIOL "):
					f := strings.SplitN(l, " ", 3)
					r.Failf(f[1], cs, "%s", f[2])
				case strings.HasPrefix(l, "MON "):
					done = true
					var cus, ticks, evals int
					fmt.Sscanf(l, "MON cus=%d ticks=%d evals=%d", &cus, &ticks, &evals)
					r.CountN("mon:cu-ticks", ticks)
					r.CountN("mon:predicate-evals", evals)
					r.Checked("mon." + c.name)
					if ticks == 0 {
						r.Failf("C14.mon.blind", cs, "the monitor saw no tick of a compute unit with wavefronts (%d CUs hooked)", cus)
					}
				}
			}
		}
		if !done {
			r.Note("c14 mon: %s did not finish twice (hangs are reported by the c14 prog cases)", c.String())
		}
	}
}
