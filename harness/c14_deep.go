package main

import (
	"fmt"
	"strings"

	"github.com/sarchlab/akita/v4/mem/mem"
	"github.com/sarchlab/mgpusim/v4/amd/timing/wavefront"
)

func init() { register("C14", runC14Ghost) }

// Tie of the ghost layer of the C14 model (`c14 ghost …`, theorems waitcnt_tracks_truth /
// counters_count_last_responses): 1-3 wavefronts of a real compute unit issue FLAT loads/stores and
// scalar loads through the real VectorMemoryUnit / ScalarUnit code, the responses are handed to the
// real return handlers in order or shuffled. After every event the wavefront's two counters and the
// number of its instructions that still have a transaction in the CU's in-flight lists (the truth)
// are compared with the model; the oracles check the transaction flags, "counter = instructions
// whose last transaction is unanswered" (any order) and "counter = truth" (in-order schedules).
type c14Acc struct {
	wf            int
	scalar, store bool
	ids           []string
	last, got     []bool
	rd            []*mem.ReadReq
}

func (a *c14Acc) open() bool {
	for _, g := range a.got {
		if !g {
			return true
		}
	}
	return false
}

func runC14Ghost(r *Run, rng *Rng, replay string) {
	e := newC02Env()
	n := 60
	if r.Tier == "thorough" {
		n = 2500
	}
	for k := 0; k < n; k++ {
		c14GhostCase(r, rng, e, k)
	}
}

func c14GhostCase(r *Run, rng *Rng, e *c02Env, caseNo int) {
	nw := rng.Range(1, 3)
	var wfs []*wavefront.Wavefront
	for i := 0; i < nw; i++ {
		wfs = append(wfs, e.newTimingWf(^uint64(0)))
	}
	inorderMode := rng.Chance(50)
	var accs []*c14Acc
	ops := []string{fmt.Sprintf("c14 ghost n=%d", nw)}
	var toks []string
	ordered := true
	fault := ""
	line := func() string { return strings.Join(ops, " ; ") }

	inflight := func() map[string]bool {
		m := map[string]bool{}
		for _, info := range e.cu.InFlightVectorMemAccess {
			if info.Read != nil {
				m[info.Read.ID] = true
			} else if info.Write != nil {
				m[info.Write.ID] = true
			}
		}
		for _, info := range e.cu.InFlightScalarMemAccess {
			m[info.Req.ID] = true
		}
		return m
	}
	// observe records the token of wavefront i and evaluates the oracles on the real CU
	observe := func(i int) {
		fl := inflight()
		tv, ts, lv, ls := 0, 0, 0, 0
		for _, a := range accs {
			if a.wf != i {
				continue
			}
			any := false
			for _, id := range a.ids {
				any = any || fl[id]
			}
			lastOpen := !a.got[len(a.got)-1]
			if a.scalar {
				if any {
					ts++
				}
				if lastOpen {
					ls++
				}
			} else {
				if any {
					tv++
				}
				if lastOpen {
					lv++
				}
			}
		}
		vm, lgkm := wfs[i].OutstandingVectorMemAccess, wfs[i].OutstandingScalarMemAccess
		toks = append(toks, fmt.Sprintf("%d:%d:%d:%d", vm, lgkm, tv, tv+ts))
		r.Checked("truth-lastcount")
		if vm != lv || lgkm != lv+ls {
			r.Failf("C14.truth.lastcount", line(), "wavefront %d: counters vm=%d lgkm=%d, instructions whose last transaction is unanswered: vector %d scalar %d", i, vm, lgkm, lv, ls)
		}
		if ordered {
			r.Checked("truth-inorder")
			if vm != tv || lgkm != tv+ts {
				r.Failf("C14.truth.inorder", line(), "in-order returns, wavefront %d: counters vm=%d lgkm=%d but %d vector and %d scalar instructions still have transactions in flight", i, vm, lgkm, tv, ts)
			}
		} else if vm < tv || lgkm < tv+ts {
			r.Count("fact:counter-below-truth(out-of-order)")
		}
	}

	steps := rng.Range(4, 16)
	for s := 0; s < steps+40 && fault == ""; s++ {
		var open []*c14Acc
		for _, a := range accs {
			if a.open() {
				open = append(open, a)
			}
		}
		issue := s < steps && len(open) < 6 && (len(open) == 0 || rng.Chance(45))
		if !issue && len(open) == 0 {
			break
		}
		if issue {
			i := rng.Intn(nw)
			wf := wfs[i]
			a := &c14Acc{wf: i}
			uniq := uint64(caseNo*64 + s)
			if rng.Chance(30) { // scalar load: x1..x8, one or two cache lines
				a.scalar = true
				opc := rng.Pick(0, 1, 2, 3)
				base := uint64(0x300000000) + uniq*0x1000
				off := uint64(rng.Pick(0, 16, 32, 48, 60))
				inst := e.decode("gcn3", desc{format: "smem", op: uint32(opc), f: map[string]uint32{"imm": 1, "sdata": 16, "sbase": c02SBaseReg / 2, "offset": uint32(off)}})
				e.tSetS(c02SBaseReg, uint32(base))
				e.tSetS(c02SBaseReg+1, uint32(base>>32))
				wf.SetDynamicInst(wavefront.NewInst(inst))
				var reqs []*mem.ReadReq
				fault = catch(func() { reqs = e.cu.VerifSMEMIssue(wf) })
				if fault != "" || len(reqs) == 0 {
					fault = ""
					continue
				}
				for _, q := range reqs {
					a.ids, a.last, a.got, a.rd = append(a.ids, q.ID), append(a.last, !q.CanWaitForCoalesce), append(a.got, false), append(a.rd, q)
				}
			} else {
				a.store = rng.Chance(35)
				nT := rng.Pick(1, 1, 2, 3, 5)
				for l := 0; l < 64; l++ {
					ad := uint64(0x200000000) + uniq*0x10000 + uint64(l)*64
					e.tSetV(l, c02AddrReg, uint32(ad))
					e.tSetV(l, c02AddrReg+1, uint32(ad>>32))
				}
				opc := uint32(20)
				if a.store {
					opc = 28
				}
				inst := e.decode("gcn3", desc{format: "flat", op: opc, f: map[string]uint32{"vdst": 8, "data": 8, "addr": c02AddrReg, "saddr": 0x7f}})
				wf.SetEXEC((uint64(1) << uint(nT)) - 1)
				wf.SetDynamicInst(wavefront.NewInst(inst))
				ok := false
				var nt int
				fault = catch(func() {
					o, tx := e.cu.VerifFlatIssue(wf)
					ok, nt = o, len(tx)
					for _, t := range tx {
						if t.Read != nil {
							a.ids, a.last, a.rd = append(a.ids, t.Read.ID), append(a.last, !t.Read.CanWaitForCoalesce), append(a.rd, t.Read)
						} else {
							a.ids, a.last, a.rd = append(a.ids, t.Write.ID), append(a.last, !t.Write.CanWaitForCoalesce), append(a.rd, nil)
						}
						a.got = append(a.got, false)
					}
				})
				if fault != "" {
					break
				}
				if !ok || nt == 0 {
					continue
				}
			}
			accs = append(accs, a)
			kind := "v"
			if a.scalar {
				kind = "s"
			}
			ops = append(ops, fmt.Sprintf("gi %d %s %d", i, kind, len(a.ids)-1))
			r.Checked("truth-flags")
			for t, l := range a.last {
				if l != (t == len(a.last)-1) {
					r.Failf("C14.truth.flags", line(), "transaction %d of %d: CanWaitForCoalesce=%v (exactly the last transaction must be the one that decrements the counters)", t, len(a.last), !l)
				}
			}
			observe(i)
			continue
		}
		// a response
		var a *c14Acc
		t := -1
		if inorderMode {
			c := open[rng.Intn(len(open))]
			for _, b := range open { // oldest open instruction of the same wavefront and path
				if b.wf == c.wf && b.scalar == c.scalar {
					a = b
					break
				}
			}
			for j, g := range a.got {
				if !g {
					t = j
					break
				}
			}
		} else {
			a = open[rng.Intn(len(open))]
			var cand []int
			for j, g := range a.got {
				if !g {
					cand = append(cand, j)
				}
			}
			t = cand[rng.Intn(len(cand))]
		}
		k := 0
		for _, b := range open {
			if b == a {
				break
			}
			if b.wf == a.wf && b.scalar == a.scalar {
				k++
			}
		}
		others := true
		for j, g := range a.got {
			if j != t && !g {
				others = false
			}
		}
		if k != 0 || (a.last[t] && !others) {
			ordered = false
		}
		kind := 0
		switch {
		case a.scalar:
			kind = 3
		case a.store:
			kind = 1
		}
		lastN := 0
		if a.last[t] {
			lastN = 1
		}
		ops = append(ops, fmt.Sprintf("gr %d %d %d %d", a.wf, kind, k, lastN))
		a.got[t] = true
		fault = catch(func() {
			switch {
			case a.scalar:
				e.cu.VerifScalarMemRsp(mem.DataReadyRspBuilder{}.WithRspTo(a.ids[t]).WithData(make([]byte, a.rd[t].AccessByteSize)).Build())
			case a.store:
				e.cu.VerifVectorMemRsp(mem.WriteDoneRspBuilder{}.WithRspTo(a.ids[t]).Build())
			default:
				e.cu.VerifVectorMemRsp(mem.DataReadyRspBuilder{}.WithRspTo(a.ids[t]).WithData(make([]byte, 64)).Build())
			}
		})
		if fault != "" {
			break
		}
		observe(a.wf)
	}
	e.cu.InFlightVectorMemAccess, e.cu.InFlightScalarMemAccess = nil, nil
	out := strings.Join(append(toks, fmt.Sprintf("ok=true ord=%v", ordered)), " ")
	if fault != "" {
		out = "fault:" + fault
	}
	r.Case(line(), out)
	if ordered {
		r.Count("ghost:in-order")
	} else {
		r.Count("ghost:out-of-order")
	}
}
