package main

import (
	"fmt"
	"io"
	"log"
	"os"
	"sort"
	"strings"
	"sync"
	"time"

	"github.com/sarchlab/akita/v4/sim"
)

// =====================================================================================
// The event engines themselves (second deepening pass): Akita's event queue (container/heap with
// a Less that compares times only), SerialEngine (Schedule / nextEvent / Run) and ParallelEngine
// (rounds) are driven with scripted handlers and compared with the Lean models C05.Eng / C05.Par.
//
//   c05 evq push:t:id … pop …                      real sim.EventQueueImpl      vs Eng.evqTrace
//   c05 eng init=t:id:s,… fuel=N ; id=a:t:id:s … ; real sim.SerialEngine        vs Eng.run
//   c05 par init=…        fuel=N ; …               real sim.ParallelEngine      vs Par.run
//
// Oracles on the implementation (independent of the models):
//   C05.evq.min            every Pop returns an event of minimal time among the content
//   C05.engine.time-order  events are handled in non-decreasing time order
//   C05.engine.min         the handled event is a minimum of everything pending; a secondary event
//                          is handled only when every pending primary event is strictly later
//   C05.engine.exactly-once at rest, handled = accepted (as multisets)
//   C05.engine.rerun       the same script on a fresh engine gives the same log
//   C05.par.same-events    the parallel engine handles the same (id, time) multiset as the serial one
//   C05.par.round-order    parallel log: times non-decreasing, primary before secondary at one time
// =====================================================================================

func init() { register("C05", runC05Engine) }

type c05Ev struct {
	t   sim.VTimeInSec
	id  int
	sec bool
	h   sim.Handler
}

func (e c05Ev) Time() sim.VTimeInSec { return e.t }
func (e c05Ev) Handler() sim.Handler { return e.h }
func (e c05Ev) IsSecondary() bool    { return e.sec }

type c05Follow struct {
	abs bool
	t   int
	id  int
	sec bool
}

type c05Script struct {
	init []c05Ev
	prog map[int][]c05Follow
	ids  []int // prog keys in line order
}

func c05b(b bool) string {
	if b {
		return "1"
	}
	return "0"
}

func (s *c05Script) line(kind string, fuel int) string {
	var in []string
	for _, e := range s.init {
		in = append(in, fmt.Sprintf("%d:%d:%s", int(e.t), e.id, c05b(e.sec)))
	}
	parts := []string{fmt.Sprintf("c05 %s init=%s fuel=%d", kind, strings.Join(in, ","), fuel)}
	for _, id := range s.ids {
		var fs []string
		for _, f := range s.prog[id] {
			fs = append(fs, fmt.Sprintf("%s:%d:%d:%s", c05b(f.abs), f.t, f.id, c05b(f.sec)))
		}
		parts = append(parts, fmt.Sprintf("%d=%s", id, strings.Join(fs, " ")))
	}
	return strings.Join(parts, " ; ")
}

// c05GenScript: ids are unique; a follow-up's id is larger than every earlier id, so scripts are
// acyclic and every run ends. Times are small so that ties are the common case.
func c05GenScript(rng *Rng, allowFault bool) *c05Script {
	s := &c05Script{prog: map[int][]c05Follow{}}
	n := rng.Pick(0, 1, 2, 3, 4, 6, 9, 14)
	next := 1
	tmax := rng.Pick(0, 1, 2, 4)
	var pending []int
	for i := 0; i < n; i++ {
		s.init = append(s.init, c05Ev{t: sim.VTimeInSec(rng.Range(0, tmax)), id: next, sec: rng.Chance(30)})
		pending = append(pending, next)
		next++
	}
	budget := rng.Pick(0, 3, 8, 20)
	for len(pending) > 0 && budget > 0 {
		id := pending[0]
		pending = pending[1:]
		k := rng.Pick(0, 0, 1, 1, 2, 3)
		if k == 0 {
			continue
		}
		var fs []c05Follow
		for j := 0; j < k && budget > 0; j++ {
			f := c05Follow{t: rng.Pick(0, 0, 1, 1, 2, 3), id: next, sec: rng.Chance(30)}
			if allowFault && rng.Chance(3) {
				f.abs, f.t = true, rng.Range(0, 3) // an absolute time, possibly in the past
			}
			fs = append(fs, f)
			pending = append(pending, next)
			next++
			budget--
		}
		s.prog[id] = fs
		s.ids = append(s.ids, id)
	}
	return s
}

type c05LogEntry struct {
	id  int
	t   int
	sec bool
}

// c05Handler logs and schedules the scripted follow-ups; it also keeps the set of pending events
// for the min / tie-rule oracle.
type c05Handler struct {
	mu      sync.Mutex
	eng     sim.Engine
	script  *c05Script
	log     []c05LogEntry
	pending map[int]c05Ev
	acc     []c05LogEntry // accepted by Schedule
	bad     []string
	serial  bool
}

func (h *c05Handler) schedule(e c05Ev) {
	h.eng.Schedule(e) // may panic
	h.mu.Lock()
	h.pending[e.id] = e
	h.acc = append(h.acc, c05LogEntry{e.id, int(e.t), e.sec})
	h.mu.Unlock()
}

func (h *c05Handler) Handle(evt sim.Event) error {
	e := evt.(c05Ev)
	now := h.eng.CurrentTime()
	h.mu.Lock()
	h.log = append(h.log, c05LogEntry{e.id, int(now), e.sec})
	delete(h.pending, e.id)
	if h.serial {
		for _, p := range h.pending {
			if p.t < e.t {
				h.bad = append(h.bad, fmt.Sprintf("min: event %d@%d handled while %d@%d is pending", e.id, int(e.t), p.id, int(p.t)))
			}
			if e.sec && !p.sec && p.t <= e.t {
				h.bad = append(h.bad, fmt.Sprintf("tie: secondary event %d@%d handled while primary %d@%d is pending", e.id, int(e.t), p.id, int(p.t)))
			}
		}
	}
	if now != e.t {
		h.bad = append(h.bad, fmt.Sprintf("now: event %d@%d handled at engine time %v", e.id, int(e.t), now))
	}
	h.mu.Unlock()
	for _, f := range h.script.prog[e.id] {
		t := sim.VTimeInSec(f.t)
		if !f.abs {
			t = now + sim.VTimeInSec(f.t)
		}
		h.schedule(c05Ev{t: t, id: f.id, sec: f.sec, h: h})
	}
	return nil
}

func c05ShowLog(l []c05LogEntry) string {
	p := make([]string, len(l))
	for i, e := range l {
		p[i] = fmt.Sprintf("%d@%d", e.id, e.t)
	}
	return strings.Join(p, " ")
}

func c05RunSerial(s *c05Script) (h *c05Handler, status string) {
	eng := sim.NewSerialEngine()
	h = &c05Handler{eng: eng, script: s, pending: map[int]c05Ev{}, serial: true}
	status = "ok"
	f := catch(func() {
		for _, e := range s.init {
			e.h = h
			h.schedule(e)
		}
		if err := eng.Run(); err != nil {
			panic(err)
		}
	})
	if f != "" {
		status = "fault"
	}
	return h, status
}

func c05Multiset(l []c05LogEntry) string {
	p := make([]string, len(l))
	for i, e := range l {
		p[i] = fmt.Sprintf("%06d@%d:%v", e.id, e.t, e.sec)
	}
	sort.Strings(p)
	return strings.Join(p, " ")
}

func c05EngineCases(r *Run, rng *Rng) {
	n := 250
	if r.Tier == "thorough" {
		n = 5000
	}
	for c := 0; c < n; c++ {
		s := c05GenScript(rng, true)
		line := s.line("eng", 200)
		h, status := c05RunSerial(s)
		r.Case(line, fmt.Sprintf("%s | %s now=%d", c05ShowLog(h.log), status, int(h.eng.CurrentTime())))
		r.Count("eng." + status)
		r.Checked("engine.time-order")
		for i := 1; i < len(h.log); i++ {
			if h.log[i].t < h.log[i-1].t {
				r.Failf("C05.engine.time-order", line, "event %d handled at time %d after event %d at time %d", h.log[i].id, h.log[i].t, h.log[i-1].id, h.log[i-1].t)
				break
			}
		}
		r.Checked("engine.min")
		if len(h.bad) > 0 {
			r.Failf("C05.engine.min", line, "%s", h.bad[0])
		}
		if status == "ok" {
			r.Checked("engine.exactly-once")
			if c05Multiset(h.log) != c05Multiset(h.acc) {
				r.Failf("C05.engine.exactly-once", line, "handled {%s}, accepted by Schedule {%s}", c05ShowLog(h.log), c05ShowLog(h.acc))
			}
		}
		r.Checked("engine.rerun")
		if h2, st2 := c05RunSerial(s); c05ShowLog(h2.log) != c05ShowLog(h.log) || st2 != status {
			r.Failf("C05.engine.rerun", line, "second run on a fresh engine: [%s] %s, first run [%s] %s", c05ShowLog(h2.log), st2, c05ShowLog(h.log), status)
		}
	}
}

func c05EvqCases(r *Run, rng *Rng) {
	n := 150
	if r.Tier == "thorough" {
		n = 3000
	}
	fixed := [][]string{
		{"push:1:1", "push:1:2", "push:1:3", "pop", "pop", "pop"}, // same time: popped 1,3,2 — not FIFO
		{"push:1:9", "push:1:1", "push:1:2", "pop", "pop", "pop"}, // 9 first: 1 and 2 change places
		{"push:1:1", "push:1:2", "pop", "pop"},
	}
	for c := 0; c < n+len(fixed); c++ {
		var ops []string
		if c < len(fixed) {
			ops = fixed[c]
		} else {
			k := rng.Pick(1, 3, 6, 12, 25, 40)
			tmax := rng.Pick(0, 1, 3, 9)
			size, id := 0, 1
			for i := 0; i < k; i++ {
				if size > 0 && rng.Chance(40) {
					ops = append(ops, "pop")
					size--
				} else {
					ops = append(ops, fmt.Sprintf("push:%d:%d", rng.Range(0, tmax), id))
					id++
					size++
				}
			}
			for ; size > 0; size-- {
				ops = append(ops, "pop")
			}
		}
		q := sim.NewEventQueue()
		content := map[int]int{}
		var out []string
		line := "c05 evq " + strings.Join(ops, " ")
		for _, o := range ops {
			if o == "pop" {
				e := q.Pop().(c05Ev)
				out = append(out, fmt.Sprintf("%d@%d", e.id, int(e.t)))
				r.Checked("evq.min")
				for id2, t2 := range content {
					if t2 < int(e.t) {
						r.Failf("C05.evq.min", line, "Pop returned %d@%d while %d@%d is in the queue", e.id, int(e.t), id2, t2)
						break
					}
				}
				delete(content, e.id)
				continue
			}
			var t, id int
			fmt.Sscanf(o, "push:%d:%d", &t, &id)
			q.Push(c05Ev{t: sim.VTimeInSec(t), id: id})
			content[id] = t
		}
		r.Case(line, strings.Join(out, " "))
		r.Count("evq")
	}
}

// canonical form of a parallel log: maximal runs of equal (time, class), ids ascending
func c05ParCanon(l []c05LogEntry) string {
	var parts []string
	for i := 0; i < len(l); {
		j := i
		var ids []int
		for j < len(l) && l[j].t == l[i].t && l[j].sec == l[i].sec {
			ids = append(ids, l[j].id)
			j++
		}
		sort.Ints(ids)
		p := make([]string, len(ids))
		for k, id := range ids {
			p[k] = fmt.Sprint(id)
		}
		cl := "p"
		if l[i].sec {
			cl = "s"
		}
		parts = append(parts, fmt.Sprintf("%d%s:%s", l[i].t, cl, strings.Join(p, ",")))
		i = j
	}
	return strings.Join(parts, " ")
}

func c05ParCases(r *Run, rng *Rng) {
	n := 120
	if r.Tier == "thorough" {
		n = 2500
	}
	for c := 0; c < n; c++ {
		s := c05GenScript(rng, false) // a panic inside a round's goroutine would kill the process
		line := s.line("par", 200)
		eng := sim.NewParallelEngine()
		h := &c05Handler{eng: eng, script: s, pending: map[int]c05Ev{}}
		f := catch(func() {
			for _, e := range s.init {
				e.h = h
				h.schedule(e)
			}
			if err := eng.Run(); err != nil {
				panic(err)
			}
		})
		if f != "" {
			r.Failf("C05.par.fault", line, "parallel engine: %s", f)
			continue
		}
		r.Case(line, fmt.Sprintf("%s | now=%d left=%d", c05ParCanon(h.log), int(eng.CurrentTime()), len(h.pending)))
		r.Count("par")
		r.Checked("par.round-order")
		for i := 1; i < len(h.log); i++ {
			a, b := h.log[i-1], h.log[i]
			if b.t < a.t {
				r.Failf("C05.par.round-order", line, "event %d@%d handled after event %d@%d", b.id, b.t, a.id, a.t)
				break
			}
		}
		if len(h.bad) > 0 {
			r.Failf("C05.par.round-order", line, "%s", h.bad[0])
		}
		hs, st := c05RunSerial(s)
		r.Checked("par.same-events")
		if st != "ok" || c05Multiset(hs.log) != c05Multiset(h.log) {
			r.Failf("C05.par.same-events", line, "serial engine (%s) handled {%s}, parallel engine {%s}", st, c05ShowLog(hs.log), c05ShowLog(h.log))
		}
	}
}

// c05ParWitness replays the Lean witness `same_component_events_break_it` on the REAL parallel
// engine: two events of one time whose handlers update one shared value (x+1, 2x) are forced into
// both orders with gates (the engine runs them in two goroutines, so both orders are schedules the
// host may produce); the results must be the 4 and 3 of the theorem. With the serial engine the
// second order is impossible (one handler at a time).
type c05GateHandler struct {
	x     *int
	f     func(int) int
	gate  chan struct{}
	done  chan struct{}
	times int
}

func (h *c05GateHandler) Handle(e sim.Event) error {
	<-h.gate
	*h.x = h.f(*h.x)
	close(h.done)
	return nil
}

func c05ParWitness(r *Run) {
	res := [2]int{}
	for order := 0; order < 2; order++ {
		eng := sim.NewParallelEngine()
		x := 1
		ha := &c05GateHandler{x: &x, f: func(v int) int { return v + 1 }, gate: make(chan struct{}), done: make(chan struct{})}
		hb := &c05GateHandler{x: &x, f: func(v int) int { return v * 2 }, gate: make(chan struct{}), done: make(chan struct{})}
		eng.Schedule(c05Ev{t: 1, id: 1, h: ha})
		eng.Schedule(c05Ev{t: 1, id: 2, h: hb})
		first, second := ha, hb
		if order == 1 {
			first, second = hb, ha
		}
		go func() {
			close(first.gate)
			<-first.done
			close(second.gate)
		}()
		ok, _ := withTimeout(5*time.Second, func() { eng.Run() })
		if !ok {
			r.Failf("C05.par.witness", "c05 parwit", "parallel engine did not finish the round of two gated events (order %d)", order)
			return
		}
		res[order] = x
	}
	r.Checked("par.witness")
	r.Count(fmt.Sprintf("par.witness.%d-%d", res[0], res[1]))
	if res != [2]int{4, 3} {
		r.Failf("C05.par.witness", "c05 parwit", "two same-time events on one value (x+1, 2x from 1) under the two forced orders gave %v on the real ParallelEngine; the Lean witness same_component_events_break_it says [4 3]", res)
	}
}

func runC05Engine(r *Run, rng *Rng, replay string) {
	if only := os.Getenv("C05_ONLY"); only != "" && only != "engine" {
		return
	}
	old := log.Writer()
	log.SetOutput(io.Discard) // Schedule's log.Panic prints before it panics
	defer log.SetOutput(old)
	c05EvqCases(r, rng)
	c05EngineCases(r, rng)
	c05ParCases(r, rng)
	c05ParWitness(r)
}
