package main

import (
	"fmt"
	"reflect"
	"strconv"
	"strings"

	"github.com/sarchlab/akita/v4/mem/mem"
	"github.com/sarchlab/akita/v4/mem/vm"
	"github.com/sarchlab/akita/v4/sim"
	"github.com/sarchlab/mgpusim/v4/amd/timing/rob"
)

func init() { register("C15", runC15Deep) }

// Second C15 runner (proof-deepening round).
//
// 1. `c15 fields ; <req> ; <req'>` — which request fields reach the Bottom port (Lean:
//    forwarded_fields_exact, C15.handleFields): both requests (kind src pid addr size data mask
//    cwc info trafficBytes) go through one real ROB; the answer says whether the two forwarded
//    messages agree in everything but the fresh id, and prints the first one together with its
//    Info (nil?) and TrafficBytes. Independent oracle: the generator varies exactly one field,
//    so the expected answer is known without the model (C15.fields.lost / C15.fields.leak).
// 2. The scenario of the Lean witness residueEvs and random variants (ordinary `c15 cap=…` scenario
//    lines): responses retired into the Top port's outgoing buffer before a flush. Before repair
//    c5e97df8 (dropUndeliveredMsgs) they were still handed to the requester after the
//    acknowledgement (flush_silences_top_before_fix_refuted); on the repaired ROB nothing leaves
//    the Top port after the acknowledgement (flush_silences_top) — oracle C15.flush.top-residue.

type c15FieldReq struct {
	kind               string
	src, pid, addr     int
	size               int
	data               []byte
	mask               []bool
	cwc                bool
	info, trafficBytes int
}

func (q c15FieldReq) String() string {
	return fmt.Sprintf("%s %d %d %d %d %s %s %s %d %d", q.kind, q.src, q.pid, q.addr, q.size,
		c15Data(q.data), c15Bits(q.mask), c15b(q.cwc), q.info, q.trafficBytes)
}

func (q c15FieldReq) build(dst sim.RemotePort) mem.AccessReq {
	var info interface{}
	if q.info != 0 {
		info = q.info
	}
	if q.kind == "R" {
		b := mem.ReadReqBuilder{}.WithSrc(c15Src(q.src)).WithDst(dst).WithPID(vm.PID(q.pid)).
			WithAddress(uint64(q.addr)).WithByteSize(uint64(q.size)).WithInfo(info)
		if q.cwc {
			b = b.CanWaitForCoalesce()
		}
		m := b.Build()
		m.TrafficBytes = q.trafficBytes
		return m
	}
	b := mem.WriteReqBuilder{}.WithSrc(c15Src(q.src)).WithDst(dst).WithPID(vm.PID(q.pid)).
		WithAddress(uint64(q.addr)).WithData(q.data).WithDirtyMask(q.mask).WithInfo(info)
	if q.cwc {
		b = b.CanWaitForCoalesce()
	}
	m := b.Build()
	m.TrafficBytes = q.trafficBytes
	return m
}

// c15Forward sends one request through a fresh real ROB and returns what left the Bottom port.
func c15Forward(q c15FieldReq) (out sim.Msg, fault string) {
	fault = catch(func() {
		rb := rob.MakeBuilder().WithEngine(&fakeEngine{}).WithFreq(1 * sim.GHz).
			WithBufferSize(4).WithNumReqPerCycle(1).WithBottomUnit(c15BottomUnit).Build("ROB")
		top, bot, ctl := rb.VerifPorts()
		conn := &fakeConn{name: "c15f"}
		for _, p := range []sim.Port{top, bot, ctl} {
			p.SetConnection(conn)
		}
		if err := top.Deliver(q.build(top.AsRemote())); err != nil {
			panic("deliver failed")
		}
		rb.Tick()
		out = bot.RetrieveOutgoing()
	})
	return out, fault
}

// everything of a forwarded message except its fresh id
func c15BottomKey(m sim.Msg) string {
	switch q := m.(type) {
	case *mem.ReadReq:
		return fmt.Sprintf("R a=%d s=%d p=%d c=%v i=%v tb=%d tc=%s src=%s dst=%s", q.Address, q.AccessByteSize,
			q.PID, q.CanWaitForCoalesce, q.Info, q.TrafficBytes, q.TrafficClass, q.Src, q.Dst)
	case *mem.WriteReq:
		return fmt.Sprintf("W a=%d d=%x m=%v p=%d c=%v i=%v tb=%d tc=%s src=%s dst=%s", q.Address, q.Data,
			q.DirtyMask, q.PID, q.CanWaitForCoalesce, q.Info, q.TrafficBytes, q.TrafficClass, q.Src, q.Dst)
	}
	return fmt.Sprintf("?%T", m)
}

func c15BottomShow(m sim.Msg) string {
	inf := func(i interface{}) string {
		if i == nil || (reflect.ValueOf(i).Kind() == reflect.Ptr && reflect.ValueOf(i).IsNil()) {
			return "0"
		}
		return "1"
	}
	switch q := m.(type) {
	case *mem.ReadReq:
		return fmt.Sprintf("r(#1,a=%d,s=%d,p=%d,c=%s) i=%s tb=%d", q.Address, q.AccessByteSize, q.PID,
			c15b(q.CanWaitForCoalesce), inf(q.Info), q.TrafficBytes)
	case *mem.WriteReq:
		return fmt.Sprintf("w(#1,a=%d,d=%s,m=%s,p=%d,c=%s) i=%s tb=%d", q.Address, c15Data(q.Data),
			c15Bits(q.DirtyMask), q.PID, c15b(q.CanWaitForCoalesce), inf(q.Info), q.TrafficBytes)
	}
	return fmt.Sprintf("?%T", m)
}

func c15FieldsCase(r *Run, a, b c15FieldReq, varied string) {
	line := fmt.Sprintf("c15 fields ; %s ; %s", a, b)
	ma, fa := c15Forward(a)
	mb, fb := c15Forward(b)
	if fa != "" || fb != "" || ma == nil || mb == nil {
		r.Case(line, "fault:"+fa+fb)
		r.Failf("C15.fields.fault", line, "forwarding failed: %q %q", fa, fb)
		return
	}
	same := c15BottomKey(ma) == c15BottomKey(mb)
	ans := "diff "
	if same {
		ans = "same "
	}
	r.Case(line, ans+c15BottomShow(ma))
	r.Count("c15.fields.vary=" + varied)
	r.Checked("fields")
	forwarded := map[string]bool{"addr": true, "pid": true, "size": true, "data": true, "mask": true}
	if forwarded[varied] && same {
		r.Failf("C15.fields.lost", line, "requests differ in %s but the forwarded messages are identical: %s", varied, c15BottomKey(ma))
	}
	if !forwarded[varied] && !same {
		r.Failf("C15.fields.leak", line, "requests differ only in %s but the forwarded messages differ: %s / %s", varied, c15BottomKey(ma), c15BottomKey(mb))
	}
	// the listed fields arrive unchanged
	switch q := ma.(type) {
	case *mem.ReadReq:
		if int(q.Address) != a.addr || int(q.AccessByteSize) != a.size || int(q.PID) != a.pid {
			r.Failf("C15.fields.changed", line, "read forwarded as %s", c15BottomKey(ma))
		}
	case *mem.WriteReq:
		if int(q.Address) != a.addr || int(q.PID) != a.pid || c15Data(q.Data) != c15Data(a.data) || c15Bits(q.DirtyMask) != c15Bits(a.mask) {
			r.Failf("C15.fields.changed", line, "write forwarded as %s", c15BottomKey(ma))
		}
	}
}

func c15GenFieldReq(rng *Rng) c15FieldReq {
	q := c15FieldReq{src: rng.Range(1, 3), pid: rng.Range(0, 3), addr: rng.Pick(0, 4, 64, 4096, 1<<20) + 4*rng.Intn(4),
		cwc: rng.Bool(), info: rng.Pick(0, 0, 5, 77), trafficBytes: rng.Pick(12, 16, 0, 76)}
	if rng.Bool() {
		q.kind = "R"
		q.size = rng.Pick(1, 4, 8, 64)
	} else {
		q.kind = "W"
		n := rng.Pick(1, 4, 8)
		q.data = rng.Bytes(n)
		if rng.Chance(70) {
			q.mask = make([]bool, n)
			for i := range q.mask {
				q.mask[i] = rng.Bool()
			}
		}
	}
	return q
}

func c15VaryField(rng *Rng, a c15FieldReq) (c15FieldReq, string) {
	b := a
	b.data = append([]byte(nil), a.data...)
	b.mask = append([]bool(nil), a.mask...)
	opts := []string{"none", "addr", "pid", "cwc", "info", "tb", "src"}
	if a.kind == "R" {
		opts = append(opts, "size")
	} else {
		opts = append(opts, "data")
		if len(a.mask) > 0 {
			opts = append(opts, "mask")
		}
	}
	v := opts[rng.Intn(len(opts))]
	switch v {
	case "addr":
		b.addr += 4 * rng.Range(1, 9)
	case "pid":
		b.pid++
	case "cwc":
		b.cwc = !b.cwc
	case "info":
		b.info = a.info + 1
	case "tb":
		b.trafficBytes = a.trafficBytes + 8
	case "src":
		b.src = a.src%3 + 1
	case "size":
		b.size = a.size + 4
	case "data":
		if rng.Bool() {
			b.data[rng.Intn(len(b.data))] ^= 0x5a
		} else {
			b.data = append(b.data, 7)
			if len(b.mask) > 0 {
				b.mask = append(b.mask, true)
				v = "data" // data and mask lengths stay consistent; still a data change
			}
		}
	case "mask":
		i := rng.Intn(len(b.mask))
		b.mask[i] = !b.mask[i]
	}
	return b, v
}

// residue scenario: n requests answered and retired into the Top port (capacity k >= n) before a
// flush; after the acknowledgement the requester tries to take n responses and must get none.
func c15ResidueLine(n, k, width int, restart bool) string {
	ops := []string{}
	for i := 0; i < n; i++ {
		ops = append(ops, fmt.Sprintf("R 2 1 %d 4 0", 64*i))
	}
	for i := 0; i < n; i++ {
		ops = append(ops, "t")
	}
	ops = append(ops, "db "+strconv.Itoa(n), "ra 3")
	for i := 0; i < 2*n+1; i++ {
		ops = append(ops, "t")
	}
	ops = append(ops, "F", "t", "dc")
	if restart {
		ops = append(ops, "S", "t", "dc")
	}
	ops = append(ops, "dt "+strconv.Itoa(n))
	return fmt.Sprintf("c15 cap=8 width=%d pb=8,%d,8,8 cb=def bottom=1 ; %s", width, k, strings.Join(ops, " ; "))
}

func runC15Deep(r *Run, rng *Rng, replay string) {
	rng = NewRng(rng.U64() ^ 0xC15DEE9)
	// the Lean witness residueEvs, as a scenario line
	lines := []string{
		"c15 cap=2 width=1 pb=2,2,2,2 cb=def bottom=1 ; R 2 1 0 4 1 ; t ; db 1 ; r 0 d:09090909 ; t ; t ; F ; t ; dc ; dt 1",
	}
	nres := 20
	if r.Tier == "thorough" {
		nres = 200
	}
	for i := 0; i < nres; i++ {
		n := rng.Range(1, 4)
		lines = append(lines, c15ResidueLine(n, rng.Range(n, 6), rng.Range(1, 3), rng.Bool()))
	}
	for _, line := range lines {
		e := runC15Scenario(r, line, false)
		if e == nil || len(e.out) < 2 {
			continue
		}
		r.Checked("flush.top-residue")
		last := e.out[len(e.out)-1]
		if strings.HasPrefix(last, "T[") && last != "T[]" {
			r.CountN("c15.top-residue-after-flush-ack", strings.Count(last, ">"))
			e.fail("C15.flush.top-residue", "%d response(s) to requests accepted before the flush left the Top port after the acknowledgement: %s", strings.Count(last, ">"), last)
		} else {
			r.Count("c15.top-residue-none")
		}
		// none of these requests was discarded: the ROB sent each response exactly once into the Top port
		for i, q := range e.reqs {
			if q.accepted && !q.discard && q.answers != 1 {
				e.fail("C15.once.missing", "request %d retired before the flush, answered %d times", i, q.answers)
			}
		}
	}
	nf := 400
	if r.Tier == "thorough" {
		nf = 6000
	}
	for i := 0; i < nf; i++ {
		a := c15GenFieldReq(rng)
		b, v := c15VaryField(rng, a)
		c15FieldsCase(r, a, b, v)
	}
}
