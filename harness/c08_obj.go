package main

// Property C08, second deepening: object identity of the work-groups / wavefronts / work-items the
// grid builders hand out (Lean: lean/MgpuModel/C08_Obj.lean, theorem `objects_fresh` in
// lean/MgpuProofs/Props/C08Obj.lean).
//
//	c08 obj g= w= nb= skip= calls=i,j,…
//	    nb real grid builders on the same launch, builder i set up with Skip(i*skip) as
//	    partitionAlgorithm.StartNewKernel does, then NextWG() on builder i for every i of `calls`.
//	    Answer per call: `id/size@uid[wavefront uids]` (UIDs of the sequential generator relative to
//	    the first one drawn after the set-up) or `nil`.
//
// Oracles on the real objects:
//	C08.obj.uid       all UIDs of work-groups and wavefronts handed out are pairwise different
//	C08.obj.pointer   no *WorkGroup, *Wavefront or *WorkItem is handed out twice / shared
//	C08.obj.backptr   wf.WG, wi.WG point to the group that lists them; every work-item of the group is
//	                  in exactly one wavefront of the group
//	C08.obj.fields    CodeObject / Packet / PacketAddress of the launch are carried by every object

import (
	"fmt"
	"strconv"
	"strings"

	"github.com/sarchlab/akita/v4/sim"
	"github.com/sarchlab/mgpusim/v4/amd/kernels"
)

func init() { register("C08", runC08Obj) }

func c08oRun(r *Run, g, w c08Geo, nb, skip int, calls []int) {
	line := fmt.Sprintf("c08 obj g=%s w=%s nb=%d skip=%d calls=%s", g, w, nb, skip, c08Ints(calls))
	co := c08CodeObject(false, 0, false)
	pkt := c08Packet(g, w)
	const pa = 0x7000
	blds := make([]kernels.GridBuilder, nb)
	var out []string
	var wgs []*kernels.WorkGroup
	uidOK := true
	fault := catch(func() {
		for i := range blds {
			blds[i] = kernels.NewGridBuilder()
			blds[i].SetKernel(kernels.KernelLaunchInfo{CodeObject: co, Packet: pkt, PacketAddr: pa})
			blds[i].Skip(i * skip)
		}
		base, err := strconv.Atoi(sim.GetIDGenerator().Generate())
		if err != nil {
			uidOK = false
		}
		rel := func(uid string) string {
			v, err := strconv.Atoi(uid)
			if err != nil {
				uidOK = false
				return uid
			}
			return strconv.Itoa(v - base - 1)
		}
		for _, i := range calls {
			if i >= nb {
				continue
			}
			wg := blds[i].NextWG()
			if wg == nil {
				out = append(out, "nil")
				continue
			}
			wgs = append(wgs, wg)
			var wfs []string
			for _, wf := range wg.Wavefronts {
				wfs = append(wfs, rel(wf.UID))
			}
			out = append(out, fmt.Sprintf("%s@%s[%s]", c08WGString(wg), rel(wg.UID), strings.Join(wfs, ",")))
		}
	})
	if fault != "" {
		r.Case(line, "fault:"+fault)
		r.Failf("C08.obj.panic", line, "%s", fault)
		return
	}
	if uidOK { // the parallel ID generator yields opaque ids: only the oracles apply then
		r.Case(line, "objs="+strings.Join(out, ";"))
	}
	r.Count("obj")
	r.Checked("obj.identity")
	uids := map[string]bool{}
	pw := map[*kernels.WorkGroup]bool{}
	pf := map[*kernels.Wavefront]bool{}
	pi := map[*kernels.WorkItem]bool{}
	for _, wg := range wgs {
		if pw[wg] {
			r.Failf("C08.obj.pointer", line, "work-group object %s handed out twice", c08WGString(wg))
		}
		pw[wg] = true
		if uids[wg.UID] {
			r.Failf("C08.obj.uid", line, "UID %s of work-group %s already used", wg.UID, c08WGString(wg))
		}
		uids[wg.UID] = true
		if wg.CodeObject != co || wg.Packet != pkt {
			r.Failf("C08.obj.fields", line, "work-group %s does not carry the launch's code object / packet", c08WGString(wg))
		}
		inWf := map[*kernels.WorkItem]int{}
		for _, wf := range wg.Wavefronts {
			if pf[wf] {
				r.Failf("C08.obj.pointer", line, "wavefront object shared (group %s)", c08WGString(wg))
			}
			pf[wf] = true
			if uids[wf.UID] {
				r.Failf("C08.obj.uid", line, "UID %s of a wavefront of %s already used", wf.UID, c08WGString(wg))
			}
			uids[wf.UID] = true
			if wf.WG != wg {
				r.Failf("C08.obj.backptr", line, "a wavefront of %s points back to another group", c08WGString(wg))
			}
			if wf.CodeObject != co || wf.Packet != pkt || wf.PacketAddress != pa {
				r.Failf("C08.obj.fields", line, "a wavefront of %s does not carry the launch's code object / packet / packet address", c08WGString(wg))
			}
			for _, wi := range wf.WorkItems {
				inWf[wi]++
			}
		}
		for _, wi := range wg.WorkItems {
			if pi[wi] {
				r.Failf("C08.obj.pointer", line, "work-item object shared (group %s)", c08WGString(wg))
			}
			pi[wi] = true
			if wi.WG != wg {
				r.Failf("C08.obj.backptr", line, "a work-item of %s points back to another group", c08WGString(wg))
			}
			if inWf[wi] != 1 {
				r.Failf("C08.obj.backptr", line, "work-item (%d,%d,%d) of %s is in %d wavefronts", wi.IDX, wi.IDY, wi.IDZ, c08WGString(wg), inWf[wi])
			}
		}
		if len(inWf) != len(wg.WorkItems) {
			r.Failf("C08.obj.backptr", line, "wavefronts of %s hold %d distinct work-items, the group has %d", c08WGString(wg), len(inWf), len(wg.WorkItems))
		}
	}
}

func runC08Obj(r *Run, rng *Rng, replay string) {
	thorough := r.Tier == "thorough"
	c08oRun(r, c08Geo{10, 1, 1}, c08Geo{4, 1, 1}, 2, 1, []int{0, 1, 1, 0, 0, 0})
	n := 120
	if thorough {
		n = 3000
	}
	for k := 0; k < n; k++ {
		dims := rng.Range(1, 3)
		w := c08RandWG(rng, dims)
		g := c08RandGrid(rng, w, rng.Pick(1, 2, 3, 5, 8, 13))
		total := c08NWG(g[0], w[0]) * c08NWG(g[1], w[1]) * c08NWG(g[2], w[2])
		nb := rng.Range(1, 4)
		skip := 0
		if rng.Chance(70) {
			skip = (total-1)/nb + 1
		} else {
			skip = rng.Intn(3)
		}
		calls := make([]int, rng.Range(1, total+3))
		for i := range calls {
			calls[i] = rng.Intn(nb)
		}
		c08oRun(r, g, w, nb, skip, calls)
	}
}
