package main

// C20, second runner: the trace HEADER parser (readTraceHeader / updateTraceHeaderParam), the
// kernelslist.g parser (generateExcutions / BuildExecFromText) and the benchmark builder
// (BenchmarkBuilder.Build / generateKernelTrace, ExecKernel.Run) against lean/MgpuModel/C20_Header.lean.
//
// Case lines:  c20 hdr <file lines>~      c20 klist <kernelslist lines>~
//              c20 bench <kernelslist lines>~<file name>~<file lines>~<file name>~<file lines>~...
// File lines are joined with '|'; inside a line  \\ \p \w \t \x<hex>;  stand for backslash, '|', '~',
// tab and any other character outside printable ASCII.

import (
	"fmt"
	"io"
	"os"
	"path"
	"path/filepath"
	"runtime"
	"strings"
	"time"

	"github.com/sarchlab/akita/v4/sim"
	nvbench "github.com/sarchlab/mgpusim/v4/nvidia/benchmark"
	nvdriver "github.com/sarchlab/mgpusim/v4/nvidia/driver"
	"github.com/sarchlab/mgpusim/v4/nvidia/nvidiaconfig"
	nvrunner "github.com/sarchlab/mgpusim/v4/nvidia/runner"
	"github.com/sarchlab/mgpusim/v4/nvidia/tracereader"
	log "github.com/sirupsen/logrus"
)

func init() { register("C20", runC20Header) }

// ------------------------------------------------------------------ encoding

func c20hEsc(s string) string {
	var b strings.Builder
	for _, r := range s {
		switch {
		case r == '\\':
			b.WriteString(`\\`)
		case r == '|':
			b.WriteString(`\p`)
		case r == '~':
			b.WriteString(`\w`)
		case r == '\t':
			b.WriteString(`\t`)
		case r < 32 || r >= 127:
			fmt.Fprintf(&b, `\x%x;`, r)
		default:
			b.WriteRune(r)
		}
	}
	return b.String()
}

func c20hSection(lines []string) string {
	e := make([]string, len(lines))
	for i, l := range lines {
		e[i] = c20hEsc(l)
	}
	return strings.Join(e, "|") + "~"
}

// c20hCatch runs f; a Go run-time index/slice panic is "bounds", every other panic (log.Panic of the
// code, whatever its message says - a strconv range error mentions "out of range" too) is "panic"
func c20hCatch(f func()) (fault string) {
	defer func() {
		if e := recover(); e != nil {
			fault = "fault:panic"
			if re, ok := e.(runtime.Error); ok && strings.Contains(re.Error(), "out of range") {
				fault = "fault:bounds"
			}
		}
	}()
	f()
	return ""
}

func c20hWrite(dir, name string, lines []string) string {
	must(os.MkdirAll(dir, 0o755))
	p := filepath.Join(dir, name)
	must(os.WriteFile(p, []byte(strings.Join(lines, "\n")+"\n"), 0o644))
	return p
}

// ------------------------------------------------------------------ header

var c20hKeys = [13]string{"kernel name", "kernel id", "grid dim", "block dim", "shmem", "nregs", "binary version",
	"cuda stream id", "shmem base_addr", "local mem base_addr", "nvbit version", "accelsim tracer version", "enable lineinfo"}

var c20hFieldNames = [13]string{"kernel_name", "kernel_id", "grid_dim", "block_dim", "shmem", "nregs", "binary_version",
	"cuda_stream_id", "shmem_base_addr", "local_mem_base_addr", "nvbit_version", "accelsim_tracer_version", "enable_lineinfo"}

func c20hCanonHeader(h tracereader.KernelFileHeader) string {
	li := 0
	if h.EnableLineinfo {
		li = 1
	}
	return fmt.Sprintf("name=[%s] id=%d grid=%d,%d,%d block=%d,%d,%d shmem=%d nregs=%d bin=%d stream=%d shbase=%d locbase=%d nvbit=[%s] accel=[%s] li=%d",
		c20hEsc(h.KernelName), h.KernelID, h.GridDim[0], h.GridDim[1], h.GridDim[2], h.BlockDim[0], h.BlockDim[1], h.BlockDim[2],
		h.Shmem, h.Nregs, h.BinaryVersion, h.CudaStreamID, h.ShmemBaseAddr, h.LocalMemBaseAddr,
		c20hEsc(h.NvbitVersion), c20hEsc(h.AccelsimTracerVersion), li)
}

// the 13 fields of a header as strings (what a faithful parse must return), for the per-field oracle
func c20hFields(h tracereader.KernelFileHeader) [13]string {
	return [13]string{h.KernelName, fmt.Sprint(h.KernelID), fmt.Sprint(h.GridDim), fmt.Sprint(h.BlockDim), fmt.Sprint(h.Shmem),
		fmt.Sprint(h.Nregs), fmt.Sprint(h.BinaryVersion), fmt.Sprint(h.CudaStreamID), fmt.Sprint(h.ShmemBaseAddr),
		fmt.Sprint(h.LocalMemBaseAddr), h.NvbitVersion, h.AccelsimTracerVersion, fmt.Sprint(h.EnableLineinfo)}
}

func c20hI32(rng *Rng) int32 {
	switch rng.Intn(8) {
	case 0:
		return 2147483647
	case 1:
		return -2147483648
	case 2:
		return -1
	case 3:
		return int32(rng.U64())
	default:
		return int32(rng.Intn(70000))
	}
}

func c20hDim(rng *Rng) nvidiaconfig.Dim3 {
	if rng.Chance(25) {
		return nvidiaconfig.Dim3{c20hI32(rng), c20hI32(rng), c20hI32(rng)}
	}
	return nvidiaconfig.Dim3{int32(rng.Range(1, 65535)), int32(rng.Range(1, 8)), int32(rng.Range(1, 4))}
}

const c20hNameChars = "abcdefghijklmnopqrstuvwxyzABCDEFGHIJKLMNOPQRSTUVWXYZ0123456789_"

// a string without '=' and without leading/trailing blanks (the format cannot carry those)
func c20hStr(rng *Rng, kind int) string {
	switch kind {
	case 0: // kernel name
		switch rng.Intn(8) {
		case 0:
			return ""
		case 1:
			return "void gemm<float, 4>(float const*, float*)"
		case 2:
			return "_Z3k|1~2\\n"
		case 3:
			return "k\tname with  blanks inside.é"
		case 4:
			return "-dash - and -kernel id"
		}
		n := rng.Range(1, 30)
		b := []byte("_Z")
		for i := 0; i < n; i++ {
			b = append(b, c20hNameChars[rng.Intn(len(c20hNameChars))])
		}
		return string(b)
	default: // versions
		return []string{"1.7", "1.5.5", "5", "4", "", "1.7 (beta)", "v1.7-rc1"}[rng.Intn(7)]
	}
}

func c20hGenHeader(rng *Rng) tracereader.KernelFileHeader {
	h := tracereader.KernelFileHeader{
		KernelName: c20hStr(rng, 0), KernelID: c20hI32(rng), GridDim: c20hDim(rng), BlockDim: c20hDim(rng),
		Shmem: c20hI32(rng), Nregs: c20hI32(rng), BinaryVersion: int32(rng.Pick(70, 75, 80, 86, 90)), CudaStreamID: c20hI32(rng),
		ShmemBaseAddr: int64(rng.U64() & 0x7fffffffffff), LocalMemBaseAddr: int64(rng.U64() & 0x7fffffffffff),
		NvbitVersion: c20hStr(rng, 1), AccelsimTracerVersion: c20hStr(rng, 1), EnableLineinfo: rng.Bool(),
	}
	if rng.Chance(20) {
		h.ShmemBaseAddr = int64(rng.Pick(0, 1, 0x7fffffffffffffff, 8, 0xabcdef))
	}
	if rng.Chance(20) {
		h.LocalMemBaseAddr = int64(rng.Pick(0, 1, 0x7fffffffffffffff, 7, 0xABCDEF))
	}
	return h
}

// the 13 values as the tracer prints them (= renderHeader of the Lean spec)
func c20hValues(h tracereader.KernelFileHeader) [13]string {
	li := "0"
	if h.EnableLineinfo {
		li = "1"
	}
	return [13]string{h.KernelName, fmt.Sprint(h.KernelID),
		fmt.Sprintf("(%d,%d,%d)", h.GridDim[0], h.GridDim[1], h.GridDim[2]), fmt.Sprintf("(%d,%d,%d)", h.BlockDim[0], h.BlockDim[1], h.BlockDim[2]),
		fmt.Sprint(h.Shmem), fmt.Sprint(h.Nregs), fmt.Sprint(h.BinaryVersion), fmt.Sprint(h.CudaStreamID),
		fmt.Sprintf("0x%016x", uint64(h.ShmemBaseAddr)), fmt.Sprintf("0x%016x", uint64(h.LocalMemBaseAddr)),
		h.NvbitVersion, h.AccelsimTracerVersion, li}
}

func c20hCanonicalLines(h tracereader.KernelFileHeader) []string {
	v := c20hValues(h)
	out := []string{}
	for i, k := range c20hKeys {
		out = append(out, "-"+k+" = "+v[i])
	}
	return append(out, "")
}

var c20hBlanks = []string{" ", "  ", "\t", " \t ", " ", "\r ", "\v", "\f ", "　", ""}

func c20hPad(rng *Rng) string { return c20hBlanks[rng.Intn(len(c20hBlanks))] }

// a rendering that a faithful parser must still read back as h2 (returned): other key order, keys left
// out (the field stays zero), other spellings of the numbers, blanks around key and value
func c20hVariantLines(rng *Rng, h tracereader.KernelFileHeader) ([]string, tracereader.KernelFileHeader) {
	v := c20hValues(h)
	if rng.Chance(50) {
		a := h.ShmemBaseAddr
		v[8] = []string{fmt.Sprintf("0x%x", a), fmt.Sprintf("0X%X", a), fmt.Sprint(a), fmt.Sprintf("0o%o", a), fmt.Sprintf("0b%b", a), fmt.Sprintf("+0x%x", a)}[rng.Intn(6)]
	}
	if rng.Chance(30) {
		h.LocalMemBaseAddr = -h.LocalMemBaseAddr - int64(rng.Intn(2))
		v[9] = []string{fmt.Sprint(h.LocalMemBaseAddr), fmt.Sprintf("-0x%x", uint64(-h.LocalMemBaseAddr))}[rng.Intn(2)]
		if h.LocalMemBaseAddr == 0 {
			v[9] = "-0"
		}
	}
	if rng.Chance(30) {
		g := h.GridDim
		v[2] = []string{fmt.Sprintf("( %d, %d,\t%d)", g[0], g[1], g[2]), fmt.Sprintf("(%d,%d,%d) ; x", g[0], g[1], g[2]), fmt.Sprintf("(%+d,%d,%d))", g[0], g[1], g[2])}[rng.Intn(3)]
		if g[0] < 0 {
			v[2] = fmt.Sprintf("(%d,%d,%d)", g[0], g[1], g[2])
		}
	}
	if rng.Chance(20) {
		v[4] = fmt.Sprintf("%d bytes", h.Shmem)
	}
	if rng.Chance(20) && h.Nregs >= 0 {
		v[5] = fmt.Sprintf("+%04d", h.Nregs)
	}
	order := rng.Perm(13)
	if rng.Chance(50) {
		for i := range order {
			order[i] = i
		}
	}
	lines := []string{}
	seen := [13]bool{}
	for _, i := range order {
		if rng.Chance(8) {
			continue // key left out
		}
		seen[i] = true
		sep := []string{" = ", "=", " =", "= ", "\t=\t", "  =  "}[rng.Intn(6)]
		lines = append(lines, "-"+c20hKeys[i]+sep+v[i]+c20hPad(rng))
		if rng.Chance(15) {
			lines = append(lines, "")
		}
	}
	zero := tracereader.KernelFileHeader{}
	if !seen[0] {
		h.KernelName = zero.KernelName
	}
	if !seen[1] {
		h.KernelID = 0
	}
	if !seen[2] {
		h.GridDim = zero.GridDim
	}
	if !seen[3] {
		h.BlockDim = zero.BlockDim
	}
	if !seen[4] {
		h.Shmem = 0
	}
	if !seen[5] {
		h.Nregs = 0
	}
	if !seen[6] {
		h.BinaryVersion = 0
	}
	if !seen[7] {
		h.CudaStreamID = 0
	}
	if !seen[8] {
		h.ShmemBaseAddr = 0
	}
	if !seen[9] {
		h.LocalMemBaseAddr = 0
	}
	if !seen[10] {
		h.NvbitVersion = ""
	}
	if !seen[11] {
		h.AccelsimTracerVersion = ""
	}
	if !seen[12] {
		h.EnableLineinfo = false
	}
	// a trailing '\r' would be removed by bufio.ScanLines (not part of the line model)
	for i, l := range lines {
		if strings.HasSuffix(l, "\r") {
			lines[i] = l + " "
		}
	}
	return lines, h
}

var c20hJunkNums = []string{"", "abc", "12abc", "99999999999", "2147483648", "-2147483649", "+5", "0x10", "1_000", "_1", "0x", "0x_1f",
	"0b101", "0o17", "017", "08", "9223372036854775807", "9223372036854775808", "-9223372036854775808", "-9223372036854775809",
	"0x8000000000000000", "0x7fffffffffffffff", "-0x8000000000000000", "1__0", "1_", "0_7", "0_", "- 5", "--5", "-", "+", "١٢", "0x1G", "0XfF_fF",
	"18446744073709551616", "0b", "0b2", "0o8", "00", "-00012", "1e3", "1.5", "0x_", "0_x1", "٣"}

var c20hBadDims = []string{"(1,2)", "(1,2,3", "1,2,3", "(1 ,2,3)", "( 1, 2, 3 )", "(1,2,3)x", "[1,2,3]", "(1;2;3)", "(,,)", "(-1,+2,3)", "(1,2,)",
	"()", "(", "", "(1,2,2147483648)", "(1,2,3 )", "(1,\t2,\r3)", "(0x1,2,3)", "(1_0,2,3)", "(1,2,3", "(1,2,3,4)", " (1,2,3)", "((1,2,3)"}

// one or two malformations of a rendered header block
func c20hMutate(rng *Rng, lines []string) ([]string, string) {
	lines = append([]string{}, lines...)
	hdr := []int{}
	for i, l := range lines {
		if strings.HasPrefix(l, "-") {
			hdr = append(hdr, i)
		}
	}
	if len(hdr) == 0 {
		return append(lines, "-"), "bare_dash"
	}
	k := hdr[rng.Intn(len(hdr))]
	l := lines[k]
	eq := strings.Index(l, "=")
	key, val := l, ""
	if eq >= 0 {
		key, val = l[:eq], l[eq+1:]
	}
	kind := ""
	switch rng.Intn(11) {
	case 0:
		kind = "no_equals"
		lines[k] = strings.Replace(l, "=", []string{"", " ", ":"}[rng.Intn(3)], 1)
	case 1:
		kind = "unknown_key"
		t := strings.TrimSpace(key)
		lines[k] = []string{"- " + t[1:], "-" + strings.ToUpper(t[1:]), "-" + strings.Replace(t[1:], " ", "  ", 1), "-" + t[1:] + "s", "--" + t[1:], "-" + strings.Replace(t[1:], " ", "_", 1), "-"}[rng.Intn(7)] + " =" + val
	case 2, 3:
		kind = "junk_number"
		num := []int{}
		for _, i := range hdr {
			for _, nk := range []int{1, 4, 5, 6, 7, 8, 9} {
				if strings.HasPrefix(lines[i], "-"+c20hKeys[nk]) {
					num = append(num, i)
				}
			}
		}
		if len(num) > 0 {
			i := num[rng.Intn(len(num))]
			e := strings.Index(lines[i], "=")
			if e >= 0 {
				lines[i] = lines[i][:e+1] + c20hPad(rng) + c20hJunkNums[rng.Intn(len(c20hJunkNums))] + c20hPad(rng) + "."
				if rng.Bool() {
					lines[i] = strings.TrimSuffix(lines[i], ".")
					if strings.HasSuffix(lines[i], "\r") {
						lines[i] += "\t"
					}
				}
			}
		}
	case 4:
		kind = "bad_dim"
		for _, i := range hdr {
			if strings.HasPrefix(lines[i], "-grid dim") || (strings.HasPrefix(lines[i], "-block dim") && rng.Bool()) {
				e := strings.Index(lines[i], "=")
				if e >= 0 {
					lines[i] = lines[i][:e+1] + " " + c20hBadDims[rng.Intn(len(c20hBadDims))]
				}
				break
			}
		}
	case 5:
		kind = "blanks"
		lines[k] = key + c20hPad(rng) + "=" + c20hPad(rng) + c20hPad(rng) + strings.TrimSpace(val) + c20hPad(rng) + " "
		if rng.Chance(30) {
			lines[k] = "-" + c20hPad(rng) + strings.TrimSpace(key)[1:] + "=" + val
		}
	case 6:
		kind = "value_with_equals"
		lines[k] = l + []string{"=x", " = 1", "==", "="}[rng.Intn(4)]
	case 7:
		kind = "duplicate_key"
		lines = append(lines[:k+1:k+1], append([]string{key + "= 7"}, lines[k+1:]...)...)
	case 8:
		kind = "non_dash_line"
		ins := []string{"# comment", "x", "=", " " + l, "kernel id = 5", "thread block = 1,2,3", "\t"}[rng.Intn(7)]
		lines = append(lines[:k:k], append([]string{ins}, lines[k:]...)...)
	case 9:
		kind = "bare_dash"
		ins := []string{"-", "-=", "-=5", "- = 5", "-\t", "-kernel id", "-kernel id 5"}[rng.Intn(7)]
		lines = append(lines[:k:k], append([]string{ins}, lines[k:]...)...)
	case 10:
		kind = "lineinfo"
		lines = append(lines[:k+1:k+1], append([]string{"-enable lineinfo = " + []string{"true", "01", "1 ", "1x", "", "１", "1\t", "0", "11"}[rng.Intn(9)]}, lines[k+1:]...)...)
	}
	return lines, kind
}

// c20hReadFile runs the real ReadTrace on the lines and returns the canonical answer of a `c20 hdr` case
func c20hReadFile(dir string, lines []string) (string, tracereader.KernelTrace, bool) {
	p := c20hWrite(dir, "c20h-kernel.traceg", lines)
	var tr tracereader.KernelTrace
	var out string
	fault := c20hCatch(func() {
		tr = tracereader.ReadTrace(tracereader.VerifKernelMeta(p))
		out = "T[" + c20CanonTrace(&tr) + "] H " + c20hCanonHeader(tr.FileHeader)
	})
	if fault != "" {
		return fault, tr, false
	}
	return out, tr, true
}

func c20hSmallTBs(rng *Rng) []c20TB {
	if rng.Chance(50) {
		return nil
	}
	tbs := c20GenTBs(rng)
	if len(tbs) > 2 {
		tbs = tbs[:2]
	}
	return tbs
}

func c20hHeaderOracle(r *Run, cs string, want, got tracereader.KernelFileHeader, sigSuffix string) {
	w, g := c20hFields(want), c20hFields(got)
	for i := range w {
		if w[i] != g[i] {
			sig := "C20.parse_render.header." + c20hFieldNames[i]
			if sigSuffix != "" {
				sig = "C20.parse_render.header." + sigSuffix
			}
			r.Failf(sig, cs, "field %q: serialised %q, parsed %q", c20hKeys[i], w[i], g[i])
		}
	}
}

func c20hHeaderCase(r *Run, rng *Rng, dir string) {
	h := c20hGenHeader(rng)
	var lines []string
	want := h
	style := "canonical"
	if rng.Chance(45) {
		style = "variant"
		lines, want = c20hVariantLines(rng, h)
	} else {
		lines = c20hCanonicalLines(h)
	}
	mutated := rng.Chance(40)
	if mutated {
		var kind string
		lines, kind = c20hMutate(rng, lines)
		style = "malformed:" + kind
		if rng.Chance(25) {
			var k2 string
			lines, k2 = c20hMutate(rng, lines)
			style = "malformed:" + kind + "+" + k2
			if len(style) > 40 {
				style = "malformed:two"
			}
		}
	}
	tbs := c20hSmallTBs(rng)
	if len(tbs) > 0 || rng.Chance(70) {
		lines = append(lines, c20RenderBody(rng, tbs)...)
	}
	got, tr, ok := c20hReadFile(dir, lines)
	cs := "c20 hdr " + c20hSection(lines)
	r.Case(cs, got)
	r.Count("hdr:" + strings.SplitN(style, "+", 2)[0])
	if !ok {
		r.Count("hdr:fault")
	}
	if mutated {
		return
	}
	r.Checked("parse_render.header")
	if !ok {
		r.Failf("C20.parse_render.header.fault", cs, "well-formed header refused: %s", got)
		return
	}
	c20hHeaderOracle(r, cs, want, tr.FileHeader, "")
	if wantBody := c20CanonSpec(tbs); !strings.HasPrefix(got, "T["+wantBody+"] H ") {
		r.Failf("C20.parse_render.header.body_after_header", cs, "the thread blocks after the header: want %s got %s", wantBody, got)
	}
}

// fixed header witnesses: the refutations of the Lean file replayed on the real parser
func c20hHeaderWitnesses(r *Run, dir string) {
	base := tracereader.KernelFileHeader{KernelName: "vecAdd", KernelID: 1, GridDim: nvidiaconfig.Dim3{196, 1, 1}, BlockDim: nvidiaconfig.Dim3{256, 1, 1},
		Nregs: 12, BinaryVersion: 80, ShmemBaseAddr: 0x7fb139000000, LocalMemBaseAddr: 0x7fb137000000, NvbitVersion: "1.7", AccelsimTracerVersion: "5"}
	// (1) header_parse_render_full is false: a value with '=' is cut at the '='
	w := base
	w.KernelName = "k<a=1>"
	lines := c20hCanonicalLines(w)
	got, tr, ok := c20hReadFile(dir, lines)
	cs := "c20 hdr " + c20hSection(lines)
	r.Case(cs, got)
	r.Checked("parse_render.header.witness")
	if ok {
		c20hHeaderOracle(r, cs, w, tr.FileHeader, "value_with_equals")
	}
	// (2) a name with surrounding blanks comes back trimmed: the format ("-key = value") cannot carry
	// them; correspondence only
	w = base
	w.KernelName = " padded name "
	lines = c20hCanonicalLines(w)
	got, _, _ = c20hReadFile(dir, lines)
	r.Case("c20 hdr "+c20hSection(lines), got)
	// (3) the shipped sample header
	lines = []string{"-kernel name = _Z9vectorAddPKfS0_Pfi", "-kernel id = 1", "-grid dim = (196,1,1)", "-block dim = (256,1,1)", "-shmem = 0", "-nregs = 12",
		"-binary version = 80", "-cuda stream id = 0", "-shmem base_addr = 0x00007fb139000000", "-local mem base_addr = 0x00007fb137000000",
		"-nvbit version = 1.7", "-accelsim tracer version = 5", "-enable lineinfo = 0", "", "#traces format = x", ""}
	got, tr, ok = c20hReadFile(dir, lines)
	cs = "c20 hdr " + c20hSection(lines)
	r.Case(cs, got)
	r.Checked("parse_render.header")
	if !ok {
		r.Failf("C20.parse_render.header.fault", cs, "sample header refused: %s", got)
	} else {
		c20hHeaderOracle(r, cs, tracereader.KernelFileHeader{KernelName: "_Z9vectorAddPKfS0_Pfi", KernelID: 1, GridDim: nvidiaconfig.Dim3{196, 1, 1},
			BlockDim: nvidiaconfig.Dim3{256, 1, 1}, Nregs: 12, BinaryVersion: 80, ShmemBaseAddr: 0x7fb139000000, LocalMemBaseAddr: 0x7fb137000000,
			NvbitVersion: "1.7", AccelsimTracerVersion: "5"}, tr.FileHeader, "")
	}
}

// ------------------------------------------------------------------ kernelslist.g

type c20hExec struct {
	kernel    bool
	file      string
	dir       string
	addr, len uint64
}

func (e c20hExec) canon() string {
	if e.kernel {
		return "K[" + c20hEsc(e.file) + "]"
	}
	return fmt.Sprintf("M[%s],%d,%d", c20hEsc(e.dir), e.addr, e.len)
}

func (e c20hExec) render() string {
	if e.kernel {
		return e.file
	}
	return fmt.Sprintf("%s,0x%016x,%d", e.dir, e.addr, e.len)
}

func c20hCanonMeta(m *tracereader.TraceExecMeta) string {
	switch m.ExecType() {
	case nvidiaconfig.ExecKernel:
		return "K[" + c20hEsc(m.VerifFilename()) + "]"
	case nvidiaconfig.ExecMemcpy:
		return fmt.Sprintf("M[%s],%d,%d", c20hEsc(string(m.Direction)), m.Address, m.Length)
	}
	return fmt.Sprintf("?%d", m.ExecType())
}

func c20hU64(rng *Rng) uint64 {
	switch rng.Intn(8) {
	case 0:
		return 0
	case 1:
		return 18446744073709551615
	case 2:
		return 1 << 63
	case 3:
		return rng.U64()
	case 4:
		return uint64(rng.Intn(10))
	default:
		return rng.U64() & 0x7fffffffffff
	}
}

func c20hGenExec(rng *Rng) c20hExec {
	if rng.Chance(45) {
		name := []string{"kernel-%d.traceg", "kernel-%d.traceg.xz", "kernel_%d", "kernel%d", "kernel-%d with blank.traceg", "kernel,%d"}[rng.Intn(6)]
		if rng.Chance(5) {
			return c20hExec{kernel: true, file: "kernel"}
		}
		return c20hExec{kernel: true, file: fmt.Sprintf(name, rng.Range(1, 40))}
	}
	return c20hExec{dir: []string{"MemcpyHtoD", "MemcpyDtoH"}[rng.Intn(2)], addr: c20hU64(rng), len: c20hU64(rng)}
}

var c20hBadExecs = []string{"MemcpyHtoD", "MemcpyHtoD,1", "MemcpyHtoD,1,", "MemcpyHtoD,-1,5", "MemcpyHtoD,+1,5", "MemcpyHtoD,18446744073709551615,18446744073709551616",
	"MemcpyDtoD,1,2", "Memcpy,1,2", "memcpyHtoD,1,2", "Kernel-1.traceg", " kernel-1.traceg", "#kernel-1", "MemcpyHtoD,1,2,3", "MemcpyHtoD,0x1g,2",
	"MemcpyHtoD,1_000,2_0", "MemcpyHtoD, 0x10, 5", "MemcpyHtoD,0x10 ,5", "MemcpyHtoD,\t7,\t8 trailing", "MemcpyDtoH,0755,0b11", "MemcpyDtoH,0X1F,0o17",
	"MemcpyDtoH,08,1", "MemcpyDtoH,0x,1", "MemcpyDtoH,,", "MemcpyDtoH,1;2", "MemcpyHtoDevice,1,2", "MemcpyHtoD ,1,2", "MemcpyAsyncHtoD,4096,16", "x",
	"MemcpyHtoD,1__0,2", "MemcpyHtoD,0_1,0x_2", "MemcpyHtoD,_1,2", "MemcpyHtoD,1,_", "MemcpyHtoD,١,2", "MemcpyDtoH,0b,1", "MemcpyDtoH,00,000", "kernel"}

func c20hReadList(dir string, lines []string) (string, []tracereader.TraceExecMeta) {
	c20hWrite(dir, "kernelslist.g", lines)
	var metas []tracereader.TraceExecMeta
	fault := c20hCatch(func() {
		metas = new(tracereader.TraceReaderBuilder).WithTraceDirectory(dir).Build().GetExecMetas()
	})
	if fault != "" {
		return fault, nil
	}
	parts := []string{}
	for i := range metas {
		parts = append(parts, c20hCanonMeta(&metas[i]))
	}
	if len(parts) == 0 {
		return "none", metas
	}
	return strings.Join(parts, " "), metas
}

func c20hListCase(r *Run, rng *Rng, dir string) {
	n := rng.Range(0, 6)
	es := []c20hExec{}
	lines := []string{}
	for i := 0; i < n; i++ {
		e := c20hGenExec(rng)
		es = append(es, e)
		lines = append(lines, e.render())
		if rng.Chance(20) {
			lines = append(lines, "")
		}
	}
	mutated := rng.Chance(40)
	if mutated {
		bad := c20hBadExecs[rng.Intn(len(c20hBadExecs))]
		k := rng.Intn(len(lines) + 1)
		lines = append(lines[:k:k], append([]string{bad}, lines[k:]...)...)
	}
	got, metas := c20hReadList(dir, lines)
	cs := "c20 klist " + c20hSection(lines)
	r.Case(cs, got)
	if mutated {
		r.Count("klist:malformed")
		return
	}
	r.Count("klist:wellformed")
	r.Checked("klist.roundtrip")
	want := []string{}
	for _, e := range es {
		want = append(want, e.canon())
	}
	w := strings.Join(want, " ")
	if len(want) == 0 {
		w = "none"
	}
	if got != w {
		r.Failf("C20.klist.roundtrip", cs, "read(render list) != list: want %s got %s", w, got)
	}
	for i := range metas {
		if metas[i].ExecType() == nvidiaconfig.ExecKernel && metas[i].VerifFilepath() != path.Join(dir, metas[i].VerifFilename()) {
			r.Failf("C20.klist.filepath", cs, "kernel %q is read from %q", metas[i].VerifFilename(), metas[i].VerifFilepath())
		}
	}
}

// single lines through the exported BuildExecFromText
func c20hExecLineCase(r *Run, rng *Rng) {
	line := c20hBadExecs[rng.Intn(len(c20hBadExecs))]
	if rng.Chance(40) {
		line = c20hGenExec(rng).render()
		if rng.Chance(30) {
			line = strings.Replace(line, "0x", []string{"0X", "", "0", "0b", "0o", "-0x"}[rng.Intn(6)], 1)
		}
	}
	var out string
	fault := c20hCatch(func() {
		m := new(tracereader.TraceReader).BuildExecFromText(line)
		out = c20hCanonMeta(&m)
	})
	if fault != "" {
		out = fault
	}
	r.Case("c20 klist "+c20hSection([]string{line}), out)
	r.Count("klist:single_line")
}

func c20hListWitnesses(r *Run, dir string) {
	// klist_parse_render_full is false: a direction other than HtoD / DtoH is dropped
	e := c20hExec{dir: "MemcpyDtoD", addr: 0x1000, len: 64}
	lines := []string{e.render()}
	got, _ := c20hReadList(dir, lines)
	cs := "c20 klist " + c20hSection(lines)
	r.Case(cs, got)
	r.Checked("klist.witness")
	if got != e.canon() {
		r.Failf("C20.klist.direction_lost", cs, "read(render list) != list: want %s got %s", e.canon(), got)
	}
	// the shipped sample list
	lines = []string{"MemcpyHtoD,0x00007fb0fc400000,200000", "MemcpyHtoD,0x00007fb0fc430e00,200000", "kernel-1.traceg"}
	got, _ = c20hReadList(dir, lines)
	cs = "c20 klist " + c20hSection(lines)
	r.Case(cs, got)
	r.Checked("klist.roundtrip")
	if want := "M[MemcpyHtoD],140398123024384,200000 M[MemcpyHtoD],140398123224576,200000 K[kernel-1.traceg]"; got != want {
		r.Failf("C20.klist.roundtrip", cs, "sample list: want %s got %s", want, got)
	}
}

// ------------------------------------------------------------------ benchmark builder

func c20hKernelString(k *nvidiaconfig.Kernel) string {
	var b strings.Builder
	b.WriteString("[")
	for _, tb := range k.Threadblocks {
		b.WriteString("(")
		for i, w := range tb.Warps {
			if i > 0 {
				b.WriteString(",")
			}
			fmt.Fprintf(&b, "%d", w.InstructionsCount)
		}
		b.WriteString(")")
	}
	b.WriteString("]")
	return b.String()
}

func c20hShape(tbs []c20TB) c20Trace {
	k := [][]int{}
	for _, tb := range tbs {
		b := []int{}
		for _, w := range tb.warps {
			b = append(b, len(w.insts))
		}
		k = append(k, b)
	}
	return c20Trace{k}
}

type c20hFile struct {
	name  string
	lines []string
	tbs   []c20TB
}

// c20hBuild runs the real BenchmarkBuilder on the directory and every exec on a real driver
func c20hBuild(dir string) (answer string, kernels []string, drvKernels []string, und int, unf int64) {
	var bm *nvbench.Benchmark
	fault := c20hCatch(func() { bm = new(nvbench.BenchmarkBuilder).WithTraceDirectory(dir).Build() })
	if fault != "" {
		return fault, nil, nil, 0, 0
	}
	parts := []string{}
	for _, e := range bm.TraceExecs {
		switch x := e.(type) {
		case *nvbench.ExecKernel:
			s := c20hKernelString(x.GetKernel())
			kernels = append(kernels, s)
			parts = append(parts, "K"+s)
		case *nvbench.ExecMemcpy:
			d, a, n := x.VerifFields()
			parts = append(parts, fmt.Sprintf("M[%s],%d,%d", c20hEsc(d), a, n))
		}
	}
	d := new(nvdriver.DriverBuilder).WithEngine(sim.NewSerialEngine()).WithFreq(1 * sim.Hz).Build("Driver")
	for _, e := range bm.TraceExecs {
		e.Run(d)
	}
	for _, k := range d.VerifUndispatchedKernels() {
		drvKernels = append(drvKernels, c20hKernelString(k))
	}
	answer = "none"
	if len(parts) > 0 {
		answer = strings.Join(parts, " ")
	}
	return answer + " run=" + strings.Join(drvKernels, ""), kernels, drvKernels, d.VerifUndispatched(), d.VerifUnfinished()
}

func c20hBenchCase(r *Run, rng *Rng, dir string, endToEnd bool) {
	must(os.RemoveAll(dir))
	nf := rng.Range(1, 3)
	files := []c20hFile{}
	negField := false
	for i := 0; i < nf; i++ {
		tbs := c20GenTBs(rng)
		f := c20hFile{name: fmt.Sprintf("kernel-%d.traceg", i+1), tbs: tbs}
		f.lines = append(c20hCanonicalLines(c20hGenHeader(rng)), c20RenderBody(rng, tbs)...)
		if rng.Chance(15) {
			// a warp without instruction lines whose count field is negative: still no instruction lines,
			// the kernel handed to the driver must say 0 (len(Instructions), not the insts = N field)
			for i, l := range f.lines {
				if l == "insts = 0" && rng.Bool() {
					f.lines[i] = fmt.Sprintf("insts = -%d", rng.Range(1, 9))
					negField = true
				}
			}
		}
		files = append(files, f)
	}
	// the list: every file at least once, in a random order, some twice, memcpy lines in between
	klist := []string{}
	want := []string{}
	order := rng.Perm(nf)
	if rng.Chance(30) {
		order = append(order, rng.Intn(nf))
	}
	for _, i := range order {
		for rng.Chance(35) {
			klist = append(klist, c20hExec{dir: []string{"MemcpyHtoD", "MemcpyDtoH"}[rng.Intn(2)], addr: c20hU64(rng), len: c20hU64(rng)}.render())
		}
		klist = append(klist, files[i].name)
		want = append(want, c20hShape(files[i].tbs).String())
		if rng.Chance(15) {
			klist = append(klist, "")
		}
	}
	mutated := !endToEnd && rng.Chance(35)
	kind := "wellformed"
	if mutated {
		switch rng.Intn(5) {
		case 0:
			kind = "missing_file"
			klist = append(klist, "kernel-99.traceg")
		case 1:
			kind = "bad_list_line"
			k := rng.Intn(len(klist) + 1)
			klist = append(klist[:k:k], append([]string{c20hBadExecs[rng.Intn(len(c20hBadExecs))]}, klist[k:]...)...)
		case 2, 3:
			kind = "insts_count_mismatch"
			f := &files[rng.Intn(nf)]
			idx := []int{}
			for i, l := range f.lines {
				if strings.HasPrefix(l, "insts = ") {
					idx = append(idx, i)
				}
			}
			if len(idx) > 0 {
				i := idx[rng.Intn(len(idx))]
				var n int
				fmt.Sscanf(f.lines[i], "insts = %d", &n)
				f.lines[i] = fmt.Sprintf("insts = %d", []int{n - 1, n + 1, 0, -1, n + 2}[rng.Intn(5)])
			}
		case 4:
			kind = "bad_header"
			f := &files[rng.Intn(nf)]
			f.lines, _ = c20hMutate(rng, f.lines)
		}
	}
	c20hWrite(dir, "kernelslist.g", klist)
	cs := "c20 bench " + c20hSection(klist)
	for _, f := range files {
		c20hWrite(dir, f.name, f.lines)
		cs += c20hEsc(f.name) + "~" + c20hSection(f.lines)
	}
	got, kernels, drv, und, unf := c20hBuild(dir)
	r.Case(cs, got)
	r.Count("bench:" + kind)
	if mutated {
		return
	}
	if negField {
		r.Count("bench:negative_insts_field")
	}
	r.Checked("bench.counts")
	if strings.Join(kernels, " ") != strings.Join(want, " ") {
		r.Failf("C20.bench.counts", cs, "kernels built from the trace files (blocks x warps x instruction lines, kernelslist order): want %v got %v", want, kernels)
	}
	if strings.Join(drv, " ") != strings.Join(want, " ") || und != len(want) || unf != int64(len(want)) {
		r.Failf("C20.bench.run", cs, "kernels handed to Driver.RunKernel: want %v got %v (undispatched %d unfinished %d)", want, drv, und, unf)
	}
	if !endToEnd {
		return
	}
	// the whole pipeline: files -> BenchmarkBuilder -> Runner on a real platform -> instructions received by sub-cores
	lines := 0
	for _, i := range order {
		for _, tb := range files[i].tbs {
			for _, w := range tb.warps {
				lines += len(w.insts)
			}
		}
	}
	var bm *nvbench.Benchmark
	if f := catch(func() { bm = new(nvbench.BenchmarkBuilder).WithTraceDirectory(dir).Build() }); f != "" {
		return
	}
	s := c20Build(1, 2, 2)
	runner := new(nvrunner.RunnerBuilder).WithPlatform(s.p).Build()
	runner.AddBenchmark(bm)
	ok, fault := withTimeout(20*time.Second, func() { runner.Run() })
	r.Checked("bench.end_to_end")
	if !ok || fault != "" {
		r.Failf("C20.bench.end_to_end", cs, "run of the built benchmark did not end: ok=%v fault=%s", ok, fault)
		return
	}
	recv := 0
	for _, c := range s.subs {
		recv += int(c.GetTotalInstsCount())
	}
	if recv != lines || s.p.Driver.VerifUnfinished() != 0 {
		r.Failf("C20.bench.end_to_end", cs, "sub-cores received %d instructions, the trace files have %d instruction lines (driver unfinished=%d)", recv, lines, s.p.Driver.VerifUnfinished())
	}
}

// ------------------------------------------------------------------ runner

func runC20Header(r *Run, rng *Rng, replay string) {
	log.SetOutput(io.Discard)
	log.SetLevel(log.PanicLevel)
	devnull, _ := os.OpenFile(os.DevNull, os.O_WRONLY, 0)
	stdout := os.Stdout
	os.Stdout = devnull
	defer func() { os.Stdout = stdout }()

	nHdr, nList, nLine, nBench, nE2E := 3000, 1000, 1000, 600, 20
	if r.Tier == "thorough" {
		nHdr, nList, nLine, nBench, nE2E = 30000, 10000, 10000, 6000, 200
	}
	dir := filepath.Join(r.OutDir, "c20h")
	c20hHeaderWitnesses(r, dir)
	c20hListWitnesses(r, dir)
	for i := 0; i < nHdr; i++ {
		c20hHeaderCase(r, rng, dir)
	}
	for i := 0; i < nList; i++ {
		c20hListCase(r, rng, dir)
	}
	for i := 0; i < nLine; i++ {
		c20hExecLineCase(r, rng)
	}
	for i := 0; i < nBench; i++ {
		c20hBenchCase(r, rng, filepath.Join(dir, "bench"), false)
	}
	for i := 0; i < nE2E; i++ {
		c20hBenchCase(r, rng, filepath.Join(dir, "bench"), true)
	}
	os.RemoveAll(dir)
}
