package main

import (
	"context"
	"fmt"
	"os"
	"os/exec"
	"path/filepath"
	"runtime"
	"strconv"
	"strings"
	"sync"
	"sync/atomic"
	"time"

	"github.com/sarchlab/akita/v4/mem/vm"
	"github.com/sarchlab/akita/v4/sim"
	"github.com/sarchlab/akita/v4/tracing"
	"github.com/sarchlab/mgpusim/v4/amd/driver"
	"github.com/sarchlab/mgpusim/v4/amd/protocol"
)

func init() { register("C12", runC12) }

// =====================================================================================
// Tie H, part 1: schedule-forcing harness over the verifYield points.
//
// Three roles: "a" the application goroutine (enqueue*, DrainCommandQueue, several rounds),
// "r" Driver.runAsync, "e" Driver.runEngine. A goroutine that reaches a park point blocks on a
// gate; a schedule is a list of roles; a move releases the role's gate and then waits until the
// whole system is quiescent again (every role goroutine parked at a gate or blocked in a real
// channel operation, as reported by runtime.Stack). The observation after each move (program
// counters, queue contents, buffered notification, engine flags, number of returned drains) is
// compared with the Lean model's `macroStep`.
// =====================================================================================

var c12ParkPoints = map[string]string{ // point -> model pc name
	"app.idle":           "idle",
	"drain.beforeSignal": "sig",
	"drain.beforeCheck":  "chk",
	"drain.beforeWait":   "toWait",
	"async.afterRecv":    "tick",
	"async.beforeFlag":   "chkFlag",
	"engine.start":       "start",
	"engine.event":       "deq",
	"engine.afterRun":    "afterRun",
}

func c12RoleOf(point string) string {
	switch {
	case strings.HasPrefix(point, "app.") || strings.HasPrefix(point, "drain."):
		return "a"
	case strings.HasPrefix(point, "async."):
		return "r"
	case strings.HasPrefix(point, "engine."):
		return "e"
	}
	return ""
}

type c12Gate struct {
	point string
	ch    chan struct{}
}

type c12Sys struct {
	mu        sync.Mutex
	gating    bool
	parked    map[string]*c12Gate
	passed    map[string]int
	d         *driver.Driver
	eng       *sim.SerialEngine
	q         *driver.CommandQueue
	rounds    []int
	appDone   bool
	appFault  string
	returned  int
	nextID    int
	submitted []string
	early     []string // drains that returned with a non-empty queue
	nparks    atomic.Int64
}

var c12Cur *c12Sys
var c12CurMu sync.Mutex

// c12DeqHook, when set, is called at the yield point at the start of CommandQueue.Dequeue
// (used by the sequential multi-queue scenario, which runs without goroutines).
var c12DeqHook func()

func c12Yield(point string) {
	if point == "queue.dequeue" && c12DeqHook != nil {
		c12DeqHook()
	}
	c12CurMu.Lock()
	s := c12Cur
	c12CurMu.Unlock()
	if s != nil {
		s.yield(point)
	}
	// the two-application-thread gate harness (c12_gate2.go) runs after this file's runner
	if g := c12g2Cur.Load(); g != nil {
		g.yield(point)
	}
}

func (s *c12Sys) yield(point string) {
	s.mu.Lock()
	s.passed[point]++
	_, park := c12ParkPoints[point]
	if !s.gating || !park {
		s.mu.Unlock()
		return
	}
	g := &c12Gate{point: point, ch: make(chan struct{})}
	s.parked[c12RoleOf(point)] = g
	s.nparks.Add(1)
	s.mu.Unlock()
	<-g.ch
}

// engine hook: a park point before every tick event of the driver (inside pauseLock)
type c12EngineHook struct{ s *c12Sys }

func (h *c12EngineHook) Func(ctx sim.HookCtx) {
	if ctx.Pos != sim.HookPosBeforeEvent {
		return
	}
	evt, ok := ctx.Item.(sim.Event)
	if !ok {
		return
	}
	if evt.Handler() == sim.Handler(h.s.d.TickingComponent) {
		h.s.yield("engine.event")
	}
}

var c12Shared *c12Sys

// c12NewSys prepares a system for one schedule. Building a driver costs ~30 ms (device memory
// state), so the driver, engine and queue of the previous schedule are reused once they are
// quiescent again (application script finished, runAsync in its select, no engine goroutine).
func c12NewSys(rounds []int) *c12Sys {
	if s := c12Shared; s != nil {
		s.mu.Lock()
		s.gating = true
		s.parked = map[string]*c12Gate{}
		s.rounds = rounds
		s.appDone = false
		s.appFault = ""
		s.returned = 0
		s.nextID = 0
		s.submitted = nil
		s.early = nil
		s.mu.Unlock()
		go c12AppThread(s)
		return s
	}
	s := &c12Sys{gating: true, parked: map[string]*c12Gate{}, passed: map[string]int{}, rounds: rounds}
	s.eng = sim.NewSerialEngine()
	s.d = driver.MakeBuilder().WithEngine(s.eng).WithPageTable(vm.NewPageTable(12)).WithLog2PageSize(12).Build("Driver")
	s.eng.AcceptHook(&c12EngineHook{s})
	ctx := s.d.Init()
	s.q = s.d.CreateCommandQueue(ctx)
	// warm-up: the default memory-copy middleware reports progress on its very first tick
	// (cyclesLeft starts at 0), which would add one extra empty tick event to the first round only
	s.d.Tick()
	c12CurMu.Lock()
	c12Cur = s
	c12CurMu.Unlock()
	s.d.Run()
	c12Shared = s
	go c12AppThread(s)
	return s
}

// c12AppThread is the application goroutine (its name is looked up in stack dumps).
func c12AppThread(s *c12Sys) {
	fault := catch(func() {
		for _, k := range s.rounds {
			for i := 0; i < k; i++ {
				s.yield("app.idle")
				s.mu.Lock()
				s.nextID++
				id := strconv.Itoa(s.nextID)
				s.submitted = append(s.submitted, id)
				s.mu.Unlock()
				s.d.Enqueue(s.q, &driver.NoopCommand{ID: id})
			}
			s.yield("app.idle")
			s.d.DrainCommandQueue(s.q)
			left := s.q.VerifCommandIDs()
			s.mu.Lock()
			s.returned++
			if len(left) != 0 {
				s.early = append(s.early, strings.Join(left, ","))
			}
			s.mu.Unlock()
		}
	})
	s.mu.Lock()
	s.appFault = fault
	s.appDone = true
	s.mu.Unlock()
}

type c12G struct {
	state string
	role  string
}

var c12StackBuf = make([]byte, 1<<16)

// c12Goroutines lists the role goroutines with their scheduler state.
func c12Goroutines() []c12G {
	tD := time.Now()
	defer func() { c12DumpT += time.Since(tD); c12DumpN++ }()
	n := runtime.Stack(c12StackBuf, true)
	for n == len(c12StackBuf) {
		c12StackBuf = make([]byte, 2*len(c12StackBuf))
		n = runtime.Stack(c12StackBuf, true)
	}
	var out []c12G
	for _, blk := range strings.Split(string(c12StackBuf[:n]), "\n\n") {
		if !strings.HasPrefix(blk, "goroutine ") {
			continue
		}
		i := strings.IndexByte(blk, '[')
		j := strings.IndexByte(blk, ']')
		if i < 0 || j < i {
			continue
		}
		st := blk[i+1 : j]
		if k := strings.IndexByte(st, ','); k >= 0 {
			st = st[:k]
		}
		role := ""
		switch {
		case strings.Contains(blk, "created by main.c12NewSys"):
			role = "a"
		case strings.Contains(blk, "created by github.com/sarchlab/mgpusim/v4/amd/driver.(*Driver).runAsync in"):
			role = "e"
		case strings.Contains(blk, "created by github.com/sarchlab/mgpusim/v4/amd/driver.(*Driver).Run in"):
			role = "r"
		}
		if role != "" {
			out = append(out, c12G{state: st, role: role})
		}
	}
	return out
}

func c12BlockedLike(st string) bool {
	for _, p := range []string{"chan receive", "chan send", "select", "sync.Mutex.Lock", "semacquire", "sync.RWMutex", "sync.Cond.Wait", "sync.WaitGroup.Wait"} {
		if strings.HasPrefix(st, p) {
			return true
		}
	}
	return false
}

type c12Obs struct {
	a, r, e  string
	cmds     []string
	token    int
	cap1     int
	running  bool
	pend     bool
	returned int
	nEngines int
}

func (o c12Obs) String() string {
	b := func(x bool) string {
		if x {
			return "1"
		}
		return "0"
	}
	return fmt.Sprintf("%s.%s.%s:%s:%d:%s%s:%d", o.a, o.r, o.e, strings.Join(o.cmds, ","), o.token, b(o.running), b(o.pend), o.returned)
}

// settle waits for quiescence and returns the observation.
func (s *c12Sys) settle() (c12Obs, bool) {
	deadline := time.Now().Add(10 * time.Second)
	spins := 0
	for {
		gs := c12Goroutines()
		quiet := true
		for _, g := range gs {
			if !c12BlockedLike(g.state) {
				quiet = false
			}
		}
		if quiet {
			// every role goroutine was blocked at the time of the dump: nothing can have moved since
			var o c12Obs
			s.mu.Lock()
			st := map[string]string{}
			for _, g := range gs {
				if g.role == "e" {
					o.nEngines++
				}
				st[g.role] = g.state
			}
			pc := func(role string) string {
				if g := s.parked[role]; g != nil {
					return c12ParkPoints[g.point]
				}
				return ""
			}
			if o.a = pc("a"); o.a == "" {
				switch {
				case st["a"] == "" && s.appDone:
					o.a = "idle"
				case strings.HasPrefix(st["a"], "chan send"):
					o.a = "sending"
				case strings.HasPrefix(st["a"], "chan receive"):
					o.a = "waiting"
				default:
					o.a = "?" + st["a"]
					if os.Getenv("C12_DEBUG") != "" {
						n := runtime.Stack(c12StackBuf, true)
						fmt.Fprintf(os.Stderr, "DEBUG a=? appDone=%v gs=%v\n%s\n", s.appDone, gs, c12StackBuf[:n])
					}
				}
			}
			if o.r = pc("r"); o.r == "" {
				if strings.HasPrefix(st["r"], "select") {
					o.r = "idle"
				} else {
					o.r = "?" + st["r"]
				}
			}
			if o.e = pc("e"); o.e == "" {
				if st["e"] == "" {
					o.e = "none"
				} else {
					o.e = "?" + st["e"]
				}
			}
			o.returned = s.returned
			s.mu.Unlock()
			o.cmds = s.q.VerifCommandIDs()
			toks, caps := s.q.VerifListenerTokens()
			if len(toks) > 0 {
				o.token, o.cap1 = toks[0], caps[0]
			} else {
				o.cap1 = -1
			}
			o.running, o.pend = s.d.VerifEngineFlags()
			return o, true
		}
		if time.Now().After(deadline) {
			return c12Obs{}, false
		}
		spins++
		if spins < 50 {
			runtime.Gosched()
		} else {
			time.Sleep(20 * time.Microsecond)
		}
	}
}

// canMove tells whether the harness would release the role (mirrors the enabledness of the model
// as far as the harness can see it: a role is movable iff it is parked at a gate, except that
// runAsync is not released into Engine.Pause while the engine is parked inside an event).
func (s *c12Sys) canMove(role string) bool {
	s.mu.Lock()
	defer s.mu.Unlock()
	g := s.parked[role]
	if g == nil {
		return false
	}
	if role == "r" && g.point == "async.afterRecv" {
		if e := s.parked["e"]; e != nil && e.point == "engine.event" {
			return false
		}
	}
	return true
}

func (s *c12Sys) move(role string) (string, c12Obs, bool) {
	if !s.canMove(role) {
		return "-", c12Obs{}, true
	}
	s.mu.Lock()
	g := s.parked[role]
	delete(s.parked, role)
	s.mu.Unlock()
	before := s.nparks.Load()
	close(g.ch)
	// cheap wait first: most moves end with the role parking at its next gate
	for i := 0; i < 3000 && s.nparks.Load() == before; i++ {
		runtime.Gosched()
	}
	o, ok := s.settle()
	if !ok {
		return "unsettled", o, false
	}
	return o.String(), o, true
}

func (s *c12Sys) done() bool {
	s.mu.Lock()
	defer s.mu.Unlock()
	return s.appDone
}

// freeRun removes all gates and waits for the application thread to finish its script.
func (s *c12Sys) freeRun(d time.Duration) bool {
	s.mu.Lock()
	s.gating = false
	for k, g := range s.parked {
		close(g.ch)
		delete(s.parked, k)
	}
	s.mu.Unlock()
	deadline := time.Now().Add(d)
	for !s.done() {
		if time.Now().After(deadline) {
			return false
		}
		time.Sleep(50 * time.Microsecond)
	}
	return true
}

// rescue tries to un-hang a stuck application thread (so later cases can still run).
func (s *c12Sys) rescue() bool {
	for i := 0; i < 200 && !s.done(); i++ {
		s.q.NotifyAllSubscribers()
		if i%20 == 0 {
			go func() { withTimeout(2*time.Second, func() { s.d.DrainCommandQueue(s.q) }) }()
		}
		time.Sleep(5 * time.Millisecond)
	}
	return s.done()
}

var c12Poisoned bool
var c12Hangs int
var c12SkipNoted bool
var c12CapNoted bool
var c12T [3]time.Duration
var c12DumpT time.Duration
var c12DumpN int

// teardown waits until the system is quiescent and reusable; a system that does not wind down is
// dropped (and its driver terminated).
func (s *c12Sys) teardown() {
	deadline := time.Now().Add(3 * time.Second)
	for {
		gs := c12Goroutines()
		ok := len(gs) == 1 && gs[0].role == "r" && strings.HasPrefix(gs[0].state, "select")
		if ok && len(s.q.VerifCommandIDs()) == 0 {
			if run, pend := s.d.VerifEngineFlags(); !run && !pend {
				return
			}
		}
		if time.Now().After(deadline) {
			break
		}
		runtime.Gosched()
	}
	// not reusable
	c12Shared = nil
	c12CurMu.Lock()
	c12Cur = nil
	c12CurMu.Unlock()
	withTimeout(2*time.Second, func() { s.d.Terminate() })
	deadline = time.Now().Add(3 * time.Second)
	for len(c12Goroutines()) != 0 {
		if time.Now().After(deadline) {
			c12Poisoned = true
			return
		}
		time.Sleep(100 * time.Microsecond)
	}
}

// c12DropShared terminates the shared system (before the free-running stress part).
func c12DropShared() {
	if s := c12Shared; s != nil {
		c12Shared = nil
		c12CurMu.Lock()
		c12Cur = nil
		c12CurMu.Unlock()
		withTimeout(2*time.Second, func() { s.d.Terminate() })
	}
}

func c12RoundsStr(rounds []int) string {
	p := make([]string, len(rounds))
	for i, k := range rounds {
		p[i] = strconv.Itoa(k)
	}
	return strings.Join(p, ",")
}

// c12Exec runs one gated schedule. choose gets the step index and the set of movable roles and
// returns the role to move ("" = stop). It returns the roles moved and the enabled sets seen.
func c12Exec(r *Run, kind string, rounds []int, choose func(i int, en []string) string, maxSteps int) (taken []string, enabled [][]string) {
	if c12Poisoned || c12Hangs >= 3 {
		if !c12SkipNoted {
			c12SkipNoted = true
			r.Note("C12: remaining schedule cases skipped after %d hangs", c12Hangs)
		}
		return nil, nil
	}
	tA := time.Now()
	s := c12NewSys(rounds)
	var outs []string
	line := func() string {
		return fmt.Sprintf("c12 sched rounds=%s ; %s", c12RoundsStr(rounds), strings.Join(taken, " "))
	}
	o, ok := s.settle()
	failed := false
	if !ok {
		r.Failf("C12.harness.unsettled", line(), "initial state did not become quiescent")
		failed = true
	}
	for i := 0; !failed && i < maxSteps; i++ {
		var en []string
		for _, role := range []string{"a", "r", "e"} {
			if s.canMove(role) {
				en = append(en, role)
			}
		}
		enabled = append(enabled, en)
		if len(en) == 0 {
			if !s.done() {
				r.Failf("C12.drain-hang."+kind, line(), "stuck state on the real code: no thread can move, application thread is %s (queue=%v)", o.a, o.cmds)
				failed = true
			}
			break
		}
		role := choose(i, en)
		if role == "" {
			break
		}
		out, o2, ok := s.move(role)
		taken = append(taken, role)
		outs = append(outs, out)
		if !ok {
			r.Failf("C12.harness.unsettled", line(), "system did not become quiescent after the move")
			failed = true
			break
		}
		if out != "-" {
			o = o2
			r.Checked("sched.obs")
			// implementation-side oracles on every observation
			s.mu.Lock()
			sub := append([]string(nil), s.submitted...)
			s.mu.Unlock()
			if len(o.cmds) > len(sub) || strings.Join(sub[len(sub)-len(o.cmds):], ",") != strings.Join(o.cmds, ",") {
				r.Failf("C12.fifo.schedule", line(), "queue %v is not a suffix of the submission order %v", o.cmds, sub)
			}
			if (o.token > 1 || (o.cap1 >= 0 && o.cap1 != 1)) && !c12CapNoted {
				c12CapNoted = true
				r.Failf("C12.signal-capacity", line(), "listener signal holds %d notifications, capacity %d", o.token, o.cap1)
			}
			if o.nEngines > 1 {
				r.Failf("C12.two-engines", line(), "%d runEngine goroutines alive at a quiescent point", o.nEngines)
			}
			if o.pend && !o.running {
				r.Failf("C12.pending-without-engine", line(), "enginePending set while engineRunning is false")
			}
		}
	}
	tB := time.Now()
	// liveness oracle: from wherever the schedule stopped, the free-running system must finish
	r.Checked("sched.finish")
	limit := 2 * time.Second
	if failed {
		limit = 50 * time.Millisecond
	}
	if !s.freeRun(limit) {
		c12Hangs++
		if !failed {
			r.Failf("C12.drain-hang."+kind, line(), "DrainCommandQueue did not return within 2 s after the gates were removed (queue=%v)", s.q.VerifCommandIDs())
		}
		if !s.rescue() {
			c12Poisoned = true
			r.Note("C12: an application thread could not be rescued after a hang; remaining schedule cases skipped")
		}
	}
	s.mu.Lock()
	for _, e := range s.early {
		r.Failf("C12.drain-early-return", line(), "DrainCommandQueue returned while the queue still held %s", e)
	}
	if s.appFault != "" {
		r.Failf("C12.app-fault", line(), "application thread panicked: %s", s.appFault)
	}
	s.mu.Unlock()
	tC := time.Now()
	s.teardown()
	c12T[0] += tB.Sub(tA)
	c12T[1] += tC.Sub(tB)
	c12T[2] += time.Since(tC)
	r.Case(line(), strings.Join(outs, " "))
	r.Count("sched." + kind)
	r.CountN("sched.steps", len(taken))
	return taken, enabled
}

func c12Fixed(seq []string, then func(i int, en []string) string) func(int, []string) string {
	return func(i int, en []string) string {
		if i < len(seq) {
			return seq[i]
		}
		if then == nil {
			return ""
		}
		return then(i, en)
	}
}

func c12First(i int, en []string) string { return en[0] }

// gate-level versions of the two schedules that hang the pre-fix protocol (Orig.lostNotify,
// Orig.engineExitRace); on the repaired code they must terminate.
var c12WitnessLostNotify = strings.Fields("a a a r r a e e a")

// round 1 (1 command) completes, engine parks after Engine.Run returned; round 2 enqueues and signals
var c12WitnessEngineExit = strings.Fields("a a a r r a a e e a e a a a r r e a a")

func c12Schedules(r *Run, rng *Rng) {
	thorough := r.Tier == "thorough"
	// 1. the two witnesses, followed by "first movable role" to the end
	c12Exec(r, "witness-lost-notify", []int{1}, c12Fixed(c12WitnessLostNotify, c12First), 200)
	c12Exec(r, "witness-engine-exit", []int{1, 1}, c12Fixed(c12WitnessEngineExit, c12First), 200)
	// and stopped right after the critical window (free run from there)
	c12Exec(r, "witness-lost-notify", []int{1}, c12Fixed(c12WitnessLostNotify, nil), 200)
	c12Exec(r, "witness-engine-exit", []int{1, 1}, c12Fixed(c12WitnessEngineExit, nil), 200)

	// 2. systematic: depth-first over the movable roles for the first D moves, completed by
	//    "last movable role" (stateless exploration: every execution is one complete schedule)
	type cfg struct {
		rounds []int
		depth  int
		budget int
	}
	// [1] and [2] are explored completely (about 110 and 250 gate-level interleavings)
	cfgs := []cfg{{[]int{1}, 100, 1500}, {[]int{2}, 100, 1500}, {[]int{1, 1}, 100, 800}, {[]int{0, 1}, 100, 600}}
	if thorough {
		cfgs = []cfg{{[]int{1}, 100, 1500}, {[]int{2}, 100, 1500}, {[]int{1, 1}, 100, 15000}, {[]int{0, 1}, 100, 10000}, {[]int{3}, 100, 3000}, {[]int{2, 0, 1}, 100, 3000}}
	}
	for _, c := range cfgs {
		stack := [][]string{{}}
		n := 0
		for len(stack) > 0 && n < c.budget && !c12Poisoned {
			prefix := stack[len(stack)-1]
			stack = stack[:len(stack)-1]
			taken, en := c12Exec(r, "systematic", c.rounds, c12Fixed(prefix, func(i int, en []string) string { return en[len(en)-1] }), 300)
			n++
			for i := len(prefix); i < len(taken) && i < c.depth && i < len(en); i++ {
				for _, alt := range en[i] {
					if alt != taken[i] {
						np := append(append([]string(nil), taken[:i]...), alt)
						stack = append(stack, np)
					}
				}
			}
		}
		r.CountN("systematic.unexplored-prefixes."+c12RoundsStr(c.rounds), len(stack))
	}

	// 3. random deeper schedules (mostly movable roles, sometimes a blocked one)
	nr := 400
	if thorough {
		nr = 10000
	}
	for i := 0; i < nr && !c12Poisoned; i++ {
		nrounds := rng.Range(1, 3)
		rounds := make([]int, nrounds)
		for j := range rounds {
			rounds[j] = rng.Pick(0, 1, 1, 2, 3)
		}
		bias := rng.Pick(0, 1, 2, 3) // favourite role
		c12Exec(r, "random", rounds, func(i int, en []string) string {
			if rng.Chance(8) {
				return []string{"a", "r", "e"}[rng.Intn(3)]
			}
			if bias < 3 && rng.Chance(50) {
				fav := []string{"a", "r", "e"}[bias]
				for _, x := range en {
					if x == fav {
						return x
					}
				}
			}
			return en[rng.Intn(len(en))]
		}, 400)
	}
}

// =====================================================================================
// Free-running stress: several application goroutines, 1-3 queues/contexts, no gates.
// Oracle: every DrainCommandQueue returns (wall-clock limit) and only when its queue is empty of
// the commands submitted before the call.
// =====================================================================================

func c12Stress(r *Run, rng *Rng, n int) {
	for it := 0; it < n && !c12Poisoned; it++ {
		c12CurMu.Lock()
		c12Cur = nil
		c12CurMu.Unlock()
		eng := sim.NewSerialEngine()
		d := driver.MakeBuilder().WithEngine(eng).WithPageTable(vm.NewPageTable(12)).WithLog2PageSize(12).Build("Driver")
		d.Run()
		nthreads := rng.Range(1, 3)
		shared := rng.Chance(30) // all threads on one queue
		ctx0 := d.Init()
		q0 := d.CreateCommandQueue(ctx0)
		var wg sync.WaitGroup
		line := fmt.Sprintf("stress threads=%d shared=%v seed=%d#%d", nthreads, shared, r.Seed, it)
		var mu sync.Mutex
		early := 0
		pids := map[uint64]int{}
		for t := 0; t < nthreads; t++ {
			ownCtx := rng.Bool()
			roundsN := rng.Range(1, 30)
			ks := make([]int, roundsN)
			for i := range ks {
				ks[i] = rng.Pick(0, 1, 1, 2, 5)
			}
			wg.Add(1)
			go func(t int, ks []int) {
				defer wg.Done()
				defer func() {
					if e := recover(); e != nil {
						r.Failf("C12.drain-panic.stress", line, "application thread %d panicked inside the driver API: %v", t, e)
					}
				}()
				q := q0
				if !shared && t > 0 {
					// contexts and queues are created concurrently by the application threads
					ctx := ctx0
					if ownCtx {
						ctx = d.Init()
						mu.Lock()
						pids[uint64(ctx.VerifPID())]++
						mu.Unlock()
					}
					q = d.CreateCommandQueue(ctx)
				}
				for ri, k := range ks {
					for i := 0; i < k; i++ {
						d.Enqueue(q, &driver.NoopCommand{ID: fmt.Sprintf("%d.%d.%d", t, ri, i)})
					}
					d.DrainCommandQueue(q)
					if !shared && q.NumCommand() != 0 {
						mu.Lock()
						early++
						mu.Unlock()
					}
				}
			}(t, ks)
		}
		ok, _ := withTimeout(10*time.Second, wg.Wait)
		r.Checked("stress.finish")
		r.Count("stress")
		if !ok {
			r.Failf("C12.drain-hang.stress", line, "free-running application threads did not finish within 10 s")
			c12Poisoned = true
			return
		}
		if early > 0 {
			r.Failf("C12.drain-early-return", line, "%d drains returned with a non-empty private queue", early)
		}
		pids[uint64(ctx0.VerifPID())]++
		for pid, n := range pids {
			if n > 1 {
				r.Failf("C12.context-pid-clash", line, "%d concurrently created contexts share PID %d", n, pid)
			}
		}
		withTimeout(2*time.Second, func() { d.Terminate() })
	}
}

// =====================================================================================
// Tie H, part 2: head-of-queue processing over several queues (sequential, no goroutines):
// real Driver.Tick with a fake engine, Noop commands and LaunchKernel commands whose responses the
// harness delivers. Compared with the Lean model `C12.Q`; FIFO / one-at-a-time oracles.
// =====================================================================================

type c12Tracer struct {
	onStart func(id string)
	ends    []string
}

func (t *c12Tracer) StartTask(task tracing.Task) {
	if task.Kind == "Driver Command" {
		t.onStart(task.ID)
	}
}
func (t *c12Tracer) StepTask(task tracing.Task)       {}
func (t *c12Tracer) AddMilestone(m tracing.Milestone) {}
func (t *c12Tracer) EndTask(task tracing.Task)        { t.ends = append(t.ends, task.ID) }

type c12QEnv struct {
	perCtx  []int
	d       *driver.Driver
	gpuPort sim.Port
	cpPort  sim.Port
	tr      *c12Tracer
	qs      []*driver.CommandQueue
}

// c12NewQEnv builds a driver (fake engine, one fake GPU port) with 1-3 contexts and 1-4 queues.
func c12NewQEnv(rng *Rng) *c12QEnv {
	e := &c12QEnv{}
	nctx := rng.Range(1, 3)
	total := 0
	for i := 0; i < nctx; i++ {
		k := rng.Range(1, 2)
		if total+k > 3 {
			k = 1
		}
		e.perCtx = append(e.perCtx, k)
		total += k
	}
	e.d = driver.MakeBuilder().WithEngine(&fakeEngine{}).WithPageTable(vm.NewPageTable(12)).WithLog2PageSize(12).Build("Driver")
	e.gpuPort = e.d.GetPortByName("GPU")
	(&fakeConn{name: "c"}).PlugIn(e.gpuPort)
	e.cpPort = sim.NewPort(nil, 16, 16, "FakeGPU.ToDriver")
	e.d.RegisterGPU(e.cpPort, driver.DeviceProperties{CUCount: 4, DRAMSize: 1 << 30})
	e.tr = &c12Tracer{}
	tracing.CollectTrace(e.d, e.tr)
	for _, k := range e.perCtx {
		ctx := e.d.Init()
		for j := 0; j < k; j++ {
			e.qs = append(e.qs, e.d.CreateCommandQueue(ctx))
		}
	}
	return e
}

// c12QueueScenario runs one op scenario on the environment; it ends by answering and ticking
// until every queue is empty again (these ops are part of the case), so the environment is reusable.
func c12QueueScenario(r *Run, rng *Rng, big bool, env *c12QEnv) {
	perCtx, d, gpuPort, cpPort, tr, qs := env.perCtx, env.d, env.gpuPort, env.cpPort, env.tr, env.qs
	nq := len(qs)
	idOf := map[string][2]int{} // command id -> (queue, number)
	next := 0
	var events []string // global order: s<q>.<n> = command n of queue q started, d<q>.<n> = completed
	submitted := make([][]int, nq)
	reqOf := map[int]sim.Msg{} // queue -> outstanding request
	var ops []string
	line := func() string {
		p := make([]string, len(perCtx))
		for i, k := range perCtx {
			p[i] = strconv.Itoa(k)
		}
		return fmt.Sprintf("c12 q n=%d ctx=%s ; %s", nq, strings.Join(p, ","), strings.Join(ops, " "))
	}
	snapshot := func() [][]string {
		out := make([][]string, nq)
		for i, q := range qs {
			out[i] = q.VerifCommandIDs()
		}
		return out
	}
	// every Dequeue is observed: snapshot at its yield point, resolved (which queue lost which
	// head) at the next observed event or at the end of the tick
	var pending [][]string
	resolve := func() {
		if pending == nil {
			return
		}
		now := snapshot()
		hit := 0
		for i := range qs {
			if len(now[i]) != len(pending[i]) {
				hit++
				if len(now[i])+1 != len(pending[i]) || len(pending[i]) == 0 || strings.Join(pending[i][1:], ",") != strings.Join(now[i], ",") {
					r.Failf("C12.fifo.dequeue", line(), "a Dequeue changed queue %d from %v to %v (not a removal of the head)", i, pending[i], now[i])
					continue
				}
				events = append(events, fmt.Sprintf("d%d.%d", i, idOf[pending[i][0]][1]))
			}
		}
		if hit != 1 {
			r.Failf("C12.fifo.dequeue", line(), "a Dequeue changed %d queues", hit)
		}
		pending = nil
	}
	c12DeqHook = func() { resolve(); pending = snapshot() }
	defer func() { c12DeqHook = nil }()
	tr.onStart = func(id string) {
		resolve()
		qi := idOf[id]
		events = append(events, fmt.Sprintf("s%d.%d", qi[0], qi[1]))
	}
	answer := func() string {
		// canonical answer: per queue "queued ids[*]/started ids/completed ids"
		var qstr []string
		for i, q := range qs {
			ids := q.VerifCommandIDs()
			nums := make([]string, len(ids))
			for j, id := range ids {
				nums[j] = strconv.Itoa(idOf[id][1])
			}
			s := strings.Join(nums, ",")
			if q.IsRunning {
				s += "*"
			}
			var st, dn []string
			for _, e := range events {
				if strings.HasPrefix(e[1:], strconv.Itoa(i)+".") {
					num := e[strings.IndexByte(e, '.')+1:]
					if e[0] == 's' {
						st = append(st, num)
					} else {
						dn = append(dn, num)
					}
				}
			}
			qstr = append(qstr, s+"/"+strings.Join(st, ",")+"/"+strings.Join(dn, ","))
		}
		return strings.Join(qstr, " | ")
	}
	collect := func() {
		// requests the driver sent to the GPU
		for {
			m := gpuPort.RetrieveOutgoing()
			if m == nil {
				break
			}
			if lk, ok := m.(*protocol.LaunchKernelReq); ok {
				for i, q := range qs {
					if !q.IsRunning {
						continue
					}
					if c := q.Peek(); c != nil {
						for _, rq := range c.GetReqs() {
							if rq.Meta().ID == lk.ID {
								reqOf[i] = lk
							}
						}
					}
				}
			}
		}
	}
	tick := func() {
		ops = append(ops, "t")
		d.Tick()
		resolve()
		collect()
	}
	respond := func(qi int) bool {
		req := reqOf[qi]
		if req == nil {
			return false
		}
		ops = append(ops, fmt.Sprintf("r:%d", qi))
		rsp := protocol.NewLaunchKernelRsp(cpPort.AsRemote(), gpuPort.AsRemote(), req.Meta().ID)
		if err := gpuPort.Deliver(rsp); err != nil {
			r.Failf("C12.harness.deliver", line(), "cannot deliver response")
			return false
		}
		delete(reqOf, qi)
		tick()
		return true
	}
	running := func() []int {
		var run []int
		for i, q := range qs {
			if q.IsRunning && reqOf[i] != nil {
				run = append(run, i)
			}
		}
		return run
	}
	nops := rng.Range(4, 30)
	if big {
		nops = rng.Range(30, 120)
	}
	for k := 0; k < nops; k++ {
		c := rng.Intn(100)
		switch {
		case c < 40:
			qi := rng.Intn(nq)
			next++
			id := "c" + strconv.Itoa(next)
			idOf[id] = [2]int{qi, next}
			submitted[qi] = append(submitted[qi], next)
			if rng.Chance(55) {
				ops = append(ops, fmt.Sprintf("n:%d", qi))
				d.Enqueue(qs[qi], &driver.NoopCommand{ID: id})
			} else {
				ops = append(ops, fmt.Sprintf("k:%d", qi))
				d.Enqueue(qs[qi], &driver.LaunchKernelCommand{ID: id})
			}
		case c < 75:
			tick()
		default:
			if run := running(); len(run) > 0 {
				respond(run[rng.Intn(len(run))])
			}
		}
	}
	// observe the state reached by the random part, then flush
	r.Case(line(), answer())
	for k := 0; k < 2000; k++ {
		empty := true
		for _, q := range qs {
			if q.NumCommand() != 0 {
				empty = false
			}
		}
		if empty {
			break
		}
		if run := running(); len(run) > 0 {
			respond(run[0])
		} else {
			tick()
		}
	}
	for i, q := range qs {
		if q.NumCommand() != 0 || q.IsRunning {
			r.Failf("C12.fifo.never-drains", line(), "queue %d still holds %v (IsRunning=%v) after answering every kernel and 2000 ticks", i, q.VerifCommandIDs(), q.IsRunning)
			env.d = nil // not reusable
		}
	}
	r.Case(line(), answer())
	r.Count(fmt.Sprintf("queues.n%d", nq))
	// oracles (independent of the model): per queue, starts and completions are in submission order,
	// alternate strictly (one at a time), and remaining = submitted minus completed
	r.Checked("queues.fifo")
	for i := range qs {
		var st, dn []int
		var mine []string
		open := false
		for _, e := range events {
			if !strings.HasPrefix(e[1:], strconv.Itoa(i)+".") {
				continue
			}
			mine = append(mine, e)
			num, _ := strconv.Atoi(e[strings.IndexByte(e, '.')+1:])
			if e[0] == 's' {
				if open {
					r.Failf("C12.fifo.one-at-a-time", line(), "queue %d: command %d started while its predecessor was still running (%v)", i, num, mine)
				}
				open = true
				st = append(st, num)
			} else {
				if !open {
					r.Failf("C12.fifo.one-at-a-time", line(), "queue %d: command %d completed without having started (%v)", i, num, mine)
				}
				open = false
				dn = append(dn, num)
			}
		}
		for j, x := range st {
			if j >= len(submitted[i]) || submitted[i][j] != x {
				r.Failf("C12.fifo.order", line(), "queue %d started %v, submitted %v", i, st, submitted[i])
				break
			}
		}
		for j, x := range dn {
			if j >= len(submitted[i]) || submitted[i][j] != x {
				r.Failf("C12.fifo.order", line(), "queue %d completed %v, submitted %v", i, dn, submitted[i])
				break
			}
		}
		if open != qs[i].IsRunning {
			r.Failf("C12.fifo.one-at-a-time", line(), "queue %d: IsRunning=%v but its event log is %v", i, qs[i].IsRunning, mine)
		}
		ids := qs[i].VerifCommandIDs()
		if len(dn)+len(ids) != len(submitted[i]) {
			r.Failf("C12.fifo.isolation", line(), "queue %d: %d completed + %d queued != %d submitted", i, len(dn), len(ids), len(submitted[i]))
		} else {
			for j, id := range ids {
				if idOf[id][1] != submitted[i][len(dn)+j] || idOf[id][0] != i {
					r.Failf("C12.fifo.isolation", line(), "queue %d holds %v, expected the submitted commands after the %d completed ones (%v)", i, ids, len(dn), submitted[i])
					break
				}
			}
		}
	}
}

// c12RaceRun (thorough tier) rebuilds the harness with the race detector and runs the free-running
// stress scenario in a child process; any report is an oracle failure.
func c12RaceRun(r *Run, n int) {
	exe, err := os.Executable()
	if err != nil {
		r.Note("C12: race run skipped: %v", err)
		return
	}
	dir := filepath.Dir(filepath.Dir(exe))
	out := filepath.Join(dir, "bin", "harness_race")
	ctx, cancel := context.WithTimeout(context.Background(), 15*time.Minute)
	defer cancel()
	b := exec.CommandContext(ctx, "go", "build", "-race", "-tags", "verif", "-o", out, ".")
	b.Dir = dir
	if o, err := b.CombinedOutput(); err != nil {
		r.Note("C12: `go build -race` unavailable, data-race oracle skipped: %v %s", err, strings.TrimSpace(string(o)))
		return
	}
	ctx2, cancel2 := context.WithTimeout(context.Background(), 5*time.Minute)
	defer cancel2()
	c := exec.CommandContext(ctx2, out, "child", "c12race", strconv.FormatUint(r.Seed, 10), strconv.Itoa(n))
	c.Env = append(os.Environ(), "GORACE=halt_on_error=0")
	o, err := c.CombinedOutput()
	r.Checked("race.stress")
	text := string(o)
	line := fmt.Sprintf("race-stress seed=%d n=%d", r.Seed, n)
	if i := strings.Index(text, "WARNING: DATA RACE"); i >= 0 {
		rep := text[i:]
		if len(rep) > 1500 {
			rep = rep[:1500]
		}
		r.Failf("C12.data-race", line, "%d race report(s); first: %s", strings.Count(text, "WARNING: DATA RACE"), strings.Join(strings.Fields(rep), " "))
	} else if err != nil || !strings.Contains(text, "c12race ok") {
		r.Failf("C12.race-run", line, "race-instrumented stress run failed: %v %s", err, strings.Join(strings.Fields(text), " "))
	} else {
		r.Note("C12: race-instrumented stress run (%d systems): no data race reported", n)
	}
}

func init() {
	childFuncs["c12race"] = func(args []string) {
		seed, _ := strconv.ParseUint(args[0], 10, 64)
		n, _ := strconv.Atoi(args[1])
		dir, _ := os.MkdirTemp("", "c12race")
		defer os.RemoveAll(dir)
		r := NewRun("C12", "race", seed, dir)
		c12Stress(r, NewRng(seed), n)
		if len(r.fails) > 0 {
			fmt.Printf("c12race failures: %v\n", r.fails[0])
			os.Exit(1)
		}
		fmt.Println("c12race ok")
	}
}

func runC12(r *Run, rng *Rng, replay string) {
	thorough := r.Tier == "thorough"
	driver.VerifYield = c12Yield
	if os.Getenv("C12_ONLY") == "sched" {
		t0 := time.Now()
		c12Schedules(r, rng)
		fmt.Fprintf(os.Stderr, "schedules: %v for %d steps; gated %v free-run %v teardown %v\n", time.Since(t0), r.Dist["sched.steps"], c12T[0], c12T[1], c12T[2])
		fmt.Fprintf(os.Stderr, "dumps: %d taking %v\n", c12DumpN, c12DumpT)
		return
	}
	c12SkeletonCases(r)
	nq := 300
	if thorough {
		nq = 20000
	}
	var qenv *c12QEnv
	for i := 0; i < nq; i++ {
		if qenv == nil || qenv.d == nil || i%25 == 0 {
			qenv = c12NewQEnv(rng)
		}
		c12QueueScenario(r, rng, i%10 == 0, qenv)
	}
	c12Schedules(r, rng)
	c12DropShared()
	ns := 30
	if thorough {
		ns = 600
	}
	c12Stress(r, rng, ns)
	if thorough {
		c12RaceRun(r, 300)
	}
}
