package main

import (
	"fmt"
	"strings"
	"time"

	"github.com/sarchlab/akita/v4/mem/vm"
	"github.com/sarchlab/mgpusim/v4/amd/driver"
)

// Several waiters on ONE command queue (the public Subscribe / Unsubscribe / Enqueue / Dequeue API,
// no goroutines racing: every step is sequential, only Wait runs under a wall-clock guard).
// Reference (Lean model C12_K, `Listener`): a live listener holds at most one pending notification;
// Enqueue and Dequeue give every live listener one; Wait consumes it. Oracles:
//   - after an Enqueue or Dequeue, Wait of every live listener returns (no lost wake-up because
//     somebody else unsubscribed);
//   - Unsubscribe of a live listener does not panic, whatever was unsubscribed before it.
func c12Listeners(r *Run, rng *Rng, n int) {
	for it := 0; it < n; it++ {
		d := driver.MakeBuilder().WithEngine(&fakeEngine{}).WithPageTable(vm.NewPageTable(12)).WithLog2PageSize(12).Build("Driver")
		ctx := d.Init()
		q := d.CreateCommandQueue(ctx)
		type lst struct {
			l       *driver.CommandQueueStatusListener
			id      int
			pending bool
		}
		var live []*lst
		next := 0
		ops := []string{"listeners"}
		desc := func() string { return strings.Join(ops, " ; ") }
		steps := rng.Range(4, 16)
		queued := 0
		failed := false
		for s := 0; s < steps && !failed; s++ {
			x := rng.Intn(100)
			switch {
			case x < 30 || len(live) == 0:
				live = append(live, &lst{l: q.Subscribe(), id: next})
				ops = append(ops, fmt.Sprintf("sub %d", next))
				next++
			case x < 50:
				i := rng.Intn(len(live))
				ops = append(ops, fmt.Sprintf("unsub %d", live[i].id))
				if f := catch(func() { q.Unsubscribe(live[i].l) }); f != "" {
					r.Failf("C12.listener.unsubscribe-panic", desc(), "Unsubscribe of live listener %d: %s", live[i].id, f)
					failed = true
					break
				}
				live = append(live[:i:i], live[i+1:]...)
			default:
				// a queue update never blocks, however many notifications its listeners have not
				// consumed yet (the engine goroutine calls these while it holds its own locks)
				var okq bool
				if queued > 0 && rng.Bool() {
					ops = append(ops, "deq")
					okq, _ = withTimeout(2*time.Second, func() { q.Dequeue() })
					queued--
				} else {
					ops = append(ops, "enq")
					id := fmt.Sprintf("n%d", s)
					okq, _ = withTimeout(2*time.Second, func() { q.Enqueue(&driver.NoopCommand{ID: id}) })
					queued++
				}
				r.Checked("listener.update-returns")
				if !okq {
					r.Failf("C12.listener.notify-blocks", desc(), "a queue update did not return within 2 s: notifying a listener that already holds a pending notification blocks")
					failed = true
					break
				}
				for _, l := range live {
					l.pending = true
				}
				// a random subset of the waiters goes back to Wait now
				for _, l := range live {
					if !rng.Chance(70) {
						continue
					}
					r.Checked("listener.wake")
					if ok, _ := withTimeout(500*time.Millisecond, l.l.Wait); !ok {
						r.Failf("C12.listener.lost-wakeup", desc(), "listener %d is subscribed, the queue changed, but its Wait does not return", l.id)
						failed = true
						break
					}
					l.pending = false
				}
			}
		}
		r.Count("listeners.scenario")
		r.Count(fmt.Sprintf("listeners.live.%d", len(live)))
	}
}

func init() {
	register("C12", func(r *Run, rng *Rng, _ string) {
		n := 150
		if r.Tier == "thorough" {
			n = 3000
		}
		c12Listeners(r, rng, n)
	})
}
