package main

// Property C10, second deepening pass: conservation of physical pages and the buddy allocator's
// hidden state.
//
//  (A) `c10 lost l2= cpu= gpus= ; op ; …` — default (FIFO) allocator histories through the real driver;
//      after every step the physical pages that are neither on a free list nor mapped and the number of
//      page-table entries whose physical page was replaced in place so far (counted by the harness from
//      the page table, not from the op) are compared with the Lean model (`lostPages`, `rehomed`).
//      Oracles: C10.conserve.count (|free| + |mapped| + re-homed = |all pages|), C10.conserve.recovered
//      (a lost page comes back), C10.conserve.lost_without_rehome (statement of `conservation_exact`).
//      Scripted: repeated Remap / Distribute of one buffer (repaired: the replaced pages are given back;
//      before the repair: known finding C10.conserve.leak.remap_oom).
//  (B) `c10 reg l2= cpub= gpub=` — Build + RegisterGPU with byte sizes that are not page multiples
//      (the hypothesis `Cfg` of the invariant): free lists compared with the model; the overlap of the
//      last page of a device with the next device is counted.
//  (C) `c10 buddy base= size= v= x=1 ; pop 1 ; am n ; add p` per DEVICE of whole-driver buddy histories
//      (several GPUs, unified devices, Distribute, migration, several contexts): every call the real
//      Device makes on its memory state is recorded by the verif recorder (internal.VerifRecordMemState),
//      and free lists + both bit fields + block trackers after every call are compared with the model.
//  (D) the same lines on a stand-alone internal.Device driven call by call (both initialisation orders,
//      `am 0`, frees of pages that are not allocated, non-power-of-two sizes).
//      Oracles on (C) and (D), power-of-two devices: C10.buddy.conserve (free blocks + blocks of live
//      allocations = the device, statement of `buddy_conservation`), C10.buddy.round_trip (everything
//      given back ⇒ one whole-device block, no bit set, nothing tracked: `buddy_round_trip`),
//      C10.buddy.free_crash (`buddy_legal_only_oom`). Scripted: allocateMultiplePages(0) (repaired: takes
//      nothing; before the repair it lost a block for ever, known finding C10.buddy.round_trip.am0).

import (
	"fmt"
	"sort"
	"strconv"
	"strings"

	"github.com/sarchlab/akita/v4/mem/vm"
	"github.com/sarchlab/akita/v4/sim"
	"github.com/sarchlab/mgpusim/v4/amd/driver"
)

func init() { register("C10", runC10Cons) }

// ---------------------------------------------------------------- (A) lost pages, default allocator

type c10cLost struct {
	r       *Run
	s       *c10Sys
	cfg     string
	all     []uint64
	ops     []string
	outs    []string
	k       int
	lost    map[uint64]bool
	rehome  bool // a re-homing op has been executed
	failed  bool
	lastOut string
}

func c10cNewLost(r *Run, log2 uint64, cpu int, gpus []int) *c10cLost {
	s := newC10Sys(log2, cpu, gpus, false, false)
	c := &c10cLost{r: r, s: s, lost: map[uint64]bool{}}
	c.cfg = fmt.Sprintf("c10 lost l2=%d cpu=%d gpus=%s", log2, cpu, idList(gpus))
	for i := 0; i < s.drv.VerifNumDevices(); i++ {
		fl, _ := s.drv.VerifFreeList(i)
		c.all = append(c.all, fl...)
	}
	return c
}

func (c *c10cLost) line() string { return c.cfg + " ; " + strings.Join(c.ops, " ; ") }

func c10cKeyMap(es []c10Entry) map[[2]uint64]uint64 {
	m := map[[2]uint64]uint64{}
	for _, e := range es {
		m[[2]uint64{uint64(e.pid), e.pg.VAddr}] = e.pg.PAddr
	}
	return m
}

// step executes one op; false = the history ended (fault)
func (c *c10cLost) step(op string) bool {
	c.ops = append(c.ops, op)
	before := c10cKeyMap(c.s.entries())
	res := c.s.exec(op)
	c.lastOut = res.out
	if res.fault {
		c.outs = append(c.outs, res.out)
		return false
	}
	es := c.s.entries()
	after := c10cKeyMap(es)
	free := c.s.freeMultiset()
	live := map[uint64]bool{}
	for _, e := range es {
		live[e.pg.PAddr] = true
	}
	// a page-table entry whose physical page was replaced in place: the replaced page must be back on a free
	// list (Remap / Distribute after the repair); it counts as not given back when it is in circulation nowhere
	for key, p := range before {
		if q, ok := after[key]; ok && q != p {
			c.r.Count("conserve.entry_rehomed")
			if free[p] == 0 && !live[p] {
				c.k++
			}
		}
	}
	f := strings.Fields(op)
	released := uint64(0)
	switch f[0] {
	case "rel":
		// ReleasePhysicalPage: a page that was kept (migration) goes back to its device
		released, _ = strconv.ParseUint(f[1], 16, 64)
		if c.lost[released] && free[released] > 0 {
			c.k--
		}
	case "mig", "apg":
		// AllocatePageWithGivenVAddr / page migration keep the replaced page out of circulation on purpose
		// (the page migration controller still reads it)
		c.rehome = true
	case "remap", "dist":
		// the allocator's record of a virtual address is keyed by the address only: with several processes
		// it may belong to another process and the replaced page is then not given back (listed finding:
		// mirror keyed by vaddr)
		if c.s.npids > 1 {
			c.rehome = true
		}
	}
	var lost []string
	now := map[uint64]bool{}
	for _, p := range c.all {
		if free[p] == 0 && !live[p] {
			lost = append(lost, hexs(p))
			now[p] = true
		}
	}
	c.outs = append(c.outs, fmt.Sprintf("k=%d lost=%s", c.k, strings.Join(lost, ",")))
	c.r.Checked("conserve")
	nfree := 0
	for _, n := range free {
		nfree += n
	}
	if !c.failed {
		switch {
		case nfree+len(es)+c.k != len(c.all):
			c.fail("C10.conserve.count", "%d free + %d mapped + %d re-homed != %d pages of the devices", nfree, len(es), c.k, len(c.all))
		case !c.rehome && len(lost) > 0:
			c.fail("C10.conserve.lost_without_rehome", "pages %s are neither free nor mapped although no migration / AllocatePageWithGivenVAddr was executed and one process owns every page (Remap and Distribute must give the page they replace back)", strings.Join(lost, ","))
		default:
			for p := range c.lost {
				if !now[p] && p != released {
					c.fail("C10.conserve.recovered", "physical page %x was neither free nor mapped and is in circulation again", p)
					break
				}
			}
		}
	}
	c.lost = now
	if len(lost) > 0 {
		c.r.Count("conserve.state_with_lost_pages")
	}
	return true
}

func (c *c10cLost) fail(sig, format string, a ...interface{}) {
	c.failed = true
	c.r.Failf(sig, c.line(), format, a...)
}

func (c *c10cLost) finish() { c.r.Case(c.line(), strings.Join(c.outs, " ; ")) }

func c10cLostRandom(r *Run, rng *Rng) {
	log2 := uint64(rng.Range(12, 16))
	cpu := rng.Pick(0, 1, 2, 4, 8)
	ngpu := rng.Pick(1, 1, 2, 2, 3, 4)
	var gpus []int
	for i := 0; i < ngpu; i++ {
		gpus = append(gpus, rng.Pick(1, 2, 3, 4, 6, 8, 12, 16))
	}
	c := c10cNewLost(r, log2, cpu, gpus)
	multi := rng.Chance(30)
	g := &c10Gen{rng: rng, nctx: rng.Range(1, 3), multi: multi, steps: rng.Range(6, 36), malform: rng.Chance(15)}
	r.Count(fmt.Sprintf("conserve.cfg:multi_pid=%v", multi))
	for step := 0; ; step++ {
		op := g.next(c.s, step)
		if op == "" {
			break
		}
		r.Count("conserve.op:" + strings.Fields(op)[0])
		if !c.step(op) || c.s.tainted != "" {
			break
		}
	}
	c.finish()
}

// the capacity leak of Remap (repaired): one page is live all the time; before the repair the third Remap of it
// onto the 2-page GPU it already lives on was an out-of-memory panic (known finding C10.conserve.leak.remap_oom,
// reported again if the old behaviour comes back). Now every Remap succeeds and nothing is lost; likewise a buffer
// can be distributed over the GPUs any number of times.
func c10cLeakWitness(r *Run) {
	c := c10cNewLost(r, 12, 1, []int{2})
	ok := true
	for _, op := range []string{"init", "alloc 0 1000", "remap 0 1000 1000 1", "remap 0 1000 1000 1", "remap 0 1000 1000 1"} {
		if ok = c.step(op); !ok {
			break
		}
	}
	c.finish()
	mapped := len(c.s.entries())
	r.Checked("conserve.leak_witness")
	switch {
	case !ok && c.lastOut == "fault:oom" && mapped == 1:
		r.Failf("C10.conserve.leak.remap_oom", c.line(),
			"Remap of a 1-page buffer onto the 2-page GPU it lives on panics `out of memory`: %d page mapped, %d pages of the device neither free nor mapped (Remap / Distribute overwrite the page-table entry and never return the old physical page)",
			mapped, len(c.lost))
	case !ok || mapped != 1 || len(c.lost) != 0:
		r.Failf("C10.conserve.leak.remap_witness", c.line(),
			"repeated Remap of a 1-page buffer onto its own 2-page GPU: ok=%v out=%s, %d page(s) mapped, %d page(s) neither free nor mapped (expected: every call succeeds, one page mapped, nothing lost)",
			ok, c.lastOut, mapped, len(c.lost))
	default:
		r.Count("conserve.leak_witness.repaired")
	}
	// Distribute: 2 GPUs of 4 pages, a 3-page buffer distributed over both GPUs six times
	d := c10cNewLost(r, 12, 1, []int{4, 4})
	ok = true
	ops := []string{"init", "alloc 0 3000"}
	for i := 0; i < 6; i++ {
		ops = append(ops, "dist 0 1000 3000 1,2")
	}
	for _, op := range ops {
		if ok = d.step(op); !ok {
			break
		}
	}
	d.finish()
	r.Checked("conserve.dist_witness")
	if !ok || len(d.s.entries()) != 3 || len(d.lost) != 0 {
		r.Failf("C10.conserve.leak.distribute", d.line(),
			"a 3-page buffer distributed six times over two 4-page GPUs: ok=%v out=%s, %d pages mapped, %d pages neither free nor mapped (every Distribute must give the replaced pages back)",
			ok, d.lastOut, len(d.s.entries()), len(d.lost))
	}
}

// page migration gives the replaced page back when it is complete (REPAIRED finding
// C10.conserve.leak.migration_oom, regression oracle): two GPUs of 2 pages, one page migrated to and fro. Every
// preparePageForMigration takes a fresh page on the target; the page it replaces stays out of circulation while
// the page migration controller reads it and goes back to its device when the driver handles the page's
// PageMigrationRspToDriver (MemoryAllocator.ReleasePhysicalPage, here the op `rel <old frame>` — the driver-side
// discipline is C19's subject). Before the repair nothing gave it back: the fourth migration found the target GPU
// exhausted with ONE page mapped on the whole system. Now eight migrations in a row succeed and nothing is lost.
func c10cMigLeakWitness(r *Run) {
	c := c10cNewLost(r, 12, 1, []int{2, 2})
	ok := c.step("init") && c.step("alloc 0 1000")
	for i := 0; i < 8 && ok; i++ {
		if ok = c.step(fmt.Sprintf("mig 0 1000 %d", (i+1)%2)); !ok {
			break
		}
		// "=<new frame>/<old frame>": the driver remembers the old frame and releases it at the acknowledgement
		parts := strings.Split(strings.TrimPrefix(c.lastOut, "="), "/")
		if len(parts) != 2 {
			ok = false
			break
		}
		ok = c.step("rel " + parts[1])
	}
	c.finish()
	mapped := len(c.s.entries())
	r.Checked("conserve.mig_leak_witness")
	if !ok || mapped != 1 || len(c.lost) != 0 {
		r.Failf("C10.conserve.leak.migration_oom", c.line(),
			"a 1-page buffer migrated to and fro between two 2-page GPUs, the old frame released after every migration: ok=%v out=%s, %d page mapped, %d pages neither free nor mapped (regression of the repaired finding C10-migration-keeps-replaced-page: a completed migration must give the replaced page back)",
			ok, c.lastOut, mapped, len(c.lost))
	}
}

// ---------------------------------------------------------------- (B) registration with byte sizes

func c10cReg(r *Run, log2 uint64, cpub uint64, gpub []uint64) {
	pt := vm.NewPageTable(log2)
	d := c10Drivers[log2]
	if d == nil {
		d = driver.MakeBuilder().WithEngine(&fakeEngine{}).WithPageTable(pt).WithLog2PageSize(log2).Build("Driver")
		c10Drivers[log2] = d
	}
	driver.VerifSetBuddyAllocator(false)
	d.VerifResetMemory(pt, cpub)
	var hs []string
	for _, g := range gpub {
		var port sim.Port
		d.RegisterGPU(port, driver.DeviceProperties{CUCount: 4, DRAMSize: g})
		hs = append(hs, hexs(g))
	}
	gl := strings.Join(hs, ",")
	if gl == "" {
		gl = "-"
	}
	s := &c10Sys{drv: d, pt: pt, log2: log2, ps: 1 << log2, maxV: map[int]uint64{}, unified: map[int][]int{}, numGPUs: len(gpub)}
	r.Case(fmt.Sprintf("c10 reg l2=%d cpub=%x gpub=%s", log2, cpub, gl), s.dump(nil))
	// what the hypothesis Cfg excludes: a free page that sticks out of its device / overlaps another page
	ps := uint64(1) << log2
	var all []uint64
	out := false
	for i := 0; i < d.VerifNumDevices(); i++ {
		fl, _ := d.VerifFreeList(i)
		base, size := d.VerifDeviceRange(i)
		for _, p := range fl {
			if p+ps > base+size {
				out = true
			}
		}
		all = append(all, fl...)
	}
	sort.Slice(all, func(i, j int) bool { return all[i] < all[j] })
	overlap := false
	for i := 1; i < len(all); i++ {
		if all[i] < all[i-1]+ps {
			overlap = true
		}
	}
	multiple := cpub%ps == 0
	for _, g := range gpub {
		multiple = multiple && g%ps == 0
	}
	r.Checked("reg")
	if multiple && (out || overlap) {
		r.Failf("C10.reg.page_multiple", fmt.Sprintf("c10 reg l2=%d cpub=%x gpub=%s", log2, cpub, gl),
			"device sizes are page multiples but a free page sticks out of its device (%v) or two free pages overlap (%v)", out, overlap)
	}
	if !multiple {
		r.Count(fmt.Sprintf("reg.nonmultiple:sticks_out=%v,overlap=%v", out, overlap))
	}
}

// ---------------------------------------------------------------- buddy: dump with hidden state

func c10cLevels(size uint64) int {
	nl := 0
	for (uint64(4096) << nl) < size {
		nl++
	}
	return nl + 1
}

func c10cU64s(xs []uint64) string {
	p := make([]string, len(xs))
	for i, x := range xs {
		p[i] = strconv.FormatUint(x, 10)
	}
	return strings.Join(p, ",")
}

// same format as Buddy.dumpX in Lean
func c10cDumpX(size uint64, bl [][2]uint64, split, merge []uint64, nbits uint64, tracked [][3]uint64) string {
	lv := make([][]string, c10cLevels(size))
	for _, b := range bl {
		if int(b[1]) < len(lv) {
			lv[b[1]] = append(lv[b[1]], hexs(b[0]))
		}
	}
	parts := make([]string, len(lv))
	for i := range lv {
		parts[i] = strconv.Itoa(i) + ":" + strings.Join(lv[i], ",")
	}
	sort.Slice(tracked, func(i, j int) bool { return tracked[i][0] < tracked[j][0] })
	ts := make([]string, len(tracked))
	for i, t := range tracked {
		ts[i] = fmt.Sprintf("%x>%x/%d", t[0], t[1], t[2])
	}
	return strings.Join(parts, " ") + " S:" + c10cU64s(split) + " M:" + c10cU64s(merge) + " T:" + strings.Join(ts, ",") + fmt.Sprintf(" N:%d", nbits)
}

func c10cBuddyFault(msg string) string {
	m := strings.ToLower(msg)
	switch {
	case strings.Contains(m, "out of range"):
		return "fault:bounds"
	case strings.Contains(m, "out of memory"), strings.Contains(m, "not enough memory"):
		return "fault:oom"
	case strings.Contains(m, "device not found"):
		return "fault:no_device"
	}
	return "fault:other:" + msg
}

// c10cDev: one buddy-managed device followed call by call: the case line, the answers, and the ghost
// of the allocations (for the oracles)
type c10cDev struct {
	r       *Run
	tag     string
	base    uint64
	size    uint64
	pow2    bool
	verbose bool
	rev     bool
	ops     []string
	outs    []string
	dead    bool // a call panicked: the line is complete
	am0     bool
	failed  bool
	ctx     func() string // extra context for failure reports
	// state readers
	blocks  func() [][2]uint64
	bits    func() ([]uint64, []uint64, uint64)
	tracked func() [][3]uint64
	// ghost: page -> allocation id; allocation id -> block pages / pages not yet returned
	owner     map[uint64]int
	blockPg   map[int]uint64
	remaining map[int]int
	nextID    int
}

func c10cNewDev(r *Run, tag string, base, size uint64, verbose, rev bool) *c10cDev {
	pages := size / 4096
	return &c10cDev{r: r, tag: tag, base: base, size: size, verbose: verbose, rev: rev,
		pow2:  size%4096 == 0 && pages > 0 && pages&(pages-1) == 0,
		owner: map[uint64]int{}, blockPg: map[int]uint64{}, remaining: map[int]int{}}
}

func (d *c10cDev) line() string {
	rev := ""
	if d.rev {
		rev = " rev=1"
	}
	return fmt.Sprintf("c10 buddy base=%x size=%x v=%d x=1%s ; %s", d.base, d.size, b2i(d.verbose), rev, strings.Join(d.ops, " ; "))
}

func (d *c10cDev) dump() string {
	s, m, n := d.bits()
	return c10cDumpX(d.size, d.blocks(), s, m, n, d.tracked())
}

func (d *c10cDev) start() { d.outs = append(d.outs, "new "+d.dump()) }

func (d *c10cDev) answer(res string) {
	dm := d.dump()
	if d.verbose {
		d.outs = append(d.outs, res+" "+dm)
	} else {
		d.outs = append(d.outs, res+" #"+strconv.FormatUint(fnvStr(dm), 16))
	}
}

func (d *c10cDev) fail(sig, format string, a ...interface{}) {
	if d.failed {
		return
	}
	d.failed = true
	cs := d.line()
	if d.ctx != nil {
		cs += "   [" + d.ctx() + "]"
	}
	d.r.Failf(sig, cs, format, a...)
}

// event consumes one recorder event ("pop =p", "am n =p,…", "add p", "<call> !panic")
func (d *c10cDev) event(ev string) {
	if d.dead {
		return
	}
	if i := strings.Index(ev, " !"); i >= 0 {
		call := ev[:i]
		if call == "pop" {
			call = "pop 1"
		}
		d.ops = append(d.ops, call)
		out := c10cBuddyFault(ev[i+2:])
		d.outs = append(d.outs, out)
		d.dead = true
		d.r.Count("buddyx.outcome:" + out)
		if strings.HasPrefix(call, "add ") && d.pow2 {
			p, _ := strconv.ParseUint(call[4:], 16, 64)
			if _, live := d.owner[p]; live {
				d.fail("C10.buddy.free_crash", "addSinglePAddr(%x) of an allocated page panicked: %s", p, ev[i+2:])
			}
		}
		return
	}
	t := strings.Fields(ev)
	pagesOf := func(s string) []uint64 {
		var out []uint64
		for _, x := range strings.Split(strings.TrimPrefix(s, "="), ",") {
			if x != "" {
				v, _ := strconv.ParseUint(x, 16, 64)
				out = append(out, v)
			}
		}
		return out
	}
	switch t[0] {
	case "pop":
		d.ops = append(d.ops, "pop 1")
		d.answer(t[1])
		d.alloc(pagesOf(t[1]), 1)
	case "am":
		n, _ := strconv.Atoi(t[1])
		d.ops = append(d.ops, "am "+t[1])
		d.answer(t[2])
		blk := uint64(1)
		for int(blk) < n {
			blk <<= 1
		}
		if n == 0 {
			d.am0 = true
		}
		d.alloc(pagesOf(t[2]), blk)
	case "add":
		d.ops = append(d.ops, "add "+t[1])
		d.answer("ok")
		p, _ := strconv.ParseUint(t[1], 16, 64)
		if id, ok := d.owner[p]; ok {
			delete(d.owner, p)
			d.remaining[id]--
			if d.remaining[id] == 0 {
				delete(d.remaining, id)
				delete(d.blockPg, id)
			}
		}
	}
	d.r.Count("buddyx.op:" + t[0])
	d.oracle()
}

func (d *c10cDev) alloc(pages []uint64, blk uint64) {
	if len(pages) == 0 {
		return
	}
	id := d.nextID
	d.nextID++
	d.blockPg[id] = blk
	d.remaining[id] = len(pages)
	for _, p := range pages {
		if _, dup := d.owner[p]; dup && d.pow2 {
			d.fail("C10.buddy.conserve", "page %x handed out while it is allocated", p)
		}
		d.owner[p] = id
	}
}

// oracle: statements of buddy_conservation / buddy_round_trip on the real state
func (d *c10cDev) oracle() {
	// (a request for no page is no exception any more: the repaired allocateMultiplePages(0) takes nothing)
	if !d.pow2 || d.failed {
		return
	}
	total := d.size / 4096
	free := uint64(0)
	bl := d.blocks()
	for _, b := range bl {
		free += (d.size >> b[1]) / 4096
	}
	used := uint64(0)
	for _, n := range d.blockPg {
		used += n
	}
	d.r.Checked("buddy.conserve")
	if free+used != total {
		d.fail("C10.buddy.conserve", "%d pages in free blocks + %d pages in blocks of live allocations != %d pages of the device", free, used, total)
		return
	}
	if len(d.blockPg) == 0 {
		s, m, _ := d.bits()
		tr := d.tracked()
		d.r.Checked("buddy.round_trip")
		if !(len(bl) == 1 && bl[0][0] == d.base && bl[0][1] == 0) || len(s) != 0 || len(m) != 0 || len(tr) != 0 {
			d.fail("C10.buddy.round_trip", "every page was given back but the device is not one whole free block: blocks %v, split bits %v, merge bits %v, %d tracked pages", bl, s, m, len(tr))
		}
	}
}

func (d *c10cDev) finish(kind string) {
	if len(d.ops) == 0 {
		return
	}
	d.r.Count("buddyx.line:" + kind)
	d.r.Case(d.line(), strings.Join(d.outs, " ; "))
}

// ---------------------------------------------------------------- (D) stand-alone device

func c10cPanicText(f func()) (msg string, panicked bool) {
	defer func() {
		if e := recover(); e != nil {
			msg = fmt.Sprint(e)
			panicked = true
		}
	}()
	f()
	return "", false
}

type c10cAlone struct {
	d   *c10cDev
	dev *driver.VerifBuddyDevice
}

func c10cNewAlone(r *Run, base, size uint64, verbose, rev bool) *c10cAlone {
	dev := driver.VerifNewBuddyDevice(12, base, size, !rev)
	d := c10cNewDev(r, "alone", base, size, verbose, rev)
	d.blocks = dev.FreeBlocks
	d.bits = dev.Bits
	d.tracked = dev.Tracked
	d.start()
	return &c10cAlone{d: d, dev: dev}
}

func (a *c10cAlone) inDev(ps []uint64) bool {
	for _, p := range ps {
		if p < a.d.base || p >= a.d.base+a.d.size {
			return false
		}
	}
	return true
}

// noDevice: the allocator's deviceIDByPAddr check, which a stand-alone device does not have
func (a *c10cAlone) noDevice(call string) {
	a.d.ops = append(a.d.ops, call)
	a.d.outs = append(a.d.outs, "fault:no_device")
	a.d.dead = true
	a.d.r.Count("buddyx.outcome:fault:no_device")
}

func (a *c10cAlone) pop() {
	if a.d.dead {
		return
	}
	var p uint64
	if msg, bad := c10cPanicText(func() { p = a.dev.AllocatePage() }); bad {
		a.d.event("pop !" + msg)
		return
	}
	if !a.inDev([]uint64{p}) {
		a.noDevice("pop 1")
		return
	}
	a.d.event("pop =" + hexs(p))
}

func (a *c10cAlone) am(n int) {
	if a.d.dead {
		return
	}
	var ps []uint64
	if msg, bad := c10cPanicText(func() { ps = a.dev.AllocateMultiplePages(n) }); bad {
		a.d.event(fmt.Sprintf("am %d !%s", n, msg))
		return
	}
	if !a.inDev(ps) {
		a.noDevice(fmt.Sprintf("am %d", n))
		return
	}
	a.d.event(fmt.Sprintf("am %d =%s", n, hexList(ps)))
}

func (a *c10cAlone) add(p uint64) {
	if a.d.dead {
		return
	}
	if msg, bad := c10cPanicText(func() { a.dev.AddSinglePAddr(p) }); bad {
		a.d.event(fmt.Sprintf("add %x !%s", p, msg))
		return
	}
	a.d.event("add " + hexs(p))
}

func (a *c10cAlone) livePages() []uint64 {
	var out []uint64
	for p := range a.d.owner {
		out = append(out, p)
	}
	sort.Slice(out, func(i, j int) bool { return out[i] < out[j] })
	return out
}

func (a *c10cAlone) freePages() int {
	n := 0
	for _, b := range a.dev.FreeBlocks() {
		n += int((a.d.size >> b[1]) / 4096)
	}
	return n
}

func c10cAloneRandom(r *Run, rng *Rng, idx int) {
	pages := 1 << rng.Range(0, 6)
	if rng.Chance(8) {
		pages = rng.Pick(3, 5, 6, 7, 12, 24, 48)
	}
	size := uint64(pages) * 4096
	if rng.Chance(2) {
		size += uint64(rng.Range(1, 4095))
	}
	base := uint64(rng.Range(1, 40)) * 4096
	if rng.Chance(5) {
		base = 0
	}
	a := c10cNewAlone(r, base, size, idx < 40, rng.Chance(30))
	r.Count(fmt.Sprintf("buddyx.alone.pages=%d", pages))
	steps := rng.Range(6, 40)
	var gone []uint64
	for step := 0; step < steps && !a.d.dead; step++ {
		live := a.livePages()
		w := rng.Intn(100)
		if a.freePages() == 0 && len(live) > 0 && rng.Chance(90) {
			w = 60 + rng.Intn(30)
		}
		switch {
		case w < 45 || (len(live) == 0 && w < 95):
			a.pop()
		case w < 60:
			n := c10dPages(rng, pages)
			if m := a.freePages(); n > m && m > 0 && rng.Chance(80) {
				n = rng.Range(1, m)
			}
			if rng.Chance(3) {
				n = 0
			}
			a.am(n)
		case w < 90:
			if len(live) == 0 {
				continue
			}
			p := live[rng.Intn(len(live))]
			if rng.Chance(50) { // the whole allocation, in page order
				id := a.d.owner[p]
				for _, q := range live {
					if a.d.owner[q] == id {
						a.add(q)
						gone = append(gone, q)
					}
				}
			} else {
				a.add(p)
				gone = append(gone, p)
			}
		default: // a page that is not allocated: never handed out, already returned, or outside
			switch rng.Intn(3) {
			case 0:
				a.add(base + uint64(rng.Intn(pages+2))*4096)
			case 1:
				if len(gone) > 0 {
					a.add(gone[rng.Intn(len(gone))])
				}
			default:
				a.add(base + size + uint64(rng.Intn(3))*4096)
			}
			r.Count("buddyx.alone.add_any_page")
		}
	}
	if !a.d.dead && rng.Chance(50) {
		live := a.livePages()
		for _, i := range rng.Perm(len(live)) {
			a.add(live[i])
		}
		r.Count("buddyx.alone.give_back_all")
	}
	a.d.finish("alone")
}

// ---------------------------------------------------------------- (C) whole-driver buddy histories, traced

type c10cTraced struct {
	r      *Run
	s      *c10Sys
	cfg    string
	devs   []*c10cDev
	drvOps []string
}

func c10cNewTraced(r *Run, cpuPages int, gpuPages []int, verbose bool) *c10cTraced {
	s := newC10Sys(12, cpuPages, gpuPages, false, true)
	t := &c10cTraced{r: r, s: s}
	t.cfg = fmt.Sprintf("driver with buddy memory states: cpu=%d gpus=%s pages", cpuPages, idList(gpuPages))
	for i := 0; i < s.drv.VerifNumDevices(); i++ {
		i := i
		base, size := s.drv.VerifDeviceRange(i)
		d := c10cNewDev(r, fmt.Sprintf("dev%d", i), base, size, verbose, false)
		d.blocks = func() [][2]uint64 { b, _ := s.drv.VerifBuddyFreeBlocksAny(i); return b }
		d.bits = func() ([]uint64, []uint64, uint64) { a, b, n, _ := s.drv.VerifBuddyBits(i); return a, b, n }
		d.tracked = func() [][3]uint64 { tr, _ := s.drv.VerifBuddyTracked(i); return tr }
		d.ctx = func() string {
			return fmt.Sprintf("device %d of a %s; driver ops: %s", i, t.cfg, strings.Join(t.drvOps, " ; "))
		}
		s.drv.VerifRecordMemState(i, d.event)
		d.start()
		t.devs = append(t.devs, d)
	}
	return t
}

// exec runs one driver op; false = fault (the history ends)
func (t *c10cTraced) exec(op string) bool {
	t.drvOps = append(t.drvOps, op)
	t.r.Count("buddyx.drvop:" + strings.Fields(op)[0])
	res := t.s.exec(op)
	if res.fault {
		t.r.Count("buddyx.drvoutcome:" + res.out)
	}
	return !res.fault
}

func (t *c10cTraced) finish(kind string) {
	for _, d := range t.devs {
		d.finish(kind)
	}
}

func (t *c10cTraced) freePagesOf(dev int) int {
	if dev < 0 || dev >= len(t.devs) {
		return 1 << 20 // unified / unknown: no capacity knowledge
	}
	n := 0
	for _, b := range t.devs[dev].blocks() {
		n += int((t.devs[dev].size >> b[1]) / 4096)
	}
	return n
}

func (t *c10cTraced) next(rng *Rng, step, nctx int) string {
	s := t.s
	if step == 0 {
		return "init"
	}
	if step < nctx {
		return fmt.Sprintf("initpid %d", rng.Intn(step))
	}
	ci := rng.Intn(len(s.ctxs))
	ndev := s.drv.VerifNumDevices()
	var live []*c10Buf
	for _, b := range s.bufs {
		if !b.freed {
			live = append(live, b)
		}
	}
	gpuSubset := func() []int {
		n := rng.Range(1, s.numGPUs)
		if rng.Chance(10) {
			n = rng.Range(1, 4)
		}
		p := rng.Perm(s.numGPUs)
		var ids []int
		for i := 0; i < n; i++ {
			ids = append(ids, p[i%len(p)]+1)
		}
		return ids
	}
	for try := 0; try < 8; try++ {
		w := rng.Intn(100)
		switch {
		case w < 28:
			k := rng.Pick(1, 1, 1, 2, 2, 3, 4, 5)
			if t.freePagesOf(s.ctxGPU[ci]) < k && rng.Chance(90) {
				continue
			}
			return fmt.Sprintf("alloc %d %x", ci, uint64(k)*4096-uint64(rng.Intn(2)))
		case w < 32:
			k := rng.Pick(1, 1, 2, 3)
			if t.freePagesOf(1) < k && rng.Chance(90) {
				continue
			}
			return fmt.Sprintf("allocu %d %x", ci, uint64(k)*4096-uint64(rng.Intn(2)))
		case w < 54:
			if len(live) > 0 {
				b := live[rng.Intn(len(live))]
				return fmt.Sprintf("free %d %x", b.ctx, b.ptr)
			}
		case w < 64:
			if len(live) > 0 {
				b := live[rng.Intn(len(live))]
				off := uint64(rng.Intn(int(b.pages)))
				n := uint64(rng.Range(1, int(b.pages-off)))
				dev := rng.Intn(ndev)
				if t.freePagesOf(dev) < int(n) && rng.Chance(90) {
					continue
				}
				return fmt.Sprintf("remap %d %x %x %d", ci, b.ptr+off*4096, n*4096-uint64(rng.Intn(2)), dev)
			}
		case w < 72:
			if len(live) > 0 && s.numGPUs > 0 {
				b := live[rng.Intn(len(live))]
				return fmt.Sprintf("dist %d %x %x %s", ci, b.ptr, b.size, idList(gpuSubset()))
			}
		case w < 78:
			if len(live) > 0 && s.numGPUs > 0 {
				b := live[rng.Intn(len(live))]
				gi := rng.Intn(s.numGPUs)
				if t.freePagesOf(gi+1) < 1 && rng.Chance(90) {
					continue
				}
				return fmt.Sprintf("mig %d %x %d", ci, b.ptr+uint64(rng.Intn(int(b.pages)))*4096, gi)
			}
		case w < 88:
			return fmt.Sprintf("sel %d %d", ci, rng.Intn(ndev))
		case w < 92:
			if s.numGPUs > 0 && len(s.unified) < 2 {
				return fmt.Sprintf("unify %d %s", ci, idList(gpuSubset()))
			}
		case w < 95:
			if len(live) > 0 {
				b := live[rng.Intn(len(live))]
				dev := rng.Intn(ndev)
				if t.freePagesOf(dev) < 1 && rng.Chance(90) {
					continue
				}
				return fmt.Sprintf("apg %d %d %x %d", ci, dev, b.ptr+uint64(rng.Intn(int(b.pages)))*4096, rng.Intn(2))
			}
		case w < 98:
			return fmt.Sprintf("rfb %d", ci)
		default:
			if len(live) > 0 {
				b := live[rng.Intn(len(live))]
				return fmt.Sprintf("rmpage %x", b.ptr+uint64(rng.Intn(int(b.pages)))*4096)
			}
		}
	}
	return fmt.Sprintf("rfb %d", ci)
}

func c10cTracedRandom(r *Run, rng *Rng, idx int) {
	cpu := 1 << rng.Range(0, 3)
	ngpu := rng.Pick(1, 1, 2, 2, 3, 4)
	var gpus []int
	for i := 0; i < ngpu; i++ {
		gpus = append(gpus, 1<<rng.Range(0, 5))
	}
	t := c10cNewTraced(r, cpu, gpus, idx < 25)
	nctx := rng.Range(1, 3)
	steps := rng.Range(8, 45)
	ok := true
	for step := 0; step < steps && ok && t.s.tainted == ""; step++ {
		ok = t.exec(t.next(rng, step, nctx))
	}
	if ok && t.s.tainted == "" && rng.Chance(50) {
		for _, b := range t.s.bufs {
			if !b.freed && ok {
				ok = t.exec(fmt.Sprintf("free %d %x", b.ctx, b.ptr))
			}
		}
		r.Count("buddyx.driver.free_all_at_end")
	}
	t.finish("driver")
}

// allocateMultiplePages(0): before the repair a Remap of 0 bytes on a buddy-managed GPU took a one-page block,
// recorded a tracker with no page and returned no page — the block could never be released (known finding
// C10.buddy.round_trip.am0, reported again if the old behaviour comes back). Now it takes nothing.
func c10cAmZeroWitness(r *Run) {
	t := c10cNewTraced(r, 1, []int{2}, true)
	ok := true
	for _, op := range []string{"init", "alloc 0 1000", "remap 0 1000 0 1", "free 0 1000"} {
		if ok = t.exec(op); !ok {
			break
		}
	}
	t.finish("am0_witness")
	d := t.devs[1]
	bl := d.blocks()
	r.Checked("buddy.round_trip.am0_witness")
	whole := len(bl) == 1 && bl[0][0] == d.base && bl[0][1] == 0
	switch {
	case ok && d.am0 && len(t.s.entries()) == 0 && !whole:
		r.Failf("C10.buddy.round_trip.am0", d.line()+"   ["+d.ctx()+"]",
			"nothing is mapped and every buffer is freed, but the 2-page GPU is not one free block: free blocks %v — the block taken by allocateMultiplePages(0) has no tracked page and is never released", bl)
	case !ok || !d.am0 || !whole:
		r.Failf("C10.buddy.round_trip.am0_witness", d.line()+"   ["+d.ctx()+"]",
			"alloc a page, Remap 0 bytes, free the page on a 2-page buddy GPU: ok=%v, allocateMultiplePages(0) recorded=%v, whole device free=%v, blocks %v", ok, d.am0, whole, bl)
	default:
		r.Count("buddy.round_trip.am0_witness.repaired")
	}
}

// ---------------------------------------------------------------- runner

func runC10Cons(r *Run, rng *Rng, replay string) {
	rng = NewRng(rng.U64() ^ (r.Seed << 32) ^ 0xC0115E)
	// (A)
	c10cLeakWitness(r)
	c10cMigLeakWitness(r)
	for _, ops := range [][]string{
		{"init", "alloc 0 2800", "free 0 1000", "alloc 0 3000"},
		{"init", "init", "alloc 0 64", "alloc 1 64", "free 0 1000"},
		{"init", "unify 0 1,2", "sel 0 3", "alloc 0 3000", "dist 0 1000 3000 1,2", "free 0 1000"},
		{"init", "alloc 0 1000", "mig 0 1000 1", "apg 0 2 1000 0", "free 0 1000"},
	} {
		c := c10cNewLost(r, 12, 4, []int{8, 8})
		for _, op := range ops {
			if !c.step(op) {
				break
			}
		}
		c.finish()
	}
	// witnesses of the hypothesis audit (Props/C10Hyp.lean): a second context of the same process frees the
	// buffer of the first (live buffer unmapped), then the owner's FreeMemory panics `page does not exist`
	if sig := c10Scripted(r, 12, 1, []int{2}, []string{"init", "initpid 0", "alloc 0 64", "free 1 1000", "free 0 1000"}); sig != "" {
		r.Note("C10 hypothesis witness (free by another context) reported %s", sig)
	}
	// (B) sizes that are not page multiples, and some that are
	c10cReg(r, 12, 0x1000, []uint64{6000, 0x1000})
	c10cReg(r, 12, 0x1800, []uint64{0x2000})
	c10cReg(r, 12, 0x4000, []uint64{0x8000, 0x8000})
	c10cReg(r, 16, 0x10000, []uint64{0x18000, 0x20000})
	for i := 0; i < 12; i++ {
		l2 := uint64(rng.Range(12, 16))
		ps := uint64(1) << l2
		var gp []uint64
		for j := rng.Range(0, 3); j > 0; j-- {
			g := uint64(rng.Range(0, 6)) * ps
			if rng.Chance(50) {
				g += uint64(rng.Range(1, int(ps-1)))
			}
			gp = append(gp, g)
		}
		cpub := uint64(rng.Range(0, 4)) * ps
		if rng.Chance(30) {
			cpub += uint64(rng.Range(1, int(ps-1)))
		}
		c10cReg(r, l2, cpub, gp)
	}
	nLost, nAlone, nTraced := 250, 250, 120
	if r.Tier == "thorough" {
		nLost, nAlone, nTraced = 3000, 3000, 1500
	}
	for i := 0; i < nLost; i++ {
		c10cLostRandom(r, rng)
	}
	// (C), (D)
	c10cAmZeroWitness(r)
	for _, rev := range []bool{false, true} {
		// the round trip of the non-vacuity example of buddy_round_trip
		a := c10cNewAlone(r, 0x5000, 8*4096, true, rev)
		a.pop()
		a.pop()
		a.am(2)
		a.add(0x7000)
		a.pop()
		a.add(0x5000)
		a.add(0x6000)
		a.add(0x8000)
		a.add(0x9000)
		a.d.finish("alone_scripted")
		// am 0 at device level
		b := c10cNewAlone(r, 0x5000, 2*4096, true, rev)
		b.am(0)
		b.pop()
		b.add(0x6000)
		b.d.finish("alone_scripted")
	}
	// a 3-page device: sizeOfLevel = 3072, three "pages" 0x5000, 0x5c00, 0x6800 (buddy_aligned_any_size_full_refuted)
	{
		a := c10cNewAlone(r, 0x5000, 3*4096, true, false)
		a.pop()
		a.pop()
		a.pop()
		a.d.finish("alone_scripted")
		pages := a.livePages()
		if len(pages) == 3 && pages[1] < pages[0]+4096 {
			r.Count("buddyx.nonpow2.overlapping_pages")
		}
	}
	for i := 0; i < nAlone; i++ {
		c10cAloneRandom(r, rng, i)
	}
	for i := 0; i < nTraced; i++ {
		c10cTracedRandom(r, rng, i)
	}
}
