package main

import (
	"debug/elf"
	"encoding/binary"
	"fmt"
	"os"
	"path/filepath"
	"sort"
	"strconv"
	"strings"

	"github.com/sarchlab/mgpusim/v4/amd/insts"
)

func init() { register("C04", runC04) }

func repoRoot() string {
	if r := os.Getenv("VERIF_REPO"); r != "" {
		return r
	}
	return "/repo"
}

func opndStr(o *insts.Operand) string {
	switch o.OperandType {
	case insts.RegOperand:
		name := "?"
		if o.Register != nil {
			name = o.Register.Name
		}
		return fmt.Sprintf("%sx%dc%d", name, o.RegCount, o.Code)
	case insts.IntOperand:
		return fmt.Sprintf("i%dc%d", o.IntValue, o.Code)
	case insts.FloatOperand:
		return fmt.Sprintf("f%sc%d", strconv.FormatFloat(o.FloatValue, 'g', -1, 64), o.Code)
	case insts.LiteralConstant:
		return fmt.Sprintf("l%xc%d", o.LiteralConstant, o.Code)
	}
	return "invalid"
}

func instStr(i *insts.Inst) string {
	p := []string{i.InstName, fmt.Sprintf("ft=%d", int(i.FormatType)), fmt.Sprintf("op=%d", i.Opcode), fmt.Sprintf("size=%d", i.ByteSize)}
	of := func(k string, o *insts.Operand) {
		if o != nil {
			p = append(p, k+"="+opndStr(o))
		}
	}
	nf := func(k string, n int64) {
		if n != 0 {
			p = append(p, fmt.Sprintf("%s=%d", k, n))
		}
	}
	fl := func(k string, b bool) {
		if b {
			p = append(p, k)
		}
	}
	of("src0", i.Src0)
	of("src1", i.Src1)
	of("src2", i.Src2)
	of("dst", i.Dst)
	of("sdst", i.SDst)
	of("addr", i.Addr)
	of("data", i.Data)
	of("data1", i.Data1)
	of("base", i.Base)
	of("offset", i.Offset)
	of("simm16", i.SImm16)
	of("saddr", i.SAddr)
	nf("abs", int64(i.Abs))
	nf("omod", int64(i.Omod))
	nf("neg", int64(i.Neg))
	nf("opsel", int64(i.OpSel))
	nf("opselhi", int64(i.OpSelHi))
	nf("off0", int64(i.Offset0))
	nf("off1", int64(i.Offset1))
	nf("vmcnt", int64(i.VMCNT))
	nf("lkgmcnt", int64(i.LKGMCNT))
	fl("slc", i.SystemLevelCoherent)
	fl("glc", i.GlobalLevelCoherent)
	fl("tfe", i.TextureFailEnable)
	fl("imm", i.Imm)
	fl("clamp", i.Clamp)
	fl("gds", i.GDS)
	if i.IsSdwa {
		p = append(p, fmt.Sprintf("sdwa=%x/%d/%x/%x", uint32(i.DstSel), int(i.DstUnused), uint32(i.Src0Sel), uint32(i.Src1Sel)))
	}
	fl("s0neg", i.Src0Neg)
	fl("s0abs", i.Src0Abs)
	fl("s1neg", i.Src1Neg)
	fl("s1abs", i.Src1Abs)
	fl("s2neg", i.Src2Neg)
	fl("s2abs", i.Src2Abs)
	return strings.Join(p, " ")
}

// decodeCanon runs the real decoder and returns the canonical outcome.
func decodeCanon(d *insts.Disassembler, buf []byte) (out string, inst *insts.Inst) {
	var err error
	f := catch(func() { inst, err = d.Decode(buf) })
	switch {
	case f != "" && (strings.Contains(f, "not_implemented") || strings.Contains(f, "unabkle_to_decode")):
		return "notimpl", nil
	case f != "":
		return "fault:" + f, nil
	case err != nil:
		return "err", nil
	}
	return "ok " + instStr(inst), inst
}

var specialCodes = []uint32{0, 1, 101, 102, 106, 107, 123, 124, 125, 126, 127, 128, 192, 193, 208, 209, 239, 240, 248, 249, 250, 251, 253, 254, 255, 256, 257, 511}

func fillWord(rng *Rng, f *insts.Format, op uint32) uint32 {
	w := uint32(rng.U64())
	// operand fields get special codes often
	if rng.Chance(70) {
		w = w&^0x1ff | specialCodes[rng.Intn(len(specialCodes))]&0x1ff
	}
	if rng.Chance(40) {
		w = w&^(0xff<<8) | (specialCodes[rng.Intn(len(specialCodes))]&0xff)<<8
	}
	w = w&^f.Mask | f.Encoding
	width := uint32(f.OpcodeHigh-f.OpcodeLow) + 1
	opMask := (uint32(1)<<width - 1) << f.OpcodeLow
	w = w&^opMask | (op<<f.OpcodeLow)&opMask
	return w
}

type c04env struct {
	hist  []c04hist // early cases, re-decoded at the end (decoding must not depend on history)
	r     *Run
	gcn3  *insts.Disassembler
	cdna3 *insts.Disassembler
	perms []*insts.Disassembler
}

type c04hist struct {
	arch string
	buf  []byte
	out  string
}

// recheckHistory decodes early cases again after everything else has been decoded: the answer
// must not depend on what the decoder was asked before.
func (e *c04env) recheckHistory() {
	for _, h := range e.hist {
		d := e.gcn3
		if h.arch == "cdna3" {
			d = e.cdna3
		}
		e.r.Checked("history")
		if o, _ := decodeCanon(d, h.buf); o != h.out {
			e.r.Failf("C04.history-dependence", fmt.Sprintf("c04 dec %s %s", h.arch, hexb(h.buf)),
				"first decode gave %s; the same decoder instance later gives %s for the same bytes", h.out, o)
			return
		}
	}
}

func (e *c04env) one(arch string, buf []byte, class string) {
	d := e.gcn3
	if arch == "cdna3" {
		d = e.cdna3
	}
	r := e.r
	hx := hexb(buf)
	if hx == "" {
		hx = "-"
	}
	line := fmt.Sprintf("c04 dec %s %s", arch, hx)
	out, inst := decodeCanon(d, buf)
	r.Case(line, out)
	if len(e.hist) < 4000 {
		e.hist = append(e.hist, c04hist{arch, append([]byte{}, buf...), out})
	}
	r.Count("dec." + class)
	r.Count("outcome." + strings.SplitN(out, " ", 2)[0])
	r.Checked("no-fault")
	if strings.HasPrefix(out, "fault:") {
		r.Failf("C04.fault."+strings.TrimPrefix(out, "fault:"), line, "decoder faulted: %s", out)
		return
	}
	if inst == nil {
		return
	}
	r.Count("format." + inst.FormatName)
	r.Checked("size")
	if inst.ByteSize != 4 && inst.ByteSize != 8 {
		r.Failf("C04.size", line, "reported size %d", inst.ByteSize)
		return
	}
	if inst.ByteSize > len(buf) {
		r.Failf("C04.size-exceeds-buffer", line, "reported size %d of %d bytes", inst.ByteSize, len(buf))
		return
	}
	// tail independence: same first `size` bytes, different tail / no tail
	r.Checked("tail")
	for _, tail := range [][]byte{nil, {0xff, 0xff, 0xff, 0xff, 0xff, 0xff, 0xff, 0xff}, {0, 0, 0, 0}} {
		b2 := append(append([]byte{}, buf[:inst.ByteSize]...), tail...)
		o2, _ := decodeCanon(d, b2)
		if o2 != out {
			r.Failf("C04.tail-dependence", line, "decode(%s) = %s but with bytes beyond size changed (%s) = %s", hexb(buf), out, hexb(b2), o2)
			break
		}
	}
	// independent instances (format list in other admissible orders) agree
	r.Checked("instances")
	for _, p := range e.perms {
		p.IsCDNA3 = arch == "cdna3"
		o2, _ := decodeCanon(p, buf)
		if o2 != out {
			r.Failf("C04.instance-disagree", line, "another decoder instance says %s, first says %s", o2, out)
			break
		}
	}
}

// c04SmemImm is the architected value of the SMEM immediate: 20 bits unsigned on GCN3, 21 bits signed on GFX9+.
func c04SmemImm(arch string, field uint32) int64 {
	if arch != "cdna3" {
		return int64(field & 0xfffff)
	}
	v := int64(field & 0x1fffff)
	if v >= 1<<20 {
		v -= 1 << 21
	}
	return v
}

// admissibleOrders returns decoders whose format lists are other orders a sort by
// non-increasing mask over a randomly ordered map can produce.
func admissibleOrders(rng *Rng, n int) []*insts.Disassembler {
	var out []*insts.Disassembler
	for k := 0; k < n; k++ {
		d := insts.NewDisassembler()
		l := append([]*insts.Format{}, d.VerifFormatList()...)
		// shuffle, then stable sort by mask descending
		for i := len(l) - 1; i > 0; i-- {
			j := rng.Intn(i + 1)
			l[i], l[j] = l[j], l[i]
		}
		sort.SliceStable(l, func(i, j int) bool { return l[i].Mask > l[j].Mask })
		d.VerifSetFormatList(l)
		out = append(out, d)
	}
	return out
}

// ---- encoder (spec side, from the ISA manuals' field layouts) ---------------------------

type desc struct {
	format  string
	op      uint32
	f       map[string]uint32 // field values
	literal uint32
	hasLit  bool
}

func encodeDesc(d desc) []byte {
	var lo, hi uint32
	f := d.f
	two := false
	switch d.format {
	case "sop2":
		lo = 0x80000000 | d.op<<23 | f["sdst"]<<16 | f["ssrc1"]<<8 | f["ssrc0"]
	case "sopk":
		lo = 0xB0000000 | d.op<<23 | f["sdst"]<<16 | f["simm16"]
	case "sop1":
		lo = 0xBE800000 | f["sdst"]<<16 | d.op<<8 | f["ssrc0"]
	case "sopc":
		lo = 0xBF000000 | d.op<<16 | f["ssrc1"]<<8 | f["ssrc0"]
	case "sopp":
		lo = 0xBF800000 | d.op<<16 | f["simm16"]
	case "vop2":
		lo = d.op<<25 | f["vdst"]<<17 | f["vsrc1"]<<9 | f["src0"]
		if f["sdwa"] == 1 { // SRC0 = 249 selects the SDWA dword (GFX9 VOP_SDWA layout: S0 = bit 23, S1 = bit 31)
			lo = d.op<<25 | f["vdst"]<<17 | f["vsrc1"]<<9 | 249
			hi = f["s1"]<<31 | f["src1sel"]<<24 | f["s0"]<<23 | f["src0sel"]<<16 | f["dstunused"]<<11 | f["dstsel"]<<8 | f["src0"]
			two = true
		}
	case "vop1":
		lo = 0x7E000000 | f["vdst"]<<17 | d.op<<9 | f["src0"]
	case "vopc":
		lo = 0x7C000000 | d.op<<17 | f["vsrc1"]<<9 | f["src0"]
	case "smem":
		lo = 0xC0000000 | d.op<<18 | f["imm"]<<17 | f["glc"]<<16 | f["sdata"]<<6 | f["sbase"]
		hi = f["offset"]
		two = true
	case "flat":
		lo = 0xDC000000 | d.op<<18 | f["slc"]<<17 | f["glc"]<<16 | f["seg"]<<14 | f["offset"]
		hi = f["vdst"]<<24 | f["tfe"]<<23 | f["saddr"]<<16 | f["data"]<<8 | f["addr"]
		two = true
	case "ds":
		lo = 0xD8000000 | d.op<<17 | f["gds"]<<16 | f["offset1"]<<8 | f["offset0"]
		hi = f["vdst"]<<24 | f["data1"]<<16 | f["data0"]<<8 | f["addr"]
		two = true
	case "vop3a":
		lo = 0xD0000000 | d.op<<16 | f["clamp"]<<15 | f["opsel"]<<11 | f["abs"]<<8 | f["vdst"]
		hi = f["neg"]<<29 | f["omod"]<<27 | f["src2"]<<18 | f["src1"]<<9 | f["src0"]
		two = true
	case "vop3b":
		lo = 0xD0000000 | d.op<<16 | f["clamp"]<<15 | f["sdst"]<<8 | f["vdst"]
		hi = f["neg"]<<29 | f["omod"]<<27 | f["src2"]<<18 | f["src1"]<<9 | f["src0"]
		two = true
	}
	b := make([]byte, 4, 12)
	binary.LittleEndian.PutUint32(b, lo)
	if two {
		b = binary.LittleEndian.AppendUint32(b, hi)
	} else if d.hasLit {
		b = binary.LittleEndian.AppendUint32(b, d.literal)
	}
	return b
}

var sSrcCodes = []uint32{0, 5, 101, 106, 107, 124, 126, 127, 128, 129, 192, 193, 208, 240, 247, 248, 251, 252, 253}
var sDstCodes = []uint32{0, 7, 100, 101, 106, 107, 124, 126, 127}

func pickSrc(rng *Rng, nine bool, allowLit bool) uint32 {
	x := rng.Intn(100)
	switch {
	case nine && x < 45:
		return 256 + uint32(rng.Intn(256))
	case allowLit && x < 55:
		return 255
	default:
		return sSrcCodes[rng.Intn(len(sSrcCodes))]
	}
}

// roundTrip encodes a generated description with the spec-side encoder, decodes with the
// real decoder and checks each architected field.
func (e *c04env) roundTrip(rng *Rng, rows map[string][]*insts.InstType) {
	r := e.r
	formats := []string{"sop2", "sopk", "sop1", "sopc", "sopp", "vop2", "vop1", "vopc", "smem", "flat", "ds", "vop3a", "vop3b"}
	fm := formats[rng.Intn(len(formats))]
	list := rows[fm]
	if len(list) == 0 {
		return
	}
	it := list[rng.Intn(len(list))]
	d := desc{format: fm, op: uint32(it.Opcode), f: map[string]uint32{}}
	f := d.f
	lit := uint32(rng.U64())
	useLit := func(code uint32) {
		if code == 255 {
			d.hasLit = true
			d.literal = lit
		}
	}
	expectCodes := map[string]uint32{}
	switch fm {
	case "sop2":
		f["ssrc0"] = pickSrc(rng, false, true)
		f["ssrc1"] = pickSrc(rng, false, !d.hasLit && f["ssrc0"] != 255)
		f["sdst"] = sDstCodes[rng.Intn(len(sDstCodes))]
		useLit(f["ssrc0"])
		useLit(f["ssrc1"])
		expectCodes["src0"], expectCodes["src1"], expectCodes["dst"] = f["ssrc0"], f["ssrc1"], f["sdst"]
	case "sopk":
		f["sdst"] = sDstCodes[rng.Intn(len(sDstCodes))]
		f["simm16"] = uint32(rng.Intn(65536))
		expectCodes["dst"] = f["sdst"]
		if d.op == 20 { // s_setreg_imm32_b32: SIMM32 follows the first dword
			d.hasLit, d.literal = true, lit
		}
	case "sop1":
		f["ssrc0"] = pickSrc(rng, false, true)
		f["sdst"] = sDstCodes[rng.Intn(len(sDstCodes))]
		useLit(f["ssrc0"])
		expectCodes["src0"], expectCodes["dst"] = f["ssrc0"], f["sdst"]
	case "sopc":
		f["ssrc0"] = pickSrc(rng, false, true)
		f["ssrc1"] = pickSrc(rng, false, f["ssrc0"] != 255)
		useLit(f["ssrc0"])
		useLit(f["ssrc1"])
		expectCodes["src0"], expectCodes["src1"] = f["ssrc0"], f["ssrc1"]
	case "sopp":
		f["simm16"] = uint32(rng.Intn(65536))
	case "vop2":
		isK := it.Opcode == 23 || it.Opcode == 24 || it.Opcode == 36 || it.Opcode == 37
		f["src0"] = pickSrc(rng, true, !isK)
		f["vsrc1"] = uint32(rng.Intn(256))
		f["vdst"] = uint32(rng.Intn(256))
		useLit(f["src0"])
		if isK {
			d.hasLit, d.literal = true, lit
		}
		expectCodes["src0"], expectCodes["src1"], expectCodes["dst"] = f["src0"], f["vsrc1"], f["vdst"]
	case "vop1":
		f["src0"] = pickSrc(rng, true, true)
		f["vdst"] = uint32(rng.Intn(256))
		useLit(f["src0"])
		expectCodes["src0"] = f["src0"]
		if it.Opcode == 2 {
			f["vdst"] = uint32(rng.Intn(102))
			expectCodes["dst"] = f["vdst"]
		} else {
			expectCodes["dst"] = f["vdst"] + 256
		}
	case "vopc":
		f["src0"] = pickSrc(rng, true, true)
		f["vsrc1"] = uint32(rng.Intn(256))
		useLit(f["src0"])
		expectCodes["src0"], expectCodes["src1"] = f["src0"], f["vsrc1"]
	case "smem":
		f["sbase"] = uint32(rng.Intn(51))
		f["sdata"] = uint32(rng.Intn(100))
		f["imm"] = uint32(rng.Intn(2))
		f["glc"] = uint32(rng.Intn(2))
		if f["imm"] == 1 {
			f["offset"] = uint32(rng.Intn(1 << 20))
			if rng.Chance(25) {
				f["offset"] |= 1 << 20 // GFX9: sign bit of the 21-bit immediate; not part of the GCN3 field
			}
		} else {
			f["offset"] = uint32(rng.Intn(102))
		}
		expectCodes["data"], expectCodes["base"] = f["sdata"], f["sbase"]*2
	case "flat":
		f["addr"], f["data"], f["vdst"] = uint32(rng.Intn(256)), uint32(rng.Intn(256)), uint32(rng.Intn(256))
		f["saddr"] = uint32(rng.Pick(0x7f, 0x7f, 0, 2, 10))
		f["seg"] = uint32(rng.Pick(0, 0, 2, 2, 1)) // SEG: 0 flat (SADDR unused on CDNA3), 1 scratch, 2 global
		f["glc"], f["slc"], f["tfe"] = uint32(rng.Intn(2)), uint32(rng.Intn(2)), uint32(rng.Intn(2))
		f["offset"] = uint32(rng.Intn(1 << 13))
		expectCodes["addr"], expectCodes["data"], expectCodes["dst"] = f["addr"], f["data"], f["vdst"]
	case "ds":
		f["addr"], f["data0"], f["data1"], f["vdst"] = uint32(rng.Intn(256)), uint32(rng.Intn(256)), uint32(rng.Intn(256)), uint32(rng.Intn(256))
		f["offset0"], f["offset1"], f["gds"] = uint32(rng.Intn(256)), uint32(rng.Intn(256)), uint32(rng.Intn(2))
		expectCodes["addr"] = f["addr"]
	case "vop3a", "vop3b":
		f["src0"], f["src1"] = pickSrc(rng, true, false), pickSrc(rng, true, false)
		if it.SRC2Width != 0 {
			f["src2"] = pickSrc(rng, true, false)
			expectCodes["src2"] = f["src2"]
		}
		f["vdst"] = uint32(rng.Intn(256))
		f["omod"], f["neg"], f["clamp"] = uint32(rng.Intn(4)), uint32(rng.Intn(8)), uint32(rng.Intn(2))
		if fm == "vop3a" {
			f["abs"] = uint32(rng.Intn(8))
			if it.Opcode <= 255 {
				f["vdst"] = sDstCodes[rng.Intn(len(sDstCodes))]
			}
			if it.Opcode >= 944 && it.Opcode <= 946 {
				f["abs"], f["clamp"] = 0, 0 // packed forms reuse these bits (op_sel / neg_hi)
			}
		} else {
			f["sdst"] = sDstCodes[rng.Intn(len(sDstCodes))]
			expectCodes["sdst"] = f["sdst"]
		}
		expectCodes["src0"], expectCodes["src1"] = f["src0"], f["src1"]
	}
	buf := encodeDesc(d)
	tail := rng.Bytes(rng.Intn(9))
	full := append(append([]byte{}, buf...), tail...)
	arch := "gcn3"
	dis := e.gcn3
	if rng.Chance(30) {
		arch, dis = "cdna3", e.cdna3
		// opcodes CDNA3 defines differently (e.g. VOP1 0x38 = v_mov_b64) decode to the CDNA3 row
		for _, o := range e.cdna3.VerifCDNA3Rows() {
			if o.Format.FormatType == it.Format.FormatType && o.Opcode == it.Opcode {
				it = o
			}
		}
	}
	line := fmt.Sprintf("c04 dec %s %s", arch, hexb(full))
	out, inst := decodeCanon(dis, full)
	r.Case(line, out)
	r.Count("roundtrip." + fm)
	r.Checked("roundtrip")
	sig := "C04.roundtrip." + fm
	if inst == nil {
		r.Failf(sig, line, "well-formed %s %s (fields %v) does not decode: %s", fm, it.InstName, f, out)
		return
	}
	bad := func(format string, a ...interface{}) {
		r.Failf(sig, line, "%s %s fields %v: %s  [decoded: %s]", fm, it.InstName, f, fmt.Sprintf(format, a...), out)
	}
	if inst.InstName != it.InstName || uint32(inst.Opcode) != d.op {
		bad("decoded as %s opcode %d", inst.InstName, inst.Opcode)
		return
	}
	if inst.ByteSize != len(buf) {
		bad("size %d, encoded %d bytes", inst.ByteSize, len(buf))
		return
	}
	get := map[string]*insts.Operand{"src0": inst.Src0, "src1": inst.Src1, "src2": inst.Src2, "dst": inst.Dst, "sdst": inst.SDst,
		"addr": inst.Addr, "data": inst.Data, "base": inst.Base}
	for k, code := range expectCodes {
		o := get[k]
		if o == nil {
			bad("operand %s missing", k)
			return
		}
		if uint32(o.Code) != code {
			bad("operand %s has code %d, encoded %d", k, o.Code, code)
			return
		}
		// kind/index implied by the code (ISA operand table)
		switch {
		case fm == "vop2" && k != "src0", fm == "vopc" && k == "src1", fm == "flat", fm == "ds":
			if o.OperandType != insts.RegOperand || !o.Register.IsVReg() || uint32(o.Register.RegIndex()) != code {
				bad("operand %s is not v%d", k, code)
				return
			}
		case fm == "smem" && k == "base":
			if o.OperandType != insts.RegOperand || !o.Register.IsSReg() || uint32(o.Register.RegIndex()) != code || o.RegCount != 2 {
				bad("base is not s[%d:%d]", code, code+1)
				return
			}
		case (fm == "vop3a" && it.Opcode > 255 || fm == "vop3b") && k == "dst":
			// vdst field
		default:
			if !operandMatchesCode(o, code) {
				bad("operand %s does not denote code %d: %s", k, code, opndStr(o))
				return
			}
		}
		if o.OperandType == insts.LiteralConstant && d.hasLit && o.LiteralConstant != d.literal {
			bad("literal %x, encoded %x", o.LiteralConstant, d.literal)
			return
		}
	}
	switch fm {
	case "sopk", "sopp":
		if inst.SImm16 == nil || uint32(inst.SImm16.IntValue) != f["simm16"] {
			bad("simm16 mismatch")
		} else if fm == "sopk" && d.op == 20 && (inst.Src0 == nil || inst.Src0.OperandType != insts.LiteralConstant || inst.Src0.LiteralConstant != d.literal) {
			bad("simm32 %x not kept", d.literal)
		}
	case "smem":
		if inst.Imm != (f["imm"] == 1) || inst.GlobalLevelCoherent != (f["glc"] == 1) {
			bad("imm/glc flag mismatch")
		} else if inst.Imm && inst.Offset.IntValue != c04SmemImm(arch, f["offset"]) {
			bad("offset %d", inst.Offset.IntValue)
		} else if !inst.Imm && (inst.Offset.OperandType != insts.RegOperand || uint32(inst.Offset.Register.RegIndex()) != f["offset"]) {
			bad("offset register mismatch")
		}
	case "flat":
		off := f["offset"]
		if off&(1<<12) != 0 {
			off |= 0xFFFFE000
		}
		if inst.Offset0 != off || inst.GlobalLevelCoherent != (f["glc"] == 1) || inst.SystemLevelCoherent != (f["slc"] == 1) ||
			inst.TextureFailEnable != (f["tfe"] == 1) || uint32(inst.SAddr.IntValue) != f["saddr"] {
			bad("flat modifiers mismatch")
		}
	case "ds":
		if inst.GDS != (f["gds"] == 1) {
			bad("GDS flag %v", inst.GDS)
		} else if inst.Offset1 != f["offset1"] {
			bad("offset1 %d", inst.Offset1)
		} else if inst.Offset0 != f["offset0"] && inst.Offset0 != f["offset0"]+f["offset1"]<<8 {
			bad("offset0 %d", inst.Offset0)
		} else if it.SRC0Width > 0 && uint32(inst.Data.Register.RegIndex()) != f["data0"] ||
			it.SRC1Width > 0 && uint32(inst.Data1.Register.RegIndex()) != f["data1"] ||
			it.DSTWidth > 0 && uint32(inst.Dst.Register.RegIndex()) != f["vdst"] {
			bad("data/dst register mismatch")
		}
	case "vop3a":
		if uint32(inst.Abs) != f["abs"] || uint32(inst.Neg) != f["neg"] || uint32(inst.Omod) != f["omod"] || inst.Clamp != (f["clamp"] == 1) {
			bad("modifier mismatch abs=%d neg=%d omod=%d clamp=%v", inst.Abs, inst.Neg, inst.Omod, inst.Clamp)
		} else if it.Opcode > 255 && uint32(inst.Dst.Register.RegIndex()) != f["vdst"] {
			bad("vdst mismatch")
		}
	case "vop3b":
		if uint32(inst.Neg) != f["neg"] || uint32(inst.Omod) != f["omod"] || inst.Clamp != (f["clamp"] == 1) {
			bad("modifier mismatch")
		}
	}
}

// operandMatchesCode: the ISA's scalar/vector source operand table.
func operandMatchesCode(o *insts.Operand, code uint32) bool {
	switch {
	case code <= 101:
		return o.OperandType == insts.RegOperand && o.Register.IsSReg() && uint32(o.Register.RegIndex()) == code
	case code == 106:
		return o.OperandType == insts.RegOperand && o.Register.RegType == insts.VCCLO
	case code == 107:
		return o.OperandType == insts.RegOperand && o.Register.RegType == insts.VCCHI
	case code == 124:
		return o.OperandType == insts.RegOperand && o.Register.RegType == insts.M0
	case code == 126:
		return o.OperandType == insts.RegOperand && o.Register.RegType == insts.EXECLO
	case code == 127:
		return o.OperandType == insts.RegOperand && o.Register.RegType == insts.EXECHI
	case code >= 128 && code <= 192:
		return o.OperandType == insts.IntOperand && o.IntValue == int64(code)-128
	case code >= 193 && code <= 208:
		return o.OperandType == insts.IntOperand && o.IntValue == 192-int64(code)
	case code >= 240 && code <= 248:
		want := []float64{0.5, -0.5, 1, -1, 2, -2, 4, -4, 0.15915494309189535}[code-240]
		return o.OperandType == insts.FloatOperand && o.FloatValue == want
	case code == 251:
		return o.OperandType == insts.RegOperand && o.Register.RegType == insts.VCCZ
	case code == 252:
		return o.OperandType == insts.RegOperand && o.Register.RegType == insts.EXECZ
	case code == 253:
		return o.OperandType == insts.RegOperand && o.Register.RegType == insts.SCC
	case code == 255:
		return o.OperandType == insts.LiteralConstant
	case code >= 256 && code <= 511:
		return o.OperandType == insts.RegOperand && o.Register.IsVReg() && uint32(o.Register.RegIndex()) == code-256
	}
	return true
}

// scanKernels decodes every kernel of every shipped .hsaco sequentially from its entry.
func (e *c04env) scanKernels(limitFiles int) {
	r := e.r
	var files []string
	filepath.Walk(repoRoot(), func(p string, info os.FileInfo, err error) error {
		if err == nil && !info.IsDir() && strings.HasSuffix(p, ".hsaco") {
			files = append(files, p)
		}
		return nil
	})
	sort.Strings(files)
	for fi, p := range files {
		if limitFiles > 0 && fi >= limitFiles {
			break
		}
		ef, err := elf.Open(p)
		if err != nil {
			continue
		}
		syms, _ := ef.Symbols()
		rel, _ := filepath.Rel(repoRoot(), p)
		isCDNA := strings.Contains(rel, "gfx942") || strings.Contains(rel, "cdna3")
		for _, s := range syms {
			if s.Section == elf.SHN_UNDEF || int(s.Section) >= len(ef.Sections) || ef.Sections[s.Section].Name != ".text" || s.Size == 0 {
				continue
			}
			var co *insts.KernelCodeObject
			if f := catch(func() { co = insts.LoadKernelCodeObjectFromELF(ef, s.Name) }); f != "" || co == nil {
				continue
			}
			d := e.gcn3
			if isCDNA {
				d = e.cdna3
			}
			data := co.Data
			pc, n := 0, 0
			bad := ""
			for pc < len(data) {
				out, inst := decodeCanon(d, data[pc:])
				if inst == nil {
					bad = fmt.Sprintf("offset %d: %s (word %s)", pc, out, hexb(data[pc:min(pc+8, len(data))]))
					break
				}
				pc += inst.ByteSize
				n++
			}
			r.Checked("kernel-scan")
			r.Count("kernel-scan.kernels")
			r.CountN("kernel-scan.insts", n)
			id := rel + ":" + s.Name
			if bad != "" {
				r.Failf("C04.kernel-scan", id, "sequential decode stops at %s", bad)
			} else if pc != len(data) {
				r.Failf("C04.kernel-scan", id, "consumed %d of %d bytes", pc, len(data))
			}
		}
		ef.Close()
	}
	r.CountN("kernel-scan.files", len(files))
}

func runC04(r *Run, rng *Rng, replay string) {
	thorough := r.Tier == "thorough"
	e := &c04env{r: r, gcn3: insts.NewDisassembler(), cdna3: insts.NewDisassembler()}
	e.cdna3.IsCDNA3 = true
	e.perms = admissibleOrders(rng, 3)

	// getOperand: complete enumeration of all 16-bit codes that differ in behaviour
	// (0..600 covers every case boundary; above 511 everything is an error)
	for n := 0; n < 600; n++ {
		var o *insts.Operand
		var err error
		f := catch(func() { o, err = insts.VerifGetOperand(uint16(n)) })
		out := "err"
		if f != "" {
			out = "fault:" + f
		} else if err == nil && o != nil {
			out = opndStr(o)
		}
		r.Case(fmt.Sprintf("c04 operand %d", n), out)
	}
	r.Count("operand.enumerated")

	rows := e.gcn3.VerifRows()
	sort.Slice(rows, func(i, j int) bool {
		if rows[i].Format.FormatType != rows[j].Format.FormatType {
			return rows[i].Format.FormatType < rows[j].Format.FormatType
		}
		return rows[i].Opcode < rows[j].Opcode
	})
	r.Case("c04 nrows", fmt.Sprint(countRowsWithDup(e.gcn3)))
	byFmt := map[string][]*insts.InstType{}
	for _, it := range rows {
		byFmt[it.Format.FormatName] = append(byFmt[it.Format.FormatName], it)
	}
	perRow := 6
	if thorough {
		perRow = 150
	}
	// (i) every table row x structured operand fills
	for _, it := range rows {
		for k := 0; k < perRow; k++ {
			w := fillWord(rng, it.Format, uint32(it.Opcode))
			buf := binary.LittleEndian.AppendUint32(nil, w)
			n := rng.Pick(0, 4, 4, 8)
			hi := uint32(rng.U64())
			if rng.Chance(30) {
				hi &= 0x3fffffff &^ (1 << 13) &^ (7 << 19) &^ (7 << 27) // SDWA dword without unsupported modifiers
			}
			extra := binary.LittleEndian.AppendUint32(nil, hi)
			extra = append(extra, rng.Bytes(4)...)
			buf = append(buf, extra[:n]...)
			arch := "gcn3"
			if it.Format.FormatType == insts.FLAT && rng.Bool() {
				arch = "cdna3"
			}
			e.one(arch, buf, "row")
		}
	}
	// the rows a CDNA3 disassembler looks up first, on both architectures
	for _, it := range e.cdna3.VerifCDNA3Rows() {
		for k := 0; k < 4*perRow; k++ {
			w := fillWord(rng, it.Format, uint32(it.Opcode))
			buf := binary.LittleEndian.AppendUint32(nil, w)
			buf = append(buf, rng.Bytes(rng.Pick(0, 4, 8))...)
			e.one([]string{"cdna3", "cdna3", "gcn3"}[rng.Intn(3)], buf, "cdna3row")
		}
	}
	// (ii) raw random words
	nraw := 20000
	if thorough {
		nraw = 1500000
	}
	for i := 0; i < nraw; i++ {
		buf := rng.Bytes(rng.Pick(4, 8, 8, 12))
		e.one("gcn3", buf, "raw")
	}
	// (iii) every buffer length 0..12 on a few words
	for _, w := range []uint32{0x7d000080, 0x80ff0080, 0xbf810000, 0xd1000000, 0xdc500000, 0x7e0002ff, 0x320000f9} {
		full := binary.LittleEndian.AppendUint32(nil, w)
		full = append(full, 0xef, 0xbe, 0xad, 0xde, 1, 2, 3, 4)
		for l := 0; l <= 12; l++ {
			e.one("gcn3", full[:l], "length")
		}
	}
	// (iv) encoder round trip
	nrt := 20000
	if thorough {
		nrt = 600000
	}
	for i := 0; i < nrt; i++ {
		e.roundTrip(rng, byFmt)
	}
	// (v) shipped kernels, complete
	e.scanKernels(0)
	// (vi) history independence
	e.recheckHistory()
}

func countRowsWithDup(d *insts.Disassembler) int { return len(d.VerifRows()) }
