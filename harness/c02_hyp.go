package main

// C02 (second deepening) — replay of the kernel-checked witnesses of the hypothesis audit
// (lean/MgpuProofs/Props/C02Hyp.lean, block REPLAY) on the real compute unit and the real emulator ALU,
// through the runners of c02.go (so the model must reproduce both real sides and the oracles of those
// runners apply): alignment witnesses (misaligned without straddle; aligned accesses next to and across
// a line boundary for every width), duplicated line responses (idempotent: `…_any_multiset`), SMEM at the
// last dword of a line / x16 across a line, counter with in-order responses.
// The witnesses with a MISSING response (`load_response_missing_differs`, `store_request_missing_differs`)
// are facts about the model's hypothesis `every line is answered`; a memory that never answers hangs the
// wavefront (oracle C02.counter-not-zero-at-end fires by construction), so they are not replayed.

func init() { register("C02", runC02Hyp) }

func runC02Hyp(r *Run, rng *Rng, replay string) {
	e := newC02Env()
	ld := func(opc int, exec uint64, vals []uint64, ord []int) {
		e.runLoad(r, rng, &c02Flat{opc: opc, arch: "gcn3", exec: exec, dst: 8, seed: 7, vals: vals, ord: ord})
	}
	st := func(opc int, exec uint64, vals []uint64, ord []int) {
		e.runStore(r, rng, &c02Flat{opc: opc, arch: "gcn3", exec: exec, dst: 8, seed: 7, vals: vals, ord: ord})
	}
	// (3) misaligned_without_straddle_still_equal: a dword at offset 2
	ld(20, 1, []uint64{0x100000002}, []int{0})
	// (4) dwordx4 starting at the last dword of a line (naturally aligned): two transactions, any order
	ld(23, 1, []uint64{0x10000003c}, []int{1, 0})
	// (5) shorts at the last aligned short of two lines
	ld(18, 3, []uint64{0x10000003e, 0x10000007e}, []int{1, 0})
	// (2) a line answered twice (coalesced_load_equiv_any_multiset): the second answer finds no transaction
	ld(20, 3, []uint64{0x10000003c, 0x100000044}, []int{1, 0, 1})
	// (7) dwordx2 store across a line boundary (aligned), requests applied in reverse order
	st(29, 1, []uint64{0x10000003c}, []int{1, 0})
	// (10) aligned short store at the end of a line; misaligned dword store inside a line
	st(26, 1, []uint64{0x10000003e}, []int{0})
	st(28, 1, []uint64{0x100000002}, []int{0})
	// (11) scalar_load_equiv_opcode: x2 at the last dword of a line (address not a multiple of 4), x16 across a line
	e.runSmem(r, rng, 1, 10, 0x10000003e, 7, []int{1, 0})
	e.runSmem(r, rng, 4, 10, 0x100000031, 7, []int{1, 0})
	// (12) counter_sound_fifo: responses oldest first
	e.runCounter(r, rng, []int{2, 1}, []int{0, 1, 2})
	r.Count("hyp:witnesses-replayed")
}
