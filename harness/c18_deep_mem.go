package main

// C18, data half ("results do not depend on how data are spread over GPUs") at the memory level:
// correspondence with lean/MgpuModel/C18_Mem.lean (theorems placement_invariant,
// placement_independent in Props/C18Mem.lean) plus two oracles that do not use the model.
//
// Case line:  c18 mem P=<hex> S=<hex> n=<k> pt=<vp>:<pp>,… ; s <g> <vaddr> <bytes hex> ; l <g> <vaddr> <len> ; …
// (P page size, S per-GPU memory = RDMA bank size, n GPUs, pt virtual page -> physical page, all hex
// except n, g, len). Answer: per access `w<t…>` (store) or `<data hex>@<t…>` (load), t = GPU whose
// memory served each byte; then `img=<hex>` = bytes of all mapped pages in table order; at the first
// faulting access `fault:<kind>` and nothing more.
//
// The implementation side is assembled from the REAL pieces exactly as the timing platform
// (amd/samples/runner/timingconfig/builder.go, r9nano/builder.go) assembles them:
//   * translation: vm.NewPageTable(log2PageSize) Insert / Find and `page.PAddr + vAddr % pageSize`
//     (akita addresstranslator) — page sizes are therefore powers of two here;
//   * local decision of GPU g: mem.InterleavedAddressPortMapper with UseAddressSpaceLimitation,
//     LowAddress = g*S, HighAddress = g*S + S, LowModules = g's L2 banks, ModuleForOtherAddresses =
//     g's RDMARequestInside (r9nano Build + connectL1ToL2); the same mapper is the RDMA engine's
//     localModules, so it is asked again on the destination GPU;
//   * remote destination: mem.BankedAddressPortMapper{BankSize: S, LowModules: "CPU", GPU[1].RDMAData,
//     …} (createRDMAAddressMapper / configRDMAEngine); index beyond the table panics -> fault:bounds;
//   * bytes: mem.Storage of capacity (n+1)*S addressed by the GLOBAL physical address (the real DRAM
//     controllers get no address converter). The real builder hands ONE shared storage to every GPU's
//     DRAM controllers; the write-back L2s in front of it are private per GPU. The harness gives every
//     GPU a private storage so that a wrong routing decision shows up as wrong data.
// Every access is resolved byte by byte first (a fault leaves the memories untouched) and then performed.
//
// Oracles (independent of the Lean model), for placements that are injective on frames and keep every
// frame byte in a GPU bank: `mem.flat` — loads, fault position (only `page`, only where the script
// touches an unmapped page) and final image equal a plain map[uint64]byte memory addressed virtually;
// `mem.indep` — all good placements / issuer assignments of one script give the same data;
// `mem.owner` — within one run a physical byte is always served by the same GPU. Signature
// C18.mem.placement / C18.mem.owner.

import (
	"fmt"
	"strconv"
	"strings"

	"github.com/sarchlab/akita/v4/mem/mem"
	"github.com/sarchlab/akita/v4/mem/vm"
	"github.com/sarchlab/akita/v4/sim"
)

func init() { register("C18", runC18DeepMem) }

type c18mOp struct {
	store bool
	g     int
	v     uint64
	data  []byte // store
	n     int    // load
}

type c18mCase struct {
	P, S uint64
	n    int
	pt   [][2]uint64 // vp, pp
	ops  []c18mOp
}

func (c *c18mCase) line() string {
	var sb strings.Builder
	fmt.Fprintf(&sb, "c18 mem P=%x S=%x n=%d pt=", c.P, c.S, c.n)
	if len(c.pt) == 0 {
		sb.WriteString("-")
	}
	for i, e := range c.pt {
		if i > 0 {
			sb.WriteString(",")
		}
		fmt.Fprintf(&sb, "%x:%x", e[0], e[1])
	}
	for _, o := range c.ops {
		if o.store {
			d := hexb(o.data)
			if d == "" {
				d = "-"
			}
			fmt.Fprintf(&sb, " ; s %d %x %s", o.g, o.v, d)
		} else {
			fmt.Fprintf(&sb, " ; l %d %x %d", o.g, o.v, o.n)
		}
	}
	return sb.String()
}

func c18mParse(line string) (*c18mCase, error) {
	segs := strings.Split(line, ";")
	f := strings.Fields(segs[0])
	if len(f) < 2 || f[0] != "c18" || f[1] != "mem" {
		return nil, fmt.Errorf("not a c18 mem line")
	}
	c := &c18mCase{}
	for _, t := range f[2:] {
		kv := strings.SplitN(t, "=", 2)
		if len(kv) != 2 {
			return nil, fmt.Errorf("token %q", t)
		}
		switch kv[0] {
		case "P":
			c.P, _ = strconv.ParseUint(kv[1], 16, 64)
		case "S":
			c.S, _ = strconv.ParseUint(kv[1], 16, 64)
		case "n":
			c.n, _ = strconv.Atoi(kv[1])
		case "pt":
			if kv[1] == "-" {
				break
			}
			for _, e := range strings.Split(kv[1], ",") {
				ab := strings.Split(e, ":")
				if len(ab) != 2 {
					return nil, fmt.Errorf("pt entry %q", e)
				}
				a, e1 := strconv.ParseUint(ab[0], 16, 64)
				b, e2 := strconv.ParseUint(ab[1], 16, 64)
				if e1 != nil || e2 != nil {
					return nil, fmt.Errorf("pt entry %q", e)
				}
				c.pt = append(c.pt, [2]uint64{a, b})
			}
		}
	}
	for _, s := range segs[1:] {
		w := strings.Fields(s)
		if len(w) == 0 {
			continue
		}
		if len(w) != 4 {
			return nil, fmt.Errorf("op %q", s)
		}
		g, e1 := strconv.Atoi(w[1])
		v, e2 := strconv.ParseUint(w[2], 16, 64)
		if e1 != nil || e2 != nil {
			return nil, fmt.Errorf("op %q", s)
		}
		switch w[0] {
		case "s":
			var d []byte
			if w[3] != "-" {
				if len(w[3])%2 != 0 {
					return nil, fmt.Errorf("op %q", s)
				}
				for i := 0; i < len(w[3]); i += 2 {
					b, err := strconv.ParseUint(w[3][i:i+2], 16, 8)
					if err != nil {
						return nil, fmt.Errorf("op %q", s)
					}
					d = append(d, byte(b))
				}
			}
			c.ops = append(c.ops, c18mOp{store: true, g: g, v: v, data: d})
		case "l":
			n, err := strconv.Atoi(w[3])
			if err != nil {
				return nil, fmt.Errorf("op %q", s)
			}
			c.ops = append(c.ops, c18mOp{g: g, v: v, n: n})
		default:
			return nil, fmt.Errorf("op %q", s)
		}
	}
	return c, nil
}

// ------------------------------------------------------------------ the platform from real pieces

type c18mPlat struct {
	c     *c18mCase
	log2P uint64
	pt    vm.PageTable
	rdma  *mem.BankedAddressPortMapper
	l1    []*mem.InterleavedAddressPortMapper // [g], 1..n
	dram  []*mem.Storage                      // [0..n], global physical addresses
	gpuOf map[sim.RemotePort]int              // RDMA table entry -> GPU index
}

const c18mPID = vm.PID(1)

func c18mLog2(p uint64) (uint64, bool) {
	for i := uint64(0); i < 63; i++ {
		if p == 1<<i {
			return i, true
		}
	}
	return 0, false
}

func c18mBuild(c *c18mCase) *c18mPlat {
	p := &c18mPlat{c: c, gpuOf: map[sim.RemotePort]int{}}
	p.log2P, _ = c18mLog2(c.P)
	p.pt = vm.NewPageTable(p.log2P)
	for _, e := range c.pt {
		// what Driver.allocatePageWithGivenVAddr inserts; DeviceID is what deviceIDByPAddr-like
		// bookkeeping would say and is not used by the translation
		p.pt.Insert(vm.Page{PID: c18mPID, VAddr: e[0] * c.P, PAddr: e[1] * c.P, PageSize: c.P, Valid: true})
	}
	p.rdma = new(mem.BankedAddressPortMapper)
	p.rdma.BankSize = c.S
	p.rdma.LowModules = append(p.rdma.LowModules, sim.RemotePort("CPU"))
	p.l1 = make([]*mem.InterleavedAddressPortMapper, c.n+1)
	p.dram = make([]*mem.Storage, c.n+1)
	p.dram[0] = mem.NewStorage(uint64(c.n+1) * c.S)
	for g := 1; g <= c.n; g++ {
		name := sim.RemotePort(fmt.Sprintf("GPU[%d].RDMA.RDMADataOutside", g))
		p.rdma.LowModules = append(p.rdma.LowModules, name)
		p.gpuOf[name] = g
		m := mem.NewInterleavedAddressPortMapper(4) // real: 1<<7 with 16 banks; which L2 bank is irrelevant here
		m.LowAddress = uint64(g) * c.S
		m.HighAddress = uint64(g)*c.S + c.S
		m.UseAddressSpaceLimitation = true
		for i := 0; i < 2; i++ {
			m.LowModules = append(m.LowModules, sim.RemotePort(fmt.Sprintf("GPU[%d].L2Cache[%d].Top", g, i)))
		}
		m.ModuleForOtherAddresses = sim.RemotePort(fmt.Sprintf("GPU[%d].RDMA.RDMARequestInside", g))
		p.l1[g] = m
		p.dram[g] = mem.NewStorage(uint64(c.n+1) * c.S)
	}
	return p
}

func (p *c18mPlat) translate(v uint64) (uint64, bool) {
	page, ok := p.pt.Find(c18mPID, v)
	if !ok {
		return 0, false
	}
	return page.PAddr + v%(1<<p.log2P), true
}

func (p *c18mPlat) isL2Of(port sim.RemotePort, g int) bool {
	return strings.HasPrefix(string(port), fmt.Sprintf("GPU[%d].L2Cache[", g))
}

// resolve: which GPU's memory serves virtual byte v for issuing GPU g
func (p *c18mPlat) resolve(g int, v uint64) (t int, pa uint64, fault string) {
	pa, ok := p.translate(v)
	if !ok {
		return 0, 0, "page"
	}
	port := p.l1[g].Find(pa)
	if p.isL2Of(port, g) {
		return g, pa, ""
	}
	if port != p.l1[g].ModuleForOtherAddresses {
		return 0, pa, "unexpected-port"
	}
	var dst sim.RemotePort
	if f := catch(func() { dst = p.rdma.Find(pa) }); f != "" {
		return 0, pa, f
	}
	if dst == "CPU" {
		return 0, pa, "cpu"
	}
	d := p.gpuOf[dst]
	if !p.isL2Of(p.l1[d].Find(pa), d) {
		return 0, pa, "loop"
	}
	return d, pa, ""
}

type c18mResult struct {
	toks    []string
	loads   [][]byte
	faultAt int // op index, -1 = none
	fault   string
	image   []byte
	ownerOK bool
	remote  int
	local   int
}

func c18mDigits(ts []int) string {
	var sb strings.Builder
	for _, t := range ts {
		sb.WriteString(strconv.Itoa(t))
	}
	return sb.String()
}

func c18mHexOrDash(b []byte) string {
	if len(b) == 0 {
		return "-"
	}
	return hexb(b)
}

func (p *c18mPlat) run() *c18mResult {
	res := &c18mResult{faultAt: -1, ownerOK: true}
	owner := map[uint64]int{}
	for i, o := range p.c.ops {
		n := o.n
		if o.store {
			n = len(o.data)
		}
		ts := make([]int, n)
		pas := make([]uint64, n)
		for j := 0; j < n; j++ {
			t, pa, f := p.resolve(o.g, o.v+uint64(j))
			if f != "" {
				res.faultAt, res.fault = i, f
				res.toks = append(res.toks, "fault:"+f)
				return res
			}
			ts[j], pas[j] = t, pa
			if prev, ok := owner[pa]; ok && prev != t {
				res.ownerOK = false
			}
			owner[pa] = t
			if t == o.g {
				res.local++
			} else {
				res.remote++
			}
		}
		if o.store {
			for j := 0; j < n; j++ {
				must(p.dram[ts[j]].Write(pas[j], []byte{o.data[j]}))
			}
			res.toks = append(res.toks, "w"+c18mDigits(ts))
		} else {
			out := make([]byte, n)
			for j := 0; j < n; j++ {
				b, err := p.dram[ts[j]].Read(pas[j], 1)
				must(err)
				out[j] = b[0]
			}
			res.loads = append(res.loads, out)
			res.toks = append(res.toks, c18mHexOrDash(out)+"@"+c18mDigits(ts))
		}
	}
	// final virtual image: every byte of every mapped page, read from the memory of the bank that
	// the RDMA table names for its physical address (0 where the table has no such GPU)
	for _, e := range p.c.pt {
		for off := uint64(0); off < p.c.P; off++ {
			pa, ok := p.translate(e[0]*p.c.P + off)
			var b byte
			if ok {
				var dst sim.RemotePort
				if f := catch(func() { dst = p.rdma.Find(pa) }); f == "" {
					d := p.gpuOf[dst] // "CPU" -> 0
					x, err := p.dram[d].Read(pa, 1)
					must(err)
					b = x[0]
				}
			}
			res.image = append(res.image, b)
		}
	}
	res.toks = append(res.toks, "img="+c18mHexOrDash(res.image))
	return res
}

// ------------------------------------------------------------------ oracles

// good: frames pairwise distinct and every frame byte inside a GPU bank (hypotheses of placement_invariant)
func (c *c18mCase) good() bool {
	seen := map[uint64]bool{}
	for _, e := range c.pt {
		if seen[e[1]] {
			return false
		}
		seen[e[1]] = true
		lo, hi := e[1]*c.P, e[1]*c.P+c.P-1
		if lo/c.S < 1 || hi/c.S > uint64(c.n) {
			return false
		}
	}
	return true
}

type c18mFlat struct {
	loads   [][]byte
	faultAt int
	image   []byte
}

// flat reference: one byte map addressed virtually; a fault only where an unmapped page is touched
func (c *c18mCase) flat() *c18mFlat {
	f := &c18mFlat{faultAt: -1}
	m := map[uint64]byte{}
	mapped := map[uint64]bool{}
	for _, e := range c.pt {
		mapped[e[0]] = true
	}
	for i, o := range c.ops {
		n := o.n
		if o.store {
			n = len(o.data)
		}
		for j := 0; j < n; j++ {
			if !mapped[(o.v+uint64(j))/c.P] {
				f.faultAt = i
				return f
			}
		}
		if o.store {
			for j, b := range o.data {
				m[o.v+uint64(j)] = b
			}
		} else {
			out := make([]byte, n)
			for j := range out {
				out[j] = m[o.v+uint64(j)]
			}
			f.loads = append(f.loads, out)
		}
	}
	for _, e := range c.pt {
		for off := uint64(0); off < c.P; off++ {
			f.image = append(f.image, m[e[0]*c.P+off])
		}
	}
	return f
}

func c18mSameLoads(a, b [][]byte) bool {
	if len(a) != len(b) {
		return false
	}
	for i := range a {
		if string(a[i]) != string(b[i]) {
			return false
		}
	}
	return true
}

// c18mRunLine executes one case line on the real pieces, records the correspondence case and the
// oracles; returns the result (nil for a malformed line) and whether the placement is good.
func c18mRunLine(r *Run, line string) (*c18mResult, bool) {
	c, err := c18mParse(line)
	bad := err != nil
	if !bad {
		_, pow2 := c18mLog2(c.P)
		bad = !pow2 || c.S == 0 || c.n < 1 || c.n > 9
		for _, o := range c.ops {
			if o.g < 1 || o.g > c.n {
				bad = true
			}
		}
		seen := map[uint64]bool{}
		for _, e := range c.pt { // a duplicate virtual page makes PageTable.Insert panic ("page exist")
			if seen[e[0]] {
				bad = true
			}
			seen[e[0]] = true
		}
	}
	if bad {
		r.Failf("C18.mem.harness", line, "generator produced a line the real pieces cannot run: %v", err)
		return nil, false
	}
	res := c18mBuild(c).run()
	r.Case(line, strings.Join(res.toks, " "))
	r.Count(fmt.Sprintf("mem.n%d", c.n))
	if res.fault != "" {
		r.Count("mem.fault." + res.fault)
	} else {
		r.Count("mem.completed")
	}
	if res.remote > 0 && res.local > 0 {
		r.Count("mem.local+remote")
	} else if res.remote > 0 {
		r.Count("mem.remote-only")
	}
	r.Checked("mem.owner")
	if !res.ownerOK {
		r.Failf("C18.mem.owner", line, "one physical byte was served by two different GPUs")
	}
	good := c.good()
	if !good {
		r.Count("mem.placement.bad")
		return res, false
	}
	r.Count("mem.placement.good")
	f := c.flat()
	r.Checked("mem.flat")
	switch {
	case f.faultAt >= 0:
		if res.faultAt != f.faultAt || res.fault != "page" || !c18mSameLoads(res.loads, f.loads) {
			r.Failf("C18.mem.placement", line, "flat reference stops at op %d (unmapped page) after loads %x; platform: fault %q at op %d, loads %x",
				f.faultAt, f.loads, res.fault, res.faultAt, res.loads)
		}
	case res.faultAt >= 0:
		r.Failf("C18.mem.placement", line, "good placement, all pages mapped, but fault:%s at op %d", res.fault, res.faultAt)
	case !c18mSameLoads(res.loads, f.loads):
		r.Failf("C18.mem.placement", line, "loads %x, flat reference %x", res.loads, f.loads)
	case string(res.image) != string(f.image):
		r.Failf("C18.mem.placement", line, "final image %x, flat reference %x", res.image, f.image)
	}
	return res, true
}

// ------------------------------------------------------------------ generation

// fixed lines: the examples of Props/C18Mem.lean (spread / reversed placements, aliasing, host bank,
// beyond the table, unmapped page) and the 4 GiB witness of placement_invariant_alloc_full_refuted with
// its milder sibling (last page of GPU 1's allocator range = first page of GPU 2's bank)
var c18mFixed = []string{
	"c18 mem P=10 S=40 n=2 pt=0:7,1:8,2:5 ; s 1 c 010203040506 ; l 2 a 8 ; s 2 1f 0909 ; l 1 1e 4",
	"c18 mem P=10 S=40 n=1 pt=0:4,1:5,2:6 ; s 1 c 010203040506 ; l 1 a 8 ; s 1 1f 0909 ; l 1 1e 4",
	"c18 mem P=10 S=40 n=3 pt=0:f,1:9,2:4 ; s 3 c 010203040506 ; l 2 a 8 ; s 1 1f 0909 ; l 3 1e 4",
	"c18 mem P=10 S=40 n=2 pt=0:4,1:4 ; s 1 0 07 ; l 2 10 1",
	"c18 mem P=10 S=40 n=2 pt=0:1 ; s 1 0 07",
	"c18 mem P=10 S=40 n=2 pt=0:c ; s 1 0 07",
	"c18 mem P=10 S=40 n=2 pt=0:4 ; s 1 f 0708",
	"c18 mem P=10 S=40 n=2 pt=- ; l 2 e 0 ; s 1 5 -",
	"c18 mem P=10 S=28 n=3 pt=0:3,1:7,2:5 ; s 1 0 a1a2a3a4a5a6a7a8a9aaabacadaeafb0b1b2b3b4b5b6b7b8b9babbbcbdbebfc0c1c2 ; l 2 0 48",
	"c18 mem P=1000 S=100000000 n=2 pt=0:300000 ; s 1 0 07 ; l 1 0 1",
	"c18 mem P=1000 S=100000000 n=2 pt=0:200000 ; s 1 0 07 ; l 1 0 1",
	"c18 mem P=1000 S=100000000 n=2 pt=0:200000,1:1fffff ; s 1 ffe 0102030405 ; l 2 ffc 8",
}

type c18mScript struct {
	log2P uint64
	vps   []uint64
	ops   []c18mOp // g unset
	holes bool
}

func c18mGenScript(rng *Rng, thorough bool) *c18mScript {
	s := &c18mScript{log2P: uint64(rng.Pick(3, 4, 4, 5, 6))}
	P := uint64(1) << s.log2P
	nv := rng.Range(1, 6)
	vp := uint64(rng.Pick(0, 0, 1, 0x10, 0x7f0))
	s.holes = rng.Chance(15)
	for i := 0; i < nv; i++ {
		s.vps = append(s.vps, vp)
		if rng.Chance(20) {
			vp += uint64(rng.Range(2, 3))
		} else {
			vp++
		}
	}
	mapped := map[uint64]bool{}
	for _, v := range s.vps {
		mapped[v] = true
	}
	nops := rng.Range(3, 9)
	if thorough {
		nops = rng.Range(3, 14)
	}
	maxLen := int(P + P/2)
	if maxLen > 24 {
		maxLen = 24
	}
	for i := 0; i < nops; i++ {
		pg := s.vps[rng.Intn(nv)]
		off := uint64(rng.Intn(int(P)))
		if rng.Chance(35) { // near the end of the page: crossings
			off = P - 1 - uint64(rng.Intn(3))
		}
		v := pg*P + off
		n := rng.Range(1, maxLen)
		if rng.Chance(4) {
			n = 0
		}
		if !s.holes { // shrink until every touched page is mapped
			for j := 0; j < n; j++ {
				if !mapped[(v+uint64(j))/P] {
					n = j
				}
			}
		} else if rng.Chance(10) { // a page outside the table altogether
			v = (s.vps[nv-1] + 1 + uint64(rng.Intn(2))) * P
		}
		if rng.Chance(55) || i == 0 {
			s.ops = append(s.ops, c18mOp{store: true, v: v, data: rng.Bytes(n)})
		} else {
			s.ops = append(s.ops, c18mOp{v: v, n: n})
		}
	}
	s.ops = append(s.ops, c18mOp{v: s.vps[0] * P, n: int(P)}) // read one whole page back at the end
	if s.holes {
		s.ops[len(s.ops)-1].n = 1
	}
	return s
}

// c18mPlace builds one placement + issuer assignment for a script; style names go to the distribution
func c18mPlace(rng *Rng, s *c18mScript) (*c18mCase, string) {
	P := uint64(1) << s.log2P
	nv := len(s.vps)
	n := rng.Range(1, 4)
	k := (nv+n-1)/n + rng.Intn(4) // frames per bank
	S := uint64(k) * P
	straddle := s.log2P >= 1 && rng.Chance(20)
	if straddle { // bank size not a multiple of the page size: pages may straddle two GPUs
		S += P / 2
		if (uint64(n)*S)/P < uint64(nv)+1 {
			S += P
		}
	}
	// frames entirely inside the GPU banks
	var frames []uint64
	for pp := (S + P - 1) / P; pp*P+P <= uint64(n+1)*S; pp++ {
		frames = append(frames, pp)
	}
	for len(frames) < nv { // cannot happen with the sizes above; keep the generator total
		n++
		frames = frames[:0]
		for pp := (S + P - 1) / P; pp*P+P <= uint64(n+1)*S; pp++ {
			frames = append(frames, pp)
		}
	}
	style := rng.Pick(0, 1, 1, 2, 3, 3)
	name := ""
	chosen := make([]uint64, 0, nv)
	switch style {
	case 0: // contiguous from a random start: all on one GPU when it fits
		name = "contiguous"
		st := rng.Intn(len(frames) - nv + 1)
		chosen = append(chosen, frames[st:st+nv]...)
	case 1: // round robin over the GPUs, next free frame of each (what Distribute does page by page)
		name = "roundrobin"
		per := make([][]uint64, n+1)
		for _, f := range frames {
			b := int(f * P / S)
			per[b] = append(per[b], f)
		}
		g := 1 + rng.Intn(n)
		for len(chosen) < nv {
			if len(per[g]) > 0 {
				chosen = append(chosen, per[g][0])
				per[g] = per[g][1:]
			}
			g = g%n + 1
		}
	case 2: // reversed: highest frames first
		name = "reversed"
		for i := 0; i < nv; i++ {
			chosen = append(chosen, frames[len(frames)-1-i])
		}
	default:
		name = "random"
		for _, i := range rng.Perm(len(frames))[:nv] {
			chosen = append(chosen, frames[i])
		}
	}
	if straddle {
		name += "+straddle"
	}
	// placements outside the theorem's hypotheses
	if rng.Chance(14) {
		j := rng.Intn(nv)
		switch rng.Pick(0, 1, 2) {
		case 0:
			name = "bad-hostbank"
			chosen[j] = uint64(rng.Intn(int((S + P - 1) / P)))
		case 1: // the analogue of the allocator's last page of the last GPU: first frame past the table
			name = "bad-beyond"
			chosen[j] = (uint64(n+1)*S)/P + uint64(rng.Intn(2))
		default:
			if nv >= 2 {
				name = "bad-alias"
				chosen[j] = chosen[(j+1)%nv]
			}
		}
	}
	c := &c18mCase{P: P, S: S, n: n}
	for i, vp := range s.vps {
		c.pt = append(c.pt, [2]uint64{vp, chosen[i]})
	}
	issuer := rng.Pick(0, 0, 1, 2)
	one := 1 + rng.Intn(n)
	for _, o := range s.ops {
		switch issuer {
		case 0:
			o.g = 1 + rng.Intn(n)
		case 1:
			o.g = one
		default: // the owner of the first byte, or deliberately another GPU
			o.g = one
			for i, vp := range s.vps {
				if o.v/P == vp {
					b := int(chosen[i] * P / S)
					if b >= 1 && b <= n {
						o.g = b
					}
				}
			}
			if rng.Chance(50) {
				o.g = o.g%n + 1
			}
		}
		c.ops = append(c.ops, o)
	}
	return c, name
}

func runC18DeepMem(r *Run, rng *Rng, replay string) {
	thorough := r.Tier == "thorough"
	for _, l := range c18mFixed {
		r.Count("mem.fixed")
		c18mRunLine(r, l)
	}
	scripts := 100
	if thorough {
		scripts = 1000
	}
	for i := 0; i < scripts; i++ {
		s := c18mGenScript(rng, thorough)
		if s.holes {
			r.Count("mem.script.holes")
		}
		var ref *c18mResult
		var refLine string
		for k := 0; k < 3; k++ {
			c, name := c18mPlace(rng, s)
			r.Count("mem.style." + name)
			line := c.line()
			res, good := c18mRunLine(r, line)
			if res == nil || !good {
				continue
			}
			if ref == nil {
				ref, refLine = res, line
				continue
			}
			// the same script under another placement and other issuing GPUs: same data
			r.Checked("mem.indep")
			if res.faultAt != ref.faultAt || !c18mSameLoads(res.loads, ref.loads) || string(res.image) != string(ref.image) {
				r.Failf("C18.mem.placement", line, "differs from the same script placed as %q: loads %x / %x, image %x / %x, fault at %d / %d",
					refLine, res.loads, ref.loads, res.image, ref.image, res.faultAt, ref.faultAt)
			}
		}
	}
}
