package main

import (
	"bytes"
	"fmt"
	"go/ast"
	"go/parser"
	"go/printer"
	"go/token"
	"os"
	"path/filepath"
	"regexp"
	"strings"
)

// Tie R of C12: a small go/ast extractor of the synchronisation skeleton of the
// functions the Lean protocol model transcribes. The canonical string of each
// function is compared with the string the model was written against
// (`C12.expectedSkeleton`), so an edit that changes a channel capacity, the
// select shape, lock order, loop/return structure, a flag assignment or the
// position of a yield point breaks the tie.

type c12SkelTarget struct {
	file string // relative to the repo root, or "akita:" + path inside the akita module
	recv string
	name string
}

var c12SkelTargets = []c12SkelTarget{
	{"amd/driver/commandqueue.go", "CommandQueue", "Subscribe"},
	{"amd/driver/commandqueue.go", "CommandQueue", "Unsubscribe"},
	{"amd/driver/commandqueue.go", "CommandQueue", "NotifyAllSubscribers"},
	{"amd/driver/commandqueue.go", "CommandQueue", "Enqueue"},
	{"amd/driver/commandqueue.go", "CommandQueue", "Dequeue"},
	{"amd/driver/commandqueue.go", "CommandQueue", "NumCommand"},
	{"amd/driver/commandqueue.go", "CommandQueueStatusListener", "Notify"},
	{"amd/driver/commandqueue.go", "CommandQueueStatusListener", "Wait"},
	{"amd/driver/commandqueue.go", "CommandQueueStatusListener", "Close"},
	{"amd/driver/commandqueue.go", "Driver", "Enqueue"},
	{"amd/driver/api.go", "Driver", "DrainCommandQueue"},
	{"amd/driver/driver.go", "Driver", "Run"},
	{"amd/driver/driver.go", "Driver", "runAsync"},
	{"amd/driver/driver.go", "Driver", "runEngine"},
	{"amd/driver/driver.go", "Driver", "processNewCommandFromCmdQueue"},
	{"amd/driver/driver.go", "Driver", "processNoopCommand"},
	{"amd/driver/builder.go", "Builder", "Build"},
	{"akita:sim/serialengine.go", "SerialEngine", "Run"},
	{"akita:sim/serialengine.go", "SerialEngine", "Pause"},
	{"akita:sim/serialengine.go", "SerialEngine", "Continue"},
	{"akita:sim/ticker.go", "TickingComponent", "Handle"},
}

func c12RepoRoot() string {
	if v := os.Getenv("VERIF_REPO"); v != "" {
		return v
	}
	return "/repo"
}

func c12AkitaDir() string {
	b, err := os.ReadFile(filepath.Join(c12RepoRoot(), "go.mod"))
	ver := "v4.9.0"
	if err == nil {
		if m := regexp.MustCompile(`github.com/sarchlab/akita/v4\s+(v[0-9A-Za-z.\-+]+)`).FindSubmatch(b); m != nil {
			ver = string(m[1])
		}
	}
	gp := os.Getenv("GOMODCACHE")
	if gp == "" {
		home, _ := os.UserHomeDir()
		gp = filepath.Join(home, "go", "pkg", "mod")
	}
	return filepath.Join(gp, "github.com", "sarchlab", "akita", "v4@"+ver)
}

var c12SkelCalls = map[string]bool{
	"Subscribe": true, "Unsubscribe": true, "Notify": true, "NotifyAllSubscribers": true,
	"Wait": true, "Close": true, "NumCommand": true, "Pause": true, "TickLater": true,
	"Continue": true, "Run": true, "Enqueue": true, "Dequeue": true, "Peek": true,
	"noMoreEvent": true, "nextEvent": true, "Handle": true, "Tick": true, "processOneCommand": true,
}

var c12SkelFlags = map[string]bool{
	"engineRunning": true, "enginePending": true, "IsRunning": true, "isPaused": true,
}

type c12Skel struct {
	fset *token.FileSet
	out  []string
}

func (k *c12Skel) emit(s string) { k.out = append(k.out, s) }

func lastName(e ast.Expr) string {
	switch x := e.(type) {
	case *ast.Ident:
		return x.Name
	case *ast.SelectorExpr:
		return x.Sel.Name
	case *ast.ParenExpr:
		return lastName(x.X)
	case *ast.StarExpr:
		return lastName(x.X)
	}
	return "?"
}

func (k *c12Skel) src(n ast.Node) string {
	var b bytes.Buffer
	printer.Fprint(&b, k.fset, n)
	return strings.Join(strings.Fields(b.String()), "")
}

// makeCap returns (true, capacity text) when e is `make(chan T[, n])`.
func (k *c12Skel) makeCap(e ast.Expr) (bool, string) {
	c, ok := e.(*ast.CallExpr)
	if !ok {
		return false, ""
	}
	id, ok := c.Fun.(*ast.Ident)
	if !ok || id.Name != "make" || len(c.Args) == 0 {
		return false, ""
	}
	if _, ok := c.Args[0].(*ast.ChanType); !ok {
		return false, ""
	}
	if len(c.Args) == 1 {
		return true, "0"
	}
	return true, k.src(c.Args[1])
}

// expr emits the sync-relevant operations inside an expression, in evaluation order.
func (k *c12Skel) expr(e ast.Expr) {
	if e == nil {
		return
	}
	ast.Inspect(e, func(n ast.Node) bool {
		switch x := n.(type) {
		case *ast.FuncLit:
			return false
		case *ast.UnaryExpr:
			if x.Op == token.ARROW {
				k.emit("recv(" + lastName(x.X) + ")")
			}
		case *ast.KeyValueExpr:
			if ok, c := k.makeCap(x.Value); ok {
				k.emit("make(" + lastName(x.Key) + "," + c + ")")
				return false
			}
		case *ast.CallExpr:
			k.call(x, "")
			for _, a := range x.Args {
				k.expr(a)
			}
			return false
		}
		return true
	})
}

func (k *c12Skel) call(c *ast.CallExpr, prefix string) {
	switch f := c.Fun.(type) {
	case *ast.Ident:
		switch f.Name {
		case "verifYield":
			if len(c.Args) == 1 {
				k.emit(prefix + "yield(" + strings.Trim(k.src(c.Args[0]), `"`) + ")")
			}
		case "close":
			k.emit(prefix + "close(" + lastName(c.Args[0]) + ")")
		case "panic":
			k.emit(prefix + "panic")
		}
	case *ast.SelectorExpr:
		n := f.Sel.Name
		switch n {
		case "Lock", "RLock":
			k.emit(prefix + "lock(" + lastName(f.X) + ")")
		case "Unlock", "RUnlock":
			k.emit(prefix + "unlock(" + lastName(f.X) + ")")
		case "Panic", "Panicf":
			k.emit(prefix + "panic")
		default:
			if c12SkelCalls[n] {
				k.expr(f.X)
				k.emit(prefix + "call(" + n + ")")
			}
		}
	}
}

func (k *c12Skel) block(b *ast.BlockStmt) {
	if b == nil {
		return
	}
	for _, s := range b.List {
		k.stmt(s)
	}
}

func (k *c12Skel) stmt(s ast.Stmt) {
	switch x := s.(type) {
	case *ast.ExprStmt:
		k.expr(x.X)
	case *ast.SendStmt:
		k.emit("send(" + lastName(x.Chan) + ")")
	case *ast.AssignStmt:
		for i, r := range x.Rhs {
			if ok, c := k.makeCap(r); ok && i < len(x.Lhs) {
				k.emit("make(" + lastName(x.Lhs[i]) + "," + c + ")")
				continue
			}
			k.expr(r)
		}
		for i, l := range x.Lhs {
			if c12SkelFlags[lastName(l)] && i < len(x.Rhs) {
				k.emit("set(" + lastName(l) + "=" + k.src(x.Rhs[i]) + ")")
			}
		}
	case *ast.GoStmt:
		k.emit("go(" + lastName(x.Call.Fun) + ")")
	case *ast.DeferStmt:
		if _, ok := x.Call.Fun.(*ast.FuncLit); ok {
			k.emit("defer-func")
		} else {
			k.call(x.Call, "defer-")
		}
	case *ast.ReturnStmt:
		for _, r := range x.Results {
			k.expr(r)
		}
		k.emit("return")
	case *ast.BranchStmt:
		k.emit(strings.ToLower(x.Tok.String()))
	case *ast.BlockStmt:
		k.block(x)
	case *ast.IfStmt:
		if x.Init != nil {
			k.stmt(x.Init)
		}
		sub := &c12Skel{fset: k.fset}
		sub.expr(x.Cond)
		sub.block(x.Body)
		var els *c12Skel
		if x.Else != nil {
			els = &c12Skel{fset: k.fset}
			els.stmt(x.Else)
		}
		if len(sub.out) > 0 || (els != nil && len(els.out) > 0) {
			k.emit("if(" + k.src(x.Cond) + "){")
			k.out = append(k.out, sub.out...)
			if els != nil && len(els.out) > 0 {
				k.emit("}else{")
				k.out = append(k.out, els.out...)
			}
			k.emit("}")
		}
	case *ast.ForStmt:
		k.emit("for{")
		k.block(x.Body)
		k.emit("}")
	case *ast.RangeStmt:
		k.emit("for{")
		k.block(x.Body)
		k.emit("}")
	case *ast.SelectStmt:
		k.emit("select{")
		for i, c := range x.Body.List {
			cc := c.(*ast.CommClause)
			if i > 0 {
				k.emit("|")
			}
			if cc.Comm == nil {
				k.emit("default")
			} else {
				k.stmt(cc.Comm)
			}
			for _, b := range cc.Body {
				k.stmt(b)
			}
		}
		k.emit("}")
	case *ast.SwitchStmt:
		k.block(x.Body)
	case *ast.TypeSwitchStmt:
		k.block(x.Body)
	case *ast.CaseClause:
		for _, b := range x.Body {
			k.stmt(b)
		}
	case *ast.DeclStmt, *ast.IncDecStmt, *ast.EmptyStmt, *ast.LabeledStmt:
	}
}

func c12Skeleton(t c12SkelTarget) string {
	path := filepath.Join(c12RepoRoot(), t.file)
	if strings.HasPrefix(t.file, "akita:") {
		path = filepath.Join(c12AkitaDir(), strings.TrimPrefix(t.file, "akita:"))
	}
	fset := token.NewFileSet()
	f, err := parser.ParseFile(fset, path, nil, 0)
	if err != nil {
		return "parse-error"
	}
	for _, d := range f.Decls {
		fd, ok := d.(*ast.FuncDecl)
		if !ok || fd.Name.Name != t.name || fd.Recv == nil || len(fd.Recv.List) != 1 {
			continue
		}
		if lastName(fd.Recv.List[0].Type) != t.recv {
			continue
		}
		k := &c12Skel{fset: fset}
		k.block(fd.Body)
		if len(k.out) == 0 {
			return "(nothing)"
		}
		return strings.Join(k.out, " ")
	}
	return "missing-function"
}

func c12SkeletonCases(r *Run) {
	for _, t := range c12SkelTargets {
		line := fmt.Sprintf("c12 skeleton %s.%s", t.recv, t.name)
		r.Case(line, c12Skeleton(t))
		r.Count("skeleton")
	}
}
