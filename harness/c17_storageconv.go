package main

import (
	"fmt"

	"github.com/sarchlab/akita/v4/mem/mem"
	"github.com/sarchlab/akita/v4/sim"
	"github.com/sarchlab/mgpusim/v4/amd/timing/mem/simplebankedmemory"
)

// The memory model behind a STORAGE address converter (`WithAddressConverter`: the component is one
// module of an address space interleaved over several modules; external addresses are translated
// before the storage is touched). The statement of the property does not change: a read returns,
// for each byte, the most recent earlier write to that (external) address, masked writes change only
// their enabled bytes. One request at a time (issue, tick until answered), so that only the
// address handling is under test: reads, plain writes and masked writes must all use the SAME
// translated address. Oracle only (the Lean model has the identity converter).
func c17StorageConvScenario(r *Run, rng *Rng) {
	ilv := uint64(rng.Pick(64, 256, 4096))
	n := rng.Range(2, 4)
	idx := rng.Intn(n)
	off := uint64(rng.Pick(0, 0, 0x10000))
	conv := mem.InterleavingConverter{InterleavingSize: ilv, TotalNumOfElements: n, CurrentElementIndex: idx, Offset: off}
	comp := simplebankedmemory.MakeBuilder().WithEngine(&fakeEngine{}).WithNumBanks(rng.Pick(1, 2, 4)).
		WithLog2InterleaveSize(6).WithNewStorage(1 << 22).WithAddressConverter(conv).Build("DRAM")
	port := comp.GetPortByName("Top")
	port.SetConnection(&fakeConn{name: "conn"})
	src := sim.RemotePort("Requester")
	flat := map[uint64]byte{}
	desc := fmt.Sprintf("storage converter ilv=%d modules=%d this=%d offset=%x", ilv, n, idx, off)
	// external addresses of this module: round k, byte j of the stripe
	ext := func() uint64 {
		k := uint64(rng.Intn(40))
		j := uint64(rng.Intn(int(ilv/4))) * 4
		return off + k*ilv*uint64(n) + uint64(idx)*ilv + j
	}
	ask := func(m sim.Msg) sim.Msg {
		for i := 0; i < 50 && port.Deliver(m) != nil; i++ {
			comp.Tick()
		}
		for i := 0; i < 400; i++ {
			comp.Tick()
			if rsp := port.RetrieveOutgoing(); rsp != nil {
				return rsp
			}
		}
		return nil
	}
	steps := rng.Range(6, 24)
	var hist []string
	for s := 0; s < steps; s++ {
		a := ext()
		l := rng.Pick(4, 4, 8, 16)
		if a%ilv+uint64(l) > ilv {
			l = 4
		}
		switch rng.Intn(3) {
		case 0, 1:
			data := rng.Bytes(l)
			b := mem.WriteReqBuilder{}.WithSrc(src).WithDst(port.AsRemote()).WithAddress(a).WithData(data)
			var mask []bool
			if rng.Bool() {
				mask = make([]bool, l)
				for i := range mask {
					mask[i] = rng.Chance(60)
				}
				b = b.WithDirtyMask(mask)
			}
			hist = append(hist, fmt.Sprintf("w %x %x %v", a, data, mask != nil))
			var rsp sim.Msg
			if f := catch(func() { rsp = ask(b.Build()) }); f != "" || rsp == nil {
				r.Failf("C17.conv.no-response", desc+" ; "+fmt.Sprint(hist), "write not answered (%s)", f)
				return
			}
			for i := 0; i < l; i++ {
				if mask == nil || mask[i] {
					flat[a+uint64(i)] = data[i]
				}
			}
		default:
			hist = append(hist, fmt.Sprintf("r %x %d", a, l))
			var rsp sim.Msg
			q := mem.ReadReqBuilder{}.WithSrc(src).WithDst(port.AsRemote()).WithAddress(a).WithByteSize(uint64(l)).Build()
			if f := catch(func() { rsp = ask(q) }); f != "" || rsp == nil {
				r.Failf("C17.conv.no-response", desc+" ; "+fmt.Sprint(hist), "read not answered (%s)", f)
				return
			}
			dr, ok := rsp.(*mem.DataReadyRsp)
			r.Checked("conv.read")
			if !ok || len(dr.Data) != l {
				r.Failf("C17.conv.read-shape", desc+" ; "+fmt.Sprint(hist), "read of %d bytes answered with %T", l, rsp)
				return
			}
			for i := 0; i < l; i++ {
				if dr.Data[i] != flat[a+uint64(i)] {
					r.Failf("C17.conv.read-value", desc+" ; "+fmt.Sprint(hist), "byte %d of the read at %x is %02x, the most recent write to that address stored %02x", i, a, dr.Data[i], flat[a+uint64(i)])
					return
				}
			}
		}
	}
	// final sweep: every address ever written reads back its last value
	for a, v := range flat {
		q := mem.ReadReqBuilder{}.WithSrc(src).WithDst(port.AsRemote()).WithAddress(a &^ 3).WithByteSize(4).Build()
		var rsp sim.Msg
		if f := catch(func() { rsp = ask(q) }); f != "" || rsp == nil {
			break
		}
		if dr, ok := rsp.(*mem.DataReadyRsp); ok && dr.Data[a&3] != v {
			r.Failf("C17.conv.read-value", desc+" ; "+fmt.Sprint(hist), "final read of %x gives %02x, last write stored %02x", a, dr.Data[a&3], v)
			return
		}
	}
	r.Count("conv.scenario")
}

func init() {
	register("C17", func(r *Run, rng *Rng, _ string) {
		n := 60
		if r.Tier == "thorough" {
			n = 1500
		}
		for i := 0; i < n; i++ {
			c17StorageConvScenario(r, rng)
		}
	})
}
