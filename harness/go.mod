module verifharness

go 1.25

require (
	github.com/sarchlab/akita/v4 v4.9.0
	github.com/sarchlab/mgpusim/v4 v4.0.0
	github.com/sirupsen/logrus v1.9.3
)

require (
	github.com/google/pprof v0.0.0-20250820193118-f64d9cf942d6 // indirect
	github.com/gorilla/mux v1.8.1 // indirect
	github.com/mattn/go-sqlite3 v1.14.32 // indirect
	github.com/rs/xid v1.6.0 // indirect
	github.com/shirou/gopsutil v3.21.11+incompatible // indirect
	github.com/syifan/goseth v0.1.2 // indirect
	github.com/tebeka/atexit v0.3.0 // indirect
	github.com/tklauser/go-sysconf v0.3.15 // indirect
	github.com/tklauser/numcpus v0.10.0 // indirect
	go.uber.org/mock v0.6.0 // indirect
	golang.org/x/sys v0.35.0 // indirect
	gonum.org/v1/gonum v0.15.1 // indirect
)

replace github.com/sarchlab/mgpusim/v4 => /repo
