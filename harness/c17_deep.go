//go:build verif

package main

// C17 (deepening) — the parts of simplebankedmemory the main runner leaves out:
//
//  1. the BankAddressConverter (the shipped MI300A platform installs a mem.InterleavingConverter; it is used ONLY
//     to pick bank and row in dispatchPending).  Scenario lines carry four more keys
//       c17 banks=… top=… bisz=128 bn=16 bidx=3 boff=0 ; w 180 01020304 - ; t ; …
//     An address the converter rejects makes dispatchPending panic; the scenario ends at that tick (`fault:conv`).
//  2. the converter function alone:  c17 conv bisz=… bn=… bidx=… boff=… ; <addr hex> ; …  ->  internal address | panic
//  3. the kernel-checked straddling witness of Props/C17Pay.lean (read_payload_full_refuted) on the real component.

import (
	"fmt"
	"io"
	"log"
	"strings"

	"github.com/sarchlab/akita/v4/mem/mem"
	"github.com/sarchlab/mgpusim/v4/amd/timing/mem/simplebankedmemory"
)

func init() { register("C17", runC17Deep) }

type c17Conv struct{ isz, n, idx, off uint64 }

func (v c17Conv) String() string {
	return fmt.Sprintf("bisz=%d bn=%d bidx=%d boff=%d", v.isz, v.n, v.idx, v.off)
}

func (v c17Conv) real() *mem.InterleavingConverter {
	return &mem.InterleavingConverter{InterleavingSize: v.isz, TotalNumOfElements: int(v.n),
		CurrentElementIndex: int(v.idx), Offset: v.off}
}

func newC17DeepEnv(c c17Cfg, v *c17Conv, capacity uint64) *c17Env {
	eng := &fakeEngine{}
	b := simplebankedmemory.MakeBuilder().
		WithEngine(eng).
		WithNumBanks(c.banks).
		WithLog2InterleaveSize(uint64(c.ilv)).
		WithBankPipelineWidth(c.w).
		WithBankPipelineDepth(c.d).
		WithStageLatency(c.lat).
		WithRowBufferSizeLog2(uint64(c.row)).
		WithRowMissDelay(c.miss).
		WithPostPipelineBufferSize(c.post).
		WithTopPortBufferSize(c.top).
		WithNewStorage(capacity)
	if v != nil {
		b = b.WithBankAddressConverter(v.real())
	}
	comp := b.Build("DRAM")
	port := comp.GetPortByName("Top")
	port.SetConnection(&fakeConn{name: "conn"})
	return &c17Env{cfg: c, comp: comp, port: port, idx: map[string]int{}, flat: map[uint64]byte{}}
}

// one scenario with a bank address converter (v may be nil) and a storage capacity; convOk = the converter keeps
// interleave blocks together and no request straddles (the order oracle applies), otherwise correspondence only.
// A panic of the converter or of the storage ends the scenario at that op.
func runC17DeepScenario(r *Run, cfg c17Cfg, v *c17Conv, capacity uint64, ops []string, convOk bool) {
	e := newC17DeepEnv(cfg, v, capacity)
	if !convOk {
		e.strad = true
	}
	tick := func(o string) (progress bool, kind string) {
		f := catch(func() { progress = e.comp.Tick() })
		switch {
		case f == "":
			return progress, ""
		case f == "bounds":
			kind = "bounds"
		case strings.Contains(f, "does_not_belong") || strings.Contains(f, "smaller_than_offset") ||
			strings.Contains(f, "divide"):
			kind = "conv"
		case strings.Contains(f, "beyond_the_st"):
			kind = "cap"
		default:
			kind = f
			r.Failf("C17.fault."+f, o, "unexpected panic class %s", f)
		}
		e.fault = true
		return false, kind
	}
	done := []string{}
	dead := ""
	for _, o := range ops {
		toks := strings.Fields(o)
		if len(toks) == 0 {
			continue
		}
		done = append(done, o)
		switch toks[0] {
		case "t":
			p, k := tick(o)
			switch {
			case k != "":
				e.out = append(e.out, "fault:"+k)
				if k != "bounds" {
					dead = k
				}
			case p:
				e.out = append(e.out, "t1")
			default:
				e.out = append(e.out, "t0")
			}
		case "q":
			n := 0
			all := []string{}
			fl := false
			for n < 2000 {
				p, k := tick(o)
				n++
				if k != "" {
					fl = true
					if k != "bounds" {
						dead = k
					}
					break
				}
				d := e.drain(-1)
				all = append(all, d...)
				if !p && len(d) == 0 {
					break
				}
			}
			q := fmt.Sprintf("q%d[%s]", n, strings.Join(all, ","))
			if fl {
				q += "!"
			}
			e.out = append(e.out, q)
		default:
			e.op(toks)
		}
		if dead != "" {
			break
		}
	}
	line := cfg.String()
	if v != nil {
		line += " " + v.String()
	}
	line += fmt.Sprintf(" cap=%d ; ", capacity) + strings.Join(done, " ; ")
	e.caseLn = line
	img := []byte{}
	storageOK := true
	for _, q := range e.reqs {
		lo, hi := e.dumpRange(q)
		d, err := e.comp.Storage.Read(lo, hi-lo)
		if err != nil {
			storageOK = false
			break
		}
		img = append(img, d...)
		if !e.fault && !e.strad && !e.malf && endsQuiet(done) {
			for i, b := range d {
				if e.flat[lo+uint64(i)] != b {
					e.failf("C17.storage.conv", "final storage differs from flat memory at 0x%x: storage %02x, flat %02x",
						lo+uint64(i), b, e.flat[lo+uint64(i)])
					break
				}
			}
		}
	}
	if storageOK {
		e.out = append(e.out, fmt.Sprintf("S=%x", fnv(img)))
	} else {
		e.out = append(e.out, "S=err")
		r.Count("deep:dump-beyond-capacity")
	}
	if !e.fault && endsQuiet(done) {
		for i, q := range e.reqs {
			if q.nrsp == 0 {
				e.failf("C17.response.missing", "request #%d never answered although the component went quiet", i)
			}
		}
	}
	r.Case(line, strings.Join(e.out, " "))
	r.Checked("deep-scenario")
	if dead != "" {
		r.Count("deep:panic-" + dead)
	}
	if !convOk {
		r.Count("deep:blocks-split-or-straddled(order-oracle skipped)")
	}
	r.CountN("deep:reqs", len(e.reqs))
	for _, f := range e.fails {
		sig := f.Sig
		if strings.HasPrefix(sig, "C17.order") {
			sig = "C17.order.conv"
		}
		r.Failf(sig, line, "%s", f.Detail)
	}
}

func genC17Conv(rng *Rng, c c17Cfg) (c17Conv, bool) {
	blk := uint64(1) << uint(c.ilv)
	v := c17Conv{n: uint64(rng.Pick(1, 2, 4, 16, rng.Range(1, 16)))}
	ok := true
	if rng.Chance(85) {
		v.isz = blk * uint64(rng.Pick(1, 1, 2, 2, 4, 64))
		if rng.Chance(30) {
			v.off = blk * uint64(rng.Pick(1, 3, 64, 4096))
		}
	} else { // converter chunks smaller than / not aligned with the interleave block
		v.isz = uint64(rng.Pick(int(blk/2), int(blk/4*3), int(blk)+32))
		if rng.Bool() {
			v.off = uint64(rng.Pick(0, 16, int(blk/2)))
		}
		ok = false
	}
	v.idx = uint64(rng.Intn(int(v.n)))
	return v, ok
}

// external addresses that belong to element v.idx; w = offset inside the converter chunk
func (v c17Conv) ext(j, w uint64) uint64 { return v.off + (j*v.n+v.idx)*v.isz + w }

func genC17DeepOps(rng *Rng, c c17Cfg, v c17Conv, nreq int, bad bool, cross bool) ([]string, []uint64) {
	used := []uint64{}
	blk := uint64(1) << uint(c.ilv)
	dj := uint64(c.banks)
	if c.row > 0 {
		dj = uint64(c.banks) << uint(c.row)
	}
	hot := []uint64{}
	j0 := uint64(rng.Intn(8))
	for i := 0; i < 2+rng.Intn(3); i++ {
		j := j0
		w := uint64(0)
		switch rng.Intn(4) {
		case 0:
			j += uint64(rng.Intn(2)) * uint64(c.banks)
		case 1:
			j += uint64(1+rng.Intn(3)) * dj
		case 2:
			j += uint64(rng.Intn(c.banks))
			if v.isz > blk {
				w = blk * uint64(rng.Intn(int(v.isz/blk)))
			}
		}
		hot = append(hot, v.ext(j, w))
	}
	ops := []string{}
	pressure := rng.Pick(0, 0, 30, 60, 90)
	badAt := -1
	if bad {
		badAt = rng.Intn(nreq)
	}
	for i := 0; i < nreq; {
		for k := 0; k < 1+rng.Intn(3) && i < nreq; k++ {
			a := hot[rng.Intn(len(hot))]
			size := rng.Pick(4, 4, 8, 16, 64, rng.Range(1, 64))
			lim := blk
			if v.isz < lim && v.isz > 0 {
				lim = v.isz
			}
			if uint64(size) > lim {
				size = int(lim)
			}
			if rng.Chance(30) {
				a += uint64(rng.Intn(int(lim)-size+1)) &^ 3
				if a%lim+uint64(size) > lim {
					a -= a % lim
				}
			}
			if i == badAt {
				switch {
				case v.n > 1: // an address of the neighbouring element
					a = v.off + ((uint64(rng.Intn(4))*v.n+(v.idx+1)%v.n)*v.isz)
				case v.off > 0:
					a = uint64(rng.Intn(int(v.off)))
				default:
					badAt = -2 // a single element without offset owns every address
				}
			}
			if cross && rng.Chance(30) { // crosses a 4 KiB storage unit (and an interleave block)
				a = (a/4096+1)*4096 - uint64(rng.Range(1, size))
				if size < 2 {
					size = 2
				}
			}
			used = append(used, a)
			if rng.Chance(55) {
				mask := "-"
				if rng.Chance(35) {
					mb := make([]byte, size)
					for k := range mb {
						mb[k] = '0' + byte(rng.Intn(2))
					}
					mask = string(mb)
				}
				ops = append(ops, fmt.Sprintf("w %x %s %s", a, hexb(rng.Bytes(size)), mask))
			} else {
				ops = append(ops, fmt.Sprintf("r %x %d", a, size))
			}
			i++
		}
		for k := 0; k < rng.Pick(1, 1, 2, 3, 6); k++ {
			ops = append(ops, "t")
			if !rng.Chance(pressure) {
				ops = append(ops, fmt.Sprintf("o %d", rng.Pick(1, 2, 8)))
			}
		}
	}
	if bad { // explicit ticks only: the scenario ends at the panic (if one occurs)
		for k := 0; k < 6; k++ {
			ops = append(ops, "t")
		}
		return ops, used
	}
	return append(ops, "q"), used
}

func maxI64(a, b int64) int64 {
	if a > b {
		return a
	}
	return b
}

func runC17ConvLine(r *Run, rng *Rng) {
	v := c17Conv{
		isz: uint64(rng.Pick(0, 1, 64, 128, 128, 256, 4096, rng.Range(1, 300))),
		n:   uint64(rng.Pick(0, 1, 2, 16, 16, rng.Range(1, 20))),
		off: uint64(rng.Pick(0, 0, 64, 4096, rng.Range(0, 5000))),
	}
	v.idx = uint64(rng.Intn(int(v.n) + 1))
	if v.n > 0 && rng.Chance(80) {
		v.idx = uint64(rng.Intn(int(v.n)))
	}
	addrs := []string{}
	outs := []string{}
	for i := 0; i < 8; i++ {
		var a uint64
		switch rng.Intn(6) {
		case 0:
			a = uint64(rng.Intn(8192))
		case 1, 4, 5:
			a = v.ext(uint64(rng.Intn(1000)), uint64(rng.Intn(int(v.isz)+1)))
		case 2:
			a = v.off + uint64(rng.Intn(1<<20))
		default:
			a = rng.U64() % (1 << 40)
		}
		var x uint64
		f := catch(func() { x = v.real().ConvertExternalToInternal(a) })
		addrs = append(addrs, fmt.Sprintf("%x", a))
		if f != "" {
			outs = append(outs, "panic")
			r.Count("conv:panic")
		} else {
			outs = append(outs, fmt.Sprintf("%x", x))
			r.Count("conv:ok")
		}
	}
	r.Case("c17 conv "+v.String()+" ; "+strings.Join(addrs, " ; "), strings.Join(outs, " "))
	r.Checked("conv-line")
}

func runC17Deep(r *Run, rng *Rng, replay string) {
	prev := log.Writer()
	log.SetOutput(io.Discard) // log.Panic of the converter prints before it panics
	defer log.SetOutput(prev)

	// the shipped MI300A DRAM[3]: write then read of the same line, with the platform's converter
	mi300a := c17Cfg{banks: 16, ilv: 6, w: 1, d: 5, lat: 1, row: 11, miss: 52, post: 128, top: 1024}
	gb4 := uint64(4) << 30
	runC17DeepScenario(r, mi300a, &c17Conv{128, 16, 3, 0}, gb4, []string{"w 180 01020304 -", "t", "t", "r 180 4", "q"}, true)
	// an address of DRAM[4] delivered to DRAM[3]: dispatchPending panics
	runC17DeepScenario(r, mi300a, &c17Conv{128, 16, 3, 0}, gb4, []string{"w 180 01020304 -", "t", "r 200 4", "t", "t", "t"}, true)
	// capacity: a chunk may start AT the capacity but not above it; only chunk starts are checked
	small := c17Cfg{banks: 2, ilv: 6, w: 1, d: 1, lat: 1, row: 0, miss: 0, post: 1, top: 4}
	runC17DeepScenario(r, small, nil, 8192, []string{"w 2000 aabb -", "r 1ffe 8", "q"}, false)
	runC17DeepScenario(r, small, nil, 8192, []string{"w 2001 aabb -", "q"}, true)
	runC17DeepScenario(r, small, nil, 8190, []string{"w 1ffe 0102030405060708 -", "t", "t", "t", "t", "t"}, false)

	// Props/C17Pay.lean read_payload_full_refuted: a write straddling an interleave block, then a read of the
	// straddled byte through the other bank (no converter): the read is answered with 00, flat memory has cc
	strad := c17Cfg{banks: 2, ilv: 6, w: 1, d: 1, lat: 1, row: 0, miss: 0, post: 1, top: 4}
	stradOps := []string{"w 0 11 -", "w 3e aabbccdd -", "r 40 1", "t", "t", "t", "t", "o 4", "t", "t", "o 4"}
	runC17Scenario(r, strad, stradOps, false)
	{
		e := newC17Env(strad)
		for _, o := range stradOps {
			e.op(strings.Fields(o))
		}
		got := strings.Join(e.out, " ")
		if strings.Contains(got, "d2:00") {
			r.Count("deep:straddling-witness-reproduced(read of 0x40 answered 00, earlier write stored cc)")
		} else {
			r.Count("deep:straddling-witness-NOT-reproduced")
			r.Note("straddling witness of read_payload_full_refuted no longer reproduces on the real component: %s", got)
		}
	}

	// Props/C17Live.lean liveness_drained_full_refuted: bank-index priority of finalizeBanks starves bank 1 while a
	// backlogged stream to bank 0 fills the one-entry outgoing buffer in every tick (every response retrieved at once)
	{
		starve := c17Cfg{banks: 2, ilv: 6, w: 1, d: 1, lat: 1, row: 8, miss: 5, post: 1, top: 1}
		ops := []string{}
		round := func(i int) { ops = append(ops, fmt.Sprintf("w 0 %02x -", i), "t", "o 1") }
		for i := 0; i < 6; i++ {
			round(i)
		}
		ops = append(ops, "r 40 1", "t", "o 1")
		for i := 0; i < 60; i++ {
			round(i)
		}
		runC17Scenario(r, starve, ops, false)
		e := newC17Env(starve)
		for _, o := range ops {
			e.op(strings.Fields(o))
		}
		got := strings.Join(e.out, " ")
		if !strings.Contains(got, "d6:") && strings.Contains(got, "w59") {
			r.Count("deep:bank-priority-starvation-reproduced(request 6 unanswered after 60 drained ticks, 7..59 answered)")
		} else {
			r.Count("deep:bank-priority-starvation-NOT-reproduced")
			r.Note("starvation witness of liveness_drained_full_refuted no longer reproduces on the real component")
		}
	}

	n, nc := 250, 150
	if r.Tier == "thorough" {
		n, nc = 6000, 3000
	}
	for i := 0; i < n; i++ {
		cfg := genC17Cfg(rng)
		// every pipeline width (the lane-order defect of width > 1 is repaired: finalizeSingle works in entry order)
		v, ok := genC17Conv(rng, cfg)
		bad := i%10 == 4 || !ok // a converter that splits blocks may reject an address by accident
		cross := i%10 == 7
		ops, used := genC17DeepOps(rng, cfg, v, rng.Pick(2, 4, 8, 12, 20), bad, cross)
		capacity := gb4
		if (i%10 == 7 || i%10 == 2) && len(used) > 0 { // capacity at / just around an address in use
			a := int64(used[rng.Intn(len(used))])
			capacity = uint64(maxI64(0, a+int64(rng.Pick(-4097, -4096, -64, -1, 0, 0, 1, 3, 63, 4095, 4096, 8192))))
		}
		vp := &v
		if i%10 == 9 {
			vp = nil
		}
		runC17DeepScenario(r, cfg, vp, capacity, ops, ok && !cross)
	}
	for i := 0; i < nc; i++ {
		runC17ConvLine(r, rng)
	}
}
