package main

// C02 (transaction path) — the vector memory unit of the REAL timing compute unit between the
// coalescer and the ToVectorMem port, transaction by transaction, tied to the Lean tick machine
// `C02.Txn.tick` (lean/MgpuModel/C02Txn.lean).
//
//	c02 txn w=<width> s=<stages> b=<post buffer> n=<transactions> ev=<tick>,<tick>,…
//	  <tick> = <p>[:<cnt>x<pen>[+<cnt>x<pen>…]][*<repeat>]
//	     p    free slots of the port's outgoing buffer when the tick starts (the back-pressure the
//	          harness applies by NOT retrieving requests from ToVectorMem)
//	     cnt x pen   transactions the coalescer appended in that tick, with their coalescing penalty
//	  answer: `ord=<departure order as issue indices> left=<not yet departed> tr=<post fill>/<waiting>/<set aside> per tick`
//
// A real cu.ComputeUnit (its Builder, WithVecMemTransPipelineWidth / Stages, WithMemPipelineBufferSize)
// runs one wavefront with a few FLAT instructions whose lanes touch many cache lines; it is ticked by
// hand, the harness plays the instruction memory and — in ARRIVAL order, like a reorder buffer in front
// of a memory — the vector memory. The order of `Send` on ToVectorMem is taken by a port hook, the
// issue order is the order in which the transactions appear in cu.InFlightVectorMemAccess.
//
// Oracles on the real component (emulator = real decoder + real emu.ALU on the same program):
//	C02.vmem-transaction-order   the requests leave the unit in an order different from the issue order
//	C02.vmem-store-order         final memory differs from the emulator: two stores to one line reached
//	                             the memory in reversed order
//	C02.vmem-counter-early       OutstandingVectorMemAccess is smaller than the number of instructions
//	                             that still have an unanswered transaction (s_waitcnt releases early)
// (with the suffix `-width1` for pipeline width 1). They fired for width > 1 until the unit was repaired (fix
// b81645f1: entry order recorded, oldest sent first, a younger head of the post-pipeline buffer set aside); since then
// they must never fire for any width. C02.txn-regression-witness / -scenario-weak: the hand-made back-pressure witnesses
// must still exercise the set-aside path and leave in order.

import (
	"encoding/binary"
	"fmt"
	"os"
	"strconv"
	"strings"

	"github.com/sarchlab/akita/v4/mem/mem"
	"github.com/sarchlab/akita/v4/sim"
	"github.com/sarchlab/mgpusim/v4/amd/emu"
	"github.com/sarchlab/mgpusim/v4/amd/insts"
	"github.com/sarchlab/mgpusim/v4/amd/kernels"
	"github.com/sarchlab/mgpusim/v4/amd/protocol"
	"github.com/sarchlab/mgpusim/v4/amd/timing/cu"
	"github.com/sarchlab/mgpusim/v4/amd/timing/wavefront"
)

func init() {
	register("C02", runC02Txn)
	childFuncs["c02txn"] = c02xChild
}

const (
	c02xWin      = 0x200000 // stores go to [.., ..+0x1000): 64 lines
	c02xLdWin    = 0x202000 // loads come from [.., ..+0x1000): never stored
	c02xPortCap  = 64       // sim.NewPort(cu, 64, 64, "ToVectorMem")
	c02xMaxTicks = 4000
)

// register image: three address pairs, three data registers, one load destination
func c02xInitV(seed uint64, v, l int) uint32 {
	switch v {
	case 0:
		return uint32(c02xWin + 64*l) // pair (0,1): line l
	case 2:
		return uint32(c02xWin + 64*(63-l)) // pair (2,3): line 63-l
	case 4:
		return uint32(c02xLdWin + 64*l) // pair (4,5): load window
	case 1, 3, 5:
		return 0
	}
	return c02dRegInit(seed, uint64(1000+64*v+l))
}

type c02xPhase struct{ dur, take int }

type c02xScn struct {
	w, s, b, pen int
	cs           *c02dCase
	bp           []c02xPhase // back-pressure: retrieve `take` requests per tick for `dur` ticks; afterwards everything
	memRate      int         // responses handed back per tick (arrival order)
	memLag       int         // ticks between retrieval and the earliest answer
	kind         string
}

func (sc *c02xScn) bpText() string {
	var o []string
	for _, p := range sc.bp {
		o = append(o, fmt.Sprintf("%dx%d", p.dur, p.take))
	}
	return strings.Join(o, ",")
}

func (sc *c02xScn) text() string {
	return fmt.Sprintf("w=%d s=%d b=%d pen=%d exec=%x seed=%d prog=%s bp=%s rate=%d lag=%d", sc.w, sc.s, sc.b, sc.pen,
		sc.cs.exec, sc.cs.seed, sc.cs.progText(), sc.bpText(), sc.memRate, sc.memLag)
}

// ---- emulator side -------------------------------------------------------------------------------

type c02xRegs struct {
	s    [16]uint32
	exec uint64
	v    [10][64]uint32
}

func c02xRunEmu(cs *c02dCase, dis *insts.Disassembler) (*c02xRegs, *c02dMem, string) {
	m := &c02dMem{seed: cs.seed, over: map[uint64]byte{}}
	wf := emu.NewWavefront(nil)
	wf.VerifSetPID(1)
	alu := emu.NewALU(m)
	alu.SetLDS(make([]byte, 1024))
	for i := 0; i < 16; i++ {
		binary.LittleEndian.PutUint32(wf.SRegFile[i*4:], c02dInitS(cs.seed, i))
	}
	for v := 0; v < 10; v++ {
		for l := 0; l < 64; l++ {
			binary.LittleEndian.PutUint32(wf.VRegFile[l*1024+v*4:], c02xInitV(cs.seed, v, l))
		}
	}
	wf.SetSCC(0)
	wf.SetVCC(0)
	wf.SetEXEC(cs.exec)
	wf.SetPC(cs.base)
	done := false
	for n := 0; n < 200 && !done; n++ {
		pc := wf.PC()
		buf := make([]byte, 8)
		for k := range buf {
			buf[k] = cs.imgByte(pc + uint64(k))
		}
		inst, err := dis.Decode(buf)
		if err != nil {
			return nil, nil, "decode: " + err.Error()
		}
		wf.VerifSetInst(inst)
		wf.SetPC(pc + uint64(inst.ByteSize))
		if inst.FormatType == insts.SOPP && inst.Opcode == 1 {
			done = true
			break
		}
		if f := catch(func() { alu.Run(wf) }); f != "" {
			return nil, nil, "alu: " + f
		}
	}
	if !done {
		return nil, nil, "no s_endpgm"
	}
	res := &c02xRegs{exec: wf.EXEC()}
	for i := 0; i < 16; i++ {
		res.s[i] = binary.LittleEndian.Uint32(wf.SRegFile[i*4:])
	}
	for v := 0; v < 10; v++ {
		for l := 0; l < 64; l++ {
			res.v[v][l] = binary.LittleEndian.Uint32(wf.VRegFile[l*1024+v*4:])
		}
	}
	return res, m, ""
}

// ---- timing side ---------------------------------------------------------------------------------

type c02xSendHook struct{ ids []string }

func (h *c02xSendHook) Func(ctx sim.HookCtx) {
	if ctx.Pos == sim.HookPosPortMsgSend {
		h.ids = append(h.ids, ctx.Item.(sim.Msg).Meta().ID)
	}
}

type c02xTxn struct {
	idx   int
	inst  int // number of the instruction (in execution order) the transaction belongs to
	read  *mem.ReadReq
	write *mem.WriteReq
	pen   int
	sent  bool
	done  bool
}

func (x *c02xTxn) line() uint64 {
	if x.read != nil {
		return x.read.Address
	}
	return x.write.Address
}

type c02xMemItem struct {
	x     *c02xTxn
	ready int
	rsp   sim.Msg
}

type c02xT struct {
	sc   *c02xScn
	cu   *cu.ComputeUnit
	wf   *wavefront.Wavefront
	mem  *c02dMem
	hook *c02xSendHook

	byID  map[string]*c02xTxn
	txns  []*c02xTxn // issue order
	insts map[*wavefront.Inst]int
	dep   []int // departure order (issue indices)

	occ   int // requests sitting in the port's outgoing buffer
	memq  []*c02xMemItem
	ifRsp sim.Msg

	toks  []string // one token per tick
	trace []string
	last  int // the last tick in which a transaction arrived or left

	early      string // first observation of counter < truth
	earlyTicks int
	maxAside   int
	memOrder   []int // issue indices in the order the memory applied / read them
	abort      string
	ticks      int
}

func c02xNewT(sc *c02xScn) *c02xT {
	cs := sc.cs
	t := &c02xT{sc: sc, byID: map[string]*c02xTxn{}, insts: map[*wavefront.Inst]int{}, hook: &c02xSendHook{}}
	t.mem = &c02dMem{seed: cs.seed, over: map[uint64]byte{}}
	c := cu.MakeBuilder().WithEngine(&fakeEngine{}).WithFreq(1 * sim.GHz).
		WithVecMemTransPipelineWidth(sc.w).WithVecMemTransPipelineStages(sc.s).WithMemPipelineBufferSize(sc.b).
		WithMaxCoalescingPenalty(sc.pen).
		WithVectorMemModules(&mem.SinglePortMapper{Port: sim.RemotePort("VMem")}).Build("CU")
	for _, p := range []sim.Port{c.ToACE, c.ToInstMem, c.ToScalarMem, c.ToVectorMem, c.ToCP} {
		p.SetConnection(&fakeConn{name: "c"})
	}
	c.ToVectorMem.AcceptHook(t.hook)
	c.InstMem = sim.NewPort(c, 4, 4, "IMem")
	c.ScalarMem = sim.NewPort(c, 4, 4, "SMem")
	t.cu = c

	co := &insts.KernelCodeObject{KernelCodeObjectMeta: &insts.KernelCodeObjectMeta{}}
	pkt := &kernels.HsaKernelDispatchPacket{WorkgroupSizeX: 64, WorkgroupSizeY: 1, WorkgroupSizeZ: 1,
		GridSizeX: 64, GridSizeY: 1, GridSizeZ: 1, GroupSegmentSize: 1024, KernelObject: cs.base}
	wg := kernels.NewWorkGroup()
	wg.SizeX, wg.SizeY, wg.SizeZ = 64, 1, 1
	wg.CurrSizeX, wg.CurrSizeY, wg.CurrSizeZ = 64, 1, 1
	wg.Packet, wg.CodeObject = pkt, co
	raw := kernels.NewWavefront()
	raw.CodeObject, raw.Packet, raw.WG, raw.InitExecMask = co, pkt, wg, cs.exec
	wg.Wavefronts = append(wg.Wavefronts, raw)
	req := protocol.MapWGReqBuilder{}.WithSrc("Disp.Port").WithDst(c.ToACE.AsRemote()).WithPID(1).WithWG(wg).
		AddWf(protocol.WfDispatchLocation{Wavefront: raw, SIMDID: 1, VGPROffset: c02dVOff, SGPROffset: c02dSOff}).Build()
	if err := c.ToACE.Deliver(req); err != nil {
		t.abort = "cannot deliver MapWGReq"
		return t
	}
	if f := catch(func() { c.Tick() }); f != "" {
		t.abort = "panic while mapping the work-group: " + f
		return t
	}
	wfs := c.VerifPoolWfs(1)
	if len(wfs) != 1 {
		t.abort = fmt.Sprintf("%d wavefronts in pool 1 after MapWGReq", len(wfs))
		return t
	}
	t.wf = wfs[0]
	for i := 0; i < 16; i++ {
		c.SRegFile.Write(cu.RegisterAccess{Reg: insts.SReg(i), RegCount: 1, WaveOffset: t.wf.SRegOffset, Data: insts.Uint32ToBytes(c02dInitS(cs.seed, i))})
	}
	for v := 0; v < 10; v++ {
		for l := 0; l < 64; l++ {
			c.VRegFile[1].Write(cu.RegisterAccess{Reg: insts.VReg(v), RegCount: 1, LaneID: l, WaveOffset: t.wf.VRegOffset, Data: insts.Uint32ToBytes(c02xInitV(cs.seed, v, l))})
		}
	}
	t.wf.SetSCC(0)
	t.wf.SetVCC(0)
	t.wf.SetEXEC(cs.exec)
	_, _, pc, _, _ := c.VerifTxnPath()
	if pc != max(sc.b, 8) {
		t.abort = fmt.Sprintf("post-pipeline buffer capacity %d, asked for %d", pc, sc.b)
	}
	return t
}

// take: how many requests the "connection" takes from the port before tick number `tick` (1-based)
func (t *c02xT) take(tick int) int {
	n := 0
	for _, p := range t.sc.bp {
		if tick <= n+p.dur {
			return p.take
		}
		n += p.dur
	}
	return c02xPortCap
}

func (t *c02xT) before(tick int) {
	// the other side of the port takes some requests; the memory works on them in arrival order
	for k := t.take(tick); k > 0; k-- {
		m := t.cu.ToVectorMem.RetrieveOutgoing()
		if m == nil {
			break
		}
		t.occ--
		x := t.byID[m.Meta().ID]
		if x == nil {
			t.abort = "unknown request on ToVectorMem"
			return
		}
		t.memq = append(t.memq, &c02xMemItem{x: x, ready: tick + t.sc.memLag})
	}
	for k := 0; k < t.sc.memRate && len(t.memq) > 0 && t.memq[0].ready <= tick; k++ {
		it := t.memq[0]
		if it.rsp == nil { // the memory performs the access now
			x := it.x
			t.memOrder = append(t.memOrder, x.idx)
			if x.read != nil {
				data := t.mem.Read(1, x.read.Address, x.read.AccessByteSize)
				it.rsp = mem.DataReadyRspBuilder{}.WithSrc(x.read.Dst).WithDst(t.cu.ToVectorMem.AsRemote()).WithRspTo(x.read.ID).WithData(data).Build()
			} else {
				for j, b := range x.write.Data {
					if x.write.DirtyMask == nil || x.write.DirtyMask[j] {
						t.mem.over[x.write.Address+uint64(j)] = b
					}
				}
				it.rsp = mem.WriteDoneRspBuilder{}.WithSrc(x.write.Dst).WithDst(t.cu.ToVectorMem.AsRemote()).WithRspTo(x.write.ID).Build()
			}
		}
		if err := t.cu.ToVectorMem.Deliver(it.rsp); err != nil {
			break // incoming buffer full: the answer waits, nothing overtakes it
		}
		it.x.done = true
		t.memq = t.memq[1:]
	}
	if t.ifRsp != nil {
		if err := t.cu.ToInstMem.Deliver(t.ifRsp); err == nil {
			t.ifRsp = nil
		}
	}
}

func (t *c02xT) after(tick, p int) {
	c := t.cu
	// what left the unit in this tick
	for _, id := range t.hook.ids {
		x := t.byID[id]
		if x == nil || x.sent {
			t.abort = "send of an unknown / already sent request"
			return
		}
		x.sent = true
		t.dep = append(t.dep, x.idx)
		t.occ++
	}
	if len(t.hook.ids) > 0 {
		t.last = tick
	}
	t.hook.ids = t.hook.ids[:0]
	// what the coalescer appended in this tick
	var arr []int
	for _, info := range c.InFlightVectorMemAccess {
		id := ""
		if info.Read != nil {
			id = info.Read.ID
		} else {
			id = info.Write.ID
		}
		if _, ok := t.byID[id]; ok {
			continue
		}
		in, ok := t.insts[info.Inst]
		if !ok {
			in = len(t.insts)
			t.insts[info.Inst] = in
		}
		x := &c02xTxn{idx: len(t.txns), inst: in, read: info.Read, write: info.Write, pen: c.VerifTxnPenalty(id)}
		t.byID[id] = x
		t.txns = append(t.txns, x)
		arr = append(arr, x.pen)
	}
	tok := strconv.Itoa(p)
	if len(arr) > 0 {
		t.last = tick
		var g []string
		for i := 0; i < len(arr); {
			j := i
			for j < len(arr) && arr[j] == arr[i] {
				j++
			}
			g = append(g, fmt.Sprintf("%dx%d", j-i, arr[i]))
			i = j
		}
		tok += ":" + strings.Join(g, "+")
	}
	t.toks = append(t.toks, tok)
	waiting, post, _, _, _ := c.VerifTxnPath()
	_, _, aside := c.VerifVMUInOrder()
	if aside > t.maxAside {
		t.maxAside = aside
	}
	t.trace = append(t.trace, fmt.Sprintf("%d/%d/%d", post, len(waiting), aside))
	// the counter against the truth: instructions with a transaction whose answer the CU has not processed
	live := map[*wavefront.Inst]bool{}
	for _, info := range c.InFlightVectorMemAccess {
		live[info.Inst] = true
	}
	if t.wf.OutstandingVectorMemAccess < len(live) {
		t.earlyTicks++
		if t.early == "" {
			var open []string
			for _, x := range t.txns {
				if !x.done {
					open = append(open, fmt.Sprintf("%d(inst %d%s)", x.idx, x.inst, map[bool]string{true: "", false: ", not yet sent"}[x.sent]))
					if len(open) == 4 {
						break
					}
				}
			}
			t.early = fmt.Sprintf("tick %d: OutstandingVectorMemAccess=%d, %d instruction(s) still have unanswered transactions; oldest open: %s; pc=%#x",
				tick, t.wf.OutstandingVectorMemAccess, len(live), strings.Join(open, " "), t.wf.PC())
		}
	}
	// instruction memory
	for {
		m := c.ToInstMem.RetrieveOutgoing()
		if m == nil {
			break
		}
		q := m.(*mem.ReadReq)
		data := make([]byte, 64)
		for k := range data {
			data[k] = t.sc.cs.imgByte(q.Address + uint64(k))
		}
		if t.ifRsp != nil {
			t.abort = "two instruction fetches in flight"
		}
		t.ifRsp = mem.DataReadyRspBuilder{}.WithSrc(c.InstMem.AsRemote()).WithDst(c.ToInstMem.AsRemote()).WithRspTo(q.ID).WithData(data).Build()
	}
	for c.ToACE.RetrieveOutgoing() != nil {
	}
	for c.ToCP.RetrieveOutgoing() != nil {
	}
	if c.ToScalarMem.RetrieveOutgoing() != nil {
		t.abort = "unexpected scalar memory request"
	}
}

func (t *c02xT) finished() bool {
	if t.wf.State != wavefront.WfCompleted || len(t.memq) > 0 || len(t.cu.InFlightVectorMemAccess) > 0 {
		return false
	}
	for _, x := range t.txns {
		if !x.sent || !x.done {
			return false
		}
	}
	return true
}

func (t *c02xT) run() {
	for tick := 1; tick <= c02xMaxTicks && t.abort == ""; tick++ {
		t.before(tick)
		if t.abort != "" {
			return
		}
		p := c02xPortCap - t.occ
		if f := catch(func() { t.cu.Tick() }); f != "" {
			t.abort = "panic in Tick: " + f
			return
		}
		t.after(tick, p)
		t.ticks = tick
		if t.finished() {
			return
		}
	}
	if t.abort == "" {
		t.abort = fmt.Sprintf("not finished after %d ticks (state %d, %d/%d sent)", t.ticks, t.wf.State, len(t.dep), len(t.txns))
	}
}

func (t *c02xT) regs() *c02xRegs {
	res := &c02xRegs{exec: t.wf.EXEC()}
	b := make([]byte, 4)
	for i := 0; i < 16; i++ {
		t.cu.SRegFile.Read(cu.RegisterAccess{Reg: insts.SReg(i), RegCount: 1, WaveOffset: t.wf.SRegOffset, Data: b})
		res.s[i] = binary.LittleEndian.Uint32(b)
	}
	for v := 0; v < 10; v++ {
		for l := 0; l < 64; l++ {
			t.cu.VRegFile[1].Read(cu.RegisterAccess{Reg: insts.VReg(v), RegCount: 1, LaneID: l, WaveOffset: t.wf.VRegOffset, Data: b})
			res.v[v][l] = binary.LittleEndian.Uint32(b)
		}
	}
	return res
}

// compress consecutive equal tokens: tok*k
func c02xCompress(toks []string) string {
	var o []string
	for i := 0; i < len(toks); {
		j := i
		for j < len(toks) && toks[j] == toks[i] {
			j++
		}
		if j-i > 1 {
			o = append(o, fmt.Sprintf("%s*%d", toks[i], j-i))
		} else {
			o = append(o, toks[i])
		}
		i = j
	}
	return strings.Join(o, ",")
}

func c02xInts(l []int) string {
	o := make([]string, len(l))
	for i, v := range l {
		o[i] = strconv.Itoa(v)
	}
	return strings.Join(o, ",")
}

// c02xRuns prints an order as runs a-b
func c02xRuns(l []int) string {
	var o []string
	for i := 0; i < len(l); {
		j := i
		for j+1 < len(l) && l[j+1] == l[j]+1 {
			j++
		}
		if j > i {
			o = append(o, fmt.Sprintf("%d-%d", l[i], l[j]))
		} else {
			o = append(o, strconv.Itoa(l[i]))
		}
		i = j + 1
	}
	return strings.Join(o, " ")
}

func c02xMemDiff(tm, em *c02dMem) []string {
	var out []string
	for line := 0; line < 64; line++ {
		a := uint64(c02xWin + 64*line)
		for k := uint64(0); k < 64; k++ {
			if tm.at(a+k) != em.at(a+k) {
				out = append(out, fmt.Sprintf("line %d (%#x): timing %s emulator %s", line, a, hexb(tm.Read(1, a, 4)), hexb(em.Read(1, a, 4))))
				break
			}
		}
	}
	return out
}

type c02xOutcome struct {
	line, answer           string
	reordered              bool
	inversions             int
	memDiff, regDiff       []string
	early                  string
	storeInv               string
	n, ticks, stalledTicks int
}

func c02xRunScn(r *Run, dis *insts.Disassembler, sc *c02xScn, verbose bool) *c02xOutcome {
	cs := sc.cs
	for _, i := range cs.prog {
		if msg := c02dCheckEnc(dis, i); msg != "" {
			r.Failf("C02.txn-harness", sc.text(), "encoding of %s: %s", i.text(), msg)
			return nil
		}
	}
	cs.layout()
	er, em, fault := c02xRunEmu(cs, dis)
	if fault != "" {
		r.Failf("C02.txn-harness", sc.text(), "emulator: %s", fault)
		return nil
	}
	t := c02xNewT(sc)
	if t.abort == "" {
		t.run()
	}
	if t.abort != "" {
		r.Failf("C02.txn-harness", sc.text(), "case aborted: %s", t.abort)
		return nil
	}
	o := &c02xOutcome{n: len(t.txns), ticks: t.ticks}
	// the ticks after the last arrival / departure change nothing in the transaction path
	o.line = fmt.Sprintf("c02 txn w=%d s=%d b=%d n=%d ev=%s", sc.w, sc.s, sc.b, len(t.txns), c02xCompress(t.toks[:t.last]))
	o.answer = fmt.Sprintf("ord=%s left=%d tr=%s", c02xInts(t.dep), len(t.txns)-len(t.dep), strings.Join(t.trace[:t.last], "."))
	r.Case(o.line, o.answer)

	w1 := sc.w <= 1
	kind := func(k string) string {
		if w1 {
			return "txn:" + k + "-width1"
		}
		return "txn:" + k
	}
	sig := func(s string) string {
		if w1 {
			return s + "-width1"
		}
		return s
	}
	ctx := o.line + " ; " + sc.text()

	// 1. the order on the port against the issue order
	for i := range t.dep {
		for j := i + 1; j < len(t.dep); j++ {
			if t.dep[j] < t.dep[i] {
				o.inversions++
			}
		}
	}
	o.reordered = o.inversions > 0
	r.Checked(kind("order"))
	if o.reordered {
		r.Failf(sig("C02.vmem-transaction-order"), ctx, "the transactions left the vector memory unit as %s (issue order 0-%d): %d inversions",
			c02xRuns(t.dep), len(t.dep)-1, o.inversions)
	}
	if !equalInts(t.dep, t.memOrder) {
		r.Failf("C02.txn-harness", ctx, "the harness memory did not work in arrival order")
	}

	// 2. final memory against the emulator: stores to one line in reversed order
	pos := make([]int, len(t.txns))
	for p, ix := range t.dep {
		pos[ix] = p
	}
	for i, x := range t.txns {
		for j := i + 1; j < len(t.txns) && o.storeInv == ""; j++ {
			y := t.txns[j]
			if x.write != nil && y.write != nil && x.inst != y.inst && x.line() == y.line() && pos[j] < pos[i] {
				o.storeInv = fmt.Sprintf("store %d (instruction %d) reached the memory after store %d (instruction %d), both to %#x", i, x.inst, j, y.inst, x.line())
			}
		}
	}
	o.memDiff = c02xMemDiff(t.mem, em)
	r.Checked(kind("store-order"))
	if len(o.memDiff) > 0 {
		d := o.memDiff
		if len(d) > 3 {
			d = append(append([]string{}, d[:3]...), fmt.Sprintf("… %d lines differ", len(o.memDiff)))
		}
		if o.storeInv != "" {
			r.Failf(sig("C02.vmem-store-order"), ctx, "final memory differs from the emulator: %s; %s", strings.Join(d, "; "), o.storeInv)
		} else {
			r.Failf(sig("C02.vmem-memory-differs"), ctx, "final memory differs from the emulator without a store inversion: %s", strings.Join(d, "; "))
		}
	} else if o.storeInv != "" {
		r.Count("txn:store-inversion-same-data")
	}

	// 3. the outstanding-access counter against the truth, and the registers against the emulator
	tr := t.regs()
	for v := 0; v < 10; v++ {
		for l := 0; l < 64; l++ {
			if tr.v[v][l] != er.v[v][l] {
				o.regDiff = append(o.regDiff, fmt.Sprintf("v%d[%d]: timing %08x emulator %08x", v, l, tr.v[v][l], er.v[v][l]))
			}
		}
	}
	if tr.s != er.s || tr.exec != er.exec {
		o.regDiff = append(o.regDiff, "scalar state differs")
	}
	o.early = t.early
	r.Checked(kind("counter"))
	if t.early != "" {
		d := "final registers equal the emulator's (nothing read the late data)"
		if len(o.regDiff) > 0 {
			k := o.regDiff
			if len(k) > 3 {
				k = append(append([]string{}, k[:3]...), fmt.Sprintf("… %d registers differ", len(o.regDiff)))
			}
			d = "a dependent instruction read stale registers: " + strings.Join(k, "; ")
		}
		r.Failf(sig("C02.vmem-counter-early"), ctx, "%s (%d ticks in that state); %s", t.early, t.earlyTicks, d)
	} else if len(o.regDiff) > 0 {
		r.Failf(sig("C02.vmem-registers-differ"), ctx, "final registers differ from the emulator although the counter was never early: %s", strings.Join(o.regDiff[:min(3, len(o.regDiff))], "; "))
	}

	// distribution
	r.Count(fmt.Sprintf("txn:w=%d", sc.w))
	r.Count(fmt.Sprintf("txn:s=%d", sc.s))
	r.Count(fmt.Sprintf("txn:b=%d", sc.b))
	r.Count(fmt.Sprintf("txn:pen=%d", sc.pen))
	r.Count("txn:kind=" + sc.kind)
	r.Count("txn:n=" + c02dBucket(len(t.txns)/16))
	full := false
	for _, s := range t.trace {
		if strings.HasPrefix(s, fmt.Sprintf("%d/", max(sc.b, 8))) {
			full = true
		}
	}
	if full {
		r.Count(kind("post-buffer-was-full"))
	}
	if o.reordered {
		r.Count(kind("reordered"))
	}
	// a younger transaction overtakes only while the post-pipeline buffer is full
	r.Checked("txn:reorder-needs-full-buffer")
	if o.reordered && !full {
		r.Failf("C02.txn-reorder-without-full-buffer", ctx, "departure %s although the post-pipeline buffer was never full", c02xRuns(t.dep))
	}
	// regression scenario of the repaired unit (fix b81645f1): the hand-made back-pressure witnesses that made
	// the unit before the repair send 0-72 74-191 73 (`Old.witness_departure` in Props/C02Txn.lean; on the
	// repaired model: `witness_scenario_repaired`) must still fill the post-pipeline buffer, must make the
	// unit set transactions aside (the repaired path is really taken) and must leave in issue order, complete
	if (sc.kind == "witness-stores" || sc.kind == "witness-load") && sc.w >= 2 {
		r.Checked("txn:regression-witness")
		switch {
		case !full || t.maxAside == 0:
			r.Failf("C02.txn-regression-scenario-weak", ctx, "the back-pressure witness no longer exercises the set-aside path: post buffer full=%v, most transactions set aside=%d", full, t.maxAside)
		case o.reordered || len(t.dep) != len(t.txns):
			r.Failf("C02.txn-regression-witness", ctx, "departure %s of %d transactions", c02xRuns(t.dep), len(t.txns))
		}
	}
	if t.maxAside > 0 {
		r.Count(kind("set-aside-used"))
	}
	if verbose {
		fmt.Printf("scenario: %s\n%s\n  => %s\n", sc.text(), o.line, o.answer)
		fmt.Printf("  transactions=%d ticks=%d departure=%s inversions=%d\n", o.n, o.ticks, c02xRuns(t.dep), o.inversions)
		fmt.Printf("  store inversion: %s\n  memory diff: %v\n  counter early: %s\n  register diff: %d %v\n", o.storeInv, o.memDiff, o.early, len(o.regDiff), o.regDiff[:min(3, len(o.regDiff))])
	}
	return o
}

func equalInts(a, b []int) bool {
	if len(a) != len(b) {
		return false
	}
	for i := range a {
		if a[i] != b[i] {
			return false
		}
	}
	return true
}

// ---- scenarios -------------------------------------------------------------------------------------

func c02xCase(seed uint64, exec uint64, prog []c02dInst) *c02dCase {
	return &c02dCase{base: 0x1000, exec: exec, seed: seed, prog: prog, holdIdx: -1}
}

// the two hand-made witnesses: the port is left alone until the post-pipeline buffer is full and both
// lanes are occupied, then one request per tick is taken: lane 1 starves
func c02xWitnessStores(w int) *c02xScn {
	return &c02xScn{w: w, s: 1, b: 8, kind: "witness-stores", memRate: 16,
		cs: c02xCase(7, c02dFull, []c02dInst{{op: "fst", a: 0, b: 6}, {op: "fst", a: 0, b: 7}, {op: "fst", a: 0, b: 8}, {op: "wait", a: 0, b: 0}, {op: "end"}}),
		bp: []c02xPhase{{80, 0}, {220, 1}}}
}

func c02xWitnessLoad(w int) *c02xScn {
	return &c02xScn{w: w, s: 1, b: 8, kind: "witness-load", memRate: 16,
		cs: c02xCase(7, c02dFull, []c02dInst{{op: "fst", a: 0, b: 6}, {op: "fld", a: 9, b: 4}, {op: "fst", a: 0, b: 7}, {op: "wait", a: 1, b: 15},
			{op: "vxor", a: 8, b: 2, c: 9}, {op: "wait", a: 0, b: 0}, {op: "end"}}),
		bp: []c02xPhase{{80, 0}, {220, 1}}}
}

var c02xMasks = []uint64{c02dFull, c02dFull, 0xFFFFFFFF, 0x55555555, 0xFFFF00FF, 0x0FFFFFF0}

func c02xGen(rng *Rng) *c02xScn {
	sc := &c02xScn{w: rng.Pick(1, 1, 2, 2, 4, 8), s: rng.Pick(1, 2, 4), b: rng.Pick(8, 8, 8, 64), pen: rng.Pick(0, 0, 3)}
	if rng.Chance(10) { // the two shipped configurations
		if rng.Bool() {
			sc.w, sc.s, sc.b, sc.pen = 8, 4, 64, 3 // MI300A
		} else {
			sc.w, sc.s, sc.b, sc.pen = 1, 10, 8, 0 // R9 Nano (builder defaults)
		}
	}
	var prog []c02dInst
	nmem := rng.Range(2, 4)
	if sc.b == 64 {
		nmem = rng.Range(3, 5)
	}
	sc.kind = []string{"stores", "mixed", "load-use"}[rng.Intn(3)]
	loads := 0
	for k := 0; k < nmem; k++ {
		if rng.Chance(25) {
			prog = append(prog, c02dInst{op: "sexec", a: c02xMasks[rng.Intn(len(c02xMasks))]})
		}
		ld := false
		switch sc.kind {
		case "mixed":
			ld = rng.Chance(40)
		case "load-use":
			ld = k == nmem-1 || rng.Chance(30)
		}
		if ld {
			prog = append(prog, c02dInst{op: "fld", a: 9, b: 4})
			loads++
		} else {
			prog = append(prog, c02dInst{op: "fst", a: uint64(rng.Pick(0, 0, 2)), b: uint64(rng.Pick(6, 7, 8))})
		}
	}
	prog = append(prog, c02dInst{op: "wait", a: 0, b: 0})
	if loads > 0 {
		prog = append(prog, c02dInst{op: "sexec", a: c02dFull}, c02dInst{op: "vxor", a: 8, b: 2, c: 9})
	}
	prog = append(prog, c02dInst{op: "end"})
	sc.cs = c02xCase(uint64(rng.Intn(1000)), c02dFull, prog)
	// back-pressure
	sc.bp = append(sc.bp, c02xPhase{rng.Pick(0, 30, 60, 90, 110, 150, 200), 0})
	for k := rng.Range(1, 6); k > 0; k-- {
		sc.bp = append(sc.bp, c02xPhase{rng.Range(1, 60), rng.Pick(0, 0, 1, 1, 1, 2, 3, 5, 16, 64)})
	}
	sc.memRate = rng.Pick(1, 2, 16, 16)
	sc.memLag = rng.Pick(0, 0, 3, 20)
	return sc
}

func runC02Txn(r *Run, rng *Rng, replay string) {
	sim.GetIDGenerator()
	dis := insts.NewDisassembler()
	for _, sc := range []*c02xScn{c02xWitnessStores(2), c02xWitnessLoad(2), c02xWitnessStores(1), c02xWitnessLoad(1)} {
		c02xRunScn(r, dis, sc, false)
	}
	n := 150
	if r.Tier == "thorough" {
		n = 3000
	}
	for k := 0; k < n; k++ {
		c02xRunScn(r, dis, c02xGen(rng), false)
	}
}

// harness child c02txn witness            print the hand-made witnesses
// harness child c02txn run <tier> <seed> <outdir>   only this runner
func c02xChild(args []string) {
	sim.GetIDGenerator()
	dis := insts.NewDisassembler()
	if len(args) >= 1 && args[0] == "witness" {
		r := NewRun("C02", "quick", 1, os.TempDir())
		for _, sc := range []*c02xScn{c02xWitnessStores(2), c02xWitnessLoad(2), c02xWitnessStores(1), c02xWitnessLoad(1)} {
			c02xRunScn(r, dis, sc, true)
		}
		for _, f := range r.fails {
			fmt.Printf("FAIL %s\n   %s\n", f.Sig, f.Detail)
		}
		return
	}
	if len(args) >= 4 && args[0] == "run" {
		seed, _ := strconv.ParseUint(args[2], 10, 64)
		r := NewRun("C02", args[1], seed, args[3])
		runC02Txn(r, NewRng(seed), "")
		r.Flush()
		sigs := map[string]int{}
		for _, f := range r.fails {
			sigs[f.Sig]++
		}
		fmt.Printf("cases=%d oracle=%d fails=%v\n", len(r.ops), r.Oracle, sigs)
		return
	}
	fmt.Fprintln(os.Stderr, "usage: child c02txn witness | run <tier> <seed> <outdir>")
	os.Exit(2)
}
