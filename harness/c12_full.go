package main

import (
	"fmt"
	"strconv"
	"strings"

	"github.com/sarchlab/akita/v4/mem/mem"
	"github.com/sarchlab/akita/v4/mem/vm"
	"github.com/sarchlab/akita/v4/sim"
	"github.com/sarchlab/mgpusim/v4/amd/driver"
	"github.com/sarchlab/mgpusim/v4/amd/kernels"
	"github.com/sarchlab/mgpusim/v4/amd/protocol"
)

func init() { register("C12", runC12Full) }

// Correspondence and oracles for the Lean model C12.W.Full: ALL stages of Driver.Tick (Noop, kernel
// and memory-copy commands, the copy middleware's delay line and GeneralRsp handling, the page
// migration handshake, the MMU port) under Akita's REAL sleep/wake machinery: the driver is built
// with an engine that only keeps the scheduled events; `T` hands the pending tick event to the real
// TickingComponent.Handle (Tick, then TickLater iff progress); messages go through the real
// Port.Deliver / RetrieveOutgoing of both ports (which wake the driver — or do not); `K` is what
// runAsync does after an enqueue signal (TickLater). `c12 full` case lines are answered by
// C12.W.Full.step; after EVERY operation the oracles evaluate `no_lost_wakeup` on the real driver:
// no tick event pending and no signal owed ⇒ nothing is left that a tick would do.

type c12fEngine struct {
	sim.HookableBase
	now     sim.VTimeInSec
	pending []sim.Event
}

func (e *c12fEngine) Schedule(evt sim.Event)      { e.pending = append(e.pending, evt) }
func (e *c12fEngine) Run() error                  { return nil }
func (e *c12fEngine) Pause()                      {}
func (e *c12fEngine) Continue()                   {}
func (e *c12fEngine) CurrentTime() sim.VTimeInSec { return e.now }

type c12fEnv struct {
	r        *Run
	eng      *c12fEngine
	d        *driver.Driver
	gpuPort  sim.Port
	mmuPort  sim.Port
	cps      []sim.Port
	ctxs     []*driver.Context
	bufs     []driver.Ptr // one 4-page buffer per context
	qs       []*driver.CommandQueue
	qctx     []int
	fan      []int
	cnt      *c12PortCount
	mcnt     *c12PortCount
	ext      []sim.Msg
	ops, ans []string
	head     string
	owed     bool
	dirtyIn  bool // a foreign message was injected / an unhandled command enqueued: contract broken
	nGpus    int
	nMMU     int
	pid      vm.PID
	migPages int
	fails    int
	magic    bool // built WithMagicMemoryCopyMiddleware (global storage)
}

func (e *c12fEnv) line() string { return e.head + " ; " + strings.Join(e.ops, " ") }

func (e *c12fEnv) fail(sig, format string, a ...interface{}) {
	if e.fails < 2 {
		e.r.Failf(sig, e.line(), format, a...)
	}
	e.fails++
}

// h2d < 0: random configuration; h2d == -2: the global-storage ("magic") copy middleware
func c12fNew(r *Run, rng *Rng, h2d int) *c12fEnv {
	e := &c12fEnv{r: r, eng: &c12fEngine{}, cnt: &c12PortCount{}, mcnt: &c12PortCount{}}
	d2h := rng.Pick(0, 0, 2, 5)
	e.magic = h2d == -2
	if h2d < 0 {
		h2d = rng.Pick(0, 0, 1, 3)
	}
	e.nGpus = rng.Range(1, 3)
	b := driver.MakeBuilder().WithEngine(e.eng).WithPageTable(vm.NewPageTable(12)).WithLog2PageSize(12).
		WithH2DCycles(h2d).WithD2HCycles(d2h)
	if e.magic {
		b = b.WithMagicMemoryCopyMiddleware().WithGlobalStorage(mem.NewStorage(16 * mem.GB))
	}
	e.d = b.Build("Driver")
	e.gpuPort, e.mmuPort = e.d.VerifPortsC19()
	(&fakeConn{name: "c"}).PlugIn(e.gpuPort)
	(&fakeConn{name: "m"}).PlugIn(e.mmuPort)
	e.gpuPort.AcceptHook(e.cnt)
	e.mmuPort.AcceptHook(e.mcnt)
	for i := 0; i < e.nGpus; i++ {
		cp := sim.NewPort(nil, 16, 16, fmt.Sprintf("FakeGPU%d.ToDriver", i+1))
		e.cps = append(e.cps, cp)
		e.d.RegisterGPU(cp, driver.DeviceProperties{CUCount: 4, DRAMSize: 1 << 26})
		e.d.RemotePMCPorts = append(e.d.RemotePMCPorts, sim.NewPort(nil, 1, 1, fmt.Sprintf("GPU%d.PMC.Remote", i+1)))
	}
	nctx := rng.Range(1, 2)
	nq := rng.Range(1, 3)
	if nq < nctx {
		nq = nctx
	}
	for c := 0; c < nctx; c++ {
		ctx := e.d.Init()
		e.ctxs = append(e.ctxs, ctx)
		e.bufs = append(e.bufs, e.d.AllocateMemory(ctx, 4*4096)) // allocated on GPU 1, before any kernel
	}
	e.pid = e.ctxs[0].VerifPID()
	uni := map[int]int{}
	var ctxs []string
	for c := 0; c < nctx; c++ {
		for i := 0; i < nq; i++ {
			if i%nctx != c {
				continue
			}
			ctx := e.ctxs[c]
			n := rng.Range(1, e.nGpus)
			if n == 1 {
				e.d.SelectGPU(ctx, 1)
			} else {
				key := n*10 + c
				if _, ok := uni[key]; !ok {
					ids := []int{}
					for g := 1; g <= n; g++ {
						ids = append(ids, g)
					}
					uni[key] = e.d.CreateUnifiedGPU(ctx, ids)
				}
				e.d.SelectGPU(ctx, uni[key])
			}
			e.fan = append(e.fan, n)
			e.qs = append(e.qs, e.d.CreateCommandQueue(ctx))
			e.qctx = append(e.qctx, c)
			ctxs = append(ctxs, strconv.Itoa(c))
		}
	}
	e.head = fmt.Sprintf("c12 full gpus=%d h2d=%d d2h=%d ctxs=%s", e.nGpus, h2d, d2h, strings.Join(ctxs, ","))
	if e.magic {
		e.head += " magic=1"
	}
	return e
}

func (e *c12fEnv) awake() bool { return len(e.eng.pending) > 0 }

func (e *c12fEnv) emit(op, tok string) {
	e.ops = append(e.ops, op)
	w := "."
	if e.awake() {
		w = "!"
	}
	e.ans = append(e.ans, tok+w)
	e.oracles()
}

type c12fSnap struct {
	hs               driver.VerifHandshakeC19
	cyc, aw          int
	in, out, min, mo int
	qs               string
}

func (e *c12fEnv) snap() c12fSnap {
	s := c12fSnap{hs: e.d.VerifHandshakeC19(), in: e.cnt.in, out: e.cnt.out, min: e.mcnt.in, mo: e.mcnt.out}
	var isDefault bool
	if s.cyc, s.aw, isDefault = e.d.VerifCopyDelayLineC12(); !isDefault {
		s.cyc = -1
	}
	s.qs = e.qstr()
	return s
}

func (e *c12fEnv) qstr() string {
	var qstr []string
	for _, q := range e.qs {
		s := strconv.Itoa(q.NumCommand())
		left := 0
		if q.IsRunning {
			s += "*"
			if cs := q.VerifCommands(); len(cs) > 0 {
				left = len(cs[0].GetReqs())
			}
		}
		qstr = append(qstr, s+strconv.Itoa(left))
	}
	return strings.Join(qstr, ",")
}

// the statements of W.Full.no_lost_wakeup / awaiting_has_timer / running_has_requests on the real driver
func (e *c12fEnv) oracles() {
	s := e.snap()
	e.r.Checked("full.invariants")
	if len(e.eng.pending) > 1 {
		e.fail("C12.driver.double-tick-event", "%d tick events are scheduled at once", len(e.eng.pending))
	}
	if s.aw > 0 && s.cyc < 0 {
		e.fail("C12.driver.awaiting-without-timer", "%d copy requests wait in the delay line, cyclesLeft = %d: they are never sent", s.aw, s.cyc)
	}
	for i, q := range e.qs {
		if q.IsRunning && (q.NumCommand() == 0 || len(q.VerifCommands()[0].GetReqs()) == 0) {
			e.fail("C12.driver.running-without-requests", "queue %d is marked running, its head has no outstanding request: no answer can complete it", i)
		}
	}
	if e.awake() || e.owed || e.dirtyIn {
		return
	}
	e.r.Checked("full.asleep")
	if s.in > 0 {
		e.fail("C12.driver.asleep-with-input", "no tick event is scheduled while %d message(s) wait in the GPU port", s.in)
	}
	for i, q := range e.qs {
		if q.NumCommand() > 0 && !q.IsRunning {
			e.fail("C12.driver.asleep-with-runnable-command", "no tick event is scheduled while queue %d has a runnable head", i)
		}
	}
	if s.hs.ToSend > 0 && e.gpuPort.CanSend() {
		e.fail("C12.driver.asleep-with-sendable-request", "no tick event is scheduled while %d request(s) wait in requestsToSend and the port has room", s.hs.ToSend)
	}
	if s.cyc >= 0 && s.aw > 0 {
		e.fail("C12.driver.asleep-with-timer", "no tick event is scheduled while the copy delay line is counting (cyclesLeft = %d, %d requests waiting)", s.cyc, s.aw)
	}
	if s.min > 0 && !s.hs.Handling {
		e.fail("C12.driver.asleep-with-migration-request", "no tick event is scheduled while a page-migration request waits in the MMU port and none is being handled")
	}
	if s.hs.ToMMU && e.mmuPort.CanSend() {
		e.fail("C12.driver.asleep-with-mmu-answer", "no tick event is scheduled while the answer to the MMU can be sent")
	}
	if s.hs.ToCP > 0 && !s.hs.MigratingOne && e.gpuPort.CanSend() {
		e.fail("C12.driver.asleep-with-page-to-migrate", "no tick event is scheduled while %d page request(s) can be sent to the command processor", s.hs.ToCP)
	}
}

func (e *c12fEnv) enqueue(rng *Rng, qi int, kind int) {
	id := sim.GetIDGenerator().Generate()
	q := e.qs[qi]
	switch kind {
	case 0:
		e.d.Enqueue(q, &driver.NoopCommand{ID: id})
		e.owed = true
		e.emit(fmt.Sprintf("n:%d", qi), "e")
	case 1:
		n := e.fan[qi]
		if n == 1 {
			e.d.Enqueue(q, &driver.LaunchKernelCommand{ID: id})
			e.owed = true
			e.emit(fmt.Sprintf("k:%d:1", qi), "e")
			return
		}
		empty := rng.Chance(12)
		cmd := &driver.LaunchUnifiedMultiGPUKernelCommand{ID: id}
		for i := 0; i < n; i++ {
			p := kernels.HsaKernelDispatchPacket{GridSizeX: uint32(64 * 4 * n * rng.Range(1, 3)), GridSizeY: 1, GridSizeZ: 1,
				WorkgroupSizeX: 64, WorkgroupSizeY: 1, WorkgroupSizeZ: 1}
			if empty {
				p.GridSizeX = 0
			}
			cmd.PacketArray = append(cmd.PacketArray, &p)
			cmd.DPacketArray = append(cmd.DPacketArray, driver.Ptr(0))
		}
		if empty {
			n = 0
		}
		e.d.Enqueue(q, cmd)
		e.owed = true
		e.emit(fmt.Sprintf("k:%d:%d", qi, n), "e")
	case 2, 3:
		pieces := rng.Pick(0, 1, 1, 2, 3)
		size := 0
		if pieces > 0 {
			size = (pieces-1)*4096 + rng.Range(1, 4096)
		}
		buf := e.bufs[e.qctx[qi]]
		host := make([]byte, size)
		dir := "h"
		if kind == 2 {
			e.d.EnqueueMemCopyH2D(q, buf, host)
		} else {
			dir = "d"
			e.d.EnqueueMemCopyD2H(q, host, buf)
		}
		e.owed = true
		if e.magic {
			e.emit(fmt.Sprintf("g:%d", qi), "e") // done inside ProcessCommand, whatever its size
			return
		}
		e.emit(fmt.Sprintf("c:%d:%s:%d", qi, dir, pieces), "e")
	case 4:
		// FlushCommand: handled by the default copy middleware since the repair (one FlushReq per GPU); the
		// global-storage middleware has no handler for it (loud panic, see the witness in c12FullWitnesses)
		if e.magic {
			e.d.Enqueue(q, &driver.NoopCommand{ID: id})
			e.owed = true
			e.emit(fmt.Sprintf("n:%d", qi), "e")
			return
		}
		e.d.Enqueue(q, &driver.FlushCommand{ID: id})
		e.owed = true
		e.emit(fmt.Sprintf("f:%d", qi), "e")
	}
}

func (e *c12fEnv) kick() {
	e.d.TickLater() // runAsync: Engine.Pause(); TickLater(); Engine.Continue()
	e.owed = false
	e.emit("K", "K")
}

func (e *c12fEnv) tick() (ran, progress bool) {
	if len(e.eng.pending) == 0 {
		e.emit("T", "z")
		return false, false
	}
	evt := e.eng.pending[0]
	e.eng.pending = e.eng.pending[1:]
	e.eng.now = evt.Time()
	before := e.snap()
	if f := catch(func() { evt.Handler().Handle(evt) }); f != "" {
		e.fail("C12.driver.tick-panic", "Driver.Tick panicked: %s", f)
		e.emit("T", "fault")
		return true, false
	}
	progress = len(e.eng.pending) > 0 // Handle re-schedules iff Tick reported progress
	tok := "0"
	if progress {
		tok = "1"
	} else {
		// quiet-tick rule: a tick that reports no progress has changed nothing, and another tick
		// does nothing either (called directly: it must not be needed)
		e.r.Checked("full.quiet-tick")
		after := e.snap()
		if after != before && !e.dirtyIn {
			e.fail("C12.driver.quiet-tick-changed-state", "Driver.Tick reported no progress but changed the driver: %+v -> %+v", before, after)
		}
		if !e.dirtyIn {
			var again bool
			if f := catch(func() { again = e.d.Tick() }); f != "" {
				e.fail("C12.driver.tick-panic", "Driver.Tick panicked: %s", f)
			}
			if again || e.snap() != after {
				e.fail("C12.driver.quiet-tick-not-idempotent", "Driver.Tick reported no progress (the driver goes to sleep), the next tick reported %v / changed the driver: %+v -> %+v", again, after, e.snap())
			}
		}
	}
	e.emit("T", tok)
	return true, progress
}

func (e *c12fEnv) reqName(m sim.Msg) string {
	owner := func() string {
		for i, q := range e.qs {
			if cs := q.VerifCommands(); len(cs) > 0 {
				for _, rq := range cs[0].GetReqs() {
					if rq == m {
						return strconv.Itoa(i)
					}
				}
			}
		}
		return "?"
	}
	switch m.(type) {
	case *protocol.LaunchKernelReq:
		return "L" + owner()
	case *protocol.FlushReq:
		return "F" + owner()
	case *protocol.MemCopyH2DReq, *protocol.MemCopyD2HReq:
		return "C" + owner()
	case *protocol.RDMADrainCmdFromDriver:
		return "Dr"
	case *protocol.ShootDownCommand:
		return "Sh"
	case *protocol.PageMigrationReqToCP:
		return "Mg"
	case *protocol.GPURestartReq:
		return "Rs"
	case *protocol.RDMARestartCmdFromDriver:
		return "Rr"
	}
	return "??"
}

func (e *c12fEnv) retrieve() bool {
	m := e.gpuPort.RetrieveOutgoing()
	if m == nil {
		e.emit("o", "-")
		return false
	}
	e.ext = append(e.ext, m)
	e.emit("o", e.reqName(m))
	return true
}

func (e *c12fEnv) answerMsg(m sim.Msg) sim.Msg {
	src := e.cps[0]
	switch x := m.(type) {
	case *protocol.LaunchKernelReq:
		return protocol.NewLaunchKernelRsp(src.AsRemote(), e.gpuPort.AsRemote(), x.ID)
	case *protocol.FlushReq, *protocol.MemCopyH2DReq, *protocol.MemCopyD2HReq:
		return sim.GeneralRspBuilder{}.WithSrc(m.Meta().Dst).WithDst(e.gpuPort.AsRemote()).WithOriginalReq(m).Build()
	case *protocol.RDMADrainCmdFromDriver:
		return protocol.NewRDMADrainRspToDriver(src, e.gpuPort)
	case *protocol.ShootDownCommand:
		return protocol.NewShootdownCompleteRsp(src, e.gpuPort)
	case *protocol.PageMigrationReqToCP:
		return protocol.NewPageMigrationRspToDriver(src, e.gpuPort)
	case *protocol.GPURestartReq:
		return protocol.NewGPURestartRsp(src, e.gpuPort)
	case *protocol.RDMARestartCmdFromDriver:
		return protocol.NewRDMARestartRspToDriver(src, e.gpuPort)
	}
	return nil
}

func (e *c12fEnv) answer(j int) {
	m := e.ext[j]
	rsp := e.answerMsg(m)
	if rsp == nil || e.gpuPort.Deliver(rsp) != nil {
		return
	}
	e.ext = append(e.ext[:j:j], e.ext[j+1:]...)
	e.emit(fmt.Sprintf("a:%d", j), "a")
}

// a page-migration request from the MMU: `pages` pages of process 1 living on GPU 1, wanted by the
// other GPUs; `acc` GPUs currently access them
func (e *c12fEnv) mmuReq(acc, pages int) {
	info := &vm.PageMigrationInfo{GPUReqToVAddrMap: map[uint64][]uint64{}}
	for i := 0; i < pages; i++ {
		va := e.d.VerifAllocateC19(e.pid, 4096, 1)
		g := uint64(1)
		if e.nGpus > 1 {
			g = uint64(2 + (e.migPages % (e.nGpus - 1)))
		}
		e.migPages++
		info.GPUReqToVAddrMap[g] = append(info.GPUReqToVAddrMap[g], va)
	}
	accg := make([]uint64, acc)
	for i := range accg {
		accg[i] = uint64(1 + i%e.nGpus)
	}
	q := &vm.PageMigrationReqToDriver{MigrationInfo: info, CurrAccessingGPUs: accg, PID: e.pid, CurrPageHostGPU: 1, PageSize: 4096}
	q.ID = fmt.Sprintf("mmu%d", e.nMMU)
	e.nMMU++
	q.Src, q.Dst = "MMU", e.mmuPort.AsRemote()
	tok := "ok"
	if e.mmuPort.Deliver(q) != nil {
		tok = "full"
	}
	e.emit(fmt.Sprintf("m:%d:%d", acc, pages), tok)
}

func (e *c12fEnv) mmuOut() bool {
	m := e.mmuPort.RetrieveOutgoing()
	if m == nil {
		e.emit("u", "-")
		return false
	}
	e.emit("u", "M")
	return true
}

func (e *c12fEnv) inject(foreignGen bool) {
	var m sim.Msg
	if foreignGen {
		// a GeneralRsp whose OriginalReq is none of FlushReq / MemCopyH2DReq / MemCopyD2HReq
		orig := protocol.NewGPURestartReq(e.gpuPort, e.cps[0])
		m = sim.GeneralRspBuilder{}.WithSrc(e.cps[0].AsRemote()).WithDst(e.gpuPort.AsRemote()).WithOriginalReq(orig).Build()
	} else {
		m = protocol.NewGPURestartReq(e.cps[0], e.gpuPort) // a request type: no switch of the driver takes it
	}
	if e.gpuPort.Deliver(m) != nil {
		return
	}
	e.dirtyIn = true
	if foreignGen {
		e.emit("x", "i")
	} else {
		e.emit("y", "i")
	}
}

func (e *c12fEnv) finish() {
	s := e.snap()
	e.r.Case(e.line(), strings.Join(e.ans, " ")+" | "+s.qs+
		fmt.Sprintf(" | ts=%d aw=%d cyc=%s | hs=%s%s%s n=%d,%d,%d,%d,%d cp=%d | in=%d out=%d min=%d mout=%d ext=%d",
			s.hs.ToSend, s.aw, c12fCyc(s.cyc), c12fB(s.hs.Handling), c12fB(s.hs.MigratingOne), c12fB(s.hs.ToMMU),
			s.hs.Drain, s.hs.ShootDown, s.hs.Migrating, s.hs.Restart, s.hs.RDMARestart, s.hs.ToCP, s.in, s.out, s.min, s.mo, len(e.ext)))
}

func c12fB(b bool) string {
	if b {
		return "1"
	}
	return "0"
}

func c12fCyc(c int) string {
	if c < 0 {
		return "-"
	}
	return strconv.Itoa(c)
}

// settle: the application signals, then the engine runs while events are pending and the GPU side
// takes and answers everything, until nothing moves any more
func (e *c12fEnv) settle() {
	if e.owed {
		e.kick()
	}
	for round := 0; round < 400; round++ {
		moved := false
		for k := 0; k < 200 && e.awake(); k++ {
			e.tick()
			moved = true
		}
		for e.gpuPort.PeekOutgoing() != nil {
			e.retrieve()
			moved = true
		}
		for len(e.ext) > 0 {
			n := len(e.ext)
			e.answer(0)
			if len(e.ext) == n {
				break
			}
			moved = true
		}
		if e.mmuPort.PeekOutgoing() != nil {
			e.mmuOut()
			moved = true
		}
		if !moved {
			break
		}
	}
}

func c12FullScenario(r *Run, rng *Rng, kind string) {
	withMig := kind == "mig" || kind == "mixed"
	h2d := -1
	if kind == "magic" {
		h2d = -2
	}
	e := c12fNew(r, rng, h2d)
	nq := len(e.qs)
	nops := rng.Range(8, 45)
	nmig := 0
	for k := 0; k < nops && e.fails == 0; k++ {
		c := rng.Intn(100)
		if c >= 27 && c < 58 && !e.awake() && rng.Chance(75) {
			c = rng.Intn(27) // the driver sleeps: rather give it something to do than tick it
		}
		switch {
		case c < 22:
			kd := rng.Pick(0, 1, 1, 2, 3)
			if kind == "mig" {
				kd = rng.Pick(0, 1)
			}
			if kind != "mig" && rng.Chance(10) {
				kd = 4
			}
			e.enqueue(rng, rng.Intn(nq), kd)
			if rng.Chance(55) {
				e.kick()
			}
		case c < 27:
			e.kick()
		case c < 58:
			e.tick()
		case c < 74:
			e.retrieve()
		case c < 90:
			if len(e.ext) > 0 {
				g := rng.Pick(1, 1, 2, 3) // often several answers within one cycle
				for j := 0; j < g && len(e.ext) > 0; j++ {
					e.answer(rng.Intn(len(e.ext)))
				}
			} else {
				e.tick()
			}
		case c < 96:
			if withMig && nmig < 3 {
				nmig++
				e.mmuReq(rng.Range(1, e.nGpus), rng.Range(1, 3))
			} else if kind == "foreign" {
				e.inject(rng.Bool())
			} else {
				e.tick()
			}
		default:
			e.mmuOut()
		}
	}
	if e.fails == 0 {
		e.settle()
	}
	e.finish()
	if e.fails == 0 && !e.dirtyIn {
		// W.Full.quiescent_means_drained on the real driver
		r.Checked("full.drained")
		for i, q := range e.qs {
			if q.NumCommand() != 0 {
				e.fail("C12.driver.queue-not-drained", "the driver is asleep, no signal is owed, every request has been answered, but queue %d still holds %d command(s)", i, q.NumCommand())
			}
		}
		if hs := e.d.VerifHandshakeC19(); hs.Handling || e.mcnt.in > 0 {
			e.fail("C12.driver.migration-not-finished", "the driver is asleep, every request has been answered, but a page migration is still being handled: %+v", hs)
		}
	}
	r.Count("full.scenario." + kind)
	for _, o := range e.ans {
		switch {
		case strings.HasPrefix(o, "F"):
			r.Count("full.req.flush")
		case strings.HasPrefix(o, "C"):
			r.Count("full.req.copy")
		case strings.HasPrefix(o, "L"):
			r.Count("full.req.launch")
		case strings.HasPrefix(o, "Mg"):
			r.Count("full.req.page-migration")
		case strings.HasPrefix(o, "M"):
			r.Count("full.migration-answered-to-mmu")
		case strings.HasPrefix(o, "full"):
			r.Count("full.mmu-port-full")
		case o == "0.":
			r.Count("full.tick-to-sleep")
		}
	}
	r.CountN("full.ops", len(e.ops))
}

// The two inputs that show the hypotheses of W.Full.no_lost_wakeup cannot be dropped, replayed on
// the real driver (the model answers the same trace): a message no stage takes blocks the GPU port
// (`no_lost_wakeup_any_message_refuted`), and with the delay line counting the middleware's flag is
// overwritten by `false` (`mw_flag_overwritten`): the tick changes cyclesLeft and reports no progress.
func c12FullWitnesses(r *Run, rng *Rng) {
	{
		e := c12fNew(r, rng, -1)
		e.kick()
		e.tick()
		e.tick()
		e.inject(false)
		e.tick()
		e.enqueue(rng, 0, 1)
		e.kick()
		for i := 0; i < 4; i++ {
			e.tick()
		}
		e.retrieve()
		if len(e.ext) > 0 {
			e.answer(0)
		}
		for i := 0; i < 3; i++ {
			e.tick()
		}
		e.finish()
		r.Checked("full.witness-foreign")
		if e.qs[0].NumCommand() == 0 || e.awake() {
			r.Failf("C12.harness.witness", e.line(), "expected the driver asleep with the kernel command queued behind the unhandled message")
		}
		r.Count("full.witness.foreign")
	}
	{
		e := c12fNew(r, rng, 3)
		e.kick()
		e.tick()
		e.tick()
		e.enqueue(rng, 0, 2) // H2D copy: the delay line starts counting from 3
		e.kick()
		e.tick()
		e.inject(true)
		c0, _, _ := e.d.VerifCopyDelayLineC12()
		e.tick()
		c1, aw, _ := e.d.VerifCopyDelayLineC12()
		e.tick()
		e.finish()
		r.Checked("full.witness-overwritten")
		if !(c0 >= 0 && c1 == c0-1 && !e.awake()) {
			r.Failf("C12.harness.witness", e.line(), "expected a tick that counts the delay line down (%d -> %d, %d waiting) and reports no progress", c0, c1, aw)
		}
		r.Count("full.witness.overwritten")
	}
	{
		// the trace on which the driver used to wedge (W.Full.no_lost_wakeup_any_command_before_fix_refuted):
		// a FlushCommand with a Noop behind it; repaired: it is started, answered and the queue drains
		e := c12fNew(r, rng, -1)
		e.kick()
		e.tick()
		e.tick()
		e.enqueue(rng, 0, 4)
		e.enqueue(rng, 0, 0)
		e.kick()
		e.tick()
		e.tick()
		wedged := e.qs[0].NumCommand() == 2 && !e.awake()
		for round := 0; round < 12; round++ {
			for e.retrieve() {
			}
			if len(e.ext) > 0 {
				e.answer(0) // the port takes one answer at a time
			}
			e.tick()
		}
		e.finish()
		r.Checked("full.witness-unhandled")
		if wedged || e.qs[0].NumCommand() != 0 {
			r.Failf("C12.driver.unhandled-command", e.line(), "Driver.Enqueue accepted a FlushCommand; no stage of Tick and no middleware handles it: Tick reports no progress with the command at the head of its queue, the Noop behind it never runs and DrainCommandQueue on this queue never returns (%d command(s) left)", e.qs[0].NumCommand())
		}
		r.Count("full.witness.unhandled")
	}
	{
		// a command no middleware handles (FlushCommand under the global-storage copy middleware) must fail loudly,
		// naming the type, instead of staying at the head of its queue
		e := c12fNew(r, rng, -2)
		id := sim.GetIDGenerator().Generate()
		e.d.Enqueue(e.qs[0], &driver.FlushCommand{ID: id})
		f := ""
		func() {
			defer func() {
				if x := recover(); x != nil {
					f = fmt.Sprint(x)
				}
			}()
			e.d.Tick()
		}()
		r.Checked("full.witness-unhandled-loud")
		if !strings.Contains(f, "FlushCommand") {
			r.Failf("C12.driver.unhandled-command", "c12 full magic=1 ; f:0 ; T", "a FlushCommand under the global-storage copy middleware has no handler: expected a panic naming the type, got %q with %d command(s) queued", f, e.qs[0].NumCommand())
		}
		r.Count("full.witness.unhandled-loud")
	}
}

func runC12Full(r *Run, rng *Rng, replay string) {
	c12FullWitnesses(r, rng)
	n := 112
	if r.Tier == "thorough" {
		n = 1400
	}
	kinds := []string{"cmd", "cmd", "mig", "mixed", "mixed", "foreign", "magic"}
	for i := 0; i < n; i++ {
		c12FullScenario(r, rng, kinds[i%len(kinds)])
	}
}
