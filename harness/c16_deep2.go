package main

// C16 (second deepening) — scenarios for the parts of the translator brought under the model in the
// second pass; every case is an ordinary `c16 …` scenario line run on the real
// addresstranslator.Comp by runC16Scenario / runC16DeepScenario (same hooks, same oracles):
//
//   - accesses with CanWaitForCoalesce set (trailing `c`): the flag must arrive at the bottom port
//     (payload oracle + `c` in the model's F event);
//   - `pf=1`: the harness scrambles every attribute of the page in a translation reply except PAddr
//     (Valid, IsMigrating, IsPinned, Unified, DeviceID, PageSize, VAddr, PID) — the model ignores
//     them, so diffs=0 shows the translator has no branch on migration-pending / invalid pages;
//   - `xl j paddr`: an untruthful translation service (witness of at_forward_own_page_needs_truth);
//   - page-straddling accesses (witness of at_bytes_refuted);
//   - ticks only, lookup never taken (witness of at_fair_liveness_refuted);
//   - probe: WithLog2PageSize(64) makes the first forwarded access panic (gen_offset_lg64).
//
// Model-independent oracles added here: `C16.forward.pid` (c16.go: physical requests carry PID 0),
// `C16.deep2.unfair-progress`, `C16.deep2.lie-not-followed`, `C16.deep2.straddle-split`,
// `C16.probe.lg64`.

import (
	"fmt"
	"strings"

	"github.com/sarchlab/akita/v4/mem/mem"
	"github.com/sarchlab/akita/v4/mem/vm"
	"github.com/sarchlab/akita/v4/sim"
	"github.com/sarchlab/mgpusim/v4/amd/timing/mem/addresstranslator"
)

func init() { register("C16", runC16Deep2) }

var c16Deep2Fixed = []struct {
	name   string
	closed bool
	ops    []string
}{
	// 4-byte read / 2-byte write whose last bytes lie in the next virtual page (4 KiB pages; the page
	// table maps consecutive virtual pages 8 physical pages apart)
	{"straddle", true, []string{"c16 w=1 lg=12 salt=16", "a 1 1ffe r 4", "t", "dx 1", "xt 0", "t", "a 1 2fff w 0a0b 11", "t", "dx 1", "xt 0", "t", "db 1", "t"}},
	// the translation service answers with a wrong page: the access is forwarded there
	{"lie", false, []string{"c16 w=1 lg=12 salt=16", "a 1 1004 r 4", "t", "dx 1", "xl 0 99000", "t", "db 1", "xm 0", "t", "du 1"}},
	// nobody takes the lookup: ticks alone never forward the access
	{"unfair", false, []string{"c16 w=1 lg=12 salt=16", "a 1 1004 r 4", "t", "t", "t", "t", "t", "t", "t", "t"}},
	// restart NOT preceded by a flush while a memory response waits behind a full top port: the response
	// is discarded, the in-flight record stays for ever (witness of at_restart_needs_flush); the closing
	// rounds cannot complete access 1
	{"restart-no-flush", false, append([]string{"c16 w=1 lg=12 salt=16", "a 1 1004 r 4", "t", "dx 1", "xt 0", "t", "db 1", "xm 0", "t",
		"a 1 2004 r 4", "t", "dx 1", "xt 0", "t", "db 1", "xm 0", "s", "t", "du 1", "dc 1", "t", "t"}, c16Closing(1, 2)...)},
	// split scalar load: all but the last piece may wait for coalescing; two pieces share a page
	{"cwc", true, []string{"c16 w=2 lg=12 salt=16", "a 1 1fc0 r 64 c", "a 1 2000 r 64", "t", "a 2 1fc0 w 0102 11 c", "t", "dx 2", "xt 1", "xt 0", "t", "dx 2", "xt 0", "t", "db 2", "t"}},
	// scrambled page attributes, flush in the middle
	{"pageflags", true, []string{"c16 w=2 lg=8 salt=256 pf=1", "a 1 104 r 4", "a 2 108 r 4", "t", "dx 2", "xt 0", "xt 0", "t", "f", "t", "dc 1", "s", "t", "dc 1", "a 3 310 w 01 1", "t", "dx 1", "xt 0", "t"}},
}

// c16Deep2Mutate adds the second-pass features to a generated scenario.
func c16Deep2Mutate(rng *Rng, ops []string, lies bool) []string {
	out := make([]string, 0, len(ops))
	lg := uint64(12)
	for _, t := range strings.Fields(ops[0]) {
		if strings.HasPrefix(t, "lg=") {
			fmt.Sscanf(t[3:], "%d", &lg)
		}
	}
	hdr := ops[0]
	if rng.Chance(50) {
		hdr += " pf=1"
	}
	out = append(out, hdr)
	for _, o := range ops[1:] {
		switch {
		case strings.HasPrefix(o, "a ") && rng.Chance(35):
			o += " c"
		case lies && strings.HasPrefix(o, "xt ") && rng.Chance(25):
			o = fmt.Sprintf("xl %s %x", o[3:], uint64(rng.Range(1, 200))<<lg)
		}
		out = append(out, o)
	}
	return out
}

// an access whose last byte lies in the following page
func c16StraddleAccess(rng *Rng, lg uint64) string {
	ps := uint64(1) << lg
	n := rng.Pick(2, 4, 8, 16)
	off := ps - uint64(rng.Range(1, n-1))
	va := uint64(rng.Intn(3))*ps + off
	pid := rng.Range(1, 3)
	if rng.Chance(50) {
		return fmt.Sprintf("a %d %x r %d", pid, va, n)
	}
	return fmt.Sprintf("a %d %x w %s -", pid, va, hexb(rng.Bytes(n)))
}

func runC16Deep2(r *Run, rng *Rng, replay string) {
	for _, sc := range c16Deep2Fixed {
		ops := sc.ops
		if sc.closed {
			ops = append(append([]string{}, ops...), c16Closing(2, 6)...)
		}
		e := runC16Scenario(r, ops, sc.closed, "deep2."+sc.name)
		switch sc.name {
		case "unfair":
			r.Checked("deep2.unfair")
			if e.nFwd != 0 || e.nAns != 0 || e.nRecv != 1 {
				r.Failf("C16.deep2.unfair-progress", strings.Join(ops, " ; "), "ticks alone: accepted %d forwarded %d answered %d", e.nRecv, e.nFwd, e.nAns)
			}
		case "lie":
			r.Checked("deep2.lie")
			if e.nFwd != 1 || len(e.oldM) != 1 || c16ReqAddr(e.oldM[0]) != 0x99004 {
				r.Failf("C16.deep2.lie-not-followed", strings.Join(ops, " ; "), "forwarded %d requests", e.nFwd)
			}
		case "restart-no-flush":
			r.Checked("deep2.restart-no-flush")
			_, _, infl := e.comp.VerifC16State()
			if len(infl) != 1 || e.nAns != 1 || e.nRecv != 2 {
				r.Failf("C16.deep2.restart-no-flush", strings.Join(ops, " ; "), "expected the discarded response to leave 1 in-flight record and 1 of 2 accesses answered: inflight %d, answered %d of %d", len(infl), e.nAns, e.nRecv)
			}
		case "straddle":
			r.Checked("deep2.straddle")
			// one forwarded request per access (no split), at the first page's translation
			if e.nFwd != 2 {
				r.Failf("C16.deep2.straddle-split", strings.Join(ops, " ; "), "2 straddling accesses, %d forwarded requests", e.nFwd)
			}
		}
	}
	n, nw := 400, 150
	if r.Tier == "thorough" {
		n, nw = 8000, 3000
	}
	for i := 0; i < n; i++ {
		ops, closed := c16Gen(rng, false)
		lies := rng.Chance(15)
		ops = c16Deep2Mutate(rng, ops, lies)
		if rng.Chance(40) {
			// a page-straddling access in front
			lg := uint64(12)
			for _, t := range strings.Fields(ops[0]) {
				if strings.HasPrefix(t, "lg=") {
					fmt.Sscanf(t[3:], "%d", &lg)
				}
			}
			k := 1 // in front: the closing rounds of a closed scenario must come after it
			ins := []string{c16StraddleAccess(rng, lg), "t"}
			ops = append(append(append([]string{}, ops[:k]...), ins...), ops[k:]...)
		}
		runC16Scenario(r, ops, closed, "deep2.random")
	}
	for i := 0; i < nw; i++ {
		ops := c16DeepGen(rng, false)
		for j := 1; j < len(ops); j++ {
			if strings.HasPrefix(ops[j], "a ") && rng.Chance(35) {
				ops[j] += " c"
			}
		}
		runC16DeepScenario(r, ops, "deep2")
	}
	c16ProbeLg64(r)
	for _, w := range []int{1, 2, 4, 8} {
		c16ProbeCaps(r, w)
	}
	c16ProbeForeign(r)
	c16ProbeBuilder(r)
}

// messages of a foreign Go type violate the ports' contracts: every stage panics on them (type
// assertion / `log.Panicf`) instead of dropping or forwarding them — recorded, outside the property
func c16ProbeForeign(r *Run) {
	for _, where := range []string{"top", "bottom", "translation", "control"} {
		comp := addresstranslator.MakeBuilder().WithEngine(&fakeEngine{}).WithFreq(1 * sim.GHz).WithNumReqPerCycle(1).
			WithMemoryProviderMapper(onePortMapper{"Mem"}).WithTranslationProviderMapper(onePortMapper{"MMU"}).Build("ATf")
		top, bot, tr, ctl := comp.VerifC16Ports()
		conn := &fakeConn{name: "c16f"}
		for _, p := range []sim.Port{top, bot, tr, ctl} {
			p.SetConnection(conn)
		}
		var fault string
		switch where {
		case "top":
			_ = top.Deliver(mem.ControlMsgBuilder{}.WithSrc("X").WithDst(top.AsRemote()).Build())
		case "bottom":
			_ = bot.Deliver(mem.ControlMsgBuilder{}.WithSrc("X").WithDst(bot.AsRemote()).Build())
		case "translation":
			_ = tr.Deliver(mem.ControlMsgBuilder{}.WithSrc("X").WithDst(tr.AsRemote()).Build())
		case "control":
			_ = ctl.Deliver(mem.ReadReqBuilder{}.WithSrc("X").WithDst(ctl.AsRemote()).WithByteSize(4).Build())
		}
		fault = catch(func() { comp.Tick() })
		r.Checked("probe.foreign")
		if fault == "" {
			r.Failf("C16.probe.foreign", "probe foreign "+where, "a message of a foreign type at the %s port was not rejected", where)
		} else {
			r.Count("probe.foreign-type-panics." + where)
		}
	}
}

// Builder.setupMemoryPortMapper / setupTranslationPortMapper: which configurations build, which
// panic, and that the interleaved mapper interleaves at page granularity (1 << log2PageSize)
func c16ProbeBuilder(r *Run) {
	type cfg struct {
		memType  string
		memPorts []sim.RemotePort
		trType   string
		trPorts  []sim.RemotePort
		panics   bool
	}
	two := []sim.RemotePort{"P0", "P1"}
	one := []sim.RemotePort{"P0"}
	cases := []cfg{
		{"single", one, "single", one, false},
		{"interleaved", two, "interleaved", two, false},
		{"single", two, "single", one, true},
		{"single", nil, "single", one, true},
		{"interleaved", nil, "single", one, true},
		{"", one, "single", one, true},
		{"bogus", one, "single", one, true},
		{"single", one, "single", two, true},
		{"single", one, "interleaved", nil, true},
		{"single", one, "", one, true},
	}
	for i, c := range cases {
		line := fmt.Sprintf("probe builder #%d mem=%q/%d tr=%q/%d", i, c.memType, len(c.memPorts), c.trType, len(c.trPorts))
		var comp *addresstranslator.Comp
		fault := catch(func() {
			comp = addresstranslator.MakeBuilder().WithEngine(&fakeEngine{}).WithFreq(1 * sim.GHz).WithNumReqPerCycle(2).
				WithLog2PageSize(8).
				WithMemoryProviderType(c.memType).WithMemoryProviders(c.memPorts...).
				WithTranslationProviderMapperType(c.trType).WithTranslationProviders(c.trPorts...).Build("ATb")
		})
		r.Checked("probe.builder")
		if (fault != "") != c.panics {
			r.Failf("C16.probe.builder", line, "expected panic=%v, got fault %q", c.panics, fault)
			continue
		}
		if c.panics {
			r.Count("probe.builder-rejects")
			continue
		}
		// two accesses to consecutive virtual pages 0x100, 0x200, translated to physical pages 0x700, 0x800
		top, bot, tr, ctl := comp.VerifC16Ports()
		conn := &fakeConn{name: "c16b"}
		for _, p := range []sim.Port{top, bot, tr, ctl} {
			p.SetConnection(conn)
		}
		for _, va := range []uint64{0x104, 0x208} {
			_ = top.Deliver(mem.ReadReqBuilder{}.WithSrc("CU").WithDst(top.AsRemote()).WithPID(1).WithAddress(va).WithByteSize(4).Build())
		}
		comp.Tick()
		for k := 0; k < 2; k++ {
			q, _ := tr.RetrieveOutgoing().(*vm.TranslationReq)
			if q == nil {
				r.Failf("C16.probe.builder", line, "lookup %d not sent", k)
				break
			}
			wantT := c.trPorts[0]
			if c.trType == "interleaved" {
				wantT = c.trPorts[(q.VAddr>>8)%2]
			}
			if q.Dst != wantT {
				r.Failf("C16.probe.builder", line, "lookup for %x sent to %s, expected %s", q.VAddr, q.Dst, wantT)
			}
			_ = tr.Deliver(vm.TranslationRspBuilder{}.WithSrc(q.Dst).WithDst(q.Src).WithRspTo(q.ID).
				WithPage(vm.Page{PID: 1, VAddr: q.VAddr, PAddr: q.VAddr + 0x600, Valid: true}).Build())
		}
		comp.Tick()
		for k := 0; k < 2; k++ {
			b, _ := bot.RetrieveOutgoing().(*mem.ReadReq)
			if b == nil {
				r.Failf("C16.probe.builder", line, "request %d not forwarded", k)
				break
			}
			wantM := c.memPorts[0]
			if c.memType == "interleaved" {
				wantM = c.memPorts[(b.Address>>8)%2]
			}
			if b.Dst != wantM {
				r.Failf("C16.probe.builder", line, "request to %x sent to %s, expected %s", b.Address, b.Dst, wantM)
			}
		}
		r.Count("probe.builder-routes." + c.memType)
	}
}

// Builder.createPorts: the incoming buffers of Top / Bottom / Translation hold numReqPerCycle
// messages, the control port exactly one (gen_ports) — probed on the real ports.
func c16ProbeCaps(r *Run, w int) {
	line := fmt.Sprintf("probe caps w=%d", w)
	comp := addresstranslator.MakeBuilder().
		WithEngine(&fakeEngine{}).
		WithFreq(1 * sim.GHz).
		WithNumReqPerCycle(w).
		WithMemoryProviderMapper(onePortMapper{"Mem"}).
		WithTranslationProviderMapper(onePortMapper{"MMU"}).
		Build("ATcap")
	top, bot, tr, ctl := comp.VerifC16Ports()
	conn := &fakeConn{name: "c16c"}
	for _, p := range []sim.Port{top, bot, tr, ctl} {
		p.SetConnection(conn)
	}
	fill := func(p sim.Port, mk func() sim.Msg) int {
		n := 0
		for n < 64 && p.Deliver(mk()) == nil {
			n++
		}
		return n
	}
	got := []int{
		fill(top, func() sim.Msg {
			return mem.ReadReqBuilder{}.WithSrc("CU").WithDst(top.AsRemote()).WithAddress(0).WithByteSize(4).Build()
		}),
		fill(bot, func() sim.Msg { return mem.WriteDoneRspBuilder{}.WithSrc("Mem").WithDst(bot.AsRemote()).WithRspTo("x").Build() }),
		fill(tr, func() sim.Msg {
			return vm.TranslationRspBuilder{}.WithSrc("MMU").WithDst(tr.AsRemote()).WithRspTo("x").Build()
		}),
		fill(ctl, func() sim.Msg {
			return mem.ControlMsgBuilder{}.WithSrc("Ctl").WithDst(ctl.AsRemote()).ToDiscardTransactions().Build()
		}),
	}
	r.Checked("probe.caps")
	if got[0] != w || got[1] != w || got[2] != w || got[3] != 1 {
		r.Failf("C16.probe.capacity", line, "incoming capacities top/bottom/translation/control = %v, expected %d/%d/%d/1", got, w, w, w)
	}
}

func c16ReqAddr(m interface{ GetAddress() uint64 }) uint64 { return m.GetAddress() }

// WithLog2PageSize(64): `req.Address % (1 << 64)` divides by zero on the first forwarded access
func c16ProbeLg64(r *Run) {
	line := "probe lg=64"
	comp := addresstranslator.MakeBuilder().
		WithEngine(&fakeEngine{}).
		WithFreq(1 * sim.GHz).
		WithNumReqPerCycle(1).
		WithLog2PageSize(64).
		WithMemoryProviderMapper(onePortMapper{"Mem"}).
		WithTranslationProviderMapper(onePortMapper{"MMU"}).
		Build("AT64")
	top, bot, tr, ctl := comp.VerifC16Ports()
	conn := &fakeConn{name: "c16p"}
	for _, p := range []sim.Port{top, bot, tr, ctl} {
		p.SetConnection(conn)
	}
	fault := catch(func() {
		_ = top.Deliver(mem.ReadReqBuilder{}.WithSrc("CU").WithDst(top.AsRemote()).WithPID(1).
			WithAddress(0x1004).WithByteSize(4).Build())
		comp.Tick()
		q, _ := tr.RetrieveOutgoing().(*vm.TranslationReq)
		if q == nil {
			panic("no lookup sent")
		}
		_ = tr.Deliver(vm.TranslationRspBuilder{}.WithSrc("MMU").WithDst(q.Src).WithRspTo(q.ID).
			WithPage(vm.Page{PID: 1, PAddr: 0x7000, Valid: true}).Build())
		comp.Tick()
	})
	r.Checked("probe.lg64")
	if strings.Contains(fault, "divide_by_zero") || strings.Contains(fault, "divide by zero") {
		r.Count("probe.lg64-divide-by-zero")
	} else {
		r.Failf("C16.probe.lg64", line, "expected an integer-divide-by-zero panic, got fault %q, forwarded %v", fault, bot.PeekOutgoing() != nil)
	}
}
