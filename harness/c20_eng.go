package main

import (
	"fmt"
	"io"
	"os"
	"runtime"
	"strings"

	"github.com/sarchlab/akita/v4/sim"
	log "github.com/sirupsen/logrus"
)

// C20, engine part: ties the abstract Akita engine of lean/MgpuModel/C20_Engine.lean (`EngRun`) to the
// real sim.SerialEngine.  Every TickScheduler of the real platform gets its own engine wrapper (the
// field TickScheduler.Engine is exported), so the harness sees, per handled event, (1) every
// TickLater/TickNow call on every component (each calls Engine.CurrentTime exactly once) and (2)
// every event these calls really schedule.  Case line `c20 eng <cfg> ; <initial queue> ; e+new+new …`.

func init() { register("C20", runC20Eng) }

// c20eEngine wraps the real serial engine for ONE tick scheduler (handler index h).
type c20eEngine struct {
	*sim.SerialEngine
	rec *c20eRec
	h   int
}

func (w *c20eEngine) Schedule(evt sim.Event) {
	h, ok := w.rec.byHandler[evt.Handler()]
	if !ok {
		h = w.h
	}
	w.rec.onSchedule(h)
	w.SerialEngine.Schedule(evt)
}

// CurrentTime is called once by every TickLater/TickNow (TickScheduler.CurrentTime); other callers
// (Driver.processDeviceMsg reads the time through the same field) are told apart by the call stack.
func (w *c20eEngine) CurrentTime() sim.VTimeInSec {
	var pcs [3]uintptr
	n := runtime.Callers(2, pcs[:])
	if n > 0 {
		fr, _ := runtime.CallersFrames(pcs[:n]).Next()
		if strings.HasSuffix(fr.Function, "TickScheduler).CurrentTime") {
			w.rec.onWake(w.h)
		}
	}
	return w.SerialEngine.CurrentTime()
}

type c20eRec struct {
	s         *c20Sys
	mode      string
	toks      []string // all handlers in the order of the model's allEvs
	byTok     map[string]int
	byHandler map[sim.Handler]int
	pend      []int  // real pending events per handler (scheduled - handled)
	flag      []bool // a TickLater/TickNow call happened since the handler's last Handle began
	cur       int
	curSched  []int
	selfWake  bool
	otherWake bool
	curSpur   bool
	init      []string
	steps     []string
	ev        int
	spurious  int
	spurBy    map[byte]int
	missed    int
	fl        uint64
	bad       string // index+rule of the first broken engine rule, real side
	fails     [][2]string
}

func (c *c20eRec) fail(sig, detail string) {
	if len(c.fails) < 4 {
		c.fails = append(c.fails, [2]string{sig, detail})
	}
}

func (c *c20eRec) onSchedule(h int) {
	c.pend[h]++
	if c.cur < 0 {
		c.init = append(c.init, c.toks[h])
		return
	}
	c.curSched = append(c.curSched, h)
}

func (c *c20eRec) onWake(h int) {
	c.flag[h] = true
	if c.cur < 0 {
		return
	}
	if h == c.cur {
		c.selfWake = true
	} else {
		c.otherWake = true
	}
}

func (c *c20eRec) before(h int) {
	c.cur, c.curSched, c.selfWake, c.otherWake = h, c.curSched[:0], false, false
	c.curSpur = !c.flag[h]
	c.flag[h] = false
	c.pend[h]--
	if c.pend[h] < 0 {
		c.fail("C20.engine.unscheduled_event", fmt.Sprintf("event %d: %s handled without a scheduled event", c.ev, c.toks[h]))
	}
}

func (c *c20eRec) markBad(rule string) {
	if c.bad == "" {
		c.bad = fmt.Sprintf("%d%s", c.ev, rule)
	}
}

func (c *c20eRec) after() {
	h := c.cur
	var b strings.Builder
	b.WriteString(c.toks[h])
	seen := map[int]bool{}
	for _, x := range c.curSched {
		b.WriteString("+" + c.toks[x])
		if seen[x] {
			c.markBad("b")
			c.fail("C20.engine.double_schedule", fmt.Sprintf("event %d (%s): %s scheduled twice during one Handle", c.ev, c.toks[h], c.toks[x]))
		}
		seen[x] = true
	}
	c.steps = append(c.steps, b.String())
	if !c.selfWake && (len(c.curSched) > 0 || c.otherWake) {
		c.markBad("a")
		c.fail("C20.engine.noprogress_schedules", fmt.Sprintf("event %d: Tick of %s returned false (no TickLater on itself) but woke other components (scheduled: %s)", c.ev, c.toks[h], b.String()))
	}
	if c.curSpur {
		c.spurious++
		c.spurBy[c.toks[h][0]]++
		if c.selfWake {
			c.missed++
			c.fail("C20.engine.spurious_progress", fmt.Sprintf("event %d: %s ticked with progress although nothing had woken it since its last tick", c.ev, c.toks[h]))
		}
	}
	for i, f := range c.flag {
		if f && c.pend[i] == 0 {
			c.markBad("c")
			c.fail("C20.engine.wake_without_event", fmt.Sprintf("event %d (%s): %s was woken but has no event pending", c.ev, c.toks[h], c.toks[i]))
		}
		v := uint64(0)
		if f {
			v = 1
		}
		c.fl = (c.fl*1000003 + v + 1) % 4294967296
	}
	c.ev++
	c.cur = -1
}

// c20eWeight = Lean `traceWeight`: the potential Phi of the initial state
func c20eWeight(t c20Trace) int {
	w := 0
	for _, k := range t {
		w += 6
		for _, b := range k {
			w += 6
			for _, n := range b {
				w += n + 6
			}
		}
	}
	if len(t) > 0 {
		w += 3
	}
	return w
}

// frequencies: small integers (and 1 GHz for connections) only — Freq.ThisTick rounds to a tenth of a
// cycle, a time within 0.05 cycle after a grid point would be scheduled into the past.
func c20eFreq(mode string, rng *Rng, tok string) (sim.Freq, bool) {
	conn := tok[0] == 'x' || tok[0] == 'y' || tok[0] == 'z'
	switch mode {
	case "equal":
		return 1 * sim.GHz, true
	case "coprime":
		return map[byte]sim.Freq{'D': 2, 'G': 3, 'S': 5, 'U': 7, 'x': 7, 'y': 4, 'z': 3}[tok[0]], true
	case "random":
		if conn && rng.Chance(40) {
			return 1 * sim.GHz, true
		}
		return sim.Freq(rng.Range(1, 7)), true
	}
	return 0, false // "default": as built (1 Hz, connections of GPU/SM 1 GHz)
}

func c20eInstall(s *c20Sys, mode string, rng *Rng) *c20eRec {
	c := &c20eRec{s: s, mode: mode, byTok: map[string]int{}, byHandler: map[sim.Handler]int{}, cur: -1, spurBy: map[byte]int{}}
	c.toks = []string{"D", "x"}
	for _, p := range []struct {
		pre string
		n   int
	}{{"G", s.G}, {"y", s.G}, {"S", s.G * s.S}, {"z", s.G * s.S}, {"U", s.G * s.S * s.C}} {
		for i := 0; i < p.n; i++ {
			c.toks = append(c.toks, fmt.Sprintf("%s%d", p.pre, i))
		}
	}
	for i, t := range c.toks {
		c.byTok[t] = i
	}
	c.pend = make([]int, len(c.toks))
	c.flag = make([]bool, len(c.toks))
	eng := s.p.Engine.(*sim.SerialEngine)
	for h, tok := range s.handlers {
		i, ok := c.byTok[tok]
		if !ok {
			continue
		}
		c.byHandler[h] = i
	}
	// deterministic order for the random frequencies
	byIdx := make([]*sim.TickingComponent, len(c.toks))
	for h, i := range c.byHandler {
		byIdx[i] = h.(*sim.TickingComponent)
	}
	for i, tc := range byIdx {
		if tc == nil {
			continue
		}
		tc.TickScheduler.Engine = &c20eEngine{SerialEngine: eng, rec: c, h: i}
		if f, ok := c20eFreq(mode, rng, c.toks[i]); ok {
			tc.TickScheduler.Freq = f
		}
	}
	eng.AcceptHook(&c20Hook{f: func(ctx sim.HookCtx) {
		switch ctx.Pos {
		case sim.HookPosBeforeEvent:
			if i, ok := c.byHandler[ctx.Item.(sim.Event).Handler()]; ok {
				c.before(i)
			}
		case sim.HookPosAfterEvent:
			if c.cur >= 0 {
				c.after()
			}
		}
	}})
	return c
}

func c20eFinish(r *Run, c *c20eRec, t c20Trace, idle bool) {
	s := c.s
	cfg := fmt.Sprintf("c20 eng g=%d s=%d c=%d k=%s", s.G, s.S, s.C, t.String())
	qend := 0
	for _, p := range c.pend {
		qend += p
	}
	bound := 1 + c20eWeight(t)*len(c.toks)
	line := cfg + " ; " + strings.Join(c.init, " ") + " ; " + strings.Join(c.steps, " ")
	bad, valid := "-", 1
	if c.bad != "" {
		bad, valid = c.bad, 0
	}
	fin := 0
	if idle {
		fin = 1
	}
	r.Case(line, fmt.Sprintf("ev=%d valid=%d firstbad=%s spurious=%d missed=%d qend=%d bound=%d finished=%d fl=%d",
		c.ev, valid, bad, c.spurious, c.missed, qend, bound, fin, c.fl))
	r.Count("eng:freq=" + c.mode)
	r.CountN("eng:events", c.ev)
	r.CountN("eng:events_spurious", c.spurious)
	r.CountN("eng:events_spurious:freq="+c.mode, c.spurious)
	r.CountN("eng:events:freq="+c.mode, c.ev)
	if c.spurious > 0 {
		r.Count("eng:runs_with_spurious_ticks")
	}
	for k, v := range c.spurBy {
		r.CountN("eng:events_spurious:of="+string(k), v)
	}
	r.Checked("engine.rules")
	for _, f := range c.fails {
		r.Failf(f[0], line, "freq=%s: %s", c.mode, f[1])
	}
	r.Checked("engine.bound")
	if c.ev > bound {
		r.Failf("C20.engine.bound", cfg, "freq=%s: the engine handled %d events, the bound 1 + Phi*N is %d", c.mode, c.ev, bound)
	}
	r.Checked("engine.queue_empty")
	if qend != 0 || len(c.init) != 1 || c.init[0] != "D" {
		r.Failf("C20.engine.queue_nonempty_at_end", cfg, "freq=%s: engine returned with %d events pending (initial queue %v)", c.mode, qend, c.init)
	}
	for i, f := range c.flag {
		if f {
			r.Failf("C20.engine.queue_nonempty_at_end", cfg, "freq=%s: engine returned although %s was woken after its last tick", c.mode, c.toks[i])
			break
		}
	}
}

func runC20Eng(r *Run, rng *Rng, replay string) {
	log.SetOutput(io.Discard)
	log.SetLevel(log.PanicLevel)
	devnull, _ := os.OpenFile(os.DevNull, os.O_WRONLY, 0)
	stdout := os.Stdout
	os.Stdout = devnull // Driver prints the finish time with fmt.Println
	defer func() { os.Stdout = stdout }()

	var rec *c20eRec
	mode := "default"
	c20AfterBuild = func(s *c20Sys) { rec = c20eInstall(s, mode, rng) }
	c20AfterRun = func(r *Run, s *c20Sys, t c20Trace, idle bool) { c20eFinish(r, rec, t, idle) }
	defer func() { c20AfterBuild, c20AfterRun = nil, nil }()

	modes := []string{"default", "equal", "coprime", "random"}
	// fixed witnesses under every frequency assignment
	for _, w := range []struct {
		g, s, c int
		t       c20Trace
	}{
		{1, 1, 2, c20Trace{{{0, 5}}}},
		{1, 1, 1, c20Trace{{}}},
		{1, 1, 1, c20Trace{}},
		{1, 2, 2, c20Trace{{{}, {3, 3}}, {{1}}}},
		{2, 1, 1, c20Trace{{}, {{2}}, {{1, 1}}}},
		{1, 1, 4, c20Trace{{{5, 5, 5, 5, 5, 5}}}},
		{1, 4, 4, c20Trace{{{1, 1, 1, 1}, {1, 1, 1, 1}, {1, 1, 1, 1}, {1, 1, 1, 1}, {1, 1, 1, 1}, {1, 1, 1, 1}}}},
		{3, 2, 2, c20Trace{{{2, 2}, {2, 2}, {2, 2}}, {{2, 2}, {2, 2}}, {{1}}, {{1}}, {{}}}},
		{1, 1, 4, c20Trace{{{0, 0, 0, 0, 0, 0, 0, 0}}}},
		{1, 1, 5, c20Trace{{{0, 0, 0, 0, 0, 0, 0, 0, 0, 0}}}},
		{1, 1, 6, c20Trace{{{1, 1, 1, 1, 1, 1, 1, 1, 1, 1, 1, 1}}}},
		{1, 1, 8, c20Trace{{{1, 1, 1, 1, 1, 1, 1, 1, 1, 1, 1, 1, 1, 1, 1, 1}}}},
		{1, 1, 8, c20Trace{{{2, 0, 2, 0, 2, 0, 2, 0, 2, 0, 2, 0, 2, 0, 2, 0}}}},
		{1, 4, 1, c20Trace{{{}, {}, {}, {}, {}, {}, {}, {}}}},
		{1, 4, 1, c20Trace{{{0}, {0}, {0}, {0}, {0}, {0}, {0}, {0}}}},
	} {
		for _, m := range modes {
			mode = m
			c20RunCase(r, w.g, w.s, w.c, w.t)
		}
	}
	n := 1000
	if r.Tier == "thorough" {
		n = 10000
	}
	for i := 0; i < n; i++ {
		G, S, C := rng.Range(1, 3), rng.Range(1, 4), rng.Pick(1, 2, 3, 4, 4, 5, 6, 8)
		t := c20GenTrace(rng, rng.Chance(45))
		mode = modes[i%len(modes)]
		if i%4 == 1 {
			// pressure: many short warps on >= 4 sub-cores fill the SM's inbox; taking a message from a
			// full buffer wakes every sibling in the same cycle (the source of spurious ticks)
			G, S, C = rng.Range(1, 2), rng.Range(1, 2), rng.Pick(4, 4, 5, 6, 8)
			t = c20Trace{}
			for k := rng.Range(1, 2); k > 0; k-- {
				kk := [][]int{}
				for b := rng.Range(1, 3); b > 0; b-- {
					bb := []int{}
					for w := rng.Range(5, 12); w > 0; w-- {
						bb = append(bb, rng.Range(0, 3))
					}
					kk = append(kk, bb)
				}
				t = append(t, kk)
			}
			r.Count("eng:pressure")
		}
		if i%len(modes) == 0 || rng.Chance(30) {
			// the same input under two frequency assignments
			c20RunCase(r, G, S, C, t)
			mode = modes[1+rng.Intn(len(modes)-1)]
		}
		c20RunCase(r, G, S, C, t)
	}
}
