package main

import (
	"fmt"
	"strconv"
	"strings"

	"github.com/sarchlab/akita/v4/mem/cache"
	"github.com/sarchlab/akita/v4/mem/mem"
	"github.com/sarchlab/akita/v4/mem/vm"
	"github.com/sarchlab/akita/v4/mem/vm/tlb"
	"github.com/sarchlab/akita/v4/sim"
	"github.com/sarchlab/mgpusim/v4/amd/protocol"
	"github.com/sarchlab/mgpusim/v4/amd/timing/cp"
	"github.com/sarchlab/mgpusim/v4/amd/timing/pagemigrationcontroller"
	"github.com/sarchlab/mgpusim/v4/amd/timing/rdma"
)

// The command processor's control path (amd/timing/cp/ctrlMiddleware.go) on the REAL
// cp.CommandProcessor, ticked by hand: the driver, the RDMA engine, the compute units, the address
// translators, the caches, the TLBs and the page migration controller are fake remote ports. The
// harness delivers the driver's commands and the components' acknowledgements in any order and takes
// what the CP sends, leaving messages in the outgoing buffers to create back-pressure. A message the
// harness could not deliver (`full`) is kept, never dropped. Case lines `c19 cp …` are answered by
// `C19.CP.handle` (Lean model `MgpuModel/C19_Cp.lean`). The oracles watch the CP's ports through Akita
// port hooks (every Send / RetrieveIncoming in program order inside a tick), independent of the model.

func init() { register("C19", runC19Cp) }

const (
	c19CpR = iota // RDMA engine
	c19CpC        // compute units
	c19CpA        // address translators
	c19CpH        // caches (L1I ++ L1S ++ L1V ++ L2)
	c19CpL        // TLBs
	c19CpP        // page migration controller
	c19CpN
)

const c19CpClsLetters = "rcahlp"

var c19CpClsNames = [c19CpN]string{"RDMA engine", "compute units", "address translators", "caches", "TLBs", "page migration controller"}

// the classes a command has to serve, in order: {class, kind} with kind 0 = flush-like, 1 = restart
var c19CpChain = map[byte][][2]int{
	'D': {{c19CpR, 0}},
	'A': {{c19CpR, 1}},
	'S': {{c19CpC, 0}, {c19CpA, 0}, {c19CpH, 0}, {c19CpL, 0}},
	'G': {{c19CpH, 1}, {c19CpL, 1}, {c19CpA, 1}, {c19CpC, 1}},
	'M': {{c19CpP, 0}},
}

type c19CpHook struct{ f func(ctx sim.HookCtx) }

func (h *c19CpHook) Func(ctx sim.HookCtx) { h.f(ctx) }

type c19CpCfg struct {
	cu, at, tlb, l1i, l1s, l1v, l2                 int
	cin, cdrv, crdma, ccu, cat, ccache, ctlb, cpmc int
}

func c19CpDefaultCfg() c19CpCfg {
	return c19CpCfg{1, 1, 1, 1, 1, 1, 1, 4096, 4096, 4096, 4096, 4096, 4096, 4096, 4096}
}

func (g c19CpCfg) head() string {
	return fmt.Sprintf("c19 cp cu=%d at=%d tlb=%d l1i=%d l1s=%d l1v=%d l2=%d cin=%d cdrv=%d crdma=%d ccu=%d cat=%d ccache=%d ctlb=%d cpmc=%d",
		g.cu, g.at, g.tlb, g.l1i, g.l1s, g.l1v, g.l2, g.cin, g.cdrv, g.crdma, g.ccu, g.cat, g.ccache, g.ctlb, g.cpmc)
}

func (g c19CpCfg) size(cls int) int {
	switch cls {
	case c19CpC:
		return g.cu
	case c19CpA:
		return g.at
	case c19CpH:
		return g.l1i + g.l1s + g.l1v + g.l2
	case c19CpL:
		return g.tlb
	}
	return 1
}

func (g c19CpCfg) outCap(cls int) int {
	return [c19CpN]int{g.crdma, g.ccu, g.cat, g.ccache, g.ctlb, g.cpmc}[cls]
}

// a sub-request the component side has taken and not yet acknowledged
type c19CpSub struct {
	k   byte // 'F' / 'R'
	i   int
	msg sim.Msg
}

type c19CpDeferred struct {
	cls  int
	sig  string
	text string
}

type c19CpSnap struct {
	st          cp.VerifCtrlStateC19
	nSend, nRet int
	heads       [2 * (c19CpN + 1)]sim.Msg
}

type c19CpEnv struct {
	r      *Run
	c      *cp.CommandProcessor
	cfg    c19CpCfg
	honest bool
	kind   string

	port      [c19CpN]sim.Port         // the CP's port of the class
	comp      [c19CpN][]sim.RemotePort // the components' ports
	idx       [c19CpN]map[sim.RemotePort]int
	drv       sim.Port
	remotePMC sim.Port

	ops   []string
	out   []string
	fault string

	pend     [c19CpN][]c19CpSub
	shoots   []*protocol.ShootDownCommand
	migs     []*protocol.PageMigrationReqToCP
	flushes  []*protocol.FlushReq
	ansTaken []string // answers the driver side has taken
	ansSent  []string // answers the CP has sent (hook)

	// occupancy, maintained by the hooks and by the harness's own Deliver / RetrieveOutgoing
	outLen [c19CpN]int
	inLen  [c19CpN]int
	drvOut int
	drvIn  int
	nSend  int
	nRet   int

	// oracle state (honest scenarios)
	cur      byte // the outstanding command, 0 = none
	curID    int
	lastAns  byte
	sent     [c19CpN][2][]int
	outst    [c19CpN]int
	deferred []c19CpDeferred
	fails    map[string]int
}

func (e *c19CpEnv) line() string { return strings.Join(e.ops, " ; ") }

func (e *c19CpEnv) fail(sig, format string, a ...interface{}) {
	// at most two reports per signature and scenario
	if e.fails == nil {
		e.fails = map[string]int{}
	}
	if e.fails[sig] < 2 {
		e.r.Failf(sig, e.line(), format, a...)
	}
	e.fails[sig]++
}

func newC19CpEnv(r *Run, cfg c19CpCfg, honest bool, kind string) *c19CpEnv {
	e := &c19CpEnv{r: r, cfg: cfg, honest: honest, kind: kind}
	c := cp.MakeBuilder().WithEngine(&fakeEngine{}).WithFreq(1 * sim.GHz).Build("CP")
	e.c = c
	repl := func(old sim.Port, cout int, name string) sim.Port {
		if cfg.cin == 4096 && cout == 4096 {
			return old
		}
		return sim.NewPort(c, cfg.cin, cout, name)
	}
	c.ToDriver = repl(c.ToDriver, cfg.cdrv, "CP.ToDriver")
	c.ToRDMA = repl(c.ToRDMA, cfg.crdma, "CP.ToRDMA")
	c.ToCUs = repl(c.ToCUs, cfg.ccu, "CP.ToCUs")
	c.ToAddressTranslators = repl(c.ToAddressTranslators, cfg.cat, "CP.ToAddressTranslators")
	c.ToCaches = repl(c.ToCaches, cfg.ccache, "CP.ToCaches")
	c.ToTLBs = repl(c.ToTLBs, cfg.ctlb, "CP.ToTLBs")
	c.ToPMC = repl(c.ToPMC, cfg.cpmc, "CP.ToPMC")
	conn := &fakeConn{name: "c19cp"}
	for _, p := range []sim.Port{c.ToDriver, c.ToDMA, c.ToRDMA, c.ToCUs, c.ToAddressTranslators, c.ToCaches, c.ToTLBs, c.ToPMC} {
		conn.PlugIn(p)
	}
	e.port = [c19CpN]sim.Port{c.ToRDMA, c.ToCUs, c.ToAddressTranslators, c.ToCaches, c.ToTLBs, c.ToPMC}
	e.drv = sim.NewPort(nil, 4, 4, "FakeDriver.GPU")
	e.remotePMC = sim.NewPort(nil, 4, 4, "FakeRemoteGPU.PMC.Remote")
	c.Driver = e.drv
	for cls := 0; cls < c19CpN; cls++ {
		e.idx[cls] = map[sim.RemotePort]int{}
	}
	mk := func(cls int, kind string, n int) []sim.Port {
		var l []sim.Port
		for i := 0; i < n; i++ {
			p := sim.NewPort(nil, 4, 4, fmt.Sprintf("Fake%s%d.Ctrl", kind, i))
			e.idx[cls][p.AsRemote()] = len(e.comp[cls])
			e.comp[cls] = append(e.comp[cls], p.AsRemote())
			l = append(l, p)
		}
		return l
	}
	c.RDMA = mk(c19CpR, "RDMA", 1)[0]
	c.PMC = mk(c19CpP, "PMC", 1)[0]
	for _, p := range mk(c19CpC, "CU", cfg.cu) {
		c.CUs = append(c.CUs, p.AsRemote())
	}
	c.AddressTranslators = mk(c19CpA, "AT", cfg.at)
	c.TLBs = mk(c19CpL, "TLB", cfg.tlb)
	c.L1ICaches = mk(c19CpH, "L1I", cfg.l1i)
	c.L1SCaches = mk(c19CpH, "L1S", cfg.l1s)
	c.L1VCaches = mk(c19CpH, "L1V", cfg.l1v)
	c.L2Caches = mk(c19CpH, "L2", cfg.l2)
	for cls := 0; cls < c19CpN; cls++ {
		e.sent[cls][0] = make([]int, len(e.comp[cls]))
		e.sent[cls][1] = make([]int, len(e.comp[cls]))
		e.port[cls].AcceptHook(&c19CpHook{e.hookCls(cls)})
	}
	c.ToDriver.AcceptHook(&c19CpHook{e.hookDrv})
	e.ops = []string{cfg.head()}
	return e
}

// ---- classification of messages

// c19CpSubKind: the kind of a sub-request of the class (0 flush-like, 1 restart)
func c19CpSubKind(cls int, m sim.Msg) (int, bool) {
	switch q := m.(type) {
	case *rdma.DrainReq:
		return 0, cls == c19CpR
	case *rdma.RestartReq:
		return 1, cls == c19CpR
	case *protocol.CUPipelineFlushReq:
		return 0, cls == c19CpC
	case *protocol.CUPipelineRestartReq:
		return 1, cls == c19CpC
	case *mem.ControlMsg:
		if q.DiscardTransations && !q.Restart {
			return 0, cls == c19CpA
		}
		if q.Restart && !q.DiscardTransations {
			return 1, cls == c19CpA
		}
	case *cache.FlushReq:
		return 0, cls == c19CpH
	case *cache.RestartReq:
		return 1, cls == c19CpH
	case *tlb.FlushReq:
		return 0, cls == c19CpL
	case *tlb.RestartReq:
		return 1, cls == c19CpL
	case *pagemigrationcontroller.PageMigrationReqToPMC:
		return 0, cls == c19CpP
	}
	return 0, false
}

// c19CpIsAck: is m an acknowledgement the CP's port of the class understands
func c19CpIsAck(cls int, m sim.Msg) bool {
	switch m.(type) {
	case *rdma.DrainRsp, *rdma.RestartRsp:
		return cls == c19CpR
	case *protocol.CUPipelineFlushRsp, *protocol.CUPipelineRestartRsp:
		return cls == c19CpC
	case *mem.ControlMsg:
		return cls == c19CpA
	case *cache.FlushRsp, *cache.RestartRsp:
		return cls == c19CpH
	case *tlb.FlushRsp, *tlb.RestartRsp:
		return cls == c19CpL
	case *pagemigrationcontroller.PageMigrationRspFromPMC:
		return cls == c19CpP
	}
	return false
}

func c19CpAnsKind(m sim.Msg) byte {
	switch m.(type) {
	case *protocol.RDMADrainRspToDriver:
		return 'D'
	case *protocol.RDMARestartRspToDriver:
		return 'A'
	case *protocol.ShootDownCompleteRsp:
		return 'S'
	case *protocol.GPURestartRsp:
		return 'G'
	case *protocol.PageMigrationRspToDriver:
		return 'M'
	case *sim.GeneralRsp:
		return 'F'
	}
	return '?'
}

func c19CpEqU64(a, b []uint64) bool {
	if len(a) != len(b) {
		return false
	}
	for i := range a {
		if a[i] != b[i] {
			return false
		}
	}
	return true
}

func (e *c19CpEnv) shootIDOf(q *tlb.FlushReq) int {
	for k, s := range e.shoots {
		if s.PID == q.PID && c19CpEqU64(s.VAddr, q.VAddr) {
			return k
		}
	}
	return 999
}

func (e *c19CpEnv) migIDOf(q *pagemigrationcontroller.PageMigrationReqToPMC) int {
	for k, s := range e.migs {
		if s.PageSize == q.PageSize && s.ToReadFromPhysicalAddress == q.ToReadFromPhysicalAddress &&
			s.ToWriteToPhysicalAddress == q.ToWriteToPhysicalAddress && q.PMCPortOfRemoteGPU == e.remotePMC.AsRemote() {
			return k
		}
	}
	return 999
}

func (e *c19CpEnv) tagOf(m sim.Msg) int {
	switch q := m.(type) {
	case *cache.FlushReq:
		if q.PauseAfterFlushing && q.DiscardInflight && q.InvalidateAllCachelines {
			return 1
		}
		if !q.PauseAfterFlushing && !q.DiscardInflight && !q.InvalidateAllCachelines {
			return 0
		}
		return 2
	case *tlb.FlushReq:
		return e.shootIDOf(q)
	case *pagemigrationcontroller.PageMigrationReqToPMC:
		return e.migIDOf(q)
	}
	return 0
}

// ---- hooks: occupancy for every scenario, the oracles for the honest ones

func (e *c19CpEnv) hookCls(cls int) func(ctx sim.HookCtx) {
	return func(ctx sim.HookCtx) {
		switch ctx.Pos {
		case sim.HookPosPortMsgSend:
			e.nSend++
			e.outLen[cls]++
			if e.honest {
				e.onSub(cls, ctx.Item.(sim.Msg))
			}
		case sim.HookPosPortMsgRetrieveIncoming:
			e.nRet++
			e.inLen[cls]--
			if e.honest {
				e.onRetrieve(cls, ctx.Item.(sim.Msg))
			}
		}
	}
}

func (e *c19CpEnv) hookDrv(ctx sim.HookCtx) {
	switch ctx.Pos {
	case sim.HookPosPortMsgSend:
		e.nSend++
		e.drvOut++
		m := ctx.Item.(sim.Msg)
		e.ansSent = append(e.ansSent, string(c19CpAnsKind(m)))
		if e.honest {
			e.onAnswer(m)
		}
	case sim.HookPosPortMsgRetrieveIncoming:
		e.nRet++
		e.drvIn--
		if e.honest {
			e.onRetrieve(-1, ctx.Item.(sim.Msg))
		}
	}
}

func (e *c19CpEnv) clsServed(cls, k int) (all bool, total int) {
	all = true
	for _, n := range e.sent[cls][k] {
		total += n
		if n == 0 {
			all = false
		}
	}
	return all, total
}

// needAcked: class cls must have no unacknowledged sub-request. The handlers decrement their counter,
// send and only then retrieve the acknowledgement they are working on, so exactly one outstanding
// acknowledgement is tolerated if the very next RetrieveIncoming of the CP consumes it.
func (e *c19CpEnv) needAcked(cls int, tolerateHead bool, sig, text string) {
	switch {
	case e.outst[cls] == 0:
	case e.outst[cls] == 1 && tolerateHead:
		e.deferred = append(e.deferred, c19CpDeferred{cls, sig, text})
	default:
		e.fail(sig, "%s: %d sub-request(s) to the %s are not acknowledged", text, e.outst[cls], c19CpClsNames[cls])
	}
}

func (e *c19CpEnv) cmdName() string {
	if e.cur == 0 {
		return "no command"
	}
	return fmt.Sprintf("command %c", e.cur)
}

func (e *c19CpEnv) onSub(cls int, m sim.Msg) {
	e.r.Checked("cp.subreq")
	k, ok := c19CpSubKind(cls, m)
	if !ok {
		e.fail("C19.cp.misrouted", "a %T was sent through the CP's port to the %s", m, c19CpClsNames[cls])
		return
	}
	e.outst[cls]++
	i, ok := e.idx[cls][m.Meta().Dst]
	if !ok || m.Meta().Src != e.port[cls].AsRemote() {
		e.fail("C19.cp.misrouted", "a %T to the %s goes from %s to %s, which is no component of that class", m, c19CpClsNames[cls], m.Meta().Src, m.Meta().Dst)
		return
	}
	kn := [2]string{"flush", "restart"}[k]
	if e.cur == 0 {
		e.fail("C19.cp.subreq-count", "a %s sub-request was sent to %s %d while no command is outstanding", kn, c19CpClsNames[cls], i)
		return
	}
	chain := c19CpChain[e.cur]
	pos := -1
	for q, ck := range chain {
		if ck == [2]int{cls, k} {
			pos = q
		}
	}
	if pos < 0 {
		e.fail("C19.cp.subreq-count", "a %s sub-request was sent to %s %d: it does not belong to %s", kn, c19CpClsNames[cls], i, e.cmdName())
		return
	}
	e.sent[cls][k][i]++
	if e.sent[cls][k][i] > 1 {
		e.fail("C19.cp.subreq-count", "%s: %s %d received %d %s sub-requests", e.cmdName(), c19CpClsNames[cls], i, e.sent[cls][k][i], kn)
	}
	e.r.Checked("cp.phase-order")
	for q := 0; q < pos; q++ {
		pc, pk := chain[q][0], chain[q][1]
		if all, _ := e.clsServed(pc, pk); !all {
			e.fail("C19.cp.phase-order", "%s: a sub-request to the %s was sent before every component of the %s had received its sub-request", e.cmdName(), c19CpClsNames[cls], c19CpClsNames[pc])
			continue
		}
		e.needAcked(pc, q == pos-1, "C19.cp.phase-order", fmt.Sprintf("%s: a sub-request to the %s was sent too early", e.cmdName(), c19CpClsNames[cls]))
	}
	e.r.Checked("cp.payload")
	switch q := m.(type) {
	case *tlb.FlushReq:
		s := e.shoots[e.curID]
		if q.PID != s.PID || !c19CpEqU64(q.VAddr, s.VAddr) {
			e.fail("C19.cp.payload", "the TLB flush of shootdown %d carries PID %d, addresses %x; the command has PID %d, addresses %x", e.curID, q.PID, q.VAddr, s.PID, s.VAddr)
		}
	case *cache.FlushReq:
		if e.cur == 'S' && e.tagOf(q) != 1 {
			e.fail("C19.cp.payload", "the shootdown's flush of cache %d has pause=%v discard=%v invalidate=%v", i, q.PauseAfterFlushing, q.DiscardInflight, q.InvalidateAllCachelines)
		}
	case *pagemigrationcontroller.PageMigrationReqToPMC:
		s := e.migs[e.curID]
		if q.PageSize != s.PageSize || q.ToReadFromPhysicalAddress != s.ToReadFromPhysicalAddress ||
			q.ToWriteToPhysicalAddress != s.ToWriteToPhysicalAddress || q.PMCPortOfRemoteGPU != e.remotePMC.AsRemote() {
			e.fail("C19.cp.payload", "the request to the PMC for migration %d carries size %d, read %x, write %x, remote %s; the command has size %d, read %x, write %x, remote %s",
				e.curID, q.PageSize, q.ToReadFromPhysicalAddress, q.ToWriteToPhysicalAddress, q.PMCPortOfRemoteGPU,
				s.PageSize, s.ToReadFromPhysicalAddress, s.ToWriteToPhysicalAddress, e.remotePMC.AsRemote())
		}
	}
}

func (e *c19CpEnv) onRetrieve(cls int, m sim.Msg) {
	ack := cls >= 0 && c19CpIsAck(cls, m)
	if ack && e.outst[cls] > 0 {
		e.outst[cls]--
	}
	for _, d := range e.deferred {
		if !(ack && d.cls == cls) {
			e.fail(d.sig, "%s: an acknowledgement of the %s is missing (the next message the CP consumed was a %T)", d.text, c19CpClsNames[d.cls], m)
		}
	}
	e.deferred = e.deferred[:0]
}

func (e *c19CpEnv) onAnswer(m sim.Msg) {
	e.r.Checked("cp.answer")
	k := c19CpAnsKind(m)
	if k == '?' {
		e.fail("C19.cp.answer-wrong-kind", "a %T was sent to the driver", m)
		return
	}
	if m.Meta().Dst != e.drv.AsRemote() || m.Meta().Src != e.c.ToDriver.AsRemote() {
		e.fail("C19.cp.misrouted", "the answer %c goes from %s to %s, the driver is %s", k, m.Meta().Src, m.Meta().Dst, e.drv.AsRemote())
	}
	if e.cur == 0 {
		if k == e.lastAns {
			e.fail("C19.cp.answered-twice", "command %c was answered a second time", k)
		} else {
			e.fail("C19.cp.answer-wrong-kind", "an answer %c was sent while no command is outstanding", k)
		}
		return
	}
	if k != e.cur {
		e.fail("C19.cp.answer-wrong-kind", "an answer %c was sent, the outstanding command is %c", k, e.cur)
		return
	}
	chain := c19CpChain[e.cur]
	for q, ck := range chain {
		cls, kk := ck[0], ck[1]
		_, total := e.clsServed(cls, kk)
		if total == 0 && len(e.comp[cls]) > 0 {
			e.fail("C19.cp.answer-early", "command %c was answered before the %s were served", e.cur, c19CpClsNames[cls])
		}
		e.needAcked(cls, q == len(chain)-1, "C19.cp.answer-early", fmt.Sprintf("command %c was answered", e.cur))
	}
	e.r.Checked("cp.subreq-count")
	for _, ck := range chain {
		cls, kk := ck[0], ck[1]
		for i, n := range e.sent[cls][kk] {
			if n != 1 {
				e.fail("C19.cp.subreq-count", "command %c was answered; %s %d received %d %s sub-requests", e.cur, c19CpClsNames[cls], i, n, [2]string{"flush", "restart"}[kk])
				break
			}
		}
	}
	e.lastAns = e.cur
	e.cur = 0
}

// ---- scenario ops

func (e *c19CpEnv) deliverCmd(k byte) string {
	var m sim.Msg
	to := e.c.ToDriver
	switch k {
	case 'D':
		m = protocol.NewRDMADrainCmdFromDriver(e.drv, to)
	case 'A':
		m = protocol.NewRDMARestartCmdFromDriver(e.drv, to)
	case 'S':
		id := uint64(len(e.shoots))
		m = protocol.NewShootdownCommand(e.drv, to, []uint64{id*0x10000 + 0x1000, id*0x10000 + 0x2000}, vm.PID(id+1))
	case 'G':
		m = protocol.NewGPURestartReq(e.drv, to)
	case 'M':
		id := uint64(len(e.migs))
		q := protocol.NewPageMigrationReqToCP(e.drv, to)
		q.PageSize = 4096
		q.ToReadFromPhysicalAddress = id * 0x2000
		q.ToWriteToPhysicalAddress = id*0x2000 + 0x1000
		q.DestinationPMCPort = e.remotePMC
		m = q
	case 'F':
		m = protocol.NewFlushReq(e.drv, to)
	default:
		m = &c19Junk{sim.MsgMeta{ID: "junk", Src: e.drv.AsRemote(), Dst: to.AsRemote()}}
	}
	if to.Deliver(m) != nil {
		return "full"
	}
	e.drvIn++
	id := 0
	switch q := m.(type) {
	case *protocol.ShootDownCommand:
		id = len(e.shoots)
		e.shoots = append(e.shoots, q)
	case *protocol.PageMigrationReqToCP:
		id = len(e.migs)
		e.migs = append(e.migs, q)
	case *protocol.FlushReq:
		e.flushes = append(e.flushes, q)
	}
	if e.honest {
		e.cur, e.curID = k, id
		for cls := 0; cls < c19CpN; cls++ {
			for kk := 0; kk < 2; kk++ {
				for i := range e.sent[cls][kk] {
					e.sent[cls][kk][i] = 0
				}
			}
		}
	}
	e.r.Count("cp.cmd." + string(k))
	return "ok"
}

func c19CpFault(f string) string {
	switch {
	case f == "nilderef":
		return "nilderef"
	case strings.Contains(f, "never"):
		return "never"
	case strings.Contains(f, "interface_conversion"):
		return "type"
	case f == "explicit:___": // panic(err) with err = &sim.SendError{}
		return "send"
	}
	return f
}

func (e *c19CpEnv) snapshot() c19CpSnap {
	s := c19CpSnap{st: e.c.VerifCtrlStateC19(), nSend: e.nSend, nRet: e.nRet}
	for cls, p := range e.port {
		s.heads[2*cls] = p.PeekIncoming()
		s.heads[2*cls+1] = p.PeekOutgoing()
	}
	s.heads[2*c19CpN] = e.c.ToDriver.PeekIncoming()
	s.heads[2*c19CpN+1] = e.c.ToDriver.PeekOutgoing()
	return s
}

func c19CpSig(st cp.VerifCtrlStateC19) string {
	return fmt.Sprintf("%d,%d,%d,%d,%d,%s", st.NumCUAck, st.NumAddrTranslationFlushAck, st.NumAddrTranslationRestartAck,
		st.NumTLBAck, st.NumCacheACK, b01(st.ShootDownInProcess))
}

func (e *c19CpEnv) tick() string {
	before := e.snapshot()
	p := false
	f := catch(func() { p = e.c.Tick() })
	if f != "" {
		e.fault = c19CpFault(f)
		return "fault:" + e.fault
	}
	st := e.c.VerifCtrlStateC19()
	if e.honest {
		for _, d := range e.deferred {
			e.fail(d.sig, "%s: an acknowledgement of the %s was not consumed in that tick", d.text, c19CpClsNames[d.cls])
		}
		e.deferred = e.deferred[:0]
		// every counter = the sub-requests the CP really sent and whose acknowledgement it has not consumed
		e.r.Checked("cp.counters")
		if st.NumCUAck != uint64(e.outst[c19CpC]) || st.NumAddrTranslationFlushAck+st.NumAddrTranslationRestartAck != uint64(e.outst[c19CpA]) ||
			st.NumTLBAck != uint64(e.outst[c19CpL]) || st.NumCacheACK != uint64(e.outst[c19CpH]) {
			e.fail("C19.cp.dropped", "the counters [%s] expect acknowledgements that cannot come: unacknowledged sub-requests really sent are CU %d, AT %d, TLB %d, cache %d",
				c19CpSig(st), e.outst[c19CpC], e.outst[c19CpA], e.outst[c19CpL], e.outst[c19CpH])
		}
	}
	tok := fmt.Sprintf("t%s[%s]", b01(p), c19CpSig(st))
	if !p {
		e.quietCheck(before)
	}
	return tok
}

// quietCheck: the tick reported "no progress", so the component goes to sleep; Akita wakes it only when
// a message is delivered into an EMPTY buffer (or a full outgoing buffer gets room). It must therefore
// have nothing left to do: one more tick changes nothing. (On a correct CP the extra tick is invisible,
// it is not part of the case line.)
func (e *c19CpEnv) quietCheck(before c19CpSnap) {
	after := e.snapshot()
	e.r.Checked("cp.quiet-tick")
	if after != before {
		e.fail("C19.cp.progress-unreported", "a tick that returned false changed the component: state [%s] -> [%s], sends %d -> %d, messages consumed %d -> %d",
			c19CpSig(before.st), c19CpSig(after.st), before.nSend, after.nSend, before.nRet, after.nRet)
	}
	p := false
	f := catch(func() { p = e.c.Tick() })
	again := e.snapshot()
	if f != "" || p || again != after {
		e.fail("C19.cp.sleeps-with-work", "the tick returned false (state [%s]) but one more tick returns %v (panic %q): state -> [%s], %d message(s) sent, %d consumed; asleep, the CP would never do this work",
			c19CpSig(after.st), p, f, c19CpSig(again.st), again.nSend-after.nSend, again.nRet-after.nRet)
	}
}

func (e *c19CpEnv) take(cls, n int) string {
	var l []string
	for i := 0; i < n; i++ {
		m := e.port[cls].RetrieveOutgoing()
		if m == nil {
			break
		}
		e.outLen[cls]--
		k, ok := c19CpSubKind(cls, m)
		ix, ok2 := e.idx[cls][m.Meta().Dst]
		if !ok || !ok2 {
			l = append(l, "?")
			continue
		}
		kb := "FR"[k]
		l = append(l, fmt.Sprintf("%c%d:%d", kb, ix, e.tagOf(m)))
		e.pend[cls] = append(e.pend[cls], c19CpSub{kb, ix, m})
	}
	return "x[" + strings.Join(l, ",") + "]"
}

func (e *c19CpEnv) takeDrv(n int) string {
	var l []string
	for i := 0; i < n; i++ {
		m := e.c.ToDriver.RetrieveOutgoing()
		if m == nil {
			break
		}
		e.drvOut--
		s := string(c19CpAnsKind(m))
		if rsp, ok := m.(*sim.GeneralRsp); ok {
			id := 999
			for i, q := range e.flushes {
				if sim.Msg(q) == rsp.OriginalReq {
					id = i
				}
			}
			s += strconv.Itoa(id)
		}
		l = append(l, s)
		e.ansTaken = append(e.ansTaken, s)
	}
	return "xd[" + strings.Join(l, ",") + "]"
}

// mkAck builds the message component `src` of the class sends to the CP: k = 'F' / 'R' the
// acknowledgement of that kind, 'J' a foreign type
func (e *c19CpEnv) mkAck(cls int, k byte, src sim.RemotePort, rspTo string) sim.Msg {
	dst := e.port[cls].AsRemote()
	if k == 'J' {
		return &c19Junk{sim.MsgMeta{ID: "junk", Src: src, Dst: dst}}
	}
	f := k == 'F'
	switch cls {
	case c19CpR:
		if f {
			return rdma.DrainRspBuilder{}.WithSrc(src).WithDst(dst).Build()
		}
		return rdma.RestartRspBuilder{}.WithSrc(src).WithDst(dst).Build()
	case c19CpC:
		if f {
			return protocol.CUPipelineFlushRspBuilder{}.WithSrc(src).WithDst(dst).Build()
		}
		return protocol.CUPipelineRestartRspBuilder{}.WithSrc(src).WithDst(dst).Build()
	case c19CpA:
		// what the address translator answers to both kinds of control message
		return mem.ControlMsgBuilder{}.WithSrc(src).WithDst(dst).ToNotifyDone().Build()
	case c19CpH:
		if f {
			return cache.FlushRspBuilder{}.WithSrc(src).WithDst(dst).WithRspTo(rspTo).Build()
		}
		return cache.RestartRspBuilder{}.WithSrc(src).WithDst(dst).WithRspTo(rspTo).Build()
	case c19CpL:
		if f {
			return tlb.FlushRspBuilder{}.WithSrc(src).WithDst(dst).Build()
		}
		return tlb.RestartRspBuilder{}.WithSrc(src).WithDst(dst).Build()
	}
	return pagemigrationcontroller.PageMigrationRspFromPMCBuilder{}.WithSrc(src).WithDst(dst).Build()
}

func (e *c19CpEnv) ack(cls, j int) string {
	p := e.pend[cls]
	if len(p) == 0 {
		return "none"
	}
	j %= len(p)
	q := p[j]
	if e.port[cls].Deliver(e.mkAck(cls, q.k, q.msg.Meta().Dst, q.msg.Meta().ID)) != nil {
		return "full"
	}
	e.inLen[cls]++
	e.pend[cls] = append(p[:j:j], p[j+1:]...)
	return "ok"
}

func (e *c19CpEnv) stray(cls int, k byte, i int) string {
	src := sim.RemotePort(fmt.Sprintf("FakeStray%c%d.Ctrl", c19CpClsLetters[cls], i))
	if i < len(e.comp[cls]) {
		src = e.comp[cls][i]
	}
	if e.port[cls].Deliver(e.mkAck(cls, k, src, "stray")) != nil {
		return "full"
	}
	e.inLen[cls]++
	e.r.Count("cp.stray." + string(k))
	return "ok"
}

func (e *c19CpEnv) do(op string) string {
	e.ops = append(e.ops, op)
	o := e.exec(strings.Fields(op))
	e.out = append(e.out, o)
	return o
}

func (e *c19CpEnv) exec(t []string) string {
	num := func(i int) int {
		n, _ := strconv.Atoi(t[i])
		return n
	}
	switch {
	case len(t) == 1 && t[0] == "t":
		return e.tick()
	case len(t) == 1 && len(t[0]) == 1:
		return e.deliverCmd(t[0][0])
	case len(t) == 2 && t[0] == "xd":
		return e.takeDrv(num(1))
	case len(t) == 3 && t[0] == "x":
		return e.take(strings.Index(c19CpClsLetters, t[1]), num(2))
	case len(t) == 3 && t[0] == "a":
		return e.ack(strings.Index(c19CpClsLetters, t[1]), num(2))
	case len(t) == 4 && t[0] == "s":
		return e.stray(strings.Index(c19CpClsLetters, t[1]), t[2][0], num(3))
	}
	return "bad"
}

func (e *c19CpEnv) pendTotal() int {
	n := 0
	for cls := range e.pend {
		n += len(e.pend[cls])
	}
	return n
}

func (e *c19CpEnv) outTotal() int {
	n := e.drvOut
	for _, k := range e.outLen {
		n += k
	}
	return n
}

// step: one move of a component side that behaves: tick, take what the CP sent, acknowledge a taken
// sub-request (any order), take an answer; now and then a move that finds nothing
func (e *c19CpEnv) step(rng *Rng, tickPct int) {
	x := rng.Intn(100)
	if x < tickPct {
		e.do("t")
		return
	}
	if x >= 96 {
		cl := c19CpClsLetters[rng.Intn(c19CpN)]
		switch rng.Intn(3) {
		case 0:
			e.do(fmt.Sprintf("x %c %d", cl, rng.Pick(1, 2, 9)))
		case 1:
			e.do(fmt.Sprintf("a %c %d", cl, rng.Intn(5)))
		default:
			e.do(fmt.Sprintf("xd %d", rng.Pick(1, 2)))
		}
		return
	}
	var useful []string
	for cls := 0; cls < c19CpN; cls++ {
		if e.outLen[cls] > 0 {
			useful = append(useful, fmt.Sprintf("x %c %d", c19CpClsLetters[cls], rng.Pick(1, 1, 2, 3, 9)))
		}
		if len(e.pend[cls]) > 0 {
			op := fmt.Sprintf("a %c %d", c19CpClsLetters[cls], rng.Intn(2*len(e.pend[cls])))
			useful = append(useful, op, op)
		}
	}
	if e.drvOut > 0 {
		useful = append(useful, fmt.Sprintf("xd %d", rng.Pick(1, 2, 9)))
	}
	if len(useful) == 0 {
		e.do("t")
		return
	}
	e.do(useful[rng.Intn(len(useful))])
}

// drain: the component side takes everything, acknowledges everything it has taken, the driver side
// takes every answer, tick; until the CP is quiet
func (e *c19CpEnv) drain(rng *Rng) {
	for round := 0; round < 60 && e.fault == ""; round++ {
		progress := false
		for cls := 0; cls < c19CpN; cls++ {
			if e.outLen[cls] > 0 {
				e.do(fmt.Sprintf("x %c 9999", c19CpClsLetters[cls]))
				progress = true
			}
		}
		if e.drvOut > 0 {
			e.do("xd 9999")
			progress = true
		}
		for cls := 0; cls < c19CpN; cls++ {
			for len(e.pend[cls]) > 0 {
				if e.do(fmt.Sprintf("a %c %d", c19CpClsLetters[cls], rng.Intn(4))) != "ok" {
					break
				}
				progress = true
			}
		}
		o := e.do("t")
		if strings.HasPrefix(o, "fault") {
			break
		}
		if strings.HasPrefix(o, "t0") && (!progress || (e.outTotal() == 0 && e.pendTotal() == 0)) {
			break
		}
	}
}

func (e *c19CpEnv) finish(rng *Rng) {
	e.drain(rng)
	e.r.Case(e.line(), strings.Join(e.out, " "))
	e.r.Count("cp.scenario." + e.kind)
	if e.fault != "" {
		e.r.Count("cp.fault." + e.fault)
		if e.honest {
			e.fail("C19.cp.honest-panic", "the CP panicked (%s) under an honest environment", e.fault)
		}
		return
	}
	if !e.honest {
		return
	}
	e.r.Checked("cp.all-answered")
	if e.cur != 0 {
		what := "although every outgoing buffer had room and every sub-request was acknowledged"
		if e.pendTotal() > 0 {
			what = "the environment could not deliver all acknowledgements"
		}
		e.fail("C19.cp.never-answered", "command %c (id %d) was delivered but never answered, %s; state [%s]", e.cur, e.curID, what, c19CpSig(e.c.VerifCtrlStateC19()))
	}
	e.r.Checked("cp.idle")
	st := e.c.VerifCtrlStateC19()
	busy := ""
	for cls, p := range e.port {
		if p.PeekIncoming() != nil || p.PeekOutgoing() != nil {
			busy += " " + c19CpClsNames[cls]
		}
	}
	if e.c.ToDriver.PeekIncoming() != nil || e.c.ToDriver.PeekOutgoing() != nil {
		busy += " driver"
	}
	if c19CpSig(st) != "0,0,0,0,0,0" || busy != "" {
		e.fail("C19.cp.not-idle", "after every command was answered and everything drained the CP is not idle: state [%s], non-empty buffers:%s", c19CpSig(st), busy)
	}
}

// ---- generators

func c19CpRandSizes(rng *Rng, g *c19CpCfg) {
	g.cu, g.at, g.tlb = rng.Range(1, 4), rng.Range(1, 4), rng.Range(1, 4)
	for {
		g.l1i, g.l1s, g.l1v, g.l2 = rng.Intn(4), rng.Intn(4), rng.Intn(4), rng.Intn(4)
		if g.l1i+g.l1s+g.l1v+g.l2 >= 1 {
			break
		}
	}
}

// (1) commands strictly one after the other, honest acknowledgements in any order: all oracles
func c19CpHonest(r *Run, rng *Rng) {
	g := c19CpDefaultCfg()
	c19CpRandSizes(rng, &g)
	if rng.Chance(35) { // small buffers, but never smaller than what one phase sends at once
		g.cin = rng.Pick(1, 2, 3, 8, 4096)
		g.cdrv = rng.Pick(1, 2, 4096)
		g.crdma = rng.Pick(1, 2, 4096)
		g.cpmc = rng.Pick(1, 2, 4096)
		g.ccu = g.cu + rng.Pick(0, 0, 1, 3)
		g.cat = g.at + rng.Pick(0, 0, 1, 3)
		g.ctlb = g.tlb + rng.Pick(0, 0, 1, 3)
		g.ccache = g.size(c19CpH) + rng.Pick(0, 0, 1, 3)
		r.Count("cp.honest.small-buffers")
	}
	e := newC19CpEnv(r, g, true, "honest")
	var seq []string
	if rng.Bool() { // the driver's handshake: drain, shootdown, migrations, GPU restart, RDMA restart
		for rep := rng.Range(1, 2); rep > 0; rep-- {
			seq = append(seq, "D", "S")
			for k := rng.Range(1, 3); k > 0; k-- {
				seq = append(seq, "M")
			}
			seq = append(seq, "G", "A")
		}
	} else {
		for k := rng.Range(3, 8); k > 0; k-- {
			seq = append(seq, c11PickS(rng, "D", "A", "S", "G", "M", "S", "G"))
		}
	}
	tickPct := rng.Pick(12, 30, 55)
	for _, cmd := range seq {
		if e.fault != "" || e.do(cmd) != "ok" {
			break
		}
		want := len(e.ansTaken) + 1
		for s := 0; s < 600 && e.fault == "" && len(e.ansTaken) < want; s++ {
			e.step(rng, tickPct)
		}
		if len(e.ansTaken) < want {
			break
		}
	}
	e.finish(rng)
}

var c19CpOverlaps = [][]string{
	{"S", "S"}, {"S", "G"}, {"G", "S"}, {"S", "F"}, {"F", "S"}, {"M", "M"}, {"D", "A"}, {"F", "F"}, {"G", "G"},
	{"S", "M", "G"}, {"D", "S", "M", "G", "A"}, {"F", "G"}, {"G", "F"}, {"S", "F", "G"}, {"A", "D", "M"}, {"S", "S", "S"},
}

// (2) several commands without waiting for the answers, honest acknowledgements
func c19CpOverlap(r *Run, rng *Rng) {
	g := c19CpDefaultCfg()
	c19CpRandSizes(rng, &g)
	if rng.Chance(50) {
		g.cu, g.at, g.tlb = rng.Range(1, 2), rng.Range(1, 2), rng.Range(1, 2)
	}
	e := newC19CpEnv(r, g, false, "overlap")
	var q []string
	if rng.Chance(70) {
		q = append(q, c19CpOverlaps[rng.Intn(len(c19CpOverlaps))]...)
	}
	for k := rng.Intn(4); k > 0 || len(q) == 0; k-- {
		q = append(q, c11PickS(rng, "D", "A", "S", "G", "M", "F", "S", "G", "F"))
	}
	eager := rng.Pick(100, 60, 25, 8)
	tickPct := rng.Pick(12, 30, 55)
	if rng.Chance(40) && e.do(q[0]) == "ok" { // the first command is under way when the others arrive
		q = q[1:]
		for n := rng.Intn(8); n > 0 && e.fault == ""; n-- {
			e.step(rng, tickPct)
		}
	}
	for s := 0; s < 400 && e.fault == "" && len(q) > 0; s++ {
		if rng.Chance(eager) {
			if e.do(q[0]) == "ok" {
				q = q[1:]
			}
			continue
		}
		e.step(rng, tickPct)
	}
	for s := rng.Range(0, 60); s > 0 && e.fault == ""; s-- {
		e.step(rng, tickPct)
	}
	e.finish(rng)
}

// (3) back-pressure on every port, classes without a component, stray and foreign messages,
// acknowledgements before the requests
func c19CpMalformed(r *Run, rng *Rng) {
	g := c19CpDefaultCfg()
	g.cu, g.at, g.tlb = rng.Intn(4), rng.Intn(4), rng.Intn(4)
	g.l1i, g.l1s, g.l1v, g.l2 = rng.Pick(0, 0, 1, 2), rng.Pick(0, 1, 1), rng.Pick(0, 1, 2, 3), rng.Pick(0, 1, 2)
	small := func() int { return rng.Pick(1, 1, 2, 2, 3, 4096, 4096) }
	if rng.Chance(75) {
		g.cin, g.cdrv, g.crdma, g.ccu, g.cat, g.ccache, g.ctlb, g.cpmc = small(), small(), small(), small(), small(), small(), small(), small()
	}
	e := newC19CpEnv(r, g, false, "malformed")
	strayPct := rng.Pick(0, 4, 10, 25)
	junkPct := rng.Pick(0, 0, 10, 30)
	cmdPct := rng.Pick(8, 15, 30)
	tickPct := rng.Pick(12, 30, 55)
	for s := rng.Range(10, 90); s > 0 && e.fault == ""; s-- {
		x := rng.Intn(100)
		switch {
		case x < cmdPct:
			k := c11PickS(rng, "D", "A", "S", "G", "M", "F", "S", "G")
			if rng.Chance(4) {
				k = "O"
			}
			e.do(k)
		case x < cmdPct+strayPct:
			k := c11PickS(rng, "F", "R")
			if rng.Chance(junkPct) {
				k = "J"
			}
			e.do(fmt.Sprintf("s %c %s %d", c19CpClsLetters[rng.Intn(c19CpN)], k, rng.Intn(4)))
		default:
			e.step(rng, tickPct)
		}
	}
	e.finish(rng)
}

// (9) a driver flush request overlapping a TLB shootdown. Both use numCacheACK, and the shootdown's
// last cache acknowledgement clears currFlushRequest.
func c19CpFlushLost(r *Run, rng *Rng, name string, pre []string) {
	e := newC19CpEnv(r, c19CpDefaultCfg(), false, "flush-vs-shootdown")
	for _, op := range pre {
		if e.fault != "" {
			break
		}
		e.do(op)
	}
	hist := strings.Join(e.out, " ")
	e.finish(rng)
	e.r.Checked("cp.flush-vs-shootdown")
	got := map[string]int{}
	for _, a := range e.ansTaken {
		got[a]++
	}
	st := c19CpSig(e.c.VerifCtrlStateC19())
	switch {
	case e.fault != "":
		r.Failf("C19.cp.flush-lost-in-shootdown", e.line(), "%s: the CP panics (%s) after answers %v; every sub-request had been acknowledged honestly. Tokens: %s", name, e.fault, e.ansTaken, strings.Join(e.out, " "))
	case got["S"] != 1 || got["F0"] != 1:
		missing := ""
		if got["F0"] != 1 {
			missing += fmt.Sprintf(" the flush request got %d answers;", got["F0"])
		}
		if got["S"] != 1 {
			missing += fmt.Sprintf(" the shootdown got %d answers;", got["S"])
		}
		r.Failf("C19.cp.flush-lost-in-shootdown", e.line(), "%s:%s every sub-request was acknowledged (pending %d, buffered %d), the CP is quiet with state [%s] (numCU,numATF,numATR,numTLB,numCache,shootdown), HasFlushRequest=%v; answers taken %v; prefix tokens: %s",
			name, missing, e.pendTotal(), e.outTotal(), st, e.c.VerifCtrlStateC19().HasFlushRequest, e.ansTaken, hist)
	}
}

func runC19Cp(r *Run, rng *Rng, replay string) {
	n := 400
	if r.Tier == "thorough" {
		n = 15000
	}
	for i := 0; i < n; i++ {
		switch x := i % 10; {
		case x < 6:
			c19CpHonest(r, rng)
		case x < 8:
			c19CpOverlap(r, rng)
		default:
			c19CpMalformed(r, rng)
		}
	}
	// the flush request is taken while the shootdown waits for the compute units (numCacheACK == 0)
	c19CpFlushLost(r, rng, "flush taken during the shootdown's CU phase", []string{"S", "t", "F", "t"})
	// the flush request comes first, the shootdown's cache flush is added to the same counter
	c19CpFlushLost(r, rng, "shootdown taken while a flush is in progress, the address translator answers before the caches",
		[]string{"F", "t", "S", "t", "x c 1", "a c 0", "t", "x a 1", "a a 0", "t"})
	// the flush's own acknowledgements complete while the shootdown is in progress
	c19CpFlushLost(r, rng, "shootdown taken while a flush is in progress, the caches answer the flush first",
		[]string{"F", "t", "S", "t", "x h 4", "a h 0", "a h 0", "a h 0", "a h 0", "t", "t", "t", "t", "x l 1", "a l 0", "t", "xd 1"})
}
