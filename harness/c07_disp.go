package main

import (
	"encoding/binary"
	"fmt"
	"strconv"
	"strings"

	"github.com/sarchlab/akita/v4/mem/mem"
	"github.com/sarchlab/akita/v4/sim"
	"github.com/sarchlab/mgpusim/v4/amd/emu"
	"github.com/sarchlab/mgpusim/v4/amd/insts"
	"github.com/sarchlab/mgpusim/v4/amd/kernels"
	"github.com/sarchlab/mgpusim/v4/amd/protocol"
	shim "github.com/sarchlab/mgpusim/v4/amd/timing/cp/verifshimc09"
	"github.com/sarchlab/mgpusim/v4/amd/timing/cu"
	"github.com/sarchlab/mgpusim/v4/amd/timing/wavefront"
)

// C07 (second deepening): the register writes that do NOT go through the operand methods.
//
//   - `new <ns> <nv>` / `disp <w> <simd> <soff> <voff> <dispinfo>`: a wavefront record as wrapWG makes
//     it and the real WfDispatcherImpl.DispatchWf (setWfInfo + initRegisters) on the scenario's
//     compute unit (Lean: TimingRF.newWf / dispatchWf). Oracles, independent of the model: the
//     location is copied verbatim (C07.dispatch.location), the wavefront's window afterwards holds
//     what it held before overlaid with the ABI registers computed here from the HSA ABI reading
//     (C07.dispatch.abi.*), no other wavefront's cells change (C07.dispatch.frame), a fresh emulator
//     wavefront initialised for the same dispatch holds the same ABI registers (C07.emu.init.abi).
//   - `init <dispinfo>`: emu.ComputeUnit.initWfRegs on the scenario's emulator store.
//   - `retire <w>`: resetRegisterValue of a wavefront that leaves the compute unit: every byte of
//     its windows is zero afterwards (C07.release.window-not-zero).
//   - `smem <w> <dataReg> <k> <hex> <opc> <sdata> <sbase> <off>`: one cache-line piece of a real
//     s_load_dword* pushed through the real ScalarUnit.executeSMEMLoad and
//     ComputeUnit.handleScalarDataLoadReturn (Lean: TimingRF.smemReturn; SDATA may be vcc / exec / m0). Oracle: afterwards the
//     data operand, read through the accessor, holds the loaded dwords (C07.smem-return.*).
//   - life scenarios (`life=1`): a zero-filled compute unit, windows from a real CUResourceImpl,
//     work-groups coming and going; a window handed to a new wavefront must be clean
//     (C07.timing.fresh-wavefront-state) — "no write disturbs another wavefront" across time.
//   - `c07 efresh …`: the real emu.ComputeUnit runs dirtying work-groups and then an observer; the
//     observer's whole state is a function of its dispatch only (Lean: emuFresh).
//   - `c07 dec <cdna3> <hex>`: register operands of the real decoder; the malformed-operand and the
//     scalar-load-into-VCC findings start from decoded instructions.

func init() { register("C07", runC07Disp) }

// c07Ext is the per-scenario state of the ops of this file (field `ext` of c07Scn).
type c07Ext struct {
	disp     *cu.WfDispatcherImpl
	life     bool
	smemReqs []*mem.ReadReq
	smemWf   int
	smemInst *insts.Inst
	smemAll  []byte
	smemPre  []byte // scalar file before the instruction
}

var c07FullCUCache *cu.ComputeUnit

// c07FullCU: a compute unit from the real builder (scalar unit, ports, tracing) whose register files
// the scenario replaces.
func c07FullCU() *cu.ComputeUnit {
	if c07FullCUCache == nil {
		c := cu.MakeBuilder().WithEngine(&fakeEngine{}).
			WithVectorMemModules(&mem.SinglePortMapper{Port: sim.RemotePort("VMem")}).Build("CU")
		c.ScalarMem = sim.NewPort(c, 4, 4, "SMem")
		c07FullCUCache = c
	}
	c := c07FullCUCache
	c.VRegFile = nil
	c.InFlightScalarMemAccess = nil
	c.InFlightVectorMemAccess = nil
	return c
}

// ---------------------------------------------------------------- dispatch information

type c07Disp struct {
	flags, rsrc2 uint32
	v5           bool
	pa, ka       uint64
	g            [3]uint32
	w            [3]uint16
	id           [3]int
	sx, sy       int
	first        int
	exec         uint64
}

func (d *c07Disp) tokens() string {
	v5 := 0
	if d.v5 {
		v5 = 1
	}
	return fmt.Sprintf("%x %x %d %x %x %d %d %d %d %d %d %d %d %d %d %d %d %x", d.flags, d.rsrc2, v5, d.pa, d.ka,
		d.g[0], d.g[1], d.g[2], d.w[0], d.w[1], d.w[2], d.id[0], d.id[1], d.id[2], d.sx, d.sy, d.first, d.exec)
}

func c07ParseDisp(f []string) (*c07Disp, bool) {
	if len(f) != 18 {
		return nil, false
	}
	d := &c07Disp{}
	var err error
	hex := func(s string, bits int) uint64 {
		v, e := strconv.ParseUint(s, 16, bits)
		if e != nil {
			err = e
		}
		return v
	}
	dec := func(s string) int {
		v, e := strconv.Atoi(s)
		if e != nil || v < 0 {
			err = fmt.Errorf("bad")
		}
		return v
	}
	d.flags, d.rsrc2 = uint32(hex(f[0], 32)), uint32(hex(f[1], 32))
	d.v5 = dec(f[2]) != 0
	d.pa, d.ka = hex(f[3], 64), hex(f[4], 64)
	for i := 0; i < 3; i++ {
		d.g[i] = uint32(dec(f[5+i]))
		d.w[i] = uint16(dec(f[8+i]))
		d.id[i] = dec(f[11+i])
	}
	d.sx, d.sy, d.first = dec(f[14]), dec(f[15]), dec(f[16])
	d.exec = hex(f[17], 64)
	return d, err == nil
}

// apply puts the dispatch information on a kernels.Wavefront (code object with the given register
// counts, packet, work-group).
func (d *c07Disp) apply(raw *kernels.Wavefront, ns, nv int) *kernels.WorkGroup {
	co := &insts.KernelCodeObject{KernelCodeObjectMeta: &insts.KernelCodeObjectMeta{WFSgprCount: uint16(ns), WIVgprCount: uint16(nv)}}
	b := func(i uint) bool { return d.flags&(1<<i) != 0 }
	co.EnableSgprPrivateSegmentBuffer, co.EnableSgprDispatchPtr, co.EnableSgprQueuePtr = b(0), b(1), b(2)
	co.EnableSgprKernargSegmentPtr, co.EnableSgprDispatchID, co.EnableSgprFlatScratchInit = b(3), b(4), b(5)
	co.EnableSgprPrivateSegmentSize = b(6)
	co.EnableSgprGridWorkgroupCountX, co.EnableSgprGridWorkgroupCountY, co.EnableSgprGridWorkgroupCountZ = b(7), b(8), b(9)
	co.ComputePgmRsrc2 = d.rsrc2
	if d.v5 {
		co.Version = insts.CodeObjectV5
	}
	pkt := &kernels.HsaKernelDispatchPacket{GridSizeX: d.g[0], GridSizeY: d.g[1], GridSizeZ: d.g[2],
		WorkgroupSizeX: d.w[0], WorkgroupSizeY: d.w[1], WorkgroupSizeZ: d.w[2], KernargAddress: d.ka, KernelObject: 0x1000}
	wg := kernels.NewWorkGroup()
	wg.SizeX, wg.SizeY, wg.SizeZ = d.sx, d.sy, 1
	wg.IDX, wg.IDY, wg.IDZ = d.id[0], d.id[1], d.id[2]
	wg.Packet, wg.CodeObject = pkt, co
	raw.CodeObject, raw.Packet, raw.PacketAddress, raw.FirstWiFlatID, raw.WG, raw.InitExecMask = co, pkt, d.pa, d.first, wg, d.exec
	return wg
}

// abi: the registers a new wavefront receives under the HSA ABI, as far as the simulator supports
// them — written from the ABI description (user SGPRs in the fixed order private segment buffer
// (4 registers), dispatch ptr (2), queue ptr (2), kernarg segment ptr (2), dispatch id (2), flat
// scratch init (2), private segment size (1), grid work-group counts X/Y/Z (1 each), then the
// work-group ids X/Y/Z; lane registers v0..v2 = work-item id x/y/z, packed into v0 on gfx942).
// sEnd / vN: how many SGPRs / VGPRs the layout reaches.
func (d *c07Disp) abi() (s map[int]uint32, v func(lane int) []uint32, sEnd, vN int) {
	s = map[int]uint32{}
	p := 0
	b := func(i uint) bool { return d.flags&(1<<i) != 0 }
	put64 := func(val uint64) {
		s[p], s[p+1] = uint32(val), uint32(val>>32)
		sEnd = p + 2
	}
	put32 := func(val uint32) {
		s[p] = val
		sEnd = p + 1
	}
	if b(0) {
		p += 4
	}
	if b(1) {
		put64(d.pa)
		p += 2
	}
	if b(2) {
		p += 2
	}
	if b(3) {
		put64(d.ka)
		p += 2
	}
	if b(4) {
		p += 2
	}
	if b(5) {
		p += 2
	}
	if b(6) {
		p++
	}
	for k := 0; k < 3; k++ {
		if b(uint(7 + k)) {
			put32((d.g[k] + uint32(d.w[k]) - 1) / uint32(d.w[k]))
			p++
		}
	}
	for k := 0; k < 3; k++ {
		if d.rsrc2&(1<<uint(7+k)) != 0 {
			put32(uint32(d.id[k]))
			p++
		}
	}
	en := int(d.rsrc2 >> 11 & 3)
	vN = 1
	if !d.v5 {
		vN = 1 + min(en, 2)
	}
	v = func(lane int) []uint32 {
		i := d.first + lane
		x, y, z := i%(d.sx*d.sy)%d.sx, i%(d.sx*d.sy)/d.sx, i/(d.sx*d.sy)
		if d.v5 {
			return []uint32{uint32(x) | uint32(y)<<10 | uint32(z)<<20}
		}
		return []uint32{uint32(x), uint32(y), uint32(z)}[:vN]
	}
	return
}

func c07GenDisp(rng *Rng, ns, nv int) *c07Disp {
	for try := 0; ; try++ {
		d := &c07Disp{v5: rng.Chance(30), pa: 0x1111222233334444 + uint64(rng.Intn(1<<20)), ka: 0x5555666677778888 + uint64(rng.Intn(1<<20))}
		switch rng.Intn(3) {
		case 0:
			d.flags = uint32(rng.Pick(0x0b, 0x09, 0x08, 0x01, 0x0a, 0))
		case 1:
			d.flags = uint32(rng.Intn(1 << 10))
		default:
			d.flags = uint32(rng.Intn(1<<10)) & uint32(rng.Intn(1<<10))
		}
		d.rsrc2 = uint32(rng.Intn(1<<13)) &^ 1
		if rng.Chance(50) {
			d.rsrc2 |= 7 << 7
		}
		if try > 20 {
			d.flags, d.rsrc2 = 0, d.rsrc2&(3<<11)
		}
		if try > 40 {
			d.rsrc2 = 0
		}
		for k := 0; k < 3; k++ {
			d.w[k] = uint16(rng.Pick(1, 2, 4, 8, 16, 64, 256, 3, 5))
			d.g[k] = uint32(d.w[k]) * uint32(rng.Range(1, 9))
			if rng.Chance(20) {
				d.g[k] = uint32(rng.Range(1, 5000))
			}
			d.id[k] = rng.Intn(9)
		}
		d.sx, d.sy = rng.Pick(1, 2, 4, 8, 16, 64, 256, 3), rng.Pick(1, 1, 2, 4, 8)
		d.first = 64 * rng.Intn(4)
		d.exec = rng.pickU64(^uint64(0), ^uint64(0), uint64(1)<<uint(rng.Range(1, 63))-1, rng.U64())
		_, _, sEnd, vN := d.abi()
		if (sEnd <= ns && vN <= nv) || ns < 0 {
			return d
		}
	}
}

func (rng *Rng) pickU64(v ...uint64) uint64 { return v[rng.Intn(len(v))] }

// ---------------------------------------------------------------- scenario ops

func c07NewTimWf(c *cu.ComputeUnit, simd, soff, voff, ns, nv int) *c07TimWf {
	kw := kernels.NewWavefront()
	kw.CodeObject = &insts.KernelCodeObject{KernelCodeObjectMeta: &insts.KernelCodeObjectMeta{
		WFSgprCount: uint16(ns), WIVgprCount: uint16(nv)}}
	twf := wavefront.NewWavefront(kw)
	twf.SIMDID, twf.SRegOffset, twf.VRegOffset = simd, soff, voff
	twf.RegAccessor = &cu.CURegFileAccessor{CU: c, WF: twf}
	return &c07TimWf{wf: twf, simd: simd, soff: soff, voff: voff, ns: ns, nv: nv}
}

func (sc *c07Scn) x() *c07Ext {
	if sc.ext == nil {
		sc.ext = &c07Ext{life: strings.Contains(" "+strings.SplitN(sc.line, ";", 2)[0]+" ", " life=1 ")}
	}
	return sc.ext
}

// windowCells reads the cells of a window by plain offset arithmetic; ok=false when it leaves the files.
func (sc *c07Scn) windowCells(simd, soff, voff, ns, nv int) (c *c07Cells, ok bool) {
	if simd < 0 || 1+simd >= len(sc.files) || soff < 0 || voff < 0 || ns > 102 || nv > 256 {
		return nil, false
	}
	sfile, vfile := sc.files[0], sc.files[1+simd]
	if soff+4*ns > len(sfile) || voff+4*nv > 1024 || voff+63*1024+4*nv > len(vfile) {
		return nil, false
	}
	c = &c07Cells{ns: ns, nv: nv}
	for i := 0; i < ns; i++ {
		c.s[i] = binary.LittleEndian.Uint32(sfile[soff+4*i:])
	}
	for l := 0; l < 64; l++ {
		for i := 0; i < nv; i++ {
			c.v[l][i] = binary.LittleEndian.Uint32(vfile[voff+l*1024+4*i:])
		}
	}
	return c, true
}

func (c *c07Cells) regsZero() (string, bool) {
	for i := 0; i < c.ns; i++ {
		if c.s[i] != 0 {
			return fmt.Sprintf("s%d = %x", i, c.s[i]), false
		}
	}
	for l := 0; l < 64; l++ {
		for i := 0; i < c.nv; i++ {
			if c.v[l][i] != 0 {
				return fmt.Sprintf("lane %d v%d = %x", l, i, c.v[l][i]), false
			}
		}
	}
	return "", true
}

// diffRegs: first general register on which two cell records differ
func (c *c07Cells) diffRegs(o *c07Cells) string {
	for i := 0; i < c.ns; i++ {
		if c.s[i] != o.s[i] {
			return fmt.Sprintf("s%d = %x, expected %x", i, o.s[i], c.s[i])
		}
	}
	for l := 0; l < 64; l++ {
		for i := 0; i < c.nv; i++ {
			if c.v[l][i] != o.v[l][i] {
				return fmt.Sprintf("lane %d v%d = %x, expected %x", l, i, o.v[l][i], c.v[l][i])
			}
		}
	}
	return ""
}

func (t *c07TimWf) shadowFromCells() {
	t.shadow = emu.NewWavefront(kernels.NewWavefront())
	c := t.cells
	for i := 0; i < c.ns; i++ {
		binary.LittleEndian.PutUint32(t.shadow.SRegFile[4*i:], c.s[i])
	}
	for l := 0; l < 64; l++ {
		for i := 0; i < c.nv; i++ {
			binary.LittleEndian.PutUint32(t.shadow.VRegFile[l*1024+4*i:], c.v[l][i])
		}
	}
	t.shadow.SetVCC(uint64(c.vccHi)<<32 | uint64(c.vccLo))
	t.shadow.SetEXEC(uint64(c.exHi)<<32 | uint64(c.exLo))
	t.shadow.SetSCC(c.scc)
	t.shadow.M0 = c.m0
}

// othersUnchanged compares every other live wavefront's window with its cells; on a difference the
// cells are re-read so that one clobbering is reported once.
func (sc *c07Scn) othersUnchanged(except int, sig, what string) {
	for j, x := range sc.tw {
		if j == except || x.cells == nil || x.broken {
			continue
		}
		now, ok := sc.windowCells(x.simd, x.soff, x.voff, x.cells.ns, x.cells.nv)
		if !ok {
			continue
		}
		sc.r.Checked(strings.TrimPrefix(sig, "C07."))
		if d := x.cells.diffRegs(now); d != "" {
			sc.r.Failf(sig, what+"  in  "+c07Short(sc.line), "registers of wavefront %d changed: %s", j, d)
			x.load(sc)
		}
	}
}

func (sc *c07Scn) opDisp(f []string) {
	bad := func() { sc.out = append(sc.out, "bad") }
	x := sc.x()
	switch f[0] {
	case "new":
		if sc.isEmu || len(f) != 3 {
			bad()
			return
		}
		ns, e1 := strconv.Atoi(f[1])
		nv, e2 := strconv.Atoi(f[2])
		if e1 != nil || e2 != nil || ns < 0 || nv < 0 {
			bad()
			return
		}
		sc.tw = append(sc.tw, c07NewTimWf(sc.cu, 0, 0, 0, ns, nv)) // no cells before it is dispatched
		sc.out = append(sc.out, "ok")
	case "retire":
		if sc.isEmu || len(f) != 2 {
			bad()
			return
		}
		w, err := strconv.Atoi(f[1])
		if err != nil || w < 0 || w >= len(sc.tw) {
			bad()
			return
		}
		t := sc.tw[w]
		ans := c07Catch(func() string { cu.VerifResetRegisterValue(sc.cu, t.wf); return "ok" })
		sc.out = append(sc.out, ans)
		if t.cells != nil && !t.broken {
			sc.r.Checked("release.window")
			if ans != "ok" {
				sc.r.Failf("C07.release.fault", sc.line, "retire %d answered %s", w, ans)
			} else if now, ok := sc.windowCells(t.simd, t.soff, t.voff, t.cells.ns, t.cells.nv); ok {
				if d, z := now.regsZero(); !z {
					sc.r.Failf("C07.release.window-not-zero", fmt.Sprintf("retire %d", w)+"  in  "+c07Short(sc.line),
						"after resetRegisterValue the wavefront's own %s", d)
				}
			}
			sc.othersUnchanged(w, "C07.release.frame", fmt.Sprintf("retire %d", w))
		}
		t.cells, t.shadow = nil, nil // it owns nothing any more
	case "disp":
		if sc.isEmu || len(f) != 5+18 {
			bad()
			return
		}
		var n [4]int
		for i := range n {
			v, err := strconv.Atoi(f[1+i])
			if err != nil || v < 0 {
				bad()
				return
			}
			n[i] = v
		}
		d, ok := c07ParseDisp(f[5:])
		if !ok || n[0] >= len(sc.tw) {
			bad()
			return
		}
		w, simd, soff, voff := n[0], n[1], n[2], n[3]
		t := sc.tw[w]
		wg := d.apply(t.wf.Wavefront, t.ns, t.nv)
		t.wf.WG = wavefront.NewWorkGroup(wg, nil)
		if x.disp == nil {
			x.disp = cu.NewWfDispatcher(sc.cu)
		}
		// expectation: the new window as it is now, overlaid with the ABI registers
		var exp *c07Cells
		abiS, abiV, sEnd, vN := d.abi()
		if sc.kind != "wild" && sEnd <= t.ns && vN <= t.nv {
			exp, _ = sc.windowCells(simd, soff, voff, min(t.ns, 102), min(t.nv, 256))
		}
		if exp != nil && x.life {
			sc.r.Checked("fresh-wavefront-state.timing")
			if dd, z := exp.regsZero(); !z {
				sc.r.Failf("C07.timing.fresh-wavefront-state", strings.Join(f[:5], " ")+"  in  "+c07Short(sc.line),
					"the window handed to a new wavefront still holds a retired wavefront's value: %s", dd)
			}
		}
		vcc, scc, m0 := t.wf.VCC(), t.wf.SCC(), t.wf.M0
		ans := c07Catch(func() string {
			x.disp.DispatchWf(t.wf, protocol.WfDispatchLocation{Wavefront: t.wf.Wavefront, SIMDID: simd, SGPROffset: soff, VGPROffset: voff})
			return "ok"
		})
		sc.out = append(sc.out, ans)
		sc.r.Checked("dispatch.location")
		if t.wf.SIMDID != simd || t.wf.SRegOffset != soff || t.wf.VRegOffset != voff {
			sc.r.Failf("C07.dispatch.location", strings.Join(f[:5], " ")+"  in  "+c07Short(sc.line),
				"wavefront placed at simd %d soff %d voff %d, the dispatch location says %d %d %d",
				t.wf.SIMDID, t.wf.SRegOffset, t.wf.VRegOffset, simd, soff, voff)
		}
		t.simd, t.soff, t.voff = t.wf.SIMDID, t.wf.SRegOffset, t.wf.VRegOffset
		if exp == nil || ans != "ok" {
			if sc.kind != "wild" && exp != nil {
				sc.r.Failf("C07.dispatch.fault", strings.Join(f[:5], " ")+"  in  "+c07Short(sc.line), "DispatchWf answered %s", ans)
			}
			t.cells, t.shadow = nil, nil
			for _, o := range sc.tw {
				if o.cells != nil && !o.broken {
					o.load(sc)
				}
			}
			return
		}
		for i, v := range abiS {
			exp.s[i] = v
		}
		for l := 0; l < 64; l++ {
			copy(exp.v[l][:], abiV(l))
		}
		exp.vccLo, exp.vccHi, exp.exLo, exp.exHi, exp.scc, exp.m0 = uint32(vcc), uint32(vcc>>32), uint32(d.exec), uint32(d.exec>>32), scc, m0
		sc.r.Checked("dispatch.abi")
		if now, ok := sc.windowCells(simd, soff, voff, exp.ns, exp.nv); ok {
			if dd := exp.diffRegs(now); dd != "" {
				kind := "sgpr"
				if strings.HasPrefix(dd, "lane") {
					kind = "vgpr"
				}
				sc.r.Failf("C07.dispatch.abi."+kind, strings.Join(f, " ")+"  in  "+c07Short(sc.line), "after DispatchWf %s", dd)
			}
		}
		if t.wf.EXEC() != d.exec || t.wf.VCC() != vcc || t.wf.SCC() != scc || t.wf.M0 != m0 {
			sc.r.Failf("C07.dispatch.special", strings.Join(f, " ")+"  in  "+c07Short(sc.line),
				"exec=%x vcc=%x scc=%d m0=%x, expected exec=%x vcc=%x scc=%d m0=%x", t.wf.EXEC(), t.wf.VCC(), t.wf.SCC(), t.wf.M0, d.exec, vcc, scc, m0)
		}
		sc.othersUnchanged(w, "C07.dispatch.frame", strings.Join(f[:5], " "))
		// the emulator's wavefront for the same dispatch
		raw := kernels.NewWavefront()
		d.apply(raw, t.ns, t.nv)
		es := emu.NewWavefront(raw)
		if ef := catch(func() { emu.VerifInitWfRegs(es) }); ef == "" {
			sc.r.Checked("emu.init.abi")
			ec := &c07Cells{ns: exp.ns, nv: exp.nv}
			ec.loadEmu(es)
			want := &c07Cells{ns: exp.ns, nv: exp.nv}
			for i, v := range abiS {
				want.s[i] = v
			}
			for l := 0; l < 64; l++ {
				copy(want.v[l][:], abiV(l))
			}
			if dd := want.diffRegs(ec); dd != "" || es.EXEC() != d.exec || es.VCC() != 0 || es.SCC() != 0 || es.M0 != 0 {
				sc.r.Failf("C07.emu.init.abi", strings.Join(f[5:], " "), "a new emulator wavefront after initWfRegs: %s exec=%x vcc=%x scc=%d m0=%x", dd, es.EXEC(), es.VCC(), es.SCC(), es.M0)
			}
		}
		t.cells = exp
		t.shadowFromCells()
	case "init":
		if !sc.isEmu || len(f) != 1+18 {
			bad()
			return
		}
		d, ok := c07ParseDisp(f[1:])
		if !ok {
			bad()
			return
		}
		d.apply(sc.ewf.Wavefront, 102, 256)
		ans := c07Catch(func() string { emu.VerifInitWfRegs(sc.ewf); return "ok" })
		sc.out = append(sc.out, ans)
		if sc.kind != "wild" {
			abiS, abiV, _, _ := d.abi()
			for i, v := range abiS {
				sc.ecell.s[i] = v
			}
			for l := 0; l < 64; l++ {
				copy(sc.ecell.v[l][:], abiV(l))
			}
			sc.ecell.exLo, sc.ecell.exHi = uint32(d.exec), uint32(d.exec>>32)
			sc.r.Checked("emu.init")
			if ans != "ok" {
				sc.r.Failf("C07.emu.init.fault", strings.Join(f, " "), "initWfRegs answered %s", ans)
			}
		}
	case "smem":
		sc.opSmem(f)
	default:
		bad()
	}
}

// opSmem: `smem <w> <dataReg> <k> <hex> <opc> <sdata> <sbase> <off>` — piece k of a scalar load.
func (sc *c07Scn) opSmem(f []string) {
	bad := func() { sc.out = append(sc.out, "bad") }
	if sc.isEmu || len(f) != 9 {
		bad()
		return
	}
	var n [7]int
	for i, j := range []int{1, 2, 3, 5, 6, 7, 8} {
		v, err := strconv.Atoi(f[j])
		if err != nil || v < 0 {
			bad()
			return
		}
		n[i] = v
	}
	w, reg, k, opc, sdata, sbase, off := n[0], n[1], n[2], n[3], n[4], n[5], n[6]
	data := c07Unhex(f[4])
	if w >= len(sc.tw) || data == nil && f[4] != "-" {
		bad()
		return
	}
	x := sc.x()
	t := sc.tw[w]
	what := strings.Join(f, " ") + "  in  " + c07Short(sc.line)
	if k == 0 {
		inst, err := insts.NewDisassembler().Decode(encodeDesc(desc{format: "smem", op: uint32(opc),
			f: map[string]uint32{"imm": 1, "sdata": uint32(sdata), "sbase": uint32(sbase), "offset": uint32(off)}}))
		if err != nil || inst.Data == nil || int(inst.Data.Register.RegType) != reg {
			sc.r.Note("c07 smem: the line's data register %d is not the decoded one (%v)", reg, err)
			bad()
			return
		}
		t.wf.SetDynamicInst(wavefront.NewInst(inst))
		t.wf.SetPID(1)
		x.smemWf, x.smemInst, x.smemAll = w, inst, nil
		x.smemPre = append([]byte(nil), sc.files[0]...)
		if fl := c07Catch(func() string { x.smemReqs = sc.cu.VerifSMEMIssue(t.wf); return "" }); fl != "" {
			sc.out = append(sc.out, fl)
			x.smemReqs = nil
			return
		}
	}
	if len(x.smemReqs) == 0 || x.smemWf != w {
		sc.r.Note("c07 smem: piece %d without an issued instruction", k)
		bad()
		return
	}
	start := x.smemReqs[0].Address
	var req *mem.ReadReq
	for _, q := range x.smemReqs {
		if int((q.Address-start)/4) == k {
			req = q
		}
	}
	if req == nil || int(req.AccessByteSize) != len(data) {
		sc.r.Checked("smem.chunks")
		sc.r.Failf("C07.smem.chunks", what, "no read request for dword %d with %d bytes among %d requests", k, len(data), len(x.smemReqs))
		bad()
		return
	}
	rsp := mem.DataReadyRspBuilder{}.WithRspTo(req.ID).WithData(data).Build()
	ans := c07Catch(func() string { sc.cu.VerifScalarMemRsp(rsp); return "ok" })
	sc.out = append(sc.out, ans)
	x.smemAll = append(x.smemAll, data...)
	want := 4 << uint(opc)
	if sc.kind == "wild" || len(x.smemAll) < want {
		return
	}
	// the instruction is complete: its data operand must hold the loaded dwords (ISA reading of
	// s_load_dwordxN sdata: the N registers from SDATA on, whatever SDATA names)
	rc := x.smemInst.Data.RegCount
	kind := c07KindName(insts.RegType(reg))
	sc.r.Checked("smem-return")
	sc.r.Count("smem-return." + kind)
	got := c07Access(t.wf, []string{"rb", f[1], f[2], strconv.Itoa(rc), "0", strconv.Itoa(want)})
	okHere := got == c07Hex(x.smemAll)
	if !okHere {
		// what did change instead?
		var ch []string
		for p, b := range sc.files[0] {
			if b != x.smemPre[p] && len(ch) < 12 {
				owner := "no wavefront"
				for j, o := range sc.tw {
					if p >= o.soff && p < o.soff+4*o.ns {
						owner = fmt.Sprintf("s%d of wavefront %d", (p-o.soff)/4, j)
					}
				}
				ch = append(ch, fmt.Sprintf("scalar file byte %d (%s) %02x->%02x", p, owner, x.smemPre[p], b))
			}
		}
		sig := "C07.smem-return.special"
		if insts.RegType(reg) >= insts.S0 && insts.RegType(reg) <= insts.S101 {
			sig = "C07.smem-return.sgpr"
		}
		sc.r.Failf(sig, what, "after the load %s x%d reads %s, loaded %s; changed instead: %s", kind, rc, got, c07Hex(x.smemAll), strings.Join(ch, ", "))
		for _, o := range sc.tw {
			if o.cells != nil && !o.broken {
				o.load(sc)
			}
		}
		return
	}
	if t.cells != nil && !t.broken {
		if _, ok := t.cells.expect([]string{"wb", f[1], f[2], strconv.Itoa(rc), "0", c07Hex(x.smemAll)}); !ok {
			t.load(sc)
		} else if t.shadow != nil {
			c07Access(t.shadow, []string{"wb", f[1], f[2], strconv.Itoa(rc), "0", c07Hex(x.smemAll)})
		}
		sc.othersUnchanged(w, "C07.smem-return.frame", strings.Join(f[:4], " "))
	}
}

// c07SmemOps: the ops of one s_load_dword* of wavefront w: set the base pair, then one `smem` per
// cache-line piece (64-byte lines, as the shipped scalar unit splits them).
func c07SmemOps(rng *Rng, w, opc, sdata, dataReg, sbase int, base uint64, off int) []string {
	ops := []string{fmt.Sprintf("w %d %d 2 0 %x", w, int(insts.S0)+2*sbase, base)}
	start := (base + uint64(off)) &^ 3
	left := uint64(4) << uint(opc)
	cur := start
	for left > 0 {
		n := 64 - cur%64
		if n > left {
			n = left
		}
		ops = append(ops, fmt.Sprintf("smem %d %d %d %s %d %d %d %d", w, dataReg, (cur-start)/4, c07HexBytes(rng, int(n)), opc, sdata, sbase, off))
		cur += n
		left -= n
	}
	return ops
}

// ---------------------------------------------------------------- generators / runners

// c07DispScenario: a `c07 tim` scenario with re-dispatches of resident wavefronts to free
// windows, emulator-side inits, scalar loads.
func c07DispTimCase(r *Run, rng *Rng, n int) {
	nsimd := rng.Range(1, 2)
	nwf := rng.Range(2, 4)
	wfs, ns, nv := c07Layout(rng, nwf, nsimd)
	ops := []string{fmt.Sprintf("c07 tim fill=%d nsimd=%d cu=full wf=%s", rng.Range(1, 1<<30), nsimd, strings.Join(wfs, ","))}
	for w := 0; w < nwf; w++ {
		ops = append(ops, c07SetOp(rng, w))
	}
	type lay struct{ simd, soff, voff int }
	lays := make([]lay, nwf)
	for i, s := range wfs {
		fmt.Sscanf(strings.ReplaceAll(s, ":", " "), "%d %d %d", &lays[i].simd, &lays[i].soff, &lays[i].voff)
	}
	for i := 0; i < n; i++ {
		w := rng.Intn(nwf)
		switch {
		case rng.Chance(8) && ns[w] >= 1 && nv[w] >= 1:
			// dispatch wavefront w again to the window it has (every other wavefront keeps its own)
			d := c07GenDisp(rng, ns[w], nv[w])
			ops = append(ops, fmt.Sprintf("disp %d %d %d %d %s", w, lays[w].simd, lays[w].soff, lays[w].voff, d.tokens()))
		case rng.Chance(10) && ns[w] >= 6:
			opc := rng.Pick(0, 1, 1, 2, 3, 4)
			cnt := 1 << uint(opc)
			if cnt > ns[w]-2 {
				opc, cnt = 0, 1
			}
			sb := rng.Intn(min(ns[w], 100)/2 - 0)
			if 2*sb+2 > ns[w] {
				sb = 0
			}
			sd := rng.Intn(ns[w] - cnt + 1)
			base := uint64(0x1000 + 4*rng.Intn(64))
			if rng.Chance(30) {
				// SDATA names a register that is not an SGPR (legal ISA): vcc, exec, m0 — also split
				// over two cache lines (second piece: vcc_hi / exec_hi)
				sp := [][3]int{{106, int(insts.VCCLO), 1}, {106, int(insts.VCCLO), 0}, {107, int(insts.VCCHI), 0},
					{126, int(insts.EXECLO), 1}, {126, int(insts.EXECLO), 0}, {127, int(insts.EXECHI), 0}, {124, int(insts.M0), 0}}[rng.Intn(7)]
				if rng.Chance(40) {
					base = 0x1000 + 60 // a dwordx2 from here straddles the 64-byte line
				}
				ops = append(ops, c07SmemOps(rng, w, sp[2], sp[0], sp[1], sb, base, 0)...)
				continue
			}
			ops = append(ops, c07SmemOps(rng, w, opc, sd, int(insts.S0)+sd, sb, base, 4*rng.Intn(32))...)
		default:
			ops = append(ops, c07GenOp(rng, w, ns[w], nv[w], true))
		}
	}
	runC07Scenario(r, ops, "valid")
	r.Count("disp.tim-scenario")
}

func c07DispEmuCase(r *Run, rng *Rng, n int) {
	ops := []string{fmt.Sprintf("c07 emu fill=%d", rng.Range(0, 1<<30)), c07SetOp(rng, 0)}
	for i := 0; i < n; i++ {
		if rng.Chance(10) {
			ops = append(ops, "init "+c07GenDisp(rng, 102, 256).tokens())
		} else {
			ops = append(ops, c07GenOp(rng, 0, 102, 256, true))
		}
	}
	runC07Scenario(r, ops, "valid")
	r.Count("disp.emu-scenario")
}

// c07LifeCase: a zero-filled compute unit; a real CUResourceImpl hands out the windows; work-groups
// are dispatched (new + disp per wavefront), access their registers, finish (retire per wavefront)
// and their resources are freed; later work-groups reuse the windows.
func c07LifeCase(r *Run, rng *Rng, nsteps int) {
	sh := c07ShippedShape
	if rng.Chance(40) {
		k := rng.Pick(1, 2, 3)
		sh.wf = []int{k, k, k, k}
	}
	pool := shim.NewPool()
	if f := catch(func() { pool.Register(&c09CU{name: "CU0", shape: sh}) }); f != "" {
		return
	}
	ops := []string{"c07 tim fill=0 nsimd=4 cu=full life=1 wf=0:0:0:0:0"}
	type group struct {
		wg   *kernels.WorkGroup
		idxs []int
	}
	var live []group
	type winfo struct{ ns, nv int }
	infos := []winfo{{0, 0}}
	alive := map[int]bool{}
	for step := 0; step < nsteps; step++ {
		nl := len(alive)
		switch {
		case len(live) > 0 && (rng.Chance(25) || nl > 10):
			j := rng.Intn(len(live))
			g := live[j]
			for _, i := range g.idxs {
				ops = append(ops, fmt.Sprintf("retire %d", i))
				delete(alive, i)
			}
			if f := catch(func() { pool.Free(0, g.wg) }); f != "" {
				r.Failf("C07.alloc.free-panic", strings.Join(ops, " ; "), "%s", f)
				return
			}
			live = append(live[:j], live[j+1:]...)
			r.Count("life.free")
		case rng.Chance(35) || nl == 0:
			d := c09Dem{nwf: rng.Pick(1, 1, 2, 3, 4), s: rng.Pick(16, 16, 17, 32, 48, 96, 102, rng.Range(12, 102)),
				v: rng.Pick(3, 4, 4, 8, 16, 24, 64, 128, rng.Range(3, 256)), l: c09RandL(rng)}
			wg := c09MakeWG(d)
			var locs []shim.WfLocation
			var ok bool
			if f := catch(func() { locs, ok = pool.Reserve(0, wg) }); f != "" {
				r.Failf("C07.alloc.reserve-panic", strings.Join(ops, " ; "), "%s", f)
				return
			}
			if !ok {
				r.Count("life.reserve-no")
				continue
			}
			g := group{wg: wg}
			di := c07GenDisp(rng, d.s, d.v)
			for k, l := range locs {
				idx := len(infos)
				infos = append(infos, winfo{d.s, d.v})
				dk := *di
				dk.first = 64 * k
				ops = append(ops, fmt.Sprintf("new %d %d", d.s, d.v),
					fmt.Sprintf("disp %d %d %d %d %s", idx, l.SIMDID, l.SGPROffset, l.VGPROffset, dk.tokens()))
				g.idxs = append(g.idxs, idx)
				alive[idx] = true
			}
			live = append(live, g)
			r.Count("life.reserve-ok")
		default:
			var ids []int
			for i := range infos { // ascending: map iteration order is random
				if alive[i] {
					ids = append(ids, i)
				}
			}
			if len(ids) == 0 {
				continue
			}
			w := ids[rng.Intn(len(ids))]
			for k := rng.Range(1, 6); k > 0; k-- {
				ops = append(ops, c07GenOp(rng, w, infos[w].ns, infos[w].nv, true))
			}
		}
	}
	runC07Scenario(r, ops, "valid")
	r.Count("life.scenario")
}

// ---- emulation compute unit: fresh wavefront state as a function of the dispatch

type c07FreshObs2 struct{ digests []string }

func (o *c07FreshObs2) Func(ctx sim.HookCtx) {
	wf, ok := ctx.Item.(*emu.Wavefront)
	if !ok {
		return
	}
	inst, ok := ctx.Detail.(*insts.Inst)
	if !ok || inst.FormatType != insts.SOPP || inst.Opcode != 1 {
		return
	}
	h := c07Fnv(14695981039346656037, wf.SRegFile)
	h = c07Fnv(h, wf.VRegFile)
	h = c07Fnv(h, c07SpecialBytes(wf.VCC(), wf.EXEC(), wf.SCC(), wf.M0))
	o.digests = append(o.digests, fmt.Sprintf("%016x", h))
}

func c07FreshRunObs(eng sim.Engine, c *emu.ComputeUnit, addr uint64, ds []*c07Disp) string {
	wg := ds[0].apply(kernels.NewWavefront(), 32, 12)
	wg.Packet.KernelObject = addr
	wg.SizeZ, wg.CurrSizeX, wg.CurrSizeY, wg.CurrSizeZ = 1, wg.SizeX, wg.SizeY, 1
	b := protocol.MapWGReqBuilder{}.WithSrc(sim.RemotePort("Dispatcher.Port")).WithDst(c.ToDispatcher.AsRemote()).WithPID(1).WithWG(wg)
	for _, d := range ds {
		wf := kernels.NewWavefront()
		wf.CodeObject, wf.Packet, wf.WG = wg.CodeObject, wg.Packet, wg
		wf.PacketAddress, wf.InitExecMask, wf.FirstWiFlatID = d.pa, d.exec, d.first
		wg.Wavefronts = append(wg.Wavefronts, wf)
		b = b.AddWf(protocol.WfDispatchLocation{Wavefront: wf})
	}
	if c.ToDispatcher.Deliver(b.Build()) != nil {
		return "cannot deliver MapWGReq"
	}
	if err := eng.Run(); err != nil {
		return err.Error()
	}
	if _, ok := c.ToDispatcher.RetrieveOutgoing().(*protocol.WGCompletionMsg); !ok {
		return "no WGCompletionMsg"
	}
	return ""
}

func c07EmuFreshCase(r *Run, rng *Rng) {
	memory := &c07FreshMem{words: map[uint64]uint32{}}
	nDirty := rng.Range(0, 3)
	var desc []string
	for k := 0; k < nDirty; k++ {
		pc := uint64(0x1000 * (k + 1))
		for j := rng.Range(1, 10); j > 0; j-- {
			lit := uint32(rng.U64()) | 1
			var w uint32
			var what string
			switch rng.Intn(6) {
			case 0:
				w, what = 0xBEFC00FF, "m0"
			case 1:
				w, what = 0xBEEA00FF, "vcc_lo"
			case 2:
				w, what = 0xBEEB00FF, "vcc_hi"
			case 3:
				n := uint32(rng.Range(0, 31))
				w, what = 0xBE8000FF|n<<16, fmt.Sprintf("s%d", n)
			default:
				n := uint32(rng.Range(0, 11))
				w, what = 0x7E0002FF|n<<17, fmt.Sprintf("v%d", n)
			}
			memory.words[pc], memory.words[pc+4] = w, lit
			pc += 8
			desc = append(desc, fmt.Sprintf("wg%d:%s=%x", k, what, lit))
		}
	}
	base := c07GenDisp(rng, 32, 12)
	nObs := rng.Range(1, 3)
	var ds []*c07Disp
	for k := 0; k < nObs; k++ {
		dk := *base
		dk.first = 64 * k
		dk.exec = rng.pickU64(^uint64(0), rng.U64())
		ds = append(ds, &dk)
	}
	line := fmt.Sprintf("c07 efresh dirty=%d:%s", nDirty, strings.Join(desc, ","))
	for _, d := range ds {
		line += " ; " + d.tokens()
	}
	run := func(withDirty bool) ([]string, string) {
		eng := sim.NewSerialEngine()
		c := emu.NewComputeUnit("CU", eng, insts.NewDisassembler(), emu.NewALU(memory), memory)
		c.ToDispatcher.SetConnection(&c07FreshConn{})
		obs := &c07FreshObs2{}
		c.AcceptHook(obs)
		if withDirty {
			for k := 0; k < nDirty; k++ {
				if f := c07FreshRunWG(eng, c, uint64(0x1000*(k+1)), rng.Range(1, 2)); f != "" {
					return nil, f
				}
			}
		}
		before := len(obs.digests)
		if f := c07FreshRunObs(eng, c, 0x100000, ds); f != "" {
			return nil, f
		}
		return obs.digests[before:], ""
	}
	var a, b []string
	var fa, fb string
	if f := catch(func() { b, fb = run(false) }); f != "" {
		fb = f
	}
	if f := catch(func() { a, fa = run(true) }); f != "" {
		fa = f
	}
	if fa != "" || fb != "" || len(a) != nObs {
		r.Note("c07 efresh scenario skipped: %s / %s / %d digests", fa, fb, len(a))
		r.Count("efresh.skipped")
		return
	}
	r.Case(line, strings.Join(a, " "))
	r.Checked("fresh-wavefront-state")
	r.Count("efresh.scenario")
	if strings.Join(a, " ") != strings.Join(b, " ") {
		r.Failf("C07.emu.fresh-wavefront-state", line, "a wavefront started after finished work-groups on the same CU does not start like one on a new CU:\n after: %v\n new:   %v", a, b)
	}
}

// ---- decoded operands

func c07DecLine(cdna3 bool, bytes []byte) (line, ans string, ops map[string]*insts.Operand) {
	c := 0
	if cdna3 {
		c = 1
	}
	line = fmt.Sprintf("c07 dec %d %s", c, c07Hex(bytes))
	d := insts.NewDisassembler()
	d.IsCDNA3 = cdna3
	var inst *insts.Inst
	var err error
	if f := catch(func() { inst, err = d.Decode(bytes) }); f != "" {
		return line, "notimpl", nil
	}
	if err != nil {
		return line, "err", nil
	}
	ops = map[string]*insts.Operand{}
	out := []string{"ok"}
	for _, p := range []struct {
		n string
		o *insts.Operand
	}{{"src0", inst.Src0}, {"src1", inst.Src1}, {"src2", inst.Src2}, {"dst", inst.Dst}, {"sdst", inst.SDst}, {"addr", inst.Addr},
		{"data", inst.Data}, {"data1", inst.Data1}, {"base", inst.Base}, {"offset", inst.Offset}} {
		if p.o != nil && p.o.OperandType == insts.RegOperand && p.o.Register != nil {
			out = append(out, fmt.Sprintf("%s=%d:%d", p.n, p.o.Register.RegType, p.o.RegCount))
			ops[p.n] = p.o
		}
	}
	return line, strings.Join(out, " "), ops
}

func c07LE(words ...uint32) []byte {
	var b []byte
	for _, w := range words {
		b = binary.LittleEndian.AppendUint32(b, w)
	}
	return b
}

// c07DecCases: random SMEM / SOP1 / SOP2 / VOP3 words whose operand fields name special registers,
// through the real decoder and the decoder model; operand classes counted.
func c07DecCases(r *Run, rng *Rng, n int) {
	specials := []uint32{102, 103, 104, 105, 106, 107, 108, 109, 110, 111, 112, 124, 126, 127, 251, 252, 253}
	for i := 0; i < n; i++ {
		var bytes []byte
		sp := specials[rng.Intn(len(specials))]
		switch rng.Intn(4) {
		case 0: // SMEM loads (and the store opcodes, if decodable)
			opc := uint32(rng.Pick(0, 1, 2, 3, 4, 8, 9, 10, 11, 12, 16, 17, 18))
			sd := sp
			if sd > 127 || rng.Chance(30) {
				sd = uint32(rng.Intn(128))
			}
			bytes = c07LE(0xC0000000|opc<<18|1<<17|sd<<6|uint32(rng.Intn(64)), uint32(rng.Intn(1<<20)))
		case 1: // SOP1 (s_mov_b32 = 0, s_mov_b64 = 1, …)
			sd := sp
			if sd > 127 {
				sd = 106
			}
			bytes = c07LE(0xBE800000 | sd<<16 | uint32(rng.Intn(48))<<8 | uint32(rng.pickU64(uint64(sp), uint64(rng.Intn(256)))))
		case 2: // SOP2
			sd := sp
			if sd > 127 {
				sd = 126
			}
			bytes = c07LE(0x80000000 | uint32(rng.Intn(45))<<23 | sd<<16 | uint32(rng.pickU64(uint64(sp), uint64(rng.Intn(102))))<<8 | uint32(rng.Intn(102)))
		default: // VOP3a with 64-bit operands among the rows
			bytes = c07LE(0xD0000000|uint32(rng.Pick(0x280, 0x281, 0x282, 0x1C1, 0x1C2, 0x1C3, rng.Range(0x100, 0x2A0)))<<16|uint32(rng.Intn(256)),
				uint32(rng.Intn(256))<<18|uint32(rng.pickU64(uint64(sp), uint64(rng.Intn(512))))<<9|uint32(rng.pickU64(uint64(sp), uint64(rng.Intn(512)))))
		}
		line, ans, ops := c07DecLine(false, bytes)
		r.Case(line, ans)
		r.Count("dec." + strings.Fields(ans)[0])
		for _, o := range ops {
			t := o.Register.RegType
			if (t < insts.S0 || t > insts.S101) && (t < insts.V0 || t > insts.V255) {
				r.Count(fmt.Sprintf("dec.special-operand.count-%d", o.RegCount))
			}
		}
	}
}

// c07Witness runs one fixed scenario and reports whether `sig` fired in it.
func c07Fired(r *Run, sig string, f func()) bool {
	r.mu.Lock()
	n := len(r.fails)
	r.mu.Unlock()
	f()
	r.mu.Lock()
	defer r.mu.Unlock()
	for _, fl := range r.fails[n:] {
		if fl.Sig == sig {
			return true
		}
	}
	return false
}


// c07UnlWitness: theorem allocator_windows_disjoint_any_counts_refuted on a real CUResourceImpl — a CU
// that reports an unlimited (-1) vector register count gets VGPR offsets from a bump counter, so the
// second wavefront's lane rows are the first one's shifted by one lane. Also the facts the notes rely
// on: the shipped timing CU reports limited counts, the emulation CU unlimited ones.
func c07UnlWitness(r *Run) {
	sh := c09Shape{wf: []int{10}, s: 3200, v: []int{-1}, lds: 65536}
	ops := []string{"c07 alloc " + sh.String(), "r 1 1 16 256 0", "r 2 1 16 4 0"}
	pool := shim.NewPool()
	var outs []string
	var live []c07Live
	f := catch(func() {
		pool.Register(&c09CU{name: "CU0", shape: sh})
		for k, d := range []c09Dem{{nwf: 1, s: 16, v: 256, l: 0}, {nwf: 1, s: 16, v: 4, l: 0}} {
			locs, ok := pool.Reserve(0, c09MakeWG(d))
			if !ok {
				outs = append(outs, "no")
				continue
			}
			outs = append(outs, "ok:"+c09LocsString(locs))
			live = append(live, c07Live{k + 1, d, append([]shim.WfLocation(nil), locs...)})
		}
	})
	r.Checked("alloc-witness")
	if f != "" || len(live) != 2 {
		r.Failf("C07.alloc-witness.stale", strings.Join(ops, " ; "), "unlimited-count witness did not run: %s %v", f, outs)
		return
	}
	wins, _, _, inside, disjoint, _ := c07Windows(live)
	outs = append(outs, "wf="+strings.Join(wins, ","), "inside="+c07B(inside), "disjoint="+c07B(disjoint))
	r.Case(strings.Join(ops, " ; "), strings.Join(outs, " "))
	if live[1].locs[0].VGPROffset != 1024 || live[1].locs[0].SIMDID != live[0].locs[0].SIMDID {
		r.Failf("C07.alloc-witness.stale", strings.Join(ops, " ; "), "second wavefront at simd %d voff %d, listed: same SIMD, voff 1024",
			live[1].locs[0].SIMDID, live[1].locs[0].VGPROffset)
	}
	tc := cu.MakeBuilder().WithEngine(&fakeEngine{}).WithVectorMemModules(&mem.SinglePortMapper{Port: sim.RemotePort("VMem")}).Build("CUx")
	ec := emu.NewComputeUnit("ECU", sim.NewSerialEngine(), insts.NewDisassembler(), nil, nil)
	r.Checked("cu-counts")
	if tc.SRegCount() != 3200 || fmt.Sprint(tc.VRegCounts()) != "[16384 16384 16384 16384]" || fmt.Sprint(tc.WfPoolSizes()) != "[10 10 10 10]" {
		r.Failf("C07.cu-counts", "timing CU", "reports SRegCount %d VRegCounts %v WfPoolSizes %v", tc.SRegCount(), tc.VRegCounts(), tc.WfPoolSizes())
	}
	if ec.SRegCount() != -1 || fmt.Sprint(ec.VRegCounts()) != "[-1]" {
		r.Failf("C07.cu-counts", "emulation CU", "reports SRegCount %d VRegCounts %v (listed: unlimited)", ec.SRegCount(), ec.VRegCounts())
	}
}

func runC07Disp(r *Run, rng *Rng, replay string) {
	c07UnlWitness(r)
	// --- a decodable instruction with an operand outside the supported subset (theorem
	// malformed_operand_decodable): s_load_dwordx4 vcc_lo…, bytes through the real decoder, the
	// operand then through both stores — the open finding C07-malformed-operand-width is reachable
	// from decodable code (as a read of that operand; no ALU performs it)
	line, ans, ops := c07DecLine(false, c07LE(0xC00A1A82, 0))
	r.Case(line, ans)
	if o := ops["data"]; o != nil {
		runC07Scenario(r, []string{"c07 tim fill=0 nsimd=1 wf=0:0:0:16:4", "set 0 1111111122222222 0 0 0",
			fmt.Sprintf("rb 0 %d %d 0 16", o.Register.RegType, o.RegCount)}, "witness")
		// the write the emulator performs for this instruction agrees in both stores
		runC07Scenario(r, []string{"c07 tim fill=0 nsimd=1 wf=0:0:0:16:4", "set 0 1111111122222222 0 0 0",
			fmt.Sprintf("wb 0 %d %d 0 0102030405060708090a0b0c0d0e0f10", o.Register.RegType, o.RegCount),
			fmt.Sprintf("r 0 %d 2 0", insts.VCCLO)}, "valid")
	} else {
		r.Failf("C07.decode-witness.stale", line, "s_load_dwordx4 with SDATA = 106 no longer decodes to a vcc_lo operand: %s", ans)
	}
	// --- scalar load into VCC (theorem smem_return_is_operand_write_full; before fix 62188db2 the
	// timing return path wrote through the register FILE at SReg(RegIndex(vcc_lo) + k) = SReg(-1) =
	// v255, i.e. into the scalar file 1020 bytes behind the wavefront's window — another wavefront's
	// SGPRs — and VCC kept its old value: smem_return_is_operand_write_before_fix_refuted). The former
	// witness must now load VCC and leave the other wavefront alone (C07.smem-return.special / .frame).
	{
		ops := []string{"c07 tim fill=0 nsimd=1 cu=full wf=0:128:0:16:4,0:1088:16:32:4", "set 0 0 ffffffffffffffff 0 0", "set 1 0 ffffffffffffffff 0 0"}
		ops = append(ops, fmt.Sprintf("w 0 %d 2 0 1000", int(insts.S0)+4))
		ops = append(ops, fmt.Sprintf("smem 0 %d 0 8f77f35bab8671db 1 106 2 0", insts.VCCLO))
		ops = append(ops, fmt.Sprintf("r 0 %d 2 0", insts.VCCLO), fmt.Sprintf("rb 1 %d 4 0 16", int(insts.S0)+12))
		runC07Scenario(r, ops, "valid")
		// the same load split over two cache lines: vcc_lo with the first piece, vcc_hi with the second
		ops = []string{"c07 tim fill=0 nsimd=1 cu=full wf=0:128:0:16:4,0:1088:16:32:4", "set 0 0 ffffffffffffffff 0 0", "set 1 0 ffffffffffffffff 0 0"}
		ops = append(ops, fmt.Sprintf("w 0 %d 2 0 103c", int(insts.S0)+4))
		ops = append(ops, fmt.Sprintf("smem 0 %d 0 8f77f35b 1 106 2 0", insts.VCCLO), fmt.Sprintf("smem 0 %d 1 ab8671db 1 106 2 0", insts.VCCLO))
		ops = append(ops, fmt.Sprintf("r 0 %d 2 0", insts.VCCLO))
		runC07Scenario(r, ops, "valid")
	}
	// --- dispatch: the ABI registers must fit the declared register counts (hypothesis AbiFits of
	// dispatch_writes_only_own_window cannot be dropped): a code object that declares 0 SGPRs but
	// enables dispatch ptr + kernarg ptr makes DispatchWf write s[0:3] at its offset — the
	// registers of the wavefront that owns that window
	{
		sc := []string{"c07 tim fill=0 nsimd=1 wf=0:0:0:0:4,0:0:16:16:4", "set 0 0 0 0 0", "set 1 0 0 0 0",
			"disp 0 0 0 0 a 0 0 1111222233334444 5555666677778888 64 1 1 64 1 1 0 0 0 64 1 0 ffffffffffffffff",
			fmt.Sprintf("rb 1 %d 4 0 16", insts.S0)}
		n := len(r.impl)
		runC07Scenario(r, sc, "wild")
		r.Checked("dispatch-witness")
		got := ""
		if len(r.impl) > n {
			f := strings.Fields(r.impl[len(r.impl)-1])
			if len(f) >= 4 {
				got = f[3]
			}
		}
		if got != "4444333322221111"+"8888777766665555" {
			r.Failf("C07.dispatch-witness.stale", strings.Join(sc, " ; "), "wavefront 1 reads s[0:3] = %s after wavefront 0 (0 SGPRs) was dispatched onto its window", got)
		}
	}
	nT, nE, nL, nF, nD, length := 60, 30, 40, 40, 300, 60
	if r.Tier == "thorough" {
		nT, nE, nL, nF, nD, length = 1200, 600, 800, 800, 6000, 200
	}
	for i := 0; i < nT; i++ {
		c07DispTimCase(r, rng, rng.Range(10, length))
	}
	for i := 0; i < nE; i++ {
		c07DispEmuCase(r, rng, rng.Range(10, length))
	}
	for i := 0; i < nL; i++ {
		c07LifeCase(r, rng, rng.Range(6, 40))
	}
	for i := 0; i < nF; i++ {
		c07EmuFreshCase(r, rng)
	}
	c07DecCases(r, rng, nD)
}
