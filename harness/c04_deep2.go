package main

import (
	"encoding/binary"
	"fmt"
	"sort"
	"strings"

	"github.com/sarchlab/mgpusim/v4/amd/insts"
)

func init() { register("C04", runC04Deep2) }

// Tie and oracles for the formats added by the deepening (VOP3a, VOP3b, DS, FLAT, VOP2+SDWA) and for the converse
// direction of the round trip:
//   c04 enc  <format> k=v …   -> bytes of the harness encoder
//   c04 inst <format> k=v …   -> REAL decoder (GCN3 instance) on the encoded bytes (+ random tail), for descriptions
//   c04 inst3 …                  that are well-formed by construction (CDNA3 instance), including the two classes on
//                                which the decoder used to depart from the ISA packing (s_setreg_imm32_b32, SDWA S0:
//                                repaired; their ISA oracles C04.isa.* stay)
//   c04 norm <arch> <hex>     -> canonical form (ignored bits cleared, unused bytes dropped) computed by c04Norm
//   c04 desc <arch> <hex>     -> the same bytes: the model answers encode(descOf(decode b))
// Oracles on the real decoder: size = encoded length, tail independence, decode(norm b) = decode(b) (the cleared bits
// are ignored) and, for every single-bit flip b' of b, decode(b') = decode(b) <=> norm(b') = norm(b) (no other bit is).

func c04le(b []byte) uint32 { return binary.LittleEndian.Uint32(b) }

// c04Norm: canonical form of a buffer that the decoder accepted (inst != nil). Written from the ISA field layouts and
// the decoder's reading of them, independently of the Lean `normRow`.
func c04Norm(cdna3 bool, inst *insts.Inst, buf []byte) []byte {
	lo := c04le(buf[0:4])
	var hi uint32
	two := inst.ByteSize == 8
	if two {
		hi = c04le(buf[4:8])
	}
	op := uint32(inst.Opcode)
	switch inst.FormatType {
	case insts.SMEM:
		lo &^= 7 << 13
		if cdna3 && lo>>17&1 == 1 {
			hi &= 1<<21 - 1
		} else {
			hi &= 1<<20 - 1
		}
	case insts.VOP3a:
		switch {
		case op == 944:
		case op == 945 || op == 946:
			lo &^= 3 << 13
		default:
			lo &^= 0xf << 11
		}
		if inst.SRC2Width == 0 {
			hi &^= 0x1ff << 18
		}
	case insts.VOP3b:
		if op <= 255 {
			lo &^= 0xff
		}
		if !(op > 255 && inst.SRC2Width > 0) {
			hi &^= 0x1ff << 18
		}
	case insts.DS:
		lo &^= 1 << 25
		if inst.SRC0Width == 0 {
			hi &^= 0xff << 8
		}
		if inst.SRC1Width == 0 {
			hi &^= 0xff << 16
		}
		if inst.DSTWidth == 0 {
			hi &^= 0xff << 24
		}
	case insts.FLAT:
		seg := lo >> 14 & 3
		lo &^= 1<<13 | 3<<14 | 1<<25
		if cdna3 && hi>>16&0x7f != 0x7f && seg != 0 {
			lo |= 1 << 14
		}
	case insts.VOP2:
		if lo&0x1ff == 249 {
			if hi>>11&3 == 3 {
				hi &^= 3 << 11
			}
			hi &^= 3<<14 | 1<<22 | 1<<30
		}
	}
	out := make([]byte, 4, 8)
	binary.LittleEndian.PutUint32(out, lo)
	if two {
		out = binary.LittleEndian.AppendUint32(out, hi)
	}
	return out
}

func runC04Deep2(r *Run, rng *Rng, replay string) {
	gcn3 := insts.NewDisassembler()
	cdna3 := insts.NewDisassembler()
	cdna3.IsCDNA3 = true
	rows := gcn3.VerifRows()
	sort.Slice(rows, func(i, j int) bool {
		if rows[i].Format.FormatType != rows[j].Format.FormatType {
			return rows[i].Format.FormatType < rows[j].Format.FormatType
		}
		return rows[i].Opcode < rows[j].Opcode
	})
	byFmt := map[string][]*insts.InstType{}
	for _, it := range rows {
		byFmt[it.Format.FormatName] = append(byFmt[it.Format.FormatName], it)
	}
	n := 4000
	if r.Tier == "thorough" {
		n = 60000
	}
	code9 := func(wf bool) uint32 { // 9-bit source of a VOP3 word: no literal
		x := rng.Intn(100)
		switch {
		case x < 40:
			return 256 + uint32(rng.Pick(0, 1, 255, rng.Intn(256)))
		case !wf && x < 70:
			return c04RejectedS[rng.Intn(len(c04RejectedS))]
		case !wf && x < 75:
			return 255 // literal: not a VOP3 operand on GFX9 (decoded as a literal without a value)
		case x < 80:
			return uint32(rng.Intn(102))
		default:
			return c04AcceptedS[rng.Intn(len(c04AcceptedS))]
		}
	}
	code7 := func(wf bool) uint32 {
		for {
			var c uint32
			if !wf && rng.Chance(50) {
				c = c04RejectedS[rng.Intn(len(c04RejectedS))]
			} else if rng.Chance(50) {
				c = uint32(rng.Intn(102))
			} else {
				c = c04AcceptedS[rng.Intn(len(c04AcceptedS))]
			}
			if c < 128 {
				return c
			}
		}
	}
	kinds := []string{"vop3a", "vop3a", "vop3b", "ds", "flat", "flat", "sdwa", "sdwa-s0", "setreg"}
	for i := 0; i < n; i++ {
		kind := kinds[rng.Intn(len(kinds))]
		fm := kind
		switch kind {
		case "sdwa", "sdwa-s0":
			fm = "vop2"
		case "setreg":
			fm = "sopk"
		}
		list := byFmt[fm]
		if len(list) == 0 {
			continue
		}
		it := list[rng.Intn(len(list))]
		if kind == "vop3a" && rng.Chance(15) { // bias to the packed rows and the VOPC/VOP1 ranges
			for _, cand := range list {
				if o := uint32(cand.Opcode); o >= 944 && o <= 946 && rng.Chance(40) {
					it = cand
				}
			}
		}
		op := uint32(it.Opcode)
		wf := rng.Chance(75)
		deviates := false
		f := map[string]uint32{}
		var lit *uint32
		switch kind {
		case "vop3a":
			f["src0"], f["src1"], f["src2"] = code9(wf), code9(wf), code9(wf)
			f["vdst"] = uint32(rng.Intn(256))
			if op <= 255 {
				f["vdst"] = sCodeDeep(rng, wf)
			}
			f["abs"], f["neg"], f["omod"], f["clamp"] = uint32(rng.Intn(8)), uint32(rng.Intn(8)), uint32(rng.Intn(4)), uint32(rng.Intn(2))
			f["opsel"] = uint32(rng.Pick(0, 0, rng.Intn(16)))
			if op >= 944 && op <= 946 {
				f["opsel"] = uint32(rng.Intn(16))
			}
		case "vop3b":
			f["src0"], f["src1"], f["src2"] = code9(wf), code9(wf), code9(wf)
			f["vdst"], f["sdst"] = uint32(rng.Intn(256)), code7(wf)
			f["neg"], f["omod"], f["clamp"] = uint32(rng.Intn(8)), uint32(rng.Intn(4)), uint32(rng.Intn(2))
		case "ds":
			f["addr"], f["data0"], f["data1"], f["vdst"] = uint32(rng.Intn(256)), uint32(rng.Intn(256)), uint32(rng.Intn(256)), uint32(rng.Intn(256))
			f["offset0"], f["offset1"], f["gds"] = uint32(rng.Pick(0, 255, rng.Intn(256))), uint32(rng.Pick(0, 255, rng.Intn(256))), uint32(rng.Intn(2))
			wf = true // every in-range DS field assignment is well-formed
		case "flat":
			f["addr"], f["data"], f["vdst"] = uint32(rng.Intn(256)), uint32(rng.Intn(256)), uint32(rng.Intn(256))
			f["saddr"] = uint32(rng.Pick(0x7f, 0x7f, 0, 2, 10, rng.Intn(128)))
			f["seg"] = uint32(rng.Intn(4))
			f["glc"], f["slc"], f["tfe"] = uint32(rng.Intn(2)), uint32(rng.Intn(2)), uint32(rng.Intn(2))
			f["offset"] = uint32(rng.Pick(0, 1, 4095, 4096, 8191, rng.Intn(1<<13)))
			wf = true
		case "sdwa", "sdwa-s0":
			f["sdwa"] = 1
			f["src0"], f["vsrc1"], f["vdst"] = uint32(rng.Intn(256)), uint32(rng.Intn(256)), uint32(rng.Intn(256))
			f["s1"] = uint32(rng.Intn(2))
			f["dstsel"], f["src0sel"], f["src1sel"] = uint32(rng.Intn(7)), uint32(rng.Intn(7)), uint32(rng.Intn(7))
			f["dstunused"] = uint32(rng.Intn(3))
			wf = !(op == 23 || op == 24 || op == 36 || op == 37)
			if kind == "sdwa-s0" {
				f["s0"] = 1
				if rng.Chance(70) {
					f["src0"] = uint32(rng.Intn(102))
				}
				deviates = wf
			}
		case "setreg":
			op = 20
			f["sdst"] = code7(true)
			f["simm16"] = uint32(rng.Intn(65536))
			l := uint32(rng.U64())
			lit = &l
			wf, deviates = true, true
		}
		d := desc{format: fm, op: op, f: f}
		if lit != nil {
			d.hasLit, d.literal = true, *lit
		}
		buf := encodeDesc(d)
		r.Case(c04DeepLine("enc", fm, op, f, lit), hexb(buf))
		r.Count("deep2.enc." + kind)
		if !wf {
			// malformed stream: the real decoder must answer without a fault (error, or a literal-less 255 operand)
			out, _ := decodeCanon(gcn3, buf)
			r.Checked("deep2-malformed")
			if strings.HasPrefix(out, "fault:") {
				r.Failf("C04.fault."+fm, "c04 dec gcn3 "+hexb(buf), "malformed %s description: %s", kind, out)
			}
			r.Case("c04 dec gcn3 "+hexb(buf), out)
			continue
		}
		for _, a := range []struct {
			kw  string
			dis *insts.Disassembler
		}{{"inst", gcn3}, {"inst3", cdna3}} {
			full := append(append([]byte{}, buf...), rng.Bytes(rng.Pick(0, 0, 4, 8))...)
			out, dec := decodeCanon(a.dis, full)
			line := c04DeepLine(a.kw, fm, op, f, lit)
			r.Count("deep2." + a.kw + "." + kind)
			if deviates {
				// the two classes the decoder used to get wrong: the implementation-side oracle states the ISA
				// expectation on its own, then the case goes through the round trip like every other one
				r.Checked("deep2-isa")
				switch kind {
				case "setreg":
					if dec == nil || dec.ByteSize != 8 {
						sz := -1
						if dec != nil {
							sz = dec.ByteSize
						}
						r.Failf("C04.isa.setreg-imm32-size", line, "s_setreg_imm32_b32 is 8 bytes (SIMM32 follows the first dword), decoded size %d (bytes %s): a sequential decode takes the immediate for the next instruction", sz, hexb(buf))
					}
				case "sdwa-s0":
					// (SRC0 codes above 101 are not SGPRs: with S0 = 1 the decoder - like the model - takes the field as a
					// plain SGPR index, as it always did for S1; the ISA expectation is stated for real SGPRs)
					if f["src0"] <= 101 && (dec == nil || dec.Src0 == nil || dec.Src0.Register == nil || !dec.Src0.Register.IsSReg() ||
						uint32(dec.Src0.Register.RegIndex()) != f["src0"]) {
						r.Failf("C04.isa.sdwa-s0-bit", line, "SDWA dword with S0 (bit 23) set: SRC0 is the SGPR s%d, decoded as %s (bytes %s)", f["src0"], out, hexb(buf))
					}
				}
			}
			r.Case(line, out)
			r.Checked("deep2-roundtrip")
			if !strings.HasPrefix(out, "ok ") {
				r.Failf("C04.roundtrip."+fm, line, "well-formed description does not decode: %s (bytes %s)", out, hexb(full))
			} else if dec != nil && dec.ByteSize != len(buf) {
				r.Failf("C04.roundtrip."+fm, line, "size %d, but the instruction was encoded in %d bytes (%s)", dec.ByteSize, len(buf), hexb(buf))
			} else if dec != nil {
				if out2, _ := decodeCanon(a.dis, buf); out2 != out {
					r.Failf("C04.prefix."+fm, line, "decode of the exact %d bytes gives %s, with trailing bytes %s", len(buf), out2, out)
				}
			}
		}
	}

	// ---- canonical form / ignored bits ----
	perRow := 2
	flips := 400
	if r.Tier == "thorough" {
		perRow, flips = 30, 6000
	}
	archs := []struct {
		name string
		c    bool
		dis  *insts.Disassembler
	}{{"gcn3", false, gcn3}, {"cdna3", true, cdna3}}
	flipsDone := 0
	for _, it := range rows {
		per := perRow
		switch it.Format.FormatType { // few rows, many ignored bits
		case insts.SMEM, insts.FLAT, insts.VOP3b, insts.VOP2:
			per *= 5
		}
		for k := 0; k < per; k++ {
			a := archs[rng.Intn(2)]
			buf := make([]byte, 8, 12)
			lo := fillWord(rng, it.Format, uint32(it.Opcode))
			if it.Format.FormatType == insts.VOP2 && rng.Chance(40) {
				lo = lo&^0x1ff | 249 // SDWA
			}
			binary.LittleEndian.PutUint32(buf, lo)
			hi := uint32(rng.U64())
			if rng.Chance(50) { // valid operand codes in the 9-bit source fields of a VOP3 second dword, SADDR off, ...
				hi = hi&^0x1ff | specialCodes[rng.Intn(len(specialCodes))]&0x1ff
				if rng.Chance(50) {
					hi = hi&^(0x7f<<16) | 0x7f<<16
				}
			}
			if it.Format.FormatType == insts.VOP2 && c04le(buf)&0x1ff == 249 {
				hi &^= 1<<13 | 7<<19 | 7<<27 // keep the unsupported SDWA modifiers off (they panic: notimpl)
				if rng.Chance(50) {
					hi &^= 1 << 30
				}
			}
			binary.LittleEndian.PutUint32(buf[4:], hi)
			buf = append(buf, rng.Bytes(rng.Pick(0, 0, 4))...)
			out, inst := decodeCanon(a.dis, buf)
			if inst == nil {
				continue
			}
			fm := it.Format.FormatName
			nb := c04Norm(a.c, inst, buf)
			r.Case(fmt.Sprintf("c04 norm %s %s", a.name, hexb(buf)), hexb(nb))
			r.Count("norm." + fm)
			r.Case(fmt.Sprintf("c04 desc %s %s", a.name, hexb(buf)), hexb(nb))
			// the cleared bits are ignored
			r.Checked("ignored-bits")
			if out2, _ := decodeCanon(a.dis, nb); out2 != out {
				r.Failf("C04.ignored."+fm, fmt.Sprintf("c04 dec %s %s", a.name, hexb(buf)), "canonical form %s decodes to %s, the original bytes to %s", hexb(nb), out2, out)
			}
			// and no other bit is: flip every bit of the consumed bytes
			if flipsDone >= flips {
				continue
			}
			flipsDone++
			for bit := 0; bit < 8*inst.ByteSize; bit++ {
				b2 := append([]byte{}, buf...)
				b2[bit/8] ^= 1 << (bit % 8)
				out3, inst3 := decodeCanon(a.dis, b2)
				if inst3 == nil {
					continue
				}
				nb3 := c04Norm(a.c, inst3, b2)
				r.Checked("exact-bits")
				if (out3 == out) != (hexb(nb3) == hexb(nb)) {
					r.Failf("C04.exact."+fm, fmt.Sprintf("c04 dec %s %s", a.name, hexb(buf)), "flipping bit %d: same decode = %v, same canonical form = %v (%s vs %s)", bit, out3 == out, hexb(nb3) == hexb(nb), hexb(nb3), hexb(nb))
				}
			}
		}
	}
}

func sCodeDeep(rng *Rng, wf bool) uint32 {
	for {
		var c uint32
		if !wf && rng.Chance(50) {
			c = c04RejectedS[rng.Intn(len(c04RejectedS))]
		} else if rng.Chance(40) {
			c = uint32(rng.Intn(102))
		} else {
			c = c04AcceptedS[rng.Intn(len(c04AcceptedS))]
		}
		if c < 256 {
			return c
		}
	}
}
