package main

// C19 — page migration preserves page contents and mappings.
//
// mig : two real PageMigrationControllers (their constructor; fake engine; every port on a
//       no-op connection), two harness memories on real mem.Storage objects, a harness network.
//       One case line = one scenario `c19 mig msz= salt= ; op ; op ; …`; every op is an
//       environment move or a Tick. The canonical trace (what moved, progress flag and the
//       controller's bookkeeping after every tick, final storage hashes, completions collected)
//       is compared with the Lean model; the property is checked on the real traffic/storages.
// prep: the real Driver (its Builder: allocator + vm.PageTable) — Allocate, then
//       preparePageForMigration; the table and the free lists are compared with the model and
//       `mapping_after` is checked on the real table.
// hs  : the real Driver's drain → shootdown → migrate → restart handshake driven message by
//       message; counters and the numbers of messages sent are compared with the model.

import (
	"fmt"
	"io"
	"log"
	"os"
	"sort"
	"strconv"
	"strings"

	"github.com/sarchlab/akita/v4/mem/mem"
	"github.com/sarchlab/akita/v4/mem/vm"
	"github.com/sarchlab/akita/v4/sim"
	"github.com/sarchlab/mgpusim/v4/amd/driver"
	"github.com/sarchlab/mgpusim/v4/amd/protocol"
	pmcpkg "github.com/sarchlab/mgpusim/v4/amd/timing/pagemigrationcontroller"
)

func init() { register("C19", runC19) }

type c19Junk struct{ sim.MsgMeta }

func (j *c19Junk) Meta() *sim.MsgMeta { return &j.MsgMeta }
func (j *c19Junk) Clone() sim.Msg     { return j }

type c19Req struct {
	id, p, peer        int
	rd, wr, size       uint64
	valid              bool // inside the property: size = 64k (k>0), in range, regions disjoint from in-flight ones
	delivered, started bool
	completions        int
	pulls              map[uint64]int // read address -> times requested
	writes             map[uint64]int // write address -> times written
	src                []byte         // expected page contents (valid requests)
	collected          bool
	doneSeen           bool // its completion was seen in the control port's outgoing buffer
}

type c19Env struct {
	r     *Run
	ops   *[]string
	msz   uint64
	salt  uint64
	pmc   [2]*pmcpkg.PageMigrationController
	rem   [2]sim.Port
	ctl   [2]sim.Port
	lm    [2]sim.Port
	st    [2]*mem.Storage
	exp   [2][]byte
	net   []sim.Msg
	mq    [2][]sim.Msg
	mr    [2][]sim.Msg
	cq    [2][]sim.Msg
	got   [2][]int
	reqs  []*c19Req
	ids   *idMap
	out   []string
	fault string
	// oracle bookkeeping
	pullOwner map[string]*c19Req // pull id -> request
	pullAddr  map[string]uint64  // pull id -> read address
	pullAt    map[string]int     // pull id -> PMC it was delivered to
	readData  map[string][]byte  // pull id -> what the memory returned
	readSeen  map[string]int
	rspSeen   map[string]int
	malformed bool
	nticks    int
}

func c19InitByte(salt uint64, i int, x uint64) byte {
	return byte(((x*2654435761 + salt*40503 + uint64(i)*97 + (x/64)*131) / 8) % 256)
}

func (e *c19Env) ln() string { return strings.Join(*e.ops, " ; ") }

func newC19Env(r *Run, msz, salt uint64) *c19Env {
	e := &c19Env{r: r, msz: msz, salt: salt, ids: newIDMap(),
		pullOwner: map[string]*c19Req{}, pullAddr: map[string]uint64{}, pullAt: map[string]int{},
		readData: map[string][]byte{}, readSeen: map[string]int{}, rspSeen: map[string]int{}}
	eng := &fakeEngine{}
	for i := 0; i < 2; i++ {
		name := fmt.Sprintf("GPU%d.PMC", i)
		p := pmcpkg.NewPageMigrationController(name, eng,
			&mem.SinglePortMapper{Port: sim.RemotePort(fmt.Sprintf("Mem%d", i))}, nil)
		e.pmc[i] = p
		e.rem[i] = p.GetPortByName("Remote")
		e.ctl[i] = p.GetPortByName("Control")
		e.lm[i] = p.GetPortByName("LocalMem")
		for _, pt := range []sim.Port{e.rem[i], e.ctl[i], e.lm[i]} {
			(&fakeConn{name: "conn"}).PlugIn(pt)
		}
		e.st[i] = mem.NewStorage(msz)
		b := make([]byte, msz)
		for x := range b {
			b[x] = c19InitByte(salt, i, uint64(x))
		}
		if msz > 0 {
			must(e.st[i].Write(0, b))
		}
		e.exp[i] = append([]byte(nil), b...)
	}
	return e
}

func (e *c19Env) pmcOfPort(name sim.RemotePort) int {
	for i := 0; i < 2; i++ {
		if name == e.rem[i].AsRemote() {
			return i
		}
	}
	return 9
}

func c19Dsig(d []byte) string { return fmt.Sprintf("%d.%x", len(d), fnv(d)) }

func (e *c19Env) descR(m sim.Msg) string {
	switch x := m.(type) {
	case *pmcpkg.DataPullReq:
		return fmt.Sprintf("q#%d:%d>%d:%x:%d", e.ids.get(x.ID)-1, e.pmcOfPort(x.Src), e.pmcOfPort(x.Dst), x.ToReadFromPhyAddress, x.DataTransferSize)
	case *pmcpkg.DataPullRsp:
		return fmt.Sprintf("p#%d:>%d:%s", e.ids.get(x.ID)-1, e.pmcOfPort(x.Dst), c19Dsig(x.Data))
	default:
		return fmt.Sprintf("j>%d", e.pmcOfPort(m.Meta().Dst))
	}
}

func (e *c19Env) descM(m sim.Msg) string {
	switch x := m.(type) {
	case *mem.ReadReq:
		return fmt.Sprintf("r#%d:%x:%d", e.ids.get(x.ID)-1, x.Address, x.AccessByteSize)
	case *mem.WriteReq:
		return fmt.Sprintf("w#%d:%x:%s", e.ids.get(x.ID)-1, x.Address, c19Dsig(x.Data))
	}
	return "?"
}

func (e *c19Env) descA(m sim.Msg) string {
	switch x := m.(type) {
	case *mem.DataReadyRsp:
		return fmt.Sprintf("d#%d:%s", e.ids.get(x.RespondTo)-1, c19Dsig(x.Data))
	case *mem.WriteDoneRsp:
		return fmt.Sprintf("k#%d", e.ids.get(x.RespondTo)-1)
	}
	return "j"
}

func c19Fault(s string) string {
	switch {
	case strings.Contains(s, "sending_back_to_src"):
		return "self"
	case strings.Contains(s, "dst_is_not_given"):
		return "nodst"
	case strings.Contains(s, "cannot_process_request"):
		return "type"
	case strings.Contains(s, "we_do_not_know_where"):
		return "nowhere"
	case strings.Contains(s, "not_possible"):
		return "notpossible"
	}
	return s
}

func b01(b bool) string {
	if b {
		return "1"
	}
	return "0"
}

func (e *c19Env) sig(i int) string {
	s := e.pmc[i].VerifStateC19()
	return fmt.Sprintf("%d,%d,%d,%d,%d,%d,%d,%s,%s,%d,%d,%s,%s", s.ToPull, s.CurPull, s.ToRead, s.DataReady,
		s.ToRsp, s.RecvData, s.WriteReqs, b01(s.WriteDone), b01(s.ToCtrl), s.Pending, s.MapSize, b01(s.Handling), b01(s.HasCurrent))
}

// current request of PMC p: oldest delivered request not yet completed
func (e *c19Env) current(p int) *c19Req {
	for _, q := range e.reqs {
		if q.p == p && q.delivered && !q.doneSeen {
			return q
		}
	}
	return nil
}

func (e *c19Env) inflightOverlap(p int, lo, hi uint64, asDst bool, q *c19Req) bool {
	// does [lo,hi) of memory p overlap a region used by an uncompleted request?
	ov := func(a, b uint64) bool { return a < hi && lo < b }
	for _, o := range e.reqs {
		if o.collected || !o.valid {
			if !o.collected && !o.valid {
				return true // a malformed request in flight: nothing can be said
			}
			continue
		}
		if o.p == p && ov(o.wr, o.wr+o.size) {
			return true
		}
		if asDst && o.peer == p && ov(o.rd, o.rd+o.size) {
			return true
		}
	}
	return false
}

func (e *c19Env) op(t []string) {
	atoi := func(s string) int { v, _ := strconv.Atoi(s); return v }
	hex := func(s string) uint64 { v, _ := strconv.ParseUint(s, 16, 64); return v }
	emit := func(s string) { e.out = append(e.out, s) }
	p := 0
	if len(t) > 1 {
		p = atoi(t[1])
		if t[0] != "d" && p != 0 {
			p = 1
		}
	}
	switch t[0] {
	case "t":
		var prog bool
		f := catch(func() { prog = e.pmc[p].Tick() })
		e.nticks++
		if f != "" {
			e.fault = c19Fault(strings.TrimPrefix(f, "explicit:"))
			emit("fault:" + e.fault)
			return
		}
		emit(fmt.Sprintf("T%s[%s]", b01(prog), e.sig(p)))
		e.afterTick(p)
	case "s":
		rd, wr, size, peer := hex(t[2]), hex(t[3]), uint64(atoi(t[4])), atoi(t[5])
		if peer != 0 {
			peer = 1
		}
		q := &c19Req{id: len(e.reqs), p: p, peer: peer, rd: rd, wr: wr, size: size, pulls: map[uint64]int{}, writes: map[uint64]int{}}
		q.valid = size > 0 && size%64 == 0 && peer != p && rd+size <= e.msz && wr+size <= e.msz &&
			!e.inflightOverlap(p, wr, wr+size, true, q) && !e.inflightOverlap(peer, rd, rd+size, false, q)
		if q.valid {
			q.src = append([]byte(nil), e.exp[peer][rd:rd+size]...)
			copy(e.exp[p][wr:wr+size], q.src)
		} else {
			e.malformed = true
		}
		e.reqs = append(e.reqs, q)
		m := pmcpkg.PageMigrationReqToPMCBuilder{}.
			WithSrc(sim.RemotePort(fmt.Sprintf("Ctl.req%d", q.id))).
			WithDst(e.ctl[p].AsRemote()).
			WithReadFrom(rd).WithWriteTo(wr).WithPageSize(size).
			WithPMCPortOfRemoteGPU(e.rem[peer].AsRemote()).Build()
		e.cq[p] = append(e.cq[p], m)
		emit(fmt.Sprintf("s%d", q.id))
	case "c":
		if len(e.cq[p]) == 0 {
			emit("-")
			return
		}
		if e.ctl[p].Deliver(e.cq[p][0]) == nil {
			if m, ok := e.cq[p][0].(*pmcpkg.PageMigrationReqToPMC); ok {
				var id int
				fmt.Sscanf(string(m.Src), "Ctl.req%d", &id)
				e.reqs[id].delivered = true
			}
			e.cq[p] = e.cq[p][1:]
			emit("ok")
		} else {
			emit("full")
		}
	case "n":
		m := e.rem[p].RetrieveOutgoing()
		if m == nil {
			emit("-")
			return
		}
		e.net = append(e.net, m)
		emit(e.descR(m))
		e.onNetPick(p, m)
	case "d":
		if len(e.net) == 0 {
			emit("-")
			return
		}
		j := atoi(t[1]) % len(e.net)
		m := e.net[j]
		dst := e.pmcOfPort(m.Meta().Dst)
		if dst > 1 {
			dst = 1
		}
		if e.rem[dst].Deliver(m) == nil {
			e.net = append(e.net[:j:j], e.net[j+1:]...)
			emit("ok:" + e.descR(m))
			if q, ok := m.(*pmcpkg.DataPullReq); ok {
				e.pullAt[q.ID] = dst
			}
		} else {
			emit("full:" + e.descR(m))
		}
	case "m":
		m := e.lm[p].RetrieveOutgoing()
		if m == nil {
			emit("-")
			return
		}
		e.mq[p] = append(e.mq[p], m)
		emit(e.descM(m))
		e.onMemTake(p, m)
	case "x":
		if len(e.mq[p]) == 0 {
			emit("-")
			return
		}
		j := atoi(t[2]) % len(e.mq[p])
		m := e.mq[p][j]
		var rsp sim.Msg
		switch x := m.(type) {
		case *mem.ReadReq:
			if x.Address+x.AccessByteSize > e.msz {
				e.fault = "oob"
				emit("fault:oob")
				return
			}
			d, err := e.st[p].Read(x.Address, x.AccessByteSize)
			must(err)
			rsp = mem.DataReadyRspBuilder{}.WithSrc(x.Dst).WithDst(x.Src).WithRspTo(x.ID).WithData(d).Build()
			e.readData[x.ID] = append([]byte(nil), d...)
		case *mem.WriteReq:
			if x.Address+uint64(len(x.Data)) > e.msz {
				e.fault = "oob"
				emit("fault:oob")
				return
			}
			must(e.st[p].Write(x.Address, x.Data))
			rsp = mem.WriteDoneRspBuilder{}.WithSrc(x.Dst).WithDst(x.Src).WithRspTo(x.ID).Build()
		}
		e.mq[p] = append(e.mq[p][:j:j], e.mq[p][j+1:]...)
		e.mr[p] = append(e.mr[p], rsp)
		emit(e.descM(m) + "=" + e.descA(rsp))
	case "r":
		if len(e.mr[p]) == 0 {
			emit("-")
			return
		}
		j := atoi(t[2]) % len(e.mr[p])
		m := e.mr[p][j]
		if e.lm[p].Deliver(m) == nil {
			e.mr[p] = append(e.mr[p][:j:j], e.mr[p][j+1:]...)
			emit("ok:" + e.descA(m))
		} else {
			emit("full:" + e.descA(m))
		}
	case "k":
		m := e.ctl[p].RetrieveOutgoing()
		if m == nil {
			emit("-")
			return
		}
		id := -1
		fmt.Sscanf(string(m.Meta().Dst), "Ctl.req%d", &id)
		e.got[p] = append(e.got[p], id)
		emit(fmt.Sprintf("c%d", id))
		e.onCollect(p, id, m)
	case "sw":
		e.malformed = true
		e.mr[p] = append(e.mr[p], mem.WriteDoneRspBuilder{}.WithSrc("Mem").WithDst(e.lm[p].AsRemote()).WithRspTo("stray-done").Build())
		emit("x")
	case "sd":
		e.malformed = true
		e.mr[p] = append(e.mr[p], mem.DataReadyRspBuilder{}.WithSrc("Mem").WithDst(e.lm[p].AsRemote()).WithRspTo("stray-data").
			WithData(bytesOf(7, 64)).Build())
		emit("x")
	case "sr":
		e.malformed = true
		m := pmcpkg.DataPullRspBuilder{}.WithSrc("Nowhere").WithDst(e.rem[p].AsRemote()).WithData(bytesOf(9, 64)).Build()
		m.ID = "stray-rsp"
		e.net = append(e.net, m)
		emit("x")
	case "jn":
		e.malformed = true
		e.net = append(e.net, &c19Junk{sim.MsgMeta{ID: "junk", Src: "Nowhere", Dst: e.rem[p].AsRemote()}})
		emit("x")
	case "jm":
		e.malformed = true
		e.mr[p] = append(e.mr[p], &c19Junk{sim.MsgMeta{ID: "junk", Src: "Mem", Dst: e.lm[p].AsRemote()}})
		emit("x")
	case "jc":
		e.malformed = true
		e.cq[p] = append(e.cq[p], &c19Junk{sim.MsgMeta{ID: "junk", Src: "Ctl", Dst: e.ctl[p].AsRemote()}})
		emit("x")
	default:
		emit("bad")
	}
}

func bytesOf(v byte, n int) []byte {
	b := make([]byte, n)
	for i := range b {
		b[i] = v
	}
	return b
}

// ---- oracles on the real traffic ------------------------------------------------------------

func (e *c19Env) afterTick(p int) {
	// a request counts as started once the controller reports it is handling one
	if q := e.current(p); q != nil && e.pmc[p].VerifStateC19().Handling {
		q.started = true
	}
	// completion visible in the control port: every chunk must already be in the storage
	if m := e.ctl[p].PeekOutgoing(); m != nil {
		id := -1
		fmt.Sscanf(string(m.Meta().Dst), "Ctl.req%d", &id)
		if id >= 0 && id < len(e.reqs) {
			e.reqs[id].doneSeen = true
		}
		if id >= 0 && id < len(e.reqs) && e.reqs[id].valid && !e.malformed {
			q := e.reqs[id]
			e.r.Checked("complete.contents")
			got, _ := e.st[p].Read(q.wr, q.size)
			if string(got) != string(q.src) {
				e.r.Failf("C19.complete.early", e.ln(), "completion of request %d (PMC %d, %d bytes %x<-%x) is in the control port but the destination page differs from the source page (first difference at byte %d)",
					id, p, q.size, q.wr, q.rd, c19FirstDiff(got, q.src))
			}
		}
	}
}

func c19FirstDiff(a, b []byte) int {
	for i := range a {
		if i >= len(b) || a[i] != b[i] {
			return i
		}
	}
	return -1
}

func (e *c19Env) onNetPick(p int, m sim.Msg) {
	if e.malformed {
		return
	}
	switch x := m.(type) {
	case *pmcpkg.DataPullReq:
		e.r.Checked("pull.request")
		q := e.current(p)
		if q == nil {
			e.r.Failf("C19.pull.orphan", e.ln(), "PMC %d sent a pull request (addr %x) while it has no migration request", p, x.ToReadFromPhyAddress)
			return
		}
		e.pullOwner[x.ID] = q
		e.pullAddr[x.ID] = x.ToReadFromPhyAddress
		q.pulls[x.ToReadFromPhyAddress]++
		off := x.ToReadFromPhyAddress - q.rd
		if x.ToReadFromPhyAddress < q.rd || off >= q.size || off%64 != 0 || x.DataTransferSize != 64 ||
			x.Dst != e.rem[q.peer].AsRemote() || q.pulls[x.ToReadFromPhyAddress] > 1 {
			e.r.Failf("C19.pull.wrong", e.ln(), "request %d (rd %x size %d peer %d): pull request addr %x size %d to %s (times seen %d)",
				q.id, q.rd, q.size, q.peer, x.ToReadFromPhyAddress, x.DataTransferSize, x.Dst, q.pulls[x.ToReadFromPhyAddress])
		}
	case *pmcpkg.DataPullRsp:
		e.r.Checked("pull.response")
		e.rspSeen[x.ID]++
		q := e.pullOwner[x.ID]
		want, have := e.readData[x.ID]
		if q == nil || !have || e.rspSeen[x.ID] > 1 || string(want) != string(x.Data) || x.Dst != e.rem[q.p].AsRemote() || e.pullAt[x.ID] != p {
			e.r.Failf("C19.rsp.wrong", e.ln(), "PMC %d sent a pull response (id #%d, %d bytes, to %s, times %d) that is not the data its memory returned for that pull request",
				p, e.ids.get(x.ID)-1, len(x.Data), x.Dst, e.rspSeen[x.ID])
		}
	}
}

func (e *c19Env) onMemTake(p int, m sim.Msg) {
	if e.malformed {
		return
	}
	switch x := m.(type) {
	case *mem.ReadReq:
		e.r.Checked("mem.read")
		e.readSeen[x.ID]++
		a, known := e.pullAddr[x.ID]
		if !known || e.pullAt[x.ID] != p || a != x.Address || x.AccessByteSize != 64 || e.readSeen[x.ID] > 1 {
			e.r.Failf("C19.read.wrong", e.ln(), "PMC %d read %d bytes at %x (id #%d, times %d): not the chunk a delivered pull request asked for",
				p, x.AccessByteSize, x.Address, e.ids.get(x.ID)-1, e.readSeen[x.ID])
		}
	case *mem.WriteReq:
		e.r.Checked("mem.write")
		q := e.current(p)
		if q == nil {
			e.r.Failf("C19.write.orphan", e.ln(), "PMC %d wrote at %x while it has no migration request", p, x.Address)
			return
		}
		q.writes[x.Address]++
		off := x.Address - q.wr
		ok := x.Address >= q.wr && off < q.size && off%64 == 0 && len(x.Data) == 64 && q.writes[x.Address] == 1 && x.DirtyMask == nil
		if ok && string(x.Data) != string(q.src[off:off+64]) {
			e.r.Failf("C19.write.data", e.ln(), "request %d: chunk %d written at %x does not hold the source chunk at %x", q.id, off/64, x.Address, q.rd+off)
		} else if !ok {
			e.r.Failf("C19.write.wrong", e.ln(), "request %d (wr %x size %d): write of %d bytes at %x (times %d)", q.id, q.wr, q.size, len(x.Data), x.Address, q.writes[x.Address])
		}
	}
}

func (e *c19Env) onCollect(p, id int, m sim.Msg) {
	if id < 0 || id >= len(e.reqs) {
		e.r.Failf("C19.complete.unknown", e.ln(), "PMC %d sent a completion to %s", p, m.Meta().Dst)
		return
	}
	q := e.reqs[id]
	q.completions++
	q.collected = true
	e.r.Checked("complete.once")
	if q.completions > 1 {
		e.r.Failf("C19.complete.twice", e.ln(), "request %d completed %d times", id, q.completions)
	}
	if q.p != p || !q.delivered {
		e.r.Failf("C19.complete.unknown", e.ln(), "PMC %d completed request %d which it never received", p, id)
	}
	if e.malformed || !q.valid {
		return
	}
	// FIFO: every older request of this PMC is complete
	for _, o := range e.reqs {
		if o.p == p && o.id < id && o.completions == 0 {
			e.r.Failf("C19.complete.order", e.ln(), "request %d completed before the older request %d of the same PMC", id, o.id)
		}
	}
	n := int(q.size / 64)
	np, nw := 0, 0
	for _, c := range q.pulls {
		np += c
	}
	for _, c := range q.writes {
		nw += c
	}
	e.r.Checked("complete.counts")
	if np != n || nw != n || len(q.pulls) != n || len(q.writes) != n {
		e.r.Failf("C19.complete.counts", e.ln(), "request %d of %d chunks completed after %d pull requests (%d distinct) and %d writes (%d distinct)", id, n, np, len(q.pulls), nw, len(q.writes))
	}
}

func (e *c19Env) finish(closed bool, kind string) {
	var h [2]uint64
	for i := 0; i < 2; i++ {
		b, _ := e.st[i].Read(0, e.msz)
		h[i] = fnv(b)
	}
	gs := func(g []int) string {
		s := make([]string, len(g))
		for i, v := range g {
			s[i] = strconv.Itoa(v)
		}
		return strings.Join(s, ",")
	}
	e.out = append(e.out, fmt.Sprintf("M0=%x", h[0]), fmt.Sprintf("M1=%x", h[1]), "G0="+gs(e.got[0]), "G1="+gs(e.got[1]))
	e.r.Case(e.ln(), strings.Join(e.out, " "))
	e.r.Count("mig.scenario." + kind)
	e.r.CountN("mig.ops", len(e.out)-4)
	e.r.CountN("mig.ticks", e.nticks)
	e.r.CountN("mig.requests", len(e.reqs))
	if e.malformed {
		e.r.Count("mig.scenario.with-malformed-input")
	}
	if e.fault != "" {
		e.r.Count("mig.fault." + e.fault)
		if !e.malformed {
			e.r.Failf("C19.fault."+e.fault, e.ln(), "the controller panicked (%s) in a scenario with only well-formed requests and honest memories", e.fault)
		}
		return
	}
	if e.malformed {
		return
	}
	// contents: everything written so far must be a chunk of a valid request, so at any time the
	// storage differs from its initial image only inside destination pages; when closed, it equals
	// the expected image everywhere.
	if closed {
		e.r.Checked("closed.complete")
		for _, q := range e.reqs {
			if q.completions != 1 {
				e.r.Failf("C19.loss.request", e.ln(), "request %d (PMC %d, %d bytes) completed %d times after the closing rounds (delivered=%v started=%v)", q.id, q.p, q.size, q.completions, q.delivered, q.started)
			}
		}
		for i := 0; i < 2; i++ {
			s := e.pmc[i].VerifStateC19()
			if s.Handling || s.HasCurrent || s.Pending != -1 || s.MapSize != 0 || s.ToPull+s.CurPull+s.ToRead+s.DataReady+s.ToRsp+s.RecvData+s.WriteReqs != 0 {
				e.r.Failf("C19.loss.not-idle", e.ln(), "PMC %d is not idle after the closing rounds: %s", i, e.sig(i))
			}
		}
	}
	for i := 0; i < 2; i++ {
		b, _ := e.st[i].Read(0, e.msz)
		e.r.Checked("contents")
		for x := range b {
			cover, open := 0, 0
			for _, q := range e.reqs {
				if q.p == i && uint64(x) >= q.wr && uint64(x) < q.wr+q.size {
					cover++
					if q.completions == 0 {
						open++
					}
				}
			}
			init := c19InitByte(e.salt, i, uint64(x))
			switch {
			case cover == 0 && b[x] != init:
				e.r.Failf("C19.contents.frame", e.ln(), "memory %d byte %x is outside every destination page but changed from %02x to %02x", i, x, init, b[x])
			case cover > 0 && (closed || open == 0) && b[x] != e.exp[i][x]:
				e.r.Failf("C19.contents.page", e.ln(), "memory %d byte %x (inside a migrated page) is %02x, source page has %02x", i, x, b[x], e.exp[i][x])
			default:
				continue
			}
			return
		}
	}
}

// ---- scenario generation ---------------------------------------------------------------------

type c19Gen struct {
	rng   *Rng
	style int
	steps int
	nreq  int
	phase int
	close bool
	round []string
	idle  int
	big   bool
}

func (g *c19Gen) pickRegion(e *c19Env, p int, size uint64, dst bool) (uint64, bool) {
	for try := 0; try < 12; try++ {
		max := (e.msz - size) / 64
		a := uint64(g.rng.Intn(int(max)+1)) * 64
		if g.rng.Chance(10) && a+size+uint64(g.rng.Intn(64)) <= e.msz {
			a += uint64(g.rng.Intn(64)) // unaligned pages are legal for the controller
		}
		if !e.inflightOverlap(p, a, a+size, dst, nil) {
			return a, true
		}
	}
	return 0, false
}

func (g *c19Gen) submit(e *c19Env) string {
	p := g.rng.Intn(2)
	if g.style == 4 || g.style == 6 {
		p = 0
	}
	ks := []int{1, 1, 2, 2, 3, 4, 4, 5, 8, 8, 16}
	if g.style == 6 {
		ks = []int{1, 1, 2}
	}
	if g.big {
		ks = []int{16, 32, 64}
	}
	size := uint64(ks[g.rng.Intn(len(ks))]) * 64
	if size > e.msz/2 {
		size = 64
	}
	peer := 1 - p
	wr, ok1 := g.pickRegion(e, p, size, true)
	rd, ok2 := g.pickRegion(e, peer, size, false)
	if g.rng.Chance(15) { // chain: read a page that an earlier, collected request wrote
		for _, q := range e.reqs {
			if q.collected && q.valid && q.p == peer && q.size == size && !e.inflightOverlap(peer, q.wr, q.wr+size, false, nil) {
				rd, ok2 = q.wr, true
			}
		}
	}
	if !ok1 || !ok2 {
		return ""
	}
	// source and destination in different memories never overlap; a later request may overwrite an
	// older, collected destination page
	return fmt.Sprintf("s %d %x %x %d %d", p, rd, wr, size, peer)
}

func (g *c19Gen) next(e *c19Env) string {
	rng := g.rng
	if g.steps > 0 {
		g.steps--
		if g.nreq > 0 && (rng.Chance(6) || len(e.reqs) == 0 || (g.style == 6 && rng.Chance(40))) {
			if s := g.submit(e); s != "" {
				g.nreq--
				if g.style == 5 && g.nreq > 0 && rng.Chance(70) {
					g.steps++
				}
				return s
			}
		}
		p := rng.Intn(2)
		w := []int{30, 8, 10, 12, 10, 10, 10, 6} // t c n d m x r k
		switch g.style {
		case 1: // slow network
			w = []int{40, 8, 3, 3, 10, 10, 10, 6}
		case 2: // slow, reordering memory
			w = []int{40, 8, 10, 12, 10, 3, 3, 6}
		case 3: // control side rarely collects
			w = []int{35, 10, 10, 12, 10, 10, 10, 1}
		case 4, 5:
		case 6: // one controller, several small requests delivered early, completions never collected
			// before the closing rounds: the Control port's outgoing buffer stays occupied
			w = []int{40, 14, 10, 12, 10, 10, 10, 0}
		}
		tot := 0
		for _, x := range w {
			tot += x
		}
		k := rng.Intn(tot)
		i := 0
		for k >= w[i] {
			k -= w[i]
			i++
		}
		switch i {
		case 0:
			return fmt.Sprintf("t %d", p)
		case 1:
			return fmt.Sprintf("c %d", p)
		case 2:
			return fmt.Sprintf("n %d", p)
		case 3:
			return fmt.Sprintf("d %d", rng.Intn(8))
		case 4:
			return fmt.Sprintf("m %d", p)
		case 5:
			return fmt.Sprintf("x %d %d", p, rng.Intn(8))
		case 6:
			return fmt.Sprintf("r %d %d", p, rng.Intn(8))
		default:
			return fmt.Sprintf("k %d", p)
		}
	}
	if !g.close {
		return ""
	}
	// closing rounds: everybody moves (random choice among the waiting messages) until all
	// requests are collected and nothing is in flight
	if len(g.round) == 0 {
		done := true
		for _, q := range e.reqs {
			if q.completions == 0 {
				done = false
			}
		}
		if done && len(e.net) == 0 && len(e.mq[0])+len(e.mq[1])+len(e.mr[0])+len(e.mr[1]) == 0 && g.idle >= 2 {
			return ""
		}
		if done {
			g.idle++
		}
		g.phase++
		chunks := 0
		for _, q := range e.reqs {
			chunks += int(q.size/64) + 1
		}
		if g.phase > 80+30*chunks {
			return ""
		}
		for _, p := range rng.Perm(2) {
			g.round = append(g.round, fmt.Sprintf("c %d", p), fmt.Sprintf("t %d", p), fmt.Sprintf("n %d", p), fmt.Sprintf("m %d", p),
				fmt.Sprintf("x %d %d", p, rng.Intn(8)), fmt.Sprintf("r %d %d", p, rng.Intn(8)), fmt.Sprintf("k %d", p))
		}
		g.round = append(g.round, fmt.Sprintf("d %d", rng.Intn(8)), fmt.Sprintf("d %d", rng.Intn(8)))
	}
	o := g.round[0]
	g.round = g.round[1:]
	return o
}

func c19Cfg(line string) (msz, salt uint64) {
	msz, salt = 1024, 1
	for _, t := range strings.Fields(strings.SplitN(line, ";", 2)[0]) {
		if strings.HasPrefix(t, "msz=") {
			msz, _ = strconv.ParseUint(t[4:], 10, 64)
		}
		if strings.HasPrefix(t, "salt=") {
			salt, _ = strconv.ParseUint(t[5:], 10, 64)
		}
	}
	return
}

// run a scenario whose ops come from `next` (adaptive generator) and record it
func runC19Mig(r *Run, head string, next func(e *c19Env) string, closed bool, kind string) {
	msz, salt := c19Cfg(head)
	e := newC19Env(r, msz, salt)
	ops := []string{head}
	e.ops = &ops
	for e.fault == "" {
		o := next(e)
		if o == "" {
			break
		}
		ops = append(ops, o)
		e.op(strings.Fields(o))
	}
	e.finish(closed && e.fault == "", kind)
}

func runC19MigLine(r *Run, line string, closed bool, kind string) {
	ops := splitOps(line)
	i := 0
	runC19Mig(r, ops[0], func(e *c19Env) string {
		i++
		if i < len(ops) {
			return ops[i]
		}
		return ""
	}, closed, kind)
}

var c19Fixed = []string{
	// one page of 4 chunks, lock-step
	"c19 mig msz=1024 salt=3 ; s 0 100 200 256 1 ; c 0 ; t 0 ; t 0 ; n 0 ; d 0 ; t 1 ; t 0 ; n 0 ; t 1 ; m 1 ; x 1 0 ; r 1 0 ; t 1",
	// both directions at once, same page numbers
	"c19 mig msz=1024 salt=5 ; s 0 0 0 128 1 ; s 1 200 200 128 0 ; c 0 ; c 1 ; t 0 ; t 1 ; n 0 ; n 1 ; d 0 ; d 0 ; t 0 ; t 1",
	// two requests queued behind each other on one controller
	"c19 mig msz=1024 salt=7 ; s 0 0 40 64 1 ; s 0 80 c0 64 1 ; c 0 ; t 0 ; c 0 ; t 0 ; t 0",
	// a single chunk at the very end of both memories
	"c19 mig msz=512 salt=9 ; s 1 1c0 1c0 64 0 ; c 1 ; t 1",
}

func c19GenMalformed(rng *Rng) []string {
	ops := []string{fmt.Sprintf("c19 mig msz=%d salt=%d", 512*(1+rng.Intn(3)), rng.Intn(60000))}
	kinds := []string{"size", "self", "oob", "sw", "sd", "sr", "jn", "jm", "jc", "sw2"}
	k := kinds[rng.Intn(len(kinds))]
	p := rng.Intn(2)
	switch k {
	case "size":
		ops = append(ops, fmt.Sprintf("s %d 40 80 %d %d", p, rng.Pick(0, 1, 32, 63, 65, 100, 130, 200), 1-p))
	case "self":
		ops = append(ops, fmt.Sprintf("s %d 40 80 128 %d", p, p))
	case "oob":
		if rng.Bool() {
			ops = append(ops, fmt.Sprintf("s %d %x 80 128 %d", p, 512*3+64*rng.Intn(3)-64, 1-p))
		} else {
			ops = append(ops, fmt.Sprintf("s %d 80 %x 128 %d", p, 512*3+64*rng.Intn(3)-64, 1-p))
		}
	case "sw2":
		ops = append(ops, fmt.Sprintf("s %d 40 80 128 %d", p, 1-p), fmt.Sprintf("sw %d", p))
	default:
		if rng.Bool() {
			ops = append(ops, fmt.Sprintf("s %d 40 80 128 %d", p, 1-p))
		}
		ops = append(ops, fmt.Sprintf("%s %d", k, p))
	}
	for r := 0; r < 14+rng.Intn(20); r++ {
		for _, q := range rng.Perm(2) {
			ops = append(ops, fmt.Sprintf("c %d", q), fmt.Sprintf("t %d", q), fmt.Sprintf("n %d", q), fmt.Sprintf("m %d", q),
				fmt.Sprintf("x %d %d", q, rng.Intn(4)), fmt.Sprintf("r %d %d", q, rng.Intn(4)))
			if rng.Chance(30) {
				ops = append(ops, fmt.Sprintf("k %d", q))
			}
		}
		ops = append(ops, fmt.Sprintf("d %d", rng.Intn(4)))
	}
	return ops
}

// ---- prep: the driver's re-homing step -------------------------------------------------------

func c19PageSig(p vm.Page) string {
	s := fmt.Sprintf("%d:%x>%x@%d", p.PID, p.VAddr, p.PAddr, p.DeviceID)
	if p.Unified {
		s += "u"
	}
	if p.IsMigrating {
		s += "m"
	}
	return s
}

type c19Prep struct {
	drv   *driver.Driver
	pt    vm.PageTable
	ndev  int
	known map[[2]uint64]bool // (pid, vaddr) ever allocated
}

func newC19Prep(gpus []int) *c19Prep {
	pt := vm.NewPageTable(12)
	d := driver.MakeBuilder().WithEngine(&fakeEngine{}).WithPageTable(pt).WithLog2PageSize(12).Build("Driver")
	for i, n := range gpus {
		port := sim.NewPort(nil, 4, 4, fmt.Sprintf("GPU%d.CP", i+1))
		d.RegisterGPU(port, driver.DeviceProperties{CUCount: 4, DRAMSize: uint64(n) * 4096})
	}
	return &c19Prep{drv: d, pt: pt, ndev: len(gpus) + 1, known: map[[2]uint64]bool{}}
}

func (c *c19Prep) dump() (map[[2]uint64]vm.Page, string) {
	m := map[[2]uint64]vm.Page{}
	var l []string
	for k := range c.known {
		if pg, ok := c.pt.Find(vm.PID(k[0]), k[1]); ok && pg.VAddr == k[1] {
			m[k] = pg
			l = append(l, c19PageSig(pg))
		}
	}
	sort.Strings(l)
	return m, strings.Join(l, ",")
}

func (c *c19Prep) freeSig() (string, [][]uint64) {
	var l []string
	var all [][]uint64
	for d := 0; d < c.ndev; d++ {
		f, _ := c.drv.VerifFreePAddrsC19(d)
		h := uint64(0)
		if len(f) > 0 {
			h = f[0]
		}
		l = append(l, fmt.Sprintf("%d/%x", len(f), h))
		all = append(all, f)
	}
	return strings.Join(l, ","), all
}

func c19PrepFault(f string) string {
	switch {
	case strings.Contains(f, "page_not_founds"):
		return "notfound"
	case strings.Contains(f, "page_does_not_exist"):
		return "nopage"
	case strings.Contains(f, "out_of_memory"):
		return "oom"
	case strings.Contains(f, "page_exist"):
		return "exist"
	case strings.Contains(f, "device_not_found"):
		return "nodevice"
	}
	return strings.TrimPrefix(f, "explicit:")
}

func runC19Prep(r *Run, line string, kind string) {
	ops := splitOps(line)
	var gpus []int
	for _, t := range strings.Fields(ops[0]) {
		if strings.HasPrefix(t, "gpus=") {
			for _, s := range strings.Split(t[5:], ",") {
				v, _ := strconv.Atoi(s)
				gpus = append(gpus, v)
			}
		}
	}
	c := newC19Prep(gpus)
	var out []string
	faulted := false
	for _, o := range ops[1:] {
		t := strings.Fields(o)
		switch t[0] {
		case "a":
			pid, _ := strconv.ParseUint(t[1], 10, 64)
			dev, _ := strconv.Atoi(t[2])
			n, _ := strconv.Atoi(t[3])
			var va uint64
			f := catch(func() { va = c.drv.VerifAllocateC19(vm.PID(pid), uint64(n)*4096, dev) })
			if f != "" {
				out = append(out, "fault:"+c19PrepFault(f))
				faulted = true
				break
			}
			for i := 0; i < n; i++ {
				c.known[[2]uint64{pid, va + uint64(i)*4096}] = true
			}
			out = append(out, "ok")
		case "g":
			pid, _ := strconv.ParseUint(t[1], 10, 64)
			va, _ := strconv.ParseUint(t[2], 16, 64)
			gpu, _ := strconv.ParseUint(t[3], 10, 64)
			before, _ := c.dump()
			_, freeBefore := c.freeSig()
			var pg vm.Page
			var old uint64
			f := catch(func() { pg, old = c.drv.VerifPreparePageForMigrationC19(va, vm.PID(pid), gpu) })
			if f != "" {
				out = append(out, "fault:"+c19PrepFault(f))
				faulted = true
				r.Count("prep.fault." + c19PrepFault(f))
				break
			}
			out = append(out, fmt.Sprintf("%s<%x", c19PageSig(pg), old))
			r.Count("prep.migrations")
			// ---- oracle: mapping_after on the real table
			r.Checked("mapping")
			after, _ := c.dump()
			_, freeAfter := c.freeSig()
			key := [2]uint64{pid, va}
			now, ok := after[key]
			var lo, sz uint64
			if int(gpu)+1 < c.ndev {
				lo, sz = c.drv.VerifRangeC19(int(gpu) + 1)
			}
			switch {
			case int(gpu)+1 >= c.ndev:
				r.Failf("C19.mapping.entry", line, "pid %d page %x was re-homed although GPU %d does not exist (%d devices)", pid, va, gpu, c.ndev)
			case !ok:
				r.Failf("C19.mapping.lost", line, "after preparing pid %d page %x for GPU %d the table has no entry for it", pid, va, gpu)
			case now.DeviceID != gpu+1 || !now.IsMigrating || !now.Valid || now.PAddr < lo || now.PAddr >= lo+sz || now.PAddr%4096 != 0 || now.PageSize != 4096:
				r.Failf("C19.mapping.entry", line, "pid %d page %x for GPU %d (device range %x+%x): entry is %+v", pid, va, gpu, lo, sz, now)
			case now != pg || old != before[key].PAddr:
				r.Failf("C19.mapping.returned", line, "returned page %+v / old address %x; table has %+v, old entry %+v", pg, old, now, before[key])
			}
			for k, b := range before {
				if k == key {
					continue
				}
				if after[k] != b {
					r.Failf("C19.mapping.other", line, "preparing pid %d page %x changed the entry of pid %d page %x: %+v -> %+v", pid, va, k[0], k[1], b, after[k])
				}
				if ok && b.PAddr == now.PAddr {
					r.Failf("C19.mapping.alias", line, "new physical page %x of pid %d page %x is also mapped by pid %d page %x", now.PAddr, pid, va, k[0], k[1])
				}
			}
			if ok && now.PAddr == before[key].PAddr {
				r.Failf("C19.mapping.alias", line, "the page was re-homed onto its own old physical page %x", now.PAddr)
			}
			for d := range freeBefore {
				if int(gpu)+1 >= c.ndev {
					break
				}
				fb, fa := freeBefore[d], freeAfter[d]
				if d == int(gpu)+1 {
					if len(fa) != len(fb)-1 || len(fb) == 0 || fb[0] != now.PAddr || (len(fa) > 0 && len(fb) > 1 && fa[0] != fb[1]) {
						r.Failf("C19.mapping.freelist", line, "free list of the destination device %d: %d -> %d entries, page taken %x", d, len(fb), len(fa), now.PAddr)
					}
				} else if len(fa) != len(fb) || (len(fa) > 0 && len(fb) > 0 && fa[0] != fb[0]) {
					r.Failf("C19.mapping.freelist", line, "free list of device %d changed (%d -> %d)", d, len(fb), len(fa))
				}
				for _, x := range fa {
					if ok && x == now.PAddr {
						r.Failf("C19.mapping.freelist", line, "the new physical page %x is still in a free list", x)
					}
				}
			}
		default:
			out = append(out, "bad")
		}
		if faulted {
			break
		}
	}
	if !faulted {
		_, tb := c.dump()
		fs, _ := c.freeSig()
		out = append(out, "T="+tb, "F="+fs)
	}
	r.Case(line, strings.Join(out, " "))
	r.Count("prep.scenario." + kind)
}

const c19CPUPages = 1048576

func c19GenPrep(rng *Rng, malformed bool) string {
	ng := 2 + rng.Intn(3)
	gp := make([]string, ng)
	gsz := make([]int, ng)
	for i := range gp {
		gsz[i] = 2 + rng.Intn(10)
		gp[i] = strconv.Itoa(gsz[i])
	}
	ops := []string{fmt.Sprintf("c19 prep lg=12 cpu=%d gpus=%s", c19CPUPages, strings.Join(gp, ","))}
	type pgk struct{ pid, va uint64 }
	var pages []pgk
	next := map[uint64]uint64{}
	used := make([]int, ng+1)
	nalloc := 1 + rng.Intn(4)
	for i := 0; i < nalloc; i++ {
		pid := uint64(1 + rng.Intn(3))
		dev := rng.Intn(ng + 1)
		n := 1 + rng.Intn(3)
		if dev > 0 && used[dev]+n > gsz[dev-1] && !malformed {
			continue
		}
		used[dev] += n
		if next[pid] == 0 {
			next[pid] = 4096
		}
		for k := 0; k < n; k++ {
			pages = append(pages, pgk{pid, next[pid]})
			next[pid] += 4096
		}
		ops = append(ops, fmt.Sprintf("a %d %d %d", pid, dev, n))
	}
	nm := 1 + rng.Intn(6)
	for i := 0; i < nm && len(pages) > 0; i++ {
		pg := pages[rng.Intn(len(pages))]
		gpu := rng.Intn(ng)
		if used[gpu+1] >= gsz[gpu] && !malformed && !rng.Chance(5) {
			continue
		}
		used[gpu+1]++
		va := pg.va
		pid := pg.pid
		if malformed {
			switch rng.Intn(4) {
			case 0:
				va += uint64(1 + rng.Intn(4095)) // not page aligned
			case 1:
				va = 4096 * uint64(40+rng.Intn(10)) // never allocated
			case 2:
				gpu = ng + rng.Intn(2) // no such GPU
			case 3:
				pid = 7 // no such process
			}
		}
		ops = append(ops, fmt.Sprintf("g %d %x %d", pid, va, gpu))
	}
	return strings.Join(ops, " ; ")
}

// ---- hs: the driver's handshake --------------------------------------------------------------

// c19HsBatch: consecutive answers of the same kind are delivered to the driver's port TOGETHER (they
// arrive in one cycle) before the driver is ticked, instead of one by one. Oracle-only runs.
var c19HsBatch bool

func runC19Hs(r *Run, line string, kind string) {
	ops := splitOps(line)
	ngpu, acc, pages := 2, 1, 1
	for _, t := range strings.Fields(ops[0]) {
		switch {
		case strings.HasPrefix(t, "ngpu="):
			ngpu, _ = strconv.Atoi(t[5:])
		case strings.HasPrefix(t, "acc="):
			acc, _ = strconv.Atoi(t[4:])
		case strings.HasPrefix(t, "pages="):
			pages, _ = strconv.Atoi(t[6:])
		}
	}
	gp := make([]int, ngpu)
	for i := range gp {
		gp[i] = 2048
	}
	c := newC19Prep(gp)
	d := c.drv
	pid := vm.PID(1)
	d.VerifAddContextC19(pid)
	for i := 0; i < ngpu; i++ {
		d.RemotePMCPorts = append(d.RemotePMCPorts, sim.NewPort(nil, 1, 1, fmt.Sprintf("GPU%d.PMC.Remote", i+1)))
	}
	gpuPort, mmuPort := d.VerifPortsC19()
	(&fakeConn{name: "c"}).PlugIn(gpuPort)
	(&fakeConn{name: "c"}).PlugIn(mmuPort)
	var sent [6]int // drain, shootdown, migrate, restart, rdma restart, rsp to MMU
	var out []string
	nreqMMU := 0
	var migs []*protocol.PageMigrationReqToCP
	allocated := 0
	settle := func() string {
		for k := 0; k < 4000; k++ {
			var prog bool
			if f := catch(func() { prog = d.Tick() }); f != "" {
				return f
			}
			for {
				m := gpuPort.RetrieveOutgoing()
				if m == nil {
					break
				}
				switch x := m.(type) {
				case *protocol.RDMADrainCmdFromDriver:
					sent[0]++
				case *protocol.ShootDownCommand:
					sent[1]++
				case *protocol.PageMigrationReqToCP:
					sent[2]++
					migs = append(migs, x)
				case *protocol.GPURestartReq:
					sent[3]++
				case *protocol.RDMARestartCmdFromDriver:
					sent[4]++
				}
				prog = true
			}
			if m := mmuPort.RetrieveOutgoing(); m != nil {
				sent[5]++
				prog = true
			}
			if !prog {
				// The driver reported no progress and goes to sleep. It may only do so when a
				// further tick would not do anything either (otherwise nothing wakes it up again:
				// messages already in its port do not re-schedule a tick).
				before := fmt.Sprintf("%+v/%v", d.VerifHandshakeC19(), gpuPort.PeekIncoming() != nil)
				var again bool
				if f := catch(func() { again = d.Tick() }); f != "" {
					return f
				}
				after := fmt.Sprintf("%+v/%v", d.VerifHandshakeC19(), gpuPort.PeekIncoming() != nil)
				r.Checked("hs.quiet-tick")
				if again || after != before || gpuPort.PeekOutgoing() != nil {
					r.Failf("C19.hs.sleeps-with-work", line, "a tick reported no progress, but the next tick did work (progress=%v, state %s -> %s): the driver would have gone to sleep with messages waiting in its port", again, before, after)
					continue
				}
				break
			}
		}
		return ""
	}
	gpuSrc := sim.NewPort(nil, 1, 1, "GPU1.CP.ToDriver")
	for oi, o := range ops[1:] {
		var m sim.Msg
		switch o {
		case "M":
			// a request: `pages` pages of process 1 living on GPU 1, spread over the requesting GPUs 2..ngpu
			info := &vm.PageMigrationInfo{GPUReqToVAddrMap: map[uint64][]uint64{}}
			{
				for i := 0; i < pages; i++ {
					va := d.VerifAllocateC19(pid, 4096, 1)
					g := uint64(2 + (allocated % max(ngpu-1, 1)))
					if ngpu == 1 {
						g = 1
					}
					allocated++
					info.GPUReqToVAddrMap[g] = append(info.GPUReqToVAddrMap[g], va)
				}
			}
			accg := make([]uint64, acc)
			for i := range accg {
				accg[i] = uint64(1 + i%ngpu)
			}
			q := &vm.PageMigrationReqToDriver{MigrationInfo: info, CurrAccessingGPUs: accg, PID: pid, CurrPageHostGPU: 1, PageSize: 4096}
			q.ID = fmt.Sprintf("mmu%d", nreqMMU)
			nreqMMU++
			q.Src, q.Dst = "MMU", mmuPort.AsRemote()
			if mmuPort.Deliver(q) != nil {
				// the MMU port (capacity 1) still holds the previous request: the model ignores it too
			}
		case "D":
			m = protocol.NewRDMADrainRspToDriver(gpuSrc, gpuPort)
		case "S":
			m = protocol.NewShootdownCompleteRsp(gpuSrc, gpuPort)
		case "P":
			m = protocol.NewPageMigrationRspToDriver(gpuSrc, gpuPort)
		case "R":
			m = protocol.NewGPURestartRsp(gpuSrc, gpuPort)
		case "A":
			m = protocol.NewRDMARestartRspToDriver(gpuSrc, gpuPort)
		}
		if m != nil {
			gpuPort.Deliver(m)
		}
		if c19HsBatch && m != nil && oi+2 < len(ops) && ops[oi+2] == o {
			continue // the next answer is of the same kind: it arrives in the same cycle
		}
		if f := settle(); f != "" {
			out = append(out, "fault:"+f)
			break
		}
		h := d.VerifHandshakeC19()
		out = append(out, fmt.Sprintf("%s:%d,%d,%d,%d,%d:%d%s:%d,%d,%d,%d,%d,%d", b01(h.Handling), h.Drain, h.ShootDown, h.Migrating, h.Restart, h.RDMARestart,
			h.ToCP, b01(h.MigratingOne), sent[0], sent[1], sent[2], sent[3], sent[4], sent[5]))
	}
	r.Case(line, strings.Join(out, " "))
	r.Count("hs.scenario." + kind)
	// oracle: every migrate command names a fresh page on the GPU it is sent to, once per requested page
	r.Checked("hs.migrate-commands")
	seen := map[uint64]bool{}
	for _, q := range migs {
		if seen[q.ToWriteToPhysicalAddress] || q.ToWriteToPhysicalAddress == q.ToReadFromPhysicalAddress || q.PageSize != 4096 {
			r.Failf("C19.hs.command", line, "migrate command read %x write %x size %d (write page seen before: %v)", q.ToReadFromPhysicalAddress, q.ToWriteToPhysicalAddress, q.PageSize, seen[q.ToWriteToPhysicalAddress])
		}
		seen[q.ToWriteToPhysicalAddress] = true
	}
	if kind == "conforming" {
		h := d.VerifHandshakeC19()
		r.Checked("hs.idle")
		if h.Handling || h.HasCurrent || h.Drain+h.ShootDown+h.Migrating+h.Restart+h.RDMARestart != 0 || h.ToCP != 0 || h.MigratingOne {
			r.Failf("C19.hs.not-idle", line, "after a complete handshake the driver is not idle: %+v", h)
		}
		if sent[2] != pages*nreqMMU || sent[5] != nreqMMU {
			r.Failf("C19.hs.counts", line, "%d requests of %d pages: %d migrate commands, %d responses to the MMU", nreqMMU, pages, sent[2], sent[5])
		}
	}
}

func c19GenHs(rng *Rng, conforming bool) string {
	ngpu, acc, pages := 1+rng.Intn(4), 1+rng.Intn(3), 1+rng.Intn(4)
	ops := []string{fmt.Sprintf("c19 hs ngpu=%d acc=%d pages=%d", ngpu, acc, pages)}
	if conforming {
		for k := 0; k < 1+rng.Intn(3); k++ {
			ops = append(ops, "M")
			rep := func(s string, n int) {
				for i := 0; i < n; i++ {
					ops = append(ops, s)
				}
			}
			rep("D", ngpu)
			rep("S", acc)
			rep("P", pages)
			rep("R", acc)
			rep("A", ngpu)
		}
	} else {
		for k := 0; k < 4+rng.Intn(24); k++ {
			ops = append(ops, string("MDSPRA"[rng.Intn(6)]))
		}
	}
	return strings.Join(ops, " ; ")
}

// ------------------------------------------------------------------------------------------------

func runC19(r *Run, rng *Rng, replay string) {
	log.SetOutput(io.Discard)
	if replay != "" {
		if b, err := os.ReadFile(replay); err == nil {
			for _, ln := range strings.Split(string(b), "\n") {
				switch {
				case strings.HasPrefix(ln, "c19 mig "):
					runC19MigLine(r, ln, false, "replay")
				case strings.HasPrefix(ln, "c19 prep "):
					runC19Prep(r, ln, "replay")
				case strings.HasPrefix(ln, "c19 hs "):
					runC19Hs(r, ln, "replay")
				}
			}
		}
	}
	for _, sc := range c19Fixed {
		runC19MigLine(r, sc, false, "fixed")
		g := &c19Gen{rng: rng, close: true}
		i := 0
		ops := splitOps(sc)
		runC19Mig(r, ops[0], func(e *c19Env) string {
			i++
			if i < len(ops) {
				return ops[i]
			}
			return g.next(e)
		}, true, "fixed-closed")
	}
	n, nbig, nmal, nprep, nhs := 500, 12, 150, 120, 200
	if r.Tier == "thorough" {
		n, nbig, nmal, nprep, nhs = 12000, 300, 2000, 1200, 4000
	}
	for i := 0; i < n+nbig; i++ {
		big := i >= n
		g := &c19Gen{rng: rng, style: rng.Intn(7), steps: 20 + rng.Intn(200), nreq: 1 + rng.Intn(4), close: rng.Chance(85), big: big}
		if g.style == 6 {
			g.nreq, g.steps, g.close = 3+rng.Intn(3), 250+rng.Intn(200), true
		}
		msz := uint64(512 * (1 + rng.Intn(4)))
		if big {
			msz = 8192 * uint64(1+rng.Intn(2))
			g.nreq = 1 + rng.Intn(2)
		}
		head := fmt.Sprintf("c19 mig msz=%d salt=%d", msz, rng.Intn(60000))
		kind := "random"
		if big {
			kind = "big-page"
		}
		runC19Mig(r, head, g.next, g.close, kind)
		r.Count(fmt.Sprintf("mig.style.%d", g.style))
	}
	for i := 0; i < nmal; i++ {
		runC19MigLine(r, strings.Join(c19GenMalformed(rng), " ; "), false, "malformed")
	}
	for i := 0; i < nprep; i++ {
		mal := i%6 == 5
		kind := "valid"
		if mal {
			kind = "malformed"
		}
		runC19Prep(r, c19GenPrep(rng, mal), kind)
	}
	for i := 0; i < nhs; i++ {
		conf := i%2 == 0
		kind := "conforming"
		if !conf {
			kind = "arbitrary"
		}
		runC19Hs(r, c19GenHs(rng, conf), kind)
	}
	// the same conforming handshakes with answers of one kind arriving in the same cycle (oracles only)
	r.OracleOnly, c19HsBatch = true, true
	for i := 0; i < nhs/2; i++ {
		runC19Hs(r, c19GenHs(rng, true), "conforming")
	}
	r.OracleOnly, c19HsBatch = false, false
}
