//go:build verif

package main

// C17 (second deepening) — pipelines wider than one lane after the in-order repair of finalizeSingle, the
// hypotheses of the theorems replayed on the real component, and the builder paths the other runners leave out.
//
//  1. width 2..4 scenarios under heavy back-pressure (small post-pipeline / port buffers, few drains), with the op
//     `i` after many ticks: the bank's inOrder list (acceptance numbers, `*` = set aside, `!` = committed but not
//     answered), compared with the model's `order` / `early` fields — the new state is tied, not only the trace.
//     Oracles on the real component: flat memory / one response each (as in the main runner), nothing set aside with
//     one lane (C17.setaside.width1), numSetAside <= width*depth+post and = number of flagged items
//     (C17.setaside.bound / .count), only the oldest request is ever committed-but-unanswered (C17.inorder.commit).
//  2. `c17 valid banks= w= d= lat= top= post=`  -> ok | panic   (Builder.configurationMustBeValid)
//     `c17 sel <type>`                          -> ok | panic   (Builder.determineBankSelector)
//  3. storage-side AddressConverter (identity InterleavingConverter: one element, offset 0), alone and together with
//     a BankAddressConverter: ordinary scenario lines (key aid=1 is ignored by the model: the conversion is the identity).
//  4. a message that is not a mem.AccessReq on the Top port: drainTopPort must panic (exercised, oracle only).
//  5. the witness of Props/C17W.lean mem_semantics_any_converter_refuted (a converter that splits interleave blocks).

import (
	"fmt"
	"strings"

	"github.com/sarchlab/akita/v4/mem/mem"
	"github.com/sarchlab/akita/v4/sim"
	"github.com/sarchlab/mgpusim/v4/amd/timing/mem/simplebankedmemory"
)

func init() { register("C17", runC17W) }

// c17ShowInOrder renders bank.inOrder of every bank with acceptance numbers.
func c17ShowInOrder(e *c17Env) string {
	items, _ := e.comp.VerifInOrder()
	banks := []string{}
	for _, l := range items {
		strs := []string{}
		for _, it := range l {
			s := "?"
			if i, ok := e.idx[it.ReqID]; ok {
				s = fmt.Sprint(i)
			}
			if it.SetAside {
				s += "*"
			}
			if it.Committed {
				s += "!"
			}
			strs = append(strs, s)
		}
		banks = append(banks, strings.Join(strs, ","))
	}
	return "I[" + strings.Join(banks, "|") + "]"
}

// c17CheckInOrder evaluates the bookkeeping oracles on the real component; returns the largest numSetAside seen.
func c17CheckInOrder(e *c17Env) int {
	items, nsa := e.comp.VerifInOrder()
	post := e.comp.VerifPostSize()
	most := 0
	for b, l := range items {
		flagged := 0
		for j, it := range l {
			if it.SetAside {
				flagged++
			}
			if it.Committed && j != 0 {
				e.failf("C17.inorder.commit", "bank %d: entry %d of inOrder is committed although it is not the oldest", b, j)
			}
		}
		if flagged != nsa[b] {
			e.failf("C17.setaside.count", "bank %d: numSetAside=%d but %d entries of inOrder are flagged", b, nsa[b], flagged)
		}
		if nsa[b] > e.cfg.w*e.cfg.d+e.cfg.post {
			e.failf("C17.setaside.bound", "bank %d: %d requests set aside, more than width*depth+post = %d", b, nsa[b], e.cfg.w*e.cfg.d+e.cfg.post)
		}
		if e.cfg.w == 1 && nsa[b] > 0 {
			e.failf("C17.setaside.width1", "bank %d: a request was set aside although the pipeline has one lane", b)
		}
		if len(l) < post[b]+nsa[b] {
			e.failf("C17.inorder.count", "bank %d: inOrder has %d entries, post buffer %d + set aside %d", b, len(l), post[b], nsa[b])
		}
		if nsa[b] > most {
			most = nsa[b]
		}
	}
	return most
}

func genC17WCfg(rng *Rng) c17Cfg {
	c := c17Cfg{
		banks: rng.Pick(1, 1, 2, 2, 4),
		ilv:   rng.Pick(6, 6, 7),
		w:     rng.Pick(2, 2, 3, 4),
		d:     rng.Pick(1, 1, 2, 3),
		lat:   rng.Pick(1, 1, 1, 2, 3),
		post:  rng.Pick(1, 1, 1, 2, 3),
		top:   rng.Pick(1, 1, 2, 4),
	}
	if rng.Chance(40) {
		c.row = rng.Pick(8, 9, 10)
		c.miss = rng.Pick(1, 2, 5, 13)
	}
	return c
}

// few hot addresses of one or two banks, bursts, ticks with rare small drains, `i` after many ticks
func genC17WOps(rng *Rng, c c17Cfg, nreq int) []string {
	blk := uint64(1) << uint(c.ilv)
	hot := []uint64{}
	for i := 0; i < 2+rng.Intn(3); i++ {
		a := uint64(rng.Intn(2)) * blk * uint64(c.banks) // bank 0, two blocks
		if rng.Chance(25) {
			a += uint64(rng.Intn(c.banks)) * blk
		}
		if c.row > 0 && rng.Chance(30) {
			a += uint64(c.banks) << uint(c.row+1) // another row of the same bank
		}
		hot = append(hot, a)
	}
	ops := []string{}
	pressure := rng.Pick(50, 70, 85, 95)
	for i := 0; i < nreq; {
		for j := 0; j < 1+rng.Intn(4) && i < nreq; j++ {
			a := hot[rng.Intn(len(hot))]
			size := rng.Pick(1, 1, 2, 4, 8)
			a += uint64(rng.Intn(2)) * 4
			if rng.Chance(55) {
				mask := "-"
				if rng.Chance(25) {
					mb := make([]byte, size)
					for k := range mb {
						mb[k] = '0' + byte(rng.Intn(2))
					}
					mask = string(mb)
				}
				ops = append(ops, fmt.Sprintf("w %x %s %s", a, hexb(rng.Bytes(size)), mask))
			} else {
				ops = append(ops, fmt.Sprintf("r %x %d", a, size))
			}
			i++
		}
		for j := 0; j < rng.Pick(1, 1, 2, 3); j++ {
			ops = append(ops, "t")
			if rng.Chance(60) {
				ops = append(ops, "i")
			}
			if !rng.Chance(pressure) {
				ops = append(ops, fmt.Sprintf("o %d", rng.Pick(1, 1, 2)))
			}
		}
	}
	for j := 0; j < rng.Range(0, 6); j++ { // slow drain: one response per tick
		ops = append(ops, "t", "o 1", "i")
	}
	return append(ops, "q", "i")
}

// one scenario on an environment built by mk; the bookkeeping oracles run after every op
func runC17WScenario(r *Run, cfg c17Cfg, extraKeys string, mk func() *c17Env, ops []string, orderOracle bool) (setAside int) {
	e := mk()
	line := cfg.String()
	if extraKeys != "" {
		line += " " + extraKeys
	}
	line += " ; " + strings.Join(ops, " ; ")
	e.caseLn = line
	if !orderOracle {
		e.strad = true
	}
	for _, o := range ops {
		toks := strings.Fields(o)
		if len(toks) == 0 {
			continue
		}
		e.op(toks)
		if m := c17CheckInOrder(e); m > setAside {
			setAside = m
		}
	}
	img := []byte{}
	ok := true
	for _, q := range e.reqs {
		lo, hi := e.dumpRange(q)
		d, err := e.comp.Storage.Read(lo, hi-lo)
		if err != nil {
			ok = false
			break
		}
		img = append(img, d...)
		if !e.fault && !e.strad && !e.malf {
			for i, b := range d {
				if e.flat[lo+uint64(i)] != b {
					e.failf("C17.storage.wide", "final storage differs from flat memory in arrival order at 0x%x: storage %02x, flat %02x",
						lo+uint64(i), b, e.flat[lo+uint64(i)])
					break
				}
			}
		}
	}
	if ok {
		e.out = append(e.out, fmt.Sprintf("S=%x", fnv(img)))
	} else {
		e.out = append(e.out, "S=err")
	}
	if !e.fault {
		for i, q := range e.reqs {
			if q.nrsp == 0 {
				e.failf("C17.response.missing", "request #%d never answered although the component went quiet", i)
			}
		}
	}
	r.Case(line, strings.Join(e.out, " "))
	r.Checked("wide-scenario")
	r.CountN("wide:reqs", len(e.reqs))
	for _, f := range e.fails {
		sig := f.Sig
		if strings.HasPrefix(sig, "C17.order") {
			sig = "C17.order.wide"
		}
		r.Failf(sig, line, "%s", f.Detail)
	}
	return setAside
}

func c17Valid(banks, w, d, lat, top, post int) string {
	f := catch(func() {
		simplebankedmemory.MakeBuilder().WithEngine(&fakeEngine{}).WithNumBanks(banks).WithBankPipelineWidth(w).
			WithBankPipelineDepth(d).WithStageLatency(lat).WithTopPortBufferSize(top).WithPostPipelineBufferSize(post).
			Build("DRAM")
	})
	if f != "" {
		return "panic"
	}
	return "ok"
}

func runC17W(r *Run, rng *Rng, replay string) {
	thorough := r.Tier == "thorough"

	// 1. wide pipelines
	// the kernel-checked witness of the lane-order defect (Props/C17.lean w2ops), now in order, with the bookkeeping shown
	w2 := c17Cfg{banks: 1, ilv: 6, w: 2, d: 1, lat: 1, row: 0, miss: 0, post: 1, top: 1}
	runC17WScenario(r, w2, "", func() *c17Env { return newC17Env(w2) },
		[]string{"w 0 11 -", "t", "t", "w 40 22 -", "t", "w 80 aa -", "t", "i", "w 80 bb -", "t", "i", "t", "i", "t", "t", "r 80 1", "t", "i", "o 8", "t", "i", "o 8", "t", "i", "q", "i"}, true)
	n := 500
	if thorough {
		n = 12000
	}
	withAside, maxAside := 0, 0
	for i := 0; i < n; i++ {
		cfg := genC17WCfg(rng)
		if i%10 == 9 {
			cfg.w = 1 // one lane: nothing may ever be set aside
		}
		nreq := rng.Pick(6, 10, 16, 24, 40)
		c := cfg
		m := runC17WScenario(r, cfg, "", func() *c17Env { return newC17Env(c) }, genC17WOps(rng, cfg, nreq), true)
		if m > 0 {
			withAside++
		}
		if m > maxAside {
			maxAside = m
		}
		r.Count(fmt.Sprintf("wide:width=%d", cfg.w))
	}
	r.CountN("wide:scenarios-with-a-request-set-aside", withAside)
	r.CountN("wide:largest-numSetAside", maxAside)
	if withAside == 0 {
		r.Note("no wide scenario ever set a request aside: the generator no longer reaches the repaired path")
		r.Failf("C17.generator.setaside", "c17 wide", "no generated scenario reached the set-aside path")
	}

	// 2. builder validation and selector type
	for _, v := range [][6]int{{4, 1, 1, 10, 16, 1}, {0, 1, 1, 1, 1, 1}, {1, 0, 1, 1, 1, 1}, {1, 1, 0, 1, 1, 1}, {1, 1, 1, 0, 1, 1},
		{1, 1, 1, 1, 0, 1}, {1, 1, 1, 1, 1, 0}, {-1, 1, 1, 1, 1, 1}, {16, 1, 5, 1, 1024, 128}} {
		if v[0] < 0 {
			continue // the line protocol has naturals only
		}
		r.Case(fmt.Sprintf("c17 valid banks=%d w=%d d=%d lat=%d top=%d post=%d", v[0], v[1], v[2], v[3], v[4], v[5]),
			c17Valid(v[0], v[1], v[2], v[3], v[4], v[5]))
		r.Checked("builder-validation")
	}
	for i := 0; i < 12; i++ {
		v := [6]int{rng.Intn(3), rng.Intn(3), rng.Intn(3), rng.Intn(3), rng.Intn(3), rng.Intn(3)}
		r.Case(fmt.Sprintf("c17 valid banks=%d w=%d d=%d lat=%d top=%d post=%d", v[0], v[1], v[2], v[3], v[4], v[5]),
			c17Valid(v[0], v[1], v[2], v[3], v[4], v[5]))
		r.Checked("builder-validation")
	}
	for _, t := range []string{"interleaved", "Interleaved", "INTERLEAVED", "", "xor", "interleave", "hashed"} {
		got := "ok"
		if f := catch(func() {
			simplebankedmemory.MakeBuilder().WithEngine(&fakeEngine{}).WithBankSelectorType(t).Build("DRAM")
		}); f != "" {
			got = "panic"
		}
		r.Case(strings.TrimSpace("c17 sel "+t), got)
		r.Checked("selector-type")
	}
	if f := catch(func() { simplebankedmemory.MakeBuilder().Build("DRAM") }); f == "" {
		r.Failf("C17.builder.engine", "c17 build without engine", "Build without an engine did not panic")
	}
	r.Checked("builder-engine")

	// 3. storage-side AddressConverter = identity, alone and next to a bank address converter
	na := 40
	if thorough {
		na = 600
	}
	ident := &mem.InterleavingConverter{InterleavingSize: 4096, TotalNumOfElements: 1, CurrentElementIndex: 0, Offset: 0}
	for i := 0; i < na; i++ {
		cfg := genC17Cfg(rng)
		var v *c17Conv
		keys := "aid=1"
		ok := true
		if i%2 == 1 {
			cfg.w = rng.Pick(1, 1, 2)
			vv, good := genC17Conv(rng, cfg)
			if good {
				v = &vv
				keys = vv.String() + " aid=1"
			}
		}
		c := cfg
		mk := func() *c17Env {
			b := simplebankedmemory.MakeBuilder().WithEngine(&fakeEngine{}).WithNumBanks(c.banks).
				WithLog2InterleaveSize(uint64(c.ilv)).WithBankPipelineWidth(c.w).WithBankPipelineDepth(c.d).
				WithStageLatency(c.lat).WithRowBufferSizeLog2(uint64(c.row)).WithRowMissDelay(c.miss).
				WithPostPipelineBufferSize(c.post).WithTopPortBufferSize(c.top).WithAddressConverter(ident).
				WithNewStorage(1 << 50) // the lines carry no cap= key: never exceeded
			if v != nil {
				b = b.WithBankAddressConverter(v.real())
			}
			if i%4 == 2 { // Builder.WithStorage: an existing storage object instead of a new one
				b = b.WithStorage(mem.NewStorage(1 << 50))
			}
			comp := b.Build("DRAM")
			port := comp.GetPortByName("Top")
			port.SetConnection(&fakeConn{name: "conn"})
			return &c17Env{cfg: c, comp: comp, port: port, idx: map[string]int{}, flat: map[uint64]byte{}}
		}
		var ops []string
		if v != nil {
			ops, _ = genC17DeepOps(rng, cfg, *v, rng.Pick(4, 8, 12), false, false)
		} else {
			ops = genC17Ops(rng, cfg, rng.Pick(4, 8, 12), false, false)
		}
		runC17WScenario(r, cfg, keys, mk, ops, ok)
		r.Count("addrconv:identity")
	}

	// 4. a message that is not an AccessReq
	{
		e := newC17Env(c17Cfg{banks: 1, ilv: 6, w: 1, d: 1, lat: 1, post: 1, top: 2})
		rsp := mem.WriteDoneRspBuilder{}.WithSrc("Agent").WithDst(e.port.AsRemote()).WithRspTo("x").Build()
		var msg sim.Msg = rsp
		_ = e.port.Deliver(msg)
		f := catch(func() { e.comp.Tick() })
		if f == "" {
			r.Failf("C17.foreign.nopanic", "c17 foreign message", "a WriteDoneRsp on the Top port was swallowed without panic")
		}
		r.Checked("foreign-message")
		r.Count("foreign:panic-" + f)
	}

	// 5. Props/C17W.lean mem_semantics_any_converter_refuted: converter offset 32 splits the 64-byte block 0x40..0x7f;
	// the write at 0x5e (bank 0, behind a backlog) and the later read of 0x60 (bank 1) touch the same byte
	{
		cfg := c17Cfg{banks: 2, ilv: 6, w: 1, d: 1, lat: 1, row: 0, miss: 0, post: 1, top: 4}
		v := c17Conv{64, 1, 0, 32}
		ops := []string{"w 40 11 -", "w 5e aabbccdd -", "r 60 1", "t", "t", "t", "t", "o 4", "t", "t", "o 4", "q"}
		runC17DeepScenario(r, cfg, &v, uint64(4)<<30, ops, false)
		e := newC17DeepEnv(cfg, &v, uint64(4)<<30)
		for _, o := range ops {
			e.op(strings.Fields(o))
		}
		got := strings.Join(e.out, " ")
		if strings.Contains(got, "d2:00") {
			r.Count("wide:block-splitting-converter-witness-reproduced(read of 0x60 answered 00, earlier write stored cc)")
		} else {
			r.Count("wide:block-splitting-converter-witness-NOT-reproduced")
			r.Note("converter witness of mem_semantics_any_converter_refuted no longer reproduces on the real component: %s", got)
		}
	}
}
