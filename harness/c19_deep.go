package main

import (
	"fmt"
	"sort"
	"strconv"
	"strings"

	"github.com/sarchlab/akita/v4/mem/vm"
	"github.com/sarchlab/akita/v4/sim"
	"github.com/sarchlab/mgpusim/v4/amd/protocol"
)

func init() { register("C19", runC19Deep) }

// hsmap: the page-per-GPU map of one migration request (`GPUReqToVAddrMap`, a Go map) as the real
// Driver walks it during a conforming handshake: the page list of the shootdown command, the
// migrate commands in the order they are sent (destination GPU : page) and the page list of the
// reply to the MMU. Pages are named by allocation index. Model: `migOrder` (theorem migrate_order).
func runC19HsMap(r *Run, line string) {
	ops := splitOps(line)
	ngpu := 2
	for _, t := range strings.Fields(ops[0]) {
		if strings.HasPrefix(t, "ngpu=") {
			ngpu, _ = strconv.Atoi(t[5:])
		}
	}
	type ent struct {
		g   uint64
		idx []int
	}
	var ents []ent
	npages := 0
	for _, o := range ops[1:] {
		kv := strings.SplitN(strings.TrimSpace(o), ":", 2)
		g, _ := strconv.Atoi(kv[0])
		e := ent{g: uint64(g)}
		if len(kv) > 1 && kv[1] != "-" {
			for _, s := range strings.Split(kv[1], ",") {
				i, _ := strconv.Atoi(s)
				e.idx = append(e.idx, i)
				if i+1 > npages {
					npages = i + 1
				}
			}
		}
		ents = append(ents, e)
	}
	gp := make([]int, ngpu)
	for i := range gp {
		gp[i] = 2048
	}
	c := newC19Prep(gp)
	d := c.drv
	pid := vm.PID(1)
	d.VerifAddContextC19(pid)
	for i := 0; i < ngpu; i++ {
		d.RemotePMCPorts = append(d.RemotePMCPorts, sim.NewPort(nil, 1, 1, fmt.Sprintf("GPU%d.PMC.Remote", i+1)))
	}
	gpuPort, mmuPort := d.VerifPortsC19()
	(&fakeConn{name: "c"}).PlugIn(gpuPort)
	(&fakeConn{name: "c"}).PlugIn(mmuPort)
	// the pages, all living on GPU 1
	va := make([]uint64, npages)
	vaIdx := map[uint64]int{}
	paIdx := map[uint64]int{}
	for i := range va {
		va[i] = d.VerifAllocateC19(pid, 4096, 1)
		vaIdx[va[i]] = i
		if pg, ok := c.pt.Find(pid, va[i]); ok {
			paIdx[pg.PAddr] = i
		}
	}
	info := &vm.PageMigrationInfo{GPUReqToVAddrMap: map[uint64][]uint64{}}
	for _, e := range ents {
		l := []uint64{}
		for _, i := range e.idx {
			l = append(l, va[i])
		}
		info.GPUReqToVAddrMap[e.g] = l
	}
	var sd, cmd, rsp []string
	gotSd, gotRsp := false, false
	fault := ""
	settle := func() {
		for k := 0; k < 4000 && fault == ""; k++ {
			var prog bool
			if f := catch(func() { prog = d.Tick() }); f != "" {
				fault = f
				return
			}
			for {
				m := gpuPort.RetrieveOutgoing()
				if m == nil {
					break
				}
				switch x := m.(type) {
				case *protocol.ShootDownCommand:
					if !gotSd {
						gotSd = true
						for _, a := range x.VAddr {
							sd = append(sd, strconv.Itoa(vaIdx[a]))
						}
					}
				case *protocol.PageMigrationReqToCP:
					g := strings.TrimSuffix(strings.TrimPrefix(string(x.Dst), "GPU"), ".CP")
					gi, _ := strconv.Atoi(g)
					i, ok := paIdx[x.ToReadFromPhysicalAddress]
					if !ok {
						i = -1
					}
					cmd = append(cmd, fmt.Sprintf("%d:%d", gi-1, i))
				}
				prog = true
			}
			if m := mmuPort.RetrieveOutgoing(); m != nil {
				if x, ok := m.(*vm.PageMigrationRspFromDriver); ok && !gotRsp {
					gotRsp = true
					for _, a := range x.VAddr {
						rsp = append(rsp, strconv.Itoa(vaIdx[a]))
					}
				}
				prog = true
			}
			if !prog {
				break
			}
		}
	}
	q := &vm.PageMigrationReqToDriver{MigrationInfo: info, CurrAccessingGPUs: []uint64{1}, PID: pid, CurrPageHostGPU: 1, PageSize: 4096}
	q.ID = "mmu0"
	q.Src, q.Dst = "MMU", mmuPort.AsRemote()
	mmuPort.Deliver(q)
	settle()
	gpuSrc := sim.NewPort(nil, 1, 1, "GPU1.CP.ToDriver")
	send := func(m sim.Msg) {
		if fault == "" {
			gpuPort.Deliver(m)
			settle()
		}
	}
	for i := 0; i < ngpu; i++ {
		send(protocol.NewRDMADrainRspToDriver(gpuSrc, gpuPort))
	}
	send(protocol.NewShootdownCompleteRsp(gpuSrc, gpuPort))
	for guard := 0; guard < 64 && fault == ""; guard++ {
		if h := d.VerifHandshakeC19(); !h.MigratingOne {
			break
		}
		send(protocol.NewPageMigrationRspToDriver(gpuSrc, gpuPort))
	}
	ans := fmt.Sprintf("sd=%s cmd=%s rsp=%s", strings.Join(sd, ","), strings.Join(cmd, ","), strings.Join(rsp, ","))
	if fault != "" {
		ans = "fault:" + fault
	}
	r.Case(line, ans)
	r.Count("hsmap.scenario")
	// oracle, independent of the model: commands sorted by GPU, each GPU's pages in slice order,
	// every page of a GPU in 1..ngpu exactly once, the reply lists the same pages in the same order
	r.Checked("hs.order")
	sort.SliceStable(ents, func(a, b int) bool { return ents[a].g < ents[b].g })
	var want, wantP []string
	for _, e := range ents {
		if e.g >= 1 && int(e.g) <= ngpu {
			for _, i := range e.idx {
				want = append(want, fmt.Sprintf("%d:%d", e.g-1, i))
				wantP = append(wantP, strconv.Itoa(i))
			}
		}
	}
	if len(want) > 0 && (strings.Join(cmd, ",") != strings.Join(want, ",") || strings.Join(rsp, ",") != strings.Join(wantP, ",") ||
		strings.Join(sd, ",") != strings.Join(wantP, ",")) {
		r.Failf("C19.hs.order", line, "shootdown pages %v, migrate commands %v, reply pages %v; expected commands %v", sd, cmd, rsp, want)
	}
}

func c19GenHsMap(rng *Rng) string {
	ngpu := 2 + rng.Intn(3)
	ops := []string{fmt.Sprintf("c19 hsmap ngpu=%d", ngpu)}
	// requesting GPUs 2..ngpu (sometimes an entry outside 1..ngpu, which the driver ignores), listed
	// in a random order, with shuffled page indices
	var gs []int
	for g := 2; g <= ngpu; g++ {
		if rng.Chance(75) {
			gs = append(gs, g)
		}
	}
	if len(gs) == 0 {
		gs = append(gs, 2)
	}
	if rng.Chance(20) {
		gs = append(gs, ngpu+1)
	}
	for i := len(gs) - 1; i > 0; i-- {
		j := rng.Intn(i + 1)
		gs[i], gs[j] = gs[j], gs[i]
	}
	np := 1 + rng.Intn(6)
	perm := make([]int, np)
	for i := range perm {
		perm[i] = i
	}
	for i := np - 1; i > 0; i-- {
		j := rng.Intn(i + 1)
		perm[i], perm[j] = perm[j], perm[i]
	}
	per := make([][]string, len(gs))
	for k, p := range perm {
		w := rng.Intn(len(gs))
		if k < len(gs) {
			w = k
		}
		per[w] = append(per[w], strconv.Itoa(p))
	}
	for k, g := range gs {
		l := "-"
		if len(per[k]) > 0 {
			l = strings.Join(per[k], ",")
		}
		ops = append(ops, fmt.Sprintf("%d:%s", g, l))
	}
	return strings.Join(ops, " ; ")
}

func runC19Deep(r *Run, rng *Rng, replay string) {
	n := 80
	if r.Tier == "thorough" {
		n = 1500
	}
	runC19HsMap(r, "c19 hsmap ngpu=3 ; 3:2,0 ; 2:1")
	runC19HsMap(r, "c19 hsmap ngpu=4 ; 4:0 ; 2:3,1 ; 3:2 ; 5:4")
	for i := 0; i < n; i++ {
		runC19HsMap(r, c19GenHsMap(rng))
	}
}
