package main

import (
	"fmt"
	"time"

)

// FIFO means more than start order: a command sees the EFFECTS of its predecessors in the queue.
// The staging pattern device -> host slice -> device, both copies enqueued on ONE queue before
// anything is drained (what MemCopyD2D does for the tail bytes of a copy), on the real driver of the
// emulation platform: the second copy must read the host slice as the first copy left it, not as it
// was when the command was enqueued.
func c12EffectOrder(r *Run, rng *Rng, n int) {
	for it := 0; it < n; it++ {
		p := newEmuPlatform(r.OutDir, 1, 12)
		ctx := p.drv.Init()
		l := rng.Pick(1, 3, 4, 64, 100, 4096, 5000)
		a := p.drv.AllocateMemory(ctx, uint64(l))
		b := p.drv.AllocateMemory(ctx, uint64(l))
		src := make([]byte, l)
		for i := range src {
			src[i] = byte(i*7%251) + 1
		}
		desc := fmt.Sprintf("effect-order len=%d: H2D(A,pattern) ; [enqueue D2H(h,A) ; enqueue H2D(B,h)] ; drain ; D2H(B)", l)
		ok, fault := withTimeout(30*time.Second, func() {
			p.drv.MemCopyH2D(ctx, a, src)
			q := p.drv.CreateCommandQueue(ctx)
			h := make([]byte, l)
			p.drv.EnqueueMemCopyD2H(q, h, a)
			p.drv.EnqueueMemCopyH2D(q, b, h)
			p.drv.DrainCommandQueue(q)
			got := make([]byte, l)
			p.drv.MemCopyD2H(ctx, got, b)
			r.Checked("effect-order")
			if string(got) != string(src) {
				r.Failf("C12.fifo.effect-order", desc, "the second copy did not see what the first copy wrote into the host slice: B[0..%d) = % x…, want % x…", min(l, 8), got[:min(l, 8)], src[:min(l, 8)])
			}
			// the driver's own device-to-device copy with a byte count that is not a multiple of 4
			if l%4 != 0 {
				c := p.drv.AllocateMemory(ctx, uint64(l))
				p.drv.MemCopyD2D(ctx, c, a, l)
				got2 := make([]byte, l)
				p.drv.MemCopyD2H(ctx, got2, c)
				r.Checked("effect-order.d2d")
				if string(got2) != string(src) {
					r.Failf("C12.fifo.effect-order.d2d", desc, "MemCopyD2D of %d bytes: destination % x…, want % x…", l, got2[max(0, l-4):], src[max(0, l-4):])
				}
			}
		})
		p.close()
		if !ok {
			r.Failf("C12.drain-hang.effect-order", desc, "did not finish within 30 s")
			return
		}
		if fault != "" {
			r.Note("c12 effect-order skipped: %s", fault)
		}
		r.Count("effect-order.scenario")
	}
}

func init() {
	register("C12", func(r *Run, rng *Rng, _ string) {
		n := 8
		if r.Tier == "thorough" {
			n = 100
		}
		c12EffectOrder(r, rng, n)
	})
}
