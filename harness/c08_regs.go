package main

// Property C08, second deepening: what a dispatched wavefront is told about the launch geometry
// (Lean: lean/MgpuModel/C08_Regs.lean, theorems in lean/MgpuProofs/Props/C08Regs.lean).
//
//	c08 sgpr v5= flags= rsrc2= pa= ka= g= w= id= first= sx= sy=
//	    the whole initial SGPR image (24 registers) and a hash of v0..v2 of the 64 lanes after the
//	    real emu.ComputeUnit.initWfRegs and the real cu.WfDispatcherImpl.DispatchWf, for every
//	    enable-flag set and grids up to 2^32-1 per axis (answered by C02's transcription `initS`)
//	c08 hidden g= w=
//	    the 66 bytes binary.Write produces for gputensor.newCDNA3HiddenArgs(grid, wg)
//	c08 dist64 g= w= cu= probe=
//	    the real driver split for work-group counts around 2^63 (signed 64-bit model `distS`)
//
// Oracles, independent of the model (arithmetic in uint64 / big.Int):
//	C08.sgpr.layout[.emu|.timing]  every enabled field sits at the ABI register index (enabled fields
//	                         before it, packed) with the ABI value; every other register untouched
//	C08.sgpr.wgcount         count registers = number of work-groups along the axis
//	C08.sgpr.wgcount.wrap    same, for grid+wg-1 >= 2^32 (the uint32 expression wraps)
//	C08.hidden.geometry[.wrap]  fields at the ABI offsets equal the launch geometry
//	C08.hidden.size          sizes derived from the hidden arguments = CurrSize of every real work-group
//	C08.packet.layout        byte offsets of the dispatch packet = AQL
//	C08.wgdist64.partition   (groups + CUs - 1 < 2^63) probe accepted by exactly one launched GPU, no fault
//	C08.wgdist64.overflow    (groups + CUs - 1 >= 2^63) same statement, where the int arithmetic overflows

import (
	"bytes"
	"encoding/binary"
	"fmt"
	"math/big"
	"reflect"
	"strings"

	"github.com/sarchlab/mgpusim/v4/amd/benchmarks/dnn/gputensor"
	"github.com/sarchlab/mgpusim/v4/amd/emu"
	"github.com/sarchlab/mgpusim/v4/amd/insts"
	"github.com/sarchlab/mgpusim/v4/amd/kernels"
	"github.com/sarchlab/mgpusim/v4/amd/protocol"
	"github.com/sarchlab/mgpusim/v4/amd/timing/cu"
	"github.com/sarchlab/mgpusim/v4/amd/timing/wavefront"
)

func init() { register("C08", runC08Regs) }

type c08sInit struct {
	v5       bool
	flags    uint32 // bits 0..9: the ten enable_sgpr_* code properties in ABI order
	rsrc2    uint32
	pa, ka   uint64
	g, w, id [3]int
	first    int
	sx, sy   int
}

func (c *c08sInit) line() string {
	return fmt.Sprintf("c08 sgpr v5=%d flags=%x rsrc2=%x pa=%x ka=%x g=%d,%d,%d w=%d,%d,%d id=%d,%d,%d first=%d sx=%d sy=%d",
		c08B2i(c.v5), c.flags, c.rsrc2, c.pa, c.ka, c.g[0], c.g[1], c.g[2], c.w[0], c.w[1], c.w[2], c.id[0], c.id[1], c.id[2], c.first, c.sx, c.sy)
}

// c08sField: the ABI table, written independently of the Lean model: name, size in dwords
var c08sFields = []struct {
	name string
	size int
}{{"privSegBuf", 4}, {"dispatchPtr", 2}, {"queuePtr", 2}, {"kernarg", 2}, {"dispatchID", 2}, {"flatScratch", 2},
	{"privSegSize", 1}, {"cntX", 1}, {"cntY", 1}, {"cntZ", 1}, {"idX", 1}, {"idY", 1}, {"idZ", 1}}

const c08sNS = 24

func c08sSgpr(r *Run, t *c08TimingCUT, c *c08sInit) {
	line := c.line()
	co := &insts.KernelCodeObject{KernelCodeObjectMeta: &insts.KernelCodeObjectMeta{}}
	b := func(i uint) bool { return c.flags&(1<<i) != 0 }
	co.EnableSgprPrivateSegmentBuffer, co.EnableSgprDispatchPtr, co.EnableSgprQueuePtr = b(0), b(1), b(2)
	co.EnableSgprKernargSegmentPtr, co.EnableSgprDispatchID, co.EnableSgprFlatScratchInit = b(3), b(4), b(5)
	co.EnableSgprPrivateSegmentSize = b(6)
	co.EnableSgprGridWorkgroupCountX, co.EnableSgprGridWorkgroupCountY, co.EnableSgprGridWorkgroupCountZ = b(7), b(8), b(9)
	co.ComputePgmRsrc2 = c.rsrc2
	if c.v5 {
		co.Version = insts.CodeObjectV5
	}
	pkt := &kernels.HsaKernelDispatchPacket{GridSizeX: uint32(c.g[0]), GridSizeY: uint32(c.g[1]), GridSizeZ: uint32(c.g[2]),
		WorkgroupSizeX: uint16(c.w[0]), WorkgroupSizeY: uint16(c.w[1]), WorkgroupSizeZ: uint16(c.w[2]), KernargAddress: c.ka, KernelObject: 0x1000}
	wg := kernels.NewWorkGroup()
	wg.SizeX, wg.SizeY, wg.SizeZ = c.sx, c.sy, 1
	wg.IDX, wg.IDY, wg.IDZ = c.id[0], c.id[1], c.id[2]
	wg.Packet, wg.CodeObject = pkt, co
	raw := kernels.NewWavefront()
	raw.CodeObject, raw.Packet, raw.PacketAddress, raw.FirstWiFlatID, raw.WG, raw.InitExecMask = co, pkt, c.pa, c.first, wg, ^uint64(0)

	// emulator
	if c08EmuS == nil {
		c08EmuS, c08EmuV = make([]byte, 4*102), make([]byte, 4*64*256)
	}
	var es, ts [c08sNS]uint32
	var ev, tv [64][3]uint32
	ewf := &emu.Wavefront{Wavefront: raw, SRegFile: c08EmuS, VRegFile: c08EmuV}
	ef := catch(func() { emu.VerifInitWfRegs(ewf) })
	for i := 0; i < c08sNS; i++ {
		es[i] = binary.LittleEndian.Uint32(c08EmuS[4*i:])
	}
	for l := 0; l < 64; l++ {
		for k := 0; k < 3; k++ {
			ev[l][k] = binary.LittleEndian.Uint32(ewf.ReadReg(insts.VReg(k), 1, l))
		}
	}
	for l := 0; l < 64; l++ {
		copy(c08EmuV[l*1024:l*1024+12], make([]byte, 12))
	}
	copy(c08EmuS[:4*c08sNS], make([]byte, 4*c08sNS))

	// timing
	const simd, voff, soff = 1, 512, 256
	twf := wavefront.NewWavefront(raw)
	twf.WG = wavefront.NewWorkGroup(wg, nil)
	tf := catch(func() {
		t.disp.DispatchWf(twf, protocol.WfDispatchLocation{Wavefront: raw, SIMDID: simd, VGPROffset: voff, SGPROffset: soff})
	})
	buf := make([]byte, 4)
	zero := make([]byte, 4)
	for i := 0; i < c08sNS; i++ {
		t.cu.SRegFile.Read(cu.RegisterAccess{Reg: insts.SReg(i), RegCount: 1, WaveOffset: soff, Data: buf})
		ts[i] = binary.LittleEndian.Uint32(buf)
		t.cu.SRegFile.Write(cu.RegisterAccess{Reg: insts.SReg(i), RegCount: 1, WaveOffset: soff, Data: zero})
	}
	for l := 0; l < 64; l++ {
		for k := 0; k < 3; k++ {
			t.cu.VRegFile[simd].Read(cu.RegisterAccess{Reg: insts.VReg(k), RegCount: 1, LaneID: l, WaveOffset: voff, Data: buf})
			tv[l][k] = binary.LittleEndian.Uint32(buf)
			t.cu.VRegFile[simd].Write(cu.RegisterAccess{Reg: insts.VReg(k), RegCount: 1, LaneID: l, WaveOffset: voff, Data: zero})
		}
	}
	show := func(s [c08sNS]uint32, v [64][3]uint32, fault string) string {
		if fault != "" {
			if strings.Contains(fault, "divide") {
				return "fault:div0"
			}
			return "fault:" + fault
		}
		p := make([]string, c08sNS)
		for i := range p {
			p[i] = fmt.Sprintf("%x", s[i])
		}
		h := uint64(14695981039346656037)
		for l := 0; l < 64; l++ {
			for k := 0; k < 3; k++ {
				h = c08Mix(h, v[l][k])
			}
		}
		return fmt.Sprintf("s=%s v=%x", strings.Join(p, ","), h)
	}
	r.Case(line, fmt.Sprintf("E %s | T %s", show(es, ev, ef), show(ts, tv, tf)))
	r.Count("sgpr")
	if ef != "" || tf != "" {
		r.Failf("C08.sgpr.panic", line, "emulator: %q timing: %q", ef, tf)
		return
	}

	// the ABI image, computed from the table above
	enabled := func(i int) bool {
		if i < 10 {
			return b(uint(i))
		}
		return c.rsrc2&(1<<uint(7+i-10)) != 0
	}
	var want [c08sNS]uint32
	var defined [c08sNS]bool
	idx := 0
	wrapAxis := [3]bool{}
	for i, f := range c08sFields {
		if !enabled(i) {
			continue
		}
		put := func(vals ...uint32) {
			for k, v := range vals {
				if idx+k < c08sNS {
					want[idx+k], defined[idx+k] = v, true
				}
			}
		}
		switch f.name {
		case "dispatchPtr":
			put(uint32(c.pa), uint32(c.pa>>32))
		case "kernarg":
			put(uint32(c.ka), uint32(c.ka>>32))
		case "cntX", "cntY", "cntZ":
			a := i - 7
			put(uint32(c08dCount(c.g[a], c.w[a])))
			wrapAxis[a] = uint64(c.g[a])+uint64(c.w[a])-1 >= 1<<32
		case "idX", "idY", "idZ":
			put(uint32(c.id[i-10]))
		}
		idx += f.size
	}
	for m, got := range [][c08sNS]uint32{es, ts} {
		mode := []string{"emu", "timing"}[m]
		r.Checked("sgpr.layout." + mode)
		pos := 0
		for i, f := range c08sFields {
			if !enabled(i) {
				continue
			}
			for k := 0; k < f.size && pos+k < c08sNS; k++ {
				j := pos + k
				isCnt := strings.HasPrefix(f.name, "cnt")
				switch {
				case defined[j] && got[j] != want[j] && isCnt && wrapAxis[i-7]:
					r.Checked("sgpr.wgcount.wrap")
					r.Failf("C08.sgpr.wgcount.wrap", line, "%s: s%d (%s) = %d, the grid has %d work-groups along that axis (grid %d + wg %d - 1 does not fit uint32)",
						mode, j, f.name, got[j], want[j], c.g[i-7], c.w[i-7])
				case defined[j] && got[j] != want[j] && isCnt:
					r.Failf("C08.sgpr.wgcount", line, "%s: s%d (%s) = %d, the grid has %d work-groups along that axis", mode, j, f.name, got[j], want[j])
				case defined[j] && got[j] != want[j]:
					r.Failf("C08.sgpr.layout."+mode, line, "s%d should hold %s[%d] = %#x, holds %#x", j, f.name, k, want[j], got[j])
				case !defined[j] && got[j] != 0:
					r.Failf("C08.sgpr.layout."+mode, line, "s%d belongs to %s, which the simulator does not provide, but was written (%#x)", j, f.name, got[j])
				}
				if isCnt {
					r.Checked("sgpr.wgcount")
				}
			}
			pos += f.size
		}
		for j := pos; j < c08sNS; j++ {
			if got[j] != 0 {
				r.Failf("C08.sgpr.layout."+mode, line, "s%d is beyond the %d enabled SGPRs but was written (%#x)", j, pos, got[j])
			}
		}
	}
}

// ---- hidden kernel arguments -------------------------------------------------------------

// the implicit-argument block of the AMDGPU ABI (code object V5): name, offset, size
var c08sABIHidden = []struct {
	name      string
	off, size int
}{{"block_count_x", 0, 4}, {"block_count_y", 4, 4}, {"block_count_z", 8, 4}, {"group_size_x", 12, 2}, {"group_size_y", 14, 2},
	{"group_size_z", 16, 2}, {"remainder_x", 18, 2}, {"remainder_y", 20, 2}, {"remainder_z", 22, 2},
	{"global_offset_x", 40, 8}, {"global_offset_y", 48, 8}, {"global_offset_z", 56, 8}, {"grid_dims", 64, 2}}

func c08sLE(b []byte, off, n int) uint64 {
	v := uint64(0)
	for k := n - 1; k >= 0; k-- {
		v = v<<8 | uint64(b[off+k])
	}
	return v
}

func c08sHidden(r *Run, g, w c08Geo, enumerate bool) {
	line := fmt.Sprintf("c08 hidden g=%s w=%s", g, w)
	var raw []byte
	fault := catch(func() {
		h := gputensor.VerifNewCDNA3HiddenArgs([3]uint32{uint32(g[0]), uint32(g[1]), uint32(g[2])}, [3]uint16{uint16(w[0]), uint16(w[1]), uint16(w[2])})
		buf := bytes.NewBuffer(nil)
		must(binary.Write(buf, binary.LittleEndian, h)) // what driver.MemCopyH2D does with the argument struct
		raw = buf.Bytes()
	})
	if fault != "" {
		if strings.Contains(fault, "divide") {
			fault = "div0"
		}
		r.Case(line, "fault:"+fault)
		return
	}
	r.Case(line, "b="+hexb(raw))
	r.Count("hidden")
	if len(raw) != 66 {
		r.Failf("C08.hidden.geometry", line, "the hidden block has %d bytes, the ABI block up to grid_dims has 66", len(raw))
		return
	}
	val := map[string]uint64{}
	for _, f := range c08sABIHidden {
		val[f.name] = c08sLE(raw, f.off, f.size)
	}
	r.Checked("hidden.geometry")
	for a, ax := range []string{"x", "y", "z"} {
		cnt := c08dCount(g[a], w[a])
		if val["block_count_"+ax] != cnt&0xffffffff {
			sig := "C08.hidden.geometry"
			if uint64(g[a])+uint64(w[a])-1 >= 1<<32 {
				sig += ".wrap"
			}
			r.Failf(sig, line, "hidden_block_count_%s = %d, the grid has %d work-groups along %s", ax, val["block_count_"+ax], cnt, ax)
		}
		if val["group_size_"+ax] != uint64(w[a]) {
			r.Failf("C08.hidden.geometry", line, "hidden_group_size_%s = %d, work-group size %d", ax, val["group_size_"+ax], w[a])
		}
		if val["remainder_"+ax] != uint64(g[a]%w[a]) {
			r.Failf("C08.hidden.geometry", line, "hidden_remainder_%s = %d, partial group has %d", ax, val["remainder_"+ax], g[a]%w[a])
		}
		if val["global_offset_"+ax] != 0 {
			r.Failf("C08.hidden.geometry", line, "hidden_global_offset_%s = %d", ax, val["global_offset_"+ax])
		}
	}
	dims := uint64(1)
	if g[1] > 1 {
		dims = 2
	}
	if g[2] > 1 {
		dims = 3
	}
	if val["grid_dims"] != dims {
		r.Failf("C08.hidden.geometry", line, "hidden_grid_dims = %d for grid %s", val["grid_dims"], g)
	}
	if !enumerate {
		return
	}
	// every real work-group: the size a V5 kernel derives from the hidden arguments is its CurrSize
	r.Checked("hidden.size")
	bld := kernels.NewGridBuilder()
	bld.SetKernel(kernels.KernelLaunchInfo{CodeObject: c08CodeObject(true, 0, false), Packet: c08Packet(g, w)})
	seen := [3]map[int]bool{{}, {}, {}}
	for wg := bld.NextWG(); wg != nil; wg = bld.NextWG() {
		id := [3]int{wg.IDX, wg.IDY, wg.IDZ}
		cur := [3]int{wg.CurrSizeX, wg.CurrSizeY, wg.CurrSizeZ}
		for a, ax := range []string{"x", "y", "z"} {
			seen[a][id[a]] = true
			d := val["group_size_"+ax]
			if val["remainder_"+ax] != 0 && uint64(id[a])+1 == val["block_count_"+ax] {
				d = val["remainder_"+ax]
			}
			if d != uint64(cur[a]) {
				r.Failf("C08.hidden.size", line, "work-group %v has %d work-items along %s, the hidden arguments give %d", id, cur[a], ax, d)
				return
			}
		}
	}
	for a, ax := range []string{"x", "y", "z"} {
		if uint64(len(seen[a])) != val["block_count_"+ax] {
			r.Failf("C08.hidden.size", line, "%d distinct work-group ids along %s, hidden_block_count_%s = %d", len(seen[a]), ax, ax, val["block_count_"+ax])
		}
	}
}

// ---- dispatch packet layout --------------------------------------------------------------

func c08sPacketLayout(r *Run) {
	aql := map[string]int{"Header": 0, "Setup": 2, "WorkgroupSizeX": 4, "WorkgroupSizeY": 6, "WorkgroupSizeZ": 8, "GridSizeX": 12,
		"GridSizeY": 16, "GridSizeZ": 20, "PrivateSegmentSize": 24, "GroupSegmentSize": 28, "KernelObject": 32, "KernargAddress": 40,
		"CompletionSignal": 56}
	r.Checked("packet.layout")
	tp := reflect.TypeOf(kernels.HsaKernelDispatchPacket{})
	off := 0
	for i := 0; i < tp.NumField(); i++ {
		f := tp.Field(i)
		if want, ok := aql[f.Name]; ok && want != off {
			r.Failf("C08.packet.layout", "HsaKernelDispatchPacket", "field %s is serialised at byte %d, AQL has it at %d", f.Name, off, want)
		}
		off += int(f.Type.Size())
	}
	if off != 64 {
		r.Failf("C08.packet.layout", "HsaKernelDispatchPacket", "the packet serialises to %d bytes, AQL packets have 64", off)
	}
}

// ---- the split around 2^63 work-groups ------------------------------------------------------

func c08sDist64(r *Run, g, w c08Geo, cus []int, probe c08Geo) {
	line := fmt.Sprintf("c08 dist64 g=%s w=%s cu=%s probe=%s", g, w, c08CUString(cus), probe)
	var dist []int
	var filters []kernels.WGFilterFunc
	fault := catch(func() {
		e := c08Driver(cus)
		dist, filters, _ = e.d.VerifUnifiedLaunchQueued(e.queue, *c08Packet(g, w))
	})
	if strings.Contains(fault, "divide_by_zero") {
		fault = "div0"
	} else if strings.Contains(fault, "not_all_wg_allocated") {
		fault = "not_all_allocated"
	}
	nx, ny, nz := c08dCount(g[0], w[0]), c08dCount(g[1], w[1]), c08dCount(g[2], w[2])
	tot := new(big.Int).Mul(new(big.Int).SetUint64(nx), new(big.Int).SetUint64(ny))
	tot.Mul(tot, new(big.Int).SetUint64(nz))
	// `(totalWGCount + totalCUCount - 1)` is the largest int the split computes
	sumCU := 0
	for _, c := range cus {
		sumCU += c
	}
	top := new(big.Int).Add(tot, big.NewInt(int64(sumCU-1)))
	over := top.Cmp(new(big.Int).Lsh(big.NewInt(1), 63)) >= 0
	sig := "C08.wgdist64.partition"
	if over {
		sig = "C08.wgdist64.overflow"
		r.Count("dist64.at-or-beyond-2^63")
	} else {
		r.Count("dist64.below-2^63")
	}
	inBox := uint64(probe[0]) < nx && uint64(probe[1]) < ny && uint64(probe[2]) < nz
	if fault != "" {
		r.Case(line, "fault:"+fault)
		if tot.Sign() > 0 && fault != "div0" {
			r.Checked(strings.TrimPrefix(sig, "C08."))
			r.Failf(sig, line, "the split of %v work-groups ends in %s", tot, fault)
		}
		return
	}
	var acc, launched []int
	pkt := c08Packet(g, w)
	for i, f := range filters {
		if f != nil {
			launched = append(launched, i)
			if f(pkt, &kernels.WorkGroup{IDX: probe[0], IDY: probe[1], IDZ: probe[2]}) {
				acc = append(acc, i)
			}
		}
	}
	str := func(l []int) string {
		if len(l) == 0 {
			return "-"
		}
		return c08Ints(l)
	}
	r.Case(line, fmt.Sprintf("d=%s acc=%s launched=%s", c08Ints(dist), str(acc), str(launched)))
	if !inBox || tot.Sign() == 0 {
		return
	}
	r.Checked(strings.TrimPrefix(sig, "C08."))
	if len(acc) != 1 {
		r.Failf(sig, line, "work-group %v of a grid with %v work-groups is accepted by GPUs %v, ranges %v", probe, tot, acc, dist)
	}
}

func runC08Regs(r *Run, rng *Rng, replay string) {
	thorough := r.Tier == "thorough"
	t := c08NewTimingCU()
	c08sPacketLayout(r)

	// witnesses of Props/C08Regs.lean replayed first
	c08sSgpr(r, t, &c08sInit{flags: 0x3ff, rsrc2: 7 << 7, pa: 0x1111222233334444, ka: 0x5555666677778888,
		g: [3]int{4294967295, 100, 7}, w: [3]int{64, 3, 7}, id: [3]int{5, 6, 0}, sx: 64, sy: 3})
	c08sSgpr(r, t, &c08sInit{flags: 0x388, rsrc2: 7 << 7, pa: 0x10, ka: 0x20,
		g: [3]int{4294967295, 4294967233, 4294967232}, w: [3]int{2, 64, 64}, id: [3]int{1, 2, 3}, sx: 2, sy: 64})
	c08sHidden(r, c08Geo{4294967295, 1, 1}, c08Geo{64, 1, 1}, false)
	c08sHidden(r, c08Geo{58, 4, 1}, c08Geo{48, 4, 1}, true)
	c08sHidden(r, c08Geo{1, 1, 1}, c08Geo{0, 1, 1}, false)
	c08sDist64(r, c08Geo{4294967295, 4294967295, 2}, c08Geo{1, 1, 1}, []int{4, 4}, c08Geo{5, 5, 1})
	c08sDist64(r, c08Geo{4294967295, 4294967295, 1}, c08Geo{2, 1, 1}, []int{4, 4}, c08Geo{5, 5, 0}) // 2^63 - 2^31 groups
	c08sDist64(r, c08Geo{4294967295, 2147483649, 1}, c08Geo{1, 1, 1}, []int{1}, c08Geo{0, 0, 0})
	c08sDist64(r, c08Geo{454279, 31252369, 649657}, c08Geo{1, 1, 1}, []int{4, 4}, c08Geo{1, 1, 1}) // 2^63-1 groups: total+CUs-1 overflows
	c08sDist64(r, c08Geo{454279, 31252369, 649657}, c08Geo{1, 1, 1}, []int{1}, c08Geo{1, 1, 1})    // 2^63-1 groups, one CU: fits

	n := 400
	if thorough {
		n = 12000
	}
	for k := 0; k < n; k++ {
		c := &c08sInit{v5: rng.Chance(30), pa: rng.U64() >> uint(rng.Intn(40)), ka: rng.U64() >> uint(rng.Intn(40))}
		switch rng.Intn(4) {
		case 0: // the layouts the shipped kernels use
			c.flags = uint32(rng.Pick(0x0b, 0x09, 0x08, 0x01, 0x0a))
		case 1:
			c.flags = uint32(rng.Intn(1 << 10))
		case 2:
			c.flags = uint32(rng.Intn(1<<10)) | 0x380 // all three counts
		default:
			c.flags = 1 << uint(rng.Intn(10))
		}
		if k < 1024 && thorough { // every set of the ten user-SGPR flags once
			c.flags = uint32(k)
		}
		c.rsrc2 = uint32(rng.Intn(1<<13)) &^ 1
		if rng.Chance(50) {
			c.rsrc2 |= 7 << 7
		}
		for d := 0; d < 3; d++ {
			c.w[d] = rng.Pick(1, 2, 4, 8, 16, 64, 256, 3, 5, 1024, 65535)
			switch rng.Intn(5) {
			case 0: // around the uint32 wrap of grid+wg-1
				c.g[d] = 1<<32 - c.w[d] + rng.Range(-2, c08Min(2, c.w[d]-1))
			case 1:
				c.g[d] = rng.Range(1<<31, 1<<32-1)
			default:
				c.g[d] = c.w[d]*rng.Range(1, 9) - rng.Intn(c.w[d])
			}
			if c.g[d] < 1 {
				c.g[d] = 1
			}
			c.id[d] = rng.Intn(int(c08dCount(c.g[d], c.w[d])))
		}
		c.sx, c.sy = c.w[0], c.w[1]
		if c.sx*c.sy > 4096 {
			c.sy = 1
		}
		c.first = 64 * rng.Intn(4)
		c08sSgpr(r, t, c)
	}

	m := 150
	if thorough {
		m = 4000
	}
	for k := 0; k < m; k++ {
		var g, w c08Geo
		small := rng.Chance(60)
		for a := 0; a < 3; a++ {
			w[a] = rng.Pick(1, 1, 2, 3, 4, 7, 8, 16, 48, 64, 256, 1024, 65535)
			switch {
			case small:
				if w[a] > 64 {
					w[a] = rng.Pick(1, 3, 8)
				}
				g[a] = rng.Range(1, 5*w[a])
				if rng.Chance(40) {
					g[a] = 1
				}
			case rng.Chance(40):
				g[a] = 1<<32 - w[a] + rng.Range(-2, c08Min(2, w[a]-1))
			default:
				g[a] = rng.Range(1, 1<<32-1)
			}
			if g[a] < 0 {
				g[a] = 0
			}
		}
		if rng.Chance(3) {
			w[rng.Intn(3)] = 0
		}
		enumerate := small && w[0]*w[1]*w[2] != 0 && c08dCount(g[0], w[0])*c08dCount(g[1], w[1])*c08dCount(g[2], w[2]) <= 200 && w.prod() <= 1024
		c08sHidden(r, g, w, enumerate)
	}

	q := 60
	if thorough {
		q = 1500
	}
	for k := 0; k < q; k++ {
		// two axes of about 2^31.5 each, third 1..3: the product crosses 2^63
		var cnt [3]int
		cnt[0] = rng.Range(1<<31, 1<<32-1)
		cnt[1] = rng.Range(1<<30, 1<<32-1)
		cnt[2] = rng.Range(1, 3)
		if rng.Chance(30) {
			cnt[0], cnt[1] = 1<<32-1-rng.Intn(3), 1<<31+rng.Range(-2, 2)
			cnt[2] = 1
		}
		p := rng.Perm(3)
		var g, w c08Geo
		for a := 0; a < 3; a++ {
			g[p[a]], w[p[a]] = c08dBigAxis(rng, cnt[a])
		}
		cus := c08RandCUs(rng)
		var probe c08Geo
		for a := 0; a < 3; a++ {
			na := int(c08dCount(g[a], w[a]))
			switch {
			case rng.Chance(30):
				probe[a] = na - 1
			case rng.Chance(20):
				probe[a] = 0
			default:
				probe[a] = rng.Intn(na)
			}
		}
		c08sDist64(r, g, w, cus, probe)
	}
}
