package main

import (
	"bytes"
	"encoding/binary"
	"fmt"
	"io"
	"log"
	"math"
	"os"
	"os/exec"
	"path/filepath"
	"regexp"
	"sort"
	"strings"

	"github.com/sarchlab/mgpusim/v4/amd/insts"
)

// C03 (vector / memory half): ISA conformance of the vector-ALU, SMEM, FLAT and DS
// handlers of both ALUs (emu.ALUImpl = GCN3, cdna3.ALU). See notes/C03V.md.
//
// The harness walks the opcode space of every vector / memory format, keeps what the ALUs
// implement, builds instruction words (spec-side encoder of c04.go), decodes them with the
// REAL decoder, runs the REAL ALU.Run on an emu.Wavefront whose cells were set to corner
// values, and prints the complete post-state delta. The Lean driver prints the ISA spec's
// delta for the same case line. Any disagreement is an oracle failure
// C03.<arch>.<inst>.<aspect>[.<feature>].

func init() { register("C03", runC03V) }

// c03vCatch runs f and returns the raw panic text ("" = no panic).
func c03vCatch(f func()) (msg string) {
	defer func() {
		if e := recover(); e != nil {
			msg = fmt.Sprint(e)
			if msg == "" {
				msg = "panic"
			}
		}
	}()
	f()
	return ""
}

type c03vOp struct {
	arch   string
	format string // vop2 vop1 vopc vop3a vop3b smem flat ds
	op     uint32
	name   string // decode-table name without _e32/_e64
}

var c03vSuffix = regexp.MustCompile(`_e(32|64)$`)

func c03vBenign(format string, op uint32) []byte {
	f := map[string]uint32{}
	switch format {
	case "vop2":
		f["src0"], f["vsrc1"], f["vdst"] = 256+1, 2, 3
		if op == 23 || op == 24 || op == 36 || op == 37 {
			return encodeDesc(desc{format: format, op: op, f: f, hasLit: true, literal: 0})
		}
	case "vop1":
		f["src0"], f["vdst"] = 256+1, 3
	case "vopc":
		f["src0"], f["vsrc1"] = 256+1, 2
	case "vop3a":
		f["src0"], f["src1"], f["src2"], f["vdst"] = 256+2, 256+4, 256+6, 8
	case "smem":
		f["sbase"], f["sdata"], f["imm"], f["offset"] = 2, 8, 1, 0
	case "flat":
		f["addr"], f["data"], f["vdst"], f["saddr"] = 2, 4, 8, 0x7f
	case "ds":
		f["addr"], f["data0"], f["data1"], f["vdst"] = 1, 2, 4, 8
	}
	return encodeDesc(desc{format: format, op: op, f: f})
}

func (e *aluEnv) c03vRun(arch string, inst *insts.Inst) string {
	return c03vCatch(func() {
		e.wf.VerifSetInst(inst)
		if arch == "cdna3" {
			e.cdna3.Run(e.wf)
		} else {
			e.gcn3.Run(e.wf)
		}
	})
}

func c03vUnimplemented(fault string) bool {
	return strings.HasPrefix(fault, "Opcode") && strings.Contains(fault, "not implemented") ||
		strings.HasPrefix(fault, "decode:")
}

// enumerate walks the opcode space of every vector / memory format on both ALUs and keeps
// the opcodes the decoder knows and the ALU does not reject as "not implemented".
func c03vEnumerate(e *aluEnv) []c03vOp {
	var out []c03vOp
	limits := []struct {
		format string
		n      uint32
	}{{"vop2", 62}, {"vop1", 256}, {"vopc", 256}, {"vop3a", 1024}, {"smem", 256}, {"flat", 128}, {"ds", 256}}
	for _, arch := range []string{"gcn3", "cdna3"} {
		for _, l := range limits {
			for op := uint32(0); op < l.n; op++ {
				buf := c03vBenign(l.format, op)
				var name, fm string
				var dop uint32
				fault := c03vCatch(func() {
					inst, err := e.decodeFor(arch, buf)
					if err != nil {
						panic("decode: not implemented")
					}
					name = c03vSuffix.ReplaceAllString(inst.InstName, "")
					fm = strings.ToLower(inst.FormatName)
					dop = uint32(inst.Opcode)
					e.reset()
					e.wf.SetEXEC(1)
					if f := e.c03vRun(arch, inst); f != "" {
						panic(f)
					}
				})
				if c03vUnimplemented(fault) || fm == "" || dop != op {
					continue
				}
				if arch == "cdna3" && fm == "vop1" && op == 56 {
					// GFX940 VOP1 0x38 is V_MOV_B64; the shared decode table calls it v_movrelsd_b32
					name = "v_mov_b64"
				}
				out = append(out, c03vOp{arch: arch, format: fm, op: op, name: name})
				if os.Getenv("C03V_LIST") != "" {
					fmt.Printf("%s %s %d %s %s\n", arch, fm, op, name, fault)
				}
			}
		}
	}
	return out
}

// ---------------------------------------------------------------- value pools

var c03vInt32 = []uint32{0, 1, 2, 31, 32, 33, 63, 64, 0x7fffffff, 0x80000000, 0xffffffff, 0xaaaaaaaa, 0x55555555,
	0x00ffffff, 0x00800000, 0x007fffff, 0xff800000, 0x0000ffff, 0x00008000, 0x000000ff, 0x80, 0x12345678, 0xfffffffe, 0x10000, 5, 16}
var c03vInt64 = []uint64{0, 1, 2, 31, 32, 33, 63, 64, 0x7fffffff, 0x80000000, 0xffffffff, 0x100000000, 1 << 63, ^uint64(0),
	0xaaaaaaaaaaaaaaaa, 0x5555555555555555, 0x7fffffffffffffff, 0xffffffff00000000, 0x123456789abcdef0, 0xfffffffffffffffe}
var c03vF32 = []uint32{0, 0x80000000, 0x3f800000, 0xbf800000, 0x3f000000, 0x40000000, 0x40400000, 0x3fc00000, 0x40200000,
	0x3dcccccd, 0x7f800000, 0xff800000, 0x7fc00000, 1, 0x007fffff, 0x00800000, 0x7f7fffff, 0xff7fffff, 0x4f000000,
	0x4f800000, 0xcf000000, 0x4b800001, 0x4b7fffff, 0x1e3ce508, 0x47f12065, 0xc0200000, 0x3effffff, 0x80000001, 0x4effffff, 0x5f000000}
var c03vF64 = []uint64{0, 1 << 63, 0x3ff0000000000000, 0xbff0000000000000, 0x3fe0000000000000, 0x4000000000000000,
	0x4008000000000000, 0x3ff8000000000000, 0x3fb999999999999a, 0x7ff0000000000000, 0xfff0000000000000, 0x7ff8000000000000,
	1, 0x000fffffffffffff, 0x0010000000000000, 0x7fefffffffffffff, 0xffefffffffffffff, 0x41e0000000000000, 0x41f0000000000000,
	0x4340000000000001, 0x3ca0000000000000, 0x3ff0000000000001, 0xc004000000000000, 0x47efffffe0000000, 0x36a0000000000000, 0x380fffffc0000000}

func isNaN32(x uint32) bool { return x&0x7f800000 == 0x7f800000 && x&0x007fffff != 0 }
func isNaN64(x uint64) bool {
	return x&0x7ff0000000000000 == 0x7ff0000000000000 && x&0x000fffffffffffff != 0
}

// operand typing from the instruction name -------------------------------------------

type c03vSig struct {
	w     [3]int // source widths
	wd    int    // destination width (0 = lane mask only)
	fl    [3]bool
	dstFl string // "" | f16 | f32 | f64 : result produced by float arithmetic (NaN canonicalised)
	nsrc  int
}

var c03vTyTok = regexp.MustCompile(`_(f16|f32|f64|i16|u16|b16|i32|u32|b32|i64|u64|b64|i24|u24|ubyte[0-3])`)

func c03vTyWidth(t string) (int, bool) {
	switch t {
	case "f64":
		return 64, true
	case "i64", "u64", "b64":
		return 64, false
	case "f32", "f16":
		return 32, true
	}
	return 32, false
}

func c03vSignature(name string, inst *insts.Inst) c03vSig {
	var s c03vSig
	toks := c03vTyTok.FindAllStringSubmatch(name, -1)
	var ty []string
	for _, t := range toks {
		ty = append(ty, t[1])
	}
	if len(ty) == 0 {
		ty = []string{"b32"}
	}
	dstT, srcT := ty[0], ty[len(ty)-1]
	ws, fs := c03vTyWidth(srcT)
	wd, fd := c03vTyWidth(dstT)
	for i := 0; i < 3; i++ {
		s.w[i], s.fl[i] = ws, fs
	}
	s.wd = wd
	if fd && !strings.Contains(name, "min") && !strings.Contains(name, "max") && !strings.Contains(name, "med3") &&
		!strings.Contains(name, "cndmask") && !strings.Contains(name, "mov") && !strings.Contains(name, "cmp") {
		s.dstFl = dstT
	}
	s.nsrc = 0
	if inst.Src0 != nil {
		s.nsrc = 1
	}
	if inst.Src1 != nil {
		s.nsrc = 2
	}
	if inst.Src2 != nil {
		s.nsrc = 3
	}
	switch {
	case strings.Contains(name, "cmp"):
		s.wd = 0
		if strings.Contains(name, "class") {
			s.fl[1] = false
			s.w[1] = 32
		}
	case strings.Contains(name, "lshlrev_b64"), strings.Contains(name, "lshrrev_b64"), strings.Contains(name, "ashrrev_i64"):
		s.w[0] = 32
	case name == "v_mad_u64_u32":
		s.w = [3]int{32, 32, 64}
		s.wd = 64
	case name == "v_lshl_add_u64":
		s.w = [3]int{64, 32, 64}
	case name == "v_cvt_f16_f32":
		s.dstFl = "f16"
	case name == "v_mov_b64":
		s.w[0], s.wd = 64, 64
	}
	return s
}

// ---------------------------------------------------------------- case construction

type c03vCase struct {
	op    c03vOp
	buf   []byte
	cells []string // pre-state tokens in the order they were set
	feat  map[string]bool
	sig   c03vSig
	inst  *insts.Inst
	skip  string
}

type c03vGen struct {
	e      *aluEnv
	rng    *Rng
	c      *c03vCase
	usedV  map[int]bool
	scalar int // scalar (constant-bus) sources used so far
}

func (g *c03vGen) setV(r, lane int, x uint32) {
	g.e.setV(lane, r, x)
	g.c.cells = append(g.c.cells, fmt.Sprintf("v%d[%d]=%x", r, lane, x))
}
func (g *c03vGen) setS(i int, x uint32) {
	g.e.setS(i, x)
	g.c.cells = append(g.c.cells, fmt.Sprintf("s%d=%x", i, x))
}
func (g *c03vGen) setVCC(x uint64) {
	g.e.wf.SetVCC(x)
	g.c.cells = append(g.c.cells, fmt.Sprintf("vcc=%x", x))
}
func (g *c03vGen) setEXEC(x uint64) {
	g.e.wf.SetEXEC(x)
	g.c.cells = append(g.c.cells, fmt.Sprintf("exec=%x", x))
}
func (g *c03vGen) setM0(x uint32) {
	g.e.wf.M0 = x
	g.c.cells = append(g.c.cells, fmt.Sprintf("m0=%x", x))
}
func (g *c03vGen) setMem(a uint64, b []byte) {
	for i, x := range b {
		g.e.mem.m[a+uint64(i)] = x
	}
	g.c.cells = append(g.c.cells, fmt.Sprintf("mem[%x]=%s", a, hexb(b)))
}
func (g *c03vGen) setLDS(a int, b []byte) {
	copy(g.e.lds[a:], b)
	g.c.cells = append(g.c.cells, fmt.Sprintf("lds[%x]=%s", a, hexb(b)))
}

// freshV picks an even VGPR number not used yet in this case (pairs never overlap).
func (g *c03vGen) freshV() int {
	for {
		r := 2 * g.rng.Intn(120)
		if g.rng.Chance(15) {
			r = 2 * g.rng.Intn(8)
		}
		if !g.usedV[r] {
			g.usedV[r] = true
			return r
		}
	}
}

func (g *c03vGen) val(width int, fl bool) uint64 {
	if g.rng.Chance(12) {
		x := g.rng.U64()
		if fl && width == 32 && isNaN32(uint32(x)) {
			x = 0x3f800000
		}
		if fl && width == 64 && isNaN64(x) {
			x = 0x3ff0000000000000
		}
		return x
	}
	switch {
	case fl && width == 64:
		return c03vF64[g.rng.Intn(len(c03vF64))]
	case fl:
		return uint64(c03vF32[g.rng.Intn(len(c03vF32))])
	case width == 64:
		return c03vInt64[g.rng.Intn(len(c03vInt64))]
	default:
		return uint64(c03vInt32[g.rng.Intn(len(c03vInt32))])
	}
}

func (g *c03vGen) noteVal(width int, fl bool, x uint64) {
	if fl && ((width == 64 && isNaN64(x)) || (width == 32 && isNaN32(uint32(x)))) {
		g.c.feat["nan"] = true
	}
	if fl && (x == 0) {
		g.c.feat["poszero"] = true
	}
	if fl && ((width == 64 && x == 1<<63) || (width == 32 && x == 0x80000000)) {
		g.c.feat["negzero"] = true
	}
	if g.c.feat["poszero"] && g.c.feat["negzero"] {
		g.c.feat["signedzero"] = true
	}
}

// lanes: the active lanes and a few observed inactive ones.
func (g *c03vGen) pickLanes(full bool) (active, observed []int, exec uint64) {
	rng := g.rng
	if full {
		for i := 0; i < 64; i++ {
			active = append(active, i)
		}
		return active, nil, ^uint64(0)
	}
	switch rng.Intn(10) {
	case 0:
		active = []int{0}
	case 1:
		active = []int{0, 63}
	case 2:
		active = nil // EXEC = 0
	case 3:
		active = []int{0, 1, 2, 3}
	default:
		n := rng.Range(1, 5)
		seen := map[int]bool{}
		for len(active) < n {
			l := rng.Intn(64)
			if rng.Chance(20) {
				l = rng.Pick(0, 31, 32, 63)
			}
			if !seen[l] {
				seen[l] = true
				active = append(active, l)
			}
		}
		sort.Ints(active)
	}
	in := map[int]bool{}
	for _, l := range active {
		exec |= 1 << uint(l)
		in[l] = true
	}
	for len(observed) < 2 {
		l := rng.Intn(64)
		if rng.Chance(30) {
			l = rng.Pick(0, 1, 62, 63)
		}
		if !in[l] {
			in[l] = true
			observed = append(observed, l)
		}
	}
	return
}

// source picks a 9-bit source operand of the given width and fills its registers.
// kinds: VGPR, SGPR (pair), inline int (also negative), inline float, literal, VCC, EXEC, M0.
func (g *c03vGen) source(width int, fl bool, lanes []int, allowLit, allowScalar, vgprOnly bool) (code uint32, lit uint32, hasLit bool) {
	rng := g.rng
	k := rng.Intn(100)
	if vgprOnly {
		k = 0
	}
	if !allowScalar || g.scalar > 0 {
		// at most one constant-bus source per instruction
		if k >= 50 && k < 62 || k >= 86 {
			k = 0
		}
	}
	switch {
	case k < 50: // VGPR
		r := g.freshV()
		for _, l := range lanes {
			x := g.val(width, fl)
			g.noteVal(width, fl, x)
			g.setV(r, l, uint32(x))
			if width == 64 {
				g.setV(r+1, l, uint32(x>>32))
			}
		}
		return 256 + uint32(r), 0, false
	case k < 62: // SGPR
		g.scalar++
		i := 2 * rng.Intn(50)
		x := g.val(width, fl)
		g.noteVal(width, fl, x)
		g.setS(i, uint32(x))
		if width == 64 {
			g.setS(i+1, uint32(x>>32))
		}
		return uint32(i), 0, false
	case k < 70: // inline positive integer
		return 128 + uint32(rng.Pick(0, 1, 2, 31, 32, 33, 63, 64, rng.Intn(65))), 0, false
	case k < 80: // inline negative integer
		g.c.feat["neginline"] = true
		return 193 + uint32(rng.Pick(0, 1, 15, rng.Intn(16))), 0, false
	case k < 86: // inline float
		if !fl {
			return 128 + uint32(rng.Intn(65)), 0, false
		}
		if width == 64 {
			g.c.feat["inlinef64"] = true
		}
		return 240 + uint32(rng.Intn(9)), 0, false
	case k < 92: // literal
		if !allowLit || width == 64 {
			return 128 + uint32(rng.Intn(65)), 0, false
		}
		g.scalar++
		x := g.val(32, fl)
		g.noteVal(32, fl, x)
		return 255, uint32(x), true
	case k < 95: // VCC (64-bit operands only: 32-bit reads of vcc_lo / exec_lo belong to C07)
		if width != 64 {
			return 128 + uint32(rng.Intn(65)), 0, false
		}
		g.scalar++
		return 106, 0, false
	case k < 97: // EXEC
		if width != 64 {
			return 128 + uint32(rng.Intn(65)), 0, false
		}
		g.scalar++
		return 126, 0, false
	default: // M0
		if width == 64 {
			return 128 + uint32(rng.Intn(65)), 0, false
		}
		g.scalar++
		x := g.val(32, fl)
		g.noteVal(32, fl, x)
		g.setM0(uint32(x))
		return 124, 0, false
	}
}

func (g *c03vGen) fillDst(r int, width int, lanes []int) {
	for _, l := range lanes {
		g.setV(r, l, uint32(g.rng.U64()))
		if width == 64 {
			g.setV(r+1, l, uint32(g.rng.U64()))
		}
	}
}

func (g *c03vGen) pickSDst() uint32 {
	if g.rng.Chance(35) {
		return 106
	}
	i := 2 * g.rng.Intn(50)
	g.setS(i, uint32(g.rng.U64()))
	g.setS(i+1, uint32(g.rng.U64()))
	return uint32(i)
}

func containsAny(s string, subs ...string) bool {
	for _, x := range subs {
		if strings.Contains(s, x) {
			return true
		}
	}
	return false
}

// build constructs one case for a vector-ALU opcode. variant: "" | "sdwa".
func (g *c03vGen) buildVALU(op c03vOp, variant string, full bool) {
	rng := g.rng
	c := g.c
	probe, err := g.e.decodeFor(op.arch, c03vBenign(op.format, op.op))
	if err != nil {
		c.skip = "decode"
		return
	}
	sg := c03vSignature(op.name, probe)
	c.sig = sg
	active, observed, exec := g.pickLanes(full)
	lanes := append(append([]int{}, active...), observed...)
	g.setEXEC(exec)
	vcc := rng.U64()
	if rng.Chance(20) {
		vcc = uint64(rng.Pick(0, 1)) * ^uint64(0)
	}
	g.setVCC(vcc)
	g.e.wf.SetPC(0x1000)
	c.cells = append(c.cells, "pc=1000")
	g.e.wf.SetSCC(byte(rng.Intn(2)))
	c.cells = append(c.cells, fmt.Sprintf("scc=%d", g.e.wf.SCC()))
	name := op.name
	readsVCC := containsAny(name, "cndmask", "addc", "subb", "div_fmas")
	if readsVCC && op.format == "vop2" {
		g.scalar++ // the implicit VCC read occupies the constant bus
	}
	f := map[string]uint32{}
	d := desc{format: op.format, op: op.op, f: f}
	dstR := g.freshV()
	switch op.format {
	case "vop2":
		if variant == "sdwa" {
			c.feat["sdwa"] = true
			r0 := g.freshV()
			r1 := g.freshV()
			for _, l := range lanes {
				g.setV(r0, l, uint32(g.val(32, false)))
				g.setV(r1, l, uint32(g.val(32, false)))
			}
			f["src0"], f["vsrc1"] = 249, uint32(r1)
			sel := func() uint32 {
				if sg.fl[0] {
					return 6
				}
				return uint32(rng.Intn(7))
			}
			dsel, unused := sel(), uint32(rng.Intn(3))
			d.hasLit = true
			d.literal = uint32(r0) | dsel<<8 | unused<<11 | sel()<<16 | sel()<<24
		} else {
			code, lit, has := g.source(sg.w[0], sg.fl[0], lanes, !containsAny(name, "madmk", "madak", "fmamk", "fmaak"), true, false)
			f["src0"] = code
			d.literal, d.hasLit = lit, has
			r1 := g.freshV()
			for _, l := range lanes {
				x := g.val(32, sg.fl[1])
				g.noteVal(32, sg.fl[1], x)
				g.setV(r1, l, uint32(x))
			}
			f["vsrc1"] = uint32(r1)
			if containsAny(name, "madmk", "madak", "fmamk", "fmaak") {
				x := g.val(32, true)
				g.noteVal(32, true, x)
				d.literal, d.hasLit = uint32(x), true
			}
		}
		f["vdst"] = uint32(dstR)
		if containsAny(name, "mac_f32", "fmac_f32") {
			for _, l := range lanes {
				x := g.val(32, true)
				g.noteVal(32, true, x)
				g.setV(dstR, l, uint32(x))
			}
		} else {
			g.fillDst(dstR, 32, lanes)
		}
	case "vop1":
		vonly := containsAny(name, "readfirstlane", "movrel")
		code, lit, has := g.source(sg.w[0], sg.fl[0], lanes, true, true, vonly)
		f["src0"] = code
		d.literal, d.hasLit = lit, has
		if strings.Contains(name, "readfirstlane") {
			i := rng.Intn(100)
			g.setS(i, uint32(rng.U64()))
			f["vdst"] = uint32(i)
		} else if strings.Contains(name, "movrel") {
			m := uint32(rng.Intn(4))
			g.setM0(m)
			for _, l := range lanes {
				g.setV(int(code-256)+int(m), l, uint32(rng.U64()))
			}
			f["vdst"] = uint32(dstR)
			g.fillDst(dstR, 32, lanes)
			g.fillDst(dstR+int(m), 32, lanes)
		} else {
			f["vdst"] = uint32(dstR)
			g.fillDst(dstR, sg.wd, lanes)
		}
	case "vopc":
		code, lit, has := g.source(sg.w[0], sg.fl[0], lanes, true, true, false)
		f["src0"] = code
		d.literal, d.hasLit = lit, has
		r1 := g.freshV()
		for _, l := range lanes {
			x := g.val(sg.w[1], sg.fl[1])
			g.noteVal(sg.w[1], sg.fl[1], x)
			g.setV(r1, l, uint32(x))
			if sg.w[1] == 64 {
				g.setV(r1+1, l, uint32(x>>32))
			}
		}
		f["vsrc1"] = uint32(r1)
	case "vop3a", "vop3b":
		isCmp := sg.wd == 0
		isB := op.format == "vop3b"
		nsrc := sg.nsrc
		if nsrc == 0 {
			nsrc = 2
		}
		keys := []string{"src0", "src1", "src2"}
		for i := 0; i < 3; i++ {
			if i >= nsrc {
				break
			}
			if i == 2 && (containsAny(name, "cndmask", "addc", "subb")) {
				// lane-mask source: an SGPR pair or VCC
				if rng.Chance(40) {
					f[keys[i]] = 106
				} else {
					s := 2 * rng.Intn(50)
					m := rng.U64()
					g.setS(s, uint32(m))
					g.setS(s+1, uint32(m>>32))
					f[keys[i]] = uint32(s)
				}
				g.scalar++
				continue
			}
			code, _, _ := g.source(sg.w[i], sg.fl[i], lanes, false, !readsVCC || i == 2, false)
			if name == "v_lshl_add_u64" && i == 1 {
				// mostly the shift range compilers emit (0..4); one case in eight a count of 8 or more, where
				// S1[5:0] (both ALUs) and S1[2:0] (ISA) differ: *_runVLSHLADDU64_refuted in Props/C03VConf.lean.
				// One draw, as before; k%5 for k < 35 is the value the earlier generator drew.
				k := rng.Intn(40)
				if k < 35 {
					code = 128 + uint32(k%5)
				} else {
					code = 128 + []uint32{8, 9, 16, 33, 63}[k-35]
				}
			}
			f[keys[i]] = code
		}
		if isCmp {
			sd := g.pickSDst()
			f["vdst"] = sd
		} else {
			f["vdst"] = uint32(dstR)
			g.fillDst(dstR, sg.wd, lanes)
		}
		if isB {
			f["sdst"] = g.pickSDst()
		}
		anyFl := sg.fl[0] || sg.fl[1] || sg.fl[2]
		if !isB && anyFl && rng.Chance(35) {
			f["abs"] = uint32(rng.Intn(1 << uint(nsrc)))
			f["neg"] = uint32(rng.Intn(1 << uint(nsrc)))
			if f["abs"] != 0 || f["neg"] != 0 {
				c.feat["mod"] = true
			}
		}
		if !isB && sg.dstFl != "" && sg.dstFl != "f16" && !isCmp && rng.Chance(8) {
			f["clamp"] = 1
			c.feat["clamp"] = true
		}
		if op.format == "vop3b" {
			d.format = "vop3b"
		} else {
			d.format = "vop3a"
		}
	}
	c.buf = encodeDesc(d)
}

// buildMem constructs one SMEM / FLAT / DS case.
func (g *c03vGen) buildMem(op c03vOp, full bool) {
	rng := g.rng
	c := g.c
	f := map[string]uint32{}
	d := desc{format: op.format, op: op.op, f: f}
	active, observed, exec := g.pickLanes(full)
	lanes := append(append([]int{}, active...), observed...)
	g.setEXEC(exec)
	g.setVCC(rng.U64())
	switch op.format {
	case "smem":
		n := 1 << op.op // dwords
		sb := 2 * rng.Intn(50)
		base := []uint64{0x1000, 0x20000, 0xfffffff0, 0x7fff00001000, 0xffffffffffffff00}[rng.Intn(5)]
		g.setS(sb, uint32(base))
		g.setS(sb+1, uint32(base>>32))
		f["sbase"] = uint32(sb / 2)
		sd := (rng.Intn(96-n) / n) * n
		if n == 1 {
			sd = rng.Intn(100)
		}
		f["sdata"] = uint32(sd)
		for i := 0; i < n; i++ {
			if sd+i != sb && sd+i != sb+1 {
				g.setS(sd+i, uint32(rng.U64()))
			}
		}
		var off uint64
		if rng.Chance(70) {
			f["imm"] = 1
			off = uint64(rng.Pick(0, 4, 8, 0x40, 0xffc, 0x7fffc, rng.Intn(1<<17)*4))
			if op.arch == "cdna3" && rng.Chance(12) {
				// 21-bit signed immediate on GFX9
				neg := int64(-4 * int64(rng.Range(1, 64)))
				f["offset"] = uint32(neg) & 0x1fffff
				off = uint64(neg)
				c.feat["negoffset"] = true
			} else {
				f["offset"] = uint32(off)
			}
		} else {
			so := 2 * rng.Intn(50)
			for so == sb || so == sb+1 {
				so = 2 * rng.Intn(50)
			}
			off = uint64(rng.Pick(0, 4, 0x100, 0xfff0, rng.Intn(1<<20)*4))
			g.setS(so, uint32(off))
			f["offset"] = uint32(so)
		}
		if rng.Chance(15) { // misaligned: the two low bits of the sum are ignored
			mis := uint64(rng.Range(1, 3))
			if _, imm := f["imm"]; imm && off < 0xffff0 && rng.Chance(50) {
				off += mis
				f["offset"] = uint32(off)
			} else {
				base += mis
				g.setS(sb, uint32(base))
				g.setS(sb+1, uint32(base>>32))
			}
		}
		addr := (base + off) &^ 3
		g.setMem(addr-4, rng.Bytes(4))
		g.setMem(addr, rng.Bytes(4*n))
		g.setMem(addr+uint64(4*n), rng.Bytes(4))
	case "flat":
		ra := g.freshV()
		rd := g.freshV()
		for g.usedV[rd+2] || rd+4 > 250 {
			rd = g.freshV()
		}
		g.usedV[rd+2] = true
		rv := g.freshV()
		for g.usedV[rv+2] || rv+4 > 250 {
			rv = g.freshV()
		}
		g.usedV[rv+2] = true
		f["addr"], f["data"], f["vdst"] = uint32(ra), uint32(rd), uint32(rv)
		var off int64
		var sbase uint64
		useS := false
		if op.arch == "cdna3" {
			seg := uint32(rng.Pick(0, 2, 2))
			if seg == 0 {
				off = int64(rng.Pick(0, 0, 4, 1, 0x7ff, 0xfff))
				f["offset"] = uint32(off)
			} else {
				off = int64(rng.Pick(0, 0, 4, -4, 1, -1, 4095, -4096, rng.Range(-4096, 4095)))
				f["offset"] = uint32(off)&0x1fff | seg<<14
				if off < 0 {
					c.feat["negoffset"] = true
				}
			}
			f["saddr"] = 0x7f
			if seg == 0 && rng.Chance(30) {
				// FLAT segment: SADDR is unused, whatever it names (gfx803-encoded code leaves it 0)
				s := 2 * rng.Intn(50)
				g.setS(s, 0x100000)
				g.setS(s+1, 0)
				f["saddr"] = uint32(s)
				c.feat["flatsaddr"] = true
			}
			if seg == 2 && rng.Chance(45) {
				useS = true
				s := 2 * rng.Intn(50)
				sbase = []uint64{0x100000, 0x7fff00000000, 0xfffff000}[rng.Intn(3)]
				g.setS(s, uint32(sbase))
				g.setS(s+1, uint32(sbase>>32))
				f["saddr"] = uint32(s)
				c.feat["saddr"] = true
			}
		} else {
			// gfx803 code leaves OFFSET and SADDR zero; the GCN3 ALU also accepts the GFX9 forms
			// (signed 13-bit offset in any segment, scalar base unless SADDR is 0x7F or 0)
			f["saddr"] = uint32(rng.Pick(0, 0, 0x7f))
			if rng.Chance(50) {
				off = int64(rng.Pick(4, -4, 1, -1, 4095, -4096, 8, rng.Range(-4096, 4095)))
				f["offset"] = uint32(off)&0x1fff | uint32(rng.Pick(0, 0, 2))<<14
				c.feat["gcn3offset"] = true
				if off < 0 {
					c.feat["negoffset"] = true
				}
			}
			if rng.Chance(30) {
				useS = true
				s := 2 * rng.Range(1, 49)
				sbase = []uint64{0x100000, 0x7fff00000000, 0xfffff000}[rng.Intn(3)]
				g.setS(s, uint32(sbase))
				g.setS(s+1, uint32(sbase>>32))
				f["saddr"] = uint32(s)
				c.feat["saddr"] = true
			}
		}
		hi := uint32(rng.Pick(0, 0, 0x7fff, 1))
		for k, l := range lanes {
			lo := uint32(0x10000 + k*0x100 + rng.Pick(0, 0, 4, 1, 2, 3, 0x20))
			if rng.Chance(5) {
				lo = 0xfffffff0 - uint32(k*0x100)
			}
			g.setV(ra, l, lo)
			g.setV(ra+1, l, hi)
			var a uint64
			if useS {
				a = sbase + uint64(lo)
			} else {
				a = uint64(hi)<<32 | uint64(lo)
			}
			a += uint64(off)
			g.setMem(a-2, rng.Bytes(2))
			g.setMem(a, rng.Bytes(16))
			for j := 0; j < 4; j++ {
				g.setV(rd+j, l, uint32(rng.U64()))
				g.setV(rv+j, l, uint32(rng.U64()))
			}
		}
	case "ds":
		ra := g.freshV()
		regs := make([]int, 3)
		for i := range regs {
			r := g.freshV()
			for g.usedV[r+2] || r+4 > 250 {
				r = g.freshV()
			}
			g.usedV[r+2] = true
			regs[i] = r
		}
		f["addr"], f["data0"], f["data1"], f["vdst"] = uint32(ra), uint32(regs[0]), uint32(regs[1]), uint32(regs[2])
		two := strings.Contains(op.name, "2_b") || strings.Contains(op.name, "2st64")
		slot := 4096
		maxOff := 255
		if len(lanes) > 14 {
			slot, maxOff = 1000, 40
		}
		var o0, o1 int
		if two {
			o0, o1 = rng.Intn(maxOff+1), rng.Intn(maxOff+1)
			for o1 == o0 {
				o1 = rng.Intn(maxOff + 1)
			}
			f["offset0"], f["offset1"] = uint32(o0), uint32(o1)
		} else {
			o := rng.Pick(0, 0, 4, 8, 1, 0x100, 0x7fc, rng.Intn(2000))
			if len(lanes) > 14 {
				o = rng.Pick(0, 4, 8, 16, rng.Intn(300))
			}
			f["offset0"], f["offset1"] = uint32(o&0xff), uint32(o>>8)
			o0 = o
		}
		if op.arch == "gcn3" {
			g.setM0(uint32(rng.Pick(0xffffffff, 0x10000, 0xffff)))
		}
		for k, l := range lanes {
			base := k*slot + rng.Pick(0, 4, 8, 16, 64, 1, 2, rng.Intn(100)*4)
			g.setV(ra, l, uint32(base))
			for j := 0; j < 4; j++ {
				g.setV(regs[0]+j, l, uint32(rng.U64()))
				g.setV(regs[1]+j, l, uint32(rng.U64()))
				g.setV(regs[2]+j, l, uint32(rng.U64()))
			}
			if two {
				es := 4
				if strings.Contains(op.name, "b64") {
					es = 8
				}
				g.setLDS(base+o0*es, rng.Bytes(es))
				g.setLDS(base+o1*es, rng.Bytes(es))
			} else {
				g.setLDS(base+o0, rng.Bytes(16))
			}
		}
	}
	c.buf = encodeDesc(d)
}

// canonNaN rewrites NaN results of float-arithmetic instructions to the canonical quiet NaN:
// NaN payloads are hardware-defined and not part of the comparison.
func (e *aluEnv) c03vCanonNaN(c *c03vCase) {
	if c.sig.dstFl == "" || c.inst == nil || c.inst.Dst == nil || c.inst.Dst.Register == nil || !c.inst.Dst.Register.IsVReg() {
		return
	}
	r := c.inst.Dst.Register.RegIndex()
	exec := e.wf.EXEC()
	for l := 0; l < 64; l++ {
		if exec&(1<<uint(l)) == 0 {
			continue
		}
		switch c.sig.dstFl {
		case "f32":
			if isNaN32(e.getV(l, r)) {
				e.setV(l, r, 0x7fc00000)
			}
		case "f64":
			if r+1 < 256 {
				x := uint64(e.getV(l, r)) | uint64(e.getV(l, r+1))<<32
				if isNaN64(x) {
					e.setV(l, r, 0)
					e.setV(l, r+1, 0x7ff80000)
				}
			}
		case "f16":
			x := e.getV(l, r)
			if x&0x7c00 == 0x7c00 && x&0x3ff != 0 {
				e.setV(l, r, x&0xffff0000|0x7e00)
			}
		}
	}
}

var c03vCellRe = regexp.MustCompile(`^(scc|s|vcc|v|exec|pc|m0|lds|mem)`)

// aspect names the class of the first cell on which two deltas differ.
func c03vAspect(impl, spec string, valu bool) string {
	if strings.HasPrefix(impl, "fault:") {
		return "fault"
	}
	pm := func(s string) map[string]string {
		m := map[string]string{}
		for _, t := range strings.Fields(s) {
			if kv := strings.SplitN(t, "=", 2); len(kv) == 2 {
				m[kv[0]] = kv[1]
			}
		}
		return m
	}
	a, b := pm(impl), pm(spec)
	var keys []string
	for k := range a {
		if b[k] != a[k] {
			keys = append(keys, k)
		}
	}
	for k := range b {
		if _, ok := a[k]; !ok {
			keys = append(keys, k)
		}
	}
	cls := map[string]bool{}
	for _, k := range keys {
		cls[c03vCellRe.FindString(k)] = true
	}
	for _, k := range []string{"exec", "scc", "pc", "m0", "mem", "lds", "v", "vcc", "s"} {
		if cls[k] {
			switch k {
			case "v":
				return "dst"
			case "s":
				if valu {
					return "sdst"
				}
				return "dst"
			}
			return k
		}
	}
	return "other"
}

// c03vOnlyZeroSign reports whether two deltas differ only in cells whose values are +0 / -0.
func c03vOnlyZeroSign(impl, spec string) bool {
	pm := func(s string) map[string]string {
		m := map[string]string{}
		for _, t := range strings.Fields(s) {
			if kv := strings.SplitN(t, "=", 2); len(kv) == 2 {
				m[kv[0]] = kv[1]
			}
		}
		return m
	}
	a, b := pm(impl), pm(spec)
	z := func(v string, ok bool) bool { return !ok || v == "0" || v == "80000000" }
	n := 0
	for k, v := range a {
		w, ok := b[k]
		if ok && w == v {
			continue
		}
		if !z(v, true) || !z(w, ok) {
			return false
		}
		n++
	}
	for k, w := range b {
		if _, ok := a[k]; !ok {
			if !z(w, true) {
				return false
			}
			n++
		}
	}
	return n > 0
}

func c03vFeature(c *c03vCase) string {
	for _, k := range []string{"sdwa", "clamp", "inlinef64", "nan", "neginline", "signedzero", "mod", "negoffset"} {
		if c.feat[k] {
			return "." + k
		}
	}
	return ""
}

func c03vDriverPath() string {
	if p := os.Getenv("VERIF_DRIVER"); p != "" {
		return p
	}
	exe, err := os.Executable()
	if err != nil {
		return ""
	}
	p := filepath.Join(filepath.Dir(exe), "..", "..", "lean", ".lake", "build", "bin", "drv_c03")
	if _, err := os.Stat(p); err != nil {
		return ""
	}
	return p
}

// c03vSpec runs the Lean driver on the case lines and returns its answers.
func c03vSpec(r *Run, lines []string) []string {
	p := c03vDriverPath()
	if p == "" {
		r.Note("c03v: Lean driver not found; implementation-vs-spec oracle skipped (correspondence only)")
		return nil
	}
	cmd := exec.Command(p)
	cmd.Stdin = bytes.NewReader([]byte(strings.Join(lines, "\n") + "\n"))
	var out bytes.Buffer
	cmd.Stdout = &out
	if err := cmd.Run(); err != nil {
		r.Note("c03v: Lean driver failed: %v", err)
		return nil
	}
	res := strings.Split(strings.TrimRight(out.String(), "\n"), "\n")
	if len(res) != len(lines) {
		r.Note("c03v: Lean driver returned %d lines for %d cases", len(res), len(lines))
		return nil
	}
	return res
}

func runC03V(r *Run, rng *Rng, replay string) {
	log.SetOutput(io.Discard)
	e := newALUEnv()
	ops := c03vEnumerate(e)
	r.CountN("c03v:implemented-opcodes", len(ops))
	perOp, perSDWA := 100, 20
	if r.Tier == "thorough" {
		perOp, perSDWA = 1000, 150
	}
	only := os.Getenv("C03V_ONLY")
	type rec struct {
		c    *c03vCase
		line string
		impl string
	}
	var recs []rec
	one := func(op c03vOp, variant string, full bool) {
		c := &c03vCase{op: op, feat: map[string]bool{}}
		g := &c03vGen{e: e, rng: rng, c: c, usedV: map[int]bool{}}
		e.reset()
		valu := op.format != "smem" && op.format != "flat" && op.format != "ds"
		if valu {
			g.buildVALU(op, variant, full)
		} else {
			g.buildMem(op, full)
		}
		if c.skip != "" {
			r.Count("c03v:skip:" + c.skip)
			return
		}
		var inst *insts.Inst
		fault := c03vCatch(func() {
			var err error
			inst, err = e.decodeFor(op.arch, c.buf)
			if err != nil {
				panic("decode: " + err.Error())
			}
		})
		if fault != "" {
			// the decoder refuses this encoding (e.g. an SDWA modifier): outside the supported subset
			r.Count("c03v:skip:decoder-refuses")
			return
		}
		c.inst = inst
		before := e.snapshot()
		fault = e.c03vRun(op.arch, inst)
		var impl string
		if fault != "" {
			if strings.Contains(fault, "SDWA") && strings.Contains(fault, "not implemented") ||
				strings.Contains(fault, "Output modifiers are not supported") {
				r.Count("c03v:skip:alu-refuses-form")
				return
			}
			impl = "fault:" + classifyPanic(fault)
		} else {
			e.c03vCanonNaN(c)
			impl = delta(before, e.snapshot())
		}
		line := fmt.Sprintf("c03 v %s %s %s", op.arch, hexb(c.buf), strings.Join(c.cells, " "))
		recs = append(recs, rec{c, line, impl})
		r.Count("c03v:" + op.arch + ":" + op.format)
	}
	for _, op := range ops {
		if only != "" && !strings.Contains(op.arch+"."+op.name, only) {
			continue
		}
		n := perOp
		for i := 0; i < n; i++ {
			one(op, "", r.Tier == "thorough" && i%40 == 39)
		}
		if op.format == "vop2" {
			for i := 0; i < perSDWA; i++ {
				one(op, "sdwa", false)
			}
		}
	}
	lines := make([]string, len(recs))
	for i, x := range recs {
		lines[i] = x.line
	}
	spec := c03vSpec(r, lines)
	nospec := map[string]bool{}
	sigSeen := map[string]int{}
	for i, x := range recs {
		c := x.c
		valu := c.op.format != "smem" && c.op.format != "flat" && c.op.format != "ds"
		if spec == nil {
			r.Case(x.line, x.impl)
			continue
		}
		r.Checked("impl-delta-equals-isa-spec")
		switch {
		case spec[i] == "nospec":
			// no exact reference for this opcode (transcendental, packed, f16, div helpers): C06 only
			nospec[c.op.arch+"."+c.op.name] = true
			r.Count("c03v:no-exact-reference")
		case spec[i] == x.impl:
			r.Case(x.line, x.impl)
		default:
			ft := c03vFeature(c)
			if ft == "" && containsAny(c.op.name, "_min", "_max") && c03vOnlyZeroSign(x.impl, spec[i]) {
				ft = ".signedzero" // e.g. an inline constant 0 against a -0 register value
			}
			sig := fmt.Sprintf("C03.%s.%s.%s_%d.%s%s", c.op.arch, c.op.name, c.op.format, c.op.op, c03vAspect(x.impl, spec[i], valu), ft)
			if sigSeen[sig] < 3 { // a few concrete inputs per signature; the rest is counted
				r.Failf(sig, x.line, "impl=%s spec=%s", x.impl, spec[i])
			}
			sigSeen[sig]++
			r.Count("c03v:spec-mismatch")
		}
	}
	var ns []string
	for k := range nospec {
		ns = append(ns, k)
	}
	sort.Strings(ns)
	if len(ns) > 0 {
		r.Note("c03v: no exact reference (structural checks of C06 only): %s", strings.Join(ns, " "))
	}
	_ = binary.LittleEndian
	_ = math.Pi
}
