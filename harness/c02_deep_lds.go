package main

// C02, sixth replacement point — the LDS path. The emulator executes a DS instruction by
// `alu.SetLDS(wf.LDS); alu.Run(wf)`; the timing CU pushes the wavefront through DecodeUnit → LDSUnit
// (read / exec / write stage), whose exec stage does `alu.SetLDS(wf.WG.LDS); alu.Run(wf)` and whose write
// stage calls UpdatePCAndSetReady. Both real paths run here on the same pattern LDS and the same registers:
// real emu.ALUImpl / cdna3.ALU on an emu.Wavefront against a real cu.ComputeUnit (own Builder, ALU factory
// wrapping the real ALU with a call counter; hook amd/timing/cu/verif_export_c02lds.go for the pipeline
// registers). Lean model: MgpuModel/C02Lds.lean (`c02 lds …` lines).

import (
	"encoding/binary"
	"fmt"
	"io"
	"log"
	"os"
	"strings"

	"github.com/sarchlab/akita/v4/mem/mem"
	"github.com/sarchlab/akita/v4/sim"
	"github.com/sarchlab/mgpusim/v4/amd/emu"
	"github.com/sarchlab/mgpusim/v4/amd/emu/cdna3"
	"github.com/sarchlab/mgpusim/v4/amd/insts"
	"github.com/sarchlab/mgpusim/v4/amd/kernels"
	"github.com/sarchlab/mgpusim/v4/amd/timing/cu"
	"github.com/sarchlab/mgpusim/v4/amd/timing/wavefront"
)

func init() { register("C02", runC02Lds) }

// c02lALU delegates to the real ALU and records every Run (who, and which LDS buffer was installed).
type c02lALU struct {
	emu.ALU
	runs   []emu.InstEmuState
	ldsPtr []*byte
}

func (a *c02lALU) Run(s emu.InstEmuState) {
	a.runs = append(a.runs, s)
	var p *byte
	if l := a.ALU.LDS(); len(l) > 0 {
		p = &l[0]
	}
	a.ldsPtr = append(a.ldsPtr, p)
	a.ALU.Run(s)
}

func (a *c02lALU) reset() { a.runs, a.ldsPtr = nil, nil }

type c02lSide struct {
	cu  *cu.ComputeUnit
	alu *c02lALU
	ref emu.ALU // the emulator's ALU of the same architecture
}

type c02lEnv struct {
	ewf   *emu.Wavefront
	sides map[string]*c02lSide
	dis   *insts.Disassembler
	insts map[string]*insts.Inst
}

const (
	c02lVOff  = 64
	c02lRegs  = 32
	c02lDecoy = 8192
)

func c02lNewEnv() *c02lEnv {
	e := &c02lEnv{sides: map[string]*c02lSide{}, dis: insts.NewDisassembler(), insts: map[string]*insts.Inst{}}
	e.ewf = emu.NewWavefront(nil)
	e.ewf.VerifSetPID(1)
	for _, arch := range []string{"gcn3", "cdna3"} {
		s := &c02lSide{}
		arch := arch
		factory := func(sa emu.StorageAccessor) emu.ALU {
			var real emu.ALU = emu.NewALU(sa)
			if arch == "cdna3" {
				real = cdna3.NewALU(sa)
			}
			s.alu = &c02lALU{ALU: real}
			return s.alu
		}
		s.cu = cu.MakeBuilder().WithEngine(&fakeEngine{}).
			WithVectorMemModules(&mem.SinglePortMapper{Port: sim.RemotePort("VMemL")}).
			WithALUFactory(factory).Build("CUL" + arch)
		s.ref = emu.NewALU(nil)
		if arch == "cdna3" {
			s.ref = cdna3.NewALU(nil)
		}
		e.sides[arch] = s
	}
	return e
}

func c02lOpName(opc int) string {
	if n, ok := map[int]string{13: "write_b32", 14: "write2_b32", 30: "write_b8", 54: "read_b32", 55: "read2_b32",
		78: "write2_b64", 118: "read_b64", 119: "read2_b64", 223: "write_b128", 255: "read_b128"}[opc]; ok {
		return n
	}
	return fmt.Sprintf("op%d", opc)
}

// c02lShape: store?, bytes per access, two addresses?, offset scale
func c02lShape(opc int) (write bool, width int, two bool, mul int) {
	switch opc {
	case 13:
		return true, 4, false, 1
	case 14:
		return true, 4, true, 4
	case 30:
		return true, 1, false, 1
	case 54:
		return false, 4, false, 1
	case 55:
		return false, 4, true, 4
	case 78:
		return true, 8, true, 8
	case 118:
		return false, 8, false, 1
	case 119:
		return false, 8, true, 8
	case 223:
		return true, 16, false, 1
	}
	return false, 16, false, 1
}

type c02lCase struct {
	opc            int
	arch           string
	exec           uint64
	enc0, enc1     uint32 // encoded offset fields
	size           int
	seed           uint64
	ra, d0, d1, vd int
	vals           []uint32 // address register of the active lanes
	ticks          int
	dec            bool
}

func (e *c02lEnv) decode(c *c02lCase) *insts.Inst {
	key := fmt.Sprint(c.opc, c.enc0, c.enc1, c.ra, c.d0, c.d1, c.vd)
	if i, ok := e.insts[key]; ok {
		return i
	}
	i, err := e.dis.Decode(encodeDesc(desc{format: "ds", op: uint32(c.opc), f: map[string]uint32{
		"offset0": c.enc0, "offset1": c.enc1, "addr": uint32(c.ra), "data0": uint32(c.d0), "data1": uint32(c.d1), "vdst": uint32(c.vd)}}))
	if err != nil {
		panic(err)
	}
	e.insts[key] = i
	return i
}

// rf is the initial register file of the case (the Lean model's `caseRf`).
func (c *c02lCase) rf() func(l, r int) uint32 {
	var addr [64]uint32
	k := 0
	for l := 0; l < 64; l++ {
		if c.exec&(1<<uint(l)) != 0 && k < len(c.vals) {
			addr[l] = c.vals[k]
			k++
		} else {
			addr[l] = c02DataWord(c.seed, l, 99)
		}
	}
	return func(l, r int) uint32 {
		switch {
		case r == c.ra:
			return addr[l]
		case r >= c.d0 && r < c.d0+4:
			return c02DataWord(c.seed, l, r-c.d0)
		case r >= c.d1 && r < c.d1+4:
			return c02DataWord(c.seed, l, 4+r-c.d1)
		}
		return c02Prefill(l, r)
	}
}

func (c *c02lCase) line(inst *insts.Inst) string {
	var a []string
	for _, v := range c.vals {
		a = append(a, fmt.Sprintf("%x", v))
	}
	as := strings.Join(a, ",")
	if as == "" {
		as = "-"
	}
	dec := 0
	if c.dec {
		dec = 1
	}
	return fmt.Sprintf("c02 lds opc=%d arch=%s exec=%x off0=%d off1=%d size=%d seed=%d ra=%d d0=%d d1=%d vd=%d a=%s ticks=%d dec=%d",
		c.opc, c.arch, c.exec, inst.Offset0, inst.Offset1, c.size, c.seed, c.ra, c.d0, c.d1, c.vd, as, c.ticks, dec)
}

func c02lTSetV(c *cu.ComputeUnit, off, lane, reg int, v uint32) {
	c.VRegFile[1].Write(cu.RegisterAccess{Reg: insts.VReg(reg), RegCount: 1, LaneID: lane, WaveOffset: off, Data: insts.Uint32ToBytes(v)})
}

func c02lTGetV(c *cu.ComputeUnit, off, lane, reg int) uint32 {
	b := make([]byte, 4)
	c.VRegFile[1].Read(cu.RegisterAccess{Reg: insts.VReg(reg), RegCount: 1, LaneID: lane, WaveOffset: off, Data: b})
	return binary.LittleEndian.Uint32(b)
}

func c02lPattern(size int, seed uint64) []byte {
	b := make([]byte, size)
	for i := range b {
		b[i] = c02MemByte(seed, uint64(i))
	}
	return b
}

func c02lDiff(init, fin []byte) string {
	var out []string
	for i := 0; i < len(init); {
		if init[i] == fin[i] {
			i++
			continue
		}
		j := i
		for j < len(init) && init[j] != fin[j] {
			j++
		}
		out = append(out, fmt.Sprintf("%x:%s", i, hexb(fin[i:j])))
		i = j
	}
	if len(out) == 0 {
		return "-"
	}
	return strings.Join(out, " ")
}

func c02lVDelta(rf func(l, r int) uint32, get func(l, r int) uint32) string {
	var p []string
	for l := 0; l < 64; l++ {
		for r := 0; r < c02lRegs; r++ {
			if v := get(l, r); v != rf(l, r) {
				p = append(p, fmt.Sprintf("%d.%d=%x", l, r, v))
			}
		}
	}
	if len(p) == 0 {
		return "-"
	}
	return strings.Join(p, " ")
}

func (e *c02lEnv) newTimingWf(s *c02lSide, exec uint64, vOff int, inst *insts.Inst, lds []byte) *wavefront.Wavefront {
	wf := wavefront.NewWavefront(kernels.NewWavefront())
	wf.SIMDID = 1
	wf.VRegOffset = vOff
	wf.SetPID(1)
	wf.SetEXEC(exec)
	s.cu.VerifNewWavefront(wf)
	wf.WG = wavefront.NewWorkGroup(kernels.NewWorkGroup(), nil)
	wf.WG.LDS = lds
	wf.WG.Wfs = append(wf.WG.Wfs, wf)
	wf.SetDynamicInst(wavefront.NewInst(inst))
	wf.State = wavefront.WfRunning // what the issue stage leaves
	wf.SetPC(0x1000)
	return wf
}

// expectFault is the harness-side statement of the out-of-range condition (independent of the model).
func (c *c02lCase) outOfRange(inst *insts.Inst) bool {
	_, w, two, mul := c02lShape(c.opc)
	for _, v := range c.vals {
		a0 := v + inst.Offset0*uint32(mul)
		if uint64(a0)+uint64(w) > uint64(c.size) {
			return true
		}
		if two {
			a1 := v + inst.Offset1*uint32(mul)
			if uint64(a1)+uint64(w) > uint64(c.size) {
				return true
			}
		}
	}
	return false
}

func (e *c02lEnv) runInst(r *Run, c *c02lCase) {
	inst := e.decode(c)
	line := c.line(inst)
	s := e.sides[c.arch]
	rf := c.rf()
	lds0 := c02lPattern(c.size, c.seed)

	// ---- emulator: SetLDS(wf.LDS); Run(wf)
	for l := 0; l < 64; l++ {
		for q := 0; q < c02lRegs; q++ {
			binary.LittleEndian.PutUint32(e.ewf.VRegFile[l*1024+q*4:], rf(l, q))
		}
	}
	eLds := append(make([]byte, 0, c.size), lds0...)
	e.ewf.LDS = eLds
	e.ewf.VerifSetInst(inst)
	e.ewf.SetEXEC(c.exec)
	s.ref.SetLDS(e.ewf.LDS)
	ef := catch(func() { s.ref.Run(e.ewf) })
	eout := c02Fault(ef)
	if ef == "" {
		eout = c02lDiff(lds0, eLds) + " ; " + c02lVDelta(rf, func(l, q int) uint32 {
			return binary.LittleEndian.Uint32(e.ewf.VRegFile[l*1024+q*4:])
		})
	}

	// ---- timing: DecodeUnit → LDSUnit
	for l := 0; l < 64; l++ {
		for q := 0; q < c02lRegs; q++ {
			c02lTSetV(s.cu, c02lVOff, l, q, rf(l, q))
		}
	}
	s.cu.LDSUnit.Flush()
	s.cu.LDSDecoder.Flush()
	tLds := append(make([]byte, 0, c.size), lds0...)
	wf := e.newTimingWf(s, c.exec, c02lVOff, inst, tLds)
	decoy := make([]byte, c02lDecoy)
	s.alu.reset()
	s.alu.SetLDS(decoy) // whatever another unit / work-group left in the shared ALU
	if c.dec {
		s.cu.LDSDecoder.AcceptWave(wf)
	} else {
		s.cu.LDSUnit.AcceptWave(wf)
	}
	doneAt, tf := 0, ""
	for k := 1; k <= c.ticks; k++ {
		tf = catch(func() {
			s.cu.LDSUnit.Run()
			if c.dec {
				s.cu.LDSDecoder.Run()
			}
		})
		if tf != "" {
			break
		}
		if doneAt == 0 && wf.State == wavefront.WfReady {
			doneAt = k
		}
	}
	teff := c02lDiff(lds0, tLds) + " ; " + c02lVDelta(rf, func(l, q int) uint32 { return c02lTGetV(s.cu, c02lVOff, l, q) })
	pcAdv := wf.PC() - 0x1000
	var tout string
	switch {
	case tf != "":
		tout = c02Fault(tf)
		teff = tout
	case doneAt > 0:
		tout = fmt.Sprintf("%s run=%d done@%d pc+=%d", teff, len(s.alu.runs), doneAt, pcAdv)
	default:
		tout = fmt.Sprintf("%s run=%d done@- pc+=%d", teff, len(s.alu.runs), pcAdv)
	}
	r.Case(line, fmt.Sprintf("E %s | T %s", eout, tout))

	// ---- oracles on the two real sides
	name := c02lOpName(c.opc)
	r.Count("lds:" + name + ":" + c.arch)
	r.Count(fmt.Sprintf("lds:size=%d", c02lSizeBucket(c.size)))
	ran := len(s.alu.runs) > 0
	switch {
	case !ran:
		r.Count("lds:not-run-within-ticks")
	case ef != "" || tf != "":
		r.Count("lds:" + c02Fault(ef) + ":" + c.arch)
	case doneAt == 0:
		r.Count("lds:ran-not-completed")
	default:
		r.Count("lds:completed")
	}
	if ran {
		r.Checked("lds-emu-vs-timing")
		if eout != teff {
			r.Failf("C02.lds-differs."+name, line, "emulator: %s  timing: %s", eout, teff)
		}
		r.Checked("lds-buffer")
		if c.size > 0 && s.alu.ldsPtr[0] != &tLds[0] {
			r.Failf("C02.lds-wrong-buffer", line, "alu.Run saw an LDS buffer that is not wf.WG.LDS")
		}
		for _, b := range decoy {
			if b != 0 {
				r.Failf("C02.lds-wrong-buffer", line, "the buffer previously installed in the ALU was written")
				break
			}
		}
	}
	if ran && c02lSupported(c.arch, c.opc) {
		r.Checked("lds-bounds")
		if oor := c.outOfRange(inst); oor != (ef != "") || oor != (tf != "") {
			r.Failf("C02.lds-bounds", line, "out of range=%v emulator fault=%q timing fault=%q", oor, ef, tf)
		}
	}
	if tf == "" {
		r.Checked("lds-run-count")
		want := 0
		if doneAt > 0 {
			want = 1
		}
		if n := len(s.alu.runs); n > 1 || n < want || (n == 1 && s.alu.runs[0] != emu.InstEmuState(wf)) {
			r.Failf("C02.lds-run-count", line, "alu.Run called %d times (ready at tick %d of %d)", n, doneAt, c.ticks)
		}
		r.Checked("lds-pc")
		if doneAt > 0 {
			if pcAdv != uint64(inst.ByteSize) || wf.State != wavefront.WfReady {
				r.Failf("C02.lds-pc", line, "ready at tick %d: pc advanced by %d (ByteSize %d), state %d", doneAt, pcAdv, inst.ByteSize, wf.State)
			}
		} else if pcAdv != 0 || wf.State != wavefront.WfRunning {
			r.Failf("C02.lds-pc", line, "not completed after %d ticks but pc advanced by %d, state %d", c.ticks, pcAdv, wf.State)
		}
	}
}

func c02lSupported(arch string, opc int) bool {
	switch opc {
	case 13, 14, 30, 54, 55, 78, 118, 119:
		return true
	case 223, 255:
		return arch == "cdna3"
	}
	return false
}

func c02lSizeBucket(n int) int {
	for _, b := range []int{256, 512, 1024, 2048, 4096} {
		if n <= b {
			return b
		}
	}
	return 8192
}

func c02lGen(rng *Rng) *c02lCase {
	c := &c02lCase{arch: "gcn3", seed: uint64(rng.Intn(1 << 20))}
	c.opc = rng.Pick(13, 14, 30, 54, 55, 78, 118, 119)
	if rng.Chance(25) {
		c.arch = "cdna3"
		if rng.Chance(30) {
			c.opc = rng.Pick(223, 255)
		}
	} else if rng.Chance(2) {
		c.opc = rng.Pick(223, 255) // no GCN3 handler: both sides panic in runDS
	}
	_, w, two, mul := c02lShape(c.opc)
	switch rng.Intn(7) {
	case 0, 1:
		c.exec = ^uint64(0)
	case 2:
		c.exec = uint64(1) << uint(rng.Intn(64))
	case 3:
		c.exec = rng.U64() & rng.U64() & rng.U64()
	case 4:
		c.exec = 0
		if rng.Chance(70) {
			c.exec = (uint64(1) << uint(rng.Range(1, 63))) - 1
		}
	default:
		c.exec = rng.U64()
	}
	c.size = rng.Pick(256, 256, 512, 1024, 2048, 4096, 4096, 320, 1000, 1023, 4092)
	// offsets
	if two {
		c.enc0 = uint32(rng.Pick(0, 0, 1, 2, 3, 16, 31, 255, rng.Intn(256)))
		c.enc1 = uint32(rng.Pick(0, 1, 1, 2, 4, 17, 255, rng.Intn(256), int(c.enc0)))
		if rng.Chance(88) { // keep most pairs inside a small LDS
			c.enc0 %= uint32(c.size/(mul*2) - 1)
			c.enc1 %= uint32(c.size/(mul*2) - 1)
		}
	} else {
		o := rng.Pick(0, 0, 0, 4, 8, 12, 64, 255, 256, 260, 1000, rng.Intn(c.size), 4095, 65535)
		if rng.Chance(90) && o+w > c.size {
			o %= c.size / 2
		}
		c.enc0, c.enc1 = uint32(o&0xff), uint32(o>>8)
	}
	off0, off1 := int(c.enc0)*mul, int(c.enc1)*mul
	if !two {
		off0, off1 = int(c.enc0)+int(c.enc1)<<8, 0
	}
	need := off0 + w
	if two && off1+w > need {
		need = off1 + w
	}
	room := c.size - need // highest register value that stays in range
	// registers
	c.ra = rng.Pick(2, 2, 2, 0, 5)
	c.d0 = rng.Pick(8, 8, 8, 6, 9, c.ra)
	c.d1 = rng.Pick(12, 12, 12, 10, 14, c.d0)
	c.vd = rng.Pick(16, 16, 16, 20, 24, c.ra, c.ra, c.d0)
	style := rng.Intn(8)
	special := -1 // the lane that leaves the LDS in styles 5..7 (none in half of the cases)
	if rng.Chance(50) {
		special = rng.Intn(64)
		if c.exec != 0 {
			for c.exec&(1<<uint(special)) == 0 {
				special = (special + 1) % 64
			}
		}
	}
	align := uint32(rng.Pick(w, w, w, 4, 1, 2))
	if align > 4 {
		align = uint32(rng.Pick(4, 8, 16))
	}
	for l := 0; l < 64; l++ {
		if c.exec&(1<<uint(l)) == 0 {
			continue
		}
		var v uint32
		inRange := func() uint32 {
			if room <= 0 {
				return 0
			}
			return uint32(rng.Intn(room+1)) / align * align
		}
		switch style {
		case 0: // unit stride
			v = uint32(l * w)
			if two {
				v = uint32(l * w * 2)
			}
			if room > 0 && int(v) > room {
				v %= uint32(room + 1)
			}
		case 1: // broadcast
			v = uint32(room / 2)
			if room <= 0 {
				v = 0
			}
		case 2: // overlapping neighbours
			v = uint32(rng.Intn(24)) * uint32(rng.Pick(1, 2, 4))
			if room > 0 && int(v) > room {
				v = uint32(room)
			}
		case 3, 4: // random inside
			v = inRange()
		case 5: // close to the end, rarely over it
			v = uint32(room)
			if room < 0 {
				v = 0
			}
			d := uint32(rng.Intn(17))
			if d <= v {
				v -= d
			}
			if l == special {
				v = uint32(room + rng.Range(1, 8))
			}
		case 6: // mostly inside, one or two lanes beyond the LDS
			v = inRange()
			if l == special {
				v = uint32(c.size) + uint32(rng.Pick(0, 1, 4, 64, 4096, 1<<20, 1<<31))
			}
		default: // uint32 wrap of address + offset: lands inside again, or near the top
			v = inRange()
			if l == special || (special >= 0 && rng.Chance(5)) {
				switch rng.Intn(4) {
				case 3: // v + off0 wraps to address 0 exactly
					v = uint32(-int32(off0))
				case 0: // v + off0 wraps to a small address
					v = uint32(-int32(off0)) + uint32(rng.Intn(16))*4
				case 1: // sum just below 2^32: a+w wraps
					v = uint32(0xFFFFFFFF) - uint32(off0) - uint32(rng.Intn(w+2))
				default:
					v = uint32(0xFFFFFFF0) + uint32(rng.Intn(16))
				}
			}
		}
		c.vals = append(c.vals, v)
	}
	c.dec = rng.Chance(40)
	full := 17
	if c.dec {
		full = 18
	}
	switch x := rng.Intn(100); {
	case x < 60:
		c.ticks = rng.Range(full, 45)
	case x < 75:
		c.ticks = full
	case x < 85:
		c.ticks = full - 1
	case x < 93:
		c.ticks = rng.Range(0, 4)
	default:
		c.ticks = rng.Range(4, full-1)
	}
	return c
}

// ---- schedules: several wavefronts through decoder + unit --------------------------------------

func (e *c02lEnv) runSched(r *Run, dec bool, ops string) {
	d := 0
	if dec {
		d = 1
	}
	line := fmt.Sprintf("c02 lds sched dec=%d ops=%s", d, ops)
	s := e.sides["gcn3"]
	s.cu.LDSUnit.Flush()
	s.cu.LDSDecoder.Flush()
	s.alu.reset()
	unit := s.cu.LDSUnit.(*cu.LDSUnit)
	du := s.cu.LDSDecoder.(*cu.DecodeUnit)
	lds := make([]byte, 1024)
	// ds_write_b32 v0 (address), v1 (data), one lane; every wavefront has its own two registers
	inst, err := e.dis.Decode(encodeDesc(desc{format: "ds", op: 13, f: map[string]uint32{"addr": 0, "data0": 1}}))
	if err != nil {
		panic(err)
	}
	ids := map[*wavefront.Wavefront]int{}
	var wfs []*wavefront.Wavefront
	var accepted, done []int
	rej := 0
	name := func(w *wavefront.Wavefront) string {
		if w == nil {
			return "-"
		}
		return fmt.Sprint(ids[w])
	}
	ints := func(l []int) string {
		if len(l) == 0 {
			return "-"
		}
		return c08Ints(l)
	}
	var out []string
	fault := ""
	for _, op := range ops {
		if op == 'a' {
			var target cu.SubComponent = unit
			if dec {
				target = du
			}
			if target.CanAcceptWave() {
				id := len(wfs)
				off := 256 + 8*(id%96)
				c02lTSetV(s.cu, off, 0, 0, uint32(4*(id%256)))
				c02lTSetV(s.cu, off, 0, 1, 0xC0DE0000+uint32(id))
				wf := e.newTimingWf(s, 1, off, inst, lds)
				ids[wf] = id
				wfs = append(wfs, wf)
				target.AcceptWave(wf)
			} else {
				rej++
			}
		} else {
			fault = catch(func() {
				unit.Run()
				if dec {
					du.Run()
				}
			})
			if fault != "" {
				break
			}
			for _, w := range wfs {
				if w.State == wavefront.WfReady {
					w.State = wavefront.WfCompleted // seen
					done = append(done, ids[w])
				}
			}
		}
		tr, te, tw, cl := unit.VerifLDSState()
		st := fmt.Sprintf("%s/%s/%s/%d", name(tr), name(te), name(tw), cl)
		if dec {
			var q []int
			for _, w := range du.VerifToDecode() {
				q = append(q, ids[w])
			}
			st = ints(q) + ">" + st
		}
		out = append(out, st)
	}
	// acceptance order of the unit = order in which wavefronts left the decoder / were offered directly
	var ran []int
	for _, st := range s.alu.runs {
		ran = append(ran, ids[st.(*wavefront.Wavefront)])
	}
	inUnit := map[int]bool{}
	for _, w := range du.VerifToDecode() {
		inUnit[ids[w]] = true
	}
	for id := range wfs {
		if !inUnit[id] {
			accepted = append(accepted, id) // FIFO decoder: ids leave it in issue order
		}
	}
	ans := fmt.Sprintf("%s | acc=%s ran=%s done=%s rej=%d", strings.Join(out, " "), ints(accepted), ints(ran), ints(done), rej)
	if fault != "" {
		ans = c02Fault(fault)
	}
	r.Case(line, ans)
	r.Count(fmt.Sprintf("lds-sched:dec=%d", d))
	r.Count(fmt.Sprintf("lds-sched:wfs=%d", c02Bucket(len(wfs))))

	// oracles: each once, FIFO, completed ⊑ ran ⊑ accepted, nothing lost
	r.Checked("lds-unit-order")
	seen := map[int]bool{}
	for i, id := range ran {
		if seen[id] {
			r.Failf("C02.lds-run-count", line, "wavefront %d executed twice (ran=%v)", id, ran)
		}
		seen[id] = true
		if i >= len(accepted) || accepted[i] != id {
			r.Failf("C02.lds-unit-order", line, "ran=%v is not a prefix of accepted=%v", ran, accepted)
			break
		}
	}
	for i, id := range done {
		if i >= len(ran) || ran[i] != id {
			r.Failf("C02.lds-unit-order", line, "done=%v is not a prefix of ran=%v", done, ran)
			break
		}
	}
	if len(wfs) <= 96 {
		r.Checked("lds-unit-effect")
		for id := range wfs {
			got := binary.LittleEndian.Uint32(lds[4*id:])
			if seen[id] != (got == 0xC0DE0000+uint32(id)) {
				r.Failf("C02.lds-differs.sched", line, "wavefront %d: executed=%v but LDS[%d]=%x", id, seen[id], 4*id, got)
			}
		}
	}
	// liveness: count the trailing cycles; 17 per instruction still in decoder or unit is enough
	trail := len(ops) - len(strings.TrimRight(ops, "t"))
	if fault == "" && trail >= 17*7 {
		r.Checked("lds-unit-live")
		if len(done) != len(wfs) {
			r.Failf("C02.lds-unit-stuck", line, "%d cycles after the last issue only %d of %d wavefronts are ready again", trail, len(done), len(wfs))
		}
	}
}

func c02lGenOps(rng *Rng) string {
	var b strings.Builder
	n := rng.Range(5, 90)
	style := rng.Intn(4)
	for b.Len() < n {
		switch style {
		case 0: // bursts of issues, then long waits
			b.WriteString(strings.Repeat("a", rng.Range(1, 6)))
			b.WriteString(strings.Repeat("t", rng.Range(1, 20)))
		case 1: // an issue attempt nearly every cycle
			if rng.Chance(60) {
				b.WriteByte('a')
			}
			b.WriteByte('t')
		case 2: // steady state: one issue every 15 cycles
			b.WriteString("a" + strings.Repeat("t", rng.Pick(14, 15, 15, 16)))
		default:
			if rng.Chance(25) {
				b.WriteByte('a')
			} else {
				b.WriteByte('t')
			}
		}
	}
	s := b.String()
	if rng.Chance(70) {
		s += strings.Repeat("t", 17*7)
	}
	return s
}

func runC02Lds(r *Run, rng *Rng, replay string) {
	thorough := r.Tier == "thorough"
	sim.GetIDGenerator()
	e := c02lNewEnv()
	log.SetOutput(io.Discard) // the CDNA3 handlers log.Panicf their range checks
	defer log.SetOutput(os.Stderr)

	// fixed witnesses: one instruction per opcode, full wave, exactly enough cycles; boundary of the LDS
	for _, opc := range []int{13, 14, 30, 54, 55, 78, 118, 119} {
		c := &c02lCase{opc: opc, arch: "gcn3", exec: ^uint64(0), enc0: 1, enc1: 2, size: 2048, seed: 11, ra: 2, d0: 8, d1: 12, vd: 16, ticks: 17}
		for l := 0; l < 64; l++ {
			c.vals = append(c.vals, uint32(l*16))
		}
		e.runInst(r, c)
	}
	e.runInst(r, &c02lCase{opc: 13, arch: "gcn3", exec: 1, size: 256, seed: 5, ra: 2, d0: 8, d1: 12, vd: 16, vals: []uint32{252}, ticks: 17})
	e.runInst(r, &c02lCase{opc: 13, arch: "gcn3", exec: 1, size: 256, seed: 5, ra: 2, d0: 8, d1: 12, vd: 16, vals: []uint32{253}, ticks: 17})
	e.runInst(r, &c02lCase{opc: 13, arch: "cdna3", exec: 1, size: 256, seed: 5, ra: 2, d0: 8, d1: 12, vd: 16, vals: []uint32{253}, ticks: 17})
	// uint32 wrap: 0xfffffffc + 8 = 4 (inside); 0xfffffffe + 0: the slice bound a+4 wraps (GCN3 runtime panic;
	// CDNA3: the explicit check is computed in uint32, passes, and the slice expression panics instead)
	e.runInst(r, &c02lCase{opc: 54, arch: "gcn3", exec: 1, enc0: 8, size: 256, seed: 5, ra: 2, d0: 8, d1: 12, vd: 16, vals: []uint32{0xfffffffc}, ticks: 17})
	e.runInst(r, &c02lCase{opc: 54, arch: "gcn3", exec: 1, size: 256, seed: 5, ra: 2, d0: 8, d1: 12, vd: 16, vals: []uint32{0xfffffffe}, ticks: 17})
	e.runInst(r, &c02lCase{opc: 54, arch: "cdna3", exec: 1, size: 256, seed: 5, ra: 2, d0: 8, d1: 12, vd: 16, vals: []uint32{0xfffffffe}, ticks: 17})
	e.runInst(r, &c02lCase{opc: 30, arch: "cdna3", exec: 1, size: 256, seed: 5, ra: 2, d0: 8, d1: 12, vd: 16, vals: []uint32{0xffffffff}, ticks: 17})
	// one cycle short / through the decoder
	e.runInst(r, &c02lCase{opc: 14, arch: "gcn3", exec: 3, enc0: 0, enc1: 1, size: 256, seed: 5, ra: 2, d0: 8, d1: 12, vd: 16, vals: []uint32{0, 4}, ticks: 16})
	e.runInst(r, &c02lCase{opc: 14, arch: "gcn3", exec: 3, enc0: 0, enc1: 1, size: 256, seed: 5, ra: 2, d0: 8, d1: 12, vd: 16, vals: []uint32{0, 4}, ticks: 18, dec: true})
	e.runSched(r, false, "a"+strings.Repeat("t", 17))
	e.runSched(r, false, "at"+strings.Repeat("at", 40)+strings.Repeat("t", 17*7))
	e.runSched(r, true, "aaaaaa"+strings.Repeat("t", 17*7))

	nInst, nSched := 300, 40
	if thorough {
		nInst, nSched = 6000, 500
	}
	for i := 0; i < nInst; i++ {
		e.runInst(r, c02lGen(rng))
	}
	for i := 0; i < nSched; i++ {
		e.runSched(r, rng.Chance(50), c02lGenOps(rng))
	}
}
