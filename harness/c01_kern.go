package main

// C01 (second deepening) — shipped kernels, the hidden kernel arguments, the operator cross-check.
//
//   * `ship`: two SHIPPED kernels are launched on the real emulation platform with the argument structs their
//     host code uses — `ReLUForward` of amd/benchmarks/dnn/layer_benchmarks/relu/kernels.hsaco (relu.KernelArgs,
//     incl. the hidden global offset the multi-GPU split of the benchmark passes) and `mul` of
//     amd/benchmarks/dnn/gputensor/operator.hsaco (elemWiseMulKernArg).  Case lines `c01 emu …` (the Lean emulator
//     on the same bytes) and `c01 kcode relu|mul` (the bytes the real loader extracts = the Lean literals the
//     program proofs are about).  Oracles: the host references (`in > 0 ? in : 0`, `in1 * in2`, bit-exact) on the
//     elements the launch covers, and the frame (every other element of the output buffer unchanged).
//   * `stale`: where the zero of the hidden global offset of `copyKernel` comes from.  Before the repair of finding
//     C01-hidden-kernarg-stale-page the driver wrote 24 of the 80 kernel-argument bytes; the kernel reads
//     kernarg+24, which was whatever the physical page held.  With the default device memory state a freed page
//     goes to the END of the free-page queue, so a kernel-argument page is a never-used (zero) page until the
//     device has handed out all of its pages once.  The scenario makes the queue wrap (512 MiB pages: 8 pages per
//     GPU) so that the kernel-argument page holds 0x40 at offset 24: the old driver then silently copied nothing;
//     the repaired driver writes the hidden words itself (regression oracle C01.deep.hidden-offset-stale).
//   * `xcheck`: GPUOperator.ElementWiseMul with verification enabled: before the repair of finding
//     C01-dnn-crosscheck-compares-a-with-a the GPU result was compared with the CPU operator applied to (a, a)
//     instead of (a, b) (regression oracle C01.dnn.crosscheck.elementwisemul).
//   * `pageq`: the free-page queue of a device (pop at the head, freed pages appended) against the Lean model.

import (
	"encoding/binary"
	"encoding/hex"
	"encoding/json"
	"fmt"
	"math"
	"os"
	"os/exec"
	"path/filepath"
	"strings"
	"sync"
	"time"

	"github.com/sarchlab/akita/v4/simulation"
	"github.com/sarchlab/mgpusim/v4/amd/arch"
	"github.com/sarchlab/mgpusim/v4/amd/benchmarks/dnn/gputensor"
	"github.com/sarchlab/mgpusim/v4/amd/driver"
	"github.com/sarchlab/mgpusim/v4/amd/insts"
	"github.com/sarchlab/mgpusim/v4/amd/samples/runner/emusystem"
)

func init() {
	register("C01", runC01Kern)
	childFuncs["c01kern"] = c01KernChild
}

type c01KernSpec struct {
	Kind string // "ship" | "stale" | "xcheck"
	Seed uint64
	Kern string // ship: "relu" | "mul"
	Grid int
	N    int // count argument
	Lo   int // hidden global offset x
	Num  int // stale: bytes to copy
}

type c01KernResult struct {
	c01DeepResult
	Inputs   int    // number of input regions (the output region follows them)
	Note     string // xcheck: what happened
	Panicked string
	GPUOut   []byte
	FreeLen  int
}

// mirrors of the host argument structs (same field order and types)
type c01ReluArgs struct {
	Count               uint32
	Padding             uint32
	Input               driver.Ptr
	Output              driver.Ptr
	HiddenGlobalOffsetX int64
	HiddenGlobalOffsetY int64
	HiddenGlobalOffsetZ int64
}

type c01ReluFwdArgs struct {
	In, Out                   driver.Ptr
	Count, Padding            int32
	OffsetX, OffsetY, OffsetZ int64
}

type c01MulArgs struct {
	Out, In1, In2             driver.Ptr
	N, Padding                int32
	OffsetX, OffsetY, OffsetZ int64
}

func c01FloatBytes(seed uint64, n int) []byte {
	r := NewRng(seed ^ 0xF10A7)
	b := make([]byte, n*4)
	for i := 0; i < n; i++ {
		var v uint32
		switch r.Intn(12) {
		case 0:
			v = r.PickU32(0, 0x80000000, 0x3f800000, 0xbf800000, 0x00800000, 0x3effffff, 0xc2c80000)
		default:
			v = math.Float32bits(float32(r.Intn(2000)-1000) / float32(1+r.Intn(64)))
		}
		binary.LittleEndian.PutUint32(b[i*4:], v)
	}
	return b
}

func c01KernChild(args []string) {
	if len(args) < 2 {
		os.Exit(2)
	}
	var spec c01KernSpec
	sb, err := os.ReadFile(args[0])
	if err == nil {
		err = json.Unmarshal(sb, &spec)
	}
	if err != nil {
		os.Exit(2)
	}
	res := c01KernResult{}
	save := func() {
		b, _ := json.Marshal(res)
		tmp := args[1] + ".tmp"
		if os.WriteFile(tmp, b, 0o644) == nil {
			_ = os.Rename(tmp, args[1])
		}
	}
	save()
	dir := filepath.Dir(args[1])
	s := simulation.MakeBuilder().WithoutMonitoring().WithOutputFileName(filepath.Join(dir, "akita_sim")).Build()
	b := emusystem.MakeBuilder().WithSimulation(s).WithNumGPUs(1).WithArchitecture(arch.GCN3)
	if spec.Kind == "stale" {
		b = b.WithLog2PageSize(29)
	}
	b.Build()
	drv := s.GetComponentByName("Driver").(*driver.Driver)
	drv.Run()
	ctx := drv.Init()
	queue := drv.CreateCommandQueue(ctx)

	switch spec.Kind {
	case "xcheck":
		c01XCheck(drv, ctx, spec, &res)
		res.Done = true
		save()
		os.Exit(0)
	}

	var regions []c01Region
	var dOut driver.Ptr
	var out0 []byte
	switch spec.Kind {
	case "ship":
		// buffers cover max(grid+lo, n)+guard elements so that a write behind the launch's range is seen
		elems := spec.Lo + spec.Grid
		if spec.N > elems {
			elems = spec.N
		}
		elems += 8
		nIn := 1
		if spec.Kern == "mul" {
			nIn = 2
		}
		var dIn []driver.Ptr
		for i := 0; i < nIn; i++ {
			data := c01FloatBytes(spec.Seed+uint64(i), elems)
			p := drv.AllocateMemory(ctx, uint64(len(data)))
			drv.MemCopyH2D(ctx, p, data)
			dIn = append(dIn, p)
			regions = append(regions, c01Region{uint64(p), data})
		}
		out0 = c01DataBytes(spec.Seed+9, elems*4)
		dOut = drv.AllocateMemory(ctx, uint64(len(out0)))
		drv.MemCopyH2D(ctx, dOut, out0)
		res.Inputs = nIn
		var co *insts.KernelCodeObject
		switch spec.Kern {
		case "relu":
			hs, err := os.ReadFile(filepath.Join(repoRoot(), "amd/benchmarks/dnn/layer_benchmarks/relu/kernels.hsaco"))
			must(err)
			co = insts.LoadKernelCodeObjectFromBytes(hs, "ReLUForward")
			ka := c01ReluArgs{Count: uint32(spec.N), Input: dIn[0], Output: dOut, HiddenGlobalOffsetX: int64(spec.Lo)}
			drv.EnqueueLaunchKernel(queue, co, [3]uint32{uint32(spec.Grid), 1, 1}, [3]uint16{64, 1, 1}, &ka)
		case "relufwd":
			hs, err := os.ReadFile(filepath.Join(repoRoot(), "amd/benchmarks/dnn/gputensor/operator.hsaco"))
			must(err)
			co = insts.LoadKernelCodeObjectFromBytes(hs, "reluForward")
			ka := c01ReluFwdArgs{In: dIn[0], Out: dOut, Count: int32(spec.N), OffsetX: int64(spec.Lo)}
			drv.EnqueueLaunchKernel(queue, co, [3]uint32{uint32(spec.Grid), 1, 1}, [3]uint16{64, 1, 1}, &ka)
		case "mul":
			hs, err := os.ReadFile(filepath.Join(repoRoot(), "amd/benchmarks/dnn/gputensor/operator.hsaco"))
			must(err)
			co = insts.LoadKernelCodeObjectFromBytes(hs, "mul")
			ka := c01MulArgs{Out: dOut, In1: dIn[0], In2: dIn[1], N: int32(spec.N), OffsetX: int64(spec.Lo)}
			drv.EnqueueLaunchKernel(queue, co, [3]uint32{uint32(spec.Grid), 1, 1}, [3]uint16{64, 1, 1}, &ka)
		}
		res.Name = spec.Kern
	case "stale":
		// three buffers whose pages go back to the end of the free-page queue; the second holds non-zero bytes where
		// a kernel-argument segment has its hidden global offset (offset 24)
		a := drv.AllocateMemory(ctx, 64)
		bb := drv.AllocateMemory(ctx, 64)
		cc := drv.AllocateMemory(ctx, 64)
		dirt := make([]byte, 64)
		dirt[24] = 0x40 // hidden global offset x = 64
		drv.MemCopyH2D(ctx, bb, dirt)
		n := spec.Num + 16
		in := c01DataBytes(spec.Seed, n)
		out0 = c01DataBytes(spec.Seed+1, n)
		dIn := drv.AllocateMemory(ctx, uint64(n))
		dOut = drv.AllocateMemory(ctx, uint64(n))
		drv.MemCopyH2D(ctx, dIn, in)
		drv.MemCopyH2D(ctx, dOut, out0)
		must(drv.FreeMemory(ctx, a))
		must(drv.FreeMemory(ctx, bb))
		must(drv.FreeMemory(ctx, cc))
		fl, _ := drv.VerifFreeList(1)
		res.FreeLen = len(fl)
		// use up the never-used pages (they are not touched: with 512 MiB pages the last one lies beyond the
		// storage); what is left: code object <- page of a, kernel arguments <- page of bb, packet <- page of cc
		for i := 0; i+3 < len(fl); i++ {
			drv.AllocateMemory(ctx, 64)
		}
		// (the destination buffer is appended below: since the repair of C01-hidden-kernarg-stale-page the copy
		// really happens, so it must not be among the buffers that have to stay unmodified)
		regions = []c01Region{{uint64(dIn), in}}
		res.Inputs = 1
		drv.EnqueueMemCopyD2D(queue, dOut, dIn, spec.Num)
		res.Name = "copyKernel-stale-kernarg"
	}
	var lk *driver.LaunchKernelCommand
	for _, c := range queue.VerifCommands() {
		if x, ok := c.(*driver.LaunchKernelCommand); ok {
			lk = x
		}
	}
	if lk == nil {
		res.Fault = "no launch command in the queue"
		save()
		os.Exit(0)
	}
	co := lk.CodeObject
	res.Code = co.Data
	res.Flags = c01Flags(co)
	if co.Version == insts.CodeObjectV5 {
		res.V5 = 1
	}
	res.WI = int(co.EnableVgprWorkItemID())
	res.CO = lk.Packet.KernelObject
	res.Entry = co.KernelCodeEntryByteOffset
	res.Grid = [3]uint32{lk.Packet.GridSizeX, lk.Packet.GridSizeY, lk.Packet.GridSizeZ}
	res.WG = [3]uint16{lk.Packet.WorkgroupSizeX, lk.Packet.WorkgroupSizeY, lk.Packet.WorkgroupSizeZ}
	res.KA = lk.Packet.KernargAddress
	res.PA = uint64(lk.DPacket)
	res.Regions = append(regions, c01Region{uint64(dOut), out0})
	res.OutAddr = uint64(dOut)

	drv.DrainCommandQueue(queue)

	res.Out = make([]byte, len(out0))
	drv.MemCopyD2H(ctx, res.Out, dOut)
	res.KABytes = make([]byte, co.KernargSegmentByteSize)
	drv.MemCopyD2H(ctx, res.KABytes, driver.Ptr(res.KA))
	res.PABytes = make([]byte, 64)
	drv.MemCopyD2H(ctx, res.PABytes, driver.Ptr(res.PA))
	for _, g := range regions {
		after := make([]byte, len(g.Data))
		drv.MemCopyD2H(ctx, after, driver.Ptr(g.Addr))
		if string(after) != string(g.Data) {
			res.Fault = "input buffer modified"
		}
	}
	res.Done = true
	save()
	os.Exit(0)
}

// GPUOperator.ElementWiseMul with and without the CPU cross-check
func c01XCheck(drv *driver.Driver, ctx *driver.Context, spec c01KernSpec, res *c01KernResult) {
	n := spec.N
	a := make([]float64, n)
	bv := make([]float64, n)
	r := NewRng(spec.Seed)
	for i := range a {
		a[i] = float64(float32(r.Intn(200)-100) / 4)
		bv[i] = float64(float32(r.Intn(200)-100)/8) + 20
	}
	op := gputensor.NewGPUOperator(drv, ctx)
	ta := op.CreateWithData(a, []int{n}, "")
	tb := op.CreateWithData(bv, []int{n}, "")
	out := op.ElementWiseMul(ta, tb)
	got := out.Vector()
	res.GPUOut = make([]byte, 4*n)
	res.Out = make([]byte, 4*n)
	for i := range got {
		binary.LittleEndian.PutUint32(res.GPUOut[i*4:], math.Float32bits(float32(got[i])))
		binary.LittleEndian.PutUint32(res.Out[i*4:], math.Float32bits(float32(a[i])*float32(bv[i])))
	}
	// the same call with the operator's own verification
	op.EnableVerification()
	func() {
		defer func() {
			if e := recover(); e != nil {
				res.Panicked = fmt.Sprint(e)
			}
		}()
		devnull, _ := os.OpenFile(os.DevNull, os.O_WRONLY, 0)
		saved := os.Stdout
		os.Stdout = devnull
		defer func() { os.Stdout = saved }()
		op.ElementWiseMul(ta, tb)
	}()
}

func c01RunKern(dir string, spec c01KernSpec, limit time.Duration) c01KernResult {
	must(os.MkdirAll(dir, 0o755))
	sf, rf := filepath.Join(dir, "spec.json"), filepath.Join(dir, "result.json")
	b, _ := json.Marshal(spec)
	must(os.WriteFile(sf, b, 0o644))
	fault, _ := c01Spawn(dir, []string{"child", "c01kern", sf, rf}, limit)
	var res c01KernResult
	if rb, err := os.ReadFile(rf); err == nil {
		_ = json.Unmarshal(rb, &res)
	}
	if fault != "" {
		res.Fault = fault
	} else if !res.Done && res.Fault == "" {
		res.Fault = "incomplete"
	}
	_ = os.RemoveAll(dir)
	return res
}

// run `<exe> args…` in dir with a wall-clock limit; fault = "" when it exited with status 0
func c01Spawn(dir string, args []string, limit time.Duration) (string, string) {
	exe, _ := os.Executable()
	cmd := exec.Command(exe, args...)
	cmd.Dir = dir
	cmd.Env = append(os.Environ(), "GOMEMLIMIT=3GiB")
	var errb strings.Builder
	cmd.Stderr = &errb
	done := make(chan error, 1)
	if err := cmd.Start(); err != nil {
		return "start:" + err.Error(), ""
	}
	go func() { done <- cmd.Wait() }()
	select {
	case err := <-done:
		if err != nil {
			return "exit:" + err.Error() + " " + logTail(errb.String(), 400), errb.String()
		}
	case <-time.After(limit):
		_ = cmd.Process.Kill()
		<-done
		return "hang", errb.String()
	}
	return "", errb.String()
}

// host reference of a shipped kernel on the elements [lo, lo+k); everything else = out0
func c01ShipReference(kern string, regions []c01Region, out0 []byte, lo, k int) []byte {
	ref := append([]byte(nil), out0...)
	w := func(b []byte, i int) float32 { return math.Float32frombits(binary.LittleEndian.Uint32(b[i*4:])) }
	for e := lo; e < lo+k; e++ {
		var v float32
		switch kern {
		case "relu", "relufwd":
			x := w(regions[0].Data, e)
			if x > 0 {
				v = x
			} else {
				v = 0
			}
		case "mul":
			v = w(regions[0].Data, e) * w(regions[1].Data, e)
		}
		binary.LittleEndian.PutUint32(ref[e*4:], math.Float32bits(v))
	}
	return ref
}

func runC01Kern(r *Run, rng *Rng, replay string) {
	type shape struct{ grid, n, lo int }
	// relu: the benchmark launches grid = length / #GPUs, count = length, offset = grid * gpu index
	relu := []shape{{100, 100, 0}, {64, 128, 64}, {100, 70, 0}, {1, 1, 0}}
	// mul: the operator launches grid = n; a grid rounded up to the work-group size shows the `tid > n` test
	mul := []shape{{100, 100, 0}, {64, 64, 0}, {1, 1, 0}, {128, 100, 0}}
	if r.Tier == "thorough" {
		relu = append(relu, shape{256, 256, 0}, shape{128, 512, 384}, shape{65, 65, 0}, shape{192, 100, 64}, shape{63, 1000, 0}, shape{100, 0, 0})
		mul = append(mul, shape{256, 256, 0}, shape{65, 65, 0}, shape{63, 63, 0}, shape{200, 199, 0}, shape{64, 10, 0})
	}
	var specs []c01KernSpec
	for i, s := range relu {
		specs = append(specs, c01KernSpec{Kind: "ship", Kern: "relu", Seed: r.Seed*500 + uint64(i), Grid: s.grid, N: s.n, Lo: s.lo})
	}
	// reluForward of operator.hsaco: GPUOperator.ReluForward launches grid = count
	fwd := []shape{{100, 100, 0}, {65, 65, 0}}
	if r.Tier == "thorough" {
		fwd = append(fwd, shape{256, 256, 0}, shape{1, 1, 0}, shape{128, 100, 0}, shape{64, 200, 64})
	}
	for i, s := range fwd {
		specs = append(specs, c01KernSpec{Kind: "ship", Kern: "relufwd", Seed: r.Seed*900 + uint64(i), Grid: s.grid, N: s.n, Lo: s.lo})
	}
	for i, s := range mul {
		specs = append(specs, c01KernSpec{Kind: "ship", Kern: "mul", Seed: r.Seed*700 + uint64(i), Grid: s.grid, N: s.n, Lo: s.lo})
	}
	specs = append(specs, c01KernSpec{Kind: "stale", Seed: r.Seed, Num: 64})
	specs = append(specs, c01KernSpec{Kind: "xcheck", Seed: r.Seed, N: 70})
	results := make([]c01KernResult, len(specs))
	sem := make(chan struct{}, 8)
	var wg sync.WaitGroup
	for i := range specs {
		wg.Add(1)
		go func(i int) {
			defer wg.Done()
			sem <- struct{}{}
			defer func() { <-sem }()
			dir := filepath.Join(r.OutDir, fmt.Sprintf("kern-%d", i))
			for try := 0; try < 3; try++ {
				results[i] = c01RunKern(dir, specs[i], 90*time.Second)
				if results[i].Fault != "hang" {
					break
				}
			}
		}(i)
	}
	wg.Wait()
	codeDone := map[string]bool{}
	for i, spec := range specs {
		res := results[i]
		id := fmt.Sprintf("%s kernel=%s grid=%d n=%d lo=%d num=%d seed=%d", spec.Kind, spec.Kern, spec.Grid, spec.N, spec.Lo, spec.Num, spec.Seed)
		r.Count("kern-" + spec.Kind)
		if res.Fault != "" {
			r.Checked("kern-run")
			r.Failf("C01.deep.run-fails", id, "fault=%q", res.Fault)
			continue
		}
		switch spec.Kind {
		case "ship":
			r.Count("deep-kernel-" + res.Name)
			r.CountN("deep-code-bytes", len(res.Code))
			r.Case(c01CaseLine(res.c01DeepResult), hex.EncodeToString(res.Out))
			if !codeDone[spec.Kern] {
				codeDone[spec.Kern] = true
				r.Case("c01 kcode "+spec.Kern, hex.EncodeToString(res.Code))
			}
			out0 := res.Regions[len(res.Regions)-1].Data
			// elements the kernel's own bounds test admits: relu `id < count`, mul `id <= n`
			lim := spec.N
			if spec.Kern == "mul" {
				lim = spec.N + 1
			}
			k := spec.Grid
			if lim-spec.Lo < k {
				k = lim - spec.Lo
			}
			if k < 0 {
				k = 0
			}
			// what the host code means: elements below the count only
			kHost := spec.Grid
			if spec.N-spec.Lo < kHost {
				kHost = spec.N - spec.Lo
			}
			if kHost < 0 {
				kHost = 0
			}
			r.Checked("ship-host-reference")
			ref := c01ShipReference(spec.Kern, res.Regions, out0, spec.Lo, kHost)
			lo4, hi4 := spec.Lo*4, (spec.Lo+kHost)*4
			if string(ref[lo4:hi4]) != string(res.Out[lo4:hi4]) {
				first := lo4
				for first < hi4 && ref[first] == res.Out[first] {
					first++
				}
				r.Failf("C01.deep.ship-reference."+spec.Kern, id, "output differs from the host reference at element %d", first/4)
			}
			r.Checked("ship-frame")
			if string(res.Out[:lo4]) != string(out0[:lo4]) || string(res.Out[hi4:]) != string(out0[hi4:]) {
				first := 0
				for first < len(out0) && (first >= lo4 && first < hi4 || res.Out[first] == out0[first]) {
					first++
				}
				r.Failf("C01.deep.ship-frame."+spec.Kern, id, "element %d of the output buffer, outside the %d elements below the count, was written (kernel bound admits %d)", first/4, kHost, k)
			}
		case "stale":
			r.Count("deep-kernel-" + res.Name)
			in, out0 := res.Regions[0].Data, res.Regions[1].Data
			tail := fmt.Sprintf("tail=%x:%x:%d", 0, 0, 0)
			line := c01CaseLine(res.c01DeepResult)
			r.Case("c01 d2d"+strings.TrimPrefix(line, "c01 emu")+" "+tail, hex.EncodeToString(res.Out))
			goff := binary.LittleEndian.Uint64(res.KABytes[24:32])
			r.CountN("stale-kernarg-hidden-offset", int(goff))
			r.Checked("stale-copy")
			if string(res.Out[:spec.Num]) != string(in[:spec.Num]) {
				unchanged := string(res.Out) == string(out0)
				r.Failf("C01.deep.hidden-offset-stale", id, "MemCopyD2D of %d bytes after the free-page queue wrapped (free list %d pages, 512 MiB pages): the kernel-argument page is a reused page, hidden global offset at kernarg+24 = %d, destination unchanged=%v (regression of the repaired finding C01-hidden-kernarg-stale-page: EnqueueMemCopyD2D has to write the hidden words)", spec.Num, res.FreeLen, goff, unchanged)
			}
		case "xcheck":
			r.Checked("xcheck-gpu-result")
			if string(res.GPUOut) != string(res.Out) {
				r.Failf("C01.dnn.mul-result", id, "GPUOperator.ElementWiseMul differs from the float32 products")
			}
			r.Checked("xcheck-verification")
			if res.Panicked != "" {
				r.Failf("C01.dnn.crosscheck.elementwisemul", id, "GPU result equals a*b bit for bit, but ElementWiseMul with EnableVerification panics: %s (regression of the repaired finding C01-dnn-crosscheck-compares-a-with-a: the CPU reference has to be computed from (a, b), not (a, a))", res.Panicked)
			}
		}
	}
	c01PageQueue(r, rng)
}

// the free-page queue of the default device memory state against the Lean model: a driver with a small GPU,
// AllocateMemory / FreeMemory, the pages as the page table reports them
func c01PageQueue(r *Run, rng *Rng) {
	n := 40
	if r.Tier == "thorough" {
		n = 400
	}
	for i := 0; i < n; i++ {
		pages := rng.Range(2, 12)
		sys := newC10Sys(12, 4, []int{pages}, false, false)
		drv := sys.drv
		ctx := drv.Init()
		fl, _ := drv.VerifFreeList(1)
		if len(fl) != pages {
			r.Failf("C01.pageq.setup", fmt.Sprint(pages), "free list has %d pages", len(fl))
			continue
		}
		first := fl[0]
		var ops []string
		var got []string
		type buf struct {
			ptr   driver.Ptr
			pages []uint64
		}
		var live []buf
		oom := false
		steps := rng.Range(1, 30)
		for s := 0; s < steps && !oom; s++ {
			if len(live) > 0 && rng.Chance(40) {
				k := rng.Intn(len(live))
				b := live[k]
				live = append(live[:k], live[k+1:]...)
				must(drv.FreeMemory(ctx, b.ptr))
				for _, p := range b.pages {
					ops = append(ops, fmt.Sprintf("u%x", p))
				}
				continue
			}
			np := rng.Range(1, 3)
			free, _ := drv.VerifFreeList(1)
			for j := 0; j < np; j++ {
				ops = append(ops, "p")
			}
			if np > len(free) {
				oom = true
				break
			}
			var ptr driver.Ptr
			if msg := catch(func() { ptr = drv.AllocateMemory(ctx, uint64(np)<<12) }); msg != "" {
				r.Failf("C01.pageq.alloc-panics", strings.Join(ops, "/"), "%s", msg)
				oom = true
				break
			}
			b := buf{ptr: ptr}
			for j := 0; j < np; j++ {
				pg, ok := sys.pt.Find(ctx.VerifPID(), uint64(ptr)+uint64(j)<<12)
				if !ok {
					r.Failf("C01.pageq.unmapped", strings.Join(ops, "/"), "page %d of the buffer is not mapped", j)
				}
				b.pages = append(b.pages, pg.PAddr)
				got = append(got, fmt.Sprintf("%x", pg.PAddr))
			}
			live = append(live, b)
		}
		out := strings.Join(got, "/")
		if oom {
			out = "oom"
			r.Count("pageq-oom")
		} else if out == "" {
			out = "-"
		}
		if len(got) > pages {
			r.Count("pageq-wrapped")
		}
		r.Count("pageq")
		r.Case(fmt.Sprintf("c01 pageq init=%x:%d:%x ops=%s", first, pages, 1<<12, strings.Join(ops, "/")), out)
		// the statement the copy proof rests on: while fewer pages were handed out than the device has, every page
		// handed out is a never-used one
		if !oom {
			seen := map[string]bool{}
			for k, p := range got {
				if k < pages {
					r.Checked("pageq-fresh")
					if seen[p] {
						r.Failf("C01.pageq.reused-before-wrap", strings.Join(ops, "/"), "page %s handed out twice among the first %d", p, pages)
					}
				}
				seen[p] = true
			}
		}
	}
}
