package main

import (
	"fmt"

	"github.com/sarchlab/mgpusim/v4/amd/timing/wavefront"
)

func init() { register("C14", runC14Issue) }

// The issue side of the wait-count bookkeeping: when the real VectorMemoryUnit issues a FLAT
// load or store it must count exactly one more outstanding vector access (vmcnt) and one more
// outstanding scalar/LGKM access for the wavefront — whatever the counters were before. The return
// handlers (decrements) and the s_waitcnt / s_endpgm tests are covered by the scheduler part of
// this property; without this tie a saturating or skipped increment would let s_waitcnt pass early.
func runC14Issue(r *Run, rng *Rng, replay string) {
	e := newC02Env()
	n := 60
	if r.Tier == "thorough" {
		n = 1500
	}
	starts := []int{0, 1, 2, 15, 16, 31, 62, 63, 64, 65, 127, 128, 255, 256, 1000}
	for k := 0; k < n; k++ {
		v0 := starts[k%len(starts)]
		s0 := rng.Pick(0, 1, 5, 63, 64, 200)
		opc := rng.Pick(20, 20, 21, 28, 29, 16)
		c := &c02Flat{opc: opc, arch: "gcn3", exec: 1 | rng.U64(), dst: 20, seed: rng.U64()}
		for l := 0; l < 64; l++ {
			if c.exec&(1<<uint(l)) != 0 {
				c.vals = append(c.vals, 0x100000+uint64(l)*4)
			}
		}
		inst := c.inst(e)
		c.setRegs(e, rng, opc >= 24)
		wf := e.newTimingWf(c.exec)
		wf.SetDynamicInst(wavefront.NewInst(inst))
		wf.OutstandingVectorMemAccess = v0
		wf.OutstandingScalarMemAccess = s0
		var ok bool
		f := catch(func() { ok, _ = e.cu.VerifFlatIssue(wf) })
		line := fmt.Sprintf("c14 issue op=%d v=%d s=%d", opc, v0, s0)
		out := fmt.Sprintf("ok=%v v=%d s=%d", ok, wf.OutstandingVectorMemAccess, wf.OutstandingScalarMemAccess)
		if f != "" {
			out = "fault:" + f
		}
		r.Case(line, out)
		r.Count("issue")
		if f == "" && ok {
			r.Checked("issue-counts")
			if wf.OutstandingVectorMemAccess != v0+1 || wf.OutstandingScalarMemAccess != s0+1 {
				r.Failf("C14.issue.counter", line, "after issuing one FLAT access the counters are vm=%d lgkm=%d, want %d and %d (an under-count lets s_waitcnt complete while accesses are outstanding)",
					wf.OutstandingVectorMemAccess, wf.OutstandingScalarMemAccess, v0+1, s0+1)
			}
		}
	}
}
