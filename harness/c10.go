package main

// Property C10: device memory management never aliases pages or corrupts mappings.
//
// One case = one history `c10 l2=.. cpu=.. gpus=.. real=.. v=.. ; op ; op ; …` executed through the
// real driver.Driver API (AllocateMemory, AllocateUnifiedMemory, FreeMemory, Remap, Distribute,
// CreateUnifiedGPU, Init, InitWithExistingPID, SelectGPU) plus hooks for preparePageForMigration,
// removeFreedBuffers, RemovePage and AllocatePageWithGivenVAddr, on a real vm.PageTable. Ops are
// generated online (they name the pointers the real code returned). After every step the harness
// dumps the page table (Find over all candidate pages), the free lists and the contexts' buffers;
// the dump is (a) compared with the Lean model's and (b) checked against the property (`Inv`) by
// the oracles below, independent of the model. A fault or an oracle failure ends the case.

import (
	"fmt"
	"os"
	"sort"
	"strconv"
	"strings"
	"time"

	"github.com/sarchlab/akita/v4/mem/vm"
	"github.com/sarchlab/akita/v4/sim"
	"github.com/sarchlab/mgpusim/v4/amd/driver"
)

func init() { register("C10", runC10) }

type c10Buf struct {
	pid   int // pid index
	ctx   int
	ptr   uint64
	size  uint64
	pages uint64
	freed bool
}

type c10Sys struct {
	drv      *driver.Driver
	pt       vm.PageTable
	log2     uint64
	ps       uint64
	numGPUs  int
	ctxs     []*driver.Context
	ctxPid   []int // pid index of each context (1-based)
	ctxGPU   []int
	npids    int
	maxV     map[int]uint64 // per pid index: end of the candidate range
	bufs     []*c10Buf
	buddy    bool
	unified  map[int][]int // unified device id -> actual ids
	verbose  bool
	tainted  string // set once a cross-PID free happened
	skipInv  bool
	lastDump string
}

func c10Fault(f string) string {
	if f == "" {
		return ""
	}
	switch {
	case f == "nilderef":
		return "fault:nilderef"
	case f == "bounds":
		return "fault:bounds"
	case strings.Contains(f, "out_of_memory"), strings.Contains(f, "not_enough_memory"):
		return "fault:oom"
	case strings.Contains(f, "page_does_not_exist"):
		return "fault:pt_missing"
	case strings.Contains(f, "page_exist"):
		return "fault:pt_exists"
	case strings.Contains(f, "page_not_founds"):
		return "fault:mig_missing"
	case strings.Contains(f, "page_not_found"):
		return "fault:mirror_missing"
	case strings.Contains(f, "device_not_found"):
		return "fault:no_device"
	case strings.Contains(f, "allocating_0_bytes"):
		return "fault:zero_bytes"
	case strings.Contains(f, "address_much_align"):
		return "fault:unaligned"
	case strings.Contains(f, "divide_by_zero"):
		return "fault:divzero"
	case strings.Contains(f, "must_unify_at_least"):
		return "fault:unify_empty"
	case strings.Contains(f, "can_only_unify"):
		return "fault:unify_nongpu"
	case strings.Contains(f, "is_not_available"):
		return "fault:sel_range"
	case f == "hang":
		return "fault:hang"
	}
	return "fault:other:" + f
}

// Build always creates a 4 GiB CPU (2^20 free-list entries at 4 KiB pages); cases that reset the
// memory system reuse one built driver per page size.
var c10Drivers = map[uint64]*driver.Driver{}

func newC10Sys(log2 uint64, cpuPages int, gpuPages []int, real, buddy bool) *c10Sys {
	pt := vm.NewPageTable(log2)
	var d *driver.Driver
	if real {
		d = driver.MakeBuilder().WithEngine(&fakeEngine{}).WithPageTable(pt).WithLog2PageSize(log2).Build("Driver")
	} else {
		d = c10Drivers[log2]
		if d == nil {
			d = driver.MakeBuilder().WithEngine(&fakeEngine{}).WithPageTable(pt).WithLog2PageSize(log2).Build("Driver")
			c10Drivers[log2] = d
		}
	}
	driver.VerifSetBuddyAllocator(buddy)
	s := &c10Sys{drv: d, pt: pt, log2: log2, ps: 1 << log2, maxV: map[int]uint64{}, buddy: buddy,
		unified: map[int][]int{}}
	if !real {
		d.VerifResetMemory(pt, uint64(cpuPages)<<log2)
	}
	for _, g := range gpuPages {
		var port sim.Port
		d.RegisterGPU(port, driver.DeviceProperties{CUCount: 4, DRAMSize: uint64(g) << log2})
	}
	s.numGPUs = len(gpuPages)
	driver.VerifSetBuddyAllocator(false)
	return s
}

type c10Entry struct {
	pid int
	pg  vm.Page
}

func (s *c10Sys) entries() []c10Entry {
	var out []c10Entry
	seen := map[vm.PID]bool{}
	for ci, c := range s.ctxs {
		pid := c.VerifPID()
		if seen[pid] {
			continue
		}
		seen[pid] = true
		pi := s.ctxPid[ci]
		for v := s.ps; v < s.maxV[pi]; v += s.ps {
			pg, ok := s.pt.Find(pid, v)
			if ok {
				out = append(out, c10Entry{pi, pg})
			}
		}
	}
	sort.Slice(out, func(i, j int) bool {
		if out[i].pid != out[j].pid {
			return out[i].pid < out[j].pid
		}
		return out[i].pg.VAddr < out[j].pg.VAddr
	})
	return out
}

func flg(b bool, c string) string {
	if b {
		return c
	}
	return "-"
}

// dump renders the observable state canonically (same format as C10.dump in Lean).
func (s *c10Sys) dump(es []c10Entry) string {
	var b strings.Builder
	b.WriteString("PT{")
	for i, e := range es {
		if i > 0 {
			b.WriteByte(',')
		}
		fmt.Fprintf(&b, "p%d:%x>%x@%d%s%s", e.pid, e.pg.VAddr, e.pg.PAddr, e.pg.DeviceID, flg(e.pg.Unified, "u"), flg(e.pg.IsMigrating, "m"))
	}
	b.WriteString("} FR{")
	if !s.buddy {
		for i := 0; i < s.drv.VerifNumDevices(); i++ {
			if i > 0 {
				b.WriteByte(' ')
			}
			fl, _ := s.drv.VerifFreeList(i)
			base, size := s.drv.VerifDeviceRange(i)
			fmt.Fprintf(&b, "d%d[%x+%x]n%d:", i, base, size, s.drv.VerifNextActualGPUIndex(i))
			if len(fl) > 64 {
				fmt.Fprintf(&b, "#%d:%x:%x", len(fl), fl[0], fl[len(fl)-1])
			} else {
				for j, p := range fl {
					if j > 0 {
						b.WriteByte(',')
					}
					fmt.Fprintf(&b, "%x", p)
				}
			}
		}
	}
	b.WriteString("} CX{")
	for i, c := range s.ctxs {
		if i > 0 {
			b.WriteByte(' ')
		}
		fmt.Fprintf(&b, "c%d=p%d[", i, s.ctxPid[i])
		for j, bf := range c.VerifBuffers() {
			if j > 0 {
				b.WriteByte(',')
			}
			fmt.Fprintf(&b, "%x+%d%s", bf.VAddr, bf.Size, flg(bf.Freed, "f"))
		}
		b.WriteString("]")
	}
	b.WriteString("}")
	return b.String()
}

func fnvStr(s string) uint64 {
	h := uint64(14695981039346656037)
	for i := 0; i < len(s); i++ {
		h = (h ^ uint64(s[i])) * 1099511628211
	}
	return h
}

// ---------------------------------------------------------------- oracles (property on the real state)

// checkInv evaluates the state invariant of the property on the dump of the real page table and
// free lists. Returns (sig, detail) of the first violation.
func (s *c10Sys) checkInv(es []c10Entry) (string, string) {
	byP := map[uint64]c10Entry{}
	ndev := s.drv.VerifNumDevices()
	// the round-robin cursor of a unified device always names one of its member GPUs
	for dev, act := range s.unified {
		if n := s.drv.VerifNextActualGPUIndex(dev); n < 0 || n >= len(act) {
			return "C10.inv.unified_cursor", fmt.Sprintf("unified device %d has %d member GPUs but its next-GPU cursor is %d (the next allocation on it indexes out of range)", dev, len(act), n)
		}
	}
	for _, e := range es {
		pg := e.pg
		if pg.PAddr%s.ps != 0 || pg.VAddr%s.ps != 0 || pg.PageSize != s.ps || !pg.Valid {
			return "C10.inv.align", fmt.Sprintf("entry p%d:%x>%x size %d valid %v", e.pid, pg.VAddr, pg.PAddr, pg.PageSize, pg.Valid)
		}
		if o, dup := byP[pg.PAddr]; dup {
			return "C10.inv.paddr_alias", fmt.Sprintf("physical page %x mapped by p%d:%x and p%d:%x", pg.PAddr, o.pid, o.pg.VAddr, e.pid, pg.VAddr)
		}
		byP[pg.PAddr] = e
		if int(pg.DeviceID) >= ndev {
			return "C10.inv.device_recorded", fmt.Sprintf("entry p%d:%x records device %d of %d", e.pid, pg.VAddr, pg.DeviceID, ndev)
		}
		base, size := s.drv.VerifDeviceRange(int(pg.DeviceID))
		if pg.PAddr < base || pg.PAddr+s.ps > base+size {
			own := -1
			if f := catch(func() { own = s.drv.VerifDeviceIDByPAddr(pg.PAddr) }); f != "" {
				own = -1
			}
			return "C10.inv.device_recorded", fmt.Sprintf("entry p%d:%x>%x records device %d [%x,+%x) but the page lies in device %d", e.pid, pg.VAddr, pg.PAddr, pg.DeviceID, base, size, own)
		}
	}
	if s.buddy {
		return s.checkBuddy(byP)
	}
	seen := map[uint64]int{}
	for i := 0; i < ndev; i++ {
		fl, _ := s.drv.VerifFreeList(i)
		if len(fl) > 4096 {
			continue // the 4 GiB CPU of un-reset cases: checked by length only (see dump)
		}
		base, size := s.drv.VerifDeviceRange(i)
		for _, p := range fl {
			if j, dup := seen[p]; dup {
				return "C10.inv.free_dup", fmt.Sprintf("physical page %x queued twice (free lists of devices %d and %d)", p, j, i)
			}
			seen[p] = i
			if e, live := byP[p]; live {
				return "C10.inv.free_live", fmt.Sprintf("physical page %x is free on device %d and mapped by p%d:%x", p, i, e.pid, e.pg.VAddr)
			}
			if p%s.ps != 0 || p < base || p+s.ps > base+size {
				return "C10.inv.free_range", fmt.Sprintf("free page %x of device %d [%x,+%x)", p, i, base, size)
			}
		}
	}
	return "", ""
}

// checkBuddy: free blocks of the buddy allocator are pairwise disjoint, inside the device and
// disjoint from live pages (runtime-invariant level for the extension).
func (s *c10Sys) checkBuddy(byP map[uint64]c10Entry) (string, string) {
	for i := 0; i < s.drv.VerifNumDevices(); i++ {
		bl, ok := s.drv.VerifBuddyFreeBlocks(i)
		if !ok {
			continue
		}
		base, size := s.drv.VerifDeviceRange(i)
		if size == 0 {
			continue
		}
		type rg struct{ a, b uint64 }
		var rs []rg
		for _, b := range bl {
			sz := size >> b[1]
			if b[0] < base || b[0]+sz > base+size {
				return "C10.buddy.block_range", fmt.Sprintf("free block %x order %d outside device %d", b[0], b[1], i)
			}
			rs = append(rs, rg{b[0], b[0] + sz})
		}
		sort.Slice(rs, func(x, y int) bool { return rs[x].a < rs[y].a })
		for k := 1; k < len(rs); k++ {
			if rs[k].a < rs[k-1].b {
				return "C10.buddy.blocks_overlap", fmt.Sprintf("free blocks [%x,%x) and [%x,%x) of device %d overlap", rs[k-1].a, rs[k-1].b, rs[k].a, rs[k].b, i)
			}
		}
		for p, e := range byP {
			for _, r := range rs {
				if p >= r.a && p < r.b {
					return "C10.buddy.free_live", fmt.Sprintf("live page %x (p%d:%x) lies in free block [%x,%x)", p, e.pid, e.pg.VAddr, r.a, r.b)
				}
			}
		}
	}
	return "", ""
}

// liveMapped: every page of every live buffer is mapped; every page of a freed buffer is unmapped.
func (s *c10Sys) checkBuffers(es []c10Entry) (string, string) {
	m := map[[2]uint64]bool{}
	for _, e := range es {
		m[[2]uint64{uint64(e.pid), e.pg.VAddr}] = true
	}
	for _, b := range s.bufs {
		for i := uint64(0); i < b.pages; i++ {
			v := b.ptr + i*s.ps
			if !b.freed && !m[[2]uint64{uint64(b.pid), v}] {
				return "C10.live_unmapped", fmt.Sprintf("page %x of live buffer %x+%d of p%d is not mapped", v, b.ptr, b.size, b.pid)
			}
			if b.freed && m[[2]uint64{uint64(b.pid), v}] {
				return "C10.free.pages_left_mapped", fmt.Sprintf("page %x of freed buffer %x+%d (%d pages) of p%d is still mapped", v, b.ptr, b.size, b.pages, b.pid)
			}
		}
	}
	return "", ""
}

func (s *c10Sys) freeCounts() []int {
	n := s.drv.VerifNumDevices()
	out := make([]int, n)
	if s.buddy {
		for i := range out {
			out[i] = 1 << 30
		}
		return out
	}
	for i := 0; i < n; i++ {
		fl, _ := s.drv.VerifFreeList(i)
		out[i] = len(fl)
	}
	return out
}

func (s *c10Sys) freeMultiset() map[uint64]int {
	m := map[uint64]int{}
	for i := 0; i < s.drv.VerifNumDevices(); i++ {
		fl, _ := s.drv.VerifFreeList(i)
		for _, p := range fl {
			m[p]++
		}
	}
	return m
}

func (s *c10Sys) liveBuf(pid int, ptr uint64) *c10Buf {
	for _, b := range s.bufs {
		if b.pid == pid && b.ptr == ptr && !b.freed {
			return b
		}
	}
	return nil
}

// inLiveBuf: [addr, addr+size) lies inside one live buffer's page range of pid
func (s *c10Sys) inLiveBuf(pid int, addr, size uint64) bool {
	for _, b := range s.bufs {
		if b.pid == pid && !b.freed && addr >= b.ptr && addr+size <= b.ptr+b.pages*s.ps {
			return true
		}
	}
	return false
}

// sharedAcrossPIDs: some other PID has (ever) been given the virtual page range
func (s *c10Sys) sharedAcrossPIDs(pid int, ptr uint64, pages uint64) bool {
	for _, b := range s.bufs {
		if b.pid != pid && ptr < b.ptr+b.pages*s.ps && b.ptr < ptr+pages*s.ps {
			return true
		}
	}
	return false
}

// capacity: can `n` pages be taken from device dev by allocatePage (one at a time)?
func (s *c10Sys) capSingle(dev int, n int, fc []int) bool {
	if dev < 0 || dev >= len(fc) {
		return false
	}
	if act, ok := s.unified[dev]; ok {
		tot := 0
		seen := map[int]bool{}
		for _, a := range act {
			if !seen[a] {
				tot += fc[a]
				seen[a] = true
			}
		}
		return tot >= n
	}
	return fc[dev] >= n
}

// capMulti: can allocateMultiplePages(n) on dev succeed?
func (s *c10Sys) capMulti(dev int, n int, fc []int) bool {
	if dev < 0 || dev >= len(fc) {
		return false
	}
	if act, ok := s.unified[dev]; ok {
		idx := s.drv.VerifNextActualGPUIndex(dev)
		if idx < 0 || idx >= len(act) {
			return false // reported by checkInv (C10.inv.unified_cursor)
		}
		a := act[idx]
		return fc[a] >= n && fc[a] > 0
	}
	return fc[dev] >= n && fc[dev] > 0
}

// ---------------------------------------------------------------- op execution

type c10Result struct {
	out   string
	fault bool
	sig   string // oracle failure
	det   string
}

func hexs(v uint64) string { return strconv.FormatUint(v, 16) }

// exec runs one op on the real code. `valid` tells whether the op is a valid API use within
// capacity (then a crash is a property violation).
func (s *c10Sys) exec(op string) (res c10Result) {
	t := strings.Fields(op)
	pu := func(i int) uint64 { v, _ := strconv.ParseUint(t[i], 16, 64); return v }
	pd := func(i int) int { v, _ := strconv.Atoi(t[i]); return v }
	pl := func(i int) []int {
		var out []int
		if t[i] == "-" {
			return out
		}
		for _, x := range strings.Split(t[i], ",") {
			v, _ := strconv.Atoi(x)
			out = append(out, v)
		}
		return out
	}
	fc := s.freeCounts()
	valid := false
	crashSig := "C10.crash." + t[0]
	var out string
	var post func() (string, string)
	run := func(f func()) string {
		ok, fault := withTimeout(30*time.Second, f)
		if !ok {
			return "hang"
		}
		return fault
	}
	var fault string
	switch t[0] {
	case "init":
		fault = run(func() {
			c := s.drv.Init()
			s.npids++
			s.ctxs = append(s.ctxs, c)
			s.ctxPid = append(s.ctxPid, s.npids)
			s.ctxGPU = append(s.ctxGPU, 1)
			s.maxV[s.npids] = s.ps
		})
		valid = true
		out = "ok"
	case "initpid":
		ci := pd(1)
		fault = run(func() {
			c := s.drv.InitWithExistingPID(s.ctxs[ci])
			s.ctxs = append(s.ctxs, c)
			s.ctxPid = append(s.ctxPid, s.ctxPid[ci])
			s.ctxGPU = append(s.ctxGPU, 1)
		})
		valid = true
		out = "ok"
	case "sel":
		ci, g := pd(1), pd(2)
		valid = g < len(fc)
		fault = run(func() { s.drv.SelectGPU(s.ctxs[ci], g) })
		if fault == "" {
			s.ctxGPU[ci] = g
		}
		out = "ok"
	case "unify":
		ci, ids := pd(1), pl(2)
		valid = len(ids) > 0
		for _, id := range ids {
			if id < 1 || id > s.numGPUs {
				valid = false
			}
		}
		var id int
		fault = run(func() { id = s.drv.CreateUnifiedGPU(s.ctxs[ci], ids) })
		if fault == "" {
			s.unified[id] = ids
			out = fmt.Sprintf("=%d", id)
		}
	case "alloc", "allocu":
		ci, size := pd(1), pu(2)
		pid := s.ctxPid[ci]
		dev := s.ctxGPU[ci]
		if t[0] == "allocu" {
			dev = 1
		}
		pages := uint64(0)
		if size > 0 {
			pages = (size-1)/s.ps + 1
		}
		valid = size > 0 && s.capSingle(dev, int(pages), fc)
		var ptr driver.Ptr
		fault = run(func() {
			if t[0] == "alloc" {
				ptr = s.drv.AllocateMemory(s.ctxs[ci], size)
			} else {
				ptr = s.drv.AllocateUnifiedMemory(s.ctxs[ci], size)
			}
		})
		if fault == "" {
			out = "=" + hexs(uint64(ptr))
			p := uint64(ptr)
			post = func() (string, string) {
				if p%s.ps != 0 || p == 0 {
					return "C10.ptr.align", fmt.Sprintf("returned pointer %x not page aligned", p)
				}
				for _, b := range s.bufs[:len(s.bufs)-1] {
					if b.pid == pid && p < b.ptr+b.pages*s.ps && b.ptr < p+pages*s.ps {
						return "C10.ptr.overlap", fmt.Sprintf("buffer %x+%d overlaps earlier buffer %x+%d of p%d", p, size, b.ptr, b.size, pid)
					}
				}
				return "", ""
			}
			s.bufs = append(s.bufs, &c10Buf{pid: pid, ctx: ci, ptr: p, size: size, pages: pages})
			if e := p + pages*s.ps; e > s.maxV[pid] {
				s.maxV[pid] = e
			}
		}
	case "free":
		ci, ptr := pd(1), pu(2)
		pid := s.ctxPid[ci]
		b := s.liveBuf(pid, ptr)
		valid = b != nil
		shared := b != nil && s.sharedAcrossPIDs(pid, ptr, b.pages)
		if shared {
			crashSig = "C10.crash.free.cross_pid"
		}
		before := s.freeMultiset()
		var want []uint64
		if b != nil {
			for i := uint64(0); i < b.pages; i++ {
				if pg, ok := s.pt.Find(s.ctxs[ci].VerifPID(), ptr+i*s.ps); ok {
					want = append(want, pg.PAddr)
				}
			}
		}
		fault = run(func() { _ = s.drv.FreeMemory(s.ctxs[ci], driver.Ptr(ptr)) })
		out = "ok"
		if fault == "" && b == nil {
			// an invalid free that did not panic (e.g. a pointer into the middle of a buffer, which
			// releases that single page): the ghost buffers do not follow; end the case afterwards
			s.tainted = "rmpage"
		}
		if fault == "" && b != nil {
			b.freed = true
			post = func() (string, string) {
				after := s.freeMultiset()
				for _, p := range want {
					before[p]++
				}
				bad := ""
				for p, n := range after {
					if before[p] != n {
						bad = fmt.Sprintf("page %x: %d time(s) in the free lists, expected %d", p, n, before[p])
					}
				}
				for p, n := range before {
					if after[p] != n {
						bad = fmt.Sprintf("page %x: %d time(s) in the free lists, expected %d", p, after[p], n)
					}
				}
				if bad != "" && !s.buddy {
					sig := "C10.free.wrong_pages_returned"
					if shared {
						sig += ".cross_pid"
					}
					return sig, fmt.Sprintf("free of %x+%d (%d pages, physical %x) by p%d: %s", ptr, b.size, b.pages, want, pid, bad)
				}
				return "", ""
			}
			if shared {
				s.tainted = fmt.Sprintf("free %x by p%d shares its virtual address with another PID", ptr, pid)
			}
		}
	case "remap":
		ci, addr, size, dev := pd(1), pu(2), pu(3), pd(4)
		pid := s.ctxPid[ci]
		n := 0
		for a := addr; a < addr+size; a += s.ps {
			n++
		}
		valid = addr%s.ps == 0 && size > 0 && s.inLiveBuf(pid, addr, uint64(n)*s.ps) && s.capMulti(dev, n, fc)
		fault = run(func() { s.drv.Remap(s.ctxs[ci], addr, size, dev) })
		out = "ok"
	case "dist":
		ci, addr, size, ids := pd(1), pu(2), pu(3), pl(4)
		pid := s.ctxPid[ci]
		pages := (size-1)/s.ps + 1
		valid = addr%s.ps == 0 && size > 0 && len(ids) > 0 && s.inLiveBuf(pid, addr, pages*s.ps)
		distinct := true
		for i, id := range ids {
			if id < 1 || id > s.numGPUs {
				valid = false
			}
			for _, o := range ids[:i] {
				if o == id {
					distinct = false
				}
			}
		}
		if valid && len(ids) > 1 {
			// capacity: the plan takes per·ps pages from each GPU, the remainder from the last used
			per := int(pages) / len(ids)
			rem := int(pages) % len(ids)
			need := map[int]int{}
			last := 0
			if per > 0 {
				for i, id := range ids {
					need[id] += per
					last = i
				}
			}
			need[ids[last]] += rem
			for id, n := range need {
				if fc[id] < n {
					valid = false
				}
			}
		}
		var bytes []uint64
		fault = run(func() { bytes = s.drv.Distribute(s.ctxs[ci], driver.Ptr(addr), size, ids) })
		if fault == "" {
			var parts []string
			for _, b := range bytes {
				parts = append(parts, strconv.FormatUint(b, 10))
			}
			out = "=" + strings.Join(parts, ",")
			if valid && len(ids) > 1 {
				post = func() (string, string) {
					sum := uint64(0)
					for _, b := range bytes {
						sum += b
						if b%s.ps != 0 {
							return "C10.dist.cover", fmt.Sprintf("byte count %d not a page multiple", b)
						}
					}
					if sum != pages*s.ps || len(bytes) != len(ids) {
						return "C10.dist.cover", fmt.Sprintf("byte counts %v sum to %d, range has %d pages of %d", bytes, sum, pages, s.ps)
					}
					if !distinct {
						return "", ""
					}
					// the pages of the range are handed out in order: bytes[0]/ps pages on ids[0], …
					k, left := 0, uint64(0)
					if len(bytes) > 0 {
						left = bytes[0] / s.ps
					}
					for i := uint64(0); i < pages; i++ {
						for left == 0 && k+1 < len(bytes) {
							k++
							left = bytes[k] / s.ps
						}
						pg, ok := s.pt.Find(s.ctxs[ci].VerifPID(), addr+i*s.ps)
						if !ok || int(pg.DeviceID) != ids[k] {
							return "C10.dist.cover", fmt.Sprintf("page %d of the range: found=%v device %d, expected GPU %d (byte counts %v)", i, ok, pg.DeviceID, ids[k], bytes)
						}
						left--
					}
					return "", ""
				}
			}
		}
	case "mig":
		ci, v, g := pd(1), pu(2), pd(3)
		pid := s.ctxPid[ci]
		valid = v%s.ps == 0 && s.inLiveBuf(pid, v, s.ps) && g < s.numGPUs && s.capSingle(g+1, 1, fc)
		var np vm.Page
		var old uint64
		fault = run(func() { np, old = s.drv.VerifPreparePageForMigration(s.ctxs[ci], v, uint64(g)) })
		if fault == "" {
			out = fmt.Sprintf("=%x/%x", np.PAddr, old)
			if g >= s.numGPUs {
				// not a call the driver makes (it only iterates over actual GPUs): the entry now
				// records a non-GPU device by construction; end the case without judging the state
				s.tainted = "rmpage"
				s.skipInv = true
			}
		}
	case "rel":
		// MemoryAllocator.ReleasePhysicalPage: the driver gives the old frame of a migrated page back when the
		// page's PageMigrationRspToDriver arrives (only in the `c10 lost` scenarios)
		p := pu(1)
		fault = run(func() { s.drv.VerifReleasePhysicalPage(p) })
		out = "ok"
	case "rmpage":
		v := pu(1)
		fault = run(func() { s.drv.VerifRemovePage(v) })
		out = "ok"
		// the harness's ghost buffers do not follow single-page removal: end the case afterwards
		s.tainted = "rmpage"
	case "apg":
		ci, dev, v, u := pd(1), pd(2), pu(3), pd(4)
		pid := s.ctxPid[ci]
		valid = v%s.ps == 0 && s.inLiveBuf(pid, v, s.ps) && s.capSingle(dev, 1, fc)
		var np vm.Page
		fault = run(func() { np = s.drv.VerifAllocatePageWithGivenVAddr(s.ctxs[ci], dev, v, u == 1) })
		if fault == "" {
			out = fmt.Sprintf("=%x", np.PAddr)
		}
	case "rfb":
		ci := pd(1)
		valid = true
		bb := s.ctxs[ci].VerifBuffers()
		fault = run(func() { s.ctxs[ci].VerifRemoveFreedBuffers() })
		out = "ok"
		if fault == "" {
			post = func() (string, string) {
				var want []string
				for _, b := range bb {
					if !b.Freed {
						want = append(want, fmt.Sprintf("%x+%d", b.VAddr, b.Size))
					}
				}
				var got []string
				for _, b := range s.ctxs[ci].VerifBuffers() {
					if b.Freed {
						return "C10.rfb.kept_freed", fmt.Sprintf("freed buffer %x+%d survives removeFreedBuffers (before: %v)", b.VAddr, b.Size, bb)
					}
					got = append(got, fmt.Sprintf("%x+%d", b.VAddr, b.Size))
				}
				if strings.Join(got, ",") != strings.Join(want, ",") {
					return "C10.rfb.dropped_live", fmt.Sprintf("live buffers after %v, expected %v", got, want)
				}
				return "", ""
			}
		}
	default:
		out = "bad-op"
	}
	if fault != "" {
		res.out = c10Fault(fault)
		res.fault = true
		if valid && !(s.buddy && res.out == "fault:oom") {
			res.sig = crashSig
			res.det = fmt.Sprintf("valid op `%s` crashed: %s", op, fault)
		}
		return res
	}
	res.out = out
	if post != nil {
		res.sig, res.det = post()
	}
	return res
}

// runCase executes ops produced by next() until it returns "" or a fault / oracle failure occurs.
func c10RunCase(r *Run, cfg string, s *c10Sys, next func(s *c10Sys, step int) string, record bool) (failSig string) {
	var ops, outs []string
	cs := func() string { return cfg + " ; " + strings.Join(ops, " ; ") }
	for step := 0; ; step++ {
		op := next(s, step)
		if op == "" {
			break
		}
		ops = append(ops, op)
		r.Count("op:" + strings.Fields(op)[0])
		res := s.exec(op)
		if res.fault {
			outs = append(outs, res.out)
			r.Count("outcome:" + res.out)
			if res.sig != "" {
				r.Failf(res.sig, cs(), "%s", res.det)
				failSig = res.sig
			}
			break
		}
		es := s.entries()
		d := s.dump(es)
		s.lastDump = d
		if s.verbose {
			outs = append(outs, res.out+" "+d)
		} else {
			outs = append(outs, res.out+" #"+strconv.FormatUint(fnvStr(d), 16))
		}
		sig, det := res.sig, res.det
		if sig == "" && !s.skipInv {
			sig, det = s.checkInv(es)
		}
		if sig == "" && s.tainted != "rmpage" {
			sig, det = s.checkBuffers(es)
			if sig != "" && s.tainted != "" && s.tainted != "rmpage" {
				sig += ".cross_pid"
				det += " (after " + s.tainted + ")"
			}
		}
		r.Checked("inv")
		if sig != "" {
			r.Failf(sig, cs(), "%s", det)
			failSig = sig
			break
		}
		if s.tainted != "" {
			break
		}
	}
	if record && !s.buddy {
		r.Case(cs(), strings.Join(outs, " ; ")+" | "+s.lastDump)
	}
	return failSig
}

// ---------------------------------------------------------------- generators

func c10Size(rng *Rng, ps uint64) uint64 {
	switch rng.Intn(10) {
	case 0:
		return uint64(rng.Range(1, 200))
	case 1:
		return uint64(rng.Range(5, 8))*ps + uint64(rng.Range(0, 2)) - 1
	default:
		k := uint64(rng.Range(1, 4))
		return k*ps + uint64(rng.Range(0, 2)) - 1
	}
}

func idList(ids []int) string {
	if len(ids) == 0 {
		return "-"
	}
	p := make([]string, len(ids))
	for i, x := range ids {
		p[i] = strconv.Itoa(x)
	}
	return strings.Join(p, ",")
}

type c10Gen struct {
	rng     *Rng
	nctx    int
	multi   bool
	steps   int
	malform bool
}

func (g *c10Gen) next(s *c10Sys, step int) string {
	rng := g.rng
	if step < g.nctx {
		if step > 0 && !g.multi {
			return fmt.Sprintf("initpid %d", rng.Intn(step))
		}
		if step > 0 && rng.Chance(20) {
			return fmt.Sprintf("initpid %d", rng.Intn(step))
		}
		return "init"
	}
	if step >= g.steps {
		return ""
	}
	ci := rng.Intn(len(s.ctxs))
	pid := s.ctxPid[ci]
	ndev := s.drv.VerifNumDevices()
	var live []*c10Buf
	for _, b := range s.bufs {
		if b.pid == pid && !b.freed {
			live = append(live, b)
		}
	}
	gpuSubset := func() []int {
		if s.numGPUs == 0 {
			return []int{1}
		}
		n := rng.Range(1, s.numGPUs)
		if rng.Chance(15) {
			n = rng.Range(1, 5)
		}
		p := rng.Perm(s.numGPUs)
		var ids []int
		for i := 0; i < n; i++ {
			ids = append(ids, p[i%len(p)]+1)
		}
		return ids
	}
	if g.malform && rng.Chance(12) {
		switch rng.Intn(9) {
		case 0:
			return fmt.Sprintf("alloc %d 0", ci)
		case 1:
			return fmt.Sprintf("free %d %x", ci, uint64(rng.Range(1, 40))*s.ps)
		case 2:
			if len(live) > 0 {
				b := live[rng.Intn(len(live))]
				return fmt.Sprintf("remap %d %x %x %d", ci, b.ptr+uint64(rng.Range(1, 100)), s.ps, rng.Intn(ndev+1))
			}
		case 3:
			return fmt.Sprintf("sel %d %d", ci, ndev+rng.Intn(2))
		case 4:
			return fmt.Sprintf("unify %d %s", ci, idList([]int{rng.Intn(ndev + 1)}))
		case 5:
			return fmt.Sprintf("unify %d -", ci)
		case 6:
			if len(live) > 0 {
				b := live[rng.Intn(len(live))]
				return fmt.Sprintf("dist %d %x %x -", ci, b.ptr, b.size)
			}
		case 7:
			return fmt.Sprintf("mig %d %x %d", ci, uint64(rng.Range(1, 30))*s.ps+uint64(rng.Intn(2))*8, rng.Intn(s.numGPUs+2))
		case 8:
			for _, b := range s.bufs {
				if b.freed && b.pid == pid {
					return fmt.Sprintf("free %d %x", ci, b.ptr)
				}
			}
		}
	}
	for try := 0; try < 8; try++ {
		w := rng.Intn(100)
		switch {
		case w < 30:
			sz := c10Size(rng, s.ps)
			if !s.capSingle(s.ctxGPU[ci], int((sz-1)/s.ps+1), s.freeCounts()) && rng.Chance(92) {
				continue
			}
			return fmt.Sprintf("alloc %d %x", ci, sz)
		case w < 37:
			sz := c10Size(rng, s.ps)
			if !s.capSingle(1, int((sz-1)/s.ps+1), s.freeCounts()) && rng.Chance(92) {
				continue
			}
			return fmt.Sprintf("allocu %d %x", ci, sz)
		case w < 57:
			if len(live) > 0 {
				return fmt.Sprintf("free %d %x", ci, live[rng.Intn(len(live))].ptr)
			}
		case w < 65:
			if len(live) > 0 {
				b := live[rng.Intn(len(live))]
				off := uint64(rng.Intn(int(b.pages)))
				n := uint64(rng.Range(1, int(b.pages-off)))
				size := n * s.ps
				if rng.Chance(30) {
					size -= uint64(rng.Range(1, int(s.ps-1)))
				}
				dev := rng.Intn(ndev)
				if !s.capMulti(dev, int(n), s.freeCounts()) && rng.Chance(90) {
					continue
				}
				return fmt.Sprintf("remap %d %x %x %d", ci, b.ptr+off*s.ps, size, dev)
			}
		case w < 74:
			if len(live) > 0 && s.numGPUs > 0 {
				b := live[rng.Intn(len(live))]
				size := b.size
				if rng.Chance(30) {
					size = uint64(rng.Range(1, int(b.pages))) * s.ps
				}
				return fmt.Sprintf("dist %d %x %x %s", ci, b.ptr, size, idList(gpuSubset()))
			}
		case w < 80:
			if len(live) > 0 && s.numGPUs > 0 {
				b := live[rng.Intn(len(live))]
				gi := rng.Intn(s.numGPUs)
				if !s.capSingle(gi+1, 1, s.freeCounts()) && rng.Chance(90) {
					continue
				}
				return fmt.Sprintf("mig %d %x %d", ci, b.ptr+uint64(rng.Intn(int(b.pages)))*s.ps, gi)
			}
		case w < 87:
			return fmt.Sprintf("sel %d %d", ci, rng.Intn(ndev))
		case w < 91:
			return fmt.Sprintf("rfb %d", ci)
		case w < 94:
			if s.numGPUs > 0 {
				return fmt.Sprintf("unify %d %s", ci, idList(gpuSubset()))
			}
		case w < 96:
			if len(live) > 0 {
				b := live[rng.Intn(len(live))]
				return fmt.Sprintf("apg %d %d %x %d", ci, rng.Intn(ndev), b.ptr+uint64(rng.Intn(int(b.pages)))*s.ps, rng.Intn(2))
			}
		case w < 97:
			if len(live) > 0 && g.malform {
				b := live[rng.Intn(len(live))]
				return fmt.Sprintf("rmpage %x", b.ptr+uint64(rng.Intn(int(b.pages)))*s.ps)
			}
		default:
			if rng.Chance(50) {
				return "init"
			}
			return fmt.Sprintf("initpid %d", ci)
		}
	}
	return fmt.Sprintf("rfb %d", ci)
}

func c10RandomCase(r *Run, rng *Rng, idx int, buddy bool) {
	log2 := uint64(rng.Range(12, 16))
	real := !buddy && rng.Chance(3)
	if real {
		log2 = uint64(rng.Range(15, 16))
	}
	if buddy {
		log2 = 12
	}
	cpuPages := rng.Pick(0, 1, 2, 4, 8, 12)
	ngpu := rng.Pick(0, 1, 1, 2, 2, 3, 4, 4)
	var gpuPages []int
	for i := 0; i < ngpu; i++ {
		gpuPages = append(gpuPages, rng.Pick(1, 2, 3, 4, 6, 8, 8, 12, 16, 24))
	}
	if buddy {
		cpuPages = 1 << rng.Range(0, 4)
		for i := range gpuPages {
			gpuPages[i] = 1 << rng.Range(0, 5)
		}
	}
	if real {
		cpuPages = int((uint64(4) << 30) >> log2)
	}
	s := newC10Sys(log2, cpuPages, gpuPages, real, buddy)
	s.verbose = idx < 150
	v := 0
	if s.verbose {
		v = 1
	}
	cfg := fmt.Sprintf("c10 l2=%d cpu=%d gpus=%s real=%d v=%d", log2, cpuPages, idList(gpuPages), b2i(real), v)
	if buddy {
		cfg += " buddy=1"
	}
	multi := rng.Chance(35)
	g := &c10Gen{rng: rng, nctx: rng.Range(1, 3), multi: multi, steps: rng.Range(6, 40), malform: rng.Chance(25)}
	r.Count(fmt.Sprintf("cfg:l2=%d", log2))
	r.Count(fmt.Sprintf("cfg:gpus=%d", ngpu))
	r.Count(fmt.Sprintf("cfg:multi_pid=%v", multi))
	if real {
		r.Count("cfg:real_cpu_4GiB")
	}
	if buddy {
		r.Count("cfg:buddy")
	}
	c10RunCase(r, cfg, s, g.next, true)
}

func b2i(b bool) int {
	if b {
		return 1
	}
	return 0
}

// c10Scripted runs a fixed history (the witnesses of the refuted / repaired statements).
func c10Scripted(r *Run, log2 uint64, cpu int, gpus []int, ops []string) string {
	return c10ScriptedB(r, log2, cpu, gpus, ops, false)
}

func c10ScriptedB(r *Run, log2 uint64, cpu int, gpus []int, ops []string, buddy bool) string {
	s := newC10Sys(log2, cpu, gpus, false, buddy)
	s.verbose = true
	cfg := fmt.Sprintf("c10 l2=%d cpu=%d gpus=%s real=0 v=1", log2, cpu, idList(gpus))
	if buddy {
		cfg += " buddy=1"
	}
	return c10RunCase(r, cfg, s, func(s *c10Sys, step int) string {
		if step < len(ops) {
			return ops[step]
		}
		return ""
	}, true)
}

// c10BuddyNoFree: buddy-allocator histories WITHOUT any free (the listed buddy findings all need a
// free): multi-page remaps with non-power-of-two page counts followed by further allocations; the
// invariant oracle must see no physical page handed out twice.
func c10BuddyNoFree(r *Run) {
	for _, n := range []int{2, 3, 5, 6, 7, 9} {
		sz := fmt.Sprintf("%x", n*4096)
		next := 0x1000 + n*4096
		ops := []string{"init", "alloc 0 " + sz, fmt.Sprintf("remap 0 1000 %s 1", sz),
			"alloc 0 1000", fmt.Sprintf("remap 0 %x 1000 1", next),
			"alloc 0 2000", fmt.Sprintf("remap 0 %x 2000 1", next+0x1000),
			"alloc 0 " + sz, fmt.Sprintf("remap 0 %x %s 1", next+0x3000, sz),
			"alloc 0 1000", fmt.Sprintf("remap 0 %x 1000 1", next+0x3000+n*4096)}
		c10ScriptedB(r, 12, 8, []int{64}, ops, true)
		r.Count("buddy.nofree")
	}
}

func runC10(r *Run, rng *Rng, replay string) {
	c10BuddyNoFree(r)
	// common.go's NewRng(seed) starts splitmix64 at seed*gamma: consecutive seeds give the same
	// stream shifted by one draw. Re-seed from a mixed output so that seeds give unrelated histories.
	rng = NewRng(rng.U64() ^ (r.Seed << 32) ^ 0xC10C10)
	if f := os.Getenv("C10_CASE"); f != "" { // manual replay of one case line
		parts := strings.Split(f, ";")
		t := strings.Fields(parts[0])
		kv := map[string]string{}
		for _, x := range t[1:] {
			if i := strings.Index(x, "="); i > 0 {
				kv[x[:i]] = x[i+1:]
			}
		}
		l2, _ := strconv.Atoi(kv["l2"])
		cpu, _ := strconv.Atoi(kv["cpu"])
		var gp []int
		if kv["gpus"] != "-" && kv["gpus"] != "" {
			for _, x := range strings.Split(kv["gpus"], ",") {
				v, _ := strconv.Atoi(x)
				gp = append(gp, v)
			}
		}
		var ops []string
		for _, p := range parts[1:] {
			ops = append(ops, strings.TrimSpace(p))
		}
		fmt.Println("sig:", c10ScriptedB(r, uint64(l2), cpu, gp, ops, kv["buddy"] == "1"))
		return
	}
	// witnesses first (each is also a model case)
	// (i) mirror keyed by vaddr only: two PIDs allocate (same vaddr), A frees, B frees
	c10Scripted(r, 12, 4, []int{8}, []string{"init", "init", "alloc 0 64", "alloc 1 64", "free 0 1000", "free 1 1000"})
	// (ii) multi-page free
	c10Scripted(r, 12, 4, []int{8}, []string{"init", "alloc 0 2800", "free 0 1000", "alloc 0 3000"})
	// (iii) remap onto a unified device
	c10Scripted(r, 12, 4, []int{8, 8}, []string{"init", "unify 0 1,2", "alloc 0 2000", "remap 0 1000 2000 3"})
	// (iv) removeFreedBuffers: two adjacent freed buffers at the end; freed followed by freed
	c10Scripted(r, 12, 4, []int{8}, []string{"init", "alloc 0 10", "alloc 0 10", "alloc 0 10", "free 0 2000", "free 0 3000", "rfb 0"})
	c10Scripted(r, 12, 4, []int{8}, []string{"init", "alloc 0 10", "alloc 0 10", "alloc 0 10", "free 0 1000", "free 0 2000", "rfb 0"})
	// distribute corner grid: pages 1..9 x gpus 2..4
	for pages := 1; pages <= 9; pages++ {
		for n := 2; n <= 4; n++ {
			ids := []int{1, 2, 3, 4}[:n]
			c10Scripted(r, 12, 2, []int{12, 12, 12, 12}, []string{"init", fmt.Sprintf("alloc 0 %x", pages*4096-1),
				fmt.Sprintf("dist 0 1000 %x %s", pages*4096-1, idList(ids))})
		}
	}
	n := 1200
	nb := 150
	if r.Tier == "thorough" {
		n = 15000
		nb = 2000
	}
	for i := 0; i < n; i++ {
		c10RandomCase(r, rng, i, false)
	}
	// extension: buddy allocator at runtime-invariant level (no model correspondence)
	for i := 0; i < nb; i++ {
		c10RandomCase(r, rng, 1000000, true)
	}
}
