package main

import (
	"fmt"
	"math"
	"sort"
	"strconv"
	"strings"
	"time"

	"github.com/sarchlab/akita/v4/mem/mem"
	"github.com/sarchlab/akita/v4/sim"
	"github.com/sarchlab/mgpusim/v4/amd/emu"
	"github.com/sarchlab/mgpusim/v4/amd/insts"
	"github.com/sarchlab/mgpusim/v4/amd/kernels"
	"github.com/sarchlab/mgpusim/v4/amd/protocol"
	"github.com/sarchlab/mgpusim/v4/amd/timing/cu"
	"github.com/sarchlab/mgpusim/v4/amd/timing/wavefront"
)

// C09, compute-unit side of the MapWGReq / WGCompletionMsg protocol (model
// lean/MgpuModel/C09_CU.lean, theorems lean/MgpuProofs/Props/C09CU.lean).
//
//	c09 cuside emu P=<cycles per second> in=1 out=1 ; d <id> ; fill ; take ; f ; p
//	    a REAL emu.ComputeUnit under a REAL sim.SerialEngine (its Schedule is wrapped only to be
//	    observed). `d` = ToDispatcher.Deliver of MapWGReq <id> at the current time, `fill` = a
//	    foreign message occupies the outgoing buffer, `take` = RetrieveOutgoing, `f` = the engine
//	    fires its next event (the harness acts from the engine's after-event hook), `p` = probe.
//	    P = 10^9 is the shipped 1 GHz; smaller P (cu.Freq = P Hz) bring the whole-second logic of
//	    processMapWGReq within reach of a short run.
//	c09 cuside timing caps=.. room=.. ; e g w ; b g w ; n g w ; i g w ; m id src simds ; room n ; t
//	    a REAL timing cu.ComputeUnit (cu.MakeBuilder) ticked through its REAL Tick with instruction
//	    memory played by the harness (kernels of s_nop / s_barrier / s_endpgm). Per Tick the events
//	    are observed and written down in the order the Tick performs them: the wavefronts the
//	    scheduler's internal unit evaluates (list before the Tick), the wavefronts issued to it,
//	    the MapWGReq taken from ToACE; `t` compares states, pools and messages after the Tick.
//
// Oracles (independent bookkeeping): C09.cu.completion-twice[.whole-second] / -missing / -early /
// -wrong-id, C09.cu.pool-leak, C09.cu.pool-overflow, C09.cu.panic, C09.cu.whole-second-tie.not-replayed.
func init() { register("C09", runC09CU) }

// ---------------------------------------------------------------- shared

const (
	c09cuNop     = 0xBF800000
	c09cuEndpgm  = 0xBF810000
	c09cuBarrier = 0xBF8A0000
)

func c09cuMakeReq(dst sim.RemotePort, src string, simds []int, base uint64) *protocol.MapWGReq {
	n := len(simds)
	co := &insts.KernelCodeObject{KernelCodeObjectMeta: &insts.KernelCodeObjectMeta{}}
	pkt := &kernels.HsaKernelDispatchPacket{WorkgroupSizeX: uint16(64 * n), WorkgroupSizeY: 1, WorkgroupSizeZ: 1,
		GridSizeX: uint32(64 * n), GridSizeY: 1, GridSizeZ: 1, KernelObject: base}
	wg := kernels.NewWorkGroup()
	wg.SizeX, wg.SizeY, wg.SizeZ = 64*n, 1, 1
	wg.CurrSizeX, wg.CurrSizeY, wg.CurrSizeZ = 64*n, 1, 1
	wg.Packet, wg.CodeObject = pkt, co
	b := protocol.MapWGReqBuilder{}.WithSrc(sim.RemotePort(src)).WithDst(dst).WithPID(1).WithWG(wg)
	for i, s := range simds {
		raw := kernels.NewWavefront()
		raw.CodeObject, raw.Packet, raw.WG, raw.InitExecMask = co, pkt, wg, ^uint64(0)
		raw.FirstWiFlatID = 64 * i
		wg.Wavefronts = append(wg.Wavefronts, raw)
		b = b.AddWf(protocol.WfDispatchLocation{Wavefront: raw, SIMDID: s, VGPROffset: 64 * i, SGPROffset: 256 * i})
	}
	return b.Build()
}

func c09cuInts(l []int) string {
	p := make([]string, len(l))
	for i, x := range l {
		p[i] = strconv.Itoa(x)
	}
	return strings.Join(p, ",")
}

// ---------------------------------------------------------------- emulation compute unit

// c09cuEngine is the real serial engine; Schedule is intercepted only to see what is scheduled.
type c09cuEngine struct {
	*sim.SerialEngine
	onSchedule func(sim.Event)
}

func (e *c09cuEngine) Schedule(evt sim.Event) {
	if e.onSchedule != nil {
		e.onSchedule(evt)
	}
	e.SerialEngine.Schedule(evt)
}

type c09cuEmu struct {
	r    *Run
	rng  *Rng
	P    int
	freq sim.Freq
	eng  *c09cuEngine
	cu   *emu.ComputeUnit

	ops, outs []string
	reqs      []*protocol.MapWGReq
	idOf      map[string]int // MapWGReq.ID -> id
	wgOf      map[string]int // WorkGroup.UID -> id
	next      int            // next request to deliver
	accepted  int            // requests the port accepted

	cur       string // kind of the event being handled
	curCycle  int
	curID     int
	curSent   int // messages sent during the event
	curRetry  bool
	pend      [3]int // pending tick / emu / wgc events
	events    int
	maxEvents int
	blocked   int // keep the port full for this many more decisions

	retrieved map[int]bool
	firedWgc  map[int]bool
	msgs      [][]int
	sentCnt   map[int]int
	wholeSec  bool // a MapWGReq was taken by a Tick at a whole second (hypothesis H of the theorem)
	twice     bool
	script    []string // scripted environment ops (replay of a witness); nil: generated
	scripted  bool
}

func (e *c09cuEmu) line() string { return strings.Join(e.ops, " ; ") }
func (e *c09cuEmu) cycle(t sim.VTimeInSec) int {
	return int(math.Round(float64(t) * float64(e.freq)))
}
func (e *c09cuEmu) push(op, out string) { e.ops, e.outs = append(e.ops, op), append(e.outs, out) }

// port hook: successful sends and retrievals
func (e *c09cuEmu) Func(ctx sim.HookCtx) {
	switch ctx.Pos {
	case sim.HookPosPortMsgSend:
		m, ok := ctx.Item.(*protocol.WGCompletionMsg)
		if !ok {
			return
		}
		var ids []int
		e.r.Checked("cu-emu-completion")
		for _, s := range m.RspTo {
			id, known := e.idOf[s]
			if !known || !e.retrieved[id] {
				e.r.Failf("C09.cu.completion-wrong-id", e.line(), "emulation CU: WGCompletionMsg names %q, which is not a MapWGReq it has taken", s)
				continue
			}
			ids = append(ids, id)
			e.sentCnt[id]++
			for _, x := range ids[:len(ids)-1] {
				if x == id {
					e.twice = true // twice inside one message: never the whole-second pattern
				}
			}
			if !e.firedWgc[id] {
				e.r.Failf("C09.cu.completion-early", e.line(), "emulation CU: MapWGReq %d answered before its work-group ran", id)
			}
		}
		e.msgs = append(e.msgs, ids)
		e.curSent++
	case sim.HookPosPortMsgRetrieveIncoming:
		if m, ok := ctx.Item.(*protocol.MapWGReq); ok {
			e.retrieved[e.idOf[m.ID]] = true
			if e.cycle(e.eng.CurrentTime())%e.P == 0 {
				e.wholeSec = true
			}
		}
	}
}

type c09cuEngHook struct{ e *c09cuEmu }

func (h c09cuEngHook) Func(ctx sim.HookCtx) {
	e := h.e
	evt, ok := ctx.Item.(sim.Event)
	if !ok {
		return
	}
	switch ctx.Pos {
	case sim.HookPosBeforeEvent:
		e.curCycle, e.curSent, e.curRetry, e.curID = e.cycle(evt.Time()), 0, false, 0
		switch v := evt.(type) {
		case sim.TickEvent:
			e.cur = "tick"
			e.pend[0]--
		case *emu.WGCompleteEvent:
			e.cur = "wgc"
			e.curID = e.idOf[v.Req.ID]
			e.firedWgc[e.curID] = true
			e.pend[2]--
		default:
			if emu.VerifIsEmulationEvent(evt) {
				e.cur = "emu"
				e.pend[1]--
			} else {
				e.cur = "other"
			}
		}
	case sim.HookPosAfterEvent:
		tok := fmt.Sprintf("t%d:%s", e.curCycle, e.cur)
		if e.cur == "wgc" {
			what := "wait"
			if e.curSent > 0 {
				what = "S" + c09cuInts(e.msgs[len(e.msgs)-1])
			} else if e.curRetry {
				what = "retry"
			}
			tok = fmt.Sprintf("t%d:wgc%d:%s", e.curCycle, e.curID, what)
		}
		e.cur = ""
		e.outs = append(e.outs, tok) // answers the pending `f`
		e.events++
		e.decide()
	}
}

func (e *c09cuEmu) onSchedule(evt sim.Event) {
	switch evt.(type) {
	case sim.TickEvent:
		e.pend[0]++
	case *emu.WGCompleteEvent:
		e.pend[2]++
		if e.cur == "wgc" {
			e.curRetry = true
		}
	default:
		if emu.VerifIsEmulationEvent(evt) {
			e.pend[1]++
		}
	}
}

func (e *c09cuEmu) outFull() bool { return e.cu.ToDispatcher.PeekOutgoing() != nil }

func (e *c09cuEmu) opDeliver() {
	if e.next >= len(e.reqs) {
		return
	}
	id := e.next + 1
	if e.cu.ToDispatcher.Deliver(e.reqs[e.next]) == nil {
		e.push(fmt.Sprintf("d %d", id), "ok")
		e.next++
	} else {
		e.push(fmt.Sprintf("d %d", id), "full") // kept, delivered again later
	}
}

func (e *c09cuEmu) opFill() {
	f := &c09Filler{}
	f.Src, f.Dst = e.cu.ToDispatcher.AsRemote(), "Nowhere"
	if e.cu.ToDispatcher.Send(f) == nil {
		e.push("fill", "ok")
	} else {
		e.push("fill", "full")
	}
}

func (e *c09cuEmu) opTake() {
	m := e.cu.ToDispatcher.RetrieveOutgoing()
	switch v := m.(type) {
	case nil:
		e.push("take", "-")
	case *protocol.WGCompletionMsg:
		var ids []int
		for _, s := range v.RspTo {
			ids = append(ids, e.idOf[s])
		}
		e.push("take", "M"+c09cuInts(ids))
	default:
		e.push("take", "M")
	}
}

func (e *c09cuEmu) opProbe() {
	st := e.cu.VerifC09CUState()
	ids := func(l []string, m map[string]int) []int {
		var o []int
		for _, s := range l {
			o = append(o, m[s])
		}
		return o
	}
	wfs := ids(st.MappedWG, e.wgOf)
	sort.Ints(wfs)
	in, out := 0, 0
	if e.cu.ToDispatcher.PeekIncoming() != nil {
		in = 1
	}
	if e.outFull() {
		out = 1
	}
	e.push("p", fmt.Sprintf("now=%d;nt=%d;q=%s;wfs=%s;fin=%s;ev=%d/%d/%d;in=%d;out=%d",
		e.cycle(e.eng.CurrentTime()), e.cycle(st.NextTick), c09cuInts(ids(st.Queueing, e.idOf)), c09cuInts(wfs),
		c09cuInts(ids(st.Finished, e.idOf)), e.pend[0], e.pend[1], e.pend[2], in, out))
}

// decide performs the environment's actions at the current time and then asks for the next event.
func (e *c09cuEmu) decide() {
	rng := e.rng
	for e.scripted && len(e.script) > 0 {
		op := e.script[0]
		e.script = e.script[1:]
		switch op {
		case "f":
			e.ops = append(e.ops, "f")
			return
		case "d":
			e.opDeliver()
		case "fill":
			e.opFill()
		case "take":
			e.opTake()
		}
	}
	if e.scripted {
		e.maxEvents = e.events // script over: drain
	}
	drain := e.events >= e.maxEvents
	if drain {
		if e.outFull() {
			e.opTake()
		}
		e.opDeliver()
	} else {
		if rng.Chance(25) {
			e.opProbe()
		}
		for k := rng.Intn(3); k > 0; k-- {
			switch c := rng.Intn(100); {
			case c < 40:
				e.opDeliver()
			case c < 60:
				if e.blocked == 0 && rng.Chance(30) {
					e.blocked = rng.Range(2, 3*e.P+4)
					if e.P > 100 {
						e.blocked = rng.Range(2, 12)
					}
				}
				if !e.outFull() {
					e.opFill()
				}
			default:
				if e.blocked == 0 {
					e.opTake()
				}
			}
		}
		if e.blocked > 0 {
			e.blocked--
			if !e.outFull() {
				e.opFill()
			}
		}
	}
	e.ops = append(e.ops, "f") // answered by the next after-event hook, or `idle`
}

// c09cuWitness: the run `wholeSecondOps` of Props/C09CU.lean on the real emu.ComputeUnit and the
// real sim.SerialEngine, cu.Freq = 1 Hz: request 2 is taken at a whole second while the retry of
// request 1 is pending, both completion events tie and the heap pops the retry second. Before
// `fix:` 776c38a7 request 1 was answered twice (emu_exactly_once_full_before_fix_refuted,
// messages [1 2] [1]); the repaired code must send exactly [1 2] (emu_exactly_once_full_holds).
var c09cuWitness = strings.Fields("d fill f f f f d f f take f f f take take f")

func c09cuEmuCase(r *Run, rng *Rng, P int, script ...string) {
	e := &c09cuEmu{r: r, rng: rng, P: P, idOf: map[string]int{}, wgOf: map[string]int{},
		retrieved: map[int]bool{}, firedWgc: map[int]bool{}, sentCnt: map[int]int{}}
	if len(script) > 0 {
		e.script, e.scripted = script, true
	}
	e.freq = sim.Freq(P) * sim.Hz
	e.eng = &c09cuEngine{SerialEngine: sim.NewSerialEngine()}
	e.eng.onSchedule = e.onSchedule
	e.eng.AcceptHook(c09cuEngHook{e})
	acc := c09Code{} // every instruction fetch of the emulator reads s_endpgm
	e.cu = emu.NewComputeUnit("EmuCU", e.eng, insts.NewDisassembler(), emu.NewALU(acc), acc)
	e.cu.Freq = e.freq
	e.cu.ToDispatcher.SetConnection(&fakeConn{name: "c"})
	e.cu.ToDispatcher.AcceptHook(e)
	n := rng.Range(1, 5)
	if e.scripted {
		n = 0
		for _, o := range script {
			if o == "d" {
				n++
			}
		}
	}
	for i := 0; i < n; i++ {
		req := c09cuMakeReq(e.cu.ToDispatcher.AsRemote(), fmt.Sprintf("Disp%d.Port", rng.Intn(2)),
			make([]int, rng.Range(1, 3)), 0x1000)
		e.reqs = append(e.reqs, req)
		e.idOf[req.ID] = i + 1
		e.wgOf[req.WorkGroup.UID] = i + 1
	}
	e.maxEvents = rng.Range(6, 40)
	e.ops = []string{fmt.Sprintf("c09 cuside emu P=%d in=1 out=1", P)}
	head := len(e.ops)
	ok, fault := withTimeout(20*time.Second, func() {
		e.decide()
		for round := 0; round < 400; round++ {
			if err := e.eng.Run(); err != nil {
				panic(err)
			}
			e.outs = append(e.outs, "idle")
			if e.events >= e.maxEvents && e.next >= len(e.reqs) && !e.outFull() {
				return
			}
			if e.events < e.maxEvents && e.next >= len(e.reqs) && e.rng.Chance(50) {
				e.maxEvents = e.events // nothing left to interleave: drain
			}
			e.decide()
		}
		panic("c09cu: no quiescence after 400 rounds")
	})
	cs := e.line()
	r.Count(fmt.Sprintf("c09cu.emu.P=%d", P))
	if e.scripted {
		r.Count("c09cu.emu.witness-replay")
		r.Checked("cu-emu-whole-second-tie")
		dup := false
		for _, c := range e.sentCnt {
			dup = dup || c > 1
		}
		if e.wholeSec && len(e.msgs) == 1 && len(e.msgs[0]) == 2 && e.msgs[0][0] == 1 && e.msgs[0][1] == 2 {
			r.Note("emu whole-second tie (witness of the defect repaired by 776c38a7) replayed on the real CU and engine: one answer per request, messages %v", e.msgs)
		} else if ok && fault == "" && !dup {
			// a duplicate answer is reported below (C09.cu.completion-twice.whole-second); anything
			// else means the script no longer reaches the tie
			r.Failf("C09.cu.whole-second-tie.not-replayed", cs, "emulation CU, scripted whole-second tie: messages %v, expected exactly [[1 2]] (request taken at a whole second: %v)", e.msgs, e.wholeSec)
		}
	}
	if e.wholeSec {
		r.Count("c09cu.emu.request-taken-at-a-whole-second")
	}
	if !ok || fault != "" {
		r.Failf("C09.cu.panic", cs, "emulation CU scenario: finished=%v fault=%q", ok, fault)
		return
	}
	if len(e.outs) != len(e.ops)-head {
		panic(fmt.Sprintf("c09cu: %d ops, %d answers", len(e.ops)-head, len(e.outs)))
	}
	e.opProbe()
	r.Case(cs+" ; p", strings.Join(e.outs, " "))
	// oracles at quiescence
	r.Checked("cu-emu-exactly-once")
	for id := 1; id <= len(e.reqs); id++ {
		switch c := e.sentCnt[id]; {
		case c == 0:
			r.Failf("C09.cu.completion-missing", cs, "emulation CU: MapWGReq %d never answered (engine idle, port drained); messages %v", id, e.msgs)
		case c > 1 && e.wholeSec && !e.twice && P < 1000000000:
			// the defect repaired by 776c38a7 (emu_exactly_once_full_before_fix_refuted): a request
			// taken at a whole second, a retry event popped second, the id appended again
			r.Failf("C09.cu.completion-twice.whole-second", cs, "emulation CU: MapWGReq %d answered %d times; messages %v", id, c, e.msgs)
		case c > 1:
			r.Failf("C09.cu.completion-twice", cs, "emulation CU: MapWGReq %d answered %d times; messages %v", id, c, e.msgs)
		}
	}
	st := e.cu.VerifC09CUState()
	r.Checked("cu-emu-leak")
	if len(st.Queueing)+len(st.MappedWG)+len(st.Finished) != 0 {
		r.Failf("C09.cu.pool-leak", cs, "emulation CU at quiescence: queue %v, mapped %v, finished %v", st.Queueing, st.MappedWG, st.Finished)
	}
}

// ---------------------------------------------------------------- timing compute unit

type c09cuGroup struct {
	id, src  int
	req      *protocol.MapWGReq
	simds    []int
	prog     []uint32
	entry    []int // first instruction of each wavefront
	wfs      []*wavefront.Wavefront
	answered int
	released bool
	base     uint64
}

type c09cuFetch struct {
	rsp *mem.DataReadyRsp
	due int
}

type c09cuT struct {
	r   *Run
	rng *Rng
	eng *fakeEngine
	cu  *cu.ComputeUnit
	sch *cu.SchedulerImpl

	nsimd, poolCap int
	groups         []*c09cuGroup
	mapped         []*c09cuGroup
	key            map[*wavefront.Wavefront][2]int
	ops, outs      []string
	room           int
	fillers        int
	fetches        []c09cuFetch
	tickNo         int
	sentTick       []string
	occ            []int // the dispatcher's view: wavefronts of unanswered groups per SIMD
	fetchMax       int
	dead           bool
}

func (t *c09cuT) line() string { return strings.Join(t.ops, " ; ") }
func (t *c09cuT) push(op, out string) {
	t.ops, t.outs = append(t.ops, op), append(t.outs, out)
}

// port hook on ToACE: completion messages in the order they are sent
func (t *c09cuT) Func(ctx sim.HookCtx) {
	if ctx.Pos != sim.HookPosPortMsgSend {
		return
	}
	m, ok := ctx.Item.(*protocol.WGCompletionMsg)
	if !ok {
		return
	}
	t.r.Checked("cu-timing-completion")
	if len(m.RspTo) != 1 {
		t.r.Failf("C09.cu.completion-wrong-id", t.line(), "timing CU: WGCompletionMsg with %d ids", len(m.RspTo))
		return
	}
	var g *c09cuGroup
	for _, x := range t.mapped {
		if x.req.ID == m.RspTo[0] {
			g = x
		}
	}
	if g == nil {
		t.r.Failf("C09.cu.completion-wrong-id", t.line(), "timing CU: WGCompletionMsg names %q, not a MapWGReq it has taken", m.RspTo[0])
		t.sentTick = append(t.sentTick, "?")
		return
	}
	dst := -1
	fmt.Sscanf(string(m.Dst), "Disp%d.Port", &dst)
	if m.Dst != g.req.Src {
		t.r.Failf("C09.cu.completion-wrong-id", t.line(), "timing CU: completion of MapWGReq %d goes to %s, requester was %s", g.id, m.Dst, g.req.Src)
	}
	g.answered++
	if g.answered > 1 {
		t.r.Failf("C09.cu.completion-twice", t.line(), "timing CU: MapWGReq %d answered %d times", g.id, g.answered)
	}
	t.sentTick = append(t.sentTick, fmt.Sprintf("%d>%d", g.id, dst))
}

func (t *c09cuT) word(a uint64) uint32 {
	for _, g := range t.groups {
		if a >= g.base && a < g.base+0x1000 {
			k := int(a-g.base) / 4
			if k < len(g.prog) {
				return g.prog[k]
			}
		}
	}
	return c09cuEndpgm
}

func c09cuLetter(s wavefront.WfState) byte {
	switch s {
	case wavefront.WfReady:
		return 'R'
	case wavefront.WfRunning:
		return 'N'
	case wavefront.WfAtBarrier:
		return 'B'
	case wavefront.WfCompleted:
		return 'C'
	}
	return '?'
}

func (t *c09cuT) digest() string {
	var sts []string
	for _, g := range t.mapped {
		b := make([]byte, len(g.wfs))
		for i, wf := range g.wfs {
			b[i] = c09cuLetter(wf.State)
		}
		sts = append(sts, string(b))
	}
	var pools []string
	for s := 0; s < t.nsimd; s++ {
		var p []string
		for _, wf := range t.cu.VerifPoolWfs(s) {
			if k, ok := t.key[wf]; ok {
				p = append(p, fmt.Sprintf("%d.%d", k[0], k[1]))
			} else {
				p = append(p, "?")
			}
		}
		pools = append(pools, strings.Join(p, ","))
	}
	return fmt.Sprintf("st=%s;pools=%s;sent=%s", strings.Join(sts, "/"), strings.Join(pools, "|"), strings.Join(t.sentTick, ","))
}

// setRoom: the outgoing buffer of ToACE (capacity 4) holds 4-room foreign messages; the CU's
// own messages of the last tick are taken out first.
func (t *c09cuT) setRoom(room int) {
	for t.cu.ToACE.RetrieveOutgoing() != nil {
	}
	for k := 0; k < 4-room; k++ {
		f := &c09Filler{}
		f.Src, f.Dst = t.cu.ToACE.AsRemote(), "Nowhere"
		if t.cu.ToACE.Send(f) != nil {
			panic("c09cu: filler rejected")
		}
	}
	if room != t.room {
		t.push(fmt.Sprintf("room %d", room), ".")
		t.room = room
	}
}

// tick: one real Tick; toMap (may be nil) is delivered to ToACE first.
func (t *c09cuT) tick(toMap *c09cuGroup) {
	// instruction memory answers
	rest := t.fetches[:0]
	for _, f := range t.fetches {
		if f.due <= t.tickNo && t.cu.ToInstMem.Deliver(f.rsp) == nil {
			continue
		}
		rest = append(rest, f) // not yet due, or the buffer was full: kept
	}
	t.fetches = rest
	if toMap != nil {
		if t.cu.ToACE.Deliver(toMap.req) != nil {
			panic("c09cu: ToACE incoming buffer full")
		}
	}
	pre := append([]*wavefront.Wavefront(nil), t.sch.VerifInternalExecuting()...)
	preInst := map[*wavefront.Wavefront]*wavefront.Inst{}
	for _, wf := range pre {
		preInst[wf] = wf.DynamicInst()
	}
	var evs []string
	for _, wf := range pre {
		k, ok := t.key[wf]
		if !ok {
			panic("c09cu: unknown wavefront in internalExecuting")
		}
		if wf.State == wavefront.WfReady {
			t.r.Count("c09cu.timing.ready-guard-skip")
			continue
		}
		switch wf.Inst().Opcode {
		case 1:
			evs = append(evs, fmt.Sprintf("e %d %d", k[0], k[1]))
			// distribution: which branch of evalSEndPgm this evaluation is about to take
			others, atBar := 0, 0
			for _, o := range wf.WG.Wfs {
				if o != wf && o.State != wavefront.WfCompleted {
					others++
					if o.State == wavefront.WfAtBarrier {
						atBar++
					}
				}
			}
			switch {
			case others == 0 && t.room == 0:
				t.r.Count("c09cu.timing.endpgm:last-port-full")
			case others == 0:
				t.r.Count("c09cu.timing.endpgm:last")
			case atBar == others:
				t.r.Count("c09cu.timing.endpgm:others-at-barrier")
			default:
				t.r.Count("c09cu.timing.endpgm:others-executing")
			}
		case 10:
			evs = append(evs, fmt.Sprintf("b %d %d", k[0], k[1]))
		default:
			evs = append(evs, fmt.Sprintf("n %d %d", k[0], k[1]))
		}
	}
	t.sentTick = nil
	t.eng.now += 1e-9
	fault := catch(func() { t.cu.Tick() })
	t.tickNo++
	for _, wf := range t.sch.VerifInternalExecuting() {
		// issued in this tick: new in the list, or evaluated and issued again (another instruction object)
		if old, was := preInst[wf]; !was || old != wf.DynamicInst() {
			k := t.key[wf]
			evs = append(evs, fmt.Sprintf("i %d %d", k[0], k[1]))
		}
	}
	for _, o := range evs {
		t.push(o, ".")
	}
	if fault != "" {
		t.r.Failf("C09.cu.panic", t.line(), "timing CU: Tick panicked: %s", fault)
		t.push("t", "fault:"+fault)
		t.dead = true
		return
	}
	if toMap != nil {
		if t.cu.ToACE.PeekIncoming() != nil {
			panic("c09cu: MapWGReq not taken in the tick it was delivered")
		}
		g := toMap
		t.mapped = append(t.mapped, g)
		g.wfs = make([]*wavefront.Wavefront, len(g.simds))
		for s := 0; s < t.nsimd; s++ {
			for _, wf := range t.cu.VerifPoolWfs(s) {
				for i, raw := range g.req.WorkGroup.Wavefronts {
					if wf.Wavefront == raw {
						g.wfs[i] = wf
						t.key[wf] = [2]int{g.id, i}
						if s != g.simds[i] {
							t.r.Failf("C09.cu.pool-leak", t.line(), "timing CU: wavefront %d.%d placed in pool %d, MapWGReq says %d", g.id, i, s, g.simds[i])
						}
					}
				}
			}
		}
		for i, wf := range g.wfs {
			if wf == nil {
				t.r.Failf("C09.cu.pool-leak", t.line(), "timing CU: wavefront %d.%d is in no pool after MapWGReq", g.id, i)
				t.dead = true
				return
			}
			wf.SetPC(g.base + uint64(4*g.entry[i])) // nothing fetched yet: fetch precedes processInput
		}
		t.push(fmt.Sprintf("m %d %d %s", g.id, g.src, c09cuInts(g.simds)), ".")
	}
	// instruction fetches of this tick
	for {
		m := t.cu.ToInstMem.RetrieveOutgoing()
		if m == nil {
			break
		}
		q := m.(*mem.ReadReq)
		data := make([]byte, 64)
		for k := 0; k < 16; k++ {
			w := t.word(q.Address + uint64(4*k))
			data[4*k], data[4*k+1], data[4*k+2], data[4*k+3] = byte(w), byte(w>>8), byte(w>>16), byte(w>>24)
		}
		rsp := mem.DataReadyRspBuilder{}.WithSrc(t.cu.InstMem.AsRemote()).WithDst(t.cu.ToInstMem.AsRemote()).
			WithRspTo(q.ID).WithData(data).Build()
		t.fetches = append(t.fetches, c09cuFetch{rsp: rsp, due: t.tickNo + t.rng.Intn(t.fetchMax+1)})
	}
	t.push("t", t.digest())
	t.room -= len(t.sentTick)
	// oracles after the tick
	t.r.Checked("cu-timing-tick")
	for _, g := range t.mapped {
		done := 0
		for _, wf := range g.wfs {
			if wf.State == wavefront.WfCompleted {
				done++
			}
		}
		if g.answered > 0 && done != len(g.wfs) {
			t.r.Failf("C09.cu.completion-early", t.line(), "timing CU: MapWGReq %d answered with %d of %d wavefronts completed", g.id, done, len(g.wfs))
		}
		if g.answered == 0 && done == len(g.wfs) {
			t.r.Failf("C09.cu.completion-missing", t.line(), "timing CU: all wavefronts of MapWGReq %d completed, no WGCompletionMsg", g.id)
		}
		if g.answered > 0 && !g.released { // the dispatcher frees its slots
			for _, s := range g.simds {
				t.occ[s]--
			}
			g.released = true
		}
	}
	for s := 0; s < t.nsimd; s++ {
		res := t.cu.VerifPoolWfs(s)
		if len(res) > t.poolCap {
			t.r.Failf("C09.cu.pool-overflow", t.line(), "timing CU: pool %d holds %d wavefronts, capacity %d", s, len(res), t.poolCap)
		}
		n := 0
		for _, wf := range res {
			k, ok := t.key[wf]
			if !ok {
				continue
			}
			for _, g := range t.mapped {
				if g.id == k[0] && g.answered > 0 {
					t.r.Failf("C09.cu.pool-leak", t.line(), "timing CU: wavefront %d.%d still in pool %d after the completion of its work-group was sent", k[0], k[1], s)
				}
			}
			n++
		}
		if n != t.occ[s] {
			t.r.Failf("C09.cu.pool-leak", t.line(), "timing CU: pool %d holds %d wavefronts, unanswered MapWGReqs placed %d there", s, n, t.occ[s])
		}
	}
}

func c09cuTimingCase(r *Run, rng *Rng) {
	t := &c09cuT{r: r, rng: rng, eng: &fakeEngine{}, key: map[*wavefront.Wavefront][2]int{}}
	t.nsimd = rng.Pick(1, 2, 4, 4)
	t.poolCap = rng.Pick(1, 2, 3, 10)
	t.fetchMax = rng.Pick(0, 1, 3, 6)
	c := cu.MakeBuilder().WithEngine(t.eng).WithFreq(1 * sim.GHz).WithSIMDCount(t.nsimd).WithWfPoolSize(t.poolCap).
		WithVectorMemModules(&mem.SinglePortMapper{Port: sim.RemotePort("VMem")}).Build("CU")
	for _, p := range []sim.Port{c.ToACE, c.ToInstMem, c.ToScalarMem, c.ToVectorMem, c.ToCP} {
		p.SetConnection(&fakeConn{name: "c"})
	}
	c.InstMem = sim.NewPort(c, 4, 4, "IMem")
	c.ScalarMem = sim.NewPort(c, 4, 4, "SMem")
	c.ToACE.AcceptHook(t)
	t.cu, t.sch = c, c.VerifScheduler()
	t.occ = make([]int, t.nsimd)
	t.room = 4
	caps := make([]int, t.nsimd)
	for i := range caps {
		caps[i] = t.poolCap
	}
	t.ops = []string{fmt.Sprintf("c09 cuside timing caps=%s room=4", c09cuInts(caps))}
	head := len(t.ops)
	// the work-groups
	n := rng.Range(1, 4)
	for gi := 0; gi < n; gi++ {
		g := &c09cuGroup{id: gi + 1, src: rng.Intn(2), base: uint64(0x1000 * (gi + 1))}
		nwf := rng.Range(1, 4)
		if nwf > t.nsimd*t.poolCap {
			nwf = t.nsimd * t.poolCap
		}
		for len(g.prog) < rng.Intn(3) {
			g.prog = append(g.prog, c09cuNop)
		}
		after := 0
		for nb := rng.Pick(0, 0, 1, 1, 2); nb > 0; nb-- {
			g.prog = append(g.prog, c09cuBarrier)
			for k := rng.Intn(2); k > 0; k-- {
				g.prog = append(g.prog, c09cuNop)
			}
			after = len(g.prog)
		}
		g.prog = append(g.prog, c09cuEndpgm)
		for i := 0; i < nwf; i++ {
			e := 0
			if after > 0 && rng.Chance(30) {
				e = rng.Range(1, after) // early exit: starts behind some or all barriers
			}
			g.entry = append(g.entry, e)
		}
		g.simds = make([]int, nwf)
		t.groups = append(t.groups, g)
	}
	next := 0
	blocked := 0
	for step := 0; step < 400 && !t.dead; step++ {
		// port room
		room := t.room
		switch {
		case step > 250:
			room = 4
		case blocked > 0:
			blocked--
			room = 0
		case rng.Chance(12):
			blocked = rng.Range(1, 8)
			room = 0
		case rng.Chance(30):
			room = rng.Pick(1, 1, 2, 4)
		}
		t.setRoom(room)
		// a new work-group, if the dispatcher's slot accounting admits it
		var toMap *c09cuGroup
		if next < len(t.groups) && (rng.Chance(35) || step > 200) {
			g := t.groups[next]
			free := make([]int, t.nsimd)
			for s := range free {
				free[s] = t.poolCap - t.occ[s]
			}
			okAll := true
			s0 := rng.Intn(t.nsimd)
			for i := range g.simds {
				placed := false
				for d := 0; d < t.nsimd; d++ {
					s := (s0 + i + d) % t.nsimd
					if free[s] > 0 {
						free[s]--
						g.simds[i] = s
						placed = true
						break
					}
				}
				okAll = okAll && placed
			}
			if okAll {
				for _, s := range g.simds {
					t.occ[s]++
				}
				g.req = c09cuMakeReq(t.cu.ToACE.AsRemote(), fmt.Sprintf("Disp%d.Port", g.src), g.simds, g.base)
				toMap = g
				next++
			}
		}
		t.tick(toMap)
		if next == len(t.groups) && !t.dead {
			all := true
			for _, g := range t.mapped {
				all = all && g.answered > 0
			}
			if all && len(t.mapped) == len(t.groups) {
				break
			}
		}
	}
	cs := t.line()
	r.Count("c09cu.timing")
	r.Count(fmt.Sprintf("c09cu.timing.groups=%d", len(t.groups)))
	if len(t.outs) != len(t.ops)-head {
		panic("c09cu: ops and answers out of step")
	}
	r.Case(cs, strings.Join(t.outs, " "))
	if t.dead {
		return
	}
	r.Checked("cu-timing-all-answered")
	for _, g := range t.groups {
		if g.answered == 0 {
			r.Failf("C09.cu.completion-missing", cs, "timing CU: MapWGReq %d not answered after %d ticks (mapped %d of %d groups)", g.id, t.tickNo, len(t.mapped), len(t.groups))
		}
	}
	for s := 0; s < t.nsimd; s++ {
		if len(t.cu.VerifPoolWfs(s)) != 0 && next == len(t.groups) {
			r.Failf("C09.cu.pool-leak", cs, "timing CU: pool %d not empty after every work-group was answered", s)
		}
	}
}

// ---------------------------------------------------------------- entry

func runC09CU(r *Run, rng *Rng, replay string) {
	nEmu, nT := 260, 160
	if r.Tier == "thorough" {
		nEmu, nT = 4000, 2000
	}
	c09cuEmuCase(r, rng, 1, c09cuWitness...)
	for i := 0; i < nEmu; i++ {
		c09cuEmuCase(r, rng, rng.Pick(1000000000, 1000000000, 1, 2, 2, 3, 3, 4, 5))
	}
	for i := 0; i < nT; i++ {
		c09cuTimingCase(r, rng)
	}
}
