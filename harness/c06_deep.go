package main

// Property C06, deepening — correspondence for the TRANSLATED lane bodies (`Gen/LaneBodies.lean`,
// written by translate/lanebody.go from the statements inside the lane loops of the integer vector
// handlers).  One case line = one iteration of one lane loop:
//
//   c06 body <arch> <handler> i=<lane> s0= s1= s2= d= vcc= sd= dw= mos= mod= sdwa= clamp= abs= neg= omod= s0sel= s1sel= dsel= dun=
//
// The inputs are what the real code sees: the harness loads a random architectural state, sets
// EXEC = 1<<i, reads `wf.ReadOperand(inst.SrcK, i)` / `inst.Dst` / VCC / s[20:21] from the real
// wavefront, runs the real `ALU.Run`, and records the destination row of lane i, VCC and s[20:21]
// afterwards.  The Lean driver applies `raw_<arch>_<handler>` (the translated body) to the same inputs
// and routes the accumulator through the translated write-back kind.  A change to a body therefore
// breaks either the regenerated `LaneUniform` proof or this correspondence with a concrete input.
// Every VOP1/VOP2/VOPC/VOP3a/VOP3b opcode whose handler is translated is covered with all operand
// variants of harness/c06.go plus SDWA encodings of the VOP2 opcodes (which most handlers refuse:
// the translated `ok` condition must then say `fault`).

import (
	"encoding/binary"
	"fmt"
	"io"
	"log"
	"os"
	"path/filepath"
	"regexp"
	"sort"
	"strings"

	"github.com/sarchlab/mgpusim/v4/amd/emu"
	"github.com/sarchlab/mgpusim/v4/amd/emu/cdna3"
	"github.com/sarchlab/mgpusim/v4/amd/insts"
)

func init() { register("C06", runC06Deep) }

// c06Coverage reads the coverage rows of the regenerated Gen/LaneBodies.lean: "arch.name" -> kind
func c06Coverage() (map[string]string, error) {
	var cands []string
	if root := os.Getenv("VERIF_ROOT"); root != "" {
		cands = append(cands, filepath.Join(root, "lean/MgpuModel/Gen/LaneBodies.lean"))
	}
	if exe, err := os.Executable(); err == nil {
		cands = append(cands, filepath.Join(filepath.Dir(exe), "../../lean/MgpuModel/Gen/LaneBodies.lean"))
	}
	if wd, err := os.Getwd(); err == nil {
		cands = append(cands, filepath.Join(wd, "../../lean/MgpuModel/Gen/LaneBodies.lean"), filepath.Join(wd, "../lean/MgpuModel/Gen/LaneBodies.lean"))
	}
	re := regexp.MustCompile(`^\s*⟨"([a-z0-9]+)", "([A-Za-z0-9_]+)", \.([A-Za-z]+)`)
	for _, p := range cands {
		b, err := os.ReadFile(p)
		if err != nil {
			continue
		}
		out := map[string]string{}
		reX := regexp.MustCompile(`^\s*\("([a-z0-9]+)", "([A-Za-z0-9_]+)"\)`)
		inExact := false
		for _, ln := range strings.Split(string(b), "\n") {
			if m := re.FindStringSubmatch(ln); m != nil {
				out[m[1]+"."+m[2]] = m[3]
			}
			if strings.HasPrefix(ln, "def mh_") {
				if f := strings.Fields(ln); len(f) >= 2 {
					parts := strings.SplitN(strings.TrimPrefix(f[1], "mh_"), "_", 2)
					if len(parts) == 2 {
						out["mh:"+parts[0]+"."+parts[1]] = "yes"
					}
				}
			}
			if strings.HasPrefix(ln, "def exactFloat") {
				inExact = true
				continue
			}
			if inExact {
				if m := reX.FindStringSubmatch(ln); m != nil {
					out["exact:"+m[1]+"."+m[2]] = "yes"
				} else {
					inExact = false
				}
			}
		}
		return out, nil
	}
	return nil, fmt.Errorf("Gen/LaneBodies.lean not found (tried %v)", cands)
}

func c06OperandVal(c *c06env, op *insts.Operand, lane int) (v uint64, fault string) {
	if op == nil {
		return 0, ""
	}
	fault = c06catch(func() { v = c.e.wf.ReadOperand(op, lane) })
	return
}

// where a scalar mask destination operand points: "vcc", "sd" (= s[20:21]) or "none"
func c06MaskTarget(op *insts.Operand) string {
	if op == nil || op.OperandType != insts.RegOperand || op.Register == nil {
		return "none"
	}
	switch {
	case op.Register.RegType == insts.VCC || op.Register.RegType == insts.VCCLO:
		return "vcc"
	case op.Register == insts.SReg(c06MaskO):
		return "sd"
	}
	return "none"
}

func c06b2i(b bool) int {
	if b {
		return 1
	}
	return 0
}

func c06NanCanon(isF bool, dw int, v uint64) string {
	if isF && dw == 32 && (v>>23)&0xff == 0xff && v&0x7fffff != 0 {
		return "nan"
	}
	if isF && dw == 64 && (v>>52)&0x7ff == 0x7ff && v&0xfffffffffffff != 0 {
		return "nan"
	}
	return fmt.Sprintf("%x", v)
}

func (c *c06env) bodyCase(ci *c06inst, st *c06state, lane int, isF bool) {
	r := c.r
	inst := ci.inst
	s2 := *st
	s2.exec = uint64(1) << uint(lane)
	c.load(&s2)
	var vals [4]uint64
	for k, op := range []*insts.Operand{inst.Src0, inst.Src1, inst.Src2} {
		v, f := c06OperandVal(c, op, lane)
		if f != "" {
			r.Count("body-skip:operand-unreadable")
			return
		}
		vals[k] = v
	}
	dw := 0
	if inst.Dst != nil && inst.Dst.OperandType == insts.RegOperand && inst.Dst.Register != nil && inst.Dst.Register.IsVReg() {
		n := inst.Dst.RegCount
		if n < 1 {
			n = 1
		}
		if n > 2 {
			r.Count("body-skip:wide-destination")
			return
		}
		dw = 32 * n
		v, f := c06OperandVal(c, inst.Dst, lane)
		if f != "" {
			r.Count("body-skip:operand-unreadable")
			return
		}
		vals[3] = v
	}
	sd := binary.LittleEndian.Uint64(s2.s[c06MaskO*4:])
	line := fmt.Sprintf("c06 body %s %s i=%d s0=%x s1=%x s2=%x d=%x vcc=%x sd=%x dw=%x mos=%s mod=%s sdwa=%d clamp=%d abs=%x neg=%x omod=%x s0sel=%x s1sel=%x dsel=%x dun=%x",
		ci.arch, ci.handler, lane, vals[0], vals[1], vals[2], vals[3], s2.vcc, sd, dw, c06MaskTarget(inst.SDst), c06MaskTarget(inst.Dst),
		c06b2i(inst.IsSdwa), c06b2i(inst.Clamp), uint64(inst.Abs), uint64(inst.Neg), uint64(inst.Omod),
		uint32(inst.Src0Sel), uint32(inst.Src1Sel), uint32(inst.DstSel), uint8(inst.DstUnused))
	res := c.runOn(ci, &s2, 1)
	r.Count("body:" + ci.arch + "/" + ci.format)
	if res.fault != "" {
		r.Count("body-fault:" + ci.arch + "." + ci.handler)
		r.Case(line, "fault")
		return
	}
	d := "-"
	if dw != 0 {
		v, _ := c06OperandVal(c, inst.Dst, lane) // the wavefront still holds the post-state
		d = c06NanCanon(isF, dw, v)
	}
	r.Case(line, fmt.Sprintf("d=%s vcc=%x sd=%x", d, res.vcc, binary.LittleEndian.Uint64(res.s[c06MaskO*4:])))
}

// goRunCase: one whole instruction under an arbitrary EXEC against the Lean `goRun` of the translated handler
func (c *c06env) goRunCase(ci *c06inst, st *c06state, exec uint64) {
	r := c.r
	inst := ci.inst
	s2 := *st
	s2.exec = exec
	c.load(&s2)
	var cols [4][]string
	ops := []*insts.Operand{inst.Src0, inst.Src1, inst.Src2, nil}
	dw := 0
	if inst.Dst != nil && inst.Dst.OperandType == insts.RegOperand && inst.Dst.Register != nil && inst.Dst.Register.IsVReg() {
		n := inst.Dst.RegCount
		if n < 1 {
			n = 1
		}
		if n > 2 {
			r.Count("gorun-skip:wide-destination")
			return
		}
		dw = 32 * n
		ops[3] = inst.Dst
	}
	for k, op := range ops {
		for lane := 0; lane < 64; lane++ {
			v, f := c06OperandVal(c, op, lane)
			if f != "" {
				r.Count("gorun-skip:operand-unreadable")
				return
			}
			cols[k] = append(cols[k], fmt.Sprintf("%x", v))
		}
	}
	s2k := "v"
	if inst.Src2 != nil && !(inst.Src2.OperandType == insts.RegOperand && inst.Src2.Register != nil && inst.Src2.Register.IsVReg()) {
		s2k = "u"
	}
	sd := binary.LittleEndian.Uint64(s2.s[c06MaskO*4:])
	line := fmt.Sprintf("c06 gorun %s %s exec=%x vcc=%x sd=%x dw=%x mos=%s mod=%s s2k=%s sdwa=%d clamp=%d abs=%x neg=%x omod=%x s0sel=%x s1sel=%x dsel=%x dun=%x s0=%s s1=%s s2=%s d=%s",
		ci.arch, ci.handler, exec, s2.vcc, sd, dw, c06MaskTarget(inst.SDst), c06MaskTarget(inst.Dst), s2k,
		c06b2i(inst.IsSdwa), c06b2i(inst.Clamp), uint64(inst.Abs), uint64(inst.Neg), uint64(inst.Omod),
		uint32(inst.Src0Sel), uint32(inst.Src1Sel), uint32(inst.DstSel), uint8(inst.DstUnused),
		strings.Join(cols[0], ","), strings.Join(cols[1], ","), strings.Join(cols[2], ","), strings.Join(cols[3], ","))
	res := c.runOn(ci, &s2, 1)
	r.Count("gorun:" + ci.arch + "/" + ci.format)
	if res.fault != "" {
		r.Case(line, "fault")
		return
	}
	d := "-"
	if dw != 0 {
		var ds []string
		for lane := 0; lane < 64; lane++ {
			v, _ := c06OperandVal(c, inst.Dst, lane) // the wavefront still holds the post-state
			ds = append(ds, fmt.Sprintf("%x", v))
		}
		d = strings.Join(ds, ",")
	}
	r.Case(line, fmt.Sprintf("d=%s vcc=%x sd=%x", d, res.vcc, binary.LittleEndian.Uint64(res.s[c06MaskO*4:])))
}

// mbodyCase: one iteration of a translated DS / FLAT body (`mraw_<arch>_<handler>`) against the real ALU
func (c *c06env) mbodyCase(ci *c06inst, st *c06state, lane int) {
	r := c.r
	inst := ci.inst
	s2 := *st
	s2.exec = uint64(1) << uint(lane)
	c.load(&s2)
	a, f := c06OperandVal(c, inst.Addr, lane)
	if f != "" || inst.Addr == nil {
		r.Count("mbody-skip:address-unreadable")
		return
	}
	row := func(v []byte, reg int) []byte { return v[lane*1024+reg*4 : lane*1024+reg*4+16] }
	hs, sb := 0, uint64(0)
	if ci.format == "flat" && inst.SAddr != nil && inst.SAddr.IntValue != 0x7F && (ci.arch == "cdna3" || inst.SAddr.IntValue != 0) {
		hs = 1
		reg := int(inst.SAddr.IntValue)
		sb, _ = c06OperandVal(c, insts.NewSRegOperand(reg, reg, 2), 0)
	}
	var wb uint64
	var win []byte
	if ci.format == "ds" {
		wb = uint64(uint32(a))
		if inst.Offset0 > 0xff { // single-address DS ops use the 16-bit offset: the access is far from the base
			wb = uint64(uint32(a) + inst.Offset0)
		}
		if wb+160 > uint64(len(s2.lds)) {
			r.Count("mbody-skip:lds-window-out-of-range")
			return
		}
		win = append([]byte{}, s2.lds[wb:wb+160]...)
	} else {
		eff := a
		if hs == 1 {
			eff = sb + (a & 0xffffffff)
		}
		eff += uint64(int64(int32(inst.Offset0)))
		wb = eff
		for k := uint64(0); k < 32; k++ {
			win = append(win, s2.mem[wb+k])
		}
	}
	line := fmt.Sprintf("c06 mbody %s %s i=%d a=%x da=%x d1=%x d0=%x off0=%x off1=%x hs=%d sb=%x ldslen=%x wb=%x win=%x",
		ci.arch, ci.handler, lane, a, row(s2.v, c06Data), row(s2.v, c06Data1), row(s2.v, c06Dst), inst.Offset0, inst.Offset1, hs, sb, len(c.e.lds), wb, win)
	res := c.runOn(ci, &s2, 1)
	r.Count("mbody:" + ci.arch + "/" + ci.format)
	if res.fault != "" {
		r.Count("mbody-fault:" + ci.arch + "." + ci.handler)
		r.Case(line, "fault")
		return
	}
	loads, eff := "-", ""
	if ci.format == "ds" {
		eff = fmt.Sprintf("%x/0", res.lds[wb:wb+160])
	} else {
		var ls []string
		for _, rd := range res.reads {
			ls = append(ls, fmt.Sprintf("%x:%d", rd[0], rd[1]))
		}
		loads = strings.Join(ls, ",")
		var as []uint64
		for ad := range res.mem {
			as = append(as, ad)
		}
		sort.Slice(as, func(i, j int) bool { return as[i] < as[j] })
		var ws []string
		for _, ad := range as {
			ws = append(ws, fmt.Sprintf("%x:%02x", ad, res.mem[ad]))
		}
		eff = strings.Join(ws, ",")
	}
	r.Case(line, fmt.Sprintf("d=%x loads=%s mem=%s", row(res.v, c06Dst), loads, eff))
}

// c06MemHandlers: names of the translated DS / FLAT bodies in the regenerated Gen/LaneBodies.lean
func c06MemHandlers(cov map[string]string) map[string]bool {
	out := map[string]bool{}
	for k := range cov {
		if strings.HasPrefix(k, "mh:") {
			out[strings.TrimPrefix(k, "mh:")] = true
		}
	}
	return out
}

func runC06Deep(r *Run, rng *Rng, replay string) {
	log.SetOutput(io.Discard)
	cov, err := c06Coverage()
	if err != nil {
		r.Note("C06 deep: %v — translated lane bodies NOT tied to the code in this run", err)
		r.Failf("C06.body-correspondence-missing", "c06 body", "cannot read the coverage table of the translated lane bodies: %v", err)
		return
	}
	c := &c06env{r: r, rng: rng, e: newALUEnv(), mem: &c06mem{}}
	c.e.gcn3 = emu.NewALU(c.mem)
	c.e.cdna3 = cdna3.NewALU(c.mem)
	c.e.gcn3.SetLDS(c.e.lds)
	c.e.cdna3.SetLDS(c.e.lds)
	c.ldsNeg = make([]byte, len(c.e.lds))
	c.ldsBase = make([]byte, len(c.e.lds))
	c.fillRandom(c.ldsBase)
	hand, _, err := c06ScanSwitches()
	if err != nil {
		r.Note("C06 deep: cannot parse the emulator sources for handler names: %v", err)
		return
	}
	c.hand = hand
	nStates, nLanes := 2, 2
	if r.Tier == "thorough" {
		nStates, nLanes = 6, 6
	}
	covered := map[string]bool{}
	for _, arch := range []string{"gcn3", "cdna3"} {
		rows := c.e.dGCN3.VerifRows()
		if arch == "cdna3" {
			rows = c.e.dCDNA.VerifRows()
		}
		sort.SliceStable(rows, func(i, j int) bool { return rows[i].Opcode < rows[j].Opcode })
		for _, format := range []string{"vop1", "vop2", "vopc", "vop3a", "vop3b"} {
			seen := map[int]bool{}
			for _, it := range rows {
				op := int(it.Opcode)
				if c06FormatOf(it) != format || seen[op] {
					continue
				}
				seen[op] = true
				handler := hand[fmt.Sprintf("%s/%s/%d", arch, format, op)]
				kind := cov[arch+"."+handler]
				isF := kind == "translatedF" && cov["exact:"+arch+"."+handler] == "yes"
				if handler == "" || (kind != "translated" && kind != "wrapper" && !isF) {
					continue
				}
				vs := c.variants(arch, format, it)
				// SDWA encodings are not generated here: since the SDWA repair the sub-dword selection
				// is applied by a state wrapper (emu.NewSDWAState) around the handler, which sees a
				// plain instruction; the handlers' own `IsSdwa` branches are dead code. SDWA forms
				// stay covered extensionally (harness/c06.go) and by C03's specification.
				for vi, d := range vs {
					inst, words, err := c.decode(arch, d)
					if err != nil {
						r.Count("body-skip:undecodable-variant")
						continue
					}
					if inst.Omod != 0 {
						continue // refused by vop3aPostprocess after the handler ran
					}
					ci := &c06inst{arch: arch, format: format, op: op, iname: it.InstName, inst: inst, words: words, variant: fmt.Sprint(vi), handler: handler}
					for k := 0; k < nStates; k++ {
						st := c.newState(ci, false)
						for j := 0; j < nLanes; j++ {
							lane := rng.Intn(64)
							switch rng.Intn(6) {
							case 0:
								lane = 0
							case 1:
								lane = 63
							case 2:
								lane = 31 + rng.Intn(2)
							}
							c.bodyCase(ci, st, lane, isF)
						}
					}
					covered[arch+"."+handler] = true
					// whole-instruction runs against `goRun`: first and one random other variant of each opcode
					if !isF && (vi == 0 || (vi == 1+rng.Intn(len(vs)) && len(vs) > 1) || r.Tier == "thorough") {
						st := c.newState(ci, false)
						masks := []uint64{rng.U64(), rng.U64() & rng.U64() & rng.U64()}
						if r.Tier == "thorough" {
							masks = append(masks, ^uint64(0), 0, rng.U64()|rng.U64())
						}
						for _, m := range masks {
							c.goRunCase(ci, st, m)
						}
					}
				}
			}
		}
	}
	// DS / FLAT bodies
	memH := c06MemHandlers(cov)
	memDone := map[string]bool{}
	for _, arch := range []string{"gcn3", "cdna3"} {
		rows := c.e.dGCN3.VerifRows()
		if arch == "cdna3" {
			rows = c.e.dCDNA.VerifRows()
		}
		sort.SliceStable(rows, func(i, j int) bool { return rows[i].Opcode < rows[j].Opcode })
		for _, format := range []string{"ds", "flat"} {
			seen := map[int]bool{}
			for _, it := range rows {
				op := int(it.Opcode)
				if c06FormatOf(it) != format || seen[op] {
					continue
				}
				seen[op] = true
				handler := hand[fmt.Sprintf("%s/%s/%d", arch, format, op)]
				if handler == "" || !memH[arch+"."+handler] {
					continue
				}
				for vi, d := range c.variants(arch, format, it) {
					inst, words, err := c.decode(arch, d)
					if err != nil {
						continue
					}
					ci := &c06inst{arch: arch, format: format, op: op, iname: it.InstName, inst: inst, words: words, variant: fmt.Sprint(vi), handler: handler,
						mem: map[string]string{"ds": "lds", "flat": "flat"}[format]}
					for k := 0; k < nStates; k++ {
						st := c.newState(ci, false)
						for j := 0; j < nLanes; j++ {
							c.mbodyCase(ci, st, rng.Intn(64))
						}
					}
					memDone[arch+"."+handler] = true
				}
			}
		}
	}
	r.CountN("mbody-handlers-translated", len(memH))
	r.CountN("mbody-handlers-exercised", len(memDone))
	// a second pass of the scalar EXEC test (other operand variants; its first variant always compares with EXEC = 0)
	for _, arch := range []string{"gcn3", "cdna3"} {
		rows := c.e.dGCN3.VerifRows()
		if arch == "cdna3" {
			rows = c.e.dCDNA.VerifRows()
		}
		seen := map[string]bool{}
		for _, it := range rows {
			f := c06FormatOf(it)
			k := fmt.Sprintf("%s/%d", f, it.Opcode)
			if seen[k] || f == "smem" {
				continue
			}
			seen[k] = true
			for _, sf := range c06ScaFormats {
				if sf == f {
					c.checkScalar(arch, f, it)
				}
			}
		}
	}
	// every translated handler that an opcode switch dispatches must have been exercised
	n, miss := 0, []string{}
	reached := map[string]bool{}
	for _, h := range hand {
		reached[h] = true
	}
	for k, kind := range cov {
		if kind != "translated" {
			continue
		}
		n++
		name := k[strings.Index(k, ".")+1:]
		if !covered[k] && reached[name] && !strings.HasSuffix(name, "SDWA") && !strings.HasSuffix(name, "Regular") {
			miss = append(miss, k)
		}
	}
	sort.Strings(miss)
	r.CountN("body-translated-handlers", n)
	r.CountN("body-handlers-exercised", len(covered))
	for _, m := range miss {
		r.Count("body-not-exercised:" + m)
	}
}
