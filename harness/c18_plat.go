//go:build verif

package main

// C18, second deepening: the routing configuration of the timing platform as its builders create it.
//
// `c18 plat type=<r9nano|mi300a> n=<k> a=<hex>`: a real platform built by timingconfig.Builder
// (WithNumGPUs(k).WithGPUType(type)); for physical address a the harness asks the LIVE objects:
// the shared RDMA address table (engine.RemoteRDMAAddressTable.Find), every GPU's L1→L2 mapper
// (= the engine's localModules: the same object), the table destination's mapper, the mapper the
// page-migration controller / DMA engine use over the DRAM controllers, and the capacity of the
// global storage. The Lean model answers from constants that translate/c18.go regenerates from the
// builder sources (Gen/C18Plat.lean).
//
// `c18 platx n= S= D= isz= k= a=`: the same wiring done by the harness on real Akita mappers with
// arbitrary sizes (the builders fix S = D = 4 GiB); replays the witnesses of Props/C18Plat.lean that
// show what the equality D = S is needed for (narrower: the request bounces; wider: two owners).
//
// Oracles (independent of the model): C18.plat.owner (an address of a GPU bank is kept local by
// exactly the GPU the table names), C18.plat.loop (the table's destination would send the request
// back to its RDMA engine), C18.plat.twice (two GPUs keep the address), C18.plat.l2bank (L2 bank out of
// range), C18.plat.dma-bank (DMA / PMC mapper picks another DRAM controller than the one behind the L2
// bank), C18.plat.storage (table reach ≠ storage capacity), C18.plat.alloc-owner / C18.owner.lastpage
// (the allocator's owner is not the GPU that serves the address).
//
// Also here: the additions to the work-group cases after the repair be858c27 of the driver
// (empty grids, more than 2^32 work-groups): c18WgExtra / c18WgCases2.

import (
	"fmt"
	"strconv"
	"strings"

	"github.com/sarchlab/akita/v4/mem/mem"
	"github.com/sarchlab/akita/v4/sim"
	"github.com/sarchlab/mgpusim/v4/amd/kernels"
	"github.com/sarchlab/mgpusim/v4/amd/samples/runner"
	"github.com/sarchlab/mgpusim/v4/amd/timing/pagemigrationcontroller"
	"github.com/sarchlab/mgpusim/v4/amd/timing/rdma"
)

func init() { register("C18", runC18Plat) }

// c18Index returns the number in `…<tag>[<number>]…` of a port name, -1 when absent.
func c18Index(p sim.RemotePort, tag string) int {
	s := string(p)
	i := strings.Index(s, tag+"[")
	if i < 0 {
		return -1
	}
	s = s[i+len(tag)+1:]
	j := strings.IndexByte(s, ']')
	if j < 0 {
		return -1
	}
	n, err := strconv.Atoi(s[:j])
	if err != nil {
		return -1
	}
	return n
}

// c18PlatView is what one platform (real or harness-wired) lets the harness ask.
type c18PlatView struct {
	n     int
	table func(a uint64) (int, string) // table entry (0 = CPU, g = GPU g), "" | "oob" | "other"
	l1    func(g int, a uint64) int    // -1 = RDMA engine, j = L2 bank
	dma   func(g int, a uint64) int    // DRAM controller index
	cap   uint64
	k     int
	exact bool // S = D: the builders' situation
	S     uint64
}

func c18PlatAnswer(r *Run, line string, v *c18PlatView, a uint64) string {
	ent, kind := v.table(a)
	tab := "oob"
	switch {
	case kind == "other":
		tab = "other"
	case kind == "" && ent == 0:
		tab = "cpu"
	case kind == "":
		tab = strconv.Itoa(ent)
	}
	l1 := make([]string, v.n)
	locals := []int{}
	for g := 1; g <= v.n; g++ {
		j := v.l1(g, a)
		if j < 0 {
			l1[g-1] = "R"
		} else {
			l1[g-1] = strconv.Itoa(j)
			locals = append(locals, g)
			r.Checked("plat-l2bank")
			if j >= v.k {
				r.Failf("C18.plat.l2bank", line, "GPU %d sends address %x to L2 bank %d of %d", g, a, j, v.k)
			}
		}
	}
	own := "-"
	if kind == "" && ent >= 1 {
		j := v.l1(ent, a)
		if j < 0 {
			own = "R"
		} else {
			own = strconv.Itoa(j)
		}
	}
	d1 := v.dma(1, a)
	for g := 2; g <= v.n; g++ {
		if v.dma(g, a) != d1 {
			r.Failf("C18.plat.dma-bank", line, "DMA mappers of GPU 1 and GPU %d disagree on address %x", g, a)
		}
	}
	st := 0
	if a < v.cap {
		st = 1
	}
	// ---- oracles
	if v.exact {
		r.Checked("plat-storage")
		if (kind == "") != (st == 1) {
			r.Failf("C18.plat.storage", line, "address %x: RDMA table entry %s, inside the global storage of %x bytes: %v", a, tab, v.cap, st == 1)
		}
	}
	if kind == "" && ent >= 1 {
		r.Checked("plat-owner")
		switch {
		case own == "R":
			r.Failf("C18.plat.loop", line, "address %x: the RDMA table names GPU %d, whose own mapper sends it back to the RDMA engine", a, ent)
		case len(locals) > 1:
			r.Failf("C18.plat.twice", line, "address %x is kept local by GPUs %v", a, locals)
		case len(locals) != 1 || locals[0] != ent:
			r.Failf("C18.plat.owner", line, "address %x: the RDMA table names GPU %d, kept local by %v", a, ent, locals)
		default:
			if strconv.Itoa(d1) != own {
				r.Failf("C18.plat.dma-bank", line, "address %x: L2 bank %s of GPU %d, DMA / PMC mapper picks DRAM controller %d", a, own, ent, d1)
			}
		}
	} else if len(locals) > 0 && v.exact {
		r.Failf("C18.plat.owner", line, "address %x: RDMA table entry %s, but kept local by GPUs %v", a, tab, locals)
	}
	return fmt.Sprintf("tab=%s l1=%s own=%s dma=%d st=%d", tab, strings.Join(l1, ","), own, d1, st)
}

func c18PlatAddrs(rng *Rng, n int, S, P, isz uint64, k int, rnd int) []uint64 {
	addrs := []uint64{0, 1, P - 1, P, isz - 1, isz, isz * uint64(k), isz*uint64(k) - 1}
	for d := uint64(0); d <= uint64(n)+2; d++ {
		for _, x := range []uint64{0, 1, isz - 1, isz, P - 1, P, P + 1, S / 2, S/2 + isz*3 + 5, S - P, S - isz, S - 1} {
			if x < S {
				addrs = append(addrs, d*S+x)
			}
		}
	}
	for i := 0; i < rnd; i++ {
		addrs = append(addrs, rng.U64()%((uint64(n)+3)*S))
		d := uint64(rng.Intn(n + 2))
		addrs = append(addrs, d*S+S+uint64(rng.Intn(int(2*P)))-P)
		addrs = append(addrs, d*S+uint64(rng.Intn(int(4*isz*uint64(k)))))
	}
	return addrs
}

func c18PlatReal(r *Run, rng *Rng, gpuType string, gpus, rnd int) {
	p := newTimingPlatform(r.OutDir, gpus, gpuType, false)
	defer p.close()
	engines := make([]*rdma.Comp, gpus+1)
	l1 := make([]*mem.InterleavedAddressPortMapper, gpus+1)
	pmcs := make([]*pagemigrationcontroller.PageMigrationController, gpus+1)
	for g := 1; g <= gpus; g++ {
		engines[g] = p.sim.GetComponentByName(fmt.Sprintf("GPU[%d].RDMA", g)).(*rdma.Comp)
		m, ok := engines[g].VerifC18LocalModules().(*mem.InterleavedAddressPortMapper)
		if !ok {
			r.Failf("C18.plat.setup", "plat", "local modules of GPU %d are not an InterleavedAddressPortMapper", g)
			return
		}
		l1[g] = m
		pmcs[g] = p.sim.GetComponentByName(fmt.Sprintf("GPU[%d].PMC", g)).(*pagemigrationcontroller.PageMigrationController)
	}
	table, ok := engines[1].RemoteRDMAAddressTable.(*mem.BankedAddressPortMapper)
	if !ok {
		r.Failf("C18.plat.setup", "plat", "RDMA address table is not a BankedAddressPortMapper")
		return
	}
	for g := 2; g <= gpus; g++ {
		if engines[g].RemoteRDMAAddressTable != engines[1].RemoteRDMAAddressTable {
			r.Failf("C18.plat.setup", "plat", "GPU %d uses another RDMA address table than GPU 1", g)
		}
	}
	S := table.BankSize
	P := uint64(1) << p.drv.Log2PageSize
	v := &c18PlatView{n: gpus, cap: p.drv.VerifGlobalStorage().Capacity, k: len(l1[1].LowModules), exact: true, S: S}
	v.table = func(a uint64) (ent int, kind string) {
		if f := catch(func() {
			port := table.Find(a)
			switch {
			case port == "CPU":
				ent = 0
			case strings.HasSuffix(string(port), ".RDMADataOutside"):
				ent = c18PortNum(port)
			default:
				kind = "other"
			}
		}); f != "" {
			kind = "oob"
		}
		return
	}
	v.l1 = func(g int, a uint64) int {
		dst := l1[g].Find(a)
		if dst == engines[g].RDMARequestInside.AsRemote() {
			return -1
		}
		if c18Index(dst, "GPU") != g {
			r.Failf("C18.plat.l2bank", "plat", "GPU %d sends address %x to %s", g, a, dst)
		}
		return c18Index(dst, "L2Cache")
	}
	v.dma = func(g int, a uint64) int {
		dst := pmcs[g].MemCtrlFinder.Find(a)
		if c18Index(dst, "GPU") != g {
			r.Failf("C18.plat.dma-bank", "plat", "DMA mapper of GPU %d sends address %x to %s", g, a, dst)
		}
		return c18Index(dst, "DRAM")
	}
	r.Note("platform %s x%d: bank %x, local ranges %x..%x / %x..%x, interleave %x over %d banks, storage %x",
		gpuType, gpus, S, l1[1].LowAddress, l1[1].HighAddress, l1[gpus].LowAddress, l1[gpus].HighAddress,
		l1[1].InterleavingSize, len(l1[1].LowModules), v.cap)
	for _, a := range c18PlatAddrs(rng, gpus, S, P, l1[1].InterleavingSize, len(l1[1].LowModules), rnd) {
		line := fmt.Sprintf("c18 plat type=%s n=%d a=%x", gpuType, gpus, a)
		ans := c18PlatAnswer(r, line, v, a)
		r.Case(line, ans)
		r.Count("plat.real." + gpuType)
		// ---- oracle: the allocator's owner is the GPU that serves the address
		alloc := -1
		if f := catch(func() { alloc = p.drv.VerifC18OwnerOfPAddr(a) }); f != "" {
			alloc = -1
		}
		if alloc >= 1 && alloc <= gpus {
			r.Checked("plat-alloc-owner")
			ent, kind := v.table(a)
			sig := "C18.plat.alloc-owner"
			if a >= uint64(alloc+1)*S {
				sig = "C18.owner.lastpage"
			}
			if kind != "" || ent != alloc || v.l1(alloc, a) < 0 {
				r.Failf(sig, line, "physical address %x belongs to GPU %d for the allocator; RDMA table: %s", a, alloc, ans)
			}
		}
	}
}

func c18PlatX(r *Run, rng *Rng, n int, S, D, isz uint64, k, rnd int) {
	table := &mem.BankedAddressPortMapper{BankSize: S}
	table.LowModules = append(table.LowModules, sim.RemotePort("CPU"))
	l1 := make([]*mem.InterleavedAddressPortMapper, n+1)
	dm := make([]*mem.InterleavedAddressPortMapper, n+1)
	for g := 1; g <= n; g++ {
		m := mem.NewInterleavedAddressPortMapper(isz)
		m.LowAddress = uint64(g) * S
		m.HighAddress = uint64(g)*S + D
		m.UseAddressSpaceLimitation = true
		m.ModuleForOtherAddresses = sim.RemotePort(fmt.Sprintf("GPU[%d].RDMA.RDMARequestInside", g))
		d := mem.NewInterleavedAddressPortMapper(isz)
		for j := 0; j < k; j++ {
			m.LowModules = append(m.LowModules, sim.RemotePort(fmt.Sprintf("GPU[%d].L2Cache[%d].Top", g, j)))
			d.LowModules = append(d.LowModules, sim.RemotePort(fmt.Sprintf("GPU[%d].DRAM[%d].Top", g, j)))
		}
		l1[g], dm[g] = m, d
		table.LowModules = append(table.LowModules, sim.RemotePort(fmt.Sprintf("GPU[%d].RDMA.RDMADataOutside", g)))
	}
	v := &c18PlatView{n: n, cap: uint64(n)*S + S, k: k, exact: S == D, S: S}
	v.table = func(a uint64) (ent int, kind string) {
		if f := catch(func() {
			port := table.Find(a)
			if port == "CPU" {
				ent = 0
			} else {
				ent = c18Index(port, "GPU")
			}
		}); f != "" {
			kind = "oob"
		}
		return
	}
	v.l1 = func(g int, a uint64) int {
		dst := l1[g].Find(a)
		if dst == l1[g].ModuleForOtherAddresses {
			return -1
		}
		return c18Index(dst, "L2Cache")
	}
	v.dma = func(g int, a uint64) int { return c18Index(dm[g].Find(a), "DRAM") }
	P := isz * 2
	// 0x68, 0x82: the witnesses of plat_access_full_refuted / plat_dram_larger_two_owners
	for _, a := range append([]uint64{0x68, 0x82}, c18PlatAddrs(rng, n, S, P, isz, k, rnd)...) {
		line := fmt.Sprintf("c18 platx n=%d S=%x D=%x isz=%x k=%d a=%x", n, S, D, isz, k, a)
		var ans string
		if S == D {
			ans = c18PlatAnswer(r, line, v, a)
		} else {
			// the witnesses: failures of the routing oracles are the expected outcome here, they are
			// counted, not reported
			ans = c18PlatAnswerQuiet(v, a)
			ent, kind := v.table(a)
			if kind == "" && ent >= 1 {
				locals := 0
				for g := 1; g <= n; g++ {
					if v.l1(g, a) >= 0 {
						locals++
					}
				}
				switch {
				case v.l1(ent, a) < 0:
					r.Count("platx.witness.loop")
				case locals > 1:
					r.Count("platx.witness.twice")
				}
			}
		}
		r.Case(line, ans)
		r.Count("plat.x")
	}
}

// c18PlatAnswerQuiet is c18PlatAnswer without oracles (for deliberately mis-sized wirings).
func c18PlatAnswerQuiet(v *c18PlatView, a uint64) string {
	ent, kind := v.table(a)
	tab := "oob"
	if kind == "" && ent == 0 {
		tab = "cpu"
	} else if kind == "" {
		tab = strconv.Itoa(ent)
	}
	l1 := make([]string, v.n)
	for g := 1; g <= v.n; g++ {
		if j := v.l1(g, a); j < 0 {
			l1[g-1] = "R"
		} else {
			l1[g-1] = strconv.Itoa(j)
		}
	}
	own := "-"
	if kind == "" && ent >= 1 {
		if j := v.l1(ent, a); j < 0 {
			own = "R"
		} else {
			own = strconv.Itoa(j)
		}
	}
	st := 0
	if a < v.cap {
		st = 1
	}
	return fmt.Sprintf("tab=%s l1=%s own=%s dma=%d st=%d", tab, strings.Join(l1, ","), own, v.dma(1, a), st)
}

// ------------------------------------------------------------------ work-group cases after be858c27

// c18WgExtra: oracles for the corners the repaired arithmetic added (called from c18WgCase).
func c18WgExtra(r *Run, line string, total, nx, ny, nz int, dist []int, reqs []*c18Launch, left int) {
	if total == 0 {
		r.Checked("wg-empty")
		r.Count("wg.empty")
		if len(reqs) != 0 {
			r.Failf("C18.wg.empty-request", line, "empty grid, %d launch requests", len(reqs))
		}
		if left != 0 {
			r.Failf("C18.wg.empty-stuck", line, "empty grid: the command is still in the queue (%d left)", left)
		}
		return
	}
	if left != 1 {
		r.Failf("C18.wg.dequeued-early", line, "the launch command left the queue before any GPU answered (%d left)", left)
	}
	if total <= 20000 {
		return
	}
	// large grids: the filters on the boundaries of every range and on a deterministic sample
	r.Count("wg.large")
	ids := []int{0, total - 1, total / 2}
	for _, d := range dist {
		for _, x := range []int{d - 1, d, d + 1} {
			if x >= 0 && x < total {
				ids = append(ids, x)
			}
		}
	}
	x := uint64(total)*2862933555777941757 + 3037000493
	for i := 0; i < 300; i++ {
		x = x*6364136223846793005 + 1442695040888963407
		ids = append(ids, int((x>>11)%uint64(total)))
	}
	for _, id := range ids {
		wg := &kernels.WorkGroup{IDX: id % nx, IDY: id / nx % ny, IDZ: id / nx / ny}
		owners := 0
		for _, l := range reqs {
			if l.filter(l.pkt, wg) {
				owners++
			}
		}
		r.Checked("wg-owner")
		if owners != 1 {
			sig := "C18.wg.unowned"
			if owners > 1 {
				sig = "C18.wg.twice"
			}
			r.Failf(sig, line, "work-group (%d,%d,%d) of %d is accepted by %d GPUs", wg.IDX, wg.IDY, wg.IDZ, total, owners)
		}
	}
}

func c18WgCases2(r *Run, rng *Rng, n int) {
	fixed := []struct {
		cus  []int
		grid [3]uint32
		wgs  [3]uint16
	}{
		{[]int{4, 4}, [3]uint32{0, 1, 1}, [3]uint16{64, 1, 1}},
		{[]int{4, 0, 7}, [3]uint32{16, 0, 2}, [3]uint16{4, 1, 1}},
		{[]int{1}, [3]uint32{0, 0, 0}, [3]uint16{1, 1, 1}},
		{[]int{0, 0}, [3]uint32{0, 1, 1}, [3]uint16{4, 1, 1}},
		{[]int{64, 64}, [3]uint32{100000, 100000, 1}, [3]uint16{1, 1, 1}},     // 10^10 > 2^32 work-groups
		{[]int{36, 64, 4}, [3]uint32{1 << 31, 4, 1}, [3]uint16{1, 1, 1}},      // 2^33
		{[]int{3, 5}, [3]uint32{65536, 65536, 1}, [3]uint16{1, 1, 1}},         // exactly 2^32
		{[]int{3, 5}, [3]uint32{4294967295, 1, 1}, [3]uint16{1, 1, 1}},        // the largest dimension
		{[]int{7, 9, 11, 13}, [3]uint32{4294967295, 3, 2}, [3]uint16{256, 1, 1}},
	}
	for _, f := range fixed {
		c18WgCase(r, f.cus, f.grid, f.wgs)
	}
	for i := 0; i < n; i++ {
		k := rng.Pick(1, 2, 3, 4)
		cus := make([]int, k)
		for j := range cus {
			cus[j] = rng.Pick(0, 1, 4, 36, 64, rng.Range(1, 80))
		}
		wgs := [3]uint16{uint16(rng.Pick(1, 1, 4, 64, 256)), uint16(rng.Pick(1, 1, 2)), uint16(rng.Pick(1, 1, 2))}
		grid := [3]uint32{uint32(rng.Range(0, 3)), uint32(rng.Range(0, 3)), uint32(rng.Range(0, 2))}
		if rng.Chance(60) {
			grid = [3]uint32{uint32(rng.U64() >> uint(rng.Range(32, 48))), uint32(rng.U64() >> uint(rng.Range(40, 60))), uint32(rng.Pick(1, 1, 2, 3))}
		}
		c18WgCase(r, cus, grid, wgs)
	}
}

// ------------------------------------------------------------------ the runner's platform for a GPU list

// c18RunnerCase: `c18 runner timing=<0|1> unified=<0|1> gpus=<list>`: the runner's own construction
// (initSimulation, build…Platform, createUnifiedGPUs) for the list the flags -gpus / -unified-gpus give;
// answer `built=<GPUs of the platform> fault=<-|kind>`; oracle C18.runner.gpu-missing: every listed GPU
// exists and can be selected.
func c18RunnerCase(r *Run, timing, unified bool, ids []int) {
	ss := make([]string, len(ids))
	for i, x := range ids {
		ss[i] = strconv.Itoa(x)
	}
	line := fmt.Sprintf("c18 runner timing=%d unified=%d gpus=%s", c18B(timing), c18B(unified), strings.Join(ss, ","))
	var rn *runner.Runner
	built := -1
	fault := catch(func() {
		rn = runner.VerifC18Build(ids, timing, "r9nano")
	})
	if rn != nil {
		built = rn.Driver().GetNumGPUs()
		if unified && fault == "" {
			fault = catch(func() { rn.VerifC18CreateUnified() })
		}
	}
	r.Count("runner.case")
	r.Checked("runner-gpus")
	missing := []int{}
	if rn != nil && !unified {
		drv := rn.Driver()
		ctx := drv.Init()
		for _, id := range ids {
			if f := catch(func() { drv.SelectGPU(ctx, id) }); f != "" || id > built {
				missing = append(missing, id)
			}
		}
	}
	if rn != nil {
		rn.VerifC18Terminate()
	}
	if fault != "" || len(missing) > 0 {
		r.Failf("C18.runner.gpu-missing", line, "GPU list %v: the runner built %d GPUs; construction fault %q, GPUs that cannot be selected: %v", ids, built, fault, missing)
	}
	f := "-"
	if fault != "" {
		f = "panic"
	}
	bs := "?"
	if built >= 0 {
		bs = strconv.Itoa(built)
	}
	r.Case(line, fmt.Sprintf("built=%s fault=%s", bs, f))
}

func c18B(b bool) int {
	if b {
		return 1
	}
	return 0
}

func c18RunnerCases(r *Run, rng *Rng, thorough bool) {
	lists := [][]int{{1}, {2}, {1, 2}, {2, 1}, {1, 3}, {1, 2, 3, 4}, {4, 1}, {3, 4, 1, 2}, {2, 3}}
	for _, l := range lists {
		c18RunnerCase(r, false, false, l)
		c18RunnerCase(r, false, true, l)
	}
	c18RunnerCase(r, true, false, []int{1, 2})
	c18RunnerCase(r, true, false, []int{2, 1})
	if thorough {
		c18RunnerCase(r, true, true, []int{1, 2})
		c18RunnerCase(r, true, true, []int{2, 1})
		for i := 0; i < 30; i++ {
			k := rng.Range(1, 4)
			l := make([]int, k)
			for j := range l {
				l[j] = rng.Range(1, 5)
			}
			c18RunnerCase(r, false, rng.Chance(50), l)
		}
	}
}

func runC18Plat(r *Run, rng *Rng, replay string) {
	thorough := r.Tier == "thorough"
	rnd := 40
	if thorough {
		rnd = 1500
	}
	c18PlatReal(r, rng, "r9nano", 2, rnd)
	c18PlatReal(r, rng, "r9nano", 4, rnd)
	c18PlatReal(r, rng, "mi300a", 2, rnd)
	if thorough {
		c18PlatReal(r, rng, "mi300a", 4, rnd)
		c18PlatReal(r, rng, "r9nano", 1, rnd)
	}
	// harness-wired mappers: the builders' shape at small sizes, then the two mis-sized witnesses of
	// Props/C18Plat.lean (D < S: bounce; D > S: two owners)
	c18PlatX(r, rng, 2, 0x40, 0x40, 4, 2, rnd)
	c18PlatX(r, rng, 3, 0x1000, 0x1000, 0x80, 16, rnd)
	c18PlatX(r, rng, 2, 0x40, 0x20, 4, 2, rnd)
	c18PlatX(r, rng, 2, 0x40, 0x60, 4, 2, rnd)
	nw := 60
	if thorough {
		nw = 3000
	}
	c18WgCases2(r, rng, nw)
	c18RunnerCases(r, rng, thorough)
}
