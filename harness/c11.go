package main

import (
	"fmt"
	"path/filepath"
	"strings"
	"time"

	"github.com/sarchlab/akita/v4/mem/mem"
	"github.com/sarchlab/akita/v4/sim"
	"github.com/sarchlab/akita/v4/simulation"
	"github.com/sarchlab/mgpusim/v4/amd/driver"
	"github.com/sarchlab/mgpusim/v4/amd/protocol"
	"github.com/sarchlab/mgpusim/v4/amd/samples/runner/emusystem"
	"github.com/sarchlab/mgpusim/v4/amd/samples/runner/timingconfig"
	"github.com/sarchlab/mgpusim/v4/amd/timing/cp"
)

func init() { register("C11", runC11) }

func h2dByte(addr, i uint64) byte  { return byte(((addr+i)*7 + 3) % 256) }
func memByte(a uint64) byte        { return byte((a*13 + 5) % 256) }
func pagePattern(seed, i int) byte { return byte((seed + i*13 + (i/256)*7) % 256) }

type onePortMapper struct{ p sim.RemotePort }

func (m onePortMapper) Find(uint64) sim.RemotePort { return m.p }

// ---- DMA engine alone ------------------------------------------------------------------

type dmaEnv struct {
	dma         *cp.DMAEngine
	outstanding []sim.Msg
	cps         []sim.Msg
	cpIdx       map[string]int
	out         []string
	// oracle bookkeeping
	subsOf     map[int][][2]uint64 // per copy: sub-request ranges seen
	answered   map[string]bool
	doneCount  map[int]int
	doneEarly  bool
	reqOwner   map[string]int
	unanswered map[int]int
}

func newDmaEnv(log2 uint64) *dmaEnv {
	eng := &fakeEngine{}
	d := cp.NewDMAEngine("DMA", eng, onePortMapper{"Mem"})
	d.Log2AccessSize = log2
	conn := &fakeConn{name: "c"}
	d.ToCP.SetConnection(conn)
	d.ToMem.SetConnection(conn)
	return &dmaEnv{dma: d, cpIdx: map[string]int{}, subsOf: map[int][][2]uint64{},
		answered: map[string]bool{}, doneCount: map[int]int{}, reqOwner: map[string]int{},
		unanswered: map[int]int{}}
}

type namedPort struct{ n sim.RemotePort }

func (p namedPort) AsRemote() sim.RemotePort { return p.n }

func (e *dmaEnv) op(toks []string) {
	switch toks[0] {
	case "h", "d":
		var a, l uint64
		fmt.Sscan(toks[1], &a)
		fmt.Sscan(toks[2], &l)
		var m sim.Msg
		if toks[0] == "h" {
			buf := make([]byte, l)
			for i := range buf {
				buf[i] = h2dByte(a, uint64(i))
			}
			r := &protocol.MemCopyH2DReq{SrcBuffer: buf, DstAddress: a}
			r.ID = sim.GetIDGenerator().Generate()
			r.Src, r.Dst = "Drv", e.dma.ToCP.AsRemote()
			m = r
		} else {
			r := &protocol.MemCopyD2HReq{SrcAddress: a, DstBuffer: make([]byte, l)}
			r.ID = sim.GetIDGenerator().Generate()
			r.Src, r.Dst = "Drv", e.dma.ToCP.AsRemote()
			m = r
		}
		e.cpIdx[m.Meta().ID] = len(e.cps)
		e.cps = append(e.cps, m)
		if err := e.dma.ToCP.Deliver(m); err != nil {
			e.out = append(e.out, "cpfull")
		}
	case "t":
		p := false
		f := catch(func() { p = e.dma.Tick() })
		if f != "" {
			switch {
			case strings.Contains(f, "not_found"):
				f = "not_found"
			case strings.Contains(f, "find_requestcollection"):
				f = "no_collection"
			}
			e.out = append(e.out, "fault:"+f)
		} else if p {
			e.out = append(e.out, "t1")
		} else {
			e.out = append(e.out, "t0")
		}
	case "m":
		var k int
		fmt.Sscan(toks[1], &k)
		strs := []string{}
		for i := 0; i < k; i++ {
			m := e.dma.ToMem.RetrieveOutgoing()
			if m == nil {
				break
			}
			e.outstanding = append(e.outstanding, m)
			switch r := m.(type) {
			case *mem.WriteReq:
				strs = append(strs, fmt.Sprintf("w(%d,%d,%x)", r.Address, len(r.Data), fnv(r.Data)))
			case *mem.ReadReq:
				strs = append(strs, fmt.Sprintf("r(%d,%d)", r.Address, r.AccessByteSize))
			}
		}
		e.out = append(e.out, "m["+strings.Join(strs, ",")+"]")
	case "r":
		if len(e.outstanding) == 0 {
			e.out = append(e.out, "none")
			return
		}
		var j int
		fmt.Sscan(toks[1], &j)
		j %= len(e.outstanding)
		m := e.outstanding[j]
		var rsp sim.Msg
		switch r := m.(type) {
		case *mem.WriteReq:
			rsp = mem.WriteDoneRspBuilder{}.WithSrc("Mem").WithDst(r.Src).WithRspTo(r.ID).Build()
		case *mem.ReadReq:
			data := make([]byte, r.AccessByteSize)
			for i := range data {
				data[i] = memByte(r.Address + uint64(i))
			}
			rsp = mem.DataReadyRspBuilder{}.WithSrc("Mem").WithDst(r.Src).WithRspTo(r.ID).WithData(data).Build()
		}
		if err := e.dma.ToMem.Deliver(rsp); err != nil {
			e.out = append(e.out, "full")
			return
		}
		e.answered[m.Meta().ID] = true
		e.outstanding = append(e.outstanding[:j:j], e.outstanding[j+1:]...)
		e.out = append(e.out, "ok")
	case "c":
		strs := []string{}
		for {
			m := e.dma.ToCP.RetrieveOutgoing()
			if m == nil {
				break
			}
			rsp := m.(*sim.GeneralRsp)
			idx := e.cpIdx[rsp.OriginalReq.Meta().ID]
			e.doneCount[idx]++
			if r, ok := rsp.OriginalReq.(*protocol.MemCopyD2HReq); ok {
				strs = append(strs, fmt.Sprintf("done(%d,%x)", idx, fnv(r.DstBuffer)))
			} else {
				strs = append(strs, fmt.Sprintf("done(%d)", idx))
			}
		}
		e.out = append(e.out, "c["+strings.Join(strs, ",")+"]")
	}
}

func genDmaScenario(rng *Rng, big bool) []string {
	log2 := rng.Pick(6, 6, 6, 4, 5, 7)
	maxOps := 60
	if big {
		maxOps = 400
	}
	ops := []string{fmt.Sprintf("c11 dma log2=%d max=4", log2)}
	n := rng.Range(5, maxOps)
	unit := 1 << log2
	for i := 0; i < n; i++ {
		switch x := rng.Intn(100); {
		case x < 12:
			a := rng.Intn(8)*unit + rng.Pick(0, 0, 1, unit-1, unit/2, rng.Intn(unit))
			l := rng.Pick(1, 2, unit-1, unit, unit+1, 2*unit, 3*unit+5, rng.Range(1, 6*unit))
			k := "h"
			if rng.Bool() {
				k = "d"
			}
			ops = append(ops, fmt.Sprintf("%s %d %d", k, 4096+a, l))
		case x < 55:
			ops = append(ops, "t")
		case x < 70:
			ops = append(ops, fmt.Sprintf("m %d", rng.Range(1, 8)))
		case x < 92:
			ops = append(ops, fmt.Sprintf("r %d", rng.Intn(16)))
		default:
			ops = append(ops, "c")
		}
	}
	// closing phase so that most scenarios complete their copies
	if rng.Chance(80) {
		for i := 0; i < 60; i++ {
			ops = append(ops, "t", "m 8", "r 0", "r 0", "t", "c")
		}
	}
	return ops
}

func runDmaScenario(r *Run, ops []string) {
	cfg := strings.Fields(ops[0])
	log2 := uint64(6)
	for _, t := range cfg {
		if strings.HasPrefix(t, "log2=") {
			fmt.Sscan(t[5:], &log2)
		}
	}
	e := newDmaEnv(log2)
	for _, o := range ops[1:] {
		e.op(strings.Fields(o))
	}
	line := strings.Join(ops, " ; ")
	r.Case(line, strings.Join(e.out, " "))
	r.Count("dma.scenario")
	r.CountN("dma.ops", len(ops)-1)
	// oracle: each copy completed at most once
	r.Checked("dma.once")
	for idx, c := range e.doneCount {
		if c > 1 {
			r.Failf("C11.dma.completion-twice", line, "copy %d completed %d times", idx, c)
		}
	}
}

// dmaOracle runs a closed scenario under random response order and checks the
// property directly: sub-requests tile the range, one completion, after the last
// sub-response, D2H data assembled by offset.
func dmaOracle(r *Run, rng *Rng) {
	log2 := uint64(rng.Pick(6, 6, 5, 7))
	e := newDmaEnv(log2)
	unit := uint64(1) << log2
	ncp := rng.Range(1, 6)
	type cpy struct {
		h    bool
		a, l uint64
	}
	cps := []cpy{}
	desc := []string{fmt.Sprintf("log2=%d", log2)}
	for i := 0; i < ncp; i++ {
		c := cpy{rng.Bool(), 4096 + uint64(rng.Intn(4))*unit + uint64(rng.Intn(int(unit))), uint64(rng.Range(1, int(5*unit)))}
		cps = append(cps, c)
		k := "d"
		if c.h {
			k = "h"
		}
		e.op([]string{k, fmt.Sprint(c.a), fmt.Sprint(c.l)})
		desc = append(desc, fmt.Sprintf("%s(%d,%d)", k, c.a, c.l))
	}
	line := "dma-oracle " + strings.Join(desc, " ") + fmt.Sprintf(" seed=%d", r.Seed)
	r.Checked("dma.closed")
	// identify ownership of subrequests by address containment is ambiguous; use data
	// ranges instead: record every request leaving
	type sub struct {
		w    bool
		a, l uint64
		data []byte
	}
	var subs []sub
	answeredAll := func() bool { return len(e.outstanding) == 0 }
	done := map[int]int{}
	for step := 0; step < 4000; step++ {
		if f := catch(func() { e.dma.Tick() }); f != "" {
			r.Failf("C11.dma.panic", line, "the DMA engine panicked under an honest memory side: %s", f)
			return
		}
		for {
			m := e.dma.ToMem.RetrieveOutgoing()
			if m == nil {
				break
			}
			e.outstanding = append(e.outstanding, m)
			switch q := m.(type) {
			case *mem.WriteReq:
				subs = append(subs, sub{true, q.Address, uint64(len(q.Data)), q.Data})
			case *mem.ReadReq:
				subs = append(subs, sub{false, q.Address, q.AccessByteSize, nil})
			}
		}
		if len(e.outstanding) > 0 && rng.Chance(60) {
			e.op([]string{"r", fmt.Sprint(rng.Intn(len(e.outstanding)))})
		}
		for {
			m := e.dma.ToCP.RetrieveOutgoing()
			if m == nil {
				break
			}
			rsp := m.(*sim.GeneralRsp)
			idx := e.cpIdx[rsp.OriginalReq.Meta().ID]
			done[idx]++
			// completion only after all of its sub-requests were answered: every
			// sub-request in its range of this kind must be answered
			if q, ok := rsp.OriginalReq.(*protocol.MemCopyD2HReq); ok {
				for i, b := range q.DstBuffer {
					if b != memByte(q.SrcAddress+uint64(i)) {
						r.Failf("C11.dma.d2h-data", line, "copy %d byte %d = %02x want %02x (completion before data or wrong offset)", idx, i, b, memByte(q.SrcAddress+uint64(i)))
						break
					}
				}
			}
		}
		if len(done) == ncp && answeredAll() {
			break
		}
	}
	for i := range cps {
		if done[i] != 1 {
			r.Failf("C11.dma.completion-count", line, "copy %d completed %d times (want 1)", i, done[i])
		}
	}
	// sub-requests tile the ranges: total bytes per kind and each inside one unit
	var wantW, wantR, gotW, gotR uint64
	for _, c := range cps {
		if c.h {
			wantW += c.l
		} else {
			wantR += c.l
		}
	}
	for _, s := range subs {
		if s.l == 0 || s.a/unit != (s.a+s.l-1)/unit {
			r.Failf("C11.dma.piece-crosses-unit", line, "piece (%d,%d) unit %d", s.a, s.l, unit)
		}
		if s.w {
			gotW += s.l
			// data must be the bytes of some h2d copy at this address
			ok := false
			for _, c := range cps {
				if c.h && s.a >= c.a && s.a+s.l <= c.a+c.l {
					match := true
					for i := range s.data {
						if s.data[i] != h2dByte(c.a, s.a-c.a+uint64(i)) {
							match = false
							break
						}
					}
					ok = ok || match
				}
			}
			if !ok {
				r.Failf("C11.dma.write-data", line, "write piece (%d,%d) carries bytes of no copy", s.a, s.l)
			}
		} else {
			gotR += s.l
		}
	}
	if gotW != wantW || gotR != wantR {
		r.Failf("C11.dma.bytes-moved", line, "written %d want %d, read %d want %d", gotW, wantW, gotR, wantR)
	}
}

// ---- split via the DMA engine ---------------------------------------------------------

func splitCase(r *Run, log2 uint64, addr, l uint64) {
	e := newDmaEnv(log2)
	e.op([]string{"h", fmt.Sprint(addr), fmt.Sprint(l)})
	var parts []string
	for i := 0; i < 10000; i++ {
		p := e.dma.Tick()
		for {
			m := e.dma.ToMem.RetrieveOutgoing()
			if m == nil {
				break
			}
			w := m.(*mem.WriteReq)
			parts = append(parts, fmt.Sprintf("%d+%d", w.Address, len(w.Data)))
		}
		if !p {
			break
		}
	}
	r.Case(fmt.Sprintf("c11 split unit=%d addr=%d len=%d", 1<<log2, addr, l), strings.Join(parts, ","))
	r.Count("split")
}

// ---- overlap ---------------------------------------------------------------------------

func overlapCase(r *Run, s1, e1, s2, e2 uint64) {
	got := driver.VerifMemRangeOverlap(s1, e1, s2, e2)
	line := fmt.Sprintf("c11 overlap s1=%d e1=%d s2=%d e2=%d", s1, e1, s2, e2)
	r.Case(line, fmt.Sprint(got))
	r.Count("overlap")
	if s1 < e1 && s2 < e2 {
		r.Checked("overlap")
		inter := s1 < e2 && s2 < e1
		if got && !inter {
			r.Failf("C11.overlap.unsound", line, "reports overlap for disjoint ranges")
		}
		if !got && inter && s1 <= s2 && e2 <= e1 {
			r.Failf("C11.overlap.missed-contained", line, "copy inside buffer not detected")
		}
	}
}

// ---- copies through the driver API -----------------------------------------------------

type platform struct {
	sim    *simulation.Simulation
	drv    *driver.Driver
	timing bool
}

func newEmuPlatform(outDir string, gpus int, log2Page uint64) *platform {
	s := simulation.MakeBuilder().WithoutMonitoring().
		WithOutputFileName(filepath.Join(outDir, fmt.Sprintf("akita_%d", time.Now().UnixNano()))).Build()
	emusystem.MakeBuilder().WithSimulation(s).WithNumGPUs(gpus).WithLog2PageSize(log2Page).Build()
	d := s.GetComponentByName("Driver").(*driver.Driver)
	d.Run()
	return &platform{sim: s, drv: d}
}

func newTimingPlatform(outDir string, gpus int, gpuType string, magic bool) *platform {
	s := simulation.MakeBuilder().WithoutMonitoring().
		WithOutputFileName(filepath.Join(outDir, fmt.Sprintf("akita_%d", time.Now().UnixNano()))).Build()
	b := timingconfig.MakeBuilder().WithSimulation(s).WithNumGPUs(gpus).WithGPUType(gpuType)
	if magic {
		b = b.WithMagicMemoryCopy()
	}
	b.Build()
	d := s.GetComponentByName("Driver").(*driver.Driver)
	d.Run()
	return &platform{sim: s, drv: d, timing: true}
}

func (p *platform) close() {
	p.drv.Terminate()
	p.sim.Terminate()
}

// withTimeout runs f; returns false if it did not finish in time (a hang).
func withTimeout(d time.Duration, f func()) (ok bool, fault string) {
	ch := make(chan string, 1)
	go func() {
		ch <- catch(f)
	}()
	select {
	case s := <-ch:
		return true, s
	case <-time.After(d):
		return false, "hang"
	}
}

func ptString(p *platform, ctx *driver.Context, base uint64, pages int, ps uint64) (string, [][2]uint64) {
	pt := p.drv.VerifPageTable()
	var parts []string
	var phys [][2]uint64
	for i := 0; i < pages; i++ {
		pg, ok := pt.Find(ctx.VerifPID(), base+uint64(i)*ps)
		if !ok {
			parts = append(parts, "missing")
			continue
		}
		parts = append(parts, fmt.Sprintf("%x:%x:%d", pg.VAddr, pg.PAddr, pg.PageSize))
		phys = append(phys, [2]uint64{pg.PAddr, pg.PageSize})
	}
	return strings.Join(parts, ","), phys
}

func copyCasesEmu(r *Run, rng *Rng, n int) {
	dir := r.OutDir
	for round := 0; n > 0; round++ {
		gpus := rng.Pick(1, 2, 4)
		log2 := uint64(rng.Pick(12, 12, 13))
		ps := uint64(1) << log2
		p := newEmuPlatform(dir, gpus, log2)
		ctx := p.drv.Init()
		st := p.drv.VerifGlobalStorage()
		pages := rng.Range(1, 4)
		// a neighbour buffer before and after to catch writes outside the range
		p.drv.AllocateMemory(ctx, ps)
		buf := p.drv.AllocateMemory(ctx, uint64(pages)*ps)
		p.drv.AllocateMemory(ctx, ps)
		if gpus > 1 && pages > 1 && rng.Bool() {
			ids := []int{}
			for g := 1; g <= gpus; g++ {
				ids = append(ids, g)
			}
			p.drv.Distribute(ctx, buf, uint64(pages)*ps, ids)
			r.Count("copy.distributed")
		}
		// the model sees the neighbour pages too
		base := uint64(buf) - ps
		total := pages + 2
		per := 40
		if per > n {
			per = n
		}
		for k := 0; k < per; k++ {
			n--
			seed := rng.Intn(200)
			pts, phys := ptString(p, ctx, base, total, ps)
			for i, ph := range phys {
				b := make([]byte, ph[1])
				for j := range b {
					b[j] = pagePattern(seed+i, j)
				}
				must(st.Write(ph[0], b))
			}
			size := uint64(pages) * ps
			off := uint64(rng.Pick(0, 0, 1, int(ps)-1, int(ps), int(ps)+1, rng.Intn(int(size))))
			if off >= size {
				off = size - 1
			}
			maxl := int(size - off)
			l := uint64(rng.Pick(1, 2, 63, 64, 65, int(ps), int(ps)+1, maxl, rng.Range(1, maxl)))
			if l > uint64(maxl) {
				l = uint64(maxl)
			}
			addr := uint64(buf) + off
			if rng.Chance(55) {
				data := make([]byte, l)
				for i := range data {
					data[i] = h2dByte(addr, uint64(i))
				}
				line := fmt.Sprintf("c11 h2d pt=%s addr=%x len=%d seed=%d", pts, addr, l, seed)
				ok, fault := withTimeout(20*time.Second, func() { p.drv.MemCopyH2D(ctx, driver.Ptr(addr), data) })
				if !ok {
					r.Failf("C11.copy.hang", line, "MemCopyH2D did not return")
					r.Case(line, "hang")
					return
				}
				if fault != "" {
					r.Case(line, "fault:"+fault)
					continue
				}
				var hs []string
				for _, ph := range phys {
					b, _ := st.Read(ph[0], ph[1])
					hs = append(hs, fmt.Sprintf("%x", fnv(b)))
				}
				r.Case(line, strings.Join(hs, ","))
				r.Count("copy.h2d")
				// oracle: range holds data; everything else holds the pattern
				r.Checked("copy.h2d-frame")
				checkH2DPhys(r, line, p, ctx, st, base, total, ps, seed, addr, data)
				// and the API reads it back
				back := make([]byte, l)
				p.drv.MemCopyD2H(ctx, back, driver.Ptr(addr))
				if string(back) != string(data) {
					r.Failf("C11.copy.roundtrip", line, "D2H(H2D(x)) != x (first diff at %d)", firstDiff(back, data))
				}
			} else {
				line := fmt.Sprintf("c11 d2h pt=%s addr=%x len=%d seed=%d", pts, addr, l, seed)
				back := make([]byte, l)
				ok, fault := withTimeout(20*time.Second, func() { p.drv.MemCopyD2H(ctx, back, driver.Ptr(addr)) })
				if !ok {
					r.Failf("C11.copy.hang", line, "MemCopyD2H did not return")
					r.Case(line, "hang")
					return
				}
				if fault != "" {
					r.Case(line, "fault:"+fault)
					continue
				}
				r.Case(line, fmt.Sprintf("%x", fnv(back)))
				r.Count("copy.d2h")
				r.Checked("copy.d2h-content")
				// oracle: bytes equal the pattern at the translated addresses
				pt := p.drv.VerifPageTable()
				for i := range back {
					va := addr + uint64(i)
					pg, _ := pt.Find(ctx.VerifPID(), va)
					pi := int((pg.VAddr - base) / ps)
					if back[i] != pagePattern(seed+pi, int(va-pg.VAddr)) {
						r.Failf("C11.copy.d2h-content", line, "byte %d wrong", i)
						break
					}
				}
			}
		}
		p.close()
	}
}

func firstDiff(a, b []byte) int {
	for i := range a {
		if i >= len(b) || a[i] != b[i] {
			return i
		}
	}
	return -1
}

func checkH2DPhys(r *Run, line string, p *platform, ctx *driver.Context, st *mem.Storage,
	base uint64, total int, ps uint64, seed int, addr uint64, data []byte) {
	pt := p.drv.VerifPageTable()
	for i := 0; i < total; i++ {
		va0 := base + uint64(i)*ps
		pg, ok := pt.Find(ctx.VerifPID(), va0)
		if !ok {
			continue
		}
		b, _ := st.Read(pg.PAddr, ps)
		for j := range b {
			va := va0 + uint64(j)
			want := pagePattern(seed+i, j)
			if va >= addr && va < addr+uint64(len(data)) {
				want = data[va-addr]
			}
			if b[j] != want {
				kind := "C11.copy.outside-range-changed"
				if va >= addr && va < addr+uint64(len(data)) {
					kind = "C11.copy.range-not-written"
				}
				r.Failf(kind, line, "vaddr %x phys byte %02x want %02x", va, b[j], want)
				return
			}
		}
	}
}

// copyCasesTiming: DMA path on a timing platform; oracle only (round trip + guard band).
func copyCasesTiming(r *Run, rng *Rng, n int, gpuType string) {
	gpus := rng.Pick(1, 2)
	p := newTimingPlatform(r.OutDir, gpus, gpuType, false)
	defer p.close()
	ctx := p.drv.Init()
	ps := uint64(4096)
	pages := 3
	size := uint64(pages) * ps
	buf := p.drv.AllocateMemory(ctx, size)
	if gpus > 1 {
		p.drv.Distribute(ctx, buf, size, []int{1, 2})
	}
	shadow := make([]byte, size)
	ok, _ := withTimeout(60*time.Second, func() { p.drv.MemCopyH2D(ctx, buf, shadow) })
	if !ok {
		r.Failf("C11.copy.hang", "timing init copy", "MemCopyH2D did not return")
		return
	}
	for k := 0; k < n; k++ {
		off := uint64(rng.Pick(0, 1, 63, 64, 65, int(ps)-1, int(ps), int(ps)+1, rng.Intn(int(size))))
		if off >= size {
			off = size - 1
		}
		maxl := int(size - off)
		l := rng.Pick(1, 3, 64, 65, 128, int(ps), maxl, rng.Range(1, maxl))
		if l > maxl {
			l = maxl
		}
		data := rng.Bytes(l)
		line := fmt.Sprintf("timing-copy %s gpus=%d off=%d len=%d seed=%d#%d", gpuType, gpus, off, l, r.Seed, k)
		ok, fault := withTimeout(60*time.Second, func() { p.drv.MemCopyH2D(ctx, driver.Ptr(uint64(buf)+off), data) })
		if !ok || fault != "" {
			r.Failf("C11.copy.hang-or-crash", line, "H2D ok=%v fault=%s", ok, fault)
			return
		}
		copy(shadow[off:], data)
		whole := make([]byte, size)
		ok, fault = withTimeout(60*time.Second, func() { p.drv.MemCopyD2H(ctx, whole, buf) })
		if !ok || fault != "" {
			r.Failf("C11.copy.hang-or-crash", line, "D2H ok=%v fault=%s", ok, fault)
			return
		}
		r.Checked("copy.timing-roundtrip")
		r.Count("copy.timing")
		if string(whole) != string(shadow) {
			d := firstDiff(whole, shadow)
			kind := "C11.copy.outside-range-changed"
			if uint64(d) >= off && uint64(d) < off+uint64(l) {
				kind = "C11.copy.roundtrip"
			}
			r.Failf(kind, line, "buffer differs from shadow at byte %d", d)
			copy(shadow, whole)
		}
		// partial read-back
		o2 := uint64(rng.Intn(int(size)))
		l2 := rng.Range(1, int(size-o2))
		part := make([]byte, l2)
		p.drv.MemCopyD2H(ctx, part, driver.Ptr(uint64(buf)+o2))
		r.Checked("copy.timing-partial")
		if string(part) != string(shadow[o2:o2+uint64(l2)]) {
			r.Failf("C11.copy.partial-read", line, "partial read (%d,%d) differs at %d", o2, l2, firstDiff(part, shadow[o2:]))
		}
	}
}

func runC11(r *Run, rng *Rng, replay string) {
	thorough := r.Tier == "thorough"
	// split: corners complete around unit boundaries + random
	for _, log2 := range []uint64{6, 4} {
		u := uint64(1) << log2
		for _, a := range []uint64{0, 1, u - 1, u, u + 1, 3*u - 1} {
			for _, l := range []uint64{1, 2, u - 1, u, u + 1, 2 * u, 2*u + 1, 5*u + 3} {
				splitCase(r, log2, 8192+a, l)
			}
		}
	}
	nsplit := 300
	if thorough {
		nsplit = 20000
	}
	for i := 0; i < nsplit; i++ {
		log2 := uint64(rng.Pick(6, 6, 3, 4, 5, 7, 8))
		splitCase(r, log2, uint64(rng.Intn(1<<14)), uint64(rng.Range(1, 700)))
	}
	// overlap: complete small grid + random
	g := uint64(7)
	if thorough {
		g = 11
	}
	for s1 := uint64(0); s1 < g; s1++ {
		for e1 := s1; e1 < g; e1++ {
			for s2 := uint64(0); s2 < g; s2++ {
				for e2 := s2; e2 < g; e2++ {
					overlapCase(r, s1, e1, s2, e2)
				}
			}
		}
	}
	for i := 0; i < 500; i++ {
		s1 := rng.U64() % 10000
		s2 := rng.U64() % 10000
		overlapCase(r, s1, s1+rng.U64()%5000, s2, s2+rng.U64()%5000)
	}
	// DMA scenarios
	nd := 200
	if thorough {
		nd = 10000
	}
	for i := 0; i < nd; i++ {
		runDmaScenario(r, genDmaScenario(rng, thorough && i%10 == 0))
		dmaOracle(r, rng)
	}
	// copies through the API
	nc := 600
	if thorough {
		nc = 12000
	}
	copyCasesEmu(r, rng, nc)
	nt := 25
	if thorough {
		nt = 400
	}
	copyCasesTiming(r, rng, nt, "r9nano")
	if thorough {
		copyCasesTiming(r, rng, nt, "mi300a")
	}
}
