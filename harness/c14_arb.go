package main

import (
	"fmt"
	"sort"
	"strconv"
	"strings"

	"github.com/sarchlab/akita/v4/sim"
	"github.com/sarchlab/mgpusim/v4/amd/insts"
	"github.com/sarchlab/mgpusim/v4/amd/kernels"
	"github.com/sarchlab/mgpusim/v4/amd/timing/cu"
	"github.com/sarchlab/mgpusim/v4/amd/timing/wavefront"
)

// Property C14, second pass: who may issue.
//
//	c14 arb mode=<a|d> last=<k> pools=<id:state:inst:unit:hazard,...|...> load=<n0,..,n5>
//
// A real compute unit (cu.MakeBuilder, register scoreboard on or off) whose four wavefront pools hold
// wavefronts in arbitrary states, with or without a decoded instruction of an arbitrary execution
// unit, with or without a scoreboard hazard (a busy SGPR the instruction reads), decode units
// pre-loaded with 0..4 wavefronts. mode=a runs the real IssueArbiter.Arbitrate, mode=d the real
// SchedulerImpl.DoIssue; several rounds on the same arbiter follow its round-robin pointer.
// Oracles on the real code: C14.arb.not-ready (a chosen / issued wavefront was not WfReady with a
// decoded instruction), C14.arb.hazard, C14.arb.two-per-unit (two wavefronts of one SIMD for the same
// unit type), C14.arb.skipped-oldest, C14.issue.state (DoIssue: exactly the accepted wavefronts become
// WfRunning, ExeUnitSpecial ones enter internalExecuting, nobody else changes).
func init() { register("C14", runC14Arb) }

func c14ArbInst(u int, hazard bool) *wavefront.Inst {
	raw := insts.NewInst()
	raw.InstType = &insts.InstType{InstName: "x", Opcode: 0, ExeUnit: insts.ExeUnit(u)}
	raw.Format = &insts.Format{FormatType: insts.SOP1}
	raw.ByteSize = 4
	if hazard {
		raw.Src0 = insts.NewSRegOperand(7, 7, 1)
	} else {
		raw.Src0 = insts.NewSRegOperand(9, 9, 1)
	}
	return wavefront.NewInst(raw)
}

type c14ArbWf struct {
	wf     *wavefront.Wavefront
	id     int
	hazard bool
}

func c14ArbCase(r *Run, rng *Rng) {
	sb := rng.Bool()
	c := cu.MakeBuilder().WithEngine(&fakeEngine{}).WithFreq(1 * sim.GHz).WithRegisterScoreboard(sb).Build("CU")
	sch := c.VerifScheduler()
	co := &insts.KernelCodeObject{KernelCodeObjectMeta: &insts.KernelCodeObjectMeta{}}
	var all []*c14ArbWf
	pools := make([][]*c14ArbWf, 4)
	n := rng.Range(0, 14)
	units := []int{0, 1, 2, 3, 4, 6}
	for i := 0; i < n; i++ {
		raw := kernels.NewWavefront()
		raw.CodeObject = co
		wf := wavefront.NewWavefront(raw)
		wf.SIMDID = rng.Intn(4)
		if rng.Chance(25) {
			wf.SIMDID = 0 // crowd one pool
		}
		wf.State = wavefront.WfState(rng.Pick(1, 1, 1, 1, 2, 3, 4, 0, 5))
		w := &c14ArbWf{wf: wf, id: i}
		if rng.Chance(85) {
			w.hazard = rng.Chance(25)
			wf.InstToIssue = c14ArbInst(units[rng.Intn(len(units))], w.hazard)
		}
		if rng.Chance(90) {
			s := cu.NewScoreboard()
			s.SGPRBusyUntil[7] = 3
			wf.ScoreboardData = s
		}
		wf.SetDynamicInst(c14ArbInst(0, false))
		c.WfPools[wf.SIMDID].AddWf(wf)
		all = append(all, w)
		pools[wf.SIMDID] = append(pools[wf.SIMDID], w)
	}
	load := make([]int, 6)
	dummy := func() *wavefront.Wavefront {
		raw := kernels.NewWavefront()
		raw.CodeObject = co
		wf := wavefront.NewWavefront(raw)
		wf.SetDynamicInst(c14ArbInst(0, false))
		return wf
	}
	for _, u := range []int{0, 1, 2, 4} {
		k := rng.Pick(0, 0, 0, 1, 3, 4)
		load[u] = k
		var unit cu.SubComponent
		switch u {
		case 0:
			unit = c.VectorDecoder
		case 1:
			unit = c.ScalarDecoder
		case 2:
			unit = c.VectorMemDecoder
		case 4:
			unit = c.LDSDecoder
		}
		for j := 0; j < k; j++ {
			unit.AcceptWave(dummy())
		}
	}
	if rng.Chance(30) {
		load[3] = 1
		c.BranchUnit.AcceptWave(dummy())
	}
	last := 0
	idOf := map[*wavefront.Wavefront]int{}
	for _, w := range all {
		idOf[w.wf] = w.id
	}
	for round := rng.Range(1, 3); round > 0; round-- {
		var ps []string
		for _, p := range pools {
			var ws []string
			for _, w := range p {
				inst, unit, hz := 0, 0, 0
				if w.wf.InstToIssue != nil {
					inst, unit = 1, int(w.wf.InstToIssue.ExeUnit)
					if sb && w.wf.ScoreboardData != nil && w.hazard {
						hz = 1
					}
				}
				ws = append(ws, fmt.Sprintf("%d:%d:%d:%d:%d", w.id, int(w.wf.State), inst, unit, hz))
			}
			if len(ws) == 0 {
				ps = append(ps, "-")
			} else {
				ps = append(ps, strings.Join(ws, ","))
			}
		}
		var ls []string
		for _, k := range load {
			ls = append(ls, strconv.Itoa(k))
		}
		mode := "a"
		if rng.Chance(60) {
			mode = "d"
		}
		line := fmt.Sprintf("c14 arb mode=%s last=%d pools=%s load=%s", mode, last, strings.Join(ps, "|"), strings.Join(ls, ","))
		before := map[int]wavefront.WfState{}
		hadInst := map[int]*wavefront.Inst{}
		for _, w := range all {
			before[w.id] = w.wf.State
			hadInst[w.id] = w.wf.InstToIssue
		}
		empty := n == 0
		out := ""
		fault := catch(func() {
			if mode == "a" {
				chosen := sch.VerifArbitrateIssue()
				var ids []string
				seen := map[[2]int]bool{}
				for _, wf := range chosen {
					id := idOf[wf]
					ids = append(ids, strconv.Itoa(id))
					r.Checked("arb.chosen")
					if wf.State != wavefront.WfReady || wf.InstToIssue == nil {
						r.Failf("C14.arb.not-ready", line, "the arbiter chose wavefront %d in state %d (decoded instruction: %v)", id, int(wf.State), wf.InstToIssue != nil)
						continue
					}
					if sb && wf.ScoreboardData != nil && wf.ScoreboardData.(*cu.Scoreboard).HasHazard(wf.InstToIssue.Inst) {
						r.Failf("C14.arb.hazard", line, "the arbiter chose wavefront %d although an operand of its instruction is busy in the scoreboard", id)
					}
					k := [2]int{wf.SIMDID, int(wf.InstToIssue.ExeUnit)}
					if seen[k] {
						r.Failf("C14.arb.two-per-unit", line, "two wavefronts of SIMD %d chosen for execution-unit type %d", k[0], k[1])
					}
					seen[k] = true
					for _, o := range pools[wf.SIMDID] { // an older eligible wavefront of the same pool and type must not be skipped
						if o.wf == wf {
							break
						}
						if o.wf.State == wavefront.WfReady && o.wf.InstToIssue != nil && o.wf.InstToIssue.ExeUnit == wf.InstToIssue.ExeUnit &&
							!(sb && o.wf.ScoreboardData != nil && o.hazard) {
							r.Failf("C14.arb.skipped-oldest", line, "wavefront %d chosen for unit type %d although the older wavefront %d of the same SIMD is eligible", id, k[1], o.id)
						}
					}
				}
				s := "-"
				if len(ids) > 0 {
					s = strings.Join(ids, ",")
				}
				if !empty {
					last = (last + 1) % 4
				}
				out = fmt.Sprintf("chosen=%s last=%d", s, last)
				return
			}
			nInt := len(sch.VerifInternalExecuting())
			sch.VerifDoIssue()
			var ints, runs []string
			for _, wf := range sch.VerifInternalExecuting()[nInt:] {
				ints = append(ints, strconv.Itoa(idOf[wf]))
			}
			inInt := map[int]bool{}
			for _, wf := range sch.VerifInternalExecuting() {
				inInt[idOf[wf]] = true
			}
			var runIDs []int
			for _, w := range all {
				r.Checked("issue.state")
				if w.wf.State != before[w.id] {
					if before[w.id] != wavefront.WfReady || hadInst[w.id] == nil || w.wf.State != wavefront.WfRunning {
						r.Failf("C14.issue.state", line, "DoIssue moved wavefront %d from state %d to %d (decoded instruction before: %v)", w.id, int(before[w.id]), int(w.wf.State), hadInst[w.id] != nil)
					}
					if hadInst[w.id] != nil && hadInst[w.id].ExeUnit == insts.ExeUnitSpecial {
						if !inInt[w.id] {
							r.Failf("C14.issue.state", line, "wavefront %d issued an ExeUnitSpecial instruction and is not in internalExecuting", w.id)
						}
					} else {
						runIDs = append(runIDs, w.id)
					}
					if w.wf.InstToIssue != nil {
						r.Failf("C14.issue.state", line, "wavefront %d was issued and keeps its InstToIssue (it would be issued twice)", w.id)
					}
				}
			}
			sort.Ints(runIDs)
			for _, id := range runIDs {
				runs = append(runs, strconv.Itoa(id))
				load[int(hadInst[id].ExeUnit)]++
			}
			si, sr := "-", "-"
			if len(ints) > 0 {
				si = strings.Join(ints, ",")
			}
			if len(runs) > 0 {
				sr = strings.Join(runs, ",")
			}
			if !empty {
				last = (last + 1) % 4
			}
			out = fmt.Sprintf("int=%s run=%s last=%d", si, sr, last)
		})
		if fault != "" {
			r.Failf("C14.arb.fault", line, "the real arbiter / DoIssue panicked: %s", fault)
			return
		}
		r.Count("arb:" + mode)
		r.Case(line, out)
	}
}

func runC14Arb(r *Run, rng *Rng, replay string) {
	n := 500
	if r.Tier == "thorough" {
		n = 15000
	}
	for k := 0; k < n; k++ {
		c14ArbCase(r, rng)
	}
}
