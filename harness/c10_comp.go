package main

// Property C10, composition of the allocator layer with buddy devices: whole-driver histories of ONE context
// (SelectGPU, AllocateMemory, FreeMemory, Remap, Distribute, RemovePage) through the real driver.Driver built with
// the buddy memory state on every device (CPU + 1-3 GPUs of 4096*2^F bytes), compared after every step with the
// composed Lean model `C10.Comp` (generic allocator code instantiated with the buddy model; case lines
// `c10 comp fs=<F>,… v= ; op ; …`): result of the op, the page table (Find over every candidate page) and the free
// blocks of EVERY device's buddy state per level in list order. Oracle `C10.comp.*`: the statement of theorem
// `driver_no_alias_buddy` on the real state after every step.

import (
	"fmt"
	"sort"
	"strconv"
	"strings"
)

func init() { register("C10", runC10Comp) }

func c10compFreeDump(s *c10Sys, dev int) (string, [][2]uint64, uint64, uint64) {
	bl, _ := s.drv.VerifBuddyFreeBlocks(dev)
	base, size := s.drv.VerifDeviceRange(dev)
	nl := 0
	for (uint64(4096) << nl) < size {
		nl++
	}
	lv := make([][]string, nl+1)
	for _, b := range bl {
		if int(b[1]) < len(lv) {
			lv[b[1]] = append(lv[b[1]], hexs(b[0]))
		}
	}
	parts := make([]string, len(lv))
	for i := range lv {
		parts[i] = strconv.Itoa(i) + ":" + strings.Join(lv[i], ",")
	}
	return strings.Join(parts, " "), bl, base, size
}

// the state dump of the case line and the oracle of driver_no_alias_buddy on the same state
func c10compDump(s *c10Sys) (dump, sig, det string) {
	es := s.entries()
	var pt []string
	frames := map[uint64]uint64{}
	for _, e := range es {
		pt = append(pt, fmt.Sprintf("%x>%x@%d", e.pg.VAddr, e.pg.PAddr, e.pg.DeviceID))
		if v, dup := frames[e.pg.PAddr]; dup && sig == "" {
			sig, det = "C10.comp.alias", fmt.Sprintf("physical page %x mapped at %x and %x", e.pg.PAddr, v, e.pg.VAddr)
		}
		frames[e.pg.PAddr] = e.pg.VAddr
	}
	var bd []string
	type blk struct{ lo, hi uint64 }
	var all []blk
	for d := 0; d < s.drv.VerifNumDevices(); d++ {
		str, bl, base, size := c10compFreeDump(s, d)
		bd = append(bd, str)
		for _, b := range bl {
			sz := size >> b[1]
			all = append(all, blk{b[0], b[0] + sz})
			if (b[0] < base || b[0]+sz > base+size) && sig == "" {
				sig, det = "C10.comp.free_outside", fmt.Sprintf("free block %x+%x of device %d outside [%x,%x)", b[0], sz, d, base, base+size)
			}
		}
	}
	for _, e := range es {
		base, size := s.drv.VerifDeviceRange(int(e.pg.DeviceID))
		if (e.pg.PAddr < base || e.pg.PAddr >= base+size) && sig == "" {
			sig, det = "C10.comp.frame_outside", fmt.Sprintf("%x -> %x recorded on device %d = [%x,%x)", e.pg.VAddr, e.pg.PAddr, e.pg.DeviceID, base, base+size)
		}
		for _, b := range all {
			if e.pg.PAddr >= b.lo && e.pg.PAddr < b.hi && sig == "" {
				sig, det = "C10.comp.frame_in_free", fmt.Sprintf("mapped frame %x (vaddr %x) inside the free block [%x,%x)", e.pg.PAddr, e.pg.VAddr, b.lo, b.hi)
			}
		}
	}
	sort.Slice(all, func(i, j int) bool { return all[i].lo < all[j].lo })
	for i := 1; i < len(all); i++ {
		if all[i].lo < all[i-1].hi && sig == "" {
			sig, det = "C10.comp.free_overlap", fmt.Sprintf("free blocks [%x,%x) and [%x,%x) overlap", all[i-1].lo, all[i-1].hi, all[i].lo, all[i].hi)
		}
	}
	return "PT{" + strings.Join(pt, ",") + "} BD{" + strings.Join(bd, " | ") + "}", sig, det
}

func c10compCase(r *Run, fs []int, verbose bool, next func(s *c10Sys, step int) string) {
	cpu := 1 << fs[0]
	var gpus []int
	var fss []string
	for i, f := range fs {
		fss = append(fss, strconv.Itoa(f))
		if i > 0 {
			gpus = append(gpus, 1<<f)
		}
	}
	s := newC10Sys(12, cpu, gpus, false, true)
	s.exec("init")
	cfg := fmt.Sprintf("c10 comp fs=%s v=%d", strings.Join(fss, ","), b2i(verbose))
	var ops, outs []string
	line := func() string { return cfg + " ; " + strings.Join(ops, " ; ") }
	loose := false // the ghost buffers of the harness no longer follow (RemovePage, malformed free): no crash verdicts
	for step := 0; ; step++ {
		op := next(s, step)
		if op == "" {
			break
		}
		ops = append(ops, op)
		r.Count("comp.op:" + strings.Fields(op)[0])
		res := s.exec(op)
		if s.tainted != "" {
			loose = true
		}
		if res.fault {
			outs = append(outs, res.out)
			r.Count("comp.outcome:" + res.out)
			if res.sig != "" && !loose {
				r.Failf(res.sig, line(), "%s", res.det)
			}
			break
		}
		d, sig, det := c10compDump(s)
		if verbose {
			outs = append(outs, res.out+" "+d)
		} else {
			outs = append(outs, res.out+" #"+strconv.FormatUint(fnvStr(d), 16))
		}
		r.Checked("comp.no_alias")
		if sig != "" {
			r.Failf(sig, line(), "%s", det)
			break
		}
	}
	r.Case(line(), strings.Join(outs, " ; "))
}

func c10compRandom(r *Run, rng *Rng, idx int) {
	ng := rng.Range(1, 3)
	fs := []int{rng.Pick(0, 1, 2, 3)}
	for i := 0; i < ng; i++ {
		fs = append(fs, rng.Pick(0, 1, 2, 3, 3, 4, 4, 5, 5))
	}
	ndev := ng + 1
	steps := rng.Range(6, 30)
	malformed := rng.Chance(15)
	dev := func() int {
		if malformed && rng.Chance(10) {
			return rng.Pick(0, ndev, ndev+1)
		}
		return rng.Range(1, ng)
	}
	next := func(s *c10Sys, step int) string {
		if step >= steps {
			return ""
		}
		var live []*c10Buf
		for _, b := range s.bufs {
			if !b.freed {
				live = append(live, b)
			}
		}
		w := rng.Intn(100)
		if len(live) >= 3 && w >= 22 && w < 40 {
			w = 60 + rng.Intn(40) // enough live buffers: remap / distribute / free instead of one more allocation
		}
		switch {
		case w < 8:
			return fmt.Sprintf("sel 0 %d", dev())
		case w < 40 || len(live) == 0:
			size := uint64(rng.Range(1, 4))*4096 + uint64(rng.Range(0, 2)) - 1
			if rng.Chance(10) {
				size = uint64(rng.Range(1, 200))
			}
			if malformed && rng.Chance(5) {
				size = 0
			}
			return fmt.Sprintf("alloc 0 %x", size)
		case w < 58:
			b := live[rng.Intn(len(live))]
			off := uint64(rng.Intn(int(b.pages)))
			n := uint64(rng.Range(1, int(b.pages-off)))
			size := n * 4096
			if rng.Chance(20) {
				size -= uint64(rng.Range(1, 4000))
			}
			if malformed && rng.Chance(10) {
				size = 0
			}
			return fmt.Sprintf("remap 0 %x %x %d", b.ptr+off*4096, size, dev())
		case w < 72:
			b := live[rng.Intn(len(live))]
			k := rng.Range(1, 3)
			var ids []int
			for i := 0; i < k; i++ {
				ids = append(ids, dev())
			}
			size := b.size
			if rng.Chance(30) {
				size = uint64(rng.Range(1, int(b.pages))) * 4096
			}
			return fmt.Sprintf("dist 0 %x %x %s", b.ptr, size, idList(ids))
		case w < 94:
			b := live[rng.Intn(len(live))]
			ptr := b.ptr
			if malformed && rng.Chance(15) {
				ptr += 4096 * uint64(rng.Range(0, 2))
			}
			return fmt.Sprintf("free 0 %x", ptr)
		default:
			b := live[rng.Intn(len(live))]
			return fmt.Sprintf("rmpage %x", b.ptr+4096*uint64(rng.Intn(int(b.pages))))
		}
	}
	r.Count(fmt.Sprintf("comp.devices=%d", ndev))
	c10compCase(r, fs, idx < 40, next)
}

func runC10Comp(r *Run, rng *Rng, replay string) {
	// the history of the Lean example (Props/C10Comp.lean `exOps`)
	script := []string{"alloc 0 2000", "alloc 0 64", "remap 0 1000 2000 2", "free 0 3000", "dist 0 1000 2000 1,2",
		"alloc 0 1000", "sel 0 2", "alloc 0 a", "rmpage 2000"}
	c10compCase(r, []int{2, 2, 2}, true, func(s *c10Sys, step int) string {
		if step < len(script) {
			return script[step]
		}
		return ""
	})
	rng = NewRng(rng.U64() ^ (r.Seed << 32) ^ 0xC0317)
	n := 200
	if r.Tier == "thorough" {
		n = 2500
	}
	for i := 0; i < n; i++ {
		c10compRandom(r, rng, i)
	}
}
